package main

// Source normalisation shared by the C15 extractors (property C15): behaviour-preserving rewrites of a parsed Go
// file that are undone before the statement-by-statement translation, so that a harmless refactoring of the
// anchored code keeps the translator tie available instead of degrading it to "unavailable". Every rewrite is an
// equivalence of Go programs (it does not look at which function it is in):
//
//   B1  x == false, x != true  ->  !x          x == true, x != false  ->  x         (x of type bool)
//   B2  !(a == b) -> a != b    !(a != b) -> a == b    !(a < b) -> a >= b  (and >, <=, >=: integers)    !!a -> a
//   B3  parentheses around an identifier, a call, a selector, a unary expression, or a whole condition are dropped
//   A1  x := f(p) (also x, y := f(p), g(q)) with f one of the pure predicates isFromAll / isToAll / validateStructOrMap,
//       p a parameter of the enclosing function that is never assigned, x never assigned again: x is replaced by f(p)
//   S1  switch T { case A, B: S1…; case C: S2… } without default / init / fallthrough / break, T a call without
//       arguments on a variable, x.Kind(), every case body but the last leaving the enclosing block (return,
//       continue): -> if T == A || T == B { S1… }; if T == C { S2… }
//   G1  directly in a loop body:  if c { continue }; REST   ->   if !c { REST }      (REST = the rest of the body)
//   H1  a private helper function that is NOT one of the functions known at the time the extractors were written
//       and is called exactly once in the file is inlined at its call site, for the two call shapes
//         lhs = h(args)  /  lhs := h(args)      h's body is straight-line statements ending in its only `return e`
//         if err := h(args); err != nil { BODY }   h returns one error; `return nil` only as its last statement;
//                                               every other `return X` becomes BODY with err := X substituted
//       with the parameters renamed to the (identifier) arguments; anything else is left alone.
//
// A shape that is not covered stays as it is, and the extractor then answers with the neutral file as before.

import (
	"bytes"
	"go/ast"
	"go/parser"
	"go/printer"
	"go/token"
	"strings"
)

// the top-level functions and methods of compose/field_mapping.go and compose/workflow.go when the extractors were
// written: never inlined (the extractors and the vocabulary know them by name)
var c15KnownFuncs = func() map[string]bool {
	m := map[string]bool{}
	for _, n := range strings.Fields(`AddBranch AddChatModelNode AddChatTemplateNode AddDependency AddDocumentTransformerNode
	AddEmbeddingNode AddEnd AddGraphNode AddIndexerNode AddInput AddInputWithOptions AddLambdaNode AddLoaderNode AddPassthroughNode
	AddRetrieverNode AddToolsNode Compile End Error FromField FromFieldPath MapFieldPaths MapFields NewWorkflow SetStaticValue String
	ToField ToFieldPath WithNoDirectDependency addDependencyRelation assignOne buildFieldMappingConverter
	buildStreamFieldMappingConverter canonicalTargetPath checkAndAddMappedPath checkAndExtractFieldType checkAndExtractFromField
	checkAndExtractFromMapKey checkAndExtractToField checkAndExtractToMapKey compile component convertTo extractFieldType fieldByName
	fieldMap getAddInputOpts getGenericHelper initNode inputType instantiateIfNeeded isFromAll isToAll join newInstanceByType outputType
	splitFieldPath streamFieldMap takeOne targetPath validateFieldMapping validateStaticValues validateStructOrMap`) {
		m[n] = true
	}
	return m
}()

// ---------------------------------------------------------------- a small rewriting engine

type c15rw struct {
	expr func(e ast.Expr) ast.Expr                // post-order hook on expressions (nil: identity)
	list func(l []ast.Stmt, loop bool) []ast.Stmt // post-order hook on statement lists (loop: the list is a loop body)
}

func (r *c15rw) e(x ast.Expr) ast.Expr {
	if x == nil {
		return nil
	}
	switch n := x.(type) {
	case *ast.ParenExpr:
		n.X = r.e(n.X)
	case *ast.UnaryExpr:
		n.X = r.e(n.X)
	case *ast.BinaryExpr:
		n.X, n.Y = r.e(n.X), r.e(n.Y)
	case *ast.CallExpr:
		n.Fun = r.e(n.Fun)
		for i := range n.Args {
			n.Args[i] = r.e(n.Args[i])
		}
	case *ast.SelectorExpr:
		n.X = r.e(n.X)
	case *ast.IndexExpr:
		n.X, n.Index = r.e(n.X), r.e(n.Index)
	case *ast.SliceExpr:
		n.X, n.Low, n.High, n.Max = r.e(n.X), r.e(n.Low), r.e(n.High), r.e(n.Max)
	case *ast.StarExpr:
		n.X = r.e(n.X)
	case *ast.TypeAssertExpr:
		n.X = r.e(n.X)
	case *ast.KeyValueExpr:
		n.Value = r.e(n.Value)
	case *ast.CompositeLit:
		for i := range n.Elts {
			n.Elts[i] = r.e(n.Elts[i])
		}
	case *ast.FuncLit:
		n.Body.List = r.l(n.Body.List, false)
	}
	if r.expr != nil {
		return r.expr(x)
	}
	return x
}

func (r *c15rw) es(l []ast.Expr) {
	for i := range l {
		l[i] = r.e(l[i])
	}
}

func (r *c15rw) s(x ast.Stmt) {
	switch n := x.(type) {
	case *ast.AssignStmt:
		r.es(n.Lhs)
		r.es(n.Rhs)
	case *ast.ExprStmt:
		n.X = r.e(n.X)
	case *ast.IncDecStmt:
		n.X = r.e(n.X)
	case *ast.ReturnStmt:
		r.es(n.Results)
	case *ast.DeclStmt:
		if gd, ok := n.Decl.(*ast.GenDecl); ok {
			for _, sp := range gd.Specs {
				if vs, ok := sp.(*ast.ValueSpec); ok {
					r.es(vs.Values)
				}
			}
		}
	case *ast.BlockStmt:
		n.List = r.l(n.List, false)
	case *ast.IfStmt:
		if n.Init != nil {
			r.s(n.Init)
		}
		n.Cond = r.e(n.Cond)
		n.Body.List = r.l(n.Body.List, false)
		if n.Else != nil {
			r.s(n.Else)
		}
	case *ast.ForStmt:
		if n.Init != nil {
			r.s(n.Init)
		}
		n.Cond = r.e(n.Cond)
		if n.Post != nil {
			r.s(n.Post)
		}
		n.Body.List = r.l(n.Body.List, true)
	case *ast.RangeStmt:
		n.X = r.e(n.X)
		n.Body.List = r.l(n.Body.List, true)
	case *ast.SwitchStmt:
		if n.Init != nil {
			r.s(n.Init)
		}
		n.Tag = r.e(n.Tag)
		for _, c := range n.Body.List {
			cc := c.(*ast.CaseClause)
			r.es(cc.List)
			cc.Body = r.l(cc.Body, false)
		}
	case *ast.TypeSwitchStmt:
		for _, c := range n.Body.List {
			cc := c.(*ast.CaseClause)
			cc.Body = r.l(cc.Body, false)
		}
	case *ast.LabeledStmt:
		r.s(n.Stmt)
	case *ast.DeferStmt:
		n.Call = r.e(n.Call).(*ast.CallExpr)
	case *ast.GoStmt:
		n.Call = r.e(n.Call).(*ast.CallExpr)
	}
}

func (r *c15rw) l(l []ast.Stmt, loop bool) []ast.Stmt {
	for _, s := range l {
		r.s(s)
	}
	if r.list != nil {
		return r.list(l, loop)
	}
	return l
}

// ---------------------------------------------------------------- helpers

func c15nIdent(e ast.Expr, name string) bool {
	id, ok := e.(*ast.Ident)
	return ok && id.Name == name
}

// occurrences of the identifier (as a variable: not the selector of x.f, not a key of a struct literal)
func c15nCount(n ast.Node, name string) int {
	c := 0
	ast.Inspect(n, func(x ast.Node) bool {
		switch y := x.(type) {
		case *ast.SelectorExpr:
			c += c15nCount(y.X, name)
			return false
		case *ast.KeyValueExpr:
			if _, isId := y.Key.(*ast.Ident); !isId {
				c += c15nCount(y.Key, name)
			}
			c += c15nCount(y.Value, name)
			return false
		case *ast.Ident:
			if y.Name == name {
				c++
			}
		}
		return true
	})
	return c
}

func c15nNegate(c ast.Expr) ast.Expr {
	switch x := c.(type) {
	case *ast.UnaryExpr:
		if x.Op == token.NOT {
			return c15nStrip(x.X)
		}
	case *ast.BinaryExpr:
		inv := map[token.Token]token.Token{token.EQL: token.NEQ, token.NEQ: token.EQL, token.LSS: token.GEQ, token.GEQ: token.LSS,
			token.GTR: token.LEQ, token.LEQ: token.GTR}
		if op, ok := inv[x.Op]; ok {
			return &ast.BinaryExpr{X: x.X, Op: op, Y: x.Y}
		}
		return &ast.UnaryExpr{Op: token.NOT, X: &ast.ParenExpr{X: c}}
	}
	return &ast.UnaryExpr{Op: token.NOT, X: c}
}

func c15nStrip(e ast.Expr) ast.Expr {
	for {
		p, ok := e.(*ast.ParenExpr)
		if !ok {
			return e
		}
		e = p.X
	}
}

func c15nAtomic(e ast.Expr) bool {
	switch e.(type) {
	case *ast.Ident, *ast.CallExpr, *ast.SelectorExpr, *ast.UnaryExpr, *ast.IndexExpr, *ast.BasicLit:
		return true
	}
	return false
}

// B1-B3
func c15nBoolExpr(e ast.Expr) ast.Expr {
	switch x := e.(type) {
	case *ast.ParenExpr:
		if c15nAtomic(x.X) {
			return x.X
		}
	case *ast.BinaryExpr:
		if x.Op == token.EQL || x.Op == token.NEQ {
			for _, side := range [2][2]ast.Expr{{x.X, x.Y}, {x.Y, x.X}} {
				lit, other := side[1], side[0]
				isT, isF := c15nIdent(lit, "true"), c15nIdent(lit, "false")
				if !isT && !isF {
					continue
				}
				if (x.Op == token.EQL) == isT {
					return other
				}
				return c15nBoolExpr(&ast.UnaryExpr{Op: token.NOT, X: other})
			}
		}
	case *ast.UnaryExpr:
		if x.Op == token.NOT {
			in := c15nStrip(x.X)
			switch y := in.(type) {
			case *ast.UnaryExpr:
				if y.Op == token.NOT {
					return c15nStrip(y.X)
				}
			case *ast.BinaryExpr:
				switch y.Op {
				case token.EQL, token.NEQ, token.LSS, token.GTR, token.LEQ, token.GEQ:
					return c15nNegate(y)
				}
			}
			if c15nAtomic(in) {
				x.X = in
			}
		}
	}
	return e
}

func c15nPrint(fset *token.FileSet, l []ast.Stmt) string {
	var b bytes.Buffer
	for _, s := range l {
		_ = printer.Fprint(&b, fset, s)
		b.WriteString("\n")
	}
	return b.String()
}

// deep copy of a statement list (print and parse again)
func c15nClone(l []ast.Stmt) ([]ast.Stmt, bool) {
	fs := token.NewFileSet()
	src := "package p\nfunc _() {\n" + c15nPrint(fs, l) + "}\n"
	f, err := parser.ParseFile(token.NewFileSet(), "", src, 0)
	if err != nil {
		return nil, false
	}
	return f.Decls[0].(*ast.FuncDecl).Body.List, true
}

// the names a statement list declares (:=, var, range)
func c15nDeclared(l []ast.Stmt) map[string]bool {
	out := map[string]bool{}
	for _, s := range l {
		ast.Inspect(s, func(x ast.Node) bool {
			switch y := x.(type) {
			case *ast.AssignStmt:
				if y.Tok == token.DEFINE {
					for _, e := range y.Lhs {
						if id, ok := e.(*ast.Ident); ok && id.Name != "_" {
							out[id.Name] = true
						}
					}
				}
			case *ast.RangeStmt:
				if y.Tok == token.DEFINE {
					for _, e := range []ast.Expr{y.Key, y.Value} {
						if id, ok := e.(*ast.Ident); ok && id.Name != "_" {
							out[id.Name] = true
						}
					}
				}
			case *ast.ValueSpec:
				for _, id := range y.Names {
					out[id.Name] = true
				}
			}
			return true
		})
	}
	return out
}

func c15nHasReturn(l []ast.Stmt) bool {
	found := false
	for _, s := range l {
		ast.Inspect(s, func(x ast.Node) bool {
			switch x.(type) {
			case *ast.FuncLit:
				return false
			case *ast.ReturnStmt:
				found = true
			}
			return true
		})
	}
	return found
}

func c15nHasJump(l []ast.Stmt) bool {
	found := false
	for _, s := range l {
		ast.Inspect(s, func(x ast.Node) bool {
			switch y := x.(type) {
			case *ast.FuncLit:
				return false
			case *ast.BranchStmt:
				if y.Label == nil {
					found = true
				}
			}
			return true
		})
	}
	return found
}

// substitute identifiers by expressions in a (private copy of a) statement list
func c15nSubst(l []ast.Stmt, m map[string]ast.Expr) []ast.Stmt {
	r := &c15rw{expr: func(e ast.Expr) ast.Expr {
		if id, ok := e.(*ast.Ident); ok {
			if to, ok := m[id.Name]; ok {
				return to
			}
		}
		return e
	}}
	return r.l(l, false)
}

// ---------------------------------------------------------------- H1: inlining of new helpers that are called once

type c15nHelper struct {
	fn     *ast.FuncDecl
	params []string
}

func c15nHelpers(f *ast.File) map[string]*c15nHelper {
	calls := map[string]int{}
	ast.Inspect(f, func(x ast.Node) bool {
		if c, ok := x.(*ast.CallExpr); ok {
			if id, ok := c.Fun.(*ast.Ident); ok {
				calls[id.Name]++
			}
		}
		return true
	})
	out := map[string]*c15nHelper{}
	for _, d := range f.Decls {
		fn, ok := d.(*ast.FuncDecl)
		if !ok || fn.Recv != nil || fn.Body == nil || fn.Type.TypeParams != nil || c15KnownFuncs[fn.Name.Name] ||
			ast.IsExported(fn.Name.Name) || calls[fn.Name.Name] != 1 || c15nCount(fn.Body, fn.Name.Name) > 0 {
			continue
		}
		h := &c15nHelper{fn: fn}
		ok = true
		for _, fl := range fn.Type.Params.List {
			if _, variadic := fl.Type.(*ast.Ellipsis); variadic || len(fl.Names) == 0 {
				ok = false
			}
			for _, n := range fl.Names {
				h.params = append(h.params, n.Name)
			}
		}
		// no named results, no defer / goto / labels (kept simple)
		if fn.Type.Results != nil {
			for _, fl := range fn.Type.Results.List {
				if len(fl.Names) > 0 {
					ok = false
				}
			}
		}
		ast.Inspect(fn.Body, func(x ast.Node) bool {
			switch x.(type) {
			case *ast.DeferStmt, *ast.LabeledStmt, *ast.GoStmt:
				ok = false
			}
			return true
		})
		if ok {
			out[fn.Name.Name] = h
		}
	}
	return out
}

// the helper's body with its parameters bound to the arguments of the call, as statements of the caller
func (h *c15nHelper) instantiate(call *ast.CallExpr, caller *ast.FuncDecl, lhs string) ([]ast.Stmt, bool) {
	if len(call.Args) != len(h.params) {
		return nil, false
	}
	body, ok := c15nClone(h.fn.Body.List)
	if !ok {
		return nil, false
	}
	// names the helper declares must be new to the caller
	for n := range c15nDeclared(body) {
		if c15nCount(caller, n) > 0 {
			return nil, false
		}
	}
	sub := map[string]ast.Expr{}
	var pre []ast.Stmt
	for i, p := range h.params {
		if p == "_" {
			continue
		}
		a := call.Args[i]
		assigned := false
		for _, s := range body {
			ast.Inspect(s, func(x ast.Node) bool {
				switch y := x.(type) {
				case *ast.AssignStmt:
					for _, e := range y.Lhs {
						if c15nIdent(e, p) {
							assigned = true
						}
					}
				case *ast.IncDecStmt:
					if c15nIdent(y.X, p) {
						assigned = true
					}
				case *ast.UnaryExpr:
					if y.Op == token.AND && c15nIdent(y.X, p) {
						assigned = true
					}
				}
				return true
			})
		}
		if id, isId := a.(*ast.Ident); isId && (!assigned || id.Name == lhs) {
			if id.Name != p {
				// the argument's name must not be captured by something the helper declares
				sub[p] = ast.NewIdent(id.Name)
			}
			continue
		}
		// any other argument: a fresh local of the parameter's name
		if c15nCount(caller, p) > 0 {
			return nil, false
		}
		pre = append(pre, &ast.AssignStmt{Lhs: []ast.Expr{ast.NewIdent(p)}, Tok: token.DEFINE, Rhs: []ast.Expr{a}})
	}
	return append(pre, c15nSubst(body, sub)...), true
}

func c15nInline(f *ast.File) {
	helpers := c15nHelpers(f)
	if len(helpers) == 0 {
		return
	}
	for _, d := range f.Decls {
		caller, ok := d.(*ast.FuncDecl)
		if !ok || caller.Body == nil {
			continue
		}
		if _, isHelper := helpers[caller.Name.Name]; isHelper && caller.Recv == nil {
			continue
		}
		r := &c15rw{}
		r.list = func(l []ast.Stmt, loop bool) []ast.Stmt {
			var out []ast.Stmt
			for _, s := range l {
				out = append(out, c15nInlineStmt(s, helpers, caller)...)
			}
			return out
		}
		caller.Body.List = r.l(caller.Body.List, false)
	}
}

func c15nInlineStmt(s ast.Stmt, helpers map[string]*c15nHelper, caller *ast.FuncDecl) []ast.Stmt {
	keep := []ast.Stmt{s}
	helperOf := func(e ast.Expr) (*c15nHelper, *ast.CallExpr) {
		c, ok := e.(*ast.CallExpr)
		if !ok {
			return nil, nil
		}
		id, ok := c.Fun.(*ast.Ident)
		if !ok {
			return nil, nil
		}
		return helpers[id.Name], c
	}
	switch x := s.(type) {
	case *ast.AssignStmt:
		// lhs = h(args): straight-line body ending in its only return
		if len(x.Lhs) != 1 || len(x.Rhs) != 1 {
			return keep
		}
		h, call := helperOf(x.Rhs[0])
		lid, isId := x.Lhs[0].(*ast.Ident)
		if h == nil || !isId {
			return keep
		}
		body, ok := h.instantiate(call, caller, lid.Name)
		if !ok || len(body) == 0 {
			return keep
		}
		last, isRet := body[len(body)-1].(*ast.ReturnStmt)
		if !isRet || len(last.Results) != 1 || c15nHasReturn(body[:len(body)-1]) {
			return keep
		}
		out := body[:len(body)-1]
		if !(x.Tok == token.ASSIGN && c15nIdent(last.Results[0], lid.Name)) {
			out = append(out, &ast.AssignStmt{Lhs: x.Lhs, Tok: x.Tok, Rhs: []ast.Expr{last.Results[0]}})
		}
		return out
	case *ast.IfStmt:
		// if err := h(args); err != nil { BODY }
		init, ok := x.Init.(*ast.AssignStmt)
		if !ok || x.Else != nil || init.Tok != token.DEFINE || len(init.Lhs) != 1 || len(init.Rhs) != 1 {
			return keep
		}
		h, call := helperOf(init.Rhs[0])
		ev, isId := init.Lhs[0].(*ast.Ident)
		if h == nil || !isId {
			return keep
		}
		cond, ok := x.Cond.(*ast.BinaryExpr)
		if !ok || cond.Op != token.NEQ || !c15nIdent(cond.X, ev.Name) || !c15isNil(cond.Y) {
			return keep
		}
		if h.fn.Type.Results == nil || len(h.fn.Type.Results.List) != 1 || !c15nIdent(h.fn.Type.Results.List[0].Type, "error") {
			return keep
		}
		if c15nHasJump(x.Body.List) || c15nCount(x.Body, ev.Name) != 1 {
			return keep
		}
		body, ok := h.instantiate(call, caller, "")
		if !ok || len(body) == 0 {
			return keep
		}
		last, isRet := body[len(body)-1].(*ast.ReturnStmt)
		if !isRet || len(last.Results) != 1 || !c15isNil(last.Results[0]) {
			return keep
		}
		body = body[:len(body)-1]
		good := true
		var repl func(l []ast.Stmt) []ast.Stmt
		repl = func(l []ast.Stmt) []ast.Stmt {
			var out []ast.Stmt
			for _, st := range l {
				switch y := st.(type) {
				case *ast.ReturnStmt:
					if len(y.Results) != 1 || c15isNil(y.Results[0]) {
						good = false
						return l
					}
					cp, ok := c15nClone(x.Body.List)
					if !ok {
						good = false
						return l
					}
					out = append(out, c15nSubst(cp, map[string]ast.Expr{ev.Name: y.Results[0]})...)
					continue
				case *ast.BlockStmt:
					y.List = repl(y.List)
				case *ast.IfStmt:
					y.Body.List = repl(y.Body.List)
					switch e := y.Else.(type) {
					case *ast.BlockStmt:
						e.List = repl(e.List)
					case *ast.IfStmt:
						y.Else = repl([]ast.Stmt{e})[0]
					}
				case *ast.ForStmt:
					y.Body.List = repl(y.Body.List)
				case *ast.RangeStmt:
					y.Body.List = repl(y.Body.List)
				case *ast.SwitchStmt, *ast.TypeSwitchStmt, *ast.SelectStmt:
					if c15nHasReturn([]ast.Stmt{st}) {
						good = false
					}
				}
				out = append(out, st)
			}
			return out
		}
		body = repl(body)
		if !good {
			return keep
		}
		return body
	}
	return keep
}

// A1: is the statement x := f(p) / x, y := f(p), g(q) with pure predicates on never-assigned parameters, the
// variables never assigned again
func c15nPureAlias(fn *ast.FuncDecl, as *ast.AssignStmt) bool {
	if as.Tok != token.DEFINE || len(as.Lhs) != len(as.Rhs) {
		return false
	}
	assignedElsewhere := func(name string) bool {
		n := 0
		ast.Inspect(fn.Body, func(x ast.Node) bool {
			switch y := x.(type) {
			case *ast.AssignStmt:
				for _, e := range y.Lhs {
					if c15nIdent(e, name) {
						n++
					}
				}
			case *ast.IncDecStmt:
				if c15nIdent(y.X, name) {
					n++
				}
			case *ast.UnaryExpr:
				if y.Op == token.AND && c15nIdent(y.X, name) {
					n += 2
				}
			case *ast.RangeStmt:
				if c15nIdent(y.Key, name) || c15nIdent(y.Value, name) {
					n++
				}
			}
			return true
		})
		return n > 0
	}
	params := map[string]bool{}
	for _, fl := range fn.Type.Params.List {
		for _, n := range fl.Names {
			params[n.Name] = true
		}
	}
	for k := range as.Lhs {
		id, ok := as.Lhs[k].(*ast.Ident)
		if !ok || id.Name == "_" {
			return false
		}
		// the only assignment to the variable is this definition
		n := 0
		ast.Inspect(fn.Body, func(x ast.Node) bool {
			if y, ok := x.(*ast.AssignStmt); ok {
				for _, e := range y.Lhs {
					if c15nIdent(e, id.Name) {
						n++
					}
				}
			}
			return true
		})
		if n != 1 {
			return false
		}
		call, ok := as.Rhs[k].(*ast.CallExpr)
		if !ok || len(call.Args) != 1 {
			return false
		}
		f, ok := call.Fun.(*ast.Ident)
		if !ok || !(f.Name == "isFromAll" || f.Name == "isToAll" || f.Name == "validateStructOrMap") {
			return false
		}
		arg, ok := call.Args[0].(*ast.Ident)
		if !ok || !params[arg.Name] || assignedElsewhere(arg.Name) {
			return false
		}
	}
	return true
}

// S1
func c15nSwitchToIfs(sw *ast.SwitchStmt) ([]ast.Stmt, bool) {
	if sw.Init != nil || sw.Tag == nil || len(sw.Body.List) == 0 {
		return nil, false
	}
	call, ok := sw.Tag.(*ast.CallExpr)
	if !ok || len(call.Args) != 0 {
		return nil, false
	}
	sel, ok := call.Fun.(*ast.SelectorExpr)
	if !ok {
		return nil, false
	}
	if _, ok := sel.X.(*ast.Ident); !ok || sel.Sel.Name != "Kind" {
		return nil, false
	}
	var out []ast.Stmt
	for i, c := range sw.Body.List {
		cc := c.(*ast.CaseClause)
		if cc.List == nil || len(cc.Body) == 0 || c15nHasJumpTok(cc.Body, token.BREAK) || c15nHasJumpTok(cc.Body, token.FALLTHROUGH) {
			return nil, false
		}
		if i < len(sw.Body.List)-1 {
			switch y := cc.Body[len(cc.Body)-1].(type) {
			case *ast.ReturnStmt:
			case *ast.BranchStmt:
				if y.Tok != token.CONTINUE {
					return nil, false
				}
			default:
				return nil, false
			}
		}
		var cond ast.Expr
		for _, v := range cc.List {
			t := ast.Expr(&ast.BinaryExpr{X: sw.Tag, Op: token.EQL, Y: v})
			if cond == nil {
				cond = t
			} else {
				cond = &ast.BinaryExpr{X: cond, Op: token.LOR, Y: t}
			}
		}
		out = append(out, &ast.IfStmt{Cond: cond, Body: &ast.BlockStmt{List: cc.Body}})
	}
	return out, true
}

func c15nHasJumpTok(l []ast.Stmt, tok token.Token) bool {
	found := false
	for _, s := range l {
		ast.Inspect(s, func(x ast.Node) bool {
			switch y := x.(type) {
			case *ast.FuncLit:
				return false
			case *ast.BranchStmt:
				if y.Tok == tok {
					found = true
				}
			}
			return true
		})
	}
	return found
}

// ---------------------------------------------------------------- the pass

func c15Normalize(f *ast.File) {
	c15nInline(f)
	for _, d := range f.Decls {
		fn, ok := d.(*ast.FuncDecl)
		if !ok || fn.Body == nil {
			continue
		}
		r := &c15rw{expr: c15nBoolExpr}
		r.list = func(l []ast.Stmt, loop bool) []ast.Stmt {
			var out []ast.Stmt
			for i := 0; i < len(l); i++ {
				if sw, ok := l[i].(*ast.SwitchStmt); ok {
					if ifs, ok := c15nSwitchToIfs(sw); ok {
						out = append(out, ifs...)
						continue
					}
				}
				if as, ok := l[i].(*ast.AssignStmt); ok && c15nPureAlias(fn, as) {
					sub := map[string]ast.Expr{}
					for k, e := range as.Lhs {
						sub[e.(*ast.Ident).Name] = as.Rhs[k]
					}
					rest := c15nSubst(append([]ast.Stmt{}, l[i+1:]...), sub)
					return append(out, r.list(rest, loop)...)
				}
				is, ok := l[i].(*ast.IfStmt)
				if !ok {
					out = append(out, l[i])
					continue
				}
				is.Cond = c15nStrip(is.Cond)
				// G1: a bare guard `if c { continue }` directly in a loop body
				if loop && is.Init == nil && is.Else == nil && len(is.Body.List) == 1 && i+1 < len(l) {
					if br, ok := is.Body.List[0].(*ast.BranchStmt); ok && br.Tok == token.CONTINUE && br.Label == nil {
						rest := r.list(append([]ast.Stmt{}, l[i+1:]...), true)
						out = append(out, &ast.IfStmt{Cond: c15nBoolExpr(c15nNegate(is.Cond)), Body: &ast.BlockStmt{List: rest}})
						return out
					}
				}
				out = append(out, is)
			}
			return out
		}
		fn.Body.List = r.l(fn.Body.List, false)
	}
}
