package main

// Extractor "chainlower" (property C01): compose/chain.go, the methods of Chain that lower a chain to graph
// nodes and edges — reportError, nextNodeKey, addNode, AppendParallel, AppendBranch, addEndIfNeeded — translated
// statement by statement (c01_imp.go) into Gallina functions over the record [chain_st] of Model/ChainGenLib.v
// (the fields err, gg, nodeIdx, preNodeKeys, hasEnd of Chain).  The graph the chain builds (c.gg) is abstract:
// its operations addNode / AddEdge / AddBranch are Section variables that return the changed graph and an error
// value; so are the accessors of the Parallel / ChainBranch / node arguments and the key format (fmt.Sprintf).
// The statements of AppendBranch that build the GraphBranch handed to the graph (a copy of the ChainBranch's
// condition whose results are translated from branch keys to node keys by two closures) are not translated: they
// are checked to touch nothing but the branch and the key map and appear as [mk_branch b key2NodeKey].
//
// Output: coq/Gen/ChainLower.v.  Proofs/GenAgreeChainLower.v proves that folding the generated functions over the
// stages of a chain and calling the generated addEndIfNeeded builds exactly the graph [chain_lower] of
// Model/Chain.v, and reports an error exactly when [chain_compiles] of Model/ChainCompile.v says so.

import (
	"fmt"
	"go/ast"
	"go/token"
	"strings"
)

func init() {
	register("chainlower", c01ExtractChainLower)
	registerFallback("chainlower", "ChainLower.v", "(* Gen/ChainLower.v — translator tie UNAVAILABLE: tools/go2v (extractor \"chainlower\") did not recognise the\n"+
		"   shape of compose/chain.go; the model's own definitions (Model/ChainLowerSpec.v) are re-exported. *)\n"+
		"From Eino Require Import Base.Util Model.Graph Model.ImpGenLib Model.ChainGenLib Model.ChainLowerSpec.\n\n"+
		"Definition tie_available : bool := false.\n\n"+
		c01ChainSection+
		"  Definition chain_reportError (c : chain_st G) (err : option N) : chain_st G :=\n    Model.ChainLowerSpec.chain_reportError G c err.\n"+
		"  Definition chain_nextNodeKey (c : chain_st G) : key * chain_st G :=\n    Model.ChainLowerSpec.chain_nextNodeKey G auto_key c.\n"+
		"  Definition chain_addNode (c : chain_st G) (node : GN) (options : GO) : chain_st G :=\n"+
		"    Model.ChainLowerSpec.chain_addNode G GN GO err_code err_compiled auto_key k_empty g_compiled g_add_node g_add_edge gn_is_nil opts_key c node options.\n"+
		"  Definition chain_AppendParallel (c : chain_st G) (p : PAR) : chain_st G :=\n    let _ := zero_pair in\n"+
		"    Model.ChainLowerSpec.chain_AppendParallel G GN GO PR PAR err_code auto_key k_empty g_add_node g_add_edge opts_key opts_present opts_has_node_options\n"+
		"      pr_first pr_second par_is_nil par_err par_nodes c p.\n"+
		"  Definition chain_AppendBranch (c : chain_st G) (b : CB) : chain_st G :=\n"+
		"    Model.ChainLowerSpec.chain_AppendBranch G GN GO PR CB GB err_code auto_key k_empty zero_pair g_add_node g_add_branch opts_key opts_present opts_has_node_options\n"+
		"      pr_first pr_second br_is_nil br_err br_nodes mk_branch c b.\n"+
		"  Definition chain_addEndIfNeeded (c : chain_st G) : option N * chain_st G :=\n    Model.ChainLowerSpec.chain_addEndIfNeeded G err_code g_add_edge c.\n"+
		"End Gen.\n")
}

const c01ChainSection = "Section Gen.\n  Variables G GN GO PR PAR CB GB : Type.\n  Variable err_code : nat -> N.\n  Variable err_compiled : N.                                   (* ErrChainCompiled *)\n  Variable auto_key : string -> list fmt_arg -> key.            (* fmt.Sprintf *)\n  Variable k_empty : key.                                       (* \"\" *)\n  Variable zero_pair : PR.\n  Variable g_compiled : G -> bool.                              (* c.gg.compiled *)\n  Variable g_add_node : G -> key -> GN -> GO -> G * option N.   (* c.gg.addNode *)\n  Variable g_add_edge : G -> key -> key -> G * option N.        (* c.gg.AddEdge *)\n  Variable g_add_branch : G -> key -> GB -> G * option N.       (* c.gg.AddBranch *)\n  Variable gn_is_nil : GN -> bool.\n  Variable opts_key : GO -> key.                                (* options.nodeOptions.nodeKey *)\n  Variables opts_present opts_has_node_options : GO -> bool.\n  Variable pr_first : PR -> GN.\n  Variable pr_second : PR -> GO.\n  Variable par_is_nil : PAR -> bool.\n  Variable par_err : PAR -> option N.\n  Variable par_nodes : PAR -> list PR.\n  Variable br_is_nil : CB -> bool.\n  Variable br_err : CB -> option N.\n  Variable br_nodes : CB -> list (key * PR).                    (* b.key2BranchNode *)\n  Variable mk_branch : CB -> list (key * key) -> GB.            (* the GraphBranch built from the ChainBranch and key2NodeKey *)\n\n"

// a method of the generic type Chain[I, O]
func c01ChainMethod(f *ast.File, name string) (*ast.FuncDecl, string) {
	for _, d := range f.Decls {
		fn, ok := d.(*ast.FuncDecl)
		if !ok || fn.Recv == nil || fn.Name.Name != name || len(fn.Recv.List) != 1 || fn.Body == nil {
			continue
		}
		st, ok := fn.Recv.List[0].Type.(*ast.StarExpr)
		if !ok {
			continue
		}
		var base ast.Expr = st.X
		switch x := st.X.(type) {
		case *ast.IndexListExpr:
			base = x.X
		case *ast.IndexExpr:
			base = x.X
		}
		if id, ok := base.(*ast.Ident); ok && id.Name == "Chain" && len(fn.Recv.List[0].Names) == 1 {
			return fn, fn.Recv.List[0].Names[0].Name
		}
	}
	return nil, ""
}

func c01ChainTr(name string) *c01Tr {
	t := c01NewTr("Chain." + name)
	t.fields["c.err"] = c01Field{"c", "ch_err", "ch_set_err", "oerr"}
	t.fields["c.gg"] = c01Field{"c", "ch_g", "ch_set_g", "graph"}
	t.fields["c.nodeIdx"] = c01Field{"c", "ch_idx", "ch_set_idx", "nat"}
	t.fields["c.preNodeKeys"] = c01Field{"c", "ch_prev", "ch_set_prev", "keys"}
	t.fields["c.hasEnd"] = c01Field{"c", "ch_has_end", "ch_set_has_end", "bool"}
	t.sels["c.gg.compiled"] = c01Var{"(g_compiled (ch_g c))", "bool"}
	t.consts["START"] = c01Var{"kSTART", "key"}
	t.consts["END"] = c01Var{"kEND", "key"}
	t.consts["ErrChainCompiled"] = c01Var{"(Some err_compiled)", "oerr"}
	t.calls["c.reportError"] = c01Call{sym: "chain_reportError", state: "c"}
	t.calls["c.nextNodeKey"] = c01Call{sym: "chain_nextNodeKey", state: "c", result: "key"}
	t.calls["c.gg.addNode"] = c01Call{sym: "g_add_node", errVal: true, stateExpr: "c.gg", state: "?"}
	t.calls["c.gg.AddEdge"] = c01Call{sym: "g_add_edge", errVal: true, stateExpr: "c.gg", state: "?"}
	t.calls["c.gg.AddBranch"] = c01Call{sym: "g_add_branch", errVal: true, stateExpr: "c.gg", state: "?"}
	t.calls["c01MkBranch"] = c01Call{sym: "mk_branch", result: "gbranch"}
	t.types["graph"], t.types["gnode"], t.types["gopts"], t.types["pair"], t.types["gbranch"] = "G", "GN", "GO", "PR", "GB"
	t.types["par"], t.types["cbranch"], t.types["chain"] = "PAR", "CB", "chain_st G"
	t.elemOf["pairs"] = "pair"
	t.zero["pair"] = "zero_pair"
	t.maps["bnodes"] = c01MapKind{keys: "bn_keys", get: "bn_get zero_pair", elem: "pair"}
	t.env = []c01Var{{"c", "chain"}}
	t.states = []string{"c"}
	return t
}

// the selectors of a (node, options) pair held in the variable v
func c01PairSels(t *c01Tr, v string) {
	t.sels[v+".First"] = c01Var{"(pr_first " + v + ")", "gnode"}
	t.sels[v+".Second"] = c01Var{"(pr_second " + v + ")", "gopts"}
	t.sels[v+".Second!=nil"] = c01Var{"(opts_present (pr_second " + v + "))", "bool"}
	t.sels[v+".Second.nodeOptions!=nil"] = c01Var{"(opts_has_node_options (pr_second " + v + "))", "bool"}
	t.sels[v+".Second.nodeOptions.nodeKey"] = c01Var{"(opts_key (pr_second " + v + "))", "key"}
}

// AppendBranch: the statements from `gBranch := *b.internalBranch` to the last assignment to a field of gBranch
// build the GraphBranch; they may only mention b, key2NodeKey, gBranch, the two closures and what the closures
// declare. They are replaced by `gBranch := c01MkBranch(b, key2NodeKey)`.
func c01FoldBranchConstruction(body []ast.Stmt, env map[string]bool) ([]ast.Stmt, error) {
	first, last := -1, -1
	local := map[string]bool{"gBranch": true}
	for i, s := range body {
		as, ok := s.(*ast.AssignStmt)
		if !ok || len(as.Lhs) != 1 || len(as.Rhs) != 1 {
			continue
		}
		lhs := c01Squash(as.Lhs[0])
		if lhs == "gBranch" && as.Tok == token.DEFINE {
			if c01Squash(as.Rhs[0]) != "*b.internalBranch" {
				return nil, fmt.Errorf("AppendBranch: gBranch is not a copy of *b.internalBranch")
			}
			first = i
		}
		if first >= 0 && strings.HasPrefix(lhs, "gBranch.") {
			last = i
		}
	}
	if first < 0 || last < first {
		return nil, fmt.Errorf("AppendBranch: construction of gBranch not found")
	}
	for _, s := range body[first : last+1] {
		as, ok := s.(*ast.AssignStmt)
		if !ok || len(as.Lhs) != 1 || len(as.Rhs) != 1 {
			return nil, fmt.Errorf("AppendBranch: statement inside the construction of gBranch is not an assignment")
		}
		lhs := c01Squash(as.Lhs[0])
		switch {
		case lhs == "gBranch":
		case strings.HasPrefix(lhs, "gBranch."):
		case as.Tok == token.DEFINE:
			if _, ok := as.Rhs[0].(*ast.FuncLit); !ok {
				return nil, fmt.Errorf("AppendBranch: %s inside the construction of gBranch is not a closure", lhs)
			}
			local[lhs] = true
		default:
			return nil, fmt.Errorf("AppendBranch: assignment to %s inside the construction of gBranch", lhs)
		}
		// identifiers of the enclosing method that the statement mentions (names a closure declares itself —
		// parameters, results, :=, range variables — are its own)
		own := map[string]bool{}
		ast.Inspect(as.Rhs[0], func(n ast.Node) bool {
			switch x := n.(type) {
			case *ast.FuncType:
				for _, fl := range []*ast.FieldList{x.Params, x.Results} {
					if fl != nil {
						for _, f := range fl.List {
							for _, nm := range f.Names {
								own[nm.Name] = true
							}
						}
					}
				}
			case *ast.AssignStmt:
				if x.Tok == token.DEFINE {
					for _, lh := range x.Lhs {
						if id, ok := lh.(*ast.Ident); ok {
							own[id.Name] = true
						}
					}
				}
			case *ast.RangeStmt:
				if x.Tok == token.DEFINE {
					for _, e := range []ast.Expr{x.Key, x.Value} {
						if id, ok := e.(*ast.Ident); ok {
							own[id.Name] = true
						}
					}
				}
			}
			return true
		})
		var bad string
		ast.Inspect(as.Rhs[0], func(n ast.Node) bool {
			if sel, ok := n.(*ast.SelectorExpr); ok {
				// only the root of a selector is a variable
				ast.Inspect(sel.X, func(m ast.Node) bool {
					if id, ok := m.(*ast.Ident); ok && env[id.Name] && id.Name != "b" && id.Name != "key2NodeKey" && !local[id.Name] && !own[id.Name] {
						bad = id.Name
					}
					return bad == ""
				})
				return false
			}
			if id, ok := n.(*ast.Ident); ok && env[id.Name] && id.Name != "b" && id.Name != "key2NodeKey" && !local[id.Name] && !own[id.Name] {
				bad = id.Name
			}
			return bad == ""
		})
		if bad != "" {
			return nil, fmt.Errorf("AppendBranch: the construction of gBranch mentions %s", bad)
		}
	}
	mk := &ast.AssignStmt{Lhs: []ast.Expr{ast.NewIdent("gBranch")}, Tok: token.DEFINE,
		Rhs: []ast.Expr{&ast.CallExpr{Fun: ast.NewIdent("c01MkBranch"), Args: []ast.Expr{ast.NewIdent("b"), ast.NewIdent("key2NodeKey")}}}}
	out := append([]ast.Stmt{}, body[:first]...)
	out = append(out, mk)
	out = append(out, body[last+1:]...)
	return out, nil
}

func c01ExtractChainLower(repo string) (string, string, error) {
	f, err := c01ParseGo(repo, "compose", "chain.go")
	if err != nil {
		return "", "", err
	}
	type spec struct {
		name, out, sig string
		params         []c01Var
		setup          func(t *c01Tr)
	}
	specs := []spec{
		{"reportError", "chain_reportError", "(c : chain_st G) (err : option N) : chain_st G", []c01Var{{"err", "oerr"}},
			func(t *c01Tr) { t.retRecv = "c" }},
		{"nextNodeKey", "chain_nextNodeKey", "(c : chain_st G) : key * chain_st G", nil,
			func(t *c01Tr) { t.results = []string{"key"} }},
		{"addNode", "chain_addNode", "(c : chain_st G) (node : GN) (options : GO) : chain_st G", []c01Var{{"node", "gnode"}, {"options", "gopts"}},
			func(t *c01Tr) {
				t.retRecv = "c"
				t.sels["node==nil"] = c01Var{"(gn_is_nil node)", "bool"}
				t.sels["options.nodeOptions.nodeKey"] = c01Var{"(opts_key options)", "key"}
			}},
		{"AppendParallel", "chain_AppendParallel", "(c : chain_st G) (p : PAR) : chain_st G", []c01Var{{"p", "par"}},
			func(t *c01Tr) {
				t.retRecv = "c"
				t.sels["p==nil"] = c01Var{"(par_is_nil p)", "bool"}
				t.sels["p.err"] = c01Var{"(par_err p)", "oerr"}
				t.sels["p.nodes"] = c01Var{"(par_nodes p)", "pairs"}
				c01PairSels(t, "node")
			}},
		{"AppendBranch", "chain_AppendBranch", "(c : chain_st G) (b : CB) : chain_st G", []c01Var{{"b", "cbranch"}},
			func(t *c01Tr) {
				t.retRecv = "c"
				t.sels["b==nil"] = c01Var{"(br_is_nil b)", "bool"}
				t.sels["b.err"] = c01Var{"(br_err b)", "oerr"}
				t.sels["b.key2BranchNode"] = c01Var{"(br_nodes b)", "bnodes"}
				c01PairSels(t, "node")
			}},
		{"addEndIfNeeded", "chain_addEndIfNeeded", "(c : chain_st G) : option N * chain_st G", nil,
			func(t *c01Tr) { t.results = []string{"oerr"} }},
	}
	var b strings.Builder
	b.WriteString("(* Gen/ChainLower.v — GENERATED by tools/go2v (extractor \"chainlower\") from compose/chain.go\n")
	b.WriteString("   (Chain.reportError, nextNodeKey, addNode, AppendParallel, AppendBranch, addEndIfNeeded, translated\n   statement by statement). Do not edit. *)\n")
	b.WriteString("From Eino Require Import Base.Util Model.Graph Model.ImpGenLib Model.ChainGenLib.\n\n")
	b.WriteString("Definition tie_available : bool := true.\n\n")
	b.WriteString(c01ChainSection)
	for _, sp := range specs {
		fn, recv := c01ChainMethod(f, sp.name)
		if fn == nil {
			return "", "", fmt.Errorf("method (*Chain).%s not found", sp.name)
		}
		if recv != "c" {
			return "", "", fmt.Errorf("Chain.%s: receiver is named %q", sp.name, recv)
		}
		var want []string
		for _, p := range sp.params {
			want = append(want, p.name)
		}
		if got := c01ParamNames(fn); strings.Join(got, ",") != strings.Join(want, ",") {
			return "", "", fmt.Errorf("Chain.%s: parameters %v", sp.name, got)
		}
		t := c01ChainTr(sp.name)
		t.env = append(t.env, sp.params...)
		sp.setup(t)
		inl, err := c01NewInl(repo, []string{"compose", "chain.go"}, "Chain", recv, fn, func(c *ast.CallExpr) bool { _, _, ok := t.callOf(c); return ok })
		if err != nil {
			return "", "", err
		}
		body := inl.body(fn.Body.List)
		if sp.name == "AppendBranch" {
			env := map[string]bool{"c": true}
			ast.Inspect(fn.Body, func(n ast.Node) bool {
				if _, ok := n.(*ast.FuncLit); ok {
					return false
				}
				if as, ok := n.(*ast.AssignStmt); ok && as.Tok == token.DEFINE {
					for _, lh := range as.Lhs {
						if id, ok := lh.(*ast.Ident); ok {
							env[id.Name] = true
						}
					}
				}
				if ds, ok := n.(*ast.DeclStmt); ok {
					if gd, ok := ds.Decl.(*ast.GenDecl); ok {
						for _, s := range gd.Specs {
							if vs, ok := s.(*ast.ValueSpec); ok {
								for _, nm := range vs.Names {
									env[nm.Name] = true
								}
							}
						}
					}
				}
				if rs, ok := n.(*ast.RangeStmt); ok {
					for _, e := range []ast.Expr{rs.Key, rs.Value} {
						if id, ok := e.(*ast.Ident); ok {
							env[id.Name] = true
						}
					}
				}
				return true
			})
			body, err = c01FoldBranchConstruction(body, env)
			if err != nil {
				return "", "", err
			}
		}
		code, err := t.function(body, "    ")
		if err != nil {
			return "", "", err
		}
		fmt.Fprintf(&b, "  Definition %s %s :=\n    %s.\n\n", sp.out, sp.sig, code)
	}
	b.WriteString("End Gen.\n")
	return "ChainLower.v", b.String(), nil
}
