package main

// Extractor "stateaddnode" (property C11): the checks of graph.addNode (compose/graph.go) translated
// as a decision function, and the four options of compose/graph_add_node_options.go that attach a
// state handler to a node as a table.
//
//	addNode: every top-level `if` of the body is translated, in order, with fall-through
//	  (`if c { …; return <error> }` = refused; a block that does not return falls through to the rest).
//	  Atoms about the state:
//	      options.needState                                need_state
//	      g.stateGenerator == nil / != nil                 negb has_gen / has_gen
//	      options.processor != nil                         has_proc
//	      options.processor.statePreHandler != nil         has_pre        (…PostHandler: has_post)
//	      g.stateType != options.processor.preStateType    negb (N.eqb gty pre_ty)   (…post…: post_ty)
//	  every other condition (reserved key, duplicate key, handler input/output types …) is kept as an
//	  application of the parameter `unk` to its text: Proofs/GenAgreeStateAddNode.v proves agreement with
//	  the model under the hypothesis that none of those fires.  An unknown test that is combined (&& ||)
//	  with a test about the state is an application of `mix` instead, about which nothing is assumed.
//	options: each of WithStatePreHandler / WithStatePostHandler / WithStreamStatePreHandler /
//	  WithStreamStatePostHandler returns a closure of three assignments
//	      o.processor.state<Side>Handler = <converter>(x)    converter -> wrapper, side of the handler
//	      o.processor.<side>StateType = generic.TypeOf[S]()  side of the recorded state type
//	      o.needState = true
//
// Output: coq/Gen/StateAddNode.v.

import (
	"fmt"
	"go/ast"
	"go/token"
	"strings"
)

const c11AddNodeNeutral = "(* Gen/StateAddNode.v — translator tie UNAVAILABLE: tools/go2v (extractor \"stateaddnode\") did not recognise the\n" +
	"   shape of compose/graph.go:addNode / compose/graph_add_node_options.go; the model's own definitions are re-exported. *)\n" +
	"From Eino Require Import Base.Util Model.StateLock Model.StateLockLTS Model.StateLockCode Model.StateLockType Model.StateAddNode.\n" +
	"Open Scope N_scope.\n\n" +
	"Definition add_node_err (unk mix : string -> bool) (has_gen need_state has_proc has_pre has_post : bool) (gty pre_ty post_ty : N) : bool :=\n" +
	"  Model.StateAddNode.add_node_err has_gen need_state has_pre has_post gty pre_ty post_ty.\n" +
	"Definition handler_options : list handler_option := Model.StateAddNode.handler_options.\n"

func init() {
	register("stateaddnode", c11ExtractStateAddNode)
	registerFallback("stateaddnode", "StateAddNode.v", c11AddNodeNeutral)
}

func c11AddNodeAtom(e ast.Expr) (string, bool) {
	be, ok := e.(*ast.BinaryExpr)
	if !ok {
		if c11Sq(e) == "options.needState" {
			return "need_state", true
		}
		return "", false
	}
	x, y := c11Sq(be.X), c11Sq(be.Y)
	neg := func(s string, eq bool) string {
		if eq {
			return "(negb " + s + ")"
		}
		return s
	}
	if be.Op == token.EQL || be.Op == token.NEQ {
		if y == "nil" {
			switch x {
			case "g.stateGenerator":
				return neg("has_gen", be.Op == token.EQL), true
			case "options.processor":
				return neg("has_proc", be.Op == token.EQL), true
			case "options.processor.statePreHandler":
				return neg("has_pre", be.Op == token.EQL), true
			case "options.processor.statePostHandler":
				return neg("has_post", be.Op == token.EQL), true
			}
		}
		ty := func(a, b string) (string, bool) {
			if a != "g.stateType" {
				return "", false
			}
			switch b {
			case "options.processor.preStateType":
				return "pre_ty", true
			case "options.processor.postStateType":
				return "post_ty", true
			}
			return "", false
		}
		if t, ok := ty(x, y); ok {
			return neg("(N.eqb gty "+t+")", be.Op == token.NEQ), true
		}
		if t, ok := ty(y, x); ok {
			return neg("(N.eqb gty "+t+")", be.Op == token.NEQ), true
		}
	}
	return "", false
}

func c11AddNodeCond(e ast.Expr, init ast.Stmt, mixed bool) (string, error) {
	if init == nil {
		switch x := e.(type) {
		case *ast.ParenExpr:
			return c11AddNodeCond(x.X, nil, mixed)
		case *ast.UnaryExpr:
			if x.Op == token.NOT {
				s, err := c11AddNodeCond(x.X, nil, mixed)
				return "(negb " + s + ")", err
			}
		case *ast.BinaryExpr:
			if x.Op == token.LAND || x.Op == token.LOR {
				if c11AddNodeMentions(x.X) || c11AddNodeMentions(x.Y) {
					a, err := c11AddNodeCond(x.X, nil, true)
					if err != nil {
						return "", err
					}
					b, err := c11AddNodeCond(x.Y, nil, true)
					if err != nil {
						return "", err
					}
					op := " && "
					if x.Op == token.LOR {
						op = " || "
					}
					return "(" + a + op + b + ")", nil
				}
			}
		}
		if s, ok := c11AddNodeAtom(e); ok {
			return s, nil
		}
	}
	if c11AddNodeMentions(e) {
		return "", fmt.Errorf("addNode: condition about the state outside the translated atoms: %s", c11Sq(e))
	}
	txt := c11Sq(e)
	if as, ok := init.(*ast.AssignStmt); ok && len(as.Rhs) == 1 {
		var lhs []string
		for _, l := range as.Lhs {
			lhs = append(lhs, c11Sq(l))
		}
		txt = strings.Join(lhs, ",") + as.Tok.String() + c11Sq(as.Rhs[0]) + ";" + txt
	} else if init != nil {
		txt = "<init>;" + txt
	}
	if mixed {
		// an unknown test combined with a test about the state: not one of the "other checks" that
		// may be assumed not to fire - the agreement must hold whatever it answers
		return "(mix " + c11CoqStr(txt) + ")", nil
	}
	return "(unk " + c11CoqStr(txt) + ")", nil
}

// Coq string literal (a double quote is written twice)
func c11CoqStr(s string) string {
	return "\"" + strings.ReplaceAll(s, "\"", "\"\"") + "\"%string"
}

// does the expression talk about the graph state / the state handlers' state types
func c11AddNodeMentions(n ast.Node) bool {
	found := false
	ast.Inspect(n, func(x ast.Node) bool {
		if id, ok := x.(*ast.Ident); ok {
			switch id.Name {
			case "needState", "stateGenerator", "stateType", "preStateType", "postStateType":
				found = true
			}
		}
		return !found
	})
	if found {
		return true
	}
	s := ""
	if e, ok := n.(ast.Expr); ok {
		s = c11Sq(e)
	}
	return s == "options.processor!=nil" || s == "options.processor.statePreHandler!=nil" || s == "options.processor.statePostHandler!=nil" ||
		s == "options.processor==nil" || s == "options.processor.statePreHandler==nil" || s == "options.processor.statePostHandler==nil"
}

// does the node talk about the state handlers of the node's options
func c11AddNodeMentionsHandlers(n ast.Node) bool {
	found := false
	ast.Inspect(n, func(x ast.Node) bool {
		if id, ok := x.(*ast.Ident); ok {
			switch id.Name {
			case "statePreHandler", "statePostHandler", "processor":
				found = true
			}
		}
		return !found
	})
	return found
}

var c11AddNodeFresh int

// translate a statement list with fall-through: k is the translation of what follows
func c11AddNodeStmts(l []ast.Stmt, k string, ind string) (string, error) {
	if len(l) == 0 {
		return k, nil
	}
	rest := func() (string, error) { return c11AddNodeStmts(l[1:], k, ind) }
	switch x := l[0].(type) {
	case *ast.ReturnStmt:
		if len(x.Results) == 1 && c11IsNil(x.Results[0]) {
			return "false", nil
		}
		return "true", nil
	case *ast.IfStmt:
		c, err := c11AddNodeCond(x.Cond, x.Init, false)
		if err != nil {
			return "", err
		}
		r, err := rest()
		if err != nil {
			return "", err
		}
		// what follows the if is bound once (the blocks fall through to it)
		c11AddNodeFresh++
		kn := fmt.Sprintf("k%d", c11AddNodeFresh)
		th, err := c11AddNodeStmts(x.Body.List, kn, ind+"  ")
		if err != nil {
			return "", err
		}
		el := kn
		switch e := x.Else.(type) {
		case *ast.BlockStmt:
			el, err = c11AddNodeStmts(e.List, kn, ind+"  ")
		case *ast.IfStmt:
			el, err = c11AddNodeStmts([]ast.Stmt{e}, kn, ind+"  ")
		}
		if err != nil {
			return "", err
		}
		return "(let " + kn + " := " + r + " in\n" + ind + " if " + c + " then " + th + "\n" + ind + " else " + el + ")", nil
	default:
		if c11AddNodeMentions(l[0]) {
			return "", fmt.Errorf("addNode: a statement about the state outside the translated fragment (%T)", l[0])
		}
		return rest()
	}
}

func c11ExtractStateAddNode(repo string) (string, string, error) {
	fset := token.NewFileSet()
	gf, err := c11ParseGo(fset, repo, "compose", "graph.go")
	if err != nil {
		return "", "", err
	}
	fn := c11Method(gf, "graph", "addNode")
	if fn == nil || fn.Body == nil {
		return "", "", fmt.Errorf("method graph.addNode not found")
	}
	c11AddNodeFresh = 0
	// helpers of graph.go that carry some of the checks (`if err := g.checkX(…); err != nil { return err }`)
	// are inlined; a tagless switch is an if / else-if chain
	prepared, _, err := c11Prepare(repo, []string{"compose", "graph.go"}, fn,
		func(n ast.Node) bool { return c11AddNodeMentions(n) || c11AddNodeMentionsHandlers(n) }, c11NormOpts{})
	if err != nil {
		return "", "", fmt.Errorf("addNode: %v", err)
	}
	body, err := c11AddNodeStmts(prepared, "false", "  ")
	if err != nil {
		return "", "", err
	}
	// ---- the options
	of, err := c11ParseGo(fset, repo, "compose", "graph_add_node_options.go")
	if err != nil {
		return "", "", err
	}
	conv := map[string]string{"convertPreHandler": "WPre", "convertPostHandler": "WPost",
		"streamConvertPreHandler": "WSPre", "streamConvertPostHandler": "WSPost"}
	var rows []string
	seen := map[string]bool{}
	for _, d := range of.Decls {
		f, ok := d.(*ast.FuncDecl)
		if !ok || f.Body == nil || f.Recv != nil {
			continue
		}
		touches := false
		ast.Inspect(f.Body, func(n ast.Node) bool {
			if sel, ok := n.(*ast.SelectorExpr); ok {
				switch sel.Sel.Name {
				case "statePreHandler", "statePostHandler", "preStateType", "postStateType", "needState":
					touches = true
				}
			}
			return true
		})
		if !touches || f.Name.Name == "getGraphAddNodeOpts" {
			continue
		}
		name := f.Name.Name
		if len(f.Body.List) != 1 {
			return "", "", fmt.Errorf("%s: not a single return of a closure", name)
		}
		ret, ok := f.Body.List[0].(*ast.ReturnStmt)
		if !ok || len(ret.Results) != 1 {
			return "", "", fmt.Errorf("%s: not a single return of a closure", name)
		}
		lit, ok := ret.Results[0].(*ast.FuncLit)
		if !ok {
			return "", "", fmt.Errorf("%s: not a single return of a closure", name)
		}
		w, hs, ts, need := "", "", "", "false"
		for _, s := range lit.Body.List {
			as, ok := s.(*ast.AssignStmt)
			if !ok || len(as.Lhs) != 1 || len(as.Rhs) != 1 || as.Tok != token.ASSIGN {
				return "", "", fmt.Errorf("%s: statement that is not a plain assignment", name)
			}
			switch lhs := c11Sq(as.Lhs[0]); lhs {
			case "o.processor.statePreHandler", "o.processor.statePostHandler":
				call, ok := as.Rhs[0].(*ast.CallExpr)
				if !ok || conv[c11Callee(call)] == "" || hs != "" {
					return "", "", fmt.Errorf("%s: the handler is not set once from one of the four converters", name)
				}
				w = conv[c11Callee(call)]
				hs = map[bool]string{true: "SPre", false: "SPost"}[strings.HasSuffix(lhs, "PreHandler")]
			case "o.processor.preStateType", "o.processor.postStateType":
				if !strings.HasPrefix(c11Sq(as.Rhs[0]), "generic.TypeOf[") || ts != "" {
					return "", "", fmt.Errorf("%s: the state type is not recorded once as generic.TypeOf[S]()", name)
				}
				ts = map[bool]string{true: "SPre", false: "SPost"}[lhs == "o.processor.preStateType"]
			case "o.needState":
				if c11Sq(as.Rhs[0]) != "true" {
					return "", "", fmt.Errorf("%s: o.needState = %s", name, c11Sq(as.Rhs[0]))
				}
				need = "true"
			default:
				return "", "", fmt.Errorf("%s: assignment to %s", name, lhs)
			}
		}
		if w == "" || hs == "" || ts == "" {
			return "", "", fmt.Errorf("%s: handler or state type not set", name)
		}
		seen[name] = true
		rows = append(rows, fmt.Sprintf("(%q%%string, (%s, (%s, (%s, %s))))", name, w, hs, ts, need))
	}
	// the model's order
	order := []string{"WithStatePreHandler", "WithStatePostHandler", "WithStreamStatePreHandler", "WithStreamStatePostHandler"}
	var sorted []string
	for _, o := range order {
		for _, r := range rows {
			if strings.HasPrefix(r, fmt.Sprintf("(%q", o)) {
				sorted = append(sorted, r)
			}
		}
	}
	for _, r := range rows {
		known := false
		for _, o := range order {
			known = known || strings.HasPrefix(r, fmt.Sprintf("(%q", o))
		}
		if !known {
			sorted = append(sorted, r)
		}
	}
	var b strings.Builder
	b.WriteString("(* Gen/StateAddNode.v — GENERATED by tools/go2v (extractor \"stateaddnode\") from compose/graph.go (graph.addNode,\n")
	b.WriteString("   translated statement by statement) and compose/graph_add_node_options.go (the options that attach a state\n")
	b.WriteString("   handler). Do not edit. *)\n")
	b.WriteString("From Eino Require Import Base.Util Model.StateLock Model.StateLockLTS Model.StateLockCode Model.StateLockType Model.StateAddNode.\n")
	b.WriteString("Open Scope N_scope.\n\n")
	b.WriteString("Definition add_node_err (unk mix : string -> bool) (has_gen need_state has_proc has_pre has_post : bool) (gty pre_ty post_ty : N) : bool :=\n  ")
	b.WriteString(body + ".\n\n")
	b.WriteString("Definition handler_options : list handler_option :=\n  [" + strings.Join(sorted, ";\n   ") + "].\n")
	return "StateAddNode.v", b.String(), nil
}
