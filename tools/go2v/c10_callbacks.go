package main

// Extractor "c10_callbacks" (property C10): internal/callbacks/manager.go (newManager, withRunInfo,
// managerFromCtx, ctxWithManager), internal/callbacks/inject.go (InitCallbacks, ReuseHandlers,
// AppendHandlers, On) and compose/utils.go (initGraphCallbacks, initNodeCallbacks), translated
// statement by statement into Gallina functions over the heap-of-arrays slice model of
// Base/GoSlice.v, the manager record of Model/Callbacks.v and the vocabulary of
// Model/CallbacksGenLib.v.  Proofs/GenAgreeCallbacks.v proves them equal to the operations of
// Model/Callbacks.v that the C10 theorems are about (new_manager, reuse_handlers,
// append_handlers true, on_handlers true, build_cbs over designated / undesignated).
//
// The translator (c10Tr) is a small compiler for the imperative fragment these functions are
// written in.  Every expression has a kind:
//   slice    a []Handler that is appended to / handed on (parameter, make, var, append result, m.handlers)
//   glist    an immutable handler list (GlobalHandlers, m.globalHandlers, make+copy of one, opts[i].handler)
//   mgr      a manager known to be non-nil;  mgrp  a possibly nil *manager
//   ctx info timing key opts opt paths path handler hsrc nat bool
// The heap is threaded as the variable [h]: every make / append rebinds it.  Recognised statements:
//   x, ok := managerFromCtx(ctx) | newManager(info, hs...)   followed by  if !ok {A} rest | if ok {A} rest
//                                           -> match … with None => … | Some x => … end
//   if m == nil { return nil }  rest         (receiver of withRunInfo)      -> match m with None | Some m
//   if C { A } [else { B }]  rest            C from && || ! len(e)==n len(a)+len(b)==0 k.path[0]==key ok-flags
//                                            (a block that falls through continues with rest)
//   x := make([]Handler, 0, n)               let '(h, x) := make h 0 n
//   x := make([]Handler, len(G)); copy(x, G) let x := g_copy G            (G a glist)
//   var x []Handler                          let x := nil_slice
//   x = append(x, Y...) | append(x, y)       let '(h, x) := append pol h x <the elements>
//   x = f(x, Y)   (f unknown)                let '(h, x) := unk_slice "f" h x <the elements>   (recognised but different)
//   x := S[lo:hi]                            let x := reslice S lo hi
//   t, ok_ := handler.(TimingChecker)        binds ok_ to (is_checker ck handler), t.Needed(ctx, m.runInfo, timing) to (needed ck handler timing)
//   for i := range opts { … opts[i] … }      range_break opts (fun st o => …)
//   for _, k := range opts[i].paths { … }    range_break (opt_paths o) (fun st k => …)
//   for _, l := range [][]Handler{a, b} { … } range_break [SrcSlice a; SrcList b] (fun st l => …)
//   for _, x := range l { … }                 range_src l (fun st x => …)      (l an hsrc, a slice or a glist)
//   break / continue                          the loop body yields (true, state) / (false, state)
//   ri := &callbacks.RunInfo{} and the if-blocks that only fill ri's fields   (the run info is the parameter [ri])
//   return …                                  by the result shape of the function
// Anything else: "source shape not recognised" (translator tie unavailable: the reference translation of
// the unchanged source is written so that the agreement proofs keep compiling and no alarm is raised).

import (
	"fmt"
	"go/ast"
	"go/parser"
	"go/printer"
	"go/token"
	"go/types"
	"path/filepath"
	"strings"
)

func init() {
	register("c10_callbacks", extractC10Callbacks)
	registerFallback("c10_callbacks", "CallbacksCode.v",
		"(* Gen/CallbacksCode.v — translator tie UNAVAILABLE: tools/go2v (extractor \"c10_callbacks\") did not recognise the\n"+
			"   shape of internal/callbacks/{manager,inject}.go / compose/utils.go; what follows is the reference translation of\n"+
			"   the unchanged source (tools/go2v/c10_ref.go), so that Proofs/GenAgreeCallbacks.v keeps compiling. *)\n"+
			"Definition tie_available : bool := false.\n"+c10RefCallbacks)
}

type c10Var struct {
	kind string
	gal  string
}

type c10Tr struct {
	fn     string
	env    map[string]c10Var
	result string // "mgrp" | "hctx" | "on"
	// loop state: the slice variable threaded beside the heap ("" outside loops)
	loopVar string
	inLoop  bool
	// the element variable standing for opts[i] in `for i := range opts`
	idxVar, idxElem string
}

func (t *c10Tr) errf(f string, a ...any) error {
	return fmt.Errorf("%s: %s", t.fn, fmt.Sprintf(f, a...))
}

func (t *c10Tr) fork() *c10Tr {
	n := *t
	n.env = map[string]c10Var{}
	for k, v := range t.env {
		n.env[k] = v
	}
	return &n
}

func c10ExprStr(e ast.Expr) string { return c10Squash(types.ExprString(e)) }

func c10Squash(s string) string { return strings.Join(strings.Fields(s), "") }

func c10CoqStr(s string) string { return `"` + strings.ReplaceAll(s, `"`, `""`) + `"%string` }

func c10ParseGo(fset *token.FileSet, repo string, rel ...string) (*ast.File, error) {
	return parser.ParseFile(fset, filepath.Join(append([]string{repo}, rel...)...), nil, 0)
}

// an expression statement that is a call of the named function
func c10IsCallNamed(s ast.Stmt, name string) (*ast.CallExpr, bool) {
	es, ok := s.(*ast.ExprStmt)
	if !ok {
		return nil, false
	}
	call, ok := es.X.(*ast.CallExpr)
	if !ok {
		return nil, false
	}
	return call, c10Squash(types.ExprString(call.Fun)) == name
}

// ---------------------------------------------------------------- expressions

// expr translates an expression and returns its kind.
func (t *c10Tr) expr(e ast.Expr) (gal string, kind string, err error) {
	switch x := e.(type) {
	case *ast.ParenExpr:
		return t.expr(x.X)
	case *ast.Ident:
		if x.Name == "nil" {
			return "None", "nil", nil
		}
		if v, ok := t.env[x.Name]; ok {
			return v.gal, v.kind, nil
		}
		if x.Name == "GlobalHandlers" {
			return "GlobalHandlers", "glist", nil
		}
		return "", "", t.errf("identifier %s", x.Name)
	case *ast.BasicLit:
		if x.Kind == token.INT {
			return x.Value, "nat", nil
		}
	case *ast.SelectorExpr:
		// opts[i].handler / opts[i].paths
		if ix, ok := x.X.(*ast.IndexExpr); ok {
			if a, ok := ix.X.(*ast.Ident); ok && t.env[a.Name].kind == "opts" {
				if i, ok := ix.Index.(*ast.Ident); ok && i.Name == t.idxVar && t.idxVar != "" {
					switch x.Sel.Name {
					case "handler":
						return "(opt_handler " + t.idxElem + ")", "glist", nil
					case "paths":
						return "(opt_paths " + t.idxElem + ")", "paths", nil
					}
				}
			}
		}
		g, k, err := t.expr(x.X)
		if err != nil {
			return "", "", err
		}
		switch k + "." + x.Sel.Name {
		case "mgr.handlers":
			return "(m_handlers " + g + ")", "slice", nil
		case "mgr.globalHandlers":
			return "(m_global " + g + ")", "glist", nil
		case "mgr.runInfo":
			return "(m_info " + g + ")", "info", nil
		case "pathp.path":
			return g, "path", nil
		case "opt.handler":
			return "(opt_handler " + g + ")", "glist", nil
		case "opt.paths":
			return "(opt_paths " + g + ")", "paths", nil
		}
		return "", "", t.errf("selector %s on a value of kind %s", x.Sel.Name, k)
	case *ast.IndexExpr:
		g, k, err := t.expr(x.X)
		if err != nil {
			return "", "", err
		}
		if k == "path" {
			if bl, ok := x.Index.(*ast.BasicLit); ok && bl.Kind == token.INT {
				return "(nth " + bl.Value + " " + g + " 0%N)", "key", nil
			}
		}
		if k == "opts" {
			if i, ok := x.Index.(*ast.Ident); ok && i.Name == t.idxVar && t.idxVar != "" {
				return t.idxElem, "opt", nil
			}
		}
		return "", "", t.errf("index expression %s", c10ExprStr(e))
	case *ast.BinaryExpr:
		if x.Op == token.ADD {
			a, ka, err := t.expr(x.X)
			if err != nil {
				return "", "", err
			}
			b, kb, err := t.expr(x.Y)
			if err != nil {
				return "", "", err
			}
			if ka == "nat" && kb == "nat" {
				return "(" + a + " + " + b + ")", "nat", nil
			}
		}
	case *ast.CallExpr:
		if id, ok := x.Fun.(*ast.Ident); ok && id.Name == "len" && len(x.Args) == 1 && !x.Ellipsis.IsValid() {
			g, k, err := t.expr(x.Args[0])
			if err != nil {
				return "", "", err
			}
			switch k {
			case "slice":
				return "(len " + g + ")", "nat", nil
			case "glist", "paths", "path", "opts":
				return "(List.length " + g + ")", "nat", nil
			}
			return "", "", t.errf("len of a value of kind %s", k)
		}
		// m.withRunInfo(info)
		if sel, ok := x.Fun.(*ast.SelectorExpr); ok && sel.Sel.Name == "withRunInfo" && len(x.Args) == 1 {
			m, km, err := t.mgrp(sel.X)
			if err != nil {
				return "", "", err
			}
			_ = km
			i, ki, err := t.expr(x.Args[0])
			if err != nil {
				return "", "", err
			}
			if ki != "info" {
				return "", "", t.errf("withRunInfo argument of kind %s", ki)
			}
			return "(withRunInfo " + m + " " + i + ")", "mgrp", nil
		}
		if id, ok := x.Fun.(*ast.Ident); ok && id.Name == "ctxWithManager" && len(x.Args) == 2 {
			c, kc, err := t.expr(x.Args[0])
			if err != nil {
				return "", "", err
			}
			if kc != "ctx" {
				return "", "", t.errf("ctxWithManager on a value of kind %s", kc)
			}
			m, _, err := t.mgrp(x.Args[1])
			if err != nil {
				return "", "", err
			}
			return "(ctxWithManager " + c + " " + m + ")", "ctx", nil
		}
	case *ast.UnaryExpr:
		// &manager{globalHandlers: a, handlers: b, runInfo: c}
		if x.Op == token.AND {
			if cl, ok := x.X.(*ast.CompositeLit); ok && c10ExprStr(cl.Type) == "manager" {
				fields := map[string]string{}
				want := map[string]string{"globalHandlers": "glist", "handlers": "slice", "runInfo": "info"}
				for _, el := range cl.Elts {
					kv, ok := el.(*ast.KeyValueExpr)
					if !ok {
						return "", "", t.errf("manager literal without field names")
					}
					name := c10ExprStr(kv.Key)
					g, k, err := t.expr(kv.Value)
					if err != nil {
						return "", "", err
					}
					if want[name] == "" || k != want[name] {
						return "", "", t.errf("manager literal: field %s := value of kind %s", name, k)
					}
					fields[name] = g
				}
				if len(fields) != 3 {
					return "", "", t.errf("manager literal with %d of the 3 fields", len(fields))
				}
				return "{| m_global := " + fields["globalHandlers"] + "; m_handlers := " + fields["handlers"] +
					"; m_info := " + fields["runInfo"] + " |}", "mgr", nil
			}
		}
	}
	return "", "", t.errf("expression %s is outside the translated fragment", c10ExprStr(e))
}

// mgrp translates an expression of type *manager (possibly nil) into an [option manager]
func (t *c10Tr) mgrp(e ast.Expr) (string, string, error) {
	g, k, err := t.expr(e)
	if err != nil {
		return "", "", err
	}
	switch k {
	case "nil":
		return "None", "mgrp", nil
	case "mgr":
		return "(Some " + g + ")", "mgrp", nil
	case "mgrp":
		return g, "mgrp", nil
	}
	return "", "", t.errf("%s is not a manager (kind %s)", c10ExprStr(e), k)
}

// elems: the elements an append adds, as a Gallina list
func (t *c10Tr) elems(args []ast.Expr, ellipsis bool) (string, error) {
	if ellipsis {
		if len(args) != 1 {
			return "", t.errf("append with several arguments and ...")
		}
		g, k, err := t.expr(args[0])
		if err != nil {
			return "", err
		}
		switch k {
		case "slice":
			return "(read h " + g + ")", nil
		case "glist":
			return g, nil
		}
		return "", t.errf("append of a value of kind %s", k)
	}
	var parts []string
	for _, a := range args {
		g, k, err := t.expr(a)
		if err != nil {
			return "", err
		}
		if k != "handler" {
			return "", t.errf("append of an element of kind %s", k)
		}
		parts = append(parts, g)
	}
	return "[" + strings.Join(parts, "; ") + "]", nil
}

func (t *c10Tr) cond(e ast.Expr) (string, error) {
	switch x := e.(type) {
	case *ast.ParenExpr:
		return t.cond(x.X)
	case *ast.Ident:
		if v, ok := t.env[x.Name]; ok && v.kind == "bool" {
			return v.gal, nil
		}
	case *ast.UnaryExpr:
		if x.Op == token.NOT {
			s, err := t.cond(x.X)
			return "(negb " + s + ")", err
		}
	case *ast.BinaryExpr:
		switch x.Op {
		case token.LAND, token.LOR:
			l, err := t.cond(x.X)
			if err != nil {
				return "", err
			}
			r, err := t.cond(x.Y)
			if err != nil {
				return "", err
			}
			op := "&&"
			if x.Op == token.LOR {
				op = "||"
			}
			return "(" + l + " " + op + " " + r + ")", nil
		case token.EQL, token.NEQ:
			a, ka, err := t.expr(x.X)
			if err != nil {
				return "", err
			}
			b, kb, err := t.expr(x.Y)
			if err != nil {
				return "", err
			}
			var s string
			switch {
			case ka == "nat" && kb == "nat":
				s = "(Nat.eqb " + a + " " + b + ")"
			case ka == "key" && kb == "key":
				s = "(N.eqb " + a + " " + b + ")"
			default:
				return "", t.errf("comparison of kinds %s and %s", ka, kb)
			}
			if x.Op == token.NEQ {
				s = "(negb " + s + ")"
			}
			return s, nil
		}
	case *ast.CallExpr:
		// timingChecker.Needed(ctx, m.runInfo, timing)
		if sel, ok := x.Fun.(*ast.SelectorExpr); ok && sel.Sel.Name == "Needed" && len(x.Args) == 3 {
			if id, ok := sel.X.(*ast.Ident); ok {
				if v, ok := t.env[id.Name]; ok && v.kind == "checker" {
					_, k0, e0 := t.expr(x.Args[0])
					_, k1, e1 := t.expr(x.Args[1])
					tm, k2, e2 := t.expr(x.Args[2])
					if e0 == nil && e1 == nil && e2 == nil && k0 == "ctx" && k1 == "info" && k2 == "timing" {
						if sel1, ok := x.Args[1].(*ast.SelectorExpr); !ok || sel1.Sel.Name != "runInfo" {
							return "", t.errf("Needed is not asked with the manager's own run info")
						}
						return "(needed ck " + v.gal + " " + tm + ")", nil
					}
				}
			}
		}
	}
	return "", t.errf("condition %s is outside the translated fragment", c10ExprStr(e))
}

// ---------------------------------------------------------------- statements

func (t *c10Tr) stateTuple() string { return "(h, " + t.loopVar + ")" }

// endOfBlock: what a block yields when control reaches its end
func (t *c10Tr) endOfBlock() (string, error) {
	if t.inLoop {
		return "(false, " + t.stateTuple() + ")", nil
	}
	return "", t.errf("control reaches the end of the function without a return")
}

func c10Terminates(l []ast.Stmt) bool {
	if len(l) == 0 {
		return false
	}
	switch x := l[len(l)-1].(type) {
	case *ast.ReturnStmt:
		return true
	case *ast.BranchStmt:
		return x.Tok == token.BREAK || x.Tok == token.CONTINUE
	case *ast.IfStmt:
		if x.Else == nil {
			return false
		}
		eb, ok := x.Else.(*ast.BlockStmt)
		return ok && c10Terminates(x.Body.List) && c10Terminates(eb.List)
	}
	return false
}

// (x, ok) := f(...)  -> name of x, name of ok, the option-valued Gallina call
func (t *c10Tr) okCall(s ast.Stmt) (x, ok, call string, is bool, err error) {
	as, isAs := s.(*ast.AssignStmt)
	if !isAs || as.Tok != token.DEFINE || len(as.Lhs) != 2 || len(as.Rhs) != 1 {
		return
	}
	c, isCall := as.Rhs[0].(*ast.CallExpr)
	if !isCall {
		return
	}
	id, isId := c.Fun.(*ast.Ident)
	if !isId {
		return
	}
	xi, ok1 := as.Lhs[0].(*ast.Ident)
	oi, ok2 := as.Lhs[1].(*ast.Ident)
	if !ok1 || !ok2 {
		return
	}
	switch id.Name {
	case "managerFromCtx":
		if len(c.Args) != 1 {
			return
		}
		g, k, e := t.expr(c.Args[0])
		if e != nil || k != "ctx" {
			return "", "", "", true, t.errf("managerFromCtx(%s)", c10ExprStr(c.Args[0]))
		}
		return xi.Name, oi.Name, "managerFromCtx " + g, true, nil
	case "newManager":
		if len(c.Args) != 2 || !c.Ellipsis.IsValid() {
			return "", "", "", true, t.errf("newManager call shape")
		}
		i, ki, e1 := t.expr(c.Args[0])
		s, ks, e2 := t.expr(c.Args[1])
		if e1 != nil || e2 != nil || ki != "info" || ks != "slice" {
			return "", "", "", true, t.errf("newManager(%s, %s...)", c10ExprStr(c.Args[0]), c10ExprStr(c.Args[1]))
		}
		return xi.Name, oi.Name, "newManager " + i + " " + s, true, nil
	}
	return
}

// heapful call in return position: F h args
func (t *c10Tr) heapCall(c *ast.CallExpr) (string, bool, error) {
	name := c10ExprStr(c.Fun)
	name = strings.TrimPrefix(name, "icb.")
	switch name {
	case "InitCallbacks", "AppendHandlers":
		if len(c.Args) != 3 || !c.Ellipsis.IsValid() {
			return "", true, t.errf("%s call shape", name)
		}
		cx, kc, e0 := t.expr(c.Args[0])
		i, ki, e1 := t.expr(c.Args[1])
		s, ks, e2 := t.expr(c.Args[2])
		if e0 != nil || e1 != nil || e2 != nil || kc != "ctx" || ki != "info" || ks != "slice" {
			return "", true, t.errf("%s(%s, %s, %s...)", name, c10ExprStr(c.Args[0]), c10ExprStr(c.Args[1]), c10ExprStr(c.Args[2]))
		}
		return name + " h " + cx + " " + i + " " + s, true, nil
	}
	return "", false, nil
}

func (t *c10Tr) ret(r *ast.ReturnStmt) (string, error) {
	switch t.result {
	case "mgrp_ok": // (*manager, bool)
		if len(r.Results) == 2 {
			m, _, err := t.mgrp(r.Results[0])
			if err != nil {
				return "", err
			}
			b := c10ExprStr(r.Results[1])
			if (m == "None") != (b == "false") || (b != "true" && b != "false") {
				return "", t.errf("return %s, %s: the flag does not say whether the manager is nil", c10ExprStr(r.Results[0]), b)
			}
			return m, nil
		}
	case "mgrp":
		if len(r.Results) == 1 {
			m, _, err := t.mgrp(r.Results[0])
			return m, err
		}
	case "hctx":
		if len(r.Results) == 1 {
			if c, ok := r.Results[0].(*ast.CallExpr); ok {
				if g, is, err := t.heapCall(c); is {
					return g, err
				}
			}
			g, k, err := t.expr(r.Results[0])
			if err != nil {
				return "", err
			}
			if k != "ctx" {
				return "", t.errf("return of a value of kind %s", k)
			}
			return "(h, " + g + ")", nil
		}
	case "on":
		if len(r.Results) == 2 {
			// return ctx, inOut
			_, k0, e0 := t.expr(r.Results[0])
			_, k1, e1 := t.expr(r.Results[1])
			if e0 == nil && e1 == nil && k0 == "ctx" && k1 == "payload" {
				return "(h, None)", nil
			}
		}
		if len(r.Results) == 1 {
			// return handle(ctx, inOut, m.runInfo, hs)
			if c, ok := r.Results[0].(*ast.CallExpr); ok && len(c.Args) == 4 && !c.Ellipsis.IsValid() {
				if id, ok := c.Fun.(*ast.Ident); ok && t.env[id.Name].kind == "handle" {
					_, k0, e0 := t.expr(c.Args[0])
					_, k1, e1 := t.expr(c.Args[1])
					i, k2, e2 := t.expr(c.Args[2])
					s, k3, e3 := t.expr(c.Args[3])
					if e0 == nil && e1 == nil && e2 == nil && e3 == nil && k0 == "ctx" && k1 == "payload" && k2 == "info" && k3 == "slice" {
						return "(h, Some (" + i + ", read h " + s + "))", nil
					}
				}
			}
		}
	}
	return "", t.errf("return statement %s", c10Squash(fmt.Sprint(len(r.Results)))+" results")
}

// isRunInfoStmt: `ri := &callbacks.RunInfo{}` / `if x != nil { ri.F = …; … }`
func (t *c10Tr) isRunInfoStmt(s ast.Stmt) bool {
	onlyRi := func(b *ast.BlockStmt) bool {
		for _, st := range b.List {
			as, ok := st.(*ast.AssignStmt)
			if !ok || as.Tok != token.ASSIGN || len(as.Lhs) != 1 {
				return false
			}
			sel, ok := as.Lhs[0].(*ast.SelectorExpr)
			if !ok {
				return false
			}
			if id, ok := sel.X.(*ast.Ident); !ok || id.Name != "ri" {
				return false
			}
		}
		return true
	}
	switch x := s.(type) {
	case *ast.AssignStmt:
		if x.Tok == token.DEFINE && len(x.Lhs) == 1 && c10ExprStr(x.Lhs[0]) == "ri" {
			r := c10ExprStr(x.Rhs[0])
			return r == "&callbacks.RunInfo{}" || r == "&icb.RunInfo{}"
		}
	case *ast.IfStmt:
		if x.Init == nil && x.Else == nil {
			if be, ok := x.Cond.(*ast.BinaryExpr); ok && be.Op == token.NEQ && c10ExprStr(be.Y) == "nil" {
				if id, ok := be.X.(*ast.Ident); ok && (id.Name == "meta" || id.Name == "info") {
					return onlyRi(x.Body)
				}
			}
		}
	}
	return false
}

// assigned slice variable of a loop body (declared outside): exactly one
func (t *c10Tr) loopAssigned(body *ast.BlockStmt) (string, error) {
	found := map[string]bool{}
	ast.Inspect(body, func(n ast.Node) bool {
		if as, ok := n.(*ast.AssignStmt); ok && as.Tok == token.ASSIGN {
			for _, l := range as.Lhs {
				if id, ok := l.(*ast.Ident); ok && t.env[id.Name].kind == "slice" {
					found[id.Name] = true
				}
			}
		}
		return true
	})
	if len(found) != 1 {
		return "", t.errf("a loop that assigns %d slice variables", len(found))
	}
	for k := range found {
		return k, nil
	}
	return "", nil
}

// block translates a statement list; control continues with rest-of-enclosing (already part of l).
func (t *c10Tr) block(l []ast.Stmt, ind string) (string, error) {
	if len(l) == 0 {
		return t.endOfBlock()
	}
	rest := func(tt *c10Tr) (string, error) { return tt.block(l[1:], ind) }
	s := l[0]
	if !t.inLoop && t.isRunInfoStmt(s) {
		return rest(t)
	}
	// x, ok := f(…); if [!]ok { A }; rest
	if x, okv, call, is, err := t.okCall(s); is {
		if err != nil {
			return "", err
		}
		if len(l) < 2 {
			return "", t.errf("%s is not followed by a test of %s", call, okv)
		}
		is2, isIf := l[1].(*ast.IfStmt)
		if !isIf || is2.Init != nil || is2.Else != nil || !c10Terminates(is2.Body.List) {
			return "", t.errf("%s is not followed by `if [!]%s { … return }`", call, okv)
		}
		c := c10ExprStr(is2.Cond)
		some := t.fork()
		some.env[x] = c10Var{"mgr", x}
		none := t.fork()
		var sb, nb string
		switch c {
		case "!" + okv:
			if nb, err = none.block(is2.Body.List, ind+"  "); err != nil {
				return "", err
			}
			if sb, err = some.block(l[2:], ind+"  "); err != nil {
				return "", err
			}
		case okv:
			if sb, err = some.block(is2.Body.List, ind+"  "); err != nil {
				return "", err
			}
			if nb, err = none.block(l[2:], ind+"  "); err != nil {
				return "", err
			}
		default:
			return "", t.errf("test %s after %s", c, call)
		}
		return "match " + call + " with\n" + ind + "| None => " + nb + "\n" + ind + "| Some " + x + " =>\n" + ind + "  " + sb + "\n" + ind + "end", nil
	}
	switch x := s.(type) {
	case *ast.ReturnStmt:
		if t.inLoop {
			return "", t.errf("return inside a loop")
		}
		return t.ret(x)
	case *ast.BranchStmt:
		if t.inLoop && x.Label == nil {
			switch x.Tok {
			case token.BREAK:
				return "(true, " + t.stateTuple() + ")", nil
			case token.CONTINUE:
				return "(false, " + t.stateTuple() + ")", nil
			}
		}
	case *ast.DeclStmt:
		// var x []T
		if gd, ok := x.Decl.(*ast.GenDecl); ok && gd.Tok == token.VAR && len(gd.Specs) == 1 {
			vs := gd.Specs[0].(*ast.ValueSpec)
			if len(vs.Names) == 1 && len(vs.Values) == 0 && strings.HasPrefix(c10ExprStr(vs.Type), "[]") && strings.HasSuffix(c10ExprStr(vs.Type), "Handler") {
				n := t.fork()
				n.env[vs.Names[0].Name] = c10Var{"slice", vs.Names[0].Name}
				r, err := rest(n)
				return "let " + vs.Names[0].Name + " := nil_slice in\n" + ind + r, err
			}
		}
	case *ast.AssignStmt:
		if len(x.Lhs) == 1 && len(x.Rhs) == 1 {
			lhs, isId := x.Lhs[0].(*ast.Ident)
			if isId {
				// make
				if c, ok := x.Rhs[0].(*ast.CallExpr); ok && x.Tok == token.DEFINE {
					if id, ok := c.Fun.(*ast.Ident); ok && id.Name == "make" && strings.HasSuffix(c10ExprStr(c.Args[0]), "Handler") && strings.HasPrefix(c10ExprStr(c.Args[0]), "[]") {
						if len(c.Args) == 3 {
							ln, k1, e1 := t.expr(c.Args[1])
							cp, k2, e2 := t.expr(c.Args[2])
							if e1 != nil || e2 != nil || k1 != "nat" || k2 != "nat" {
								return "", t.errf("make(%s)", c10ExprStr(x.Rhs[0]))
							}
							n := t.fork()
							n.env[lhs.Name] = c10Var{"slice", lhs.Name}
							r, err := rest(n)
							return "let '(h, " + lhs.Name + ") := make h " + ln + " " + cp + " in\n" + ind + r, err
						}
						if len(c.Args) == 2 && len(l) >= 2 {
							// x := make([]Handler, len(G)); copy(x, G)
							if call, ok := c10IsCallNamed(l[1], "copy"); ok && len(call.Args) == 2 && c10ExprStr(call.Args[0]) == lhs.Name {
								g, kg, err := t.expr(call.Args[1])
								if err != nil {
									return "", err
								}
								if kg != "glist" || c10ExprStr(c.Args[1]) != "len("+c10ExprStr(call.Args[1])+")" {
									return "", t.errf("make + copy of %s", c10ExprStr(call.Args[1]))
								}
								n := t.fork()
								n.env[lhs.Name] = c10Var{"glist", lhs.Name}
								r, err := n.block(l[2:], ind)
								return "let " + lhs.Name + " := g_copy " + g + " in\n" + ind + r, err
							}
						}
					}
				}
				// x = append(x, …) / x := append(y, …) / x = f(x, Y)
				if c, ok := x.Rhs[0].(*ast.CallExpr); ok && len(c.Args) >= 2 {
					if id, ok := c.Fun.(*ast.Ident); ok {
						base, kb, err := t.expr(c.Args[0])
						if err == nil && kb == "slice" {
							if x.Tok == token.ASSIGN && t.env[lhs.Name].kind != "slice" {
								return "", t.errf("assignment to %s", lhs.Name)
							}
							var el string
							var call string
							if id.Name == "append" {
								if el, err = t.elems(c.Args[1:], c.Ellipsis.IsValid()); err != nil {
									return "", err
								}
								call = "append pol h " + base + " " + el
							} else if _, known := t.env[id.Name]; !known {
								if el, err = t.elems(c.Args[1:], true); err != nil {
									if el, err = t.elems(c.Args[1:], false); err != nil {
										return "", err
									}
								}
								call = "unk_slice " + c10CoqStr(id.Name) + " h " + base + " " + el
							} else {
								return "", t.errf("call %s", c10ExprStr(x.Rhs[0]))
							}
							n := t.fork()
							n.env[lhs.Name] = c10Var{"slice", lhs.Name}
							r, err := rest(n)
							return "let '(h, " + lhs.Name + ") := " + call + " in\n" + ind + r, err
						}
					}
				}
				// x := S[lo:hi]
				if sl, ok := x.Rhs[0].(*ast.SliceExpr); ok && x.Tok == token.DEFINE && !sl.Slice3 {
					base, kb, err := t.expr(sl.X)
					if err != nil {
						return "", err
					}
					if kb != "slice" {
						return "", t.errf("reslice of a value of kind %s", kb)
					}
					lo, hi := "0", "(len "+base+")"
					if sl.Low != nil {
						g, k, err := t.expr(sl.Low)
						if err != nil || k != "nat" {
							return "", t.errf("slice bound %s", c10ExprStr(sl.Low))
						}
						lo = g
					}
					if sl.High != nil {
						g, k, err := t.expr(sl.High)
						if err != nil || k != "nat" {
							return "", t.errf("slice bound %s", c10ExprStr(sl.High))
						}
						hi = g
					}
					n := t.fork()
					n.env[lhs.Name] = c10Var{"slice", lhs.Name}
					r, err := rest(n)
					return "let " + lhs.Name + " := reslice " + base + " " + lo + " " + hi + " in\n" + ind + r, err
				}
			}
		}
		// timingChecker, ok_ := handler.(TimingChecker)
		if x.Tok == token.DEFINE && len(x.Lhs) == 2 && len(x.Rhs) == 1 {
			if ta, ok := x.Rhs[0].(*ast.TypeAssertExpr); ok && c10ExprStr(ta.Type) == "TimingChecker" {
				hv, kh, err := t.expr(ta.X)
				if err != nil {
					return "", err
				}
				if kh != "handler" {
					return "", t.errf("type assertion on a value of kind %s", kh)
				}
				n := t.fork()
				n.env[c10ExprStr(x.Lhs[0])] = c10Var{"checker", hv}
				n.env[c10ExprStr(x.Lhs[1])] = c10Var{"bool", "(is_checker ck " + hv + ")"}
				return rest(n)
			}
		}
	case *ast.IfStmt:
		if x.Init != nil {
			return "", t.errf("if with an init statement")
		}
		// receiver nil test of withRunInfo: if m == nil { return nil }
		if be, ok := x.Cond.(*ast.BinaryExpr); ok && be.Op == token.EQL && c10ExprStr(be.Y) == "nil" {
			if id, ok := be.X.(*ast.Ident); ok && t.env[id.Name].kind == "mgrp" && x.Else == nil && c10Terminates(x.Body.List) {
				nb, err := t.fork().block(x.Body.List, ind+"  ")
				if err != nil {
					return "", err
				}
				some := t.fork()
				some.env[id.Name] = c10Var{"mgr", id.Name}
				sb, err := some.block(l[1:], ind+"  ")
				if err != nil {
					return "", err
				}
				return "match " + t.env[id.Name].gal + " with\n" + ind + "| None => " + nb + "\n" + ind + "| Some " + id.Name + " =>\n" + ind + "  " + sb + "\n" + ind + "end", nil
			}
		}
		c, err := t.cond(x.Cond)
		if err != nil {
			return "", err
		}
		// a branch that falls through continues with the rest of the enclosing block
		thStmts := x.Body.List
		if !c10Terminates(thStmts) {
			thStmts = append(append([]ast.Stmt{}, thStmts...), l[1:]...)
		}
		th, err := t.fork().block(thStmts, ind+"  ")
		if err != nil {
			return "", err
		}
		var elStmts []ast.Stmt
		switch e := x.Else.(type) {
		case nil:
			elStmts = l[1:]
		case *ast.BlockStmt:
			elStmts = e.List
			if !c10Terminates(elStmts) {
				elStmts = append(append([]ast.Stmt{}, elStmts...), l[1:]...)
			}
		case *ast.IfStmt:
			elStmts = append([]ast.Stmt{e}, l[1:]...)
		}
		el, err := t.fork().block(elStmts, ind)
		if err != nil {
			return "", err
		}
		return "if " + c + " then\n" + ind + "  " + th + "\n" + ind + "else\n" + ind + el, nil
	case *ast.RangeStmt:
		lv, err := t.loopAssigned(x.Body)
		if err != nil {
			return "", err
		}
		if t.inLoop && lv != t.loopVar {
			return "", t.errf("nested loops over different slice variables")
		}
		body := t.fork()
		body.inLoop, body.loopVar = true, lv
		var head, elem, elemTy string
		keyName, valName := "", ""
		if x.Key != nil {
			keyName = c10ExprStr(x.Key)
		}
		if x.Value != nil {
			valName = c10ExprStr(x.Value)
		}
		if x.Tok != token.DEFINE {
			return "", t.errf("range without :=")
		}
		switch {
		case valName == "" && keyName != "" && keyName != "_":
			// for i := range opts
			g, k, err := t.expr(x.X)
			if err != nil {
				return "", err
			}
			if k != "opts" {
				return "", t.errf("index loop over a value of kind %s", k)
			}
			body.idxVar, body.idxElem = keyName, "o"
			head, elem, elemTy = "range_break "+g, "o", "copt"
		case keyName == "_" && valName != "":
			if cl, ok := x.X.(*ast.CompositeLit); ok && c10ExprStr(cl.Type) == "[][]Handler" {
				var parts []string
				for _, el := range cl.Elts {
					g, k, err := t.expr(el)
					if err != nil {
						return "", err
					}
					switch k {
					case "slice":
						parts = append(parts, "SrcSlice "+g)
					case "glist":
						parts = append(parts, "SrcList "+g)
					default:
						return "", t.errf("list literal element of kind %s", k)
					}
				}
				body.env[valName] = c10Var{"hsrc", valName}
				head, elem, elemTy = "range_break ["+strings.Join(parts, "; ")+"]", valName, "hsrc"
				break
			}
			g, k, err := t.expr(x.X)
			if err != nil {
				return "", err
			}
			switch k {
			case "hsrc":
				body.env[valName] = c10Var{"handler", valName}
				head, elem, elemTy = "range_src "+g, valName, "handler"
			case "slice":
				body.env[valName] = c10Var{"handler", valName}
				head, elem, elemTy = "range_src (SrcSlice "+g+")", valName, "handler"
			case "glist":
				body.env[valName] = c10Var{"handler", valName}
				head, elem, elemTy = "range_src (SrcList "+g+")", valName, "handler"
			case "paths":
				body.env[valName] = c10Var{"pathp", valName}
				head, elem, elemTy = "range_break "+g, valName, "list N"
			case "opts":
				body.env[valName] = c10Var{"opt", valName}
				head, elem, elemTy = "range_break "+g, valName, "copt"
			default:
				return "", t.errf("range over a value of kind %s", k)
			}
		default:
			return "", t.errf("range with key %q and value %q", keyName, valName)
		}
		b, err := body.block(x.Body.List, ind+"  ")
		if err != nil {
			return "", err
		}
		after := t.fork()
		r, err := rest(after)
		if err != nil {
			return "", err
		}
		st := "(h, " + lv + ")"
		return "let '" + st + " := " + head + " (fun (st : heap * slice) (" + elem + " : " + elemTy + ") => let '" + st + " := st in\n" +
			ind + "  " + b + ") " + st + " in\n" + ind + r, nil
	}
	return "", t.errf("statement outside the translated fragment")
}

// ---------------------------------------------------------------- functions

type c10Fn struct {
	file   []string // path below the repo
	name   string
	recv   string            // receiver name ("" = plain function)
	params []string          // expected Go parameter names, in order
	kinds  map[string]string // parameter -> kind
	result string
	sig    string // Gallina signature after the name
}

var c10Fns = []c10Fn{
	{file: []string{"internal", "callbacks", "manager.go"}, name: "newManager", params: []string{"runInfo", "handlers"},
		kinds: map[string]string{"runInfo": "info", "handlers": "slice"}, result: "mgrp_ok",
		sig: "(runInfo : info) (handlers : slice) : option manager"},
	{file: []string{"internal", "callbacks", "manager.go"}, name: "withRunInfo", recv: "m", params: []string{"runInfo"},
		kinds: map[string]string{"m": "mgrp", "runInfo": "info"}, result: "mgrp",
		sig: "(m : option manager) (runInfo : info) : option manager"},
	{file: []string{"internal", "callbacks", "inject.go"}, name: "InitCallbacks", params: []string{"ctx", "info", "handlers"},
		kinds: map[string]string{"ctx": "ctx", "info": "info", "handlers": "slice"}, result: "hctx",
		sig: "(h : heap) (ctx : Callbacks.ctx) (info : Callbacks.info) (handlers : slice) : heap * Callbacks.ctx"},
	{file: []string{"internal", "callbacks", "inject.go"}, name: "ReuseHandlers", params: []string{"ctx", "info"},
		kinds: map[string]string{"ctx": "ctx", "info": "info"}, result: "hctx",
		sig: "(h : heap) (ctx : Callbacks.ctx) (info : Callbacks.info) : heap * Callbacks.ctx"},
	{file: []string{"internal", "callbacks", "inject.go"}, name: "AppendHandlers", params: []string{"ctx", "info", "handlers"},
		kinds: map[string]string{"ctx": "ctx", "info": "info", "handlers": "slice"}, result: "hctx",
		sig: "(h : heap) (ctx : Callbacks.ctx) (info : Callbacks.info) (handlers : slice) : heap * Callbacks.ctx"},
	{file: []string{"internal", "callbacks", "inject.go"}, name: "On", params: []string{"ctx", "inOut", "handle", "timing"},
		kinds: map[string]string{"ctx": "ctx", "inOut": "payload", "handle": "handle", "timing": "timing"}, result: "on",
		sig: "(h : heap) (ctx : Callbacks.ctx) (timing : Callbacks.timing) : heap * option (info * list handler)"},
	{file: []string{"compose", "utils.go"}, name: "initGraphCallbacks", params: []string{"ctx", "info", "meta", "opts"},
		kinds: map[string]string{"ctx": "ctx", "opts": "opts", "ri": "info"}, result: "hctx",
		sig: "(h : heap) (ctx : Callbacks.ctx) (ri : Callbacks.info) (opts : list copt) : heap * Callbacks.ctx"},
	{file: []string{"compose", "utils.go"}, name: "initNodeCallbacks", params: []string{"ctx", "key", "info", "meta", "opts"},
		kinds: map[string]string{"ctx": "ctx", "key": "key", "opts": "opts", "ri": "info"}, result: "hctx",
		sig: "(h : heap) (ctx : Callbacks.ctx) (key : N) (ri : Callbacks.info) (opts : list copt) : heap * Callbacks.ctx"},
}

func c10FindFunc(f *ast.File, name, recv string) *ast.FuncDecl {
	for _, d := range f.Decls {
		fn, ok := d.(*ast.FuncDecl)
		if !ok || fn.Name.Name != name {
			continue
		}
		if (recv == "") != (fn.Recv == nil) {
			continue
		}
		return fn
	}
	return nil
}

const c10ManagerFromCtx = "v:=ctx.Value(CtxManagerKey{})m,ok:=v.(*manager)ifok&&m!=nil{return&manager{globalHandlers:m.globalHandlers,handlers:m.handlers,runInfo:m.runInfo,},true}returnnil,false"
const c10CtxWithManager = "returncontext.WithValue(ctx,CtxManagerKey{},manager)"

func c10BodyText(fset *token.FileSet, fn *ast.FuncDecl) string {
	var parts []string
	for _, s := range fn.Body.List {
		var sb strings.Builder
		if err := printer.Fprint(&sb, fset, s); err != nil {
			return "<unprintable>"
		}
		parts = append(parts, sb.String())
	}
	return c10Squash(strings.Join(parts, ""))
}

func extractC10Callbacks(repo string) (string, string, error) {
	fset := token.NewFileSet()
	files := map[string]*ast.File{}
	get := func(rel []string) (*ast.File, error) {
		k := strings.Join(rel, "/")
		if f, ok := files[k]; ok {
			return f, nil
		}
		f, err := c10ParseGo(fset, repo, rel...)
		if err == nil {
			files[k] = f
		}
		return f, err
	}
	var b strings.Builder
	b.WriteString("(* Gen/CallbacksCode.v — GENERATED by tools/go2v (extractor \"c10_callbacks\") from internal/callbacks/manager.go,\n")
	b.WriteString("   internal/callbacks/inject.go and compose/utils.go, translated statement by statement. Do not edit. *)\n")
	b.WriteString(c10Header)
	// the two accessors of the context are compared as text: they are what [option manager] as the
	// model's context abstracts
	mf, err := get([]string{"internal", "callbacks", "manager.go"})
	if err != nil {
		return "", "", err
	}
	for name, want := range map[string]string{"managerFromCtx": c10ManagerFromCtx, "ctxWithManager": c10CtxWithManager} {
		fn := c10FindFunc(mf, name, "")
		if fn == nil || fn.Body == nil {
			return "", "", fmt.Errorf("func %s not found", name)
		}
		if got := c10BodyText(fset, fn); got != want {
			return "", "", fmt.Errorf("%s: body %q is not the accessor the model's context stands for", name, got)
		}
	}
	b.WriteString(c10ManagerFromCtxGal)
	for _, spec := range c10Fns {
		f, err := get(spec.file)
		if err != nil {
			return "", "", err
		}
		fn := c10FindFunc(f, spec.name, spec.recv)
		if fn == nil || fn.Body == nil {
			return "", "", fmt.Errorf("func %s not found in %s", spec.name, strings.Join(spec.file, "/"))
		}
		var ps []string
		for _, fl := range fn.Type.Params.List {
			for _, n := range fl.Names {
				ps = append(ps, n.Name)
			}
		}
		if strings.Join(ps, ",") != strings.Join(spec.params, ",") {
			return "", "", fmt.Errorf("%s: parameters (%s), expected (%s)", spec.name, strings.Join(ps, ", "), strings.Join(spec.params, ", "))
		}
		if spec.recv != "" {
			if len(fn.Recv.List) != 1 || len(fn.Recv.List[0].Names) != 1 || fn.Recv.List[0].Names[0].Name != spec.recv {
				return "", "", fmt.Errorf("%s: receiver", spec.name)
			}
		}
		t := &c10Tr{fn: spec.name, env: map[string]c10Var{}, result: spec.result}
		for p, k := range spec.kinds {
			t.env[p] = c10Var{k, p}
		}
		body, err := t.block(fn.Body.List, "  ")
		if err != nil {
			return "", "", err
		}
		fmt.Fprintf(&b, "\n(* %s: func %s *)\nDefinition %s %s :=\n  %s.\n", strings.Join(spec.file, "/"), spec.name, spec.name, spec.sig, body)
	}
	b.WriteString("\nEnd Gen.\n")
	return "CallbacksCode.v", b.String(), nil
}

const c10Header = `From Eino Require Import Base.Util Base.GoSlice Model.Callbacks Model.CallbacksGenLib.

Section Gen.
Variable pol : policy.                          (* growth policy of append *)
Variable GlobalHandlers : list handler.         (* the process-wide handler list *)
Variable ck : checkers.                         (* which handlers are TimingCheckers, what they answer *)
Variable unk_slice : string -> heap -> slice -> list handler -> heap * slice.   (* a function the translator does not know *)
`

const c10ManagerFromCtxGal = `
(* internal/callbacks/manager.go: func managerFromCtx (compared as text): a copy of the manager the context carries *)
Definition managerFromCtx (ctx : Callbacks.ctx) : option manager :=
  match ctx with
  | Some m => Some {| m_global := m_global m; m_handlers := m_handlers m; m_info := m_info m |}
  | None => None
  end.
`
