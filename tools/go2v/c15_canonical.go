package main

// Extractor "c15_canonical" (property C15): compose/workflow.go, func canonicalTargetPath — the spelling-out of
// fields promoted from embedded structs, on which the overlap check of the target paths works —, translated
// statement by statement into Gallina over the type universe of Base/FMUniverse.v, the promotion table of
// Model/FieldMapPromote.v and the reflect vocabulary of Model/FieldMapGenLib.v.
//
// Fragment: one loop `for i, field := range path` whose body tests and updates the type variable `typ` (a
// reflect.Type that may be nil until it has been tested with `typ == nil`) and appends to the result slice:
//     canonical := make(FieldPath, 0, len(path))
//     if C { … }                      C as in extractor "c15_fieldtype", and  typ == nil  (which must return)
//     typ = typ.Elem()   typ = f.Type
//     f, ok := typ.FieldByName(field)                  (with promotion: the model's promotion table)
//     canonical = append(canonical, field)
//     for j := 1; j < len(f.Index); j++ { canonical = append(canonical, typ.FieldByIndex(f.Index[:j]).Name) }
//     return append(canonical, path[i:]...)            return canonical            continue
// Output: coq/Gen/C15Canonical.v with
//   canonical_target_path (env : senv) (pe : penv) (typ : option ty) (path_ : path) : option path
// (None = the Go code would panic). Proofs/GenAgreeC15.v proves it equal to Some (expand env pe t p).

import (
	"fmt"
	"go/ast"
	"go/token"
	"go/types"
	"strings"
)

func init() {
	register("c15_canonical", c15ExtractCanonical)
	registerFallback("c15_canonical", "C15Canonical.v", c15RefCanonical)
}

type c15caTr struct {
	ft       *c15ftTr // conditions over type variables / bool variables
	narrowed bool     // typ has been tested against nil on this path
	pfVars   map[string]bool
	acc      string // the result slice
	pathVar  string
}

func (t *c15caTr) next() string {
	return "(canonical_loop env pe (Some typ) " + t.acc + " rest)"
}

func (t *c15caTr) ret(r *ast.ReturnStmt) (string, error) {
	if len(r.Results) != 1 {
		return "", fmt.Errorf("return with %d results", len(r.Results))
	}
	s := c15sq(r.Results[0])
	switch {
	case s == t.acc:
		return "Some " + t.acc, nil
	case s == "append("+t.acc+","+t.pathVar+"["+t.ft.idx+":]...)":
		return "Some (" + t.acc + " ++ field :: rest)", nil
	}
	return "", fmt.Errorf("return %s is outside the translated fragment", types.ExprString(r.Results[0]))
}

func (t *c15caTr) stmts(l []ast.Stmt, ind string) (string, error) {
	if len(l) == 0 {
		if !t.narrowed {
			return "", fmt.Errorf("the loop body ends with typ not known to be non-nil")
		}
		return t.next(), nil
	}
	rest := func() (string, error) { return t.stmts(l[1:], ind) }
	switch x := l[0].(type) {
	case *ast.ReturnStmt:
		return t.ret(x)
	case *ast.BranchStmt:
		if x.Tok == token.CONTINUE && x.Label == nil && t.narrowed {
			return t.next(), nil
		}
	case *ast.IfStmt:
		if x.Init != nil || x.Else != nil {
			return "", fmt.Errorf("if with init / else")
		}
		// typ == nil : must leave; below it typ is a type
		if c15sq(x.Cond) == "typ==nil" {
			if t.narrowed || !c15terminates(x.Body.List) {
				return "", fmt.Errorf("the nil test of typ is not the first use of typ / does not leave the loop")
			}
			th, err := t.stmts(x.Body.List, ind+"    ")
			if err != nil {
				return "", err
			}
			t.narrowed = true
			t.ft.tyVars["typ"] = true
			el, err := rest()
			if err != nil {
				return "", err
			}
			return "match typ with\n" + ind + "| None => " + th + "\n" + ind + "| Some typ =>\n" + ind + "    " + el + "\n" + ind + "end", nil
		}
		if !t.narrowed {
			return "", fmt.Errorf("typ is used before it has been tested against nil")
		}
		c, partial, err := t.ft.cond(x.Cond)
		if err != nil {
			return "", err
		}
		if partial {
			return "", fmt.Errorf("partial condition")
		}
		after, err := rest()
		if err != nil {
			return "", err
		}
		th, err := t.stmtsK(x.Body.List, after, ind+"    ")
		if err != nil {
			return "", err
		}
		return "if " + c + " then\n" + ind + "    " + th + "\n" + ind + "else\n" + ind + "    " + after, nil
	default:
		return t.stmtsK(l, "", ind)
	}
	return "", fmt.Errorf("statement outside the translated fragment: %s", c15stmtString(l[0]))
}

// straight-line statements (assignments, the chain loop) followed by what follows them: k if the list falls off
// its end inside an if block (k != ""), else the rest of the loop body
func (t *c15caTr) stmtsK(l []ast.Stmt, k string, ind string) (string, error) {
	if len(l) == 0 {
		if k != "" {
			return k, nil
		}
		return t.stmts(nil, ind)
	}
	rest := func() (string, error) {
		if k == "" {
			return t.stmts(l[1:], ind)
		}
		return t.stmtsK(l[1:], k, ind)
	}
	if !t.narrowed {
		return "", fmt.Errorf("typ is used before it has been tested against nil")
	}
	switch x := l[0].(type) {
	case *ast.ReturnStmt:
		return t.ret(x)
	case *ast.BranchStmt:
		if x.Tok == token.CONTINUE && x.Label == nil {
			return t.next(), nil
		}
	case *ast.IfStmt:
		if k == "" {
			return t.stmts(l, ind)
		}
	case *ast.AssignStmt:
		if len(x.Lhs) == 1 && len(x.Rhs) == 1 && x.Tok == token.ASSIGN {
			lhs, rhs := c15sq(x.Lhs[0]), c15sq(x.Rhs[0])
			switch {
			case lhs == t.acc && rhs == "append("+t.acc+","+t.ft.field+")":
				r, err := rest()
				return "let " + t.acc + " := " + t.acc + " ++ [field] in\n" + ind + r, err
			case lhs == "typ" && rhs == "typ.Elem()":
				r, err := rest()
				return "match rt_elem typ with\n" + ind + "| None => None\n" + ind + "| Some typ =>\n" + ind + "    " + r + "\n" + ind + "end", err
			case lhs == "typ":
				for f := range t.pfVars {
					if rhs == f+".Type" {
						r, err := rest()
						return "let typ := pf_type " + f + " in\n" + ind + r, err
					}
				}
			}
		}
		// f, ok := typ.FieldByName(field)
		if x.Tok == token.DEFINE && len(x.Lhs) == 2 && len(x.Rhs) == 1 && c15sq(x.Rhs[0]) == "typ.FieldByName("+t.ft.field+")" {
			f, okv := c15sq(x.Lhs[0]), c15sq(x.Lhs[1])
			if c15reserved(f) || c15reserved(okv) {
				return "", fmt.Errorf("variable name %s / %s is used by the translation", f, okv)
			}
			t.pfVars[f], t.ft.boolVar[okv] = true, true
			r, err := rest()
			if err != nil {
				return "", err
			}
			return "match rt_field_by_name_p env pe typ field with\n" + ind + "| None => None\n" + ind + "| Some found__ =>\n" + ind +
				"    let " + okv + " := match found__ with Some _ => true | None => false end in\n" + ind +
				"    let " + f + " := match found__ with Some pf__ => pf__ | None => {| pf_type := typ; pf_chain_names := [] |} end in\n" + ind +
				"    " + r + "\n" + ind + "end", nil
		}
	case *ast.ForStmt:
		// for j := 1; j < len(f.Index); j++ { canonical = append(canonical, typ.FieldByIndex(f.Index[:j]).Name) }
		bad := fmt.Errorf("for loop is not the walk over the embedded fields of a promoted field")
		init, ok := x.Init.(*ast.AssignStmt)
		if !ok || init.Tok != token.DEFINE || len(init.Lhs) != 1 || c15sq(init.Rhs[0]) != "1" {
			return "", bad
		}
		j := c15sq(init.Lhs[0])
		if post, ok := x.Post.(*ast.IncDecStmt); !ok || post.Tok != token.INC || c15sq(post.X) != j {
			return "", bad
		}
		var pf string
		for v := range t.pfVars {
			if c15sq(x.Cond) == j+"<len("+v+".Index)" {
				pf = v
			}
		}
		if pf == "" || len(x.Body.List) != 1 {
			return "", bad
		}
		as, ok := x.Body.List[0].(*ast.AssignStmt)
		if !ok || as.Tok != token.ASSIGN || len(as.Lhs) != 1 || len(as.Rhs) != 1 || c15sq(as.Lhs[0]) != t.acc ||
			c15sq(as.Rhs[0]) != "append("+t.acc+",typ.FieldByIndex("+pf+".Index[:"+j+"]).Name)" {
			return "", bad
		}
		r, err := rest()
		return "let " + t.acc + " := " + t.acc + " ++ pf_chain_names " + pf + " in\n" + ind + r, err
	}
	return "", fmt.Errorf("statement outside the translated fragment: %s", c15stmtString(l[0]))
}

func c15ExtractCanonical(repo string) (string, string, error) {
	fset := token.NewFileSet()
	f, err := c15parseGo(fset, repo, "compose", "workflow.go")
	if err != nil {
		return "", "", err
	}
	fn := c15topFunc(f, "canonicalTargetPath")
	if fn == nil || fn.Body == nil {
		return "", "", fmt.Errorf("func canonicalTargetPath not found")
	}
	var ps []string
	for _, fl := range fn.Type.Params.List {
		for _, n := range fl.Names {
			ps = append(ps, n.Name+" "+types.ExprString(fl.Type))
		}
	}
	if strings.Join(ps, ",") != "typ reflect.Type,path FieldPath" {
		return "", "", fmt.Errorf("canonicalTargetPath: parameters (%s)", strings.Join(ps, ", "))
	}
	body := fn.Body.List
	if len(body) != 3 {
		return "", "", fmt.Errorf("canonicalTargetPath: %d top-level statements, expected: result slice, loop, return", len(body))
	}
	as, ok := body[0].(*ast.AssignStmt)
	if !ok || as.Tok != token.DEFINE || len(as.Lhs) != 1 || len(as.Rhs) != 1 || !strings.HasPrefix(c15sq(as.Rhs[0]), "make(FieldPath,0,") {
		return "", "", fmt.Errorf("canonicalTargetPath: the first statement does not create the empty result slice")
	}
	t := &c15caTr{acc: c15sq(as.Lhs[0]), pathVar: "path", pfVars: map[string]bool{},
		ft: &c15ftTr{paths: "path", tyVars: map[string]bool{}, boolVar: map[string]bool{}, sfVars: map[string]bool{}, efVars: map[string]bool{}, inLoop: true}}
	rg, ok := body[1].(*ast.RangeStmt)
	if !ok || c15sq(rg.X) != "path" || rg.Tok != token.DEFINE || rg.Key == nil || rg.Value == nil || c15sq(rg.Value) != "field" {
		return "", "", fmt.Errorf("canonicalTargetPath: the loop is not `for i, field := range path`")
	}
	t.ft.idx, t.ft.field = c15sq(rg.Key), "field"
	lbody, err := t.stmts(rg.Body.List, "      ")
	if err != nil {
		return "", "", fmt.Errorf("canonicalTargetPath (loop body): %v", err)
	}
	r, ok := body[2].(*ast.ReturnStmt)
	if !ok {
		return "", "", fmt.Errorf("canonicalTargetPath: no return after the loop")
	}
	after, err := t.ret(r)
	if err != nil {
		return "", "", err
	}
	var b strings.Builder
	b.WriteString("(* Gen/C15Canonical.v — GENERATED by tools/go2v (extractor \"c15_canonical\") from compose/workflow.go\n")
	b.WriteString("   (func canonicalTargetPath, translated statement by statement). Do not edit. *)\n")
	b.WriteString("From Eino Require Import Base.Util Base.FMUniverse Model.FieldMap Model.FieldMapPromote Model.FieldMapGenLib.\n\n")
	b.WriteString("Definition tie_available : bool := true.\n\n")
	b.WriteString("Fixpoint canonical_loop (env : senv) (pe : penv) (typ : option ty) (" + t.acc + " : path) (path_ : path) {struct path_} : option path :=\n")
	b.WriteString("  match path_ with\n  | [] => " + after + "\n  | field :: rest =>\n      " + lbody + "\n  end.\n\n")
	b.WriteString("Definition canonical_target_path (env : senv) (pe : penv) (typ : option ty) (path_ : path) : option path :=\n")
	b.WriteString("  let " + t.acc + " := [] in\n  canonical_loop env pe typ " + t.acc + " path_.\n")
	return "C15Canonical.v", b.String(), nil
}
