package main

// Property C14, table extractor "concatmsg": the names of locals do not matter.
//
// classifyConcatMessages / classifyConcatToolCalls (concatmsg.go) recognise the two functions by the shape of
// their statements, printed with the local names the functions have today.  c14AlphaCanon renames the locals of
// a function, in the order of their first declaration (parameters, then the body in source order, function
// literals included), to a fixed list of canonical names: a refactoring that only renames locals gives back
// exactly today's text.  It is an alpha-renaming (an injective map on the locals; identifiers that are field
// names or struct-literal keys are not touched; a local beyond the list keeps its name, suffixed if that name
// is taken): the meaning is unchanged, so the table extracted afterwards is the table of the source.

import (
	"go/ast"
	"go/token"
)

// c14LocalsInOrder: the names a function declares, by first declaration
func c14LocalsInOrder(fn *ast.FuncDecl) []string {
	var out []string
	seen := map[string]bool{}
	add := func(id *ast.Ident) {
		if id != nil && id.Name != "_" && !seen[id.Name] {
			seen[id.Name] = true
			out = append(out, id.Name)
		}
	}
	fields := func(fl *ast.FieldList) {
		if fl == nil {
			return
		}
		for _, f := range fl.List {
			for _, n := range f.Names {
				add(n)
			}
		}
	}
	fields(fn.Type.Params)
	fields(fn.Type.Results)
	ast.Inspect(fn.Body, func(n ast.Node) bool {
		switch x := n.(type) {
		case *ast.AssignStmt:
			if x.Tok == token.DEFINE {
				for _, l := range x.Lhs {
					if id, ok := l.(*ast.Ident); ok {
						add(id)
					}
				}
			}
		case *ast.RangeStmt:
			if x.Tok == token.DEFINE {
				if id, ok := x.Key.(*ast.Ident); ok {
					add(id)
				}
				if id, ok := x.Value.(*ast.Ident); ok {
					add(id)
				}
			}
		case *ast.ValueSpec:
			for _, id := range x.Names {
				add(id)
			}
		case *ast.FuncLit:
			fields(x.Type.Params)
			fields(x.Type.Results)
		}
		return true
	})
	return out
}

func c14AlphaCanon(fn *ast.FuncDecl, canon []string) {
	if fn == nil || fn.Body == nil {
		return
	}
	locals := c14LocalsInOrder(fn)
	ren := map[string]string{}
	taken := map[string]bool{}
	for i, n := range locals {
		if i < len(canon) {
			ren[n] = canon[i]
			taken[canon[i]] = true
		}
	}
	for i, n := range locals {
		if i >= len(canon) {
			m := n
			for taken[m] {
				m += "_"
			}
			ren[n] = m
			taken[m] = true
		}
	}
	notVar := map[*ast.Ident]bool{}
	ast.Inspect(fn.Body, func(n ast.Node) bool {
		switch x := n.(type) {
		case *ast.SelectorExpr:
			notVar[x.Sel] = true
		case *ast.KeyValueExpr:
			if id, ok := x.Key.(*ast.Ident); ok {
				notVar[id] = true
			}
		}
		return true
	})
	rename := func(n ast.Node) bool {
		if id, ok := n.(*ast.Ident); ok && !notVar[id] {
			if r, ok := ren[id.Name]; ok {
				id.Name = r
			}
		}
		return true
	}
	ast.Inspect(fn.Type, rename)
	ast.Inspect(fn.Body, rename)
}
