#!/bin/bash
# Refresh the frozen translation used as the neutral Gen/ChanCode.v (run after Proofs/GenAgreeChan.v was adapted to
# a changed /repo): the translation of /repo's current tree, marked tie_available = false.
cd "$(dirname "$0")" || exit 1
sed -e 's/^Definition tie_available : bool := true\./Definition tie_available : bool := false./' \
    -e '1s/.*/(* Gen\/ChanCode.v — translator tie UNAVAILABLE: tools\/go2v (extractor "chancode") did not recognise the shape of\n   compose\/dag.go \/ compose\/pregel.go; this is the FROZEN translation of the tree Proofs\/GenAgreeChan.v was written for\n   (tools\/go2v\/chancode_neutral\/ChanCode.v), so that the agreement file keeps compiling.  Original header:/' \
    ../../../coq/Gen/ChanCode.v > ChanCode.v
