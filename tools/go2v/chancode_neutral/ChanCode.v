(* Gen/ChanCode.v — translator tie UNAVAILABLE: tools/go2v (extractor "chancode") did not recognise the shape of
   compose/dag.go / compose/pregel.go; this is the FROZEN translation of the tree Proofs/GenAgreeChan.v was written for
   (tools/go2v/chancode_neutral/ChanCode.v), so that the agreement file keeps compiling.  Original header:
   compose/pregel.go (methods of dagChannel / pregelChannel, translated statement by statement).
   Do not edit. *)
From Eino Require Import Base.Util Model.Graph Model.ChanGenLib.

Definition tie_available : bool := false.

Section Gen.
  Variable V : Type.
  Variable is_stream : V -> bool.
  Variable merge_values : list V -> res V.
  Variables zero_value empty_stream : V.

  Definition dag_reportValues (ch : chan V) (ins : list (key * V)) : chan V :=
    if (ch_skipped ch) then ch
    else let ch := fold_left (fun ch kv => let k := fst kv in let v := snd kv in
        let ch := (if (m_has k (ch_data ch)) then (let ch := (ch_set_data ch (m_set k true (ch_data ch))) in
          let ch := (ch_set_vals ch (m_set k v (ch_vals ch))) in
          ch) else ch) in
        ch) ins ch in
    ch.

  Definition dag_reportDependencies (ch : chan V) (dependencies : list key) : chan V :=
    if (ch_skipped ch) then ch
    else let ch := fold_left (fun ch dep =>
        let ch := (if (m_has dep (ch_ctrl ch)) then (let ch := (ch_set_ctrl ch (m_set dep Ready (ch_ctrl ch))) in
          ch) else ch) in
        ch) dependencies ch in
    ch.

  Definition dag_reportSkip (ch : chan V) (keys : list key) : chan V * bool :=
    let ch := fold_left (fun ch k =>
        let ch := (if (m_has k (ch_ctrl ch)) then (let ch := (ch_set_ctrl ch (m_set k Skipped (ch_ctrl ch))) in
          ch) else ch) in
        let ch := (if (m_has k (ch_data ch)) then (let ch := (ch_set_data ch (m_set k true (ch_data ch))) in
          ch) else ch) in
        ch) keys ch in
    let allSkipped := true in
    let allSkipped := allSkipped && negb (m_any (fun state => negb (dep_eqb state Skipped)) (ch_ctrl ch)) in
    let ch := (ch_set_skipped ch allSkipped) in
    let ch := (if allSkipped then (let ch := (ch_set_vals ch (m_del_if is_stream (ch_vals ch))) in
      ch) else ch) in
    (ch, allSkipped).

  Definition dag_get (ch : chan V) (isStream : bool) : chan V * res (option V) :=
    if (ch_skipped ch) then (ch, Ok None)
    else if m_any (fun state => dep_eqb state Waiting) (ch_ctrl ch) then (ch, Ok None)
    else if m_any (fun ready => negb ready) (ch_data ch) then (ch, Ok None)
    else let deferred := (fun ch : chan V =>
        let ch := (ch_set_vals ch []) in
        let ch := (ch_set_ctrl ch (m_setall Waiting (ch_ctrl ch))) in
        let ch := (ch_set_data ch (m_setall false (ch_data ch))) in
        ch) in
    let valueList := @nil V in
    let valueList := valueList ++ m_vals (ch_vals ch) in
    if (Nat.eqb (List.length valueList) 0) then (if isStream then ((deferred ch), Ok (Some empty_stream))
      else ((deferred ch), Ok (Some zero_value)))
    else if (Nat.eqb (List.length valueList) 1) then ((deferred ch), Ok (Some (hd zero_value valueList)))
    else match merge_values valueList with
    | Ok v => ((deferred ch), Ok (Some v))
    | Err e => let merr := @Err (option V) e in ((deferred ch), merr)
    | Panic => let merr := @Panic (option V) in ((deferred ch), merr)
    end.

  Definition pregel_reportValues (ch : chan V) (ins : list (key * V)) : chan V :=
    let ch := fold_left (fun ch kv => let k := fst kv in let v := snd kv in
        let ch := (ch_set_vals ch (m_set k v (ch_vals ch))) in
        ch) ins ch in
    ch.

  Definition pregel_get (ch : chan V) : chan V * res (option V) :=
    if (Nat.eqb (List.length (ch_vals ch)) 0) then (ch, Ok None)
    else let deferred := (fun ch : chan V =>
        let ch := (ch_set_vals ch []) in
        ch) in
    let values := @nil V in
    let values := values ++ m_vals (ch_vals ch) in
    if (Nat.eqb (List.length values) 1) then ((deferred ch), Ok (Some (hd zero_value values)))
    else match merge_values values with
    | Ok v => ((deferred ch), Ok (Some v))
    | Err e => let merr := @Err (option V) e in ((deferred ch), merr)
    | Panic => let merr := @Panic (option V) in ((deferred ch), merr)
    end.

End Gen.
