package main

// Extractor "c19_chanclose" (property C19): what the all-predecessor channel does with the STREAMS it is
// handed or holds — compose/dag.go, methods reportValues and reportSkip of dagChannel, translated into
// Gallina over the vocabulary of Model/AcctGenLib.v + Model/ChanCloseGenLib.v.  (The shared extractor
// "chancode" translates the same methods for C01 / C02 in value mode, where `sr.close()` has no effect;
// here the closes are the point.)
//
//	reportValues  if ch.Skipped { for _, v := range ins { close v } ; return nil }
//	              for k, v := range ins { if _, ok := ch.DataPredecessors[k]; !ok { continue } ;
//	                                      ch.DataPredecessors[k] = true ; ch.Values[k] = v } ; return nil
//	   -> dag_report_values skipped dps ins : which values are stored, which are closed
//	reportSkip    for _, k := range keys { mark k skipped among the control predecessors (and done among the
//	              data predecessors) } ; allSkipped := every control predecessor is skipped ;
//	              ch.Skipped = allSkipped ; if allSkipped { for k, v := range ch.Values { close v; delete } } ;
//	              return allSkipped
//	   -> dag_report_skip cps keys values : the control-predecessor map, the verdict, the values closed
//
// Statement shapes outside these are "not recognised" (tie unavailable); a recognised method with another
// guard, range, test or without one of the closes yields another Gallina term and Proofs/GenAgreeChanClose.v
// fails.  Output: coq/Gen/ChanCloseCode.v.

import (
	"fmt"
	"go/ast"
	"go/parser"
	"go/token"
	"go/types"
	"path/filepath"
	"strings"
)

const c19ChanCloseNeutral = "(* Gen/ChanCloseCode.v — translator tie UNAVAILABLE: tools/go2v (extractor \"c19_chanclose\") did not recognise the\n" +
	"   shape of compose/dag.go (dagChannel.reportValues / reportSkip); the model's own functions are re-exported. *)\n" +
	"From Eino Require Import Base.Util Model.StreamAcct Model.AcctGenLib Model.StreamRun Model.ChanCloseGenLib.\n\n" +
	"Definition dag_report_values (v_skipped : bool) (v_dps : list key) (v_ins : list (key * handle)) : upd_acc :=\n" +
	"  spec_report_values v_skipped v_dps v_ins.\n" +
	"Definition dag_report_skip (v_cps : list (key * dstate)) (v_keys : list key) (v_values : list (key * handle))\n" +
	"  : list (key * dstate) * bool * list handle := spec_report_skip v_cps v_keys v_values.\n"

func init() {
	register("c19_chanclose", c19ExtractChanClose)
	registerFallback("c19_chanclose", "ChanCloseCode.v", c19ChanCloseNeutral)
}

func c19ccErr(m, format string, a ...any) error {
	return fmt.Errorf("dagChannel.%s: %s", m, fmt.Sprintf(format, a...))
}

func c19ccSq(e ast.Node) string {
	switch x := e.(type) {
	case ast.Expr:
		return strings.Join(strings.Fields(types.ExprString(x)), "")
	}
	return ""
}

func c19ccMethod(f *ast.File, recvType, name string) (*ast.FuncDecl, string) {
	for _, d := range f.Decls {
		fn, ok := d.(*ast.FuncDecl)
		if !ok || fn.Recv == nil || fn.Name.Name != name || len(fn.Recv.List) != 1 || len(fn.Recv.List[0].Names) != 1 {
			continue
		}
		if st, ok := fn.Recv.List[0].Type.(*ast.StarExpr); ok {
			if id, ok := st.X.(*ast.Ident); ok && id.Name == recvType {
				return fn, fn.Recv.List[0].Names[0].Name
			}
		}
	}
	return nil, ""
}

// `if sr, ok := <v>.(streamReader); ok { sr.close() <more> }` -> more
func c19ccCloseIf(s ast.Stmt, v string) ([]ast.Stmt, bool) {
	is, ok := s.(*ast.IfStmt)
	if !ok || is.Else != nil || len(is.Body.List) < 1 {
		return nil, false
	}
	as, ok := is.Init.(*ast.AssignStmt)
	if !ok || as.Tok != token.DEFINE || len(as.Lhs) != 2 || len(as.Rhs) != 1 {
		return nil, false
	}
	sv, ok1 := as.Lhs[0].(*ast.Ident)
	okv, ok2 := as.Lhs[1].(*ast.Ident)
	ta, ok3 := as.Rhs[0].(*ast.TypeAssertExpr)
	if !ok1 || !ok2 || !ok3 || c19ccSq(ta.X) != v || c19ccSq(ta.Type) != "streamReader" || c19ccSq(is.Cond) != okv.Name {
		return nil, false
	}
	es, ok := is.Body.List[0].(*ast.ExprStmt)
	if !ok || c19ccSq(es.X) != sv.Name+".close()" {
		return nil, false
	}
	return is.Body.List[1:], true
}

func c19ccRangeVars(rs *ast.RangeStmt) (string, string) {
	name := func(e ast.Expr) string {
		if id, ok := e.(*ast.Ident); ok {
			return id.Name
		}
		return ""
	}
	return name(rs.Key), name(rs.Value)
}

func c19ccReportValues(fn *ast.FuncDecl, recv string) (string, error) {
	const m = "reportValues"
	if len(fn.Type.Params.List) != 1 || len(fn.Type.Params.List[0].Names) != 1 {
		return "", c19ccErr(m, "parameters")
	}
	ins := fn.Type.Params.List[0].Names[0].Name
	l := fn.Body.List
	if len(l) != 3 {
		return "", c19ccErr(m, "%d statements, expected 3", len(l))
	}
	// if ch.Skipped { for _, v := range ins { close v } ; return nil }
	is, ok := l[0].(*ast.IfStmt)
	if !ok || is.Init != nil || is.Else != nil || len(is.Body.List) < 1 || len(is.Body.List) > 2 {
		return "", c19ccErr(m, "statement 1 is not the skipped case")
	}
	var guard string
	switch c19ccSq(is.Cond) {
	case recv + ".Skipped":
		guard = "v_skipped"
	default:
		return "", c19ccErr(m, "guard of the closing loop: %s", c19ccSq(is.Cond))
	}
	vv := "v"
	skippedArm := "ua_close v_v acc"
	if len(is.Body.List) == 1 {
		// the values handed to a skipped channel are dropped as they are
		skippedArm = "acc"
	} else {
		rs, ok := is.Body.List[0].(*ast.RangeStmt)
		if !ok || c19ccSq(rs.X) != ins || len(rs.Body.List) != 1 {
			return "", c19ccErr(m, "skipped case: no loop over the reported values")
		}
		_, vv = c19ccRangeVars(rs)
		rest, ok := c19ccCloseIf(rs.Body.List[0], vv)
		if !ok || len(rest) != 0 || vv == "" {
			return "", c19ccErr(m, "skipped case: the loop does not close every stream")
		}
		skippedArm = "ua_close v_" + vv + " acc"
	}
	if _, ok := is.Body.List[len(is.Body.List)-1].(*ast.ReturnStmt); !ok {
		return "", c19ccErr(m, "skipped case does not return")
	}
	// for k, v := range ins { if _, ok := ch.DataPredecessors[k]; !ok { continue } ; ch.DataPredecessors[k] = true ; ch.Values[k] = v }
	rs2, ok := l[1].(*ast.RangeStmt)
	if !ok || c19ccSq(rs2.X) != ins || len(rs2.Body.List) < 1 {
		return "", c19ccErr(m, "statement 2 is not the storing loop")
	}
	kv, vv2 := c19ccRangeVars(rs2)
	if kv == "" || kv == "_" || vv2 == "" {
		return "", c19ccErr(m, "loop variables of the storing loop")
	}
	t0, ok := rs2.Body.List[0].(*ast.IfStmt)
	if !ok {
		return "", c19ccErr(m, "storing loop: test")
	}
	ia, ok := t0.Init.(*ast.AssignStmt)
	if !ok || len(ia.Lhs) != 2 || len(ia.Rhs) != 1 || c19ccSq(ia.Rhs[0]) != recv+".DataPredecessors["+kv+"]" {
		return "", c19ccErr(m, "storing loop: the test is not a lookup of the writer among the data predecessors")
	}
	okv, _ := ia.Lhs[1].(*ast.Ident)
	if okv == nil {
		return "", c19ccErr(m, "storing loop: test")
	}
	// two spellings of the same loop body are read (round 5, behaviour-preserving rewrites):
	//   if _, ok := DP[k]; <c> { continue } ; <store>          -> skipped when <c>
	//   if _, ok := DP[k]; <c> { <store> }   (nothing after)   -> skipped when not <c>
	var store []ast.Stmt
	negate := false
	if br, isBr := c19ccOnlyBranch(t0.Body); isBr && br == token.CONTINUE && t0.Else == nil {
		store = rs2.Body.List[1:]
	} else if t0.Else == nil && len(rs2.Body.List) == 1 {
		store = t0.Body.List
		negate = true
	} else {
		return "", c19ccErr(m, "storing loop: test without continue")
	}
	mem := "(g_set_mem v_" + kv + " v_dps)"
	sign := c19OkSign(t0.Cond, okv.Name) // +1: the arm is taken when the writer is a data predecessor
	if sign == 0 {
		return "", c19ccErr(m, "storing loop: test")
	}
	if negate {
		sign = -sign
	}
	// sign > 0: the value is skipped (continue) when the writer IS a data predecessor
	skipCond := mem
	if sign < 0 {
		skipCond = "(negb " + mem + ")"
	}
	if len(store) != 2 {
		return "", c19ccErr(m, "storing loop: the value is not stored under its writer")
	}
	a1, ok1 := store[0].(*ast.AssignStmt)
	a2, ok2 := store[1].(*ast.AssignStmt)
	if ok1 && ok2 && len(a1.Lhs) == 1 && c19ccSq(a1.Lhs[0]) == recv+".Values["+kv+"]" {
		a1, a2 = a2, a1 // the two independent map writes in the other order
	}
	if !ok1 || !ok2 || len(a1.Lhs) != 1 || len(a2.Lhs) != 1 || len(a1.Rhs) != 1 || len(a2.Rhs) != 1 ||
		c19ccSq(a1.Lhs[0]) != recv+".DataPredecessors["+kv+"]" || c19ccSq(a1.Rhs[0]) != "true" ||
		c19ccSq(a2.Lhs[0]) != recv+".Values["+kv+"]" || c19ccSq(a2.Rhs[0]) != vv2 {
		return "", c19ccErr(m, "storing loop: the value is not stored under its writer")
	}
	if _, ok := l[2].(*ast.ReturnStmt); !ok {
		return "", c19ccErr(m, "statement 3 is not a return")
	}
	return "Definition dag_report_values (v_skipped : bool) (v_dps : list key) (v_ins : list (key * handle)) : upd_acc :=\n" +
		"  if " + guard + " then g_range v_ins ua_empty (fun acc kv => let '(v_k, v_" + vv + ") := kv in " + skippedArm + ")\n" +
		"  else g_range v_ins ua_empty (fun acc kv => let '(v_" + kv + ", v_" + vv2 + ") := kv in\n" +
		"    if " + skipCond + " then acc\n" +
		"    else ua_keep v_" + kv + " v_" + vv2 + " acc).\n", nil
}

func c19ccReportSkip(fn *ast.FuncDecl, recv string, f *ast.File) (string, error) {
	const m = "reportSkip"
	if len(fn.Type.Params.List) != 1 || len(fn.Type.Params.List[0].Names) != 1 {
		return "", c19ccErr(m, "parameters")
	}
	keys := fn.Type.Params.List[0].Names[0].Name
	l := fn.Body.List
	if len(l) != 6 && len(l) != 5 {
		return "", c19ccErr(m, "%d statements, expected 6", len(l))
	}
	if len(l) == 5 { // no closing block at all: as if it were `if false {}`
		l = append(append([]ast.Stmt{}, l[:4]...), nil, l[4])
	}
	cpf, dpf := recv+".ControlPredecessors", recv+".DataPredecessors"
	// 1. for _, k := range keys { if _, ok := CP[k]; ok { CP[k] = dependencyStateSkipped } ; if _, ok := DP[k]; ok { DP[k] = true } }
	rs, ok := l[0].(*ast.RangeStmt)
	if !ok || c19ccSq(rs.X) != keys || len(rs.Body.List) < 1 {
		return "", c19ccErr(m, "statement 1 is not the loop over the skipped predecessors")
	}
	_, kv := c19ccRangeVars(rs)
	var mark string
	for _, s := range rs.Body.List {
		is, ok := s.(*ast.IfStmt)
		if !ok || is.Else != nil || len(is.Body.List) != 1 {
			return "", c19ccErr(m, "marking loop: statement")
		}
		ia, ok := is.Init.(*ast.AssignStmt)
		if !ok || len(ia.Lhs) != 2 || len(ia.Rhs) != 1 {
			return "", c19ccErr(m, "marking loop: test")
		}
		okv, _ := ia.Lhs[1].(*ast.Ident)
		as, ok := is.Body.List[0].(*ast.AssignStmt)
		if okv == nil || !ok || len(as.Lhs) != 1 || len(as.Rhs) != 1 || c19ccSq(is.Cond) != okv.Name {
			return "", c19ccErr(m, "marking loop: test")
		}
		switch c19ccSq(ia.Rhs[0]) {
		case cpf + "[" + kv + "]":
			if c19ccSq(as.Lhs[0]) != cpf+"["+kv+"]" {
				return "", c19ccErr(m, "marking loop: control predecessors")
			}
			st, err := c19ccDepState(c19ccSq(as.Rhs[0]))
			if err != nil || mark != "" {
				return "", c19ccErr(m, "marking loop: state written")
			}
			mark = st
		case dpf + "[" + kv + "]":
			if c19ccSq(as.Lhs[0]) != dpf+"["+kv+"]" || c19ccSq(as.Rhs[0]) != "true" {
				return "", c19ccErr(m, "marking loop: data predecessors")
			}
		default:
			return "", c19ccErr(m, "marking loop: lookup")
		}
	}
	if mark == "" {
		return "", c19ccErr(m, "the skipped predecessor is not marked among the control predecessors")
	}
	// 2. allSkipped := true
	a1, ok := l[1].(*ast.AssignStmt)
	if !ok || a1.Tok != token.DEFINE || len(a1.Lhs) != 1 || len(a1.Rhs) != 1 {
		return "", c19ccErr(m, "statement 2")
	}
	flag, _ := a1.Lhs[0].(*ast.Ident)
	init := c19ccSq(a1.Rhs[0])
	if flag == nil || (init != "true" && init != "false") {
		return "", c19ccErr(m, "statement 2 is not a flag")
	}
	// 3. for _, state := range CP { if state != dependencyStateSkipped { allSkipped = false; break } }
	rs3, ok := l[2].(*ast.RangeStmt)
	if !ok || c19ccSq(rs3.X) != cpf || len(rs3.Body.List) != 1 {
		return "", c19ccErr(m, "statement 3 is not the loop over the control predecessors")
	}
	_, sv := c19ccRangeVars(rs3)
	is3, ok := rs3.Body.List[0].(*ast.IfStmt)
	if !ok || is3.Init != nil || is3.Else != nil || len(is3.Body.List) != 2 {
		return "", c19ccErr(m, "flag loop: body")
	}
	be, ok := is3.Cond.(*ast.BinaryExpr)
	if !ok || c19ccSq(be.X) != sv || (be.Op != token.NEQ && be.Op != token.EQL) {
		return "", c19ccErr(m, "flag loop: test")
	}
	st3, err := c19ccDepState(c19ccSq(be.Y))
	if err != nil {
		return "", c19ccErr(m, "flag loop: %v", err)
	}
	test := "(dstate_eqb state " + st3 + ")"
	if be.Op == token.NEQ {
		test = "(negb " + test + ")"
	}
	fa, ok1 := is3.Body.List[0].(*ast.AssignStmt)
	fb, ok2 := is3.Body.List[1].(*ast.BranchStmt)
	if !ok1 || !ok2 || fb.Tok != token.BREAK || len(fa.Lhs) != 1 || len(fa.Rhs) != 1 || c19ccSq(fa.Lhs[0]) != flag.Name {
		return "", c19ccErr(m, "flag loop: the flag is not set and the loop left")
	}
	newv := c19ccSq(fa.Rhs[0])
	if newv != "true" && newv != "false" {
		return "", c19ccErr(m, "flag loop: value of the flag")
	}
	// 4. ch.Skipped = allSkipped
	a4, ok := l[3].(*ast.AssignStmt)
	if !ok || len(a4.Lhs) != 1 || len(a4.Rhs) != 1 || c19ccSq(a4.Lhs[0]) != recv+".Skipped" || c19ccSq(a4.Rhs[0]) != flag.Name {
		return "", c19ccErr(m, "statement 4 is not ch.Skipped = %s", flag.Name)
	}
	// 5. if allSkipped { for k, v := range ch.Values { if sr, ok := v.(streamReader); ok { sr.close(); delete(ch.Values, k) } } }
	guard, closedExpr := "false", ""
	k5, v5 := "k", "v"
	if l[4] != nil {
		is5, ok := l[4].(*ast.IfStmt)
		if !ok || is5.Init != nil || is5.Else != nil || len(is5.Body.List) != 1 {
			return "", c19ccErr(m, "statement 5 is not the closing block")
		}
		switch c19ccSq(is5.Cond) {
		case flag.Name:
			guard = "v_" + flag.Name
		case "!" + flag.Name:
			guard = "(negb v_" + flag.Name + ")"
		default:
			return "", c19ccErr(m, "guard of the closing block")
		}
		rs5, ok := is5.Body.List[0].(*ast.RangeStmt)
		if !ok || c19ccSq(rs5.X) != recv+".Values" || len(rs5.Body.List) != 1 {
			return "", c19ccErr(m, "closing block: no loop over the stored values")
		}
		k5, v5 = c19ccRangeVars(rs5)
		if v5 == "" {
			v5 = "v"
		}
		del := "delete(" + recv + ".Values," + k5 + ")"
		if rest, ok := c19ccCloseIf(rs5.Body.List[0], v5); ok {
			if len(rest) != 1 {
				return "", c19ccErr(m, "closing block: a closed stream is not deleted from the stored values")
			}
			if es, ok := rest[0].(*ast.ExprStmt); !ok || c19ccSq(es.X) != del {
				return "", c19ccErr(m, "closing block: a closed stream is not deleted from the stored values")
			}
		} else if strings.Contains(strings.Join(strings.Fields(c19ccStmtText(rs5.Body.List[0])), ""), del) {
			closedExpr = "acc" // the stored values are forgotten without being closed
		} else {
			return "", c19ccErr(m, "closing block: the loop neither closes nor deletes the stored values")
		}
	}
	// 6. return allSkipped
	r6, ok := l[5].(*ast.ReturnStmt)
	if !ok || len(r6.Results) != 1 || c19ccSq(r6.Results[0]) != flag.Name {
		return "", c19ccErr(m, "statement 6 is not return %s", flag.Name)
	}
	fl := "v_" + flag.Name
	return "Definition dag_report_skip (v_cps : list (key * dstate)) (v_keys : list key) (v_values : list (key * handle))\n" +
		"  : list (key * dstate) * bool * list handle :=\n" +
		"  let v_cps := g_range v_keys v_cps (fun cps v_" + kv + " =>\n" +
		"    if (g_map_has v_" + kv + " cps) then g_map_set v_" + kv + " " + mark + " cps else cps) in\n" +
		"  let " + fl + " := " + init + " in\n" +
		"  let " + fl + " := g_flag_break v_cps " + fl + " (fun state => " + test + ") " + newv + " in\n" +
		"  (v_cps, " + fl + ",\n" +
		"   if " + guard + " then g_range v_values (@nil handle) (fun acc kv => let '(v_" + k5 + ", v_" + v5 + ") := kv in " + c19ccOr(closedExpr, "acc ++ [v_"+v5+"]") + ")\n" +
		"   else []).\n", nil
}

// the block consists of one branch statement (continue / break) without label
func c19ccOnlyBranch(b *ast.BlockStmt) (token.Token, bool) {
	if b == nil || len(b.List) != 1 {
		return 0, false
	}
	br, ok := b.List[0].(*ast.BranchStmt)
	if !ok || br.Label != nil {
		return 0, false
	}
	return br.Tok, true
}

func c19ccOr(a, b string) string {
	if a != "" {
		return a
	}
	return b
}

// source text of a statement, from its expressions (enough to look for a call in it)
func c19ccStmtText(s ast.Stmt) string {
	var b strings.Builder
	ast.Inspect(s, func(n ast.Node) bool {
		if e, ok := n.(*ast.CallExpr); ok {
			b.WriteString(types.ExprString(e) + ";")
		}
		return true
	})
	return b.String()
}

func c19ccDepState(s string) (string, error) {
	switch s {
	case "dependencyStateWaiting":
		return "DWait", nil
	case "dependencyStateReady":
		return "DReady", nil
	case "dependencyStateSkipped":
		return "DSkip", nil
	}
	return "", fmt.Errorf("%s is not a dependency state", s)
}

func c19ExtractChanClose(repo string) (string, string, error) {
	fset := token.NewFileSet()
	f, err := parser.ParseFile(fset, filepath.Join(repo, "compose", "dag.go"), nil, 0)
	if err != nil {
		return "", "", err
	}
	rv, r1 := c19ccMethod(f, "dagChannel", "reportValues")
	rk, r2 := c19ccMethod(f, "dagChannel", "reportSkip")
	if rv == nil || rk == nil {
		return "", "", fmt.Errorf("(*dagChannel).reportValues / reportSkip not found")
	}
	inl := c19NewInliner(fset, filepath.Join(repo, "compose"))
	inl.expandFunc(rv)
	inl.expandFunc(rk)
	d1, err := c19ccReportValues(rv, r1)
	if err != nil {
		return "", "", err
	}
	d2, err := c19ccReportSkip(rk, r2, f)
	if err != nil {
		return "", "", err
	}
	var b strings.Builder
	b.WriteString("(* Gen/ChanCloseCode.v — GENERATED by tools/go2v (extractor \"c19_chanclose\") from compose/dag.go\n")
	b.WriteString("   (dagChannel.reportValues, dagChannel.reportSkip: what happens to the streams). Do not edit. *)\n")
	b.WriteString("From Eino Require Import Base.Util Model.StreamAcct Model.AcctGenLib Model.StreamRun Model.ChanCloseGenLib.\n\n")
	b.WriteString(d1 + "\n" + d2)
	return "ChanCloseCode.v", b.String(), nil
}
