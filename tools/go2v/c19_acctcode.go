package main

// Extractor "acctcode" (property C19): the stream-copy arithmetic of the graph runner, translated
// statement by statement into Gallina over the vocabulary of Model/AcctGenLib.v.
//
//	compose/graph_run.go      func copyItem                       -> copy_item
//	                          func uniqueKeys                     -> unique_keys
//	                          (*runner).resolveCompletedTasks: the body of `for _, t := range completedTasks`
//	                                                              -> resolve_task
//	compose/graph_manager.go  (*channelManager).updateValues: the loop over the values written to one
//	                          target (`for from, value := range fromMap`)   -> update_from_map
//	internal/callbacks/inject.go  func OnWithStreamHandle             -> on_with_stream_handle
//
// The translated fragment is a small imperative language over int variables, slices of stream values /
// node keys and the handle store: `x := e`, `x = e`, `if init; cond { ... }` without else (the variables
// assigned inside are threaded out), integer expressions (literals, variables, len(), + - *), comparisons,
// slice expressions x[a:] x[:b] and indexing x[i] (each a step that may panic), append(a, b...) /
// append(a, x), copyItem(v, n), uniqueKeys(s), r.calculateBranch(...) (kept as the vocabulary's
// g_calculate_branch together with the error test that follows it), and three loop shapes: dependency
// bookkeeping (newDependencies[...] = append(...): no stream is touched, skipped), the write loop
// `for i, next := range K { ...; W[next][t.nodeKey] = V[i] }` and the close loop
// `for _, v := range S { if sr, ok := v.(streamReader); ok { sr.close() } }`.
// Anything else is "not recognised" (translator tie unavailable); a recognised source with different
// arithmetic, bounds, order or loop ranges yields a different Gallina term and Proofs/GenAgreeAcct.v fails.
//
// Output: coq/Gen/AcctCode.v.

import (
	"fmt"
	"go/ast"
	"go/parser"
	"go/token"
	"go/types"
	"path/filepath"
	"strings"
)

const c19AcctNeutral = "(* Gen/AcctCode.v — translator tie UNAVAILABLE: tools/go2v (extractor \"acctcode\") did not recognise the\n" +
	"   shape of compose/graph_run.go (copyItem, uniqueKeys, resolveCompletedTasks) or compose/graph_manager.go\n" +
	"   (updateValues); the model's own functions are re-exported. *)\n" +
	"From Eino Require Import Base.Util Model.StreamAcct Model.AcctGenLib.\n" +
	"Open Scope Z_scope.\n\n" +
	"Definition copy_item (v_item : handle) (v_n : Z) (st : store) : list handle * store := StreamAcct.copy_item v_item v_n st.\n" +
	"Definition unique_keys (v_keys : list key) : list key := StreamAcct.unique_keys v_keys.\n" +
	"Definition resolve_task (t : task) (output : handle) (st : store) : res resolved := StreamAcct.resolve_task t output st.\n" +
	"Definition update_from_map (v_dps : list key) (v_fromMap : list (key * handle)) : upd_acc :=\n" +
	"  {| ua_kept := filter (fun kv => memb (fst kv) v_dps) v_fromMap;\n" +
	"     ua_closed := map snd (filter (fun kv => negb (memb (fst kv) v_dps)) v_fromMap) |}.\n" +
	"Definition on_with_stream_handle (v_handlers : list unit) (v_inOut : handle) (st : store) : res (handle * list handle * store) :=\n" +
	"  Ok (StreamAcct.on_with_stream_handle (List.length v_handlers) v_inOut st).\n"

func init() {
	register("acctcode", c19ExtractAcctCode)
	registerFallback("acctcode", "AcctCode.v", c19AcctNeutral)
}

// ---------------------------------------------------------------- the little compiler

type c19AcctTr struct {
	fn     string
	ints   map[string]bool   // int variables in scope
	slices map[string]string // slice variables in scope -> element kind ("handle" | "key")
	elems  map[string]string // element variables in scope -> Gallina term
	pre    []string          // pending steps (binds) of the expression being translated
	tmp    int
	// resolve_task only
	task       string // the range variable of the task loop
	branchIn   string
	writes     string
	closed     string
	usesStore  bool
	storeDirty bool
}

func (t *c19AcctTr) errf(format string, a ...any) error {
	return fmt.Errorf("%s: %s", t.fn, fmt.Sprintf(format, a...))
}

func (t *c19AcctTr) fresh() string {
	t.tmp++
	return fmt.Sprintf("tmp%d", t.tmp)
}

func c19Gv(name string) string { return "v_" + name }

// t.call.writeTo / t.call.writeToBranches / t.call.controls
func (t *c19AcctTr) callField(e ast.Expr) (string, bool) {
	sel, ok := e.(*ast.SelectorExpr)
	if !ok {
		return "", false
	}
	in, ok := sel.X.(*ast.SelectorExpr)
	if !ok || in.Sel.Name != "call" {
		return "", false
	}
	id, ok := in.X.(*ast.Ident)
	if !ok || t.task == "" || id.Name != t.task {
		return "", false
	}
	return sel.Sel.Name, true
}

func (t *c19AcctTr) isTaskField(e ast.Expr, field string) bool {
	sel, ok := e.(*ast.SelectorExpr)
	if !ok || sel.Sel.Name != field {
		return false
	}
	id, ok := sel.X.(*ast.Ident)
	return ok && t.task != "" && id.Name == t.task
}

func (t *c19AcctTr) intExpr(e ast.Expr) (string, error) {
	switch x := e.(type) {
	case *ast.ParenExpr:
		return t.intExpr(x.X)
	case *ast.BasicLit:
		if x.Kind == token.INT {
			return x.Value, nil
		}
	case *ast.Ident:
		if t.ints[x.Name] {
			return c19Gv(x.Name), nil
		}
	case *ast.CallExpr:
		if id, ok := x.Fun.(*ast.Ident); ok && id.Name == "len" && len(x.Args) == 1 {
			s, _, err := t.sliceExpr(x.Args[0])
			if err != nil {
				return "", err
			}
			return "(glen " + s + ")", nil
		}
	case *ast.BinaryExpr:
		var op string
		switch x.Op {
		case token.ADD:
			op = "+"
		case token.SUB:
			op = "-"
		case token.MUL:
			op = "*"
		default:
			return "", t.errf("integer operator %s", x.Op)
		}
		l, err := t.intExpr(x.X)
		if err != nil {
			return "", err
		}
		r, err := t.intExpr(x.Y)
		if err != nil {
			return "", err
		}
		return "(" + l + " " + op + " " + r + ")", nil
	}
	return "", t.errf("integer expression %s is outside the translated fragment", types.ExprString(e))
}

func (t *c19AcctTr) cond(e ast.Expr) (string, error) {
	switch x := e.(type) {
	case *ast.ParenExpr:
		return t.cond(x.X)
	case *ast.BinaryExpr:
		var op string
		switch x.Op {
		case token.LSS:
			op = "<?"
		case token.GTR:
			op = ">?"
		case token.LEQ:
			op = "<=?"
		case token.GEQ:
			op = ">=?"
		case token.EQL:
			op = "=?"
		default:
			return "", t.errf("comparison %s", x.Op)
		}
		l, err := t.intExpr(x.X)
		if err != nil {
			return "", err
		}
		r, err := t.intExpr(x.Y)
		if err != nil {
			return "", err
		}
		return "(" + l + " " + op + " " + r + ")", nil
	}
	return "", t.errf("condition %s is outside the translated fragment", types.ExprString(e))
}

// sliceExpr returns the Gallina term and the element kind
func (t *c19AcctTr) sliceExpr(e ast.Expr) (string, string, error) {
	switch x := e.(type) {
	case *ast.ParenExpr:
		return t.sliceExpr(x.X)
	case *ast.Ident:
		if k, ok := t.slices[x.Name]; ok {
			return c19Gv(x.Name), k, nil
		}
	case *ast.SelectorExpr:
		if f, ok := t.callField(x); ok {
			switch f {
			case "writeTo":
				return "(t_write_to t)", "key", nil
			case "writeToBranches":
				return "(t_branches t)", "branch", nil
			}
		}
	case *ast.SliceExpr:
		if x.Slice3 {
			break
		}
		s, k, err := t.sliceExpr(x.X)
		if err != nil {
			return "", "", err
		}
		if x.Low != nil {
			a, err := t.intExpr(x.Low)
			if err != nil {
				return "", "", err
			}
			n := t.fresh()
			t.pre = append(t.pre, "do "+n+" <- g_slice_from "+s+" "+a+";")
			s = n
		}
		if x.High != nil {
			if bl, ok := x.High.(*ast.BasicLit); ok && bl.Value == "0" && x.Low == nil {
				return "(@nil " + k + ")", k, nil // x[:0]
			}
			b, err := t.intExpr(x.High)
			if err != nil {
				return "", "", err
			}
			n := t.fresh()
			t.pre = append(t.pre, "do "+n+" <- g_slice_to "+s+" "+b+";")
			s = n
		}
		return s, k, nil
	case *ast.CallExpr:
		if id, ok := x.Fun.(*ast.Ident); ok && id.Name == "append" && len(x.Args) == 2 {
			a, k, err := t.sliceExpr(x.Args[0])
			if err != nil {
				return "", "", err
			}
			if x.Ellipsis != token.NoPos {
				b, k2, err := t.sliceExpr(x.Args[1])
				if err != nil {
					return "", "", err
				}
				if k2 != k {
					return "", "", t.errf("append of %s to %s", k2, k)
				}
				return "(" + a + " ++ " + b + ")", k, nil
			}
			el, err := t.elemExpr(x.Args[1])
			if err != nil {
				return "", "", err
			}
			return "(" + a + " ++ [" + el + "])", k, nil
		}
	}
	return "", "", t.errf("slice expression %s is outside the translated fragment", types.ExprString(e))
}

func (t *c19AcctTr) elemExpr(e ast.Expr) (string, error) {
	switch x := e.(type) {
	case *ast.Ident:
		if g, ok := t.elems[x.Name]; ok {
			return g, nil
		}
	case *ast.SelectorExpr:
		if t.isTaskField(x, "output") {
			return "output", nil
		}
	case *ast.IndexExpr:
		s, _, err := t.sliceExpr(x.X)
		if err != nil {
			return "", err
		}
		i, err := t.intExpr(x.Index)
		if err != nil {
			return "", err
		}
		n := t.fresh()
		t.pre = append(t.pre, "do "+n+" <- g_index "+s+" "+i+";")
		return n, nil
	}
	return "", t.errf("value expression %s is outside the translated fragment", types.ExprString(e))
}

func (t *c19AcctTr) flush(ind string) string {
	var b strings.Builder
	for _, p := range t.pre {
		b.WriteString(p + "\n" + ind)
	}
	t.pre = nil
	return b.String()
}

func c19CalleeName(e ast.Expr) string {
	switch x := e.(type) {
	case *ast.Ident:
		return x.Name
	case *ast.SelectorExpr:
		return x.Sel.Name
	}
	return ""
}

// the variables of the enclosing scope that a block assigns with `=` (and whether it copies streams)
func (t *c19AcctTr) assignedOuter(l []ast.Stmt) (vars []string, store bool) {
	declared := map[string]bool{}
	seen := map[string]bool{}
	for _, s := range l {
		ast.Inspect(s, func(n ast.Node) bool {
			switch x := n.(type) {
			case *ast.AssignStmt:
				for _, lh := range x.Lhs {
					id, ok := lh.(*ast.Ident)
					if !ok {
						continue
					}
					if x.Tok == token.DEFINE {
						declared[id.Name] = true
					} else if !declared[id.Name] && !seen[id.Name] && (t.ints[id.Name] || t.slices[id.Name] != "") {
						seen[id.Name] = true
						vars = append(vars, id.Name)
					}
				}
			case *ast.CallExpr:
				if c19CalleeName(x.Fun) == c19CopyName {
					store = true
				}
			}
			return true
		})
	}
	return
}

func c19Tuple(vars []string, store bool) string {
	var xs []string
	for _, v := range vars {
		xs = append(xs, c19Gv(v))
	}
	if store {
		xs = append(xs, "st")
	}
	if len(xs) == 1 {
		return xs[0]
	}
	return "(" + strings.Join(xs, ", ") + ")"
}

// block translates a statement list in the res monad; fin gives the final expression
func (t *c19AcctTr) block(l []ast.Stmt, ind string, fin func() (string, error)) (string, error) {
	if len(l) == 0 {
		return fin()
	}
	rest := func() (string, error) { return t.block(l[1:], ind, fin) }
	switch x := l[0].(type) {
	case *ast.AssignStmt:
		return t.assign(x, l, ind, fin)
	case *ast.IfStmt:
		if x.Else != nil {
			return "", t.errf("if with else")
		}
		vars, store := t.assignedOuter(x.Body.List)
		if len(vars) == 0 && !store {
			return "", t.errf("if statement without effect on the translated state")
		}
		saveInts, saveSlices := c19CopyBool(t.ints), c19CopyStr(t.slices)
		in := ind + "  "
		var init string
		if x.Init != nil {
			as, ok := x.Init.(*ast.AssignStmt)
			if !ok || as.Tok != token.DEFINE || len(as.Lhs) != 1 || len(as.Rhs) != 1 {
				return "", t.errf("if init statement")
			}
			id, ok := as.Lhs[0].(*ast.Ident)
			if !ok {
				return "", t.errf("if init statement")
			}
			v, err := t.intExpr(as.Rhs[0])
			if err != nil {
				return "", err
			}
			init = t.flush(in) + "let " + c19Gv(id.Name) + " := " + v + " in\n" + in
			t.ints[id.Name] = true
		}
		c, err := t.cond(x.Cond)
		if err != nil {
			return "", err
		}
		if len(t.pre) > 0 {
			return "", t.errf("condition with a step that may panic")
		}
		tp := c19Tuple(vars, store)
		body, err := t.block(x.Body.List, in+"  ", func() (string, error) { return "Ok " + tp, nil })
		if err != nil {
			return "", err
		}
		t.ints, t.slices = saveInts, saveSlices
		r, err := rest()
		if err != nil {
			return "", err
		}
		return "do " + tp + " <- (\n" + in + init + "if " + c + " then\n" + in + "  " + body + "\n" + in + "else Ok " + tp + ");\n" + ind + r, nil
	case *ast.RangeStmt:
		return t.rangeStmt(x, l, ind, fin)
	}
	return "", t.errf("statement %T is outside the translated fragment", l[0])
}

func c19CopyBool(m map[string]bool) map[string]bool {
	r := map[string]bool{}
	for k, v := range m {
		r[k] = v
	}
	return r
}

func c19CopyStr(m map[string]string) map[string]string {
	r := map[string]string{}
	for k, v := range m {
		r[k] = v
	}
	return r
}

func (t *c19AcctTr) assign(x *ast.AssignStmt, l []ast.Stmt, ind string, fin func() (string, error)) (string, error) {
	rest := func(skip int) (string, error) { return t.block(l[skip:], ind, fin) }
	// a, err := r.calculateBranch(ctx, t.nodeKey, t.call, INPUT, isStream, cm) ; if err != nil { return ... }
	if len(x.Lhs) == 2 && len(x.Rhs) == 1 {
		call, ok := x.Rhs[0].(*ast.CallExpr)
		if ok && c19CalleeName(call.Fun) == "calculateBranch" && x.Tok == token.DEFINE && len(call.Args) == 6 && t.task != "" {
			keys, ok1 := x.Lhs[0].(*ast.Ident)
			errv, ok2 := x.Lhs[1].(*ast.Ident)
			if !ok1 || !ok2 || !t.isTaskField(call.Args[1], "nodeKey") || !t.isTaskField(call.Args[2], "call") || t.branchIn != "" {
				return "", t.errf("call of calculateBranch")
			}
			if len(l) < 2 || !c19IsErrReturn(l[1], errv.Name) {
				return "", t.errf("the error of calculateBranch is not returned at once")
			}
			in, k, err := t.sliceExpr(call.Args[3])
			if err != nil {
				return "", err
			}
			if k != "handle" {
				return "", t.errf("calculateBranch is handed a slice of %s", k)
			}
			t.branchIn = "branch_in"
			t.slices[keys.Name] = "key"
			pre := t.flush(ind)
			r, err := rest(2)
			return pre + "do (" + c19Gv(keys.Name) + ", branch_in) <- g_calculate_branch t " + in + ";\n" + ind + r, err
		}
	}
	if len(x.Lhs) != 1 || len(x.Rhs) != 1 {
		return "", t.errf("assignment %s", types.ExprString(x.Lhs[0]))
	}
	id, ok := x.Lhs[0].(*ast.Ident)
	if !ok {
		return "", t.errf("assignment to %s", types.ExprString(x.Lhs[0]))
	}
	if x.Tok != token.DEFINE && x.Tok != token.ASSIGN {
		return "", t.errf("assignment operator %s", x.Tok)
	}
	if x.Tok == token.ASSIGN && !t.ints[id.Name] && t.slices[id.Name] == "" {
		return "", t.errf("assignment to the unknown variable %s", id.Name)
	}
	if call, ok := x.Rhs[0].(*ast.CallExpr); ok {
		switch c19CalleeName(call.Fun) {
		case c19CopyName:
			if len(call.Args) != 2 {
				return "", t.errf("call of copyItem")
			}
			v, err := t.elemExpr(call.Args[0])
			if err != nil {
				return "", err
			}
			n, err := t.intExpr(call.Args[1])
			if err != nil {
				return "", err
			}
			t.slices[id.Name] = "handle"
			t.usesStore = true
			pre := t.flush(ind)
			r, err := rest(1)
			return pre + "let '(" + c19Gv(id.Name) + ", st) := copy_item " + v + " " + n + " st in\n" + ind + r, err
		case c19UniqName:
			if len(call.Args) != 1 {
				return "", t.errf("call of uniqueKeys")
			}
			s, k, err := t.sliceExpr(call.Args[0])
			if err != nil {
				return "", err
			}
			if k != "key" {
				return "", t.errf("uniqueKeys of a slice of %s", k)
			}
			t.slices[id.Name] = "key"
			pre := t.flush(ind)
			r, err := rest(1)
			return pre + "let " + c19Gv(id.Name) + " := unique_keys " + s + " in\n" + ind + r, err
		}
	}
	// slice or integer
	if s, k, err := t.sliceExpr(x.Rhs[0]); err == nil {
		if old := t.slices[id.Name]; x.Tok == token.ASSIGN && old != k {
			return "", t.errf("assignment changes the element kind of %s", id.Name)
		}
		t.slices[id.Name] = k
		pre := t.flush(ind)
		r, err := rest(1)
		return pre + "let " + c19Gv(id.Name) + " := " + s + " in\n" + ind + r, err
	}
	t.pre = nil
	v, err := t.intExpr(x.Rhs[0])
	if err != nil {
		return "", err
	}
	t.ints[id.Name] = true
	pre := t.flush(ind)
	r, err := rest(1)
	return pre + "let " + c19Gv(id.Name) + " := " + v + " in\n" + ind + r, err
}

// if <errv> != nil { return ... }
func c19IsErrReturn(s ast.Stmt, errv string) bool {
	is, ok := s.(*ast.IfStmt)
	if !ok || is.Init != nil || is.Else != nil || len(is.Body.List) != 1 {
		return false
	}
	be, ok := is.Cond.(*ast.BinaryExpr)
	if !ok || be.Op != token.NEQ {
		return false
	}
	id, ok := be.X.(*ast.Ident)
	if !ok || id.Name != errv || !c19IsNil(be.Y) {
		return false
	}
	_, ok = is.Body.List[0].(*ast.ReturnStmt)
	return ok
}

func (t *c19AcctTr) rangeStmt(x *ast.RangeStmt, l []ast.Stmt, ind string, fin func() (string, error)) (string, error) {
	rest := func() (string, error) { return t.block(l[1:], ind, fin) }
	keyName := func(e ast.Expr) string {
		if id, ok := e.(*ast.Ident); ok {
			return id.Name
		}
		return ""
	}
	kv, vv := keyName(x.Key), keyName(x.Value)
	// dependency bookkeeping: for _, key := range K { newDependencies[key] = append(newDependencies[key], t.nodeKey) }
	if len(x.Body.List) == 1 {
		if as, ok := x.Body.List[0].(*ast.AssignStmt); ok && len(as.Lhs) == 1 && len(as.Rhs) == 1 {
			if ix, ok := as.Lhs[0].(*ast.IndexExpr); ok {
				if m, ok := ix.X.(*ast.Ident); ok && m.Name == "newDependencies" {
					if call, ok := as.Rhs[0].(*ast.CallExpr); ok && c19CalleeName(call.Fun) == "append" && len(call.Args) == 2 &&
						c19Squash(types.ExprString(call.Args[0])) == c19Squash(types.ExprString(ix)) && t.isTaskField(call.Args[1], "nodeKey") {
						return rest() // no stream is touched
					}
				}
			}
		}
	}
	// the close loop: for _, v := range S { if sr, ok := v.(streamReader); ok { sr.close() } }
	if kv == "_" && vv != "" && len(x.Body.List) == 1 {
		if c19ClosesOnly(x.Body.List, vv) {
			if t.closed != "" {
				return "", t.errf("a second close loop")
			}
			s, k, err := t.sliceExpr(x.X)
			if err != nil {
				return "", err
			}
			if k != "handle" {
				return "", t.errf("close loop over a slice of %s", k)
			}
			t.closed = "closed"
			pre := t.flush(ind)
			r, err := rest()
			return pre + "let closed := " + s + " in\n" + ind + r, err
		}
	}
	// the write loop: for i, next := range K { if _, ok := W[next]; !ok { W[next] = make(...) } ; W[next][t.nodeKey] = V[i] }
	if kv != "" && kv != "_" && vv != "" && len(x.Body.List) >= 1 {
		last, ok := x.Body.List[len(x.Body.List)-1].(*ast.AssignStmt)
		if ok && len(last.Lhs) == 1 && len(last.Rhs) == 1 && last.Tok == token.ASSIGN {
			outer, ok1 := last.Lhs[0].(*ast.IndexExpr)
			src, ok2 := last.Rhs[0].(*ast.IndexExpr)
			if ok1 && ok2 && t.isTaskField(outer.Index, "nodeKey") {
				inner, ok3 := outer.X.(*ast.IndexExpr)
				if ok3 && keyName(inner.X) == "writeChannelValues" && keyName(inner.Index) == vv && keyName(src.Index) == kv {
					// the statements before it may only allocate the inner map
					for _, s := range x.Body.List[:len(x.Body.List)-1] {
						if !c19AllocatesInner(s, vv) {
							return "", t.errf("write loop: statement before the write")
						}
					}
					if t.writes != "" {
						return "", t.errf("a second write loop")
					}
					ks, k, err := t.sliceExpr(x.X)
					if err != nil {
						return "", err
					}
					vs, k2, err := t.sliceExpr(src.X)
					if err != nil {
						return "", err
					}
					if k != "key" || k2 != "handle" {
						return "", t.errf("write loop over %s / %s", k, k2)
					}
					t.writes = "writes"
					pre := t.flush(ind)
					r, err := rest()
					return pre + "do writes <- g_write_range " + ks + " " + vs + ";\n" + ind + r, err
				}
			}
		}
	}
	return "", t.errf("loop over %s not recognised", types.ExprString(x.X))
}

// if _, ok := writeChannelValues[next]; !ok { writeChannelValues[next] = make(map[string]any) }
func c19AllocatesInner(s ast.Stmt, key string) bool {
	is, ok := s.(*ast.IfStmt)
	if !ok || is.Else != nil || len(is.Body.List) != 1 {
		return false
	}
	as, ok := is.Body.List[0].(*ast.AssignStmt)
	if !ok || len(as.Lhs) != 1 || len(as.Rhs) != 1 {
		return false
	}
	ix, ok := as.Lhs[0].(*ast.IndexExpr)
	if !ok || c19Squash(types.ExprString(ix)) != "writeChannelValues["+key+"]" {
		return false
	}
	call, ok := as.Rhs[0].(*ast.CallExpr)
	return ok && c19CalleeName(call.Fun) == "make"
}

// ---------------------------------------------------------------- the four functions

func c19AcctCopyItem(fn *ast.FuncDecl) (string, error) {
	t := &c19AcctTr{fn: "copyItem", ints: map[string]bool{}, slices: map[string]string{}, elems: map[string]string{}}
	var ps []string
	for _, fl := range fn.Type.Params.List {
		for _, n := range fl.Names {
			ps = append(ps, n.Name+" "+types.ExprString(fl.Type))
		}
	}
	if len(ps) != 2 || !strings.HasSuffix(ps[0], " any") || !strings.HasSuffix(ps[1], " int") {
		return "", t.errf("parameters (%s)", strings.Join(ps, ", "))
	}
	item, cnt := strings.TrimSuffix(ps[0], " any"), strings.TrimSuffix(ps[1], " int")
	t.ints[cnt] = true
	t.elems[item] = c19Gv(item)
	l := fn.Body.List
	if len(l) < 3 {
		return "", t.errf("body too short")
	}
	// if n < K { return []any{item} }
	is, ok := l[0].(*ast.IfStmt)
	if !ok || is.Init != nil || is.Else != nil || len(is.Body.List) != 1 {
		return "", t.errf("first statement is not the small-count test")
	}
	c, err := t.cond(is.Cond)
	if err != nil {
		return "", err
	}
	ret, ok := is.Body.List[0].(*ast.ReturnStmt)
	if !ok || len(ret.Results) != 1 || !c19IsSingleton(ret.Results[0], item) {
		return "", t.errf("the small-count case does not return []any{item}")
	}
	// ret := make([]any, N)
	mk, ok := l[1].(*ast.AssignStmt)
	if !ok || len(mk.Lhs) != 1 || len(mk.Rhs) != 1 || mk.Tok != token.DEFINE {
		return "", t.errf("second statement is not ret := make([]any, n)")
	}
	retName, _ := mk.Lhs[0].(*ast.Ident)
	mkCall, ok := mk.Rhs[0].(*ast.CallExpr)
	if !ok || retName == nil || c19CalleeName(mkCall.Fun) != "make" || len(mkCall.Args) != 2 || c19Squash(types.ExprString(mkCall.Args[0])) != "[]any" {
		return "", t.errf("second statement is not ret := make([]any, n)")
	}
	// if s, ok := item.(streamReader); ok { ss := s.copy(N); for i := range ret { ret[i] = ss[i] }; return ret }
	sis, ok := l[2].(*ast.IfStmt)
	if !ok || sis.Else != nil || len(sis.Body.List) != 3 {
		return "", t.errf("third statement is not the stream case")
	}
	sv, ok := c19StreamAssertInit(sis, item)
	if !ok {
		return "", t.errf("third statement is not `if s, ok := item.(streamReader); ok`")
	}
	cp, ok := sis.Body.List[0].(*ast.AssignStmt)
	if !ok || len(cp.Lhs) != 1 || len(cp.Rhs) != 1 || cp.Tok != token.DEFINE {
		return "", t.errf("stream case: ss := s.copy(n)")
	}
	ssName, _ := cp.Lhs[0].(*ast.Ident)
	cpCall, ok := cp.Rhs[0].(*ast.CallExpr)
	if !ok || ssName == nil || len(cpCall.Args) != 1 || c19Squash(types.ExprString(cpCall.Fun)) != sv+".copy" {
		return "", t.errf("stream case: ss := s.copy(n)")
	}
	if c19Squash(types.ExprString(cpCall.Args[0])) != c19Squash(types.ExprString(mkCall.Args[1])) {
		return "", t.errf("stream case: the number of copies is not the length of the result")
	}
	n, err := t.intExpr(cpCall.Args[0])
	if err != nil {
		return "", err
	}
	// for i := range ret { ret[i] = ss[i] }
	rs, ok := sis.Body.List[1].(*ast.RangeStmt)
	if !ok || rs.Value != nil || len(rs.Body.List) != 1 {
		return "", t.errf("stream case: the copies are not handed out one by one")
	}
	iv, _ := rs.Key.(*ast.Ident)
	as, ok := rs.Body.List[0].(*ast.AssignStmt)
	if !ok || iv == nil || len(as.Lhs) != 1 || len(as.Rhs) != 1 || c19Squash(types.ExprString(rs.X)) != retName.Name ||
		c19Squash(types.ExprString(as.Lhs[0])) != retName.Name+"["+iv.Name+"]" || c19Squash(types.ExprString(as.Rhs[0])) != ssName.Name+"["+iv.Name+"]" {
		return "", t.errf("stream case: the copies are not handed out one by one")
	}
	r2, ok := sis.Body.List[2].(*ast.ReturnStmt)
	if !ok || len(r2.Results) != 1 || c19Squash(types.ExprString(r2.Results[0])) != retName.Name {
		return "", t.errf("stream case: return")
	}
	return "Definition copy_item (" + c19Gv(item) + " : handle) (" + c19Gv(cnt) + " : Z) (st : store) : list handle * store :=\n" +
		"  if " + c + " then ([" + c19Gv(item) + "], st)\n" +
		"  else g_stream_copy " + c19Gv(item) + " " + n + " st.\n", nil
}

// []any{<x>}
func c19IsSingleton(e ast.Expr, x string) bool {
	cl, ok := e.(*ast.CompositeLit)
	if !ok || len(cl.Elts) != 1 || c19Squash(types.ExprString(cl.Type)) != "[]any" {
		return false
	}
	id, ok := cl.Elts[0].(*ast.Ident)
	return ok && id.Name == x
}

// if <v>, ok := <x>.(streamReader); ok
func c19StreamAssertInit(is *ast.IfStmt, x string) (string, bool) {
	as, ok := is.Init.(*ast.AssignStmt)
	if !ok || as.Tok != token.DEFINE || len(as.Lhs) != 2 || len(as.Rhs) != 1 {
		return "", false
	}
	v, ok1 := as.Lhs[0].(*ast.Ident)
	okv, ok2 := as.Lhs[1].(*ast.Ident)
	ta, ok3 := as.Rhs[0].(*ast.TypeAssertExpr)
	if !ok1 || !ok2 || !ok3 || c19Squash(types.ExprString(ta.X)) != x || c19Squash(types.ExprString(ta.Type)) != "streamReader" {
		return "", false
	}
	c, ok := is.Cond.(*ast.Ident)
	if !ok || c.Name != okv.Name {
		return "", false
	}
	return v.Name, true
}

func c19AcctUniqueKeys(fn *ast.FuncDecl) (string, error) {
	t := &c19AcctTr{fn: "uniqueKeys", ints: map[string]bool{}, slices: map[string]string{}, elems: map[string]string{}}
	if len(fn.Type.Params.List) != 1 || len(fn.Type.Params.List[0].Names) != 1 ||
		c19Squash(types.ExprString(fn.Type.Params.List[0].Type)) != "[]string" {
		return "", t.errf("parameters")
	}
	keysName := fn.Type.Params.List[0].Names[0].Name
	t.slices[keysName] = "key"
	l := fn.Body.List
	if len(l) != 4 {
		return "", t.errf("%d statements, expected 4", len(l))
	}
	// seen := make(map[string]struct{}, ...)
	a0, ok := l[0].(*ast.AssignStmt)
	if !ok || a0.Tok != token.DEFINE || len(a0.Lhs) != 1 || len(a0.Rhs) != 1 {
		return "", t.errf("statement 1")
	}
	seen, _ := a0.Lhs[0].(*ast.Ident)
	mk, ok := a0.Rhs[0].(*ast.CallExpr)
	if !ok || seen == nil || c19CalleeName(mk.Fun) != "make" || len(mk.Args) < 1 || c19Squash(types.ExprString(mk.Args[0])) != "map[string]struct{}" {
		return "", t.errf("statement 1 is not seen := make(map[string]struct{}, ...)")
	}
	// ret := keys[:0]
	a1, ok := l[1].(*ast.AssignStmt)
	if !ok || a1.Tok != token.DEFINE || len(a1.Lhs) != 1 || len(a1.Rhs) != 1 {
		return "", t.errf("statement 2")
	}
	ret, _ := a1.Lhs[0].(*ast.Ident)
	if ret == nil {
		return "", t.errf("statement 2")
	}
	r0, k, err := t.sliceExpr(a1.Rhs[0])
	if err != nil || k != "key" || len(t.pre) > 0 {
		return "", t.errf("statement 2 is not ret := keys[:0]")
	}
	t.slices[ret.Name] = "key"
	// for _, key := range keys { if _, ok := seen[key]; !ok { seen[key] = struct{}{}; ret = append(ret, key) } }
	rs, ok := l[2].(*ast.RangeStmt)
	if !ok || len(rs.Body.List) < 1 {
		return "", t.errf("statement 3 is not the loop")
	}
	// `if _, ok := seen[key]; c { continue } ; B`  is read as  `if _, ok := seen[key]; !c { B }`
	negate := false
	if first, isIf := rs.Body.List[0].(*ast.IfStmt); isIf && len(rs.Body.List) > 1 && first.Else == nil {
		if br, only := c19ccOnlyBranch(first.Body); only && br == token.CONTINUE {
			rs.Body.List = []ast.Stmt{&ast.IfStmt{Init: first.Init, Cond: first.Cond, Body: &ast.BlockStmt{List: rs.Body.List[1:]}}}
			negate = true
		}
	}
	if len(rs.Body.List) != 1 {
		return "", t.errf("statement 3 is not the loop")
	}
	kv, _ := rs.Key.(*ast.Ident)
	vv, _ := rs.Value.(*ast.Ident)
	if kv == nil || kv.Name != "_" || vv == nil {
		return "", t.errf("loop variables")
	}
	over, k, err := t.sliceExpr(rs.X)
	if err != nil || k != "key" || len(t.pre) > 0 {
		return "", t.errf("loop range")
	}
	t.elems[vv.Name] = c19Gv(vv.Name)
	is, ok := rs.Body.List[0].(*ast.IfStmt)
	if !ok || is.Else != nil {
		return "", t.errf("loop body is not one if")
	}
	// _, ok := seen[key]; !ok   |   ok
	ia, ok := is.Init.(*ast.AssignStmt)
	if !ok || ia.Tok != token.DEFINE || len(ia.Lhs) != 2 || len(ia.Rhs) != 1 {
		return "", t.errf("loop test")
	}
	okv, _ := ia.Lhs[1].(*ast.Ident)
	ix, ok := ia.Rhs[0].(*ast.IndexExpr)
	if !ok || okv == nil || c19Squash(types.ExprString(ix)) != seen.Name+"["+vv.Name+"]" {
		return "", t.errf("loop test is not a lookup of the key in the set")
	}
	sign := c19OkSign(is.Cond, okv.Name)
	if sign == 0 {
		return "", t.errf("loop test")
	}
	if negate {
		sign = -sign
	}
	c := "(g_set_mem " + c19Gv(vv.Name) + " " + c19Gv(seen.Name) + ")"
	if sign < 0 {
		c = "(negb " + c + ")"
	}
	var body strings.Builder
	for _, s := range is.Body.List {
		as, ok := s.(*ast.AssignStmt)
		if !ok || len(as.Lhs) != 1 || len(as.Rhs) != 1 || as.Tok != token.ASSIGN {
			return "", t.errf("statement in the loop")
		}
		if c19Squash(types.ExprString(as.Lhs[0])) == seen.Name+"["+vv.Name+"]" && c19Squash(types.ExprString(as.Rhs[0])) == "struct{}{}" {
			body.WriteString("      let " + c19Gv(seen.Name) + " := g_set_add " + c19Gv(vv.Name) + " " + c19Gv(seen.Name) + " in\n")
			continue
		}
		if id, ok := as.Lhs[0].(*ast.Ident); ok && id.Name == ret.Name {
			s, k, err := t.sliceExpr(as.Rhs[0])
			if err != nil || k != "key" || len(t.pre) > 0 {
				return "", t.errf("assignment to the result in the loop")
			}
			body.WriteString("      let " + c19Gv(ret.Name) + " := " + s + " in\n")
			continue
		}
		return "", t.errf("statement in the loop")
	}
	r3, ok := l[3].(*ast.ReturnStmt)
	if !ok || len(r3.Results) != 1 || c19Squash(types.ExprString(r3.Results[0])) != ret.Name {
		return "", t.errf("return")
	}
	st := "(" + c19Gv(seen.Name) + ", " + c19Gv(ret.Name) + ")"
	return "Definition unique_keys (" + c19Gv(keysName) + " : list key) : list key :=\n" +
		"  let " + c19Gv(seen.Name) + " := g_set_empty in\n" +
		"  let " + c19Gv(ret.Name) + " := " + r0 + " in\n" +
		"  let '" + st + " := g_range " + over + " " + st + " (fun acc " + c19Gv(vv.Name) + " => let '" + st + " := acc in\n" +
		"    if " + c + " then\n" + body.String() + "      " + st + "\n" +
		"    else " + st + ") in\n" +
		"  " + c19Gv(ret.Name) + ".\n", nil
}

func c19AcctResolve(fn *ast.FuncDecl) (string, error) {
	t := &c19AcctTr{fn: "resolveCompletedTasks", ints: map[string]bool{}, slices: map[string]string{}, elems: map[string]string{}}
	var loop *ast.RangeStmt
	for _, s := range fn.Body.List {
		if rs, ok := s.(*ast.RangeStmt); ok && c19Squash(types.ExprString(rs.X)) == "completedTasks" {
			if loop != nil {
				return "", t.errf("two loops over completedTasks")
			}
			loop = rs
		}
	}
	if loop == nil {
		return "", t.errf("no loop over completedTasks")
	}
	tv, _ := loop.Value.(*ast.Ident)
	if tv == nil {
		return "", t.errf("loop variable")
	}
	t.task = tv.Name
	body, err := t.block(loop.Body.List, "  ", func() (string, error) {
		if t.branchIn == "" {
			return "", t.errf("the branches are not evaluated")
		}
		w, c := t.writes, t.closed
		if w == "" {
			w = "[]"
		}
		if c == "" {
			c = "[]"
		}
		return "Ok {| r_branch_in := branch_in; r_writes := " + w + "; r_closed := " + c + "; r_store := st |}", nil
	})
	if err != nil {
		return "", err
	}
	return "Definition resolve_task (t : task) (output : handle) (st : store) : res resolved :=\n  " + body + ".\n", nil
}

func c19AcctUpdateValues(fn *ast.FuncDecl) (string, error) {
	t := &c19AcctTr{fn: "updateValues", ints: map[string]bool{}, slices: map[string]string{}, elems: map[string]string{}}
	// the loop over the targets, inside it the loop over fromMap
	var outer *ast.RangeStmt
	for _, s := range fn.Body.List {
		if rs, ok := s.(*ast.RangeStmt); ok {
			outer = rs
		}
	}
	if outer == nil {
		return "", t.errf("no loop over the targets")
	}
	target, _ := outer.Key.(*ast.Ident)
	fromMap, _ := outer.Value.(*ast.Ident)
	if target == nil || fromMap == nil {
		return "", t.errf("loop variables of the target loop")
	}
	var dps, nmap string
	var inner *ast.RangeStmt
	var report bool
	for _, s := range outer.Body.List {
		switch x := s.(type) {
		case *ast.AssignStmt:
			// `dps, ok := c.dataPredecessors[target]` (followed by the empty-map default) or the plain lookup
			// `dps := c.dataPredecessors[target]`: the map is only read, and a lookup in a nil map finds nothing
			if (len(x.Lhs) == 2 || len(x.Lhs) == 1) && len(x.Rhs) == 1 {
				if ix, ok := x.Rhs[0].(*ast.IndexExpr); ok && c19Squash(types.ExprString(ix)) == "c.dataPredecessors["+target.Name+"]" {
					if id, ok := x.Lhs[0].(*ast.Ident); ok {
						dps = id.Name
					}
				}
			}
			if len(x.Lhs) == 1 && len(x.Rhs) == 1 {
				if call, ok := x.Rhs[0].(*ast.CallExpr); ok {
					if c19CalleeName(call.Fun) == "make" {
						if id, ok := x.Lhs[0].(*ast.Ident); ok {
							nmap = id.Name
						}
					}
					if c19CalleeName(call.Fun) == "reportValues" && len(call.Args) == 1 && c19Squash(types.ExprString(call.Args[0])) == nmap && nmap != "" {
						report = true
					}
				}
			}
		case *ast.IfStmt:
			// if err := toChannel.reportValues(nFromMap); err != nil { return ... }
			if ia, ok := x.Init.(*ast.AssignStmt); ok && len(ia.Lhs) == 1 && len(ia.Rhs) == 1 && x.Else == nil {
				if call, ok := ia.Rhs[0].(*ast.CallExpr); ok && c19CalleeName(call.Fun) == "reportValues" && len(call.Args) == 1 &&
					c19Squash(types.ExprString(call.Args[0])) == nmap && nmap != "" {
					report = true
				}
			}
		case *ast.RangeStmt:
			if c19Squash(types.ExprString(x.X)) == fromMap.Name {
				if inner != nil {
					return "", t.errf("two loops over the written values")
				}
				inner = x
			}
		}
	}
	if dps == "" || nmap == "" || inner == nil || !report {
		return "", t.errf("dataPredecessors lookup / new map / inner loop / reportValues(new map) not found")
	}
	from, _ := inner.Key.(*ast.Ident)
	value, _ := inner.Value.(*ast.Ident)
	if from == nil || value == nil {
		return "", t.errf("loop variables of the inner loop")
	}
	// body: optional `var err error`, then if _, ok = dps[from]; ok { nFromMap[from], err = handle(from, target, value, ..) ; if err != nil {return} } else { close }
	var is *ast.IfStmt
	var body []ast.Stmt
	for _, s := range inner.Body.List {
		if _, decl := s.(*ast.DeclStmt); !decl { // `var err error`
			body = append(body, s)
		}
	}
	// `if c { A ; continue } ; B`  is read as  `if c { A } else { B }`
	if len(body) > 1 {
		if first, ok := body[0].(*ast.IfStmt); ok && first.Else == nil && len(first.Body.List) > 0 {
			if br, ok := first.Body.List[len(first.Body.List)-1].(*ast.BranchStmt); ok && br.Tok == token.CONTINUE && br.Label == nil {
				body = []ast.Stmt{&ast.IfStmt{Init: first.Init, Cond: first.Cond,
					Body: &ast.BlockStmt{List: first.Body.List[:len(first.Body.List)-1]},
					Else: &ast.BlockStmt{List: body[1:]}}}
			}
		}
	}
	for _, s := range body {
		switch x := s.(type) {
		case *ast.IfStmt:
			if is != nil {
				return "", t.errf("inner loop: two if statements")
			}
			is = x
		default:
			return "", t.errf("inner loop: statement %T", s)
		}
	}
	if is == nil {
		return "", t.errf("inner loop without test")
	}
	ia, ok := is.Init.(*ast.AssignStmt)
	if !ok || len(ia.Lhs) != 2 || len(ia.Rhs) != 1 || c19Squash(types.ExprString(ia.Rhs[0])) != dps+"["+from.Name+"]" {
		return "", t.errf("inner test is not a lookup of the writer in dataPredecessors[target]")
	}
	okv, _ := ia.Lhs[1].(*ast.Ident)
	if okv == nil {
		return "", t.errf("inner test")
	}
	mem := "(g_set_mem " + c19Gv(from.Name) + " " + c19Gv(dps) + ")"
	var c string
	switch c19OkSign(is.Cond, okv.Name) {
	case 1:
		c = mem
	case -1:
		c = "(negb " + mem + ")"
	default:
		return "", t.errf("inner test")
	}
	arm := func(l []ast.Stmt) (string, error) {
		if len(l) == 0 {
			return "acc", nil // the value is dropped
		}
		// keep: nFromMap[from], err = c.edgeHandlerManager.handle(from, target, value, c.isStream) ; if err != nil { return }
		if as, ok := l[0].(*ast.AssignStmt); ok && len(as.Lhs) == 2 && len(as.Rhs) == 1 {
			call, ok := as.Rhs[0].(*ast.CallExpr)
			errv, _ := as.Lhs[1].(*ast.Ident)
			if ok && errv != nil && c19Squash(types.ExprString(as.Lhs[0])) == nmap+"["+from.Name+"]" && c19CalleeName(call.Fun) == "handle" && len(call.Args) == 4 &&
				c19Squash(types.ExprString(call.Args[0])) == from.Name && c19Squash(types.ExprString(call.Args[1])) == target.Name &&
				c19Squash(types.ExprString(call.Args[2])) == value.Name && len(l) == 2 && c19IsErrReturn(l[1], errv.Name) {
				return "ua_keep " + c19Gv(from.Name) + " " + c19Gv(value.Name) + " acc", nil
			}
		}
		// keep, through a local: h, err := c.edgeHandlerManager.handle(from, target, value, c.isStream) ; if err != nil { return } ; nFromMap[from] = h
		if as, ok := l[0].(*ast.AssignStmt); ok && len(l) == 3 && len(as.Lhs) == 2 && len(as.Rhs) == 1 {
			call, ok := as.Rhs[0].(*ast.CallExpr)
			hv, _ := as.Lhs[0].(*ast.Ident)
			errv, _ := as.Lhs[1].(*ast.Ident)
			st, _ := l[2].(*ast.AssignStmt)
			if ok && hv != nil && errv != nil && hv.Name != "_" && c19CalleeName(call.Fun) == "handle" && len(call.Args) == 4 &&
				c19Squash(types.ExprString(call.Args[0])) == from.Name && c19Squash(types.ExprString(call.Args[1])) == target.Name &&
				c19Squash(types.ExprString(call.Args[2])) == value.Name && c19IsErrReturn(l[1], errv.Name) &&
				st != nil && st.Tok == token.ASSIGN && len(st.Lhs) == 1 && len(st.Rhs) == 1 &&
				c19Squash(types.ExprString(st.Lhs[0])) == nmap+"["+from.Name+"]" && c19Squash(types.ExprString(st.Rhs[0])) == hv.Name {
				return "ua_keep " + c19Gv(from.Name) + " " + c19Gv(value.Name) + " acc", nil
			}
		}
		// close: if sr, ok := value.(streamReader); ok { sr.close() }
		if len(l) == 1 && c19ClosesOnly(l, value.Name) {
			return "ua_close " + c19Gv(value.Name) + " acc", nil
		}
		return "", t.errf("arm of the inner test not recognised")
	}
	th, err := arm(is.Body.List)
	if err != nil {
		return "", err
	}
	var elList []ast.Stmt
	switch e := is.Else.(type) {
	case nil:
	case *ast.BlockStmt:
		elList = e.List
	default:
		return "", t.errf("else if in the inner loop")
	}
	el, err := arm(elList)
	if err != nil {
		return "", err
	}
	return "Definition update_from_map (" + c19Gv(dps) + " : list key) (" + c19Gv(fromMap.Name) + " : list (key * handle)) : upd_acc :=\n" +
		"  g_range " + c19Gv(fromMap.Name) + " ua_empty (fun acc fv => let '(" + c19Gv(from.Name) + ", " + c19Gv(value.Name) + ") := fv in\n" +
		"    if " + c + " then " + th + "\n" +
		"    else " + el + ").\n", nil
}

// OnWithStreamHandle: if len(handlers) == 0 { return ctx, inOut } ; inOuts := cpy(N) ;
// for i, handler := range handlers { ctx = handle(ctx, handler, inOuts[i]) } ; return ctx, inOuts[J]
func c19AcctOnWithStreamHandle(fn *ast.FuncDecl) (string, error) {
	t := &c19AcctTr{fn: "OnWithStreamHandle", ints: map[string]bool{}, slices: map[string]string{}, elems: map[string]string{}}
	var ps []string
	for _, fl := range fn.Type.Params.List {
		for _, n := range fl.Names {
			ps = append(ps, n.Name)
		}
	}
	if len(ps) != 5 {
		return "", t.errf("parameters (%s)", strings.Join(ps, ", "))
	}
	pCtx, pInOut, pHandlers, pCpy, pHandle := ps[0], ps[1], ps[2], ps[3], ps[4]
	t.slices[pHandlers] = "unit"
	t.elems[pInOut] = c19Gv(pInOut)
	l := fn.Body.List
	if len(l) < 4 {
		return "", t.errf("%d statements, expected 4", len(l))
	}
	// if <cond on len(handlers)> { return ctx, inOut }
	is, ok := l[0].(*ast.IfStmt)
	if !ok || is.Init != nil || is.Else != nil || len(is.Body.List) != 1 {
		return "", t.errf("statement 1 is not the no-handler test")
	}
	c, err := t.cond(is.Cond)
	if err != nil {
		return "", err
	}
	r0, ok := is.Body.List[0].(*ast.ReturnStmt)
	if !ok || len(r0.Results) != 2 || c19Squash(types.ExprString(r0.Results[0])) != pCtx || c19Squash(types.ExprString(r0.Results[1])) != pInOut {
		return "", t.errf("the no-handler case does not return the stream itself")
	}
	// inOuts := cpy(N)
	as, ok := l[1].(*ast.AssignStmt)
	if !ok || as.Tok != token.DEFINE || len(as.Lhs) != 1 || len(as.Rhs) != 1 {
		return "", t.errf("statement 2 is not inOuts := cpy(n)")
	}
	cps, _ := as.Lhs[0].(*ast.Ident)
	call, ok := as.Rhs[0].(*ast.CallExpr)
	if !ok || cps == nil || c19CalleeName(call.Fun) != pCpy || len(call.Args) != 1 {
		return "", t.errf("statement 2 is not inOuts := cpy(n)")
	}
	n, err := t.intExpr(call.Args[0])
	if err != nil {
		return "", err
	}
	t.slices[cps.Name] = "handle"
	// for i, handler := range handlers { ctx = handle(ctx, handler, inOuts[i]) }
	rs, ok := l[2].(*ast.RangeStmt)
	if !ok || len(rs.Body.List) != 1 || c19Squash(types.ExprString(rs.X)) != pHandlers {
		return "", t.errf("statement 3 is not the loop over the handlers")
	}
	iv, _ := rs.Key.(*ast.Ident)
	hv, _ := rs.Value.(*ast.Ident)
	ha, ok := rs.Body.List[0].(*ast.AssignStmt)
	if !ok || iv == nil || hv == nil || len(ha.Lhs) != 1 || len(ha.Rhs) != 1 || c19Squash(types.ExprString(ha.Lhs[0])) != pCtx {
		return "", t.errf("loop body is not ctx = handle(ctx, handler, inOuts[i])")
	}
	hc, ok := ha.Rhs[0].(*ast.CallExpr)
	if !ok || c19CalleeName(hc.Fun) != pHandle || len(hc.Args) != 3 || c19Squash(types.ExprString(hc.Args[1])) != hv.Name ||
		c19Squash(types.ExprString(hc.Args[2])) != cps.Name+"["+iv.Name+"]" {
		return "", t.errf("loop body is not ctx = handle(ctx, handler, inOuts[i])")
	}
	// integer definitions between the loop and the return: last := len(inOuts) - 1
	var lets string
	for _, s := range l[3 : len(l)-1] {
		la, ok := s.(*ast.AssignStmt)
		if !ok || la.Tok != token.DEFINE || len(la.Lhs) != 1 || len(la.Rhs) != 1 {
			return "", t.errf("statement between the loop and the return")
		}
		id, ok := la.Lhs[0].(*ast.Ident)
		if !ok {
			return "", t.errf("statement between the loop and the return")
		}
		v, err := t.intExpr(la.Rhs[0])
		if err != nil || len(t.pre) > 0 {
			return "", t.errf("statement between the loop and the return")
		}
		t.ints[id.Name] = true
		lets += "let " + c19Gv(id.Name) + " := " + v + " in\n  "
	}
	// return ctx, inOuts[J]
	r1, ok := l[len(l)-1].(*ast.ReturnStmt)
	if !ok || len(r1.Results) != 2 || c19Squash(types.ExprString(r1.Results[0])) != pCtx {
		return "", t.errf("final return")
	}
	last, err := t.elemExpr(r1.Results[1])
	if err != nil {
		return "", err
	}
	pre := lets + t.flush("  ")
	return "Definition on_with_stream_handle (" + c19Gv(pHandlers) + " : list unit) (" + c19Gv(pInOut) + " : handle) (st : store) : res (handle * list handle * store) :=\n" +
		"  if " + c + " then Ok (" + c19Gv(pInOut) + ", [], st)\n" +
		"  else\n" +
		"  let '(" + c19Gv(cps.Name) + ", st) := g_cpy " + c19Gv(pInOut) + " " + n + " st in\n" +
		"  do handed <- g_hand_range " + c19Gv(pHandlers) + " " + c19Gv(cps.Name) + ";\n" +
		"  " + pre + "Ok (" + last + ", handed, st).\n", nil
}

func c19ExtractAcctCode(repo string) (string, string, error) {
	fset := token.NewFileSet()
	f, err := c19ParseGo(fset, repo, "compose", "graph_run.go")
	if err != nil {
		return "", "", err
	}
	fm, err := c19ParseGo(fset, repo, "compose", "graph_manager.go")
	if err != nil {
		return "", "", err
	}
	fi, err := c19ParseGo(fset, repo, "internal", "callbacks", "inject.go")
	if err != nil {
		return "", "", err
	}
	ow := c19TopFunc(fi, "OnWithStreamHandle")
	if ow == nil {
		// under another name: the only generic function with five parameters whose fourth makes n copies
		ow = c19OnlyFunc(fi, func(fn *ast.FuncDecl) bool {
			if fn.Recv != nil || fn.Type.TypeParams == nil {
				return false
			}
			var ts []string
			for _, fl := range fn.Type.Params.List {
				for range fl.Names {
					ts = append(ts, c19Squash(types.ExprString(fl.Type)))
				}
			}
			return len(ts) == 5 && strings.HasPrefix(ts[3], "func(int)[]")
		})
	}
	if ow == nil {
		return "", "", fmt.Errorf("internal/callbacks.OnWithStreamHandle not found")
	}
	// the functions are looked up by name and, when they carry another name (a rename), by what they are:
	// the only function (any, int) -> []any; the only function []string -> []string that keeps a map[string]struct{};
	// the only method of runner that calls both of the first and calculateBranch; the only method of channelManager
	// that calls reportValues
	c19CopyName, c19UniqName = "copyItem", "uniqueKeys"
	ci := c19TopFunc(f, "copyItem")
	if ci == nil {
		ci = c19OnlyFunc(f, func(fn *ast.FuncDecl) bool {
			return fn.Recv == nil && c19Sig(fn) == "any,int->[]any"
		})
		if ci != nil {
			c19CopyName = ci.Name.Name
		}
	}
	uk := c19TopFunc(f, "uniqueKeys")
	if uk == nil {
		uk = c19OnlyFunc(f, func(fn *ast.FuncDecl) bool {
			return fn.Recv == nil && c19Sig(fn) == "[]string->[]string" && c19Mentions(fn, "map[string]struct{}")
		})
		if uk != nil {
			c19UniqName = uk.Name.Name
		}
	}
	rc := c19MethodOf(f, "runner", "resolveCompletedTasks")
	if rc == nil {
		rc = c19OnlyFunc(f, func(fn *ast.FuncDecl) bool {
			return c19RecvIs(fn, "runner") && c19Calls(fn, c19CopyName) && c19Calls(fn, "calculateBranch")
		})
	}
	uv := c19MethodOf(fm, "channelManager", "updateValues")
	if uv == nil {
		uv = c19OnlyFunc(fm, func(fn *ast.FuncDecl) bool {
			return c19RecvIs(fn, "channelManager") && c19Calls(fn, "reportValues")
		})
	}
	if ci == nil || uk == nil || rc == nil || uv == nil {
		return "", "", fmt.Errorf("copyItem / uniqueKeys / (*runner).resolveCompletedTasks / (*channelManager).updateValues not found")
	}
	// private helpers called from the translated functions are expanded first (c19_inline.go)
	inl := c19NewInliner(fset, filepath.Join(repo, "compose"))
	inl.deny[c19CopyName], inl.deny[c19UniqName] = true, true
	for _, fn := range []*ast.FuncDecl{ci, uk, rc, uv} {
		inl.expandFunc(fn)
	}
	c19NewInliner(fset, filepath.Join(repo, "internal", "callbacks")).expandFunc(ow)
	d1, err := c19AcctCopyItem(ci)
	if err != nil {
		return "", "", err
	}
	d2, err := c19AcctUniqueKeys(uk)
	if err != nil {
		return "", "", err
	}
	d3, err := c19AcctResolve(rc)
	if err != nil {
		return "", "", err
	}
	d4, err := c19AcctUpdateValues(uv)
	if err != nil {
		return "", "", err
	}
	d5, err := c19AcctOnWithStreamHandle(ow)
	if err != nil {
		return "", "", err
	}
	var b strings.Builder
	b.WriteString("(* Gen/AcctCode.v — GENERATED by tools/go2v (extractor \"acctcode\") from compose/graph_run.go (copyItem,\n")
	b.WriteString("   uniqueKeys, the loop body of resolveCompletedTasks), compose/graph_manager.go (updateValues) and\n   internal/callbacks/inject.go (OnWithStreamHandle),\n")
	b.WriteString("   translated statement by statement. Do not edit. *)\n")
	b.WriteString("From Eino Require Import Base.Util Model.StreamAcct Model.AcctGenLib.\nOpen Scope Z_scope.\n\n")
	b.WriteString(d1 + "\n" + d2 + "\n" + d3 + "\n" + d4 + "\n" + d5)
	return "AcctCode.v", b.String(), nil
}

// ---------------------------------------------------------------- helpers (own copies: tools/go2v is one package)

// the names under which resolveCompletedTasks calls its two primitives (set by c19ExtractAcctCode)
var c19CopyName, c19UniqName = "copyItem", "uniqueKeys"

// c19OnlyFunc returns the function of the file that satisfies the predicate when there is exactly one
func c19OnlyFunc(f *ast.File, pred func(*ast.FuncDecl) bool) *ast.FuncDecl {
	var found *ast.FuncDecl
	for _, d := range f.Decls {
		if fn, ok := d.(*ast.FuncDecl); ok && fn.Body != nil && pred(fn) {
			if found != nil {
				return nil
			}
			found = fn
		}
	}
	return found
}

// c19Sig renders parameter and result types: "any,int->[]any"
func c19Sig(fn *ast.FuncDecl) string {
	list := func(fl *ast.FieldList) string {
		var ts []string
		if fl != nil {
			for _, f := range fl.List {
				n := len(f.Names)
				if n == 0 {
					n = 1
				}
				for i := 0; i < n; i++ {
					ts = append(ts, c19Squash(types.ExprString(f.Type)))
				}
			}
		}
		return strings.Join(ts, ",")
	}
	if fn.Type.TypeParams != nil {
		return "generic"
	}
	return list(fn.Type.Params) + "->" + list(fn.Type.Results)
}

func c19RecvIs(fn *ast.FuncDecl, typ string) bool {
	if fn.Recv == nil || len(fn.Recv.List) != 1 {
		return false
	}
	st, ok := fn.Recv.List[0].Type.(*ast.StarExpr)
	if !ok {
		return false
	}
	id, ok := st.X.(*ast.Ident)
	return ok && id.Name == typ
}

func c19Calls(fn *ast.FuncDecl, name string) bool {
	found := false
	ast.Inspect(fn.Body, func(n ast.Node) bool {
		if c, ok := n.(*ast.CallExpr); ok && c19CalleeName(c.Fun) == name {
			found = true
		}
		return !found
	})
	return found
}

func c19Mentions(fn *ast.FuncDecl, typ string) bool {
	found := false
	ast.Inspect(fn.Body, func(n ast.Node) bool {
		if e, ok := n.(ast.Expr); ok && !found {
			if _, isType := e.(*ast.MapType); isType && c19Squash(types.ExprString(e)) == typ {
				found = true
			}
		}
		return !found
	})
	return found
}

func c19ParseGo(fset *token.FileSet, repo string, rel ...string) (*ast.File, error) {
	return parser.ParseFile(fset, filepath.Join(append([]string{repo}, rel...)...), nil, 0)
}

func c19TopFunc(f *ast.File, name string) *ast.FuncDecl {
	for _, d := range f.Decls {
		if fn, ok := d.(*ast.FuncDecl); ok && fn.Recv == nil && fn.Name.Name == name {
			return fn
		}
	}
	return nil
}

func c19MethodOf(f *ast.File, recvType, name string) *ast.FuncDecl {
	for _, d := range f.Decls {
		fn, ok := d.(*ast.FuncDecl)
		if !ok || fn.Recv == nil || fn.Name.Name != name || len(fn.Recv.List) != 1 {
			continue
		}
		if st, ok := fn.Recv.List[0].Type.(*ast.StarExpr); ok {
			if id, ok := st.X.(*ast.Ident); ok && id.Name == recvType {
				return fn
			}
		}
	}
	return nil
}

// the condition is the comma-ok variable (+1) or its negation (-1), in any of the usual spellings; 0: something else
func c19OkSign(cond ast.Expr, okName string) int {
	switch c19Squash(types.ExprString(cond)) {
	case okName, okName + "==true", "true==" + okName, okName + "!=false", "false!=" + okName, "(" + okName + ")":
		return 1
	case "!" + okName, okName + "==false", "false==" + okName, okName + "!=true", "true!=" + okName, "!(" + okName + ")":
		return -1
	}
	return 0
}

func c19Squash(s string) string { return strings.Join(strings.Fields(s), "") }

func c19IsNil(e ast.Expr) bool {
	id, ok := e.(*ast.Ident)
	return ok && id.Name == "nil"
}

// the statement list is exactly `if sr, ok := <v>.(streamReader); ok { sr.close() }`
func c19ClosesOnly(l []ast.Stmt, v string) bool {
	if len(l) != 1 {
		return false
	}
	is, ok := l[0].(*ast.IfStmt)
	if !ok || is.Else != nil || len(is.Body.List) != 1 {
		return false
	}
	sv, ok := c19StreamAssertInit(is, v)
	if !ok {
		return false
	}
	es, ok := is.Body.List[0].(*ast.ExprStmt)
	if !ok {
		return false
	}
	call, ok := es.X.(*ast.CallExpr)
	if !ok || len(call.Args) != 0 {
		return false
	}
	sel, ok := call.Fun.(*ast.SelectorExpr)
	if !ok || sel.Sel.Name != "close" {
		return false
	}
	id, ok := sel.X.(*ast.Ident)
	return ok && id.Name == sv
}
