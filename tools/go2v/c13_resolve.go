package main

// Extractor "c13resolve" (property C13): (*runner).resolveInterruptCompletedTasks in compose/graph_run.go,
// read for what it does with the ERROR of each completed task — the place where a failing task becomes
// the error of the run under its node key, and where interrupts are told from failures:
//
//	for i := 0; i < len(completedTasks); i++ {            (or: for _, t := range completedTasks)
//	    if completedTasks[i].err != nil {
//	        if info := isSubGraphInterrupt(completedTasks[i].err); info != nil { ...; continue
//	        } else if errors.Is(completedTasks[i].err, InterruptAndRerun) { ...; continue
//	        } else { return wrapGraphNodeError(completedTasks[i].nodeKey, completedTasks[i].err) }
//	    }
//	    ... (bookkeeping of interrupt-after nodes)
//	}
//	return nil
//
// The body of the loop is translated path by path into a function of the task's key and error
// (Model/ErrorsResolveLib.v: TVNext = the walk goes on, TVFail e = the run ends with e); statements that
// neither return nor touch the task (the interrupt bookkeeping, property C06's) are skipped.  Any other
// shape: not recognised (neutral file).  Output: coq/Gen/C13Resolve.v; agreement: Proofs/GenAgreeC13Resolve.v.

import (
	"fmt"
	"go/ast"
	"go/parser"
	"go/token"
	"go/types"
	"path/filepath"
	"strings"
)

const c13ResolveNeutral = "(* Gen/C13Resolve.v — translator tie UNAVAILABLE: tools/go2v (extractor \"c13resolve\") did not recognise the shape\n" +
	"   of runner.resolveInterruptCompletedTasks; what the model assumes of one completed task is re-exported. *)\n" +
	"From Eino Require Import Base.Util Model.Errors Model.ErrorsResolveLib.\n\n" +
	"Definition resolve_task : string -> string -> option err -> tverdict := model_resolve_task.\n"

func init() {
	register("c13resolve", c13ExtractResolve)
	registerFallback("c13resolve", "C13Resolve.v", c13ResolveNeutral)
}

type c13Res struct {
	tasks string // the list walked (a parameter)
	elem  string // the text of the current task: "completedTasks[i]" or the range variable
	idx   string // the index variable ("" in the range-by-value form)
	// locals bound to isSubGraphInterrupt(<the current task's error>) on the current path
	subVars map[string]bool
}

func (x *c13Res) isElemField(e ast.Expr, field string) bool {
	return types.ExprString(e) == x.elem+"."+field
}

func c13resHasReturnOrJump(n ast.Node) bool {
	found := false
	ast.Inspect(n, func(m ast.Node) bool {
		switch s := m.(type) {
		case *ast.FuncLit:
			return false
		case *ast.ReturnStmt, *ast.GoStmt, *ast.DeferStmt:
			found = true
		case *ast.BranchStmt:
			if s.Label != nil || s.Tok == token.GOTO {
				found = true
			}
		}
		return !found
	})
	return found
}

// a condition on the task's error; someBound: we are on a path where the error is known to be non-nil (ev)
func (x *c13Res) cond(e ast.Expr, init ast.Stmt, someBound bool) (string, error) {
	if p, ok := e.(*ast.ParenExpr); ok {
		return x.cond(p.X, init, someBound)
	}
	// info := isSubGraphInterrupt(T.err); info != nil
	if as, ok := init.(*ast.AssignStmt); ok && init != nil {
		if len(as.Lhs) == 1 && len(as.Rhs) == 1 && as.Tok == token.DEFINE {
			if c, ok := as.Rhs[0].(*ast.CallExpr); ok && types.ExprString(c.Fun) == "isSubGraphInterrupt" && len(c.Args) == 1 && x.isElemField(c.Args[0], "err") {
				if types.ExprString(e) == types.ExprString(as.Lhs[0])+" != nil" && someBound {
					return "(go_is_sub_graph_interrupt ev)", nil
				}
			}
		}
		return "", fmt.Errorf("init statement of a test not recognised: %s; %s", types.ExprString(as.Rhs[0]), types.ExprString(e))
	} else if init != nil {
		return "", fmt.Errorf("init statement of a test not recognised")
	}
	switch c := e.(type) {
	case *ast.BinaryExpr:
		if id, ok := c.X.(*ast.Ident); ok && x.subVars[id.Name] && types.ExprString(c.Y) == "nil" && someBound {
			switch c.Op {
			case token.NEQ:
				return "(go_is_sub_graph_interrupt ev)", nil
			case token.EQL:
				return "(negb (go_is_sub_graph_interrupt ev))", nil
			}
		}
		if c.Op == token.NEQ && types.ExprString(c.Y) == "nil" {
			if call, ok := c.X.(*ast.CallExpr); ok && types.ExprString(call.Fun) == "isSubGraphInterrupt" && len(call.Args) == 1 && x.isElemField(call.Args[0], "err") && someBound {
				return "(go_is_sub_graph_interrupt ev)", nil
			}
		}
		if c.Op == token.LOR || c.Op == token.LAND {
			a, err := x.cond(c.X, nil, someBound)
			if err != nil {
				return "", err
			}
			b, err := x.cond(c.Y, nil, someBound)
			if err != nil {
				return "", err
			}
			op := " || "
			if c.Op == token.LAND {
				op = " && "
			}
			return "(" + a + op + b + ")", nil
		}
	case *ast.UnaryExpr:
		if c.Op == token.NOT {
			a, err := x.cond(c.X, nil, someBound)
			if err != nil {
				return "", err
			}
			return "(negb " + a + ")", nil
		}
	case *ast.CallExpr:
		if types.ExprString(c.Fun) == "errors.Is" && len(c.Args) == 2 && x.isElemField(c.Args[0], "err") && types.ExprString(c.Args[1]) == "InterruptAndRerun" && someBound {
			return "(is_ (Leaf id_rerun) ev)", nil
		}
	}
	return "", fmt.Errorf("test not recognised: %s", types.ExprString(e))
}

// is e the test `T.err != nil` (+1) / `T.err == nil` (-1)
func (x *c13Res) errNilTest(e ast.Expr) int {
	if p, ok := e.(*ast.ParenExpr); ok {
		return x.errNilTest(p.X)
	}
	b, ok := e.(*ast.BinaryExpr)
	if !ok || types.ExprString(b.Y) != "nil" || !x.isElemField(b.X, "err") {
		return 0
	}
	switch b.Op {
	case token.NEQ:
		return 1
	case token.EQL:
		return -1
	}
	return 0
}

// writesWalk: the statement assigns to a task's error, to the index of the walk or to the list walked
func (x *c13Res) writesWalk(st ast.Node) bool {
	bad := false
	ast.Inspect(st, func(n ast.Node) bool {
		switch a := n.(type) {
		case *ast.AssignStmt:
			for _, l := range a.Lhs {
				t := types.ExprString(l)
				if strings.HasSuffix(t, ".err") || (x.idx != "" && t == x.idx) || t == x.tasks {
					bad = true
				}
			}
		case *ast.IncDecStmt:
			if x.idx != "" && types.ExprString(a.X) == x.idx {
				bad = true
			}
		}
		return !bad
	})
	return bad
}

// c13resLocalOnly: control never leaves the statement other than by falling through: no return / goto / go /
// defer, and break / continue only inside a loop (switch, select) of its own
func c13resLocalOnly(st ast.Stmt) bool {
	ok := true
	var walk func(n ast.Node, inLoop, inBreakable bool)
	walk = func(n ast.Node, inLoop, inBreakable bool) {
		ast.Inspect(n, func(m ast.Node) bool {
			if !ok || m == nil {
				return false
			}
			if m == n {
				return true
			}
			switch b := m.(type) {
			case *ast.FuncLit:
				return false
			case *ast.ReturnStmt, *ast.GoStmt, *ast.DeferStmt:
				ok = false
			case *ast.BranchStmt:
				switch {
				case b.Label != nil || b.Tok == token.GOTO:
					ok = false
				case b.Tok == token.CONTINUE && !inLoop:
					ok = false
				case b.Tok == token.BREAK && !inBreakable:
					ok = false
				}
			case *ast.ForStmt, *ast.RangeStmt:
				walk(m, true, true)
				return false
			case *ast.SwitchStmt, *ast.TypeSwitchStmt, *ast.SelectStmt:
				walk(m, inLoop, true)
				return false
			}
			return ok
		})
	}
	walk(&ast.BlockStmt{List: []ast.Stmt{st}}, false, false)
	return ok
}

// a break (which would leave the switch, not the loop) or a fallthrough directly inside a switch clause
func c13resLeavesSwitch(body []ast.Stmt) bool {
	found := false
	for _, st := range body {
		ast.Inspect(st, func(n ast.Node) bool {
			switch b := n.(type) {
			case *ast.ForStmt, *ast.RangeStmt, *ast.SwitchStmt, *ast.TypeSwitchStmt, *ast.SelectStmt, *ast.FuncLit:
				return false
			case *ast.BranchStmt:
				if b.Tok == token.BREAK || b.Tok == token.FALLTHROUGH {
					found = true
				}
			}
			return !found
		})
	}
	return found
}

func c13resBlock(s ast.Stmt) []ast.Stmt {
	switch b := s.(type) {
	case nil:
		return nil
	case *ast.BlockStmt:
		return b.List
	}
	return []ast.Stmt{s} // else if
}

// the verdict of the statements (followed by `rest` when they fall through), as a Gallina term
func (x *c13Res) trans(stmts []ast.Stmt, some bool, depth int) (string, error) {
	if depth > 40 {
		return "", fmt.Errorf("too deeply nested")
	}
	if len(stmts) == 0 {
		return "TVNext", nil // the end of the loop body: next task
	}
	st, rest := stmts[0], stmts[1:]
	switch s := st.(type) {
	case *ast.BranchStmt:
		if s.Tok == token.CONTINUE && s.Label == nil {
			return "TVNext", nil
		}
		if s.Tok == token.BREAK && s.Label == nil {
			return "TVStop", nil // the walk ends here: the tasks behind are not looked at
		}
		return "", fmt.Errorf("a %s in the loop over the completed tasks", s.Tok)
	case *ast.ReturnStmt:
		if len(s.Results) != 1 {
			return "", fmt.Errorf("a return with %d results", len(s.Results))
		}
		c, ok := s.Results[0].(*ast.CallExpr)
		if !ok || types.ExprString(c.Fun) != "wrapGraphNodeError" || len(c.Args) != 2 {
			return "", fmt.Errorf("a return that is not wrapGraphNodeError(key, err): %s", types.ExprString(s.Results[0]))
		}
		if !x.isElemField(c.Args[1], "err") || !some {
			return "", fmt.Errorf("wrapGraphNodeError is not given the error of the current task: %s", types.ExprString(c.Args[1]))
		}
		var key string
		switch {
		case x.isElemField(c.Args[0], "nodeKey"):
			key = "key"
		case types.ExprString(c.Args[0]) == x.tasks+"[0].nodeKey":
			key = "key0"
		default:
			return "", fmt.Errorf("the key given to wrapGraphNodeError is not recognised: %s", types.ExprString(c.Args[0]))
		}
		return "(TVFail (wrap_node " + key + " ev))", nil
	case *ast.IfStmt:
		thenS := append(append([]ast.Stmt{}, s.Body.List...), rest...)
		elseS := append(append([]ast.Stmt{}, c13resBlock(s.Else)...), rest...)
		if s.Init == nil {
			if sign := x.errNilTest(s.Cond); sign != 0 {
				if some {
					return "", fmt.Errorf("the task's error is tested against nil twice on one path")
				}
				someS, noneS := thenS, elseS
				if sign < 0 {
					someS, noneS = elseS, thenS
				}
				a, err := x.trans(someS, true, depth+1)
				if err != nil {
					return "", err
				}
				b, err := x.trans(noneS, false, depth+1)
				if err != nil {
					return "", err
				}
				return "(match e with Some ev => " + a + " | None => " + b + " end)", nil
			}
		}
		c, err := x.cond(s.Cond, s.Init, some)
		if err != nil {
			// a test the walk does not depend on: the statement neither leaves the loop body nor the function
			// and writes no task's error (the interrupt-after bookkeeping): skipped like any bookkeeping statement
			if c13resLocalOnly(s) && !x.writesWalk(s) {
				return x.trans(rest, some, depth+1)
			}
			return "", err
		}
		a, err := x.trans(thenS, some, depth+1)
		if err != nil {
			return "", err
		}
		b, err := x.trans(elseS, some, depth+1)
		if err != nil {
			return "", err
		}
		return "(if " + c + " then " + a + " else " + b + ")", nil
	case *ast.BlockStmt:
		return x.trans(append(append([]ast.Stmt{}, s.List...), rest...), some, depth+1)
	case *ast.SwitchStmt:
		// switch { case A: ..; case B, C: ..; default: .. }  =  if A {..} else if B || C {..} else {..}
		if s.Tag != nil || s.Init != nil {
			return "", fmt.Errorf("a switch with a tag or an init statement")
		}
		var chain ast.Stmt // built from the last clause backwards
		var deflt *ast.BlockStmt
		var clauses []*ast.CaseClause
		for _, c := range s.Body.List {
			cc := c.(*ast.CaseClause)
			if c13resLeavesSwitch(cc.Body) {
				return "", fmt.Errorf("a break or fallthrough inside a switch clause")
			}
			if cc.List == nil {
				deflt = &ast.BlockStmt{List: cc.Body}
				continue
			}
			clauses = append(clauses, cc)
		}
		if deflt != nil {
			chain = deflt
		}
		for i := len(clauses) - 1; i >= 0; i-- {
			cond := clauses[i].List[0]
			for _, e := range clauses[i].List[1:] {
				cond = &ast.BinaryExpr{X: cond, Op: token.LOR, Y: e}
			}
			chain = &ast.IfStmt{Cond: cond, Body: &ast.BlockStmt{List: clauses[i].Body}, Else: chain}
		}
		if chain == nil {
			return x.trans(rest, some, depth+1)
		}
		return x.trans(append([]ast.Stmt{chain}, rest...), some, depth+1)
	case *ast.AssignStmt, *ast.ExprStmt, *ast.IncDecStmt, *ast.DeclStmt, *ast.ForStmt, *ast.RangeStmt:
		// v := isSubGraphInterrupt(T.err): remembered, so that a later `v != nil` is the interrupt test
		if as, ok := st.(*ast.AssignStmt); ok && as.Tok == token.DEFINE && len(as.Lhs) == 1 && len(as.Rhs) == 1 {
			if c, ok := as.Rhs[0].(*ast.CallExpr); ok && types.ExprString(c.Fun) == "isSubGraphInterrupt" && len(c.Args) == 1 && x.isElemField(c.Args[0], "err") {
				if id, ok := as.Lhs[0].(*ast.Ident); ok && some {
					if x.subVars == nil {
						x.subVars = map[string]bool{}
					}
					x.subVars[id.Name] = true
					return x.trans(rest, some, depth+1)
				}
			}
		}
		// bookkeeping: may not leave the function, nor write the task's error / the walk's position
		if c13resHasReturnOrJump(st) {
			return "", fmt.Errorf("a bookkeeping statement that returns or jumps")
		}
		if x.writesWalk(st) {
			return "", fmt.Errorf("a statement of the loop writes a task's error or the position of the walk")
		}
		return x.trans(rest, some, depth+1)
	}
	return "", fmt.Errorf("statement not recognised: %T", st)
}

func c13ExtractResolve(repo string) (string, string, error) {
	fset := token.NewFileSet()
	f, err := parser.ParseFile(fset, filepath.Join(repo, "compose", "graph_run.go"), nil, 0)
	if err != nil {
		return "", "", err
	}
	fn := c13rMethod(f, "runner", "resolveInterruptCompletedTasks")
	if fn == nil || fn.Body == nil {
		return "", "", fmt.Errorf("(*runner).resolveInterruptCompletedTasks not found")
	}
	params := map[string]bool{}
	for _, p := range fn.Type.Params.List {
		for _, n := range p.Names {
			params[n.Name] = true
		}
	}
	x := &c13Res{}
	var body []ast.Stmt
	sawLoop := false
	for _, st := range fn.Body.List {
		switch s := st.(type) {
		case *ast.ForStmt:
			if sawLoop {
				return "", "", fmt.Errorf("two loops")
			}
			sawLoop = true
			init, ok := s.Init.(*ast.AssignStmt)
			if !ok || init.Tok != token.DEFINE || len(init.Lhs) != 1 || len(init.Rhs) != 1 || types.ExprString(init.Rhs[0]) != "0" {
				return "", "", fmt.Errorf("the loop does not start at 0")
			}
			x.idx = types.ExprString(init.Lhs[0])
			cond, ok := s.Cond.(*ast.BinaryExpr)
			if !ok || cond.Op != token.LSS || types.ExprString(cond.X) != x.idx {
				return "", "", fmt.Errorf("the loop condition is not i < len(tasks)")
			}
			lc, ok := cond.Y.(*ast.CallExpr)
			if !ok || types.ExprString(lc.Fun) != "len" || len(lc.Args) != 1 || !params[types.ExprString(lc.Args[0])] {
				return "", "", fmt.Errorf("the loop condition is not i < len(tasks)")
			}
			x.tasks = types.ExprString(lc.Args[0])
			if post, ok := s.Post.(*ast.IncDecStmt); !ok || post.Tok != token.INC || types.ExprString(post.X) != x.idx {
				return "", "", fmt.Errorf("the loop does not advance by one")
			}
			x.elem = x.tasks + "[" + x.idx + "]"
			body = s.Body.List
		case *ast.RangeStmt:
			if sawLoop {
				return "", "", fmt.Errorf("two loops")
			}
			sawLoop = true
			if !params[types.ExprString(s.X)] || s.Tok != token.DEFINE {
				return "", "", fmt.Errorf("the loop does not range over the completed tasks")
			}
			x.tasks = types.ExprString(s.X)
			switch {
			case s.Value != nil && types.ExprString(s.Value) != "_":
				x.elem = types.ExprString(s.Value)
				if s.Key != nil && types.ExprString(s.Key) != "_" {
					x.idx = types.ExprString(s.Key)
				}
			case s.Key != nil && types.ExprString(s.Key) != "_":
				x.idx = types.ExprString(s.Key)
				x.elem = x.tasks + "[" + x.idx + "]"
			default:
				return "", "", fmt.Errorf("the loop binds neither index nor task")
			}
			body = s.Body.List
		case *ast.ReturnStmt:
			if !sawLoop || len(s.Results) > 1 || (len(s.Results) == 1 && types.ExprString(s.Results[0]) != "nil") {
				return "", "", fmt.Errorf("the function does not end with `return nil` after the loop")
			}
		default:
			return "", "", fmt.Errorf("a statement outside the loop: %T", st)
		}
	}
	if !sawLoop {
		return "", "", fmt.Errorf("the loop over the completed tasks was not found")
	}
	t, err := x.trans(body, false, 0)
	if err != nil {
		return "", "", err
	}
	var b strings.Builder
	b.WriteString("(* Gen/C13Resolve.v — GENERATED by tools/go2v (extractor \"c13resolve\") from compose/graph_run.go\n")
	b.WriteString("   (runner.resolveInterruptCompletedTasks: what the walk over the completed tasks does with one task, by its\n")
	b.WriteString("   key and error; key0 = the key of the first task of the list). Do not edit. *)\n")
	b.WriteString("From Eino Require Import Base.Util Model.Errors Model.ErrorsResolveLib.\n\n")
	b.WriteString("Definition resolve_task (key0 key : string) (e : option err) : tverdict :=\n  " + t + ".\n")
	return "C13Resolve.v", b.String(), nil
}
