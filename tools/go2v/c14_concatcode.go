package main

// Extractor "concatcode" (property C14): internal/concat.go, the functions toSliceValue,
// concatSliceValue, concatMaps and concatInterfaces, translated statement by statement into
// Gallina over the vocabulary of Model/ConcatGenLib.v; and schema/message.go, the comparator and
// the sort function concatToolCalls orders the merged calls with.
//
// The translator is a small compiler for the imperative fragment these functions are written in.
// Every Go local is a Gallina variable of a *kind* (what the reflect.Value / Go value holds):
//   slice   reflect.Value of a slice          (cty * list cval)      anys    []any                 list cval
//   elem    valid Value / any of an element   cval                   opt     Value, maybe invalid  option cval
//   optanys Value of a []any, maybe invalid   option (list cval)     mapanys Value map key->[]any  list (string * list cval)
//   keys    []reflect.Value of map keys       list string            key     one map key           string
//   ty      reflect.Type                      cty                    optty   Type, maybe nil       option cty
//   kind    reflect.Kind      nat   int       bool                   func    result of GetConcatFunc
// A statement list is translated into a term of type [ctl S R] (ConcatGenLib): it falls through
// with the tuple of the outer variables it assigned, or returns.  Recognised statements:
//   x := e   var x T   x = e   x++   x += n
//   x, err := f(a) ; if err != nil { return <zero>, err }                      (error handed on: cdo)
//   if c { x, err = f(a) } else { x, err = g(b) } ; if err != nil { return <zero>, err }
//   if c { ... } [else { ... }]         blocks may return, continue or fall through
//   for i := k; i < X.Len() | len(X) | n; i++ { ... X.Index(i) | X[i] ... }     fold over the elements with their index
//   for _, x := range E { ... }                                                fold over the elements
//   M.SetMapIndex(k, v)      X.Index(i).Set(reflect.ValueOf(v))
//   return v, nil    return reflect.Value{}, fmt.Errorf(...)    return f(val)    continue
// and the expressions listed in c14Expr.  Anything else: "source shape not recognised" (translator
// tie unavailable).  A function that is recognised but computes something else makes
// Proofs/GenAgreeConcatCode.v fail.
//
// Output: coq/Gen/ConcatCode.v with, in a Section over the registry of application functions,
//   gen_toSliceValue     : list cval -> res sval
//   gen_concatSliceValue : sval -> res (option cval)
//   gen_concatMaps       : (sval -> res (option cval)) -> sval -> res (option cval)      (first argument: the recursive call)
//   gen_concatInterfaces : (sval -> res (option cval)) -> sval -> res (option cval)      (first argument: concatMaps)
//   gen_tc_less          : option Z -> option Z -> bool        the comparator of concatToolCalls on the two Index fields
//   gen_tc_sort_stable   : bool                                sort.SliceStable (true) | sort.Slice (false)

import (
	"fmt"
	"go/ast"
	"go/token"
	"go/types"
	"sort"
	"strings"
)

func init() {
	imp := "From Eino Require Import Base.Util Model.ConcatTable Model.Concat Model.ConcatMsg Model.ConcatStream Model.ConcatGenLib Model.ConcatCodeRef.\n\n"
	register("concatcode", c14ExtractConcatCode)
	registerFallback("concatcode", "ConcatCode.v", "(* Gen/ConcatCode.v — translator tie UNAVAILABLE: tools/go2v (extractor \"concatcode\") did not recognise the\n"+
		"   shape of internal/concat.go; the reference translation is re-exported. *)\n"+imp+
		"Definition tie_available : bool := false.\n\n"+
		"Section Gen.\nContext {U : UserFn}.\n"+
		"Definition gen_toSliceValue := Model.ConcatCodeRef.gen_toSliceValue.\n"+
		"Definition gen_concatSliceValue := Model.ConcatCodeRef.gen_concatSliceValue.\n"+
		"Definition gen_concatMaps := Model.ConcatCodeRef.gen_concatMaps.\n"+
		"Definition gen_concatInterfaces := Model.ConcatCodeRef.gen_concatInterfaces.\n"+
		"End Gen.\n"+
		"Definition gen_concat_items_shape := Model.ConcatCodeRef.gen_concat_items_shape.\n")
	register("concatstream", c14ExtractConcatStream)
	registerFallback("concatstream", "ConcatStreamCode.v", "(* Gen/ConcatStreamCode.v — translator tie UNAVAILABLE: tools/go2v (extractor \"concatstream\") did not recognise the\n"+
		"   shape of compose/stream_concat.go (concatStreamReader) / schema/message.go (ConcatMessageStream); the reference translation is re-exported. *)\n"+imp+
		"Definition tie_available : bool := false.\n\n"+
		"Definition gen_concatStreamReader := Model.ConcatCodeRef.gen_concatStreamReader.\n"+
		"Definition gen_ConcatMessageStream := Model.ConcatCodeRef.gen_ConcatMessageStream.\n"+
		"Definition gen_concatMessageArray := Model.ConcatCodeRef.gen_concatMessageArray.\n")
	register("concattoolcalls", c14ExtractConcatToolCalls)
	registerFallback("concattoolcalls", "ConcatToolCallCode.v", "(* Gen/ConcatToolCallCode.v — translator tie UNAVAILABLE: tools/go2v (extractor \"concattoolcalls\") did not recognise the\n"+
		"   shape of schema/message.go (concatToolCalls); the reference translation is re-exported. *)\n"+imp+
		"Definition tie_available : bool := false.\n\n"+
		"Definition gen_tc_less := Model.ConcatCodeRef.gen_tc_less.\n"+
		"Definition gen_tc_sort_stable : bool := Model.ConcatCodeRef.gen_tc_sort_stable.\n"+
		"Definition gen_concatToolCalls := Model.ConcatCodeRef.gen_concatToolCalls.\n")
}

type c14Kind int

const (
	c14kNone c14Kind = iota
	c14kSlice
	c14kAnys
	c14kElem
	c14kOpt
	c14kOptAnys
	c14kMapAnys
	c14kKeys
	c14kKey
	c14kTy
	c14kOptTy
	c14kKind
	c14kNat
	c14kBool
	c14kFunc
	c14kStream // *schema.StreamReader[T]: what it still has to deliver     list (sitem X)
	c14kXs     // []T                                                       list X
	c14kX      // T                                                         X
	c14kXss    // [][]T                                                     list (list X)
	c14kErr    // the error of a Recv: nil | io.EOF | another error         rerr
	c14kTCs    // []ToolCall                                                list toolcall
	c14kTC     // ToolCall                                                  toolcall
	c14kOptZ   // *int                                                      option Z
	c14kZ      // int used as a tool-call index                             Z
	c14kZMap   // map[int][]int                                             list (Z * list nat)
	c14kNats   // []int of positions                                        list nat
	c14kStr    // string / strings.Builder                                  string
)

var c14KindName = map[c14Kind]string{c14kSlice: "slice", c14kAnys: "anys", c14kElem: "elem", c14kOpt: "opt", c14kOptAnys: "optanys", c14kMapAnys: "mapanys",
	c14kKeys: "keys", c14kKey: "key", c14kTy: "ty", c14kOptTy: "optty", c14kKind: "kind", c14kNat: "nat", c14kBool: "bool", c14kFunc: "func", c14kStream: "stream", c14kXs: "xs", c14kX: "x", c14kXss: "xss", c14kErr: "err",
	c14kTCs: "toolcalls", c14kTC: "toolcall", c14kOptZ: "optint", c14kZ: "index", c14kZMap: "indexmap", c14kNats: "positions", c14kStr: "string"}

type c14Fn struct {
	gname  string // Gallina term to call
	param  c14Kind
	result c14Kind
}

type c14Loop struct {
	idx, over, elem string // inside `for i := ..; i < len(X)`: i, X, Gallina name of X[i]
}

type c14Tr struct {
	fname   string
	vars    map[string]c14Kind
	order   []string // declaration order of vars (for canonical tuples)
	lenOf   map[string]string
	resKind c14Kind
	errCode string
	funcs   map[string]c14Fn
	loops   []c14Loop
	loopV   [][]string // state tuple of the enclosing loops
	loopK   []string   // kind of the enclosing loops: "fold" (cfold) | "loop" (for { }: c_loop, break = Next (inr _))
	xType   string     // stream entry points: the printed chunk type T
	tmp     int
}

var c14Reserved = map[string]bool{"at": true, "as": true, "in": true, "end": true, "fun": true, "let": true, "if": true, "then": true, "else": true,
	"return": true, "match": true, "with": true, "fix": true, "forall": true, "exists": true, "Type": true, "Set": true, "Prop": true, "using": true,
	"where": true, "for": true, "do": true, "S": true, "res": true, "Ok": true, "Err": true, "Some": true, "None": true, "Next": true, "Return": true, "zero": true, "X": true, "concat_items": true, "self": true, "cdo": true, "cbind": true, "cfold": true, "fst": true, "snd": true, "length": true, "negb": true, "tt": true}

func c14Name(n string) string {
	if c14Reserved[n] {
		return n + "_"
	}
	return n
}

func (t *c14Tr) errf(format string, a ...any) error {
	return fmt.Errorf("%s: "+format, append([]any{t.fname}, a...)...)
}

func (t *c14Tr) declare(n string, k c14Kind) {
	if _, ok := t.vars[n]; !ok {
		t.order = append(t.order, n)
	}
	t.vars[n] = k
}

func (t *c14Tr) fresh(base string) string {
	t.tmp++
	return fmt.Sprintf("%s_%d", base, t.tmp)
}

// one hoisted monadic operation: cdo <name> <- <code>
type c14Pre struct{ name, code string }

func c14Wrap(pre []c14Pre, body string) string {
	for i := len(pre) - 1; i >= 0; i-- {
		body = "cdo " + pre[i].code + " (fun " + pre[i].name + " =>\n" + body + ")"
	}
	return body
}

func c14IsIdent(e ast.Expr, name string) bool {
	id, ok := e.(*ast.Ident)
	return ok && id.Name == name
}

// field path of a tool call: chunk.ID -> "ID", chunk.Function.Name -> "Function.Name"
func c14FieldPath(x *ast.SelectorExpr) string {
	if in, ok := x.X.(*ast.SelectorExpr); ok && in.Sel.Name == "Function" {
		return "Function." + x.Sel.Name
	}
	return x.Sel.Name
}

func c14FieldBase(x *ast.SelectorExpr) ast.Expr {
	if in, ok := x.X.(*ast.SelectorExpr); ok && in.Sel.Name == "Function" {
		return in.X
	}
	return x.X
}

// X.M(args) -> X, M, args
func c14MethodCall(e ast.Expr) (ast.Expr, string, []ast.Expr, bool) {
	c, ok := e.(*ast.CallExpr)
	if !ok {
		return nil, "", nil, false
	}
	s, ok := c.Fun.(*ast.SelectorExpr)
	if !ok {
		return nil, "", nil, false
	}
	return s.X, s.Sel.Name, c.Args, true
}

func (t *c14Tr) coerce(code string, from, to c14Kind) (string, error) {
	switch {
	case from == to:
		return code, nil
	case from == c14kElem && to == c14kOpt:
		return "(Some " + code + ")", nil
	case from == c14kTy && to == c14kOptTy:
		return "(Some " + code + ")", nil
	case from == c14kAnys && to == c14kOptAnys:
		return "(Some " + code + ")", nil
	}
	return "", t.errf("a value of kind %s where kind %s is expected (%s)", c14KindName[from], c14KindName[to], code)
}

// c14Expr: Go expression -> hoisted panicking operations, Gallina term, kind
func (t *c14Tr) expr(e ast.Expr) ([]c14Pre, string, c14Kind, error) {
	bad := func() ([]c14Pre, string, c14Kind, error) {
		return nil, "", c14kNone, t.errf("expression %s is outside the translated fragment", types.ExprString(e))
	}
	mon := func(pre []c14Pre, code string, base string, k c14Kind) ([]c14Pre, string, c14Kind, error) {
		n := t.fresh(base)
		return append(pre, c14Pre{n, code}), n, k, nil
	}
	switch x := e.(type) {
	case *ast.ParenExpr:
		return t.expr(x.X)
	case *ast.BasicLit:
		if x.Kind == token.INT {
			return nil, x.Value, c14kNat, nil
		}
		if x.Kind == token.STRING && x.Value == `""` {
			return nil, "EmptyString", c14kStr, nil
		}
	case *ast.Ident:
		if k, ok := t.vars[x.Name]; ok {
			return nil, c14Name(x.Name), k, nil
		}
		switch x.Name {
		case "true", "false":
			return nil, x.Name, c14kBool, nil
		}
	case *ast.SelectorExpr:
		if f, ok := map[string]string{"Index": "tc_idx", "ID": "tc_id", "Type": "tc_type", "Function.Name": "tc_name", "Function.Arguments": "tc_args"}[c14FieldPath(x)]; ok {
			base := c14FieldBase(x)
			pre, c, k, err := t.expr(base)
			if err != nil {
				return nil, "", c14kNone, err
			}
			if k == c14kTC {
				kd := c14kStr
				if f == "tc_idx" {
					kd = c14kOptZ
				}
				return pre, "(" + f + " " + c + ")", kd, nil
			}
		}
		if c14IsIdent(x.X, "reflect") {
			switch x.Sel.Name {
			case "Map":
				return nil, "KdMap", c14kKind, nil
			case "Interface":
				return nil, "KdInterface", c14kKind, nil
			}
		}
	case *ast.CompositeLit:
		if es(x.Type) == "ToolCall" && len(x.Elts) == 1 {
			if kv, ok := x.Elts[0].(*ast.KeyValueExpr); ok && c14IsIdent(kv.Key, "Index") {
				if u, ok := kv.Value.(*ast.UnaryExpr); ok && u.Op == token.AND {
					pre, c, k, err := t.expr(u.X)
					if err != nil {
						return nil, "", c14kNone, err
					}
					if k == c14kZ {
						return pre, "(tc_new (Some " + c + "))", c14kTC, nil
					}
				}
			}
			return bad()
		}
		if es(x.Type) == "reflect.Value" && len(x.Elts) == 0 {
			return nil, "(@None cval)", c14kOpt, nil
		}
	case *ast.StarExpr:
		pre, c, k, err := t.expr(x.X)
		if err != nil {
			return nil, "", c14kNone, err
		}
		if k != c14kOptZ {
			return bad()
		}
		return mon(pre, "(r_deref "+c+")", "d", c14kZ)
	case *ast.UnaryExpr:
		if x.Op == token.NOT {
			pre, c, k, err := t.expr(x.X)
			if err != nil {
				return nil, "", c14kNone, err
			}
			if k != c14kBool {
				return bad()
			}
			return pre, "(negb " + c + ")", c14kBool, nil
		}
	case *ast.IndexExpr:
		// X[i] on a []any
		pre, xc, xk, err := t.expr(x.X)
		if err != nil {
			return nil, "", c14kNone, err
		}
		if xk == c14kTCs || xk == c14kNats {
			for _, l := range t.loops {
				if c14IsIdent(x.X, l.over) && c14IsIdent(x.Index, l.idx) {
					return pre, l.elem, c14kTC, nil
				}
			}
			pi, ic, ik, err := t.expr(x.Index)
			if err != nil {
				return nil, "", c14kNone, err
			}
			if ik != c14kNat {
				return bad()
			}
			ek := c14kTC
			if xk == c14kNats {
				ek = c14kNat
			}
			return mon(append(pre, pi...), "(g_nth "+xc+" "+ic+")", "x", ek)
		}
		if xk == c14kZMap {
			pi, ic, ik, err := t.expr(x.Index)
			if err != nil {
				return nil, "", c14kNone, err
			}
			if ik != c14kZ {
				return bad()
			}
			return append(pre, pi...), "(zm_get " + ic + " " + xc + ")", c14kNats, nil
		}
		if xk == c14kXss {
			pi, ic, ik, err := t.expr(x.Index)
			if err != nil {
				return nil, "", c14kNone, err
			}
			if ik != c14kNat {
				return bad()
			}
			return mon(append(pre, pi...), "(g_nth "+xc+" "+ic+")", "x", c14kXs)
		}
		if xk == c14kXs {
			pi, ic, ik, err := t.expr(x.Index)
			if err != nil {
				return nil, "", c14kNone, err
			}
			if ik != c14kNat {
				return bad()
			}
			return mon(append(pre, pi...), "(g_nth "+xc+" "+ic+")", "x", c14kX)
		}
		if xk != c14kAnys {
			return bad()
		}
		for _, l := range t.loops {
			if c14IsIdent(x.X, l.over) && c14IsIdent(x.Index, l.idx) {
				return pre, l.elem, c14kElem, nil
			}
		}
		pi, ic, ik, err := t.expr(x.Index)
		if err != nil {
			return nil, "", c14kNone, err
		}
		if ik != c14kNat {
			return bad()
		}
		return mon(append(pre, pi...), "(r_nth "+xc+" "+ic+")", "x", c14kElem)
	case *ast.BinaryExpr:
		switch x.Op {
		case token.LAND, token.LOR:
			pl, l, lk, err := t.expr(x.X)
			if err != nil {
				return nil, "", c14kNone, err
			}
			pr, r, rk, err := t.expr(x.Y)
			if err != nil {
				return nil, "", c14kNone, err
			}
			if lk != c14kBool || rk != c14kBool {
				return bad()
			}
			if len(pr) > 0 {
				// the right operand is evaluated only when the left one does not decide: a conditional res bool, hoisted
				inner := "Ok " + r
				for i := len(pr) - 1; i >= 0; i-- {
					inner = "res_bind " + pr[i].code + " (fun " + pr[i].name + " => " + inner + ")"
				}
				code := "(if " + l + " then (" + inner + ") else Ok false)"
				if x.Op == token.LOR {
					code = "(if " + l + " then Ok true else (" + inner + "))"
				}
				return mon(pl, code, "c", c14kBool)
			}
			op := "&&"
			if x.Op == token.LOR {
				op = "||"
			}
			return pl, "(" + l + " " + op + " " + r + ")", c14kBool, nil
		case token.ADD, token.SUB:
			// on lengths and positions; x - y below zero is 0 here and an index out of range either way
			pl, l, lk, err := t.expr(x.X)
			if err != nil {
				return nil, "", c14kNone, err
			}
			pr, r, rk, err := t.expr(x.Y)
			if err != nil {
				return nil, "", c14kNone, err
			}
			if lk != c14kNat || rk != c14kNat {
				return bad()
			}
			op := "+"
			if x.Op == token.SUB {
				op = "-"
			}
			return append(pl, pr...), "(" + l + " " + op + " " + r + ")", c14kNat, nil
		case token.EQL, token.NEQ, token.LSS, token.GTR, token.LEQ, token.GEQ:
			neg := func(s string) string {
				if x.Op == token.NEQ {
					return "(negb " + s + ")"
				}
				return s
			}
			// comparisons with nil
			if c14IsIdent(x.Y, "nil") || c14IsIdent(x.X, "nil") {
				o := x.X
				if c14IsIdent(x.X, "nil") {
					o = x.Y
				}
				if x.Op != token.EQL && x.Op != token.NEQ {
					return bad()
				}
				pre, c, k, err := t.expr(o)
				if err != nil {
					return nil, "", c14kNone, err
				}
				switch k {
				case c14kX:
					return pre, neg("(is_nil_x " + c + ")"), c14kBool, nil
				case c14kOptZ:
					if x.Op == token.NEQ {
						return pre, "(is_some " + c + ")", c14kBool, nil
					}
					return pre, "(negb (is_some " + c + "))", c14kBool, nil
				case c14kErr:
					return pre, neg("(rerr_is_nil " + c + ")"), c14kBool, nil
				case c14kFunc, c14kOptTy:
					if x.Op == token.NEQ {
						return pre, "(is_some " + c + ")", c14kBool, nil
					}
					return pre, "(negb (is_some " + c + "))", c14kBool, nil
				case c14kElem:
					return pre, neg("(is_nil " + c + ")"), c14kBool, nil
				}
				return bad()
			}
			if (x.Op == token.EQL || x.Op == token.NEQ) && (es(x.Y) == "io.EOF" || es(x.X) == "io.EOF") {
				o := x.X
				if es(x.X) == "io.EOF" {
					o = x.Y
				}
				pre, c, k, err := t.expr(o)
				if err != nil {
					return nil, "", c14kNone, err
				}
				if k != c14kErr {
					return bad()
				}
				return pre, neg("(rerr_is_eof " + c + ")"), c14kBool, nil
			}
			pl, l, lk, err := t.expr(x.X)
			if err != nil {
				return nil, "", c14kNone, err
			}
			pr, r, rk, err := t.expr(x.Y)
			if err != nil {
				return nil, "", c14kNone, err
			}
			pre := append(pl, pr...)
			// an index compared with an integer literal
			if lit, ok := x.Y.(*ast.BasicLit); ok && lk == c14kZ && lit.Kind == token.INT {
				op := map[token.Token]string{token.EQL: "Z.eqb", token.NEQ: "Z.eqb", token.LSS: "Z.ltb", token.LEQ: "Z.leb", token.GTR: "Z.gtb", token.GEQ: "Z.geb"}[x.Op]
				return pre, neg("(" + op + " " + l + " " + lit.Value + "%Z)"), c14kBool, nil
			}
			switch {
			case lk == c14kStr && rk == c14kStr && (x.Op == token.EQL || x.Op == token.NEQ):
				return pre, neg("(String.eqb " + l + " " + r + ")"), c14kBool, nil
			case lk == c14kNat && rk == c14kNat:
				switch x.Op {
				case token.EQL, token.NEQ:
					return pre, neg("(Nat.eqb " + l + " " + r + ")"), c14kBool, nil
				case token.LSS:
					return pre, "(Nat.ltb " + l + " " + r + ")", c14kBool, nil
				case token.GTR:
					return pre, "(Nat.ltb " + r + " " + l + ")", c14kBool, nil
				case token.LEQ:
					return pre, "(Nat.leb " + l + " " + r + ")", c14kBool, nil
				case token.GEQ:
					return pre, "(Nat.leb " + r + " " + l + ")", c14kBool, nil
				}
			case (lk == c14kTy || lk == c14kOptTy) && (rk == c14kTy || rk == c14kOptTy) && (x.Op == token.EQL || x.Op == token.NEQ):
				l, _ = t.coerce(l, lk, c14kOptTy)
				r, _ = t.coerce(r, rk, c14kOptTy)
				return pre, neg("(oty_eqb " + l + " " + r + ")"), c14kBool, nil
			case lk == c14kKind && rk == c14kKind && (x.Op == token.EQL || x.Op == token.NEQ):
				return pre, neg("(rkind_eqb " + l + " " + r + ")"), c14kBool, nil
			}
		}
	case *ast.CallExpr:
		// builtins and package functions
		if id, ok := x.Fun.(*ast.Ident); ok {
			switch {
			case id.Name == "len" && len(x.Args) == 1:
				pre, c, k, err := t.expr(x.Args[0])
				if err != nil {
					return nil, "", c14kNone, err
				}
				if k != c14kAnys && k != c14kXs && k != c14kXss && k != c14kTCs && k != c14kNats {
					return bad()
				}
				return pre, "(List.length " + c + ")", c14kNat, nil
			case id.Name == "make" && len(x.Args) == 3 && es(x.Args[0]) == "[]any" && es(x.Args[1]) == "0":
				return nil, "(@nil cval)", c14kAnys, nil
			case id.Name == "make" && len(x.Args) == 2 && t.xType != "" && (es(x.Args[0]) == "[]"+t.xType || es(x.Args[0]) == "[][]"+t.xType):
				pn, nc, nk, err := t.expr(x.Args[1])
				if err != nil {
					return nil, "", c14kNone, err
				}
				if nk != c14kNat {
					return bad()
				}
				if es(x.Args[0]) == "[]"+t.xType {
					return pn, "(repeat zero " + nc + ")", c14kXs, nil
				}
				return pn, "(repeat (@nil X) " + nc + ")", c14kXss, nil
			case id.Name == "make" && len(x.Args) == 1 && es(x.Args[0]) == "map[int][]int":
				return nil, "(@nil (Z * list nat))", c14kZMap, nil
			case id.Name == "append" && len(x.Args) == 2:
				pa, a, ak, err := t.expr(x.Args[0])
				if err != nil {
					return nil, "", c14kNone, err
				}
				pb, b, bk, err := t.expr(x.Args[1])
				if err != nil {
					return nil, "", c14kNone, err
				}
				if !(ak == c14kAnys && bk == c14kElem) && !(ak == c14kXs && bk == c14kX) && !(ak == c14kTCs && bk == c14kTC) && !(ak == c14kNats && bk == c14kNat) {
					return bad()
				}
				return append(pa, pb...), "(" + a + " ++ [" + b + "])", ak, nil
			case id.Name == "GetConcatFunc" && len(x.Args) == 1:
				pre, c, k, err := t.expr(x.Args[0])
				if err != nil {
					return nil, "", c14kNone, err
				}
				if k != c14kTy {
					return bad()
				}
				return pre, "(get_concat_func " + c + ")", c14kFunc, nil
			}
			return bad()
		}
		if recv, m, args, ok := c14MethodCall(e); ok {
			// reflect.F(...)
			if c14IsIdent(recv, "reflect") {
				switch {
				case m == "TypeOf" && len(args) == 1:
					pre, c, k, err := t.expr(args[0])
					if err != nil {
						return nil, "", c14kNone, err
					}
					if k != c14kElem {
						return bad()
					}
					return pre, "(dyn_ty " + c + ")", c14kOptTy, nil
				case m == "ValueOf" && len(args) == 1:
					pre, c, k, err := t.expr(args[0])
					if err != nil {
						return nil, "", c14kNone, err
					}
					switch k {
					case c14kElem:
						return pre, c, c14kElem, nil // the invalid Value of a nil interface is rendered CNil: every use checks the type
					case c14kAnys:
						return pre, "(Some " + c + ")", c14kOptAnys, nil
					}
					return bad()
				case m == "MakeSlice" && len(args) == 3 && es(args[1]) == es(args[2]):
					if r2, m2, a2, ok := c14MethodCall(args[0]); ok && c14IsIdent(r2, "reflect") && m2 == "SliceOf" && len(a2) == 1 {
						pt, tc, tk, err := t.expr(a2[0])
						if err != nil {
							return nil, "", c14kNone, err
						}
						pn, nc, nk, err := t.expr(args[1])
						if err != nil {
							return nil, "", c14kNone, err
						}
						if nk != c14kNat {
							return bad()
						}
						tc, err = t.coerce(tc, tk, c14kOptTy)
						if err != nil {
							return nil, "", c14kNone, err
						}
						return mon(append(pt, pn...), "(r_make_slice "+tc+" "+nc+")", "s", c14kSlice)
					}
				case m == "MakeMap" && len(args) == 1:
					if r2, m2, a2, ok := c14MethodCall(args[0]); ok && c14IsIdent(r2, "reflect") && m2 == "MapOf" && len(a2) == 2 &&
						strings.HasSuffix(es(a2[0]), ".Key()") && es(a2[1]) == "generic.TypeOf[[]any]()" {
						return nil, "(@nil (string * list cval))", c14kMapAnys, nil
					}
					pre, c, k, err := t.expr(args[0])
					if err != nil {
						return nil, "", c14kNone, err
					}
					if k != c14kTy {
						return bad()
					}
					return mon(pre, "(r_make_map "+c+")", "m", c14kElem)
				case m == "Zero" && len(args) == 1:
					if r2, m2, a2, ok := c14MethodCall(args[0]); ok && m2 == "Elem" && len(a2) == 0 {
						pre, c, k, err := t.expr(r2)
						if err != nil {
							return nil, "", c14kNone, err
						}
						if k != c14kTy {
							return bad()
						}
						return pre, "(r_zero_elem " + c + ")", c14kElem, nil
					}
				case m == "Append" && len(args) == 2:
					pa, a, ak, err := t.expr(args[0])
					if err != nil {
						return nil, "", c14kNone, err
					}
					pb, b, bk, err := t.expr(args[1])
					if err != nil {
						return nil, "", c14kNone, err
					}
					if ak != c14kOptAnys {
						return bad()
					}
					b, err = t.coerce(b, bk, c14kOpt)
					if err != nil {
						return nil, "", c14kNone, err
					}
					return mon(append(pa, pb...), "(r_append "+a+" "+b+")", "a", c14kOptAnys)
				}
				return bad()
			}
			// reflect.New(T).Elem()
			if m == "Elem" && len(args) == 0 {
				if r2, m2, a2, ok := c14MethodCall(recv); ok && c14IsIdent(r2, "reflect") && m2 == "New" && len(a2) == 1 {
					pre, c, k, err := t.expr(a2[0])
					if err != nil {
						return nil, "", c14kNone, err
					}
					if k != c14kTy {
						return bad()
					}
					return pre, "(zero_of " + c + ")", c14kElem, nil
				}
				// X.Type().Elem()
				if r2, m2, a2, ok := c14MethodCall(recv); ok && m2 == "Type" && len(a2) == 0 {
					pre, c, k, err := t.expr(r2)
					if err != nil {
						return nil, "", c14kNone, err
					}
					if k != c14kSlice {
						return bad()
					}
					return pre, "(sv_elem " + c + ")", c14kTy, nil
				}
				return bad()
			}
			// X.Interface().([]any) is a TypeAssertExpr, handled below; methods on a translated receiver
			pre, rc, rk, err := t.expr(recv)
			if err != nil {
				return nil, "", c14kNone, err
			}
			switch {
			case m == "String" && len(args) == 0 && rk == c14kStr:
				return pre, rc, c14kStr, nil
			case m == "Len" && len(args) == 0 && rk == c14kSlice:
				return pre, "(sv_len " + rc + ")", c14kNat, nil
			case m == "Index" && len(args) == 1 && rk == c14kSlice:
				for _, l := range t.loops {
					if c14IsIdent(recv, l.over) && c14IsIdent(args[0], l.idx) {
						return pre, l.elem, c14kElem, nil
					}
				}
				pi, ic, ik, err := t.expr(args[0])
				if err != nil {
					return nil, "", c14kNone, err
				}
				if ik != c14kNat {
					return bad()
				}
				return mon(append(pre, pi...), "(r_index "+rc+" "+ic+")", "x", c14kElem)
			case m == "Kind" && len(args) == 0 && rk == c14kTy:
				return pre, "(ty_kind " + rc + ")", c14kKind, nil
			case m == "Kind" && len(args) == 0 && rk == c14kOptTy:
				return mon(pre, "(oty_kind "+rc+")", "k", c14kKind)
			case m == "IsZero" && len(args) == 0 && rk == c14kElem:
				return pre, "(is_zero " + rc + ")", c14kBool, nil
			case m == "IsNil" && len(args) == 0 && rk == c14kElem:
				return pre, "(is_nil " + rc + ")", c14kBool, nil
			case m == "IsValid" && len(args) == 0 && (rk == c14kOpt || rk == c14kOptAnys):
				return pre, "(is_some " + rc + ")", c14kBool, nil
			case m == "IsValid" && len(args) == 0 && rk == c14kElem:
				return pre, "true", c14kBool, nil
			case m == "Interface" && len(args) == 0 && rk == c14kElem:
				return pre, rc, c14kElem, nil
			case m == "MapKeys" && len(args) == 0 && rk == c14kElem:
				return mon(pre, "(r_map_keys "+rc+")", "ks", c14kKeys)
			case m == "MapKeys" && len(args) == 0 && rk == c14kMapAnys:
				return pre, "(List.map fst " + rc + ")", c14kKeys, nil
			case m == "MapIndex" && len(args) == 1:
				pk, kc, kk, err := t.expr(args[0])
				if err != nil {
					return nil, "", c14kNone, err
				}
				if kk != c14kKey {
					return bad()
				}
				switch rk {
				case c14kMapAnys:
					return append(pre, pk...), "(alist_get " + kc + " " + rc + ")", c14kOptAnys, nil
				case c14kElem:
					return mon(append(pre, pk...), "(r_map_index "+rc+" "+kc+")", "v", c14kOpt)
				}
			}
		}
	case *ast.TypeAssertExpr:
		// X.Interface().([]any)
		if x.Type != nil && es(x.Type) == "[]any" {
			if recv, m, args, ok := c14MethodCall(x.X); ok && m == "Interface" && len(args) == 0 {
				pre, c, k, err := t.expr(recv)
				if err != nil {
					return nil, "", c14kNone, err
				}
				if k != c14kOptAnys {
					return bad()
				}
				return mon(pre, "(r_anys "+c+")", "l", c14kAnys)
			}
		}
	}
	return bad()
}

// variables declared outside [l] that the statements of [l] assign
func (t *c14Tr) assigned(l []ast.Stmt) []string {
	set := map[string]bool{}
	local := map[string]bool{}
	var walk func(n ast.Node)
	var mark func(e ast.Expr)
	mark = func(e ast.Expr) {
		switch y := e.(type) {
		case *ast.IndexExpr:
			mark(y.X)
			return
		case *ast.SelectorExpr:
			mark(c14FieldBase(y))
			return
		}
		if id, ok := e.(*ast.Ident); ok && id.Name != "_" && id.Name != "err" {
			if _, known := t.vars[id.Name]; known && !local[id.Name] {
				set[id.Name] = true
			}
		}
	}
	walk = func(n ast.Node) {
		ast.Inspect(n, func(n ast.Node) bool {
			switch x := n.(type) {
			case *ast.AssignStmt:
				if len(x.Rhs) == 1 {
					if recv, m, _, ok := c14MethodCall(x.Rhs[0]); ok && (m == "Recv" || m == "WriteString") {
						mark(recv)
					}
				}
				if x.Tok == token.DEFINE {
					for _, lh := range x.Lhs {
						if id, ok := lh.(*ast.Ident); ok {
							if _, known := t.vars[id.Name]; !known {
								local[id.Name] = true
							}
						}
					}
					// a := redeclares in an inner scope: treated as local to that scope only if unknown outside
					return true
				}
				for _, lh := range x.Lhs {
					mark(lh)
				}
			case *ast.IncDecStmt:
				mark(x.X)
			case *ast.ExprStmt:
				if recv, m, _, ok := c14MethodCall(x.X); ok {
					if m == "SetMapIndex" || m == "Reset" {
						mark(recv)
					}
					if (m == "SliceStable" || m == "Slice") && c14IsIdent(recv, "sort") {
						if c, ok := x.X.(*ast.CallExpr); ok && len(c.Args) > 0 {
							mark(c.Args[0])
						}
					}
					if m == "Set" {
						if r2, m2, _, ok := c14MethodCall(recv); ok && m2 == "Index" {
							mark(r2)
						}
					}
				}
			}
			return true
		})
	}
	for _, s := range l {
		walk(s)
	}
	var out []string
	for _, n := range t.order {
		if set[n] {
			out = append(out, n)
		}
	}
	return out
}

func c14Tuple(vs []string) string {
	switch len(vs) {
	case 0:
		return "tt"
	case 1:
		return c14Name(vs[0])
	}
	ns := make([]string, len(vs))
	for i, v := range vs {
		ns[i] = c14Name(v)
	}
	return "(" + strings.Join(ns, ", ") + ")"
}

func c14Pattern(vs []string) string {
	switch len(vs) {
	case 0:
		return "_"
	case 1:
		return c14Name(vs[0])
	}
	return "'" + c14Tuple(vs)
}

// does control never reach the end of the list?
func c14Terminates(l []ast.Stmt) bool {
	if len(l) == 0 {
		return false
	}
	switch x := l[len(l)-1].(type) {
	case *ast.ReturnStmt:
		return true
	case *ast.BranchStmt:
		return x.Tok == token.CONTINUE || x.Tok == token.BREAK
	case *ast.IfStmt:
		if x.Else == nil {
			return false
		}
		switch e := x.Else.(type) {
		case *ast.BlockStmt:
			return c14Terminates(x.Body.List) && c14Terminates(e.List)
		case *ast.IfStmt:
			return c14Terminates(x.Body.List) && c14Terminates([]ast.Stmt{e})
		}
	}
	return false
}

func c14HasContinue(l []ast.Stmt) bool {
	found := false
	for _, s := range l {
		ast.Inspect(s, func(n ast.Node) bool {
			switch x := n.(type) {
			case *ast.ForStmt, *ast.RangeStmt, *ast.FuncLit:
				return false
			case *ast.BranchStmt:
				if x.Tok == token.CONTINUE || x.Tok == token.BREAK {
					found = true
				}
			}
			return true
		})
	}
	return found
}

// `if err != nil { return <anything>, err }`
func c14IsErrCheck(s ast.Stmt) bool {
	i, ok := s.(*ast.IfStmt)
	if !ok || i.Init != nil || i.Else != nil || es(i.Cond) != "err!=nil" || len(i.Body.List) == 0 || len(i.Body.List) > 2 {
		return false
	}
	if len(i.Body.List) == 2 {
		// var t T; return t, err
		if _, isDecl := i.Body.List[0].(*ast.DeclStmt); !isDecl {
			return false
		}
	}
	r, ok := i.Body.List[len(i.Body.List)-1].(*ast.ReturnStmt)
	return ok && len(r.Results) == 2 && c14IsIdent(r.Results[1], "err")
}

// `x, err := f(a)` / `x, err = f(a)` -> x, call
func (t *c14Tr) errCall(s ast.Stmt) (string, token.Token, *ast.CallExpr, bool) {
	a, ok := s.(*ast.AssignStmt)
	if !ok || len(a.Lhs) != 2 || len(a.Rhs) != 1 || !c14IsIdent(a.Lhs[1], "err") {
		return "", 0, nil, false
	}
	id, ok := a.Lhs[0].(*ast.Ident)
	if !ok {
		return "", 0, nil, false
	}
	c, ok := a.Rhs[0].(*ast.CallExpr)
	if !ok {
		return "", 0, nil, false
	}
	if _, m, _, isM := c14MethodCall(c); isM && (m == "Recv" || m == "WriteString") {
		return "", 0, nil, false
	}
	return id.Name, a.Tok, c, true
}

// a call of one of the translated functions (or of the function value f)
func (t *c14Tr) call(c *ast.CallExpr) ([]c14Pre, string, c14Kind, error) {
	if len(c.Args) != 1 {
		return nil, "", c14kNone, t.errf("call %s is outside the translated fragment", types.ExprString(c))
	}
	id, ok := c.Fun.(*ast.Ident)
	if !ok {
		if _, isSel := c.Fun.(*ast.SelectorExpr); !isSel {
			return nil, "", c14kNone, t.errf("call %s is outside the translated fragment", types.ExprString(c))
		}
		id = &ast.Ident{Name: es(c.Fun)}
	}
	pre, a, ak, err := t.expr(c.Args[0])
	if err != nil {
		return nil, "", c14kNone, err
	}
	if k, isVar := t.vars[id.Name]; isVar && k == c14kFunc {
		if ak != c14kSlice {
			return nil, "", c14kNone, t.errf("the concat function is applied to a value of kind %s", c14KindName[ak])
		}
		return pre, "(r_call " + c14Name(id.Name) + " " + a + ")", c14kOpt, nil
	}
	f, ok := t.funcs[id.Name]
	if !ok {
		return nil, "", c14kNone, t.errf("call of %s: not one of the translated functions", id.Name)
	}
	if ak != f.param {
		return nil, "", c14kNone, t.errf("%s is applied to a value of kind %s", id.Name, c14KindName[ak])
	}
	return pre, "(" + f.gname + " " + a + ")", f.result, nil
}

// block: statement list -> Gallina term of type ctl _ _ ; [k] is the term for "control reaches the end"
func (t *c14Tr) block(l []ast.Stmt, k string, ind string) (string, error) {
	if len(l) == 0 {
		return k, nil
	}
	rest := func(n int) (string, error) { return t.block(l[n:], k, ind) }
	bind := func(pre []c14Pre, name, code string, monadic bool, n int) (string, error) {
		r, err := rest(n)
		if err != nil {
			return "", err
		}
		var s string
		if monadic {
			s = "cdo " + code + " (fun " + name + " =>\n" + ind + r + ")"
		} else {
			s = "let " + name + " := " + code + " in\n" + ind + r
		}
		return c14Wrap(pre, s), nil
	}
	switch x := l[0].(type) {
	case *ast.DeclStmt:
		gd, ok := x.Decl.(*ast.GenDecl)
		if !ok || gd.Tok != token.VAR || len(gd.Specs) != 1 {
			break
		}
		vs := gd.Specs[0].(*ast.ValueSpec)
		if len(vs.Names) != 1 || len(vs.Values) != 0 || vs.Type == nil {
			break
		}
		var code string
		var kd c14Kind
		switch es(vs.Type) {
		case "reflect.Value":
			code, kd = "(@None cval)", c14kOpt
		case "[]any":
			code, kd = "(@nil cval)", c14kAnys
		case "int":
			code, kd = "0", c14kNat
		case "[]ToolCall":
			code, kd = "(@nil toolcall)", c14kTCs
		case "strings.Builder":
			code, kd = "EmptyString", c14kStr
		default:
			switch {
			case t.xType != "" && es(vs.Type) == "[]"+t.xType:
				code, kd = "(@nil X)", c14kXs
			case t.xType != "" && es(vs.Type) == t.xType:
				code, kd = "zero", c14kX
			default:
				return "", t.errf("var %s %s: type outside the translated fragment", vs.Names[0].Name, es(vs.Type))
			}
		}
		t.declare(vs.Names[0].Name, kd)
		return bind(nil, c14Name(vs.Names[0].Name), code, false, 1)
	case *ast.DeferStmt:
		// defer sr.Close(): an effect outside the model
		if recv, m, args, ok := c14MethodCall(x.Call); ok && m == "Close" && len(args) == 0 {
			if id, ok := recv.(*ast.Ident); ok && t.vars[id.Name] == c14kStream {
				return rest(1)
			}
		}
	case *ast.IncDecStmt:
		id, ok := x.X.(*ast.Ident)
		if !ok || t.vars[id.Name] != c14kNat || x.Tok != token.INC {
			break
		}
		return bind(nil, c14Name(id.Name), "(S "+c14Name(id.Name)+")", false, 1)
	case *ast.AssignStmt:
		// chunk, err := sr.Recv()
		if len(x.Lhs) == 2 && len(x.Rhs) == 1 && x.Tok == token.DEFINE {
			if recv, m, args, ok := c14MethodCall(x.Rhs[0]); ok && m == "Recv" && len(args) == 0 {
				sid, ok1 := recv.(*ast.Ident)
				cid, ok2 := x.Lhs[0].(*ast.Ident)
				eid, ok3 := x.Lhs[1].(*ast.Ident)
				if ok1 && ok2 && ok3 && t.vars[sid.Name] == c14kStream {
					t.declare(cid.Name, c14kX)
					t.declare(eid.Name, c14kErr)
					r, err := rest(1)
					if err != nil {
						return "", err
					}
					return "let '(" + c14Name(cid.Name) + ", " + c14Name(eid.Name) + ", " + c14Name(sid.Name) + ") := (r_recv zero " + c14Name(sid.Name) + ") in\n" + ind + r, nil
				}
			}
		}
		// x, err := f(a) ; if err != nil { return _, err }
		if name, _, c, ok := t.errCall(x); ok {
			if len(l) < 2 || !c14IsErrCheck(l[1]) {
				return "", t.errf("%s, err := ... is not followed by `if err != nil { return _, err }`", name)
			}
			pre, code, kd, err := t.call(c)
			if err != nil {
				return "", err
			}
			if old, known := t.vars[name]; known && x.Tok == token.ASSIGN && old != kd {
				return "", t.errf("%s changes kind from %s to %s", name, c14KindName[old], c14KindName[kd])
			}
			t.declare(name, kd)
			return bind(pre, c14Name(name), code, true, 2)
		}
		// _, err := b.WriteString(e) ; if err != nil { return _, err }: strings.Builder.WriteString never fails
		if len(x.Lhs) == 2 && len(x.Rhs) == 1 && c14IsIdent(x.Lhs[0], "_") && c14IsIdent(x.Lhs[1], "err") {
			if recv, m, args, ok := c14MethodCall(x.Rhs[0]); ok && m == "WriteString" && len(args) == 1 && len(l) >= 2 && c14IsErrCheck(l[1]) {
				if rid, ok := recv.(*ast.Ident); ok && t.vars[rid.Name] == c14kStr {
					pre, c, kd, err := t.expr(args[0])
					if err != nil {
						return "", err
					}
					if kd != c14kStr {
						break
					}
					return bind(pre, c14Name(rid.Name), "("+c14Name(rid.Name)+" ++ "+c+")%string", false, 2)
				}
			}
		}
		// a, b, c := e1, e2, e3
		if x.Tok == token.DEFINE && len(x.Lhs) == len(x.Rhs) && len(x.Lhs) > 1 {
			var names, codes []string
			var pres []c14Pre
			var kinds []c14Kind
			for i := range x.Lhs {
				id, ok := x.Lhs[i].(*ast.Ident)
				if !ok {
					return "", t.errf("multiple assignment to something that is not a variable")
				}
				pre, c, kd, err := t.expr(x.Rhs[i])
				if err != nil {
					return "", err
				}
				pres = append(pres, pre...)
				names, codes, kinds = append(names, id.Name), append(codes, c), append(kinds, kd)
			}
			for i, n := range names {
				t.declare(n, kinds[i])
			}
			r, err := rest(1)
			if err != nil {
				return "", err
			}
			out := r
			for i := len(names) - 1; i >= 0; i-- {
				out = "let " + c14Name(names[i]) + " := " + codes[i] + " in\n" + ind + out
			}
			return c14Wrap(pres, out), nil
		}
		if len(x.Lhs) != 1 || len(x.Rhs) != 1 {
			break
		}
		// xs[i] = e  (a slice of chunks / of slices of chunks)
		if ix, ok := x.Lhs[0].(*ast.IndexExpr); ok && x.Tok == token.ASSIGN {
			if sid, ok := ix.X.(*ast.Ident); ok && (t.vars[sid.Name] == c14kXs || t.vars[sid.Name] == c14kXss) {
				pi, ic, ik, err := t.expr(ix.Index)
				if err != nil {
					return "", err
				}
				var pv []c14Pre
				var vc string
				var vk c14Kind
				if c14IsIdent(x.Rhs[0], "nil") && t.vars[sid.Name] == c14kXs {
					vc, vk = "zero", c14kX
				} else {
					pv, vc, vk, err = t.expr(x.Rhs[0])
					if err != nil {
						return "", err
					}
				}
				want := c14kX
				if t.vars[sid.Name] == c14kXss {
					want = c14kXs
				}
				if ik != c14kNat || vk != want {
					break
				}
				return bind(append(pi, pv...), c14Name(sid.Name), "(g_set "+c14Name(sid.Name)+" "+ic+" "+vc+")", true, 1)
			}
		}
		// m[k] = v
		if ix, ok := x.Lhs[0].(*ast.IndexExpr); ok && x.Tok == token.ASSIGN {
			mid, ok := ix.X.(*ast.Ident)
			if !ok || t.vars[mid.Name] != c14kZMap {
				break
			}
			pk, kc, kk, err := t.expr(ix.Index)
			if err != nil {
				return "", err
			}
			pv, vc, vk, err := t.expr(x.Rhs[0])
			if err != nil {
				return "", err
			}
			if kk != c14kZ || vk != c14kNats {
				break
			}
			return bind(append(pk, pv...), c14Name(mid.Name), "(zm_put "+kc+" "+vc+" "+c14Name(mid.Name)+")", false, 1)
		}
		// x.F = e  (fields of a tool call)
		if sel, ok := x.Lhs[0].(*ast.SelectorExpr); ok && x.Tok == token.ASSIGN {
			setter, ok := map[string]string{"ID": "tc_set_id", "Type": "tc_set_type", "Function.Name": "tc_set_name", "Function.Arguments": "tc_set_args"}[c14FieldPath(sel)]
			bid, ok2 := c14FieldBase(sel).(*ast.Ident)
			if !ok || !ok2 || t.vars[bid.Name] != c14kTC {
				break
			}
			pre, c, kd, err := t.expr(x.Rhs[0])
			if err != nil {
				return "", err
			}
			if kd != c14kStr {
				break
			}
			return bind(pre, c14Name(bid.Name), "("+setter+" "+c14Name(bid.Name)+" "+c+")", false, 1)
		}
		id, ok := x.Lhs[0].(*ast.Ident)
		if !ok {
			break
		}
		if x.Tok == token.ADD_ASSIGN {
			pre, c, kd, err := t.expr(x.Rhs[0])
			if err != nil {
				return "", err
			}
			if t.vars[id.Name] != c14kNat || kd != c14kNat {
				break
			}
			return bind(pre, c14Name(id.Name), "("+c14Name(id.Name)+" + "+c+")", false, 1)
		}
		if x.Tok != token.DEFINE && x.Tok != token.ASSIGN {
			break
		}
		pre, c, kd, err := t.expr(x.Rhs[0])
		if err != nil {
			return "", err
		}
		if old, known := t.vars[id.Name]; known && x.Tok == token.ASSIGN {
			c, err = t.coerce(c, kd, old)
			if err != nil {
				return "", err
			}
			kd = old
		} else if x.Tok == token.ASSIGN {
			return "", t.errf("assignment to the unknown variable %s", id.Name)
		}
		t.declare(id.Name, kd)
		// n := X.Len() / len(X): remember what n is the length of
		if recv, m, _, ok := c14MethodCall(x.Rhs[0]); ok && m == "Len" {
			if rid, ok := recv.(*ast.Ident); ok {
				t.lenOf[id.Name] = rid.Name
			}
		}
		// the hoisted operation itself is the binding when the expression is just that operation
		if len(pre) > 0 && pre[len(pre)-1].name == c {
			last := pre[len(pre)-1]
			return bind(pre[:len(pre)-1], c14Name(id.Name), last.code, true, 1)
		}
		return bind(pre, c14Name(id.Name), c, false, 1)
	case *ast.ExprStmt:
		recv, m, args, ok := c14MethodCall(x.X)
		if !ok {
			break
		}
		if m == "Reset" && len(args) == 0 {
			if rid, ok := recv.(*ast.Ident); ok && t.vars[rid.Name] == c14kStr {
				return bind(nil, c14Name(rid.Name), "EmptyString", false, 1)
			}
		}
		if c14IsIdent(recv, "sort") && (m == "SliceStable" || m == "Slice") && len(args) == 2 {
			// the comparator is translated separately (gen_tc_less, on the two Index fields)
			sid, ok := args[0].(*ast.Ident)
			if !ok || t.vars[sid.Name] != c14kTCs {
				break
			}
			fnName := map[string]string{"SliceStable": "r_sort_stable", "Slice": "r_sort_unstable"}[m]
			return bind(nil, c14Name(sid.Name), "("+fnName+" (fun a b => gen_tc_less (tc_idx a) (tc_idx b)) "+c14Name(sid.Name)+")", true, 1)
		}
		if m == "SetMapIndex" && len(args) == 2 {
			rid, ok := recv.(*ast.Ident)
			if !ok {
				break
			}
			pk, kc, kk, err := t.expr(args[0])
			if err != nil {
				return "", err
			}
			pv, vc, vk, err := t.expr(args[1])
			if err != nil {
				return "", err
			}
			if kk != c14kKey {
				break
			}
			pre := append(pk, pv...)
			switch t.vars[rid.Name] {
			case c14kMapAnys:
				vc, err = t.coerce(vc, vk, c14kOptAnys)
				if err != nil {
					return "", err
				}
				return bind(pre, c14Name(rid.Name), "(r_set_anys "+c14Name(rid.Name)+" "+kc+" "+vc+")", false, 1)
			case c14kElem:
				vc, err = t.coerce(vc, vk, c14kOpt)
				if err != nil {
					return "", err
				}
				return bind(pre, c14Name(rid.Name), "(r_set_map "+c14Name(rid.Name)+" "+kc+" "+vc+")", true, 1)
			}
			break
		}
		if m == "Set" && len(args) == 1 {
			// X.Index(i).Set(v)
			r2, m2, a2, ok := c14MethodCall(recv)
			if !ok || m2 != "Index" || len(a2) != 1 {
				break
			}
			rid, ok := r2.(*ast.Ident)
			if !ok || t.vars[rid.Name] != c14kSlice {
				break
			}
			pi, ic, ik, err := t.expr(a2[0])
			if err != nil {
				return "", err
			}
			pv, vc, vk, err := t.expr(args[0])
			if err != nil {
				return "", err
			}
			if ik != c14kNat || vk != c14kElem {
				break
			}
			return bind(append(pi, pv...), c14Name(rid.Name), "(r_set_index "+c14Name(rid.Name)+" "+ic+" "+vc+")", true, 1)
		}
	case *ast.ReturnStmt:
		if len(x.Results) == 1 {
			// return f(val)
			if c, ok := x.Results[0].(*ast.CallExpr); ok {
				pre, code, kd, err := t.call(c)
				if err != nil {
					return "", err
				}
				if kd != t.resKind {
					return "", t.errf("return of a call of kind %s", c14KindName[kd])
				}
				return c14Wrap(pre, "Return "+code), nil
			}
			break
		}
		if len(x.Results) != 2 {
			break
		}
		if t.resKind == c14kX || (t.resKind == c14kXs && t.xType != "") {
			// the value
			var pre []c14Pre
			val := ""
			if c14IsIdent(x.Results[0], "nil") {
				val = "zero"
				if t.resKind == c14kXs {
					val = "(@nil X)"
				}
			} else {
				p0, c, kd, err := t.expr(x.Results[0])
				if err != nil {
					return "", err
				}
				if kd != t.resKind {
					return "", t.errf("return of a value of kind %s", c14KindName[kd])
				}
				pre, val = p0, c
			}
			// the error: nil | the Recv error (possibly wrapped) | another error
			switch e := x.Results[1].(type) {
			case *ast.Ident:
				if e.Name == "nil" {
					return c14Wrap(pre, "Return (Ok "+val+")"), nil
				}
				if t.vars[e.Name] == c14kErr {
					return c14Wrap(pre, "Return (r_ret "+val+" "+c14Name(e.Name)+")"), nil
				}
				if _, isLocal := t.vars[e.Name]; !isLocal {
					return c14Wrap(pre, "Return (Err "+t.errCode+")"), nil // a package-level error value
				}
			case *ast.CallExpr:
				if len(e.Args) == 1 {
					if id, ok := e.Args[0].(*ast.Ident); ok && t.vars[id.Name] == c14kErr {
						return c14Wrap(pre, "Return (r_ret "+val+" "+c14Name(id.Name)+")"), nil // wrapped Recv error
					}
				}
				if es(e.Fun) == "errors.New" || es(e.Fun) == "fmt.Errorf" {
					// a new error, not derived from a Recv error
					derived := false
					for _, a := range e.Args {
						if id, ok := a.(*ast.Ident); ok && t.vars[id.Name] == c14kErr {
							derived = true
						}
					}
					if !derived {
						return c14Wrap(pre, "Return (Err "+t.errCode+")"), nil
					}
				}
			}
			break
		}
		if c14IsIdent(x.Results[1], "nil") {
			pre, c, kd, err := t.expr(x.Results[0])
			if err != nil {
				return "", err
			}
			c, err = t.coerce(c, kd, t.resKind)
			if err != nil {
				return "", err
			}
			return c14Wrap(pre, "Return (Ok "+c+")"), nil
		}
		if c, ok := x.Results[1].(*ast.CallExpr); ok && es(c.Fun) == "fmt.Errorf" && (es(x.Results[0]) == "reflect.Value{}" || es(x.Results[0]) == "nil") {
			return "Return (Err " + t.errCode + ")", nil
		}
	case *ast.BranchStmt:
		if x.Label == nil && len(t.loopV) > 0 {
			v, lk := c14Tuple(t.loopV[len(t.loopV)-1]), t.loopK[len(t.loopK)-1]
			switch {
			case x.Tok == token.CONTINUE && lk == "fold":
				return "Next " + v, nil
			case x.Tok == token.CONTINUE && lk == "loop":
				return "Next (inl " + v + ")", nil
			case x.Tok == token.BREAK && lk == "loop":
				return "Next (inr " + v + ")", nil
			}
		}
	case *ast.IfStmt:
		if x.Init != nil {
			// if v := e; c { ... }  is  v := e; if c { ... }  (v is not used after the statement)
			if as, ok := x.Init.(*ast.AssignStmt); !ok || as.Tok != token.DEFINE {
				break
			}
			plain := *x
			plain.Init = nil
			return t.block(append([]ast.Stmt{x.Init, &plain}, l[1:]...), k, ind)
		}
		// if c { x, err = f(a) } else { x, err = g(b) } ; if err != nil { return _, err }
		if eb, ok := x.Else.(*ast.BlockStmt); ok && len(x.Body.List) == 1 && len(eb.List) == 1 && len(l) >= 2 && c14IsErrCheck(l[1]) {
			n1, tok1, c1, ok1 := t.errCall(x.Body.List[0])
			n2, tok2, c2, ok2 := t.errCall(eb.List[0])
			if ok1 && ok2 && n1 == n2 && tok1 == token.ASSIGN && tok2 == token.ASSIGN {
				pc, cc, ck, err := t.expr(x.Cond)
				if err != nil {
					return "", err
				}
				if ck != c14kBool {
					break
				}
				p1, code1, k1, err := t.call(c1)
				if err != nil {
					return "", err
				}
				p2, code2, k2, err := t.call(c2)
				if err != nil {
					return "", err
				}
				if len(p1)+len(p2) > 0 || k1 != k2 || t.vars[n1] != k1 {
					return "", t.errf("if/else assigning %s from two calls: kinds differ", n1)
				}
				return bind(pc, c14Name(n1), "(if "+cc+" then "+code1+" else "+code2+")", true, 2)
			}
		}
		pc, cc, ck, err := t.expr(x.Cond)
		if err != nil {
			return "", err
		}
		if ck != c14kBool {
			break
		}
		var elseList []ast.Stmt
		switch e := x.Else.(type) {
		case nil:
		case *ast.BlockStmt:
			elseList = e.List
		case *ast.IfStmt:
			elseList = []ast.Stmt{e}
		}
		thenT, elseT := c14Terminates(x.Body.List), x.Else != nil && c14Terminates(elseList)
		saved := t.snapshot()
		if thenT && x.Else == nil {
			// if c { ...return } rest
			th, err := t.block(x.Body.List, "Return Panic", ind+"  ")
			if err != nil {
				return "", err
			}
			t.restore(saved)
			r, err := rest(1)
			if err != nil {
				return "", err
			}
			return c14Wrap(pc, "if "+cc+" then ("+th+")\n"+ind+"else "+r), nil
		}
		if thenT && elseT {
			if len(l) > 1 {
				return "", t.errf("statements after an if/else whose branches both leave")
			}
			th, err := t.block(x.Body.List, "Return Panic", ind+"  ")
			if err != nil {
				return "", err
			}
			t.restore(saved)
			el, err := t.block(elseList, "Return Panic", ind+"  ")
			if err != nil {
				return "", err
			}
			t.restore(saved)
			return c14Wrap(pc, "if "+cc+" then ("+th+")\n"+ind+"else ("+el+")"), nil
		}
		// a branch falls through: it hands on the outer variables the if statement assigns
		if (!thenT && c14HasContinue(x.Body.List)) || (x.Else != nil && !elseT && c14HasContinue(elseList)) {
			return "", t.errf("continue inside a block that can also fall through")
		}
		vs := t.assigned(append(append([]ast.Stmt{}, x.Body.List...), elseList...))
		next := "Next " + c14Tuple(vs)
		th, err := t.block(x.Body.List, next, ind+"  ")
		if err != nil {
			return "", err
		}
		t.restore(saved)
		el := next
		if x.Else != nil {
			el, err = t.block(elseList, next, ind+"  ")
			if err != nil {
				return "", err
			}
			t.restore(saved)
		}
		r, err := rest(1)
		if err != nil {
			return "", err
		}
		return c14Wrap(pc, "cbind (if "+cc+" then ("+th+")\n"+ind+"  else ("+el+")) (fun "+c14Pattern(vs)+" =>\n"+ind+r+")"), nil
	case *ast.ForStmt:
		if x.Init == nil && x.Cond == nil && x.Post == nil {
			// for { ... x, err := S.Recv() ... break ... }: c_loop; the fuel is what the stream can still deliver, plus the EOF
			vs := t.assigned(x.Body.List)
			stream := ""
			for _, v := range vs {
				if t.vars[v] == c14kStream {
					stream = v
				}
			}
			if stream == "" {
				return "", t.errf("for { }: the loop does not read a stream")
			}
			saved := t.snapshot()
			t.loopV = append(t.loopV, vs)
			t.loopK = append(t.loopK, "loop")
			body, err := t.block(x.Body.List, "Next (inl "+c14Tuple(vs)+")", ind+"    ")
			if err != nil {
				return "", err
			}
			t.loopV = t.loopV[:len(t.loopV)-1]
			t.loopK = t.loopK[:len(t.loopK)-1]
			t.restore(saved)
			r, err := rest(1)
			if err != nil {
				return "", err
			}
			return "cbind (c_loop (S (List.length " + c14Name(stream) + ")) (fun " + c14Pattern(vs) + " =>\n" + ind + "    " + body + ")\n" + ind + "  " + c14Tuple(vs) + ") (fun " + c14Pattern(vs) + " =>\n" + ind + r + ")", nil
		}
		// for i := k; i < N; i++
		init, ok := x.Init.(*ast.AssignStmt)
		if !ok || init.Tok != token.DEFINE || len(init.Lhs) != 1 || len(init.Rhs) != 1 {
			break
		}
		iv, ok := init.Lhs[0].(*ast.Ident)
		start, ok2 := init.Rhs[0].(*ast.BasicLit)
		if !ok || !ok2 || start.Kind != token.INT {
			break
		}
		post, ok := x.Post.(*ast.IncDecStmt)
		if !ok || post.Tok != token.INC || !c14IsIdent(post.X, iv.Name) {
			break
		}
		cond, ok := x.Cond.(*ast.BinaryExpr)
		if !ok || cond.Op != token.LSS || !c14IsIdent(cond.X, iv.Name) {
			break
		}
		over := ""
		if id, ok := cond.Y.(*ast.Ident); ok && t.lenOf[id.Name] != "" {
			over = t.lenOf[id.Name]
		} else if recv, m, args, ok := c14MethodCall(cond.Y); ok && m == "Len" && len(args) == 0 {
			if id, ok := recv.(*ast.Ident); ok {
				over = id.Name
			}
		} else if c, ok := cond.Y.(*ast.CallExpr); ok && c14IsIdent(c.Fun, "len") && len(c.Args) == 1 {
			if id, ok := c.Args[0].(*ast.Ident); ok {
				over = id.Name
			}
		}
		var list string
		switch t.vars[over] {
		case c14kSlice:
			list = "(sv_list " + c14Name(over) + ")"
		case c14kAnys:
			list = c14Name(over)
		default:
			if bid, ok := cond.Y.(*ast.Ident); ok && over == "" && t.vars[bid.Name] == c14kNat {
				// the bound is a number: fold over the indexes; indexing inside the body is checked (g_nth)
				vs := t.assigned(x.Body.List)
				saved := t.snapshot()
				t.loopV = append(t.loopV, vs)
				t.loopK = append(t.loopK, "fold")
				t.declare(iv.Name, c14kNat)
				body, err := t.block(x.Body.List, "Next "+c14Tuple(vs), ind+"    ")
				if err != nil {
					return "", err
				}
				t.loopV = t.loopV[:len(t.loopV)-1]
				t.loopK = t.loopK[:len(t.loopK)-1]
				t.restore(saved)
				r, err := rest(1)
				if err != nil {
					return "", err
				}
				return "cbind (cfold (fun " + c14Pattern(vs) + " " + c14Name(iv.Name) + " =>\n" + ind + "    " + body + ")\n" + ind + "  (seq " + start.Value + " (" + c14Name(bid.Name) + " - " + start.Value + ")) " + c14Tuple(vs) + ") (fun " + c14Pattern(vs) + " =>\n" + ind + r + ")", nil
			}
			return "", t.errf("for %s: the bound %s is not the length of a translated slice", iv.Name, types.ExprString(cond.Y))
		}
		vs := t.assigned(x.Body.List)
		for _, v := range vs {
			if v == over {
				return "", t.errf("for %s: the loop assigns the slice %s it runs over", iv.Name, over)
			}
		}
		saved := t.snapshot()
		elem := c14Name(over) + "_" + c14Name(iv.Name)
		t.loops = append(t.loops, c14Loop{iv.Name, over, elem})
		t.loopV = append(t.loopV, vs)
		t.loopK = append(t.loopK, "fold")
		t.declare(iv.Name, c14kNat)
		body, err := t.block(x.Body.List, "Next "+c14Tuple(vs), ind+"    ")
		if err != nil {
			return "", err
		}
		t.loops = t.loops[:len(t.loops)-1]
		t.loopV = t.loopV[:len(t.loopV)-1]
		t.loopK = t.loopK[:len(t.loopK)-1]
		t.restore(saved)
		r, err := rest(1)
		if err != nil {
			return "", err
		}
		return "cbind (cfold (fun " + c14Pattern(vs) + " '(" + c14Name(iv.Name) + ", " + elem + ") =>\n" + ind + "    " + body + ")\n" + ind + "  (skipn " + start.Value + " (enumerate " + list + ")) " + c14Tuple(vs) + ") (fun " + c14Pattern(vs) + " =>\n" + ind + r + ")", nil
	case *ast.RangeStmt:
		if x.Tok == token.DEFINE && x.Value == nil {
			// for i := range X  (X a []ToolCall): the elements with their index
			iv, ok1 := x.Key.(*ast.Ident)
			over, ok2 := x.X.(*ast.Ident)
			if !ok1 || !ok2 || t.vars[over.Name] != c14kTCs {
				break
			}
			vs := t.assigned(x.Body.List)
			for _, v := range vs {
				if v == over.Name {
					return "", t.errf("for %s: the loop assigns the slice %s it runs over", iv.Name, over.Name)
				}
			}
			saved := t.snapshot()
			elem := c14Name(over.Name) + "_" + c14Name(iv.Name)
			t.loops = append(t.loops, c14Loop{iv.Name, over.Name, elem})
			t.loopV = append(t.loopV, vs)
			t.loopK = append(t.loopK, "fold")
			t.declare(iv.Name, c14kNat)
			body, err := t.block(x.Body.List, "Next "+c14Tuple(vs), ind+"    ")
			if err != nil {
				return "", err
			}
			t.loops = t.loops[:len(t.loops)-1]
			t.loopV = t.loopV[:len(t.loopV)-1]
			t.loopK = t.loopK[:len(t.loopK)-1]
			t.restore(saved)
			r, err := rest(1)
			if err != nil {
				return "", err
			}
			return "cbind (cfold (fun " + c14Pattern(vs) + " '(" + c14Name(iv.Name) + ", " + elem + ") =>\n" + ind + "    " + body + ")\n" + ind + "  (enumerate " + c14Name(over.Name) + ") " + c14Tuple(vs) + ") (fun " + c14Pattern(vs) + " =>\n" + ind + r + ")", nil
		}
		if x.Tok == token.DEFINE && !c14IsIdent(x.Key, "_") && x.Value != nil {
			if over, ok := x.X.(*ast.Ident); ok && t.vars[over.Name] == c14kXss {
				// for i, xs := range xss: the elements with their index
				iv, ok1 := x.Key.(*ast.Ident)
				ev, ok2 := x.Value.(*ast.Ident)
				if !ok1 || !ok2 {
					break
				}
				vs := t.assigned(x.Body.List)
				for _, v := range vs {
					if v == over.Name {
						return "", t.errf("for %s: the loop assigns the slice %s it runs over", iv.Name, over.Name)
					}
				}
				saved := t.snapshot()
				t.loopV = append(t.loopV, vs)
				t.loopK = append(t.loopK, "fold")
				t.declare(iv.Name, c14kNat)
				t.declare(ev.Name, c14kXs)
				body, err := t.block(x.Body.List, "Next "+c14Tuple(vs), ind+"    ")
				if err != nil {
					return "", err
				}
				t.loopV = t.loopV[:len(t.loopV)-1]
				t.loopK = t.loopK[:len(t.loopK)-1]
				t.restore(saved)
				r, err := rest(1)
				if err != nil {
					return "", err
				}
				return "cbind (cfold (fun " + c14Pattern(vs) + " '(" + c14Name(iv.Name) + ", " + c14Name(ev.Name) + ") =>\n" + ind + "    " + body + ")\n" + ind + "  (enumerate " + c14Name(over.Name) + ") " + c14Tuple(vs) + ") (fun " + c14Pattern(vs) + " =>\n" + ind + r + ")", nil
			}
			// for k, v := range m  (m a map[int][]int): Go's order is arbitrary: the parameter [ord]
			kv, ok1 := x.Key.(*ast.Ident)
			vv, ok2 := x.Value.(*ast.Ident)
			over, ok3 := x.X.(*ast.Ident)
			if !ok1 || !ok2 || !ok3 || t.vars[over.Name] != c14kZMap {
				break
			}
			vs := t.assigned(x.Body.List)
			saved := t.snapshot()
			t.loopV = append(t.loopV, vs)
			t.loopK = append(t.loopK, "fold")
			t.declare(kv.Name, c14kZ)
			t.declare(vv.Name, c14kNats)
			body, err := t.block(x.Body.List, "Next "+c14Tuple(vs), ind+"    ")
			if err != nil {
				return "", err
			}
			t.loopV = t.loopV[:len(t.loopV)-1]
			t.loopK = t.loopK[:len(t.loopK)-1]
			t.restore(saved)
			r, err := rest(1)
			if err != nil {
				return "", err
			}
			return "cbind (cfold (fun " + c14Pattern(vs) + " '(" + c14Name(kv.Name) + ", " + c14Name(vv.Name) + ") =>\n" + ind + "    " + body + ")\n" + ind + "  (ord " + c14Name(over.Name) + ") " + c14Tuple(vs) + ") (fun " + c14Pattern(vs) + " =>\n" + ind + r + ")", nil
		}
		if x.Tok != token.DEFINE || !c14IsIdent(x.Key, "_") {
			break
		}
		ev, ok := x.Value.(*ast.Ident)
		if !ok {
			break
		}
		pre, lc, lk, err := t.expr(x.X)
		if err != nil {
			return "", err
		}
		var ek c14Kind
		switch lk {
		case c14kAnys:
			ek = c14kElem
		case c14kKeys:
			ek = c14kKey
		case c14kNats:
			ek = c14kNat
		case c14kXss:
			ek = c14kXs
		default:
			return "", t.errf("range over a value of kind %s", c14KindName[lk])
		}
		vs := t.assigned(x.Body.List)
		saved := t.snapshot()
		t.loopV = append(t.loopV, vs)
		t.loopK = append(t.loopK, "fold")
		t.declare(ev.Name, ek)
		body, err := t.block(x.Body.List, "Next "+c14Tuple(vs), ind+"    ")
		if err != nil {
			return "", err
		}
		t.loopV = t.loopV[:len(t.loopV)-1]
		t.loopK = t.loopK[:len(t.loopK)-1]
		t.restore(saved)
		r, err := rest(1)
		if err != nil {
			return "", err
		}
		return c14Wrap(pre, "cbind (cfold (fun "+c14Pattern(vs)+" "+c14Name(ev.Name)+" =>\n"+ind+"    "+body+")\n"+ind+"  "+lc+" "+c14Tuple(vs)+") (fun "+c14Pattern(vs)+" =>\n"+ind+r+")"), nil
	}
	return "", t.errf("statement outside the translated fragment: %s", c14StmtString(l[0]))
}

func c14StmtString(s ast.Stmt) string {
	switch x := s.(type) {
	case *ast.ExprStmt:
		return types.ExprString(x.X)
	case *ast.AssignStmt:
		var l []string
		for _, e := range x.Lhs {
			l = append(l, types.ExprString(e))
		}
		return strings.Join(l, ", ") + " " + x.Tok.String() + " ..."
	}
	return fmt.Sprintf("%T", s)
}

type c14Snap struct {
	vars  map[string]c14Kind
	order []string
	lenOf map[string]string
}

func (t *c14Tr) snapshot() c14Snap {
	s := c14Snap{vars: map[string]c14Kind{}, lenOf: map[string]string{}, order: append([]string{}, t.order...)}
	for k, v := range t.vars {
		s.vars[k] = v
	}
	for k, v := range t.lenOf {
		s.lenOf[k] = v
	}
	return s
}

func (t *c14Tr) restore(s c14Snap) {
	t.vars, t.lenOf, t.order = map[string]c14Kind{}, map[string]string{}, append([]string{}, s.order...)
	for k, v := range s.vars {
		t.vars[k] = v
	}
	for k, v := range s.lenOf {
		t.lenOf[k] = v
	}
}

type c14Spec struct {
	name      string
	paramType string // printed Go type of the single parameter
	paramKind c14Kind
	resKind   c14Kind
	errCode   string
	self      bool   // the function may call itself: the recursive call is the first argument [self]
	extra     string // extra Gallina parameter (a function the translated one calls), "" if none
	extraFn   string // Go name of that function
}

func c14Function(f *ast.File, sp c14Spec, funcs map[string]c14Fn) (string, error) {
	fn := topFunc(f, sp.name)
	if fn == nil || fn.Body == nil {
		return "", fmt.Errorf("func %s not found", sp.name)
	}
	if fn.Type.Params == nil || len(fn.Type.Params.List) != 1 || len(fn.Type.Params.List[0].Names) != 1 || es(fn.Type.Params.List[0].Type) != sp.paramType {
		return "", fmt.Errorf("%s: not a function of one parameter of type %s", sp.name, sp.paramType)
	}
	if fn.Type.Results == nil || len(fn.Type.Results.List) != 2 || es(fn.Type.Results.List[0].Type) != "reflect.Value" || es(fn.Type.Results.List[1].Type) != "error" {
		return "", fmt.Errorf("%s: result is not (reflect.Value, error)", sp.name)
	}
	p := fn.Type.Params.List[0].Names[0].Name
	t := &c14Tr{fname: sp.name, vars: map[string]c14Kind{}, lenOf: map[string]string{}, resKind: sp.resKind, errCode: sp.errCode, funcs: map[string]c14Fn{}}
	for k, v := range funcs {
		t.funcs[k] = v
	}
	if sp.self {
		t.funcs[sp.name] = c14Fn{"self", sp.paramKind, sp.resKind}
	}
	t.declare(p, sp.paramKind)
	body, err := t.block(fn.Body.List, "Return Panic", "    ")
	if err != nil {
		return "", err
	}
	var b strings.Builder
	fmt.Fprintf(&b, "Definition gen_%s ", sp.name)
	if sp.self {
		b.WriteString("(self : sval -> res (option cval)) ")
	}
	if sp.extra != "" {
		b.WriteString("(" + sp.extra + " : sval -> res (option cval)) ")
	}
	pty := map[c14Kind]string{c14kSlice: "sval", c14kAnys: "list cval"}[sp.paramKind]
	rty := map[c14Kind]string{c14kSlice: "sval", c14kOpt: "option cval"}[sp.resKind]
	fmt.Fprintf(&b, "(%s : %s) : res (%s) :=\n  crun (S := unit) (\n    %s).\n", c14Name(p), pty, rty, body)
	return b.String(), nil
}

// ---------------------------------------------------------------- the stream entry points

// concatStreamReader[T] / ConcatMessageStream: func(sr *StreamReader[T]) (T, error) — the drain loop
// (for { chunk, err := sr.Recv() ... }), the empty / single-chunk cases and the call of the
// concatenation function [callee] (a Section variable concat_items of the generated code).
func c14StreamEntry(f *ast.File, name, xType, errCode, callee string) (string, error) {
	fn := topFunc(f, name)
	if fn == nil || fn.Body == nil {
		return "", fmt.Errorf("func %s not found", name)
	}
	if fn.Type.Params == nil || len(fn.Type.Params.List) != 1 || len(fn.Type.Params.List[0].Names) != 1 {
		return "", fmt.Errorf("%s: not a function of one parameter", name)
	}
	pt := es(fn.Type.Params.List[0].Type)
	if pt != "*schema.StreamReader["+xType+"]" && pt != "*StreamReader["+xType+"]" {
		return "", fmt.Errorf("%s: parameter of type %s", name, pt)
	}
	if fn.Type.Results == nil || len(fn.Type.Results.List) != 2 || es(fn.Type.Results.List[0].Type) != xType || es(fn.Type.Results.List[1].Type) != "error" {
		return "", fmt.Errorf("%s: result is not (%s, error)", name, xType)
	}
	p := fn.Type.Params.List[0].Names[0].Name
	t := &c14Tr{fname: name, vars: map[string]c14Kind{}, lenOf: map[string]string{}, resKind: c14kX, errCode: errCode, xType: xType,
		funcs: map[string]c14Fn{callee: {"concat_items", c14kXs, c14kX}}}
	t.declare(p, c14kStream)
	body, err := t.block(fn.Body.List, "Return Panic", "    ")
	if err != nil {
		return "", err
	}
	return fmt.Sprintf("Definition gen_%s (%s : list (sitem X)) : res X :=\n  crun (S := unit) (\n    %s).\n", name, c14Name(p), body), nil
}

// ---------------------------------------------------------------- concatMessageArray

func c14MessageArray(g *ast.File) (string, error) {
	name := "concatMessageArray"
	fn := topFunc(g, name)
	if fn == nil || fn.Body == nil {
		return "", fmt.Errorf("func %s not found", name)
	}
	if fn.Type.Params == nil || len(fn.Type.Params.List) != 1 || len(fn.Type.Params.List[0].Names) != 1 || es(fn.Type.Params.List[0].Type) != "[][]*Message" {
		return "", fmt.Errorf("%s: not a function of one [][]*Message parameter", name)
	}
	if fn.Type.Results == nil || len(fn.Type.Results.List) != 2 || es(fn.Type.Results.List[0].Type) != "[]*Message" || es(fn.Type.Results.List[1].Type) != "error" {
		return "", fmt.Errorf("%s: result is not ([]*Message, error)", name)
	}
	p := fn.Type.Params.List[0].Names[0].Name
	t := &c14Tr{fname: name, vars: map[string]c14Kind{}, lenOf: map[string]string{}, resKind: c14kXs, errCode: "E_LEN", xType: "*Message",
		funcs: map[string]c14Fn{"ConcatMessages": {"concat_items", c14kXs, c14kX}}}
	t.declare(p, c14kXss)
	body, err := t.block(fn.Body.List, "Return Panic", "    ")
	if err != nil {
		return "", err
	}
	return fmt.Sprintf("Definition gen_%s (%s : list (list X)) : res (list X) :=\n  crun (S := unit) (\n    %s).\n", name, c14Name(p), body), nil
}

// ---------------------------------------------------------------- concatToolCalls: sort + comparator

func c14ToolCallSort(g *ast.File) (string, error) {
	fn := topFunc(g, "concatToolCalls")
	if fn == nil || fn.Body == nil {
		return "", fmt.Errorf("func concatToolCalls not found")
	}
	var call *ast.CallExpr
	n := 0
	ast.Inspect(fn.Body, func(nd ast.Node) bool {
		if c, ok := nd.(*ast.CallExpr); ok {
			if s := es(c.Fun); strings.HasPrefix(s, "sort.") || strings.HasPrefix(s, "slices.Sort") {
				call = c
				n++
			}
		}
		return true
	})
	if n != 1 {
		return "", fmt.Errorf("concatToolCalls: %d sort calls", n)
	}
	stable := ""
	switch es(call.Fun) {
	case "sort.SliceStable":
		stable = "true"
	case "sort.Slice":
		stable = "false"
	default:
		return "", fmt.Errorf("concatToolCalls: sorts with %s", es(call.Fun))
	}
	if len(call.Args) != 2 || !c14IsIdent(call.Args[0], "merged") {
		return "", fmt.Errorf("concatToolCalls: the sort call does not sort merged")
	}
	less, ok := call.Args[1].(*ast.FuncLit)
	if !ok || less.Type.Params == nil {
		return "", fmt.Errorf("concatToolCalls: comparator is not a function literal")
	}
	var ps []string
	for _, fl := range less.Type.Params.List {
		for _, nm := range fl.Names {
			ps = append(ps, nm.Name)
		}
	}
	if len(ps) != 2 || len(less.Body.List) < 2 {
		return "", fmt.Errorf("concatToolCalls: comparator shape")
	}
	// iVal, jVal := merged[i].Index, merged[j].Index
	as, ok := less.Body.List[0].(*ast.AssignStmt)
	if !ok || as.Tok != token.DEFINE || len(as.Lhs) != 2 || len(as.Rhs) != 2 {
		return "", fmt.Errorf("concatToolCalls: comparator does not start with the two Index fields")
	}
	names := map[string]string{}
	for k := 0; k < 2; k++ {
		id, ok := as.Lhs[k].(*ast.Ident)
		if !ok || es(as.Rhs[k]) != "merged["+ps[k]+"].Index" {
			return "", fmt.Errorf("concatToolCalls: comparator reads %s", es(as.Rhs[k]))
		}
		names[id.Name] = []string{"a", "b"}[k]
	}
	var cond func(e ast.Expr) (string, error)
	cond = func(e ast.Expr) (string, error) {
		switch x := e.(type) {
		case *ast.ParenExpr:
			return cond(x.X)
		case *ast.Ident:
			if x.Name == "true" || x.Name == "false" {
				return x.Name, nil
			}
		case *ast.UnaryExpr:
			if x.Op == token.NOT {
				s, err := cond(x.X)
				return "(negb " + s + ")", err
			}
		case *ast.BinaryExpr:
			switch x.Op {
			case token.LAND, token.LOR:
				l, err := cond(x.X)
				if err != nil {
					return "", err
				}
				r, err := cond(x.Y)
				if err != nil {
					return "", err
				}
				op := "&&"
				if x.Op == token.LOR {
					op = "||"
				}
				return "(" + l + " " + op + " " + r + ")", nil
			case token.EQL, token.NEQ:
				if id, ok := x.X.(*ast.Ident); ok && names[id.Name] != "" && c14IsIdent(x.Y, "nil") {
					if x.Op == token.EQL {
						return "(negb (is_some " + names[id.Name] + "))", nil
					}
					return "(is_some " + names[id.Name] + ")", nil
				}
			}
		}
		return "", fmt.Errorf("concatToolCalls: comparator expression %s outside the translated fragment", types.ExprString(e))
	}
	// the returned expression: a condition on nil-ness, or *iVal < *jVal (a nil dereference panics: None)
	retExpr := func(e ast.Expr) (string, error) {
		if x, ok := e.(*ast.BinaryExpr); ok {
			dx, okx := x.X.(*ast.StarExpr)
			dy, oky := x.Y.(*ast.StarExpr)
			if okx && oky {
				ix, ok1 := dx.X.(*ast.Ident)
				iy, ok2 := dy.X.(*ast.Ident)
				op := map[token.Token]string{token.LSS: "Z.ltb", token.GTR: "Z.gtb", token.LEQ: "Z.leb", token.GEQ: "Z.geb", token.EQL: "Z.eqb"}[x.Op]
				if ok1 && ok2 && names[ix.Name] != "" && names[iy.Name] != "" && op != "" {
					return "(oz_cmp " + op + " " + names[ix.Name] + " " + names[iy.Name] + ")", nil
				}
			}
		}
		c, err := cond(e)
		if err != nil {
			return "", err
		}
		return "(Some " + c + ")", nil
	}
	var stmts func(l []ast.Stmt) (string, error)
	stmts = func(l []ast.Stmt) (string, error) {
		if len(l) == 0 {
			return "", fmt.Errorf("concatToolCalls: comparator falls off its end")
		}
		switch x := l[0].(type) {
		case *ast.ReturnStmt:
			if len(x.Results) != 1 {
				break
			}
			return retExpr(x.Results[0])
		case *ast.IfStmt:
			if x.Init != nil {
				break
			}
			c, err := cond(x.Cond)
			if err != nil {
				return "", err
			}
			th, err := stmts(x.Body.List)
			if err != nil {
				return "", err
			}
			var el string
			switch e := x.Else.(type) {
			case nil:
				el, err = stmts(l[1:])
			case *ast.BlockStmt:
				el, err = stmts(append(append([]ast.Stmt{}, e.List...), l[1:]...))
			case *ast.IfStmt:
				el, err = stmts(append([]ast.Stmt{e}, l[1:]...))
			}
			if err != nil {
				return "", err
			}
			return "if " + c + " then " + th + "\n  else " + el, nil
		}
		return "", fmt.Errorf("concatToolCalls: comparator statement outside the translated fragment")
	}
	body, err := stmts(less.Body.List[1:])
	if err != nil {
		return "", err
	}
	return "Definition gen_tc_less (a b : option Z) : option bool :=\n  " + body + ".\n\nDefinition gen_tc_sort_stable : bool := " + stable + ".\n", nil
}

// ---------------------------------------------------------------- concatToolCalls, statement by statement

func c14ToolCalls(g *ast.File) (string, error) {
	name := "concatToolCalls"
	fn := topFunc(g, name)
	if fn == nil || fn.Body == nil {
		return "", fmt.Errorf("func %s not found", name)
	}
	if fn.Type.Params == nil || len(fn.Type.Params.List) != 1 || len(fn.Type.Params.List[0].Names) != 1 || es(fn.Type.Params.List[0].Type) != "[]ToolCall" {
		return "", fmt.Errorf("%s: not a function of one []ToolCall parameter", name)
	}
	if fn.Type.Results == nil || len(fn.Type.Results.List) != 2 || es(fn.Type.Results.List[0].Type) != "[]ToolCall" || es(fn.Type.Results.List[1].Type) != "error" {
		return "", fmt.Errorf("%s: result is not ([]ToolCall, error)", name)
	}
	p := fn.Type.Params.List[0].Names[0].Name
	t := &c14Tr{fname: name, vars: map[string]c14Kind{}, lenOf: map[string]string{}, resKind: c14kTCs, errCode: "E_CONFLICT", funcs: map[string]c14Fn{}}
	t.declare(p, c14kTCs)
	body, err := t.block(fn.Body.List, "Return Panic", "    ")
	if err != nil {
		return "", err
	}
	return fmt.Sprintf("Definition gen_%s (%s : list toolcall) : res (list toolcall) :=\n  crun (S := unit) (\n    %s).\n", name, c14Name(p), body), nil
}

// ---------------------------------------------------------------- ConcatItems: the dispatch, as a table

// ConcatItems[T] is generic in the static chunk type, which the value domain of the model does not
// carry; it is tied as a table of its top-level statements: (what is tested / bound, what happens),
// in source order.  An if / else-if chain gives one row per branch.
func c14ItemsShape(f *ast.File) (string, error) {
	fn := topFunc(f, "ConcatItems")
	if fn == nil || fn.Body == nil {
		return "", fmt.Errorf("func ConcatItems not found")
	}
	// the names of the locals do not matter: parameters become $p1.., locals $1.. in the order of their declaration
	ren := map[string]string{}
	if fn.Type.Params != nil {
		for _, fl := range fn.Type.Params.List {
			for _, n := range fl.Names {
				ren[n.Name] = fmt.Sprintf("$p%d", len(ren)+1)
			}
		}
	}
	np := len(ren)
	declare := func(id *ast.Ident) {
		if _, ok := ren[id.Name]; !ok && id.Name != "_" {
			ren[id.Name] = fmt.Sprintf("$%d", len(ren)-np+1)
		}
	}
	ast.Inspect(fn.Body, func(n ast.Node) bool {
		switch x := n.(type) {
		case *ast.AssignStmt:
			if x.Tok == token.DEFINE {
				for _, l := range x.Lhs {
					if id, ok := l.(*ast.Ident); ok {
						declare(id)
					}
				}
			}
		case *ast.ValueSpec:
			for _, id := range x.Names {
				declare(id)
			}
		}
		return true
	})
	notVar := map[*ast.Ident]bool{}
	ast.Inspect(fn.Body, func(n ast.Node) bool {
		switch x := n.(type) {
		case *ast.SelectorExpr:
			notVar[x.Sel] = true
		case *ast.KeyValueExpr:
			if id, ok := x.Key.(*ast.Ident); ok {
				notVar[id] = true
			}
		}
		return true
	})
	ast.Inspect(fn.Body, func(n ast.Node) bool {
		if id, ok := n.(*ast.Ident); ok && !notVar[id] {
			if r, ok := ren[id.Name]; ok {
				id.Name = r
			}
		}
		return true
	})
	var rows [][2]string
	var summarise func(l []ast.Stmt) (string, error)
	summarise = func(l []ast.Stmt) (string, error) {
		var parts []string
		for _, s := range l {
			switch x := s.(type) {
			case *ast.AssignStmt:
				var lh, rh []string
				for _, e := range x.Lhs {
					lh = append(lh, es(e))
				}
				for _, e := range x.Rhs {
					rh = append(rh, es(e))
				}
				parts = append(parts, strings.Join(lh, ",")+x.Tok.String()+strings.Join(rh, ","))
			case *ast.DeclStmt:
				gd, ok := x.Decl.(*ast.GenDecl)
				if !ok || gd.Tok != token.VAR || len(gd.Specs) != 1 {
					return "", fmt.Errorf("ConcatItems: declaration outside the translated fragment")
				}
				vs := gd.Specs[0].(*ast.ValueSpec)
				if len(vs.Values) != 0 || vs.Type == nil || len(vs.Names) != 1 {
					return "", fmt.Errorf("ConcatItems: declaration outside the translated fragment")
				}
				parts = append(parts, "var "+vs.Names[0].Name+" "+es(vs.Type))
			case *ast.ReturnStmt:
				var rs []string
				for _, e := range x.Results {
					rs = append(rs, es(e))
				}
				parts = append(parts, "return "+strings.Join(rs, ","))
			default:
				return "", fmt.Errorf("ConcatItems: statement %T outside the translated fragment", s)
			}
		}
		return strings.Join(parts, "; "), nil
	}
	for _, s := range fn.Body.List {
		if sw, ok := s.(*ast.SwitchStmt); ok {
			// switch { case A: ..; case B: ..; default: .. } is the chain if A {..} else if B {..} else {..}
			if sw.Init != nil || sw.Tag != nil {
				return "", fmt.Errorf("ConcatItems: switch with an init statement or a tag")
			}
			for i, cc := range sw.Body.List {
				cl := cc.(*ast.CaseClause)
				b, err := summarise(cl.Body)
				if err != nil {
					return "", err
				}
				switch {
				case len(cl.List) == 1:
					rows = append(rows, [2]string{"if " + es(cl.List[0]), b})
				case cl.List == nil && i == len(sw.Body.List)-1:
					rows = append(rows, [2]string{"else", b})
				default:
					return "", fmt.Errorf("ConcatItems: switch clause outside the translated fragment")
				}
			}
			continue
		}
		if is, ok := s.(*ast.IfStmt); ok {
			for cur := is; cur != nil; {
				if cur.Init != nil {
					return "", fmt.Errorf("ConcatItems: if with an init statement")
				}
				b, err := summarise(cur.Body.List)
				if err != nil {
					return "", err
				}
				rows = append(rows, [2]string{"if " + es(cur.Cond), b})
				switch e := cur.Else.(type) {
				case nil:
					cur = nil
				case *ast.IfStmt:
					cur = e
				case *ast.BlockStmt:
					b, err := summarise(e.List)
					if err != nil {
						return "", err
					}
					rows = append(rows, [2]string{"else", b})
					cur = nil
				}
			}
			continue
		}
		b, err := summarise([]ast.Stmt{s})
		if err != nil {
			return "", err
		}
		rows = append(rows, [2]string{"", b})
	}
	var b strings.Builder
	b.WriteString("Definition gen_concat_items_shape : list (string * string) :=\n  [ ")
	for i, r := range rows {
		if i > 0 {
			b.WriteString(";\n    ")
		}
		fmt.Fprintf(&b, "(%s, %s)", coqStr(r[0]), coqStr(r[1]))
	}
	b.WriteString(" ].\n")
	return b.String(), nil
}

func c14ExtractConcatCode(repo string) (string, string, error) {
	fset := token.NewFileSet()
	f, err := parseGo(fset, repo, "internal", "concat.go")
	if err != nil {
		return "", "", err
	}
	c14InlineHelpers(f, map[string]bool{"toSliceValue": true, "concatSliceValue": true, "concatMaps": true, "concatInterfaces": true, "ConcatItems": true})
	specs := []c14Spec{
		{name: "toSliceValue", paramType: "[]any", paramKind: c14kAnys, resKind: c14kSlice, errCode: "E_TYPE"},
		{name: "concatSliceValue", paramType: "reflect.Value", paramKind: c14kSlice, resKind: c14kOpt, errCode: "E_MULTI"},
		{name: "concatMaps", paramType: "reflect.Value", paramKind: c14kSlice, resKind: c14kOpt, errCode: "E_TYPE", self: true},
		{name: "concatInterfaces", paramType: "reflect.Value", paramKind: c14kSlice, resKind: c14kOpt, errCode: "E_TYPE", extra: "concat_maps", extraFn: "concatMaps"},
	}
	funcs := map[string]c14Fn{}
	var defs []string
	for _, sp := range specs {
		fs := map[string]c14Fn{}
		for k, v := range funcs {
			fs[k] = v
		}
		if sp.extra != "" {
			fs[sp.extraFn] = c14Fn{sp.extra, c14kSlice, c14kOpt}
		}
		d, err := c14Function(f, sp, fs)
		if err != nil {
			return "", "", err
		}
		defs = append(defs, d)
		if !sp.self {
			funcs[sp.name] = c14Fn{"gen_" + sp.name, sp.paramKind, sp.resKind}
		}
	}
	shape, err := c14ItemsShape(f)
	if err != nil {
		return "", "", err
	}
	var b strings.Builder
	b.WriteString("(* Gen/ConcatCode.v — GENERATED by tools/go2v (extractor \"concatcode\") from internal/concat.go\n")
	b.WriteString("   (toSliceValue, concatSliceValue, concatMaps, concatInterfaces, translated statement by statement; ConcatItems\n")
	b.WriteString("   as a table of its statements). Do not edit. *)\n")
	b.WriteString("From Eino Require Import Base.Util Model.ConcatTable Model.Concat Model.ConcatMsg Model.ConcatStream Model.ConcatGenLib.\n\n")
	b.WriteString("Definition tie_available : bool := true.\n\nSection Gen.\nContext {U : UserFn}.\n\n")
	b.WriteString(strings.Join(defs, "\n"))
	b.WriteString("\nEnd Gen.\n\n")
	b.WriteString(shape)
	_ = sort.Strings
	return "ConcatCode.v", b.String(), nil
}

// extractor "concatstream": compose/stream_concat.go concatStreamReader, schema/message.go ConcatMessageStream
func c14ExtractConcatStream(repo string) (string, string, error) {
	fset := token.NewFileSet()
	g, err := parseGo(fset, repo, "schema", "message.go")
	if err != nil {
		return "", "", err
	}
	h, err := parseGo(fset, repo, "compose", "stream_concat.go")
	if err != nil {
		return "", "", err
	}
	c14InlineHelpers(h, map[string]bool{"concatStreamReader": true})
	c14InlineHelpers(g, map[string]bool{"ConcatMessageStream": true, "concatMessageArray": true, "concatToolCalls": true, "ConcatMessages": true})
	se1, err := c14StreamEntry(h, "concatStreamReader", "T", "E_EMPTY", "internal.ConcatItems")
	if err != nil {
		return "", "", err
	}
	se2, err := c14StreamEntry(g, "ConcatMessageStream", "*Message", "E_EMPTY", "ConcatMessages")
	if err != nil {
		return "", "", err
	}
	arr, err := c14MessageArray(g)
	if err != nil {
		return "", "", err
	}
	var b strings.Builder
	b.WriteString("(* Gen/ConcatStreamCode.v — GENERATED by tools/go2v (extractor \"concatstream\") from compose/stream_concat.go\n")
	b.WriteString("   (concatStreamReader) and schema/message.go (ConcatMessageStream, concatMessageArray), translated statement by statement. Do not edit. *)\n")
	b.WriteString("From Eino Require Import Base.Util Model.ConcatTable Model.Concat Model.ConcatMsg Model.ConcatStream Model.ConcatGenLib.\n\n")
	b.WriteString("Definition tie_available : bool := true.\n")
	b.WriteString("\nSection Stream.\nVariable X : Type.\nVariable zero : X.\nVariable concat_items : list X -> res X.\n\n")
	b.WriteString(se1)
	b.WriteString("\n")
	b.WriteString(se2)
	b.WriteString("\n(* nil test of a chunk (a *Message) *)\nVariable is_nil_x : X -> bool.\n\n")
	b.WriteString(arr)
	b.WriteString("\nEnd Stream.\n")
	return "ConcatStreamCode.v", b.String(), nil
}

// extractor "concattoolcalls": schema/message.go concatToolCalls (the function, its comparator, its sort call)
func c14ExtractConcatToolCalls(repo string) (string, string, error) {
	fset := token.NewFileSet()
	g, err := parseGo(fset, repo, "schema", "message.go")
	if err != nil {
		return "", "", err
	}
	c14InlineHelpers(g, map[string]bool{"ConcatMessageStream": true, "concatMessageArray": true, "concatToolCalls": true, "ConcatMessages": true})
	tc, err := c14ToolCallSort(g)
	if err != nil {
		return "", "", err
	}
	tcs, err := c14ToolCalls(g)
	if err != nil {
		return "", "", err
	}
	var b strings.Builder
	b.WriteString("(* Gen/ConcatToolCallCode.v — GENERATED by tools/go2v (extractor \"concattoolcalls\") from schema/message.go\n")
	b.WriteString("   (concatToolCalls translated statement by statement, its comparator, its sort call). Do not edit. *)\n")
	b.WriteString("From Eino Require Import Base.Util Model.ConcatTable Model.Concat Model.ConcatMsg Model.ConcatStream Model.ConcatGenLib.\n\n")
	b.WriteString("Definition tie_available : bool := true.\n\n")
	b.WriteString(tc)
	b.WriteString("\nSection ToolCalls.\n(* the order in which Go visits the index map *)\nVariable ord : list (Z * list nat) -> list (Z * list nat).\n\n")
	b.WriteString(tcs)
	b.WriteString("\nEnd ToolCalls.\n")
	return "ConcatToolCallCode.v", b.String(), nil
}
