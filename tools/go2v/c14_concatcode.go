package main

// Extractor "concatcode" (property C14): internal/concat.go, the functions toSliceValue,
// concatSliceValue, concatMaps and concatInterfaces, translated statement by statement into
// Gallina over the vocabulary of Model/ConcatGenLib.v; and schema/message.go, the comparator and
// the sort function concatToolCalls orders the merged calls with.
//
// The translator is a small compiler for the imperative fragment these functions are written in.
// Every Go local is a Gallina variable of a *kind* (what the reflect.Value / Go value holds):
//   slice   reflect.Value of a slice          (cty * list cval)      anys    []any                 list cval
//   elem    valid Value / any of an element   cval                   opt     Value, maybe invalid  option cval
//   optanys Value of a []any, maybe invalid   option (list cval)     mapanys Value map key->[]any  list (string * list cval)
//   keys    []reflect.Value of map keys       list string            key     one map key           string
//   ty      reflect.Type                      cty                    optty   Type, maybe nil       option cty
//   kind    reflect.Kind      nat   int       bool                   func    result of GetConcatFunc
// A statement list is translated into a term of type [ctl S R] (ConcatGenLib): it falls through
// with the tuple of the outer variables it assigned, or returns.  Recognised statements:
//   x := e   var x T   x = e   x++   x += n
//   x, err := f(a) ; if err != nil { return <zero>, err }                      (error handed on: cdo)
//   if c { x, err = f(a) } else { x, err = g(b) } ; if err != nil { return <zero>, err }
//   if c { ... } [else { ... }]         blocks may return, continue or fall through
//   for i := k; i < X.Len() | len(X) | n; i++ { ... X.Index(i) | X[i] ... }     fold over the elements with their index
//   for _, x := range E { ... }                                                fold over the elements
//   M.SetMapIndex(k, v)      X.Index(i).Set(reflect.ValueOf(v))
//   return v, nil    return reflect.Value{}, fmt.Errorf(...)    return f(val)    continue
// and the expressions listed in c14Expr.  Anything else: "source shape not recognised" (translator
// tie unavailable).  A function that is recognised but computes something else makes
// Proofs/GenAgreeConcatCode.v fail.
//
// Output: coq/Gen/ConcatCode.v with, in a Section over the registry of application functions,
//   gen_toSliceValue     : list cval -> res sval
//   gen_concatSliceValue : sval -> res (option cval)
//   gen_concatMaps       : (sval -> res (option cval)) -> sval -> res (option cval)      (first argument: the recursive call)
//   gen_concatInterfaces : (sval -> res (option cval)) -> sval -> res (option cval)      (first argument: concatMaps)
//   gen_tc_less          : option Z -> option Z -> bool        the comparator of concatToolCalls on the two Index fields
//   gen_tc_sort_stable   : bool                                sort.SliceStable (true) | sort.Slice (false)

import (
	"fmt"
	"go/ast"
	"go/token"
	"go/types"
	"sort"
	"strings"
)

func init() {
	register("concatcode", c14ExtractConcatCode)
	registerFallback("concatcode", "ConcatCode.v", "(* Gen/ConcatCode.v — translator tie UNAVAILABLE: tools/go2v (extractor \"concatcode\") did not recognise the\n"+
		"   shape of internal/concat.go / schema/message.go (concatToolCalls); the reference translation is re-exported. *)\n"+
		"From Eino Require Import Base.Util Model.ConcatTable Model.Concat Model.ConcatGenLib Model.ConcatCodeRef.\n\n"+
		"Definition tie_available : bool := false.\n\n"+
		"Section Gen.\nContext {U : UserFn}.\n"+
		"Definition gen_toSliceValue := Model.ConcatCodeRef.gen_toSliceValue.\n"+
		"Definition gen_concatSliceValue := Model.ConcatCodeRef.gen_concatSliceValue.\n"+
		"Definition gen_concatMaps := Model.ConcatCodeRef.gen_concatMaps.\n"+
		"Definition gen_concatInterfaces := Model.ConcatCodeRef.gen_concatInterfaces.\n"+
		"End Gen.\n"+
		"Definition gen_tc_less := Model.ConcatCodeRef.gen_tc_less.\n"+
		"Definition gen_tc_sort_stable : bool := Model.ConcatCodeRef.gen_tc_sort_stable.\n")
}

type c14Kind int

const (
	c14kNone c14Kind = iota
	c14kSlice
	c14kAnys
	c14kElem
	c14kOpt
	c14kOptAnys
	c14kMapAnys
	c14kKeys
	c14kKey
	c14kTy
	c14kOptTy
	c14kKind
	c14kNat
	c14kBool
	c14kFunc
)

var c14KindName = map[c14Kind]string{c14kSlice: "slice", c14kAnys: "anys", c14kElem: "elem", c14kOpt: "opt", c14kOptAnys: "optanys", c14kMapAnys: "mapanys",
	c14kKeys: "keys", c14kKey: "key", c14kTy: "ty", c14kOptTy: "optty", c14kKind: "kind", c14kNat: "nat", c14kBool: "bool", c14kFunc: "func"}

type c14Fn struct {
	gname  string // Gallina term to call
	param  c14Kind
	result c14Kind
}

type c14Loop struct {
	idx, over, elem string // inside `for i := ..; i < len(X)`: i, X, Gallina name of X[i]
}

type c14Tr struct {
	fname   string
	vars    map[string]c14Kind
	order   []string // declaration order of vars (for canonical tuples)
	lenOf   map[string]string
	resKind c14Kind
	errCode string
	funcs   map[string]c14Fn
	loops   []c14Loop
	loopV   [][]string // state tuple of the enclosing loops
	tmp     int
}

var c14Reserved = map[string]bool{"at": true, "as": true, "in": true, "end": true, "fun": true, "let": true, "if": true, "then": true, "else": true,
	"return": true, "match": true, "with": true, "fix": true, "forall": true, "exists": true, "Type": true, "Set": true, "Prop": true, "using": true,
	"where": true, "for": true, "do": true, "cdo": true, "cbind": true, "cfold": true, "fst": true, "snd": true, "length": true, "negb": true, "tt": true}

func c14Name(n string) string {
	if c14Reserved[n] {
		return n + "_"
	}
	return n
}

func (t *c14Tr) errf(format string, a ...any) error {
	return fmt.Errorf("%s: "+format, append([]any{t.fname}, a...)...)
}

func (t *c14Tr) declare(n string, k c14Kind) {
	if _, ok := t.vars[n]; !ok {
		t.order = append(t.order, n)
	}
	t.vars[n] = k
}

func (t *c14Tr) fresh(base string) string {
	t.tmp++
	return fmt.Sprintf("%s_%d", base, t.tmp)
}

// one hoisted monadic operation: cdo <name> <- <code>
type c14Pre struct{ name, code string }

func c14Wrap(pre []c14Pre, body string) string {
	for i := len(pre) - 1; i >= 0; i-- {
		body = "cdo " + pre[i].code + " (fun " + pre[i].name + " =>\n" + body + ")"
	}
	return body
}

func c14IsIdent(e ast.Expr, name string) bool {
	id, ok := e.(*ast.Ident)
	return ok && id.Name == name
}

// X.M(args) -> X, M, args
func c14MethodCall(e ast.Expr) (ast.Expr, string, []ast.Expr, bool) {
	c, ok := e.(*ast.CallExpr)
	if !ok {
		return nil, "", nil, false
	}
	s, ok := c.Fun.(*ast.SelectorExpr)
	if !ok {
		return nil, "", nil, false
	}
	return s.X, s.Sel.Name, c.Args, true
}

func (t *c14Tr) coerce(code string, from, to c14Kind) (string, error) {
	switch {
	case from == to:
		return code, nil
	case from == c14kElem && to == c14kOpt:
		return "(Some " + code + ")", nil
	case from == c14kTy && to == c14kOptTy:
		return "(Some " + code + ")", nil
	case from == c14kAnys && to == c14kOptAnys:
		return "(Some " + code + ")", nil
	}
	return "", t.errf("a value of kind %s where kind %s is expected (%s)", c14KindName[from], c14KindName[to], code)
}

// c14Expr: Go expression -> hoisted panicking operations, Gallina term, kind
func (t *c14Tr) expr(e ast.Expr) ([]c14Pre, string, c14Kind, error) {
	bad := func() ([]c14Pre, string, c14Kind, error) {
		return nil, "", c14kNone, t.errf("expression %s is outside the translated fragment", types.ExprString(e))
	}
	mon := func(pre []c14Pre, code string, base string, k c14Kind) ([]c14Pre, string, c14Kind, error) {
		n := t.fresh(base)
		return append(pre, c14Pre{n, code}), n, k, nil
	}
	switch x := e.(type) {
	case *ast.ParenExpr:
		return t.expr(x.X)
	case *ast.BasicLit:
		if x.Kind == token.INT {
			return nil, x.Value, c14kNat, nil
		}
	case *ast.Ident:
		if k, ok := t.vars[x.Name]; ok {
			return nil, c14Name(x.Name), k, nil
		}
		switch x.Name {
		case "true", "false":
			return nil, x.Name, c14kBool, nil
		}
	case *ast.SelectorExpr:
		if c14IsIdent(x.X, "reflect") {
			switch x.Sel.Name {
			case "Map":
				return nil, "KdMap", c14kKind, nil
			case "Interface":
				return nil, "KdInterface", c14kKind, nil
			}
		}
	case *ast.CompositeLit:
		if es(x.Type) == "reflect.Value" && len(x.Elts) == 0 {
			return nil, "(@None cval)", c14kOpt, nil
		}
	case *ast.UnaryExpr:
		if x.Op == token.NOT {
			pre, c, k, err := t.expr(x.X)
			if err != nil {
				return nil, "", c14kNone, err
			}
			if k != c14kBool {
				return bad()
			}
			return pre, "(negb " + c + ")", c14kBool, nil
		}
	case *ast.IndexExpr:
		// X[i] on a []any
		pre, xc, xk, err := t.expr(x.X)
		if err != nil {
			return nil, "", c14kNone, err
		}
		if xk != c14kAnys {
			return bad()
		}
		for _, l := range t.loops {
			if c14IsIdent(x.X, l.over) && c14IsIdent(x.Index, l.idx) {
				return pre, l.elem, c14kElem, nil
			}
		}
		pi, ic, ik, err := t.expr(x.Index)
		if err != nil {
			return nil, "", c14kNone, err
		}
		if ik != c14kNat {
			return bad()
		}
		return mon(append(pre, pi...), "(r_nth "+xc+" "+ic+")", "x", c14kElem)
	case *ast.BinaryExpr:
		switch x.Op {
		case token.LAND, token.LOR:
			pl, l, lk, err := t.expr(x.X)
			if err != nil {
				return nil, "", c14kNone, err
			}
			pr, r, rk, err := t.expr(x.Y)
			if err != nil {
				return nil, "", c14kNone, err
			}
			if lk != c14kBool || rk != c14kBool {
				return bad()
			}
			if len(pr) > 0 {
				// the right operand is evaluated only when the left one does not decide: a conditional res bool, hoisted
				inner := "Ok " + r
				for i := len(pr) - 1; i >= 0; i-- {
					inner = "res_bind " + pr[i].code + " (fun " + pr[i].name + " => " + inner + ")"
				}
				code := "(if " + l + " then (" + inner + ") else Ok false)"
				if x.Op == token.LOR {
					code = "(if " + l + " then Ok true else (" + inner + "))"
				}
				return mon(pl, code, "c", c14kBool)
			}
			op := "&&"
			if x.Op == token.LOR {
				op = "||"
			}
			return pl, "(" + l + " " + op + " " + r + ")", c14kBool, nil
		case token.EQL, token.NEQ, token.LSS, token.GTR, token.LEQ, token.GEQ:
			neg := func(s string) string {
				if x.Op == token.NEQ {
					return "(negb " + s + ")"
				}
				return s
			}
			// comparisons with nil
			if c14IsIdent(x.Y, "nil") || c14IsIdent(x.X, "nil") {
				o := x.X
				if c14IsIdent(x.X, "nil") {
					o = x.Y
				}
				if x.Op != token.EQL && x.Op != token.NEQ {
					return bad()
				}
				pre, c, k, err := t.expr(o)
				if err != nil {
					return nil, "", c14kNone, err
				}
				switch k {
				case c14kFunc, c14kOptTy:
					if x.Op == token.NEQ {
						return pre, "(is_some " + c + ")", c14kBool, nil
					}
					return pre, "(negb (is_some " + c + "))", c14kBool, nil
				case c14kElem:
					return pre, neg("(is_nil " + c + ")"), c14kBool, nil
				}
				return bad()
			}
			pl, l, lk, err := t.expr(x.X)
			if err != nil {
				return nil, "", c14kNone, err
			}
			pr, r, rk, err := t.expr(x.Y)
			if err != nil {
				return nil, "", c14kNone, err
			}
			pre := append(pl, pr...)
			switch {
			case lk == c14kNat && rk == c14kNat:
				switch x.Op {
				case token.EQL, token.NEQ:
					return pre, neg("(Nat.eqb " + l + " " + r + ")"), c14kBool, nil
				case token.LSS:
					return pre, "(Nat.ltb " + l + " " + r + ")", c14kBool, nil
				case token.GTR:
					return pre, "(Nat.ltb " + r + " " + l + ")", c14kBool, nil
				case token.LEQ:
					return pre, "(Nat.leb " + l + " " + r + ")", c14kBool, nil
				case token.GEQ:
					return pre, "(Nat.leb " + r + " " + l + ")", c14kBool, nil
				}
			case (lk == c14kTy || lk == c14kOptTy) && (rk == c14kTy || rk == c14kOptTy) && (x.Op == token.EQL || x.Op == token.NEQ):
				l, _ = t.coerce(l, lk, c14kOptTy)
				r, _ = t.coerce(r, rk, c14kOptTy)
				return pre, neg("(oty_eqb " + l + " " + r + ")"), c14kBool, nil
			case lk == c14kKind && rk == c14kKind && (x.Op == token.EQL || x.Op == token.NEQ):
				return pre, neg("(rkind_eqb " + l + " " + r + ")"), c14kBool, nil
			}
		}
	case *ast.CallExpr:
		// builtins and package functions
		if id, ok := x.Fun.(*ast.Ident); ok {
			switch {
			case id.Name == "len" && len(x.Args) == 1:
				pre, c, k, err := t.expr(x.Args[0])
				if err != nil {
					return nil, "", c14kNone, err
				}
				if k != c14kAnys {
					return bad()
				}
				return pre, "(List.length " + c + ")", c14kNat, nil
			case id.Name == "make" && len(x.Args) == 3 && es(x.Args[0]) == "[]any" && es(x.Args[1]) == "0":
				return nil, "(@nil cval)", c14kAnys, nil
			case id.Name == "append" && len(x.Args) == 2:
				pa, a, ak, err := t.expr(x.Args[0])
				if err != nil {
					return nil, "", c14kNone, err
				}
				pb, b, bk, err := t.expr(x.Args[1])
				if err != nil {
					return nil, "", c14kNone, err
				}
				if ak != c14kAnys || bk != c14kElem {
					return bad()
				}
				return append(pa, pb...), "(" + a + " ++ [" + b + "])", c14kAnys, nil
			case id.Name == "GetConcatFunc" && len(x.Args) == 1:
				pre, c, k, err := t.expr(x.Args[0])
				if err != nil {
					return nil, "", c14kNone, err
				}
				if k != c14kTy {
					return bad()
				}
				return pre, "(get_concat_func " + c + ")", c14kFunc, nil
			}
			return bad()
		}
		if recv, m, args, ok := c14MethodCall(e); ok {
			// reflect.F(...)
			if c14IsIdent(recv, "reflect") {
				switch {
				case m == "TypeOf" && len(args) == 1:
					pre, c, k, err := t.expr(args[0])
					if err != nil {
						return nil, "", c14kNone, err
					}
					if k != c14kElem {
						return bad()
					}
					return pre, "(dyn_ty " + c + ")", c14kOptTy, nil
				case m == "ValueOf" && len(args) == 1:
					pre, c, k, err := t.expr(args[0])
					if err != nil {
						return nil, "", c14kNone, err
					}
					switch k {
					case c14kElem:
						return pre, c, c14kElem, nil // the invalid Value of a nil interface is rendered CNil: every use checks the type
					case c14kAnys:
						return pre, "(Some " + c + ")", c14kOptAnys, nil
					}
					return bad()
				case m == "MakeSlice" && len(args) == 3 && es(args[1]) == es(args[2]):
					if r2, m2, a2, ok := c14MethodCall(args[0]); ok && c14IsIdent(r2, "reflect") && m2 == "SliceOf" && len(a2) == 1 {
						pt, tc, tk, err := t.expr(a2[0])
						if err != nil {
							return nil, "", c14kNone, err
						}
						pn, nc, nk, err := t.expr(args[1])
						if err != nil {
							return nil, "", c14kNone, err
						}
						if nk != c14kNat {
							return bad()
						}
						tc, err = t.coerce(tc, tk, c14kOptTy)
						if err != nil {
							return nil, "", c14kNone, err
						}
						return mon(append(pt, pn...), "(r_make_slice "+tc+" "+nc+")", "s", c14kSlice)
					}
				case m == "MakeMap" && len(args) == 1:
					if r2, m2, a2, ok := c14MethodCall(args[0]); ok && c14IsIdent(r2, "reflect") && m2 == "MapOf" && len(a2) == 2 &&
						strings.HasSuffix(es(a2[0]), ".Key()") && es(a2[1]) == "generic.TypeOf[[]any]()" {
						return nil, "(@nil (string * list cval))", c14kMapAnys, nil
					}
					pre, c, k, err := t.expr(args[0])
					if err != nil {
						return nil, "", c14kNone, err
					}
					if k != c14kTy {
						return bad()
					}
					return mon(pre, "(r_make_map "+c+")", "m", c14kElem)
				case m == "Zero" && len(args) == 1:
					if r2, m2, a2, ok := c14MethodCall(args[0]); ok && m2 == "Elem" && len(a2) == 0 {
						pre, c, k, err := t.expr(r2)
						if err != nil {
							return nil, "", c14kNone, err
						}
						if k != c14kTy {
							return bad()
						}
						return pre, "(r_zero_elem " + c + ")", c14kElem, nil
					}
				case m == "Append" && len(args) == 2:
					pa, a, ak, err := t.expr(args[0])
					if err != nil {
						return nil, "", c14kNone, err
					}
					pb, b, bk, err := t.expr(args[1])
					if err != nil {
						return nil, "", c14kNone, err
					}
					if ak != c14kOptAnys {
						return bad()
					}
					b, err = t.coerce(b, bk, c14kOpt)
					if err != nil {
						return nil, "", c14kNone, err
					}
					return mon(append(pa, pb...), "(r_append "+a+" "+b+")", "a", c14kOptAnys)
				}
				return bad()
			}
			// reflect.New(T).Elem()
			if m == "Elem" && len(args) == 0 {
				if r2, m2, a2, ok := c14MethodCall(recv); ok && c14IsIdent(r2, "reflect") && m2 == "New" && len(a2) == 1 {
					pre, c, k, err := t.expr(a2[0])
					if err != nil {
						return nil, "", c14kNone, err
					}
					if k != c14kTy {
						return bad()
					}
					return pre, "(zero_of " + c + ")", c14kElem, nil
				}
				// X.Type().Elem()
				if r2, m2, a2, ok := c14MethodCall(recv); ok && m2 == "Type" && len(a2) == 0 {
					pre, c, k, err := t.expr(r2)
					if err != nil {
						return nil, "", c14kNone, err
					}
					if k != c14kSlice {
						return bad()
					}
					return pre, "(sv_elem " + c + ")", c14kTy, nil
				}
				return bad()
			}
			// X.Interface().([]any) is a TypeAssertExpr, handled below; methods on a translated receiver
			pre, rc, rk, err := t.expr(recv)
			if err != nil {
				return nil, "", c14kNone, err
			}
			switch {
			case m == "Len" && len(args) == 0 && rk == c14kSlice:
				return pre, "(sv_len " + rc + ")", c14kNat, nil
			case m == "Index" && len(args) == 1 && rk == c14kSlice:
				for _, l := range t.loops {
					if c14IsIdent(recv, l.over) && c14IsIdent(args[0], l.idx) {
						return pre, l.elem, c14kElem, nil
					}
				}
				pi, ic, ik, err := t.expr(args[0])
				if err != nil {
					return nil, "", c14kNone, err
				}
				if ik != c14kNat {
					return bad()
				}
				return mon(append(pre, pi...), "(r_index "+rc+" "+ic+")", "x", c14kElem)
			case m == "Kind" && len(args) == 0 && rk == c14kTy:
				return pre, "(ty_kind " + rc + ")", c14kKind, nil
			case m == "Kind" && len(args) == 0 && rk == c14kOptTy:
				return mon(pre, "(oty_kind "+rc+")", "k", c14kKind)
			case m == "IsZero" && len(args) == 0 && rk == c14kElem:
				return pre, "(is_zero " + rc + ")", c14kBool, nil
			case m == "IsNil" && len(args) == 0 && rk == c14kElem:
				return pre, "(is_nil " + rc + ")", c14kBool, nil
			case m == "IsValid" && len(args) == 0 && (rk == c14kOpt || rk == c14kOptAnys):
				return pre, "(is_some " + rc + ")", c14kBool, nil
			case m == "IsValid" && len(args) == 0 && rk == c14kElem:
				return pre, "true", c14kBool, nil
			case m == "Interface" && len(args) == 0 && rk == c14kElem:
				return pre, rc, c14kElem, nil
			case m == "MapKeys" && len(args) == 0 && rk == c14kElem:
				return mon(pre, "(r_map_keys "+rc+")", "ks", c14kKeys)
			case m == "MapKeys" && len(args) == 0 && rk == c14kMapAnys:
				return pre, "(List.map fst " + rc + ")", c14kKeys, nil
			case m == "MapIndex" && len(args) == 1:
				pk, kc, kk, err := t.expr(args[0])
				if err != nil {
					return nil, "", c14kNone, err
				}
				if kk != c14kKey {
					return bad()
				}
				switch rk {
				case c14kMapAnys:
					return append(pre, pk...), "(alist_get " + kc + " " + rc + ")", c14kOptAnys, nil
				case c14kElem:
					return mon(append(pre, pk...), "(r_map_index "+rc+" "+kc+")", "v", c14kOpt)
				}
			}
		}
	case *ast.TypeAssertExpr:
		// X.Interface().([]any)
		if x.Type != nil && es(x.Type) == "[]any" {
			if recv, m, args, ok := c14MethodCall(x.X); ok && m == "Interface" && len(args) == 0 {
				pre, c, k, err := t.expr(recv)
				if err != nil {
					return nil, "", c14kNone, err
				}
				if k != c14kOptAnys {
					return bad()
				}
				return mon(pre, "(r_anys "+c+")", "l", c14kAnys)
			}
		}
	}
	return bad()
}

// variables declared outside [l] that the statements of [l] assign
func (t *c14Tr) assigned(l []ast.Stmt) []string {
	set := map[string]bool{}
	local := map[string]bool{}
	var walk func(n ast.Node)
	mark := func(e ast.Expr) {
		if id, ok := e.(*ast.Ident); ok && id.Name != "_" && id.Name != "err" {
			if _, known := t.vars[id.Name]; known && !local[id.Name] {
				set[id.Name] = true
			}
		}
	}
	walk = func(n ast.Node) {
		ast.Inspect(n, func(n ast.Node) bool {
			switch x := n.(type) {
			case *ast.AssignStmt:
				if x.Tok == token.DEFINE {
					for _, lh := range x.Lhs {
						if id, ok := lh.(*ast.Ident); ok {
							if _, known := t.vars[id.Name]; !known {
								local[id.Name] = true
							}
						}
					}
					// a := redeclares in an inner scope: treated as local to that scope only if unknown outside
					return true
				}
				for _, lh := range x.Lhs {
					mark(lh)
				}
			case *ast.IncDecStmt:
				mark(x.X)
			case *ast.ExprStmt:
				if recv, m, _, ok := c14MethodCall(x.X); ok {
					if m == "SetMapIndex" {
						mark(recv)
					}
					if m == "Set" {
						if r2, m2, _, ok := c14MethodCall(recv); ok && m2 == "Index" {
							mark(r2)
						}
					}
				}
			}
			return true
		})
	}
	for _, s := range l {
		walk(s)
	}
	var out []string
	for _, n := range t.order {
		if set[n] {
			out = append(out, n)
		}
	}
	return out
}

func c14Tuple(vs []string) string {
	switch len(vs) {
	case 0:
		return "tt"
	case 1:
		return c14Name(vs[0])
	}
	ns := make([]string, len(vs))
	for i, v := range vs {
		ns[i] = c14Name(v)
	}
	return "(" + strings.Join(ns, ", ") + ")"
}

func c14Pattern(vs []string) string {
	switch len(vs) {
	case 0:
		return "_"
	case 1:
		return c14Name(vs[0])
	}
	return "'" + c14Tuple(vs)
}

// does control never reach the end of the list?
func c14Terminates(l []ast.Stmt) bool {
	if len(l) == 0 {
		return false
	}
	switch x := l[len(l)-1].(type) {
	case *ast.ReturnStmt:
		return true
	case *ast.BranchStmt:
		return x.Tok == token.CONTINUE
	case *ast.IfStmt:
		if x.Else == nil {
			return false
		}
		switch e := x.Else.(type) {
		case *ast.BlockStmt:
			return c14Terminates(x.Body.List) && c14Terminates(e.List)
		case *ast.IfStmt:
			return c14Terminates(x.Body.List) && c14Terminates([]ast.Stmt{e})
		}
	}
	return false
}

func c14HasContinue(l []ast.Stmt) bool {
	found := false
	for _, s := range l {
		ast.Inspect(s, func(n ast.Node) bool {
			switch x := n.(type) {
			case *ast.ForStmt, *ast.RangeStmt, *ast.FuncLit:
				return false
			case *ast.BranchStmt:
				if x.Tok == token.CONTINUE {
					found = true
				}
			}
			return true
		})
	}
	return found
}

// `if err != nil { return <anything>, err }`
func c14IsErrCheck(s ast.Stmt) bool {
	i, ok := s.(*ast.IfStmt)
	if !ok || i.Init != nil || i.Else != nil || es(i.Cond) != "err!=nil" || len(i.Body.List) != 1 {
		return false
	}
	r, ok := i.Body.List[0].(*ast.ReturnStmt)
	return ok && len(r.Results) == 2 && c14IsIdent(r.Results[1], "err")
}

// `x, err := f(a)` / `x, err = f(a)` -> x, call
func (t *c14Tr) errCall(s ast.Stmt) (string, token.Token, *ast.CallExpr, bool) {
	a, ok := s.(*ast.AssignStmt)
	if !ok || len(a.Lhs) != 2 || len(a.Rhs) != 1 || !c14IsIdent(a.Lhs[1], "err") {
		return "", 0, nil, false
	}
	id, ok := a.Lhs[0].(*ast.Ident)
	if !ok {
		return "", 0, nil, false
	}
	c, ok := a.Rhs[0].(*ast.CallExpr)
	if !ok {
		return "", 0, nil, false
	}
	return id.Name, a.Tok, c, true
}

// a call of one of the translated functions (or of the function value f)
func (t *c14Tr) call(c *ast.CallExpr) ([]c14Pre, string, c14Kind, error) {
	id, ok := c.Fun.(*ast.Ident)
	if !ok || len(c.Args) != 1 {
		return nil, "", c14kNone, t.errf("call %s is outside the translated fragment", types.ExprString(c))
	}
	pre, a, ak, err := t.expr(c.Args[0])
	if err != nil {
		return nil, "", c14kNone, err
	}
	if k, isVar := t.vars[id.Name]; isVar && k == c14kFunc {
		if ak != c14kSlice {
			return nil, "", c14kNone, t.errf("the concat function is applied to a value of kind %s", c14KindName[ak])
		}
		return pre, "(r_call " + c14Name(id.Name) + " " + a + ")", c14kOpt, nil
	}
	f, ok := t.funcs[id.Name]
	if !ok {
		return nil, "", c14kNone, t.errf("call of %s: not one of the translated functions", id.Name)
	}
	if ak != f.param {
		return nil, "", c14kNone, t.errf("%s is applied to a value of kind %s", id.Name, c14KindName[ak])
	}
	return pre, "(" + f.gname + " " + a + ")", f.result, nil
}

// block: statement list -> Gallina term of type ctl _ _ ; [k] is the term for "control reaches the end"
func (t *c14Tr) block(l []ast.Stmt, k string, ind string) (string, error) {
	if len(l) == 0 {
		return k, nil
	}
	rest := func(n int) (string, error) { return t.block(l[n:], k, ind) }
	bind := func(pre []c14Pre, name, code string, monadic bool, n int) (string, error) {
		r, err := rest(n)
		if err != nil {
			return "", err
		}
		var s string
		if monadic {
			s = "cdo " + code + " (fun " + name + " =>\n" + ind + r + ")"
		} else {
			s = "let " + name + " := " + code + " in\n" + ind + r
		}
		return c14Wrap(pre, s), nil
	}
	switch x := l[0].(type) {
	case *ast.DeclStmt:
		gd, ok := x.Decl.(*ast.GenDecl)
		if !ok || gd.Tok != token.VAR || len(gd.Specs) != 1 {
			break
		}
		vs := gd.Specs[0].(*ast.ValueSpec)
		if len(vs.Names) != 1 || len(vs.Values) != 0 || vs.Type == nil {
			break
		}
		var code string
		var kd c14Kind
		switch es(vs.Type) {
		case "reflect.Value":
			code, kd = "(@None cval)", c14kOpt
		case "[]any":
			code, kd = "(@nil cval)", c14kAnys
		case "int":
			code, kd = "0", c14kNat
		default:
			return "", t.errf("var %s %s: type outside the translated fragment", vs.Names[0].Name, es(vs.Type))
		}
		t.declare(vs.Names[0].Name, kd)
		return bind(nil, c14Name(vs.Names[0].Name), code, false, 1)
	case *ast.IncDecStmt:
		id, ok := x.X.(*ast.Ident)
		if !ok || t.vars[id.Name] != c14kNat || x.Tok != token.INC {
			break
		}
		return bind(nil, c14Name(id.Name), "(S "+c14Name(id.Name)+")", false, 1)
	case *ast.AssignStmt:
		// x, err := f(a) ; if err != nil { return _, err }
		if name, _, c, ok := t.errCall(x); ok {
			if len(l) < 2 || !c14IsErrCheck(l[1]) {
				return "", t.errf("%s, err := ... is not followed by `if err != nil { return _, err }`", name)
			}
			pre, code, kd, err := t.call(c)
			if err != nil {
				return "", err
			}
			if old, known := t.vars[name]; known && x.Tok == token.ASSIGN && old != kd {
				return "", t.errf("%s changes kind from %s to %s", name, c14KindName[old], c14KindName[kd])
			}
			t.declare(name, kd)
			return bind(pre, c14Name(name), code, true, 2)
		}
		if len(x.Lhs) != 1 || len(x.Rhs) != 1 {
			break
		}
		id, ok := x.Lhs[0].(*ast.Ident)
		if !ok {
			break
		}
		if x.Tok == token.ADD_ASSIGN {
			pre, c, kd, err := t.expr(x.Rhs[0])
			if err != nil {
				return "", err
			}
			if t.vars[id.Name] != c14kNat || kd != c14kNat {
				break
			}
			return bind(pre, c14Name(id.Name), "("+c14Name(id.Name)+" + "+c+")", false, 1)
		}
		if x.Tok != token.DEFINE && x.Tok != token.ASSIGN {
			break
		}
		pre, c, kd, err := t.expr(x.Rhs[0])
		if err != nil {
			return "", err
		}
		if old, known := t.vars[id.Name]; known && x.Tok == token.ASSIGN {
			c, err = t.coerce(c, kd, old)
			if err != nil {
				return "", err
			}
			kd = old
		} else if x.Tok == token.ASSIGN {
			return "", t.errf("assignment to the unknown variable %s", id.Name)
		}
		t.declare(id.Name, kd)
		// n := X.Len() / len(X): remember what n is the length of
		if recv, m, _, ok := c14MethodCall(x.Rhs[0]); ok && m == "Len" {
			if rid, ok := recv.(*ast.Ident); ok {
				t.lenOf[id.Name] = rid.Name
			}
		}
		// the hoisted operation itself is the binding when the expression is just that operation
		if len(pre) > 0 && pre[len(pre)-1].name == c {
			last := pre[len(pre)-1]
			return bind(pre[:len(pre)-1], c14Name(id.Name), last.code, true, 1)
		}
		return bind(pre, c14Name(id.Name), c, false, 1)
	case *ast.ExprStmt:
		recv, m, args, ok := c14MethodCall(x.X)
		if !ok {
			break
		}
		if m == "SetMapIndex" && len(args) == 2 {
			rid, ok := recv.(*ast.Ident)
			if !ok {
				break
			}
			pk, kc, kk, err := t.expr(args[0])
			if err != nil {
				return "", err
			}
			pv, vc, vk, err := t.expr(args[1])
			if err != nil {
				return "", err
			}
			if kk != c14kKey {
				break
			}
			pre := append(pk, pv...)
			switch t.vars[rid.Name] {
			case c14kMapAnys:
				vc, err = t.coerce(vc, vk, c14kOptAnys)
				if err != nil {
					return "", err
				}
				return bind(pre, c14Name(rid.Name), "(r_set_anys "+c14Name(rid.Name)+" "+kc+" "+vc+")", false, 1)
			case c14kElem:
				vc, err = t.coerce(vc, vk, c14kOpt)
				if err != nil {
					return "", err
				}
				return bind(pre, c14Name(rid.Name), "(r_set_map "+c14Name(rid.Name)+" "+kc+" "+vc+")", true, 1)
			}
			break
		}
		if m == "Set" && len(args) == 1 {
			// X.Index(i).Set(v)
			r2, m2, a2, ok := c14MethodCall(recv)
			if !ok || m2 != "Index" || len(a2) != 1 {
				break
			}
			rid, ok := r2.(*ast.Ident)
			if !ok || t.vars[rid.Name] != c14kSlice {
				break
			}
			pi, ic, ik, err := t.expr(a2[0])
			if err != nil {
				return "", err
			}
			pv, vc, vk, err := t.expr(args[0])
			if err != nil {
				return "", err
			}
			if ik != c14kNat || vk != c14kElem {
				break
			}
			return bind(append(pi, pv...), c14Name(rid.Name), "(r_set_index "+c14Name(rid.Name)+" "+ic+" "+vc+")", true, 1)
		}
	case *ast.ReturnStmt:
		if len(x.Results) == 1 {
			// return f(val)
			if c, ok := x.Results[0].(*ast.CallExpr); ok {
				pre, code, kd, err := t.call(c)
				if err != nil {
					return "", err
				}
				if kd != t.resKind {
					return "", t.errf("return of a call of kind %s", c14KindName[kd])
				}
				return c14Wrap(pre, "Return "+code), nil
			}
			break
		}
		if len(x.Results) != 2 {
			break
		}
		if c14IsIdent(x.Results[1], "nil") {
			pre, c, kd, err := t.expr(x.Results[0])
			if err != nil {
				return "", err
			}
			c, err = t.coerce(c, kd, t.resKind)
			if err != nil {
				return "", err
			}
			return c14Wrap(pre, "Return (Ok "+c+")"), nil
		}
		if c, ok := x.Results[1].(*ast.CallExpr); ok && es(c.Fun) == "fmt.Errorf" && es(x.Results[0]) == "reflect.Value{}" {
			return "Return (Err " + t.errCode + ")", nil
		}
	case *ast.BranchStmt:
		if x.Tok == token.CONTINUE && x.Label == nil && len(t.loopV) > 0 {
			return "Next " + c14Tuple(t.loopV[len(t.loopV)-1]), nil
		}
	case *ast.IfStmt:
		if x.Init != nil {
			// if v := e; c { ... }  is  v := e; if c { ... }  (v is not used after the statement)
			if as, ok := x.Init.(*ast.AssignStmt); !ok || as.Tok != token.DEFINE {
				break
			}
			plain := *x
			plain.Init = nil
			return t.block(append([]ast.Stmt{x.Init, &plain}, l[1:]...), k, ind)
		}
		// if c { x, err = f(a) } else { x, err = g(b) } ; if err != nil { return _, err }
		if eb, ok := x.Else.(*ast.BlockStmt); ok && len(x.Body.List) == 1 && len(eb.List) == 1 && len(l) >= 2 && c14IsErrCheck(l[1]) {
			n1, tok1, c1, ok1 := t.errCall(x.Body.List[0])
			n2, tok2, c2, ok2 := t.errCall(eb.List[0])
			if ok1 && ok2 && n1 == n2 && tok1 == token.ASSIGN && tok2 == token.ASSIGN {
				pc, cc, ck, err := t.expr(x.Cond)
				if err != nil {
					return "", err
				}
				if ck != c14kBool {
					break
				}
				p1, code1, k1, err := t.call(c1)
				if err != nil {
					return "", err
				}
				p2, code2, k2, err := t.call(c2)
				if err != nil {
					return "", err
				}
				if len(p1)+len(p2) > 0 || k1 != k2 || t.vars[n1] != k1 {
					return "", t.errf("if/else assigning %s from two calls: kinds differ", n1)
				}
				return bind(pc, c14Name(n1), "(if "+cc+" then "+code1+" else "+code2+")", true, 2)
			}
		}
		pc, cc, ck, err := t.expr(x.Cond)
		if err != nil {
			return "", err
		}
		if ck != c14kBool {
			break
		}
		var elseList []ast.Stmt
		switch e := x.Else.(type) {
		case nil:
		case *ast.BlockStmt:
			elseList = e.List
		case *ast.IfStmt:
			elseList = []ast.Stmt{e}
		}
		thenT, elseT := c14Terminates(x.Body.List), x.Else != nil && c14Terminates(elseList)
		saved := t.snapshot()
		if thenT && x.Else == nil {
			// if c { ...return } rest
			th, err := t.block(x.Body.List, "Return Panic", ind+"  ")
			if err != nil {
				return "", err
			}
			t.restore(saved)
			r, err := rest(1)
			if err != nil {
				return "", err
			}
			return c14Wrap(pc, "if "+cc+" then ("+th+")\n"+ind+"else "+r), nil
		}
		if thenT && elseT {
			if len(l) > 1 {
				return "", t.errf("statements after an if/else whose branches both leave")
			}
			th, err := t.block(x.Body.List, "Return Panic", ind+"  ")
			if err != nil {
				return "", err
			}
			t.restore(saved)
			el, err := t.block(elseList, "Return Panic", ind+"  ")
			if err != nil {
				return "", err
			}
			t.restore(saved)
			return c14Wrap(pc, "if "+cc+" then ("+th+")\n"+ind+"else ("+el+")"), nil
		}
		// a branch falls through: it hands on the outer variables the if statement assigns
		if (!thenT && c14HasContinue(x.Body.List)) || (x.Else != nil && !elseT && c14HasContinue(elseList)) {
			return "", t.errf("continue inside a block that can also fall through")
		}
		vs := t.assigned(append(append([]ast.Stmt{}, x.Body.List...), elseList...))
		next := "Next " + c14Tuple(vs)
		th, err := t.block(x.Body.List, next, ind+"  ")
		if err != nil {
			return "", err
		}
		t.restore(saved)
		el := next
		if x.Else != nil {
			el, err = t.block(elseList, next, ind+"  ")
			if err != nil {
				return "", err
			}
			t.restore(saved)
		}
		r, err := rest(1)
		if err != nil {
			return "", err
		}
		return c14Wrap(pc, "cbind (if "+cc+" then ("+th+")\n"+ind+"  else ("+el+")) (fun "+c14Pattern(vs)+" =>\n"+ind+r+")"), nil
	case *ast.ForStmt:
		// for i := k; i < N; i++
		init, ok := x.Init.(*ast.AssignStmt)
		if !ok || init.Tok != token.DEFINE || len(init.Lhs) != 1 || len(init.Rhs) != 1 {
			break
		}
		iv, ok := init.Lhs[0].(*ast.Ident)
		start, ok2 := init.Rhs[0].(*ast.BasicLit)
		if !ok || !ok2 || start.Kind != token.INT {
			break
		}
		post, ok := x.Post.(*ast.IncDecStmt)
		if !ok || post.Tok != token.INC || !c14IsIdent(post.X, iv.Name) {
			break
		}
		cond, ok := x.Cond.(*ast.BinaryExpr)
		if !ok || cond.Op != token.LSS || !c14IsIdent(cond.X, iv.Name) {
			break
		}
		over := ""
		if id, ok := cond.Y.(*ast.Ident); ok && t.lenOf[id.Name] != "" {
			over = t.lenOf[id.Name]
		} else if recv, m, args, ok := c14MethodCall(cond.Y); ok && m == "Len" && len(args) == 0 {
			if id, ok := recv.(*ast.Ident); ok {
				over = id.Name
			}
		} else if c, ok := cond.Y.(*ast.CallExpr); ok && c14IsIdent(c.Fun, "len") && len(c.Args) == 1 {
			if id, ok := c.Args[0].(*ast.Ident); ok {
				over = id.Name
			}
		}
		var list string
		switch t.vars[over] {
		case c14kSlice:
			list = "(sv_list " + c14Name(over) + ")"
		case c14kAnys:
			list = c14Name(over)
		default:
			return "", t.errf("for %s: the bound %s is not the length of a translated slice", iv.Name, types.ExprString(cond.Y))
		}
		vs := t.assigned(x.Body.List)
		for _, v := range vs {
			if v == over {
				return "", t.errf("for %s: the loop assigns the slice %s it runs over", iv.Name, over)
			}
		}
		saved := t.snapshot()
		elem := c14Name(over) + "_" + c14Name(iv.Name)
		t.loops = append(t.loops, c14Loop{iv.Name, over, elem})
		t.loopV = append(t.loopV, vs)
		t.declare(iv.Name, c14kNat)
		body, err := t.block(x.Body.List, "Next "+c14Tuple(vs), ind+"    ")
		if err != nil {
			return "", err
		}
		t.loops = t.loops[:len(t.loops)-1]
		t.loopV = t.loopV[:len(t.loopV)-1]
		t.restore(saved)
		r, err := rest(1)
		if err != nil {
			return "", err
		}
		return "cbind (cfold (fun " + c14Pattern(vs) + " '(" + c14Name(iv.Name) + ", " + elem + ") =>\n" + ind + "    " + body + ")\n" + ind + "  (skipn " + start.Value + " (enumerate " + list + ")) " + c14Tuple(vs) + ") (fun " + c14Pattern(vs) + " =>\n" + ind + r + ")", nil
	case *ast.RangeStmt:
		if x.Tok != token.DEFINE || !c14IsIdent(x.Key, "_") {
			break
		}
		ev, ok := x.Value.(*ast.Ident)
		if !ok {
			break
		}
		pre, lc, lk, err := t.expr(x.X)
		if err != nil {
			return "", err
		}
		var ek c14Kind
		switch lk {
		case c14kAnys:
			ek = c14kElem
		case c14kKeys:
			ek = c14kKey
		default:
			return "", t.errf("range over a value of kind %s", c14KindName[lk])
		}
		vs := t.assigned(x.Body.List)
		saved := t.snapshot()
		t.loopV = append(t.loopV, vs)
		t.declare(ev.Name, ek)
		body, err := t.block(x.Body.List, "Next "+c14Tuple(vs), ind+"    ")
		if err != nil {
			return "", err
		}
		t.loopV = t.loopV[:len(t.loopV)-1]
		t.restore(saved)
		r, err := rest(1)
		if err != nil {
			return "", err
		}
		return c14Wrap(pre, "cbind (cfold (fun "+c14Pattern(vs)+" "+c14Name(ev.Name)+" =>\n"+ind+"    "+body+")\n"+ind+"  "+lc+" "+c14Tuple(vs)+") (fun "+c14Pattern(vs)+" =>\n"+ind+r+")"), nil
	}
	return "", t.errf("statement outside the translated fragment: %s", c14StmtString(l[0]))
}

func c14StmtString(s ast.Stmt) string {
	switch x := s.(type) {
	case *ast.ExprStmt:
		return types.ExprString(x.X)
	case *ast.AssignStmt:
		var l []string
		for _, e := range x.Lhs {
			l = append(l, types.ExprString(e))
		}
		return strings.Join(l, ", ") + " " + x.Tok.String() + " ..."
	}
	return fmt.Sprintf("%T", s)
}

type c14Snap struct {
	vars  map[string]c14Kind
	order []string
	lenOf map[string]string
}

func (t *c14Tr) snapshot() c14Snap {
	s := c14Snap{vars: map[string]c14Kind{}, lenOf: map[string]string{}, order: append([]string{}, t.order...)}
	for k, v := range t.vars {
		s.vars[k] = v
	}
	for k, v := range t.lenOf {
		s.lenOf[k] = v
	}
	return s
}

func (t *c14Tr) restore(s c14Snap) {
	t.vars, t.lenOf, t.order = map[string]c14Kind{}, map[string]string{}, append([]string{}, s.order...)
	for k, v := range s.vars {
		t.vars[k] = v
	}
	for k, v := range s.lenOf {
		t.lenOf[k] = v
	}
}

type c14Spec struct {
	name      string
	paramType string // printed Go type of the single parameter
	paramKind c14Kind
	resKind   c14Kind
	errCode   string
	self      bool   // the function may call itself: the recursive call is the first argument [self]
	extra     string // extra Gallina parameter (a function the translated one calls), "" if none
	extraFn   string // Go name of that function
}

func c14Function(f *ast.File, sp c14Spec, funcs map[string]c14Fn) (string, error) {
	fn := topFunc(f, sp.name)
	if fn == nil || fn.Body == nil {
		return "", fmt.Errorf("func %s not found", sp.name)
	}
	if fn.Type.Params == nil || len(fn.Type.Params.List) != 1 || len(fn.Type.Params.List[0].Names) != 1 || es(fn.Type.Params.List[0].Type) != sp.paramType {
		return "", fmt.Errorf("%s: not a function of one parameter of type %s", sp.name, sp.paramType)
	}
	if fn.Type.Results == nil || len(fn.Type.Results.List) != 2 || es(fn.Type.Results.List[0].Type) != "reflect.Value" || es(fn.Type.Results.List[1].Type) != "error" {
		return "", fmt.Errorf("%s: result is not (reflect.Value, error)", sp.name)
	}
	p := fn.Type.Params.List[0].Names[0].Name
	t := &c14Tr{fname: sp.name, vars: map[string]c14Kind{}, lenOf: map[string]string{}, resKind: sp.resKind, errCode: sp.errCode, funcs: map[string]c14Fn{}}
	for k, v := range funcs {
		t.funcs[k] = v
	}
	if sp.self {
		t.funcs[sp.name] = c14Fn{"self", sp.paramKind, sp.resKind}
	}
	t.declare(p, sp.paramKind)
	body, err := t.block(fn.Body.List, "Return Panic", "    ")
	if err != nil {
		return "", err
	}
	var b strings.Builder
	fmt.Fprintf(&b, "Definition gen_%s ", sp.name)
	if sp.self {
		b.WriteString("(self : sval -> res (option cval)) ")
	}
	if sp.extra != "" {
		b.WriteString("(" + sp.extra + " : sval -> res (option cval)) ")
	}
	pty := map[c14Kind]string{c14kSlice: "sval", c14kAnys: "list cval"}[sp.paramKind]
	rty := map[c14Kind]string{c14kSlice: "sval", c14kOpt: "option cval"}[sp.resKind]
	fmt.Fprintf(&b, "(%s : %s) : res (%s) :=\n  crun (S := unit) (\n    %s).\n", c14Name(p), pty, rty, body)
	return b.String(), nil
}

// ---------------------------------------------------------------- concatToolCalls: sort + comparator

func c14ToolCallSort(g *ast.File) (string, error) {
	fn := topFunc(g, "concatToolCalls")
	if fn == nil || fn.Body == nil {
		return "", fmt.Errorf("func concatToolCalls not found")
	}
	var call *ast.CallExpr
	n := 0
	ast.Inspect(fn.Body, func(nd ast.Node) bool {
		if c, ok := nd.(*ast.CallExpr); ok {
			if s := es(c.Fun); strings.HasPrefix(s, "sort.") || strings.HasPrefix(s, "slices.Sort") {
				call = c
				n++
			}
		}
		return true
	})
	if n != 1 {
		return "", fmt.Errorf("concatToolCalls: %d sort calls", n)
	}
	stable := ""
	switch es(call.Fun) {
	case "sort.SliceStable":
		stable = "true"
	case "sort.Slice":
		stable = "false"
	default:
		return "", fmt.Errorf("concatToolCalls: sorts with %s", es(call.Fun))
	}
	if len(call.Args) != 2 || !c14IsIdent(call.Args[0], "merged") {
		return "", fmt.Errorf("concatToolCalls: the sort call does not sort merged")
	}
	less, ok := call.Args[1].(*ast.FuncLit)
	if !ok || less.Type.Params == nil {
		return "", fmt.Errorf("concatToolCalls: comparator is not a function literal")
	}
	var ps []string
	for _, fl := range less.Type.Params.List {
		for _, nm := range fl.Names {
			ps = append(ps, nm.Name)
		}
	}
	if len(ps) != 2 || len(less.Body.List) < 2 {
		return "", fmt.Errorf("concatToolCalls: comparator shape")
	}
	// iVal, jVal := merged[i].Index, merged[j].Index
	as, ok := less.Body.List[0].(*ast.AssignStmt)
	if !ok || as.Tok != token.DEFINE || len(as.Lhs) != 2 || len(as.Rhs) != 2 {
		return "", fmt.Errorf("concatToolCalls: comparator does not start with the two Index fields")
	}
	names := map[string]string{}
	for k := 0; k < 2; k++ {
		id, ok := as.Lhs[k].(*ast.Ident)
		if !ok || es(as.Rhs[k]) != "merged["+ps[k]+"].Index" {
			return "", fmt.Errorf("concatToolCalls: comparator reads %s", es(as.Rhs[k]))
		}
		names[id.Name] = []string{"a", "b"}[k]
	}
	var cond func(e ast.Expr) (string, error)
	cond = func(e ast.Expr) (string, error) {
		switch x := e.(type) {
		case *ast.ParenExpr:
			return cond(x.X)
		case *ast.Ident:
			if x.Name == "true" || x.Name == "false" {
				return x.Name, nil
			}
		case *ast.UnaryExpr:
			if x.Op == token.NOT {
				s, err := cond(x.X)
				return "(negb " + s + ")", err
			}
		case *ast.BinaryExpr:
			switch x.Op {
			case token.LAND, token.LOR:
				l, err := cond(x.X)
				if err != nil {
					return "", err
				}
				r, err := cond(x.Y)
				if err != nil {
					return "", err
				}
				op := "&&"
				if x.Op == token.LOR {
					op = "||"
				}
				return "(" + l + " " + op + " " + r + ")", nil
			case token.EQL, token.NEQ:
				if id, ok := x.X.(*ast.Ident); ok && names[id.Name] != "" && c14IsIdent(x.Y, "nil") {
					if x.Op == token.EQL {
						return "(negb (is_some " + names[id.Name] + "))", nil
					}
					return "(is_some " + names[id.Name] + ")", nil
				}
			}
		}
		return "", fmt.Errorf("concatToolCalls: comparator expression %s outside the translated fragment", types.ExprString(e))
	}
	// the returned expression: a condition on nil-ness, or *iVal < *jVal (a nil dereference panics: None)
	retExpr := func(e ast.Expr) (string, error) {
		if x, ok := e.(*ast.BinaryExpr); ok {
			dx, okx := x.X.(*ast.StarExpr)
			dy, oky := x.Y.(*ast.StarExpr)
			if okx && oky {
				ix, ok1 := dx.X.(*ast.Ident)
				iy, ok2 := dy.X.(*ast.Ident)
				op := map[token.Token]string{token.LSS: "Z.ltb", token.GTR: "Z.gtb", token.LEQ: "Z.leb", token.GEQ: "Z.geb", token.EQL: "Z.eqb"}[x.Op]
				if ok1 && ok2 && names[ix.Name] != "" && names[iy.Name] != "" && op != "" {
					return "(oz_cmp " + op + " " + names[ix.Name] + " " + names[iy.Name] + ")", nil
				}
			}
		}
		c, err := cond(e)
		if err != nil {
			return "", err
		}
		return "(Some " + c + ")", nil
	}
	var stmts func(l []ast.Stmt) (string, error)
	stmts = func(l []ast.Stmt) (string, error) {
		if len(l) == 0 {
			return "", fmt.Errorf("concatToolCalls: comparator falls off its end")
		}
		switch x := l[0].(type) {
		case *ast.ReturnStmt:
			if len(x.Results) != 1 {
				break
			}
			return retExpr(x.Results[0])
		case *ast.IfStmt:
			if x.Init != nil {
				break
			}
			c, err := cond(x.Cond)
			if err != nil {
				return "", err
			}
			th, err := stmts(x.Body.List)
			if err != nil {
				return "", err
			}
			var el string
			switch e := x.Else.(type) {
			case nil:
				el, err = stmts(l[1:])
			case *ast.BlockStmt:
				el, err = stmts(append(append([]ast.Stmt{}, e.List...), l[1:]...))
			case *ast.IfStmt:
				el, err = stmts(append([]ast.Stmt{e}, l[1:]...))
			}
			if err != nil {
				return "", err
			}
			return "if " + c + " then " + th + "\n  else " + el, nil
		}
		return "", fmt.Errorf("concatToolCalls: comparator statement outside the translated fragment")
	}
	body, err := stmts(less.Body.List[1:])
	if err != nil {
		return "", err
	}
	return "Definition gen_tc_less (a b : option Z) : option bool :=\n  " + body + ".\n\nDefinition gen_tc_sort_stable : bool := " + stable + ".\n", nil
}

func c14ExtractConcatCode(repo string) (string, string, error) {
	fset := token.NewFileSet()
	f, err := parseGo(fset, repo, "internal", "concat.go")
	if err != nil {
		return "", "", err
	}
	g, err := parseGo(fset, repo, "schema", "message.go")
	if err != nil {
		return "", "", err
	}
	specs := []c14Spec{
		{name: "toSliceValue", paramType: "[]any", paramKind: c14kAnys, resKind: c14kSlice, errCode: "E_TYPE"},
		{name: "concatSliceValue", paramType: "reflect.Value", paramKind: c14kSlice, resKind: c14kOpt, errCode: "E_MULTI"},
		{name: "concatMaps", paramType: "reflect.Value", paramKind: c14kSlice, resKind: c14kOpt, errCode: "E_TYPE", self: true},
		{name: "concatInterfaces", paramType: "reflect.Value", paramKind: c14kSlice, resKind: c14kOpt, errCode: "E_TYPE", extra: "concat_maps", extraFn: "concatMaps"},
	}
	funcs := map[string]c14Fn{}
	var defs []string
	for _, sp := range specs {
		fs := map[string]c14Fn{}
		for k, v := range funcs {
			fs[k] = v
		}
		if sp.extra != "" {
			fs[sp.extraFn] = c14Fn{sp.extra, c14kSlice, c14kOpt}
		}
		d, err := c14Function(f, sp, fs)
		if err != nil {
			return "", "", err
		}
		defs = append(defs, d)
		if !sp.self {
			funcs[sp.name] = c14Fn{"gen_" + sp.name, sp.paramKind, sp.resKind}
		}
	}
	tc, err := c14ToolCallSort(g)
	if err != nil {
		return "", "", err
	}
	var b strings.Builder
	b.WriteString("(* Gen/ConcatCode.v — GENERATED by tools/go2v (extractor \"concatcode\") from internal/concat.go\n")
	b.WriteString("   (toSliceValue, concatSliceValue, concatMaps, concatInterfaces, translated statement by statement) and\n")
	b.WriteString("   schema/message.go (the sort call of concatToolCalls and its comparator). Do not edit. *)\n")
	b.WriteString("From Eino Require Import Base.Util Model.ConcatTable Model.Concat Model.ConcatGenLib.\n\n")
	b.WriteString("Definition tie_available : bool := true.\n\nSection Gen.\nContext {U : UserFn}.\n\n")
	b.WriteString(strings.Join(defs, "\n"))
	b.WriteString("\nEnd Gen.\n\n")
	b.WriteString(tc)
	_ = sort.Strings
	return "ConcatCode.v", b.String(), nil
}
