package main

// More normalisation of flow/agent/react/react.go before translation (round 6): closures that a rewrite
// LIFTED OUT of NewAgent / buildReturnDirectly into private package-level functions are put back.
//
//   A. a private package-level function F of the file (no receiver) that a graph-building function mentions
//      as a VALUE (handed to compose.TransformableLambda, compose.NewStreamGraphBranch, WithStatePreHandler …,
//      never called there) is the closure `F := func(…) … {…}` capturing nothing: that assignment is put at the
//      front of the graph-building function (the name stays, so every mention now finds the local);
//   B. a function literal whose whole body is `return h(a1, …, an)` with identifiers as arguments and h a private
//      package-level function mentioned nowhere else: the body of h, its parameters renamed to the arguments,
//      takes the place of the return (refused when a name declared inside h equals an argument);
//   C. `x := compose.New…Branch(…)` immediately followed by the only statement mentioning x: the call takes
//      the place of x.
//
// Each step is refused (source left as it is) when its side conditions do not hold.  Only go/ast.

import (
	"go/ast"
	"go/token"
	"go/types"
	"strings"
)

// the identifiers of n that are mentions of a variable / function (not field selectors, not keys of composite literals)
func c18_mentions(n ast.Node, visit func(id *ast.Ident, called bool)) {
	var walk func(n ast.Node)
	walk = func(n ast.Node) {
		ast.Inspect(n, func(m ast.Node) bool {
			switch x := m.(type) {
			case *ast.SelectorExpr:
				walk(x.X)
				return false
			case *ast.KeyValueExpr:
				if _, isId := x.Key.(*ast.Ident); !isId {
					walk(x.Key)
				}
				walk(x.Value)
				return false
			case *ast.CallExpr:
				if id, ok := x.Fun.(*ast.Ident); ok {
					visit(id, true)
				} else {
					walk(x.Fun)
				}
				for _, a := range x.Args {
					walk(a)
				}
				return false
			case *ast.Ident:
				visit(x, false)
			}
			return true
		})
	}
	walk(n)
}

func c18_privateFuncs(f *ast.File, keep map[string]bool) map[string]*ast.FuncDecl {
	out := map[string]*ast.FuncDecl{}
	for _, d := range f.Decls {
		fn, ok := d.(*ast.FuncDecl)
		if !ok || fn.Recv != nil || fn.Body == nil || fn.Type.TypeParams != nil || keep[fn.Name.Name] || ast.IsExported(fn.Name.Name) {
			continue
		}
		out[fn.Name.Name] = fn
	}
	return out
}

// names declared somewhere inside n (:=, var, range, parameters and results of function literals)
func c18_declaredNames(n ast.Node) map[string]bool {
	out := map[string]bool{}
	ast.Inspect(n, func(m ast.Node) bool {
		switch x := m.(type) {
		case *ast.AssignStmt:
			if x.Tok == token.DEFINE {
				for _, l := range x.Lhs {
					if id, ok := l.(*ast.Ident); ok {
						out[id.Name] = true
					}
				}
			}
		case *ast.ValueSpec:
			for _, id := range x.Names {
				out[id.Name] = true
			}
		case *ast.RangeStmt:
			if x.Tok == token.DEFINE {
				for _, e := range []ast.Expr{x.Key, x.Value} {
					if id, ok := e.(*ast.Ident); ok {
						out[id.Name] = true
					}
				}
			}
		case *ast.FuncType:
			for _, fl := range []*ast.FieldList{x.Params, x.Results} {
				if fl != nil {
					for _, fd := range fl.List {
						for _, id := range fd.Names {
							out[id.Name] = true
						}
					}
				}
			}
		}
		return true
	})
	return out
}

// how often every private function is mentioned in the file (its own declaration does not count)
func c18_countMentions(f *ast.File, priv map[string]*ast.FuncDecl) map[string]int {
	count := map[string]int{}
	tally := func(id *ast.Ident, _ bool) {
		if _, ok := priv[id.Name]; ok {
			count[id.Name]++
		}
	}
	for _, d := range f.Decls {
		if fn, ok := d.(*ast.FuncDecl); ok {
			if fn.Body != nil {
				c18_mentions(fn.Body, tally)
			}
			continue
		}
		c18_mentions(d, tally)
	}
	return count
}

// A: lifted closures are put back at the front of the graph-building functions
func c18_unliftValues(f *ast.File, builders []string, keep map[string]bool) {
	priv := c18_privateFuncs(f, keep)
	total := c18_countMentions(f, priv)
	for _, bn := range builders {
		b := c18_topFunc(f, bn)
		if b == nil || b.Body == nil {
			continue
		}
		declared := c18_declaredNames(b)
		var order []string
		here := map[string]int{}
		calledToo := map[string]bool{}
		c18_mentions(b.Body, func(id *ast.Ident, called bool) {
			if _, ok := priv[id.Name]; !ok || declared[id.Name] {
				return
			}
			if called {
				calledToo[id.Name] = true
				return
			}
			if here[id.Name] == 0 {
				order = append(order, id.Name)
			}
			here[id.Name]++
		})
		var front []ast.Stmt
		for _, name := range order {
			// only a function that is mentioned nowhere else: its declaration goes away with the rewrite
			if calledToo[name] || here[name] != total[name] {
				continue
			}
			fn := priv[name]
			for i, d := range f.Decls {
				if d == ast.Decl(fn) {
					f.Decls = append(f.Decls[:i:i], f.Decls[i+1:]...)
					break
				}
			}
			front = append(front, &ast.AssignStmt{
				Lhs: []ast.Expr{ast.NewIdent(name)}, Tok: token.DEFINE,
				Rhs: []ast.Expr{&ast.FuncLit{Type: fn.Type, Body: fn.Body}},
			})
		}
		b.Body.List = append(front, b.Body.List...)
	}
}

func c18_renameIdents(n ast.Node, ren map[string]string) {
	c18_mentions(n, func(id *ast.Ident, _ bool) {
		if to, ok := ren[id.Name]; ok {
			id.Name = to
		}
	})
}

// B: `func(…) … { return h(a1, …, an) }` -> the body of h
func c18_inlineTailCalls(f *ast.File, keep map[string]bool) {
	priv := c18_privateFuncs(f, keep)
	count := c18_countMentions(f, priv)
	for changed, rounds := true, 0; changed && rounds < 4; rounds++ {
		changed = false
		ast.Inspect(f, func(n ast.Node) bool {
			fl, ok := n.(*ast.FuncLit)
			if !ok || fl.Body == nil || len(fl.Body.List) != 1 {
				return true
			}
			r, ok := fl.Body.List[0].(*ast.ReturnStmt)
			if !ok || len(r.Results) != 1 {
				return true
			}
			call, ok := r.Results[0].(*ast.CallExpr)
			if !ok || call.Ellipsis != token.NoPos {
				return true
			}
			hid, ok := call.Fun.(*ast.Ident)
			if !ok {
				return true
			}
			h, ok := priv[hid.Name]
			// this call is its only mention
			if !ok || count[hid.Name] != 1 {
				return true
			}
			if c18_resultList(h.Type) != c18_resultList(fl.Type) {
				return true
			}
			if h.Type.Results != nil {
				for _, fd := range h.Type.Results.List {
					if len(fd.Names) > 0 {
						return true // named results: a bare return would mean something else in the closure
					}
				}
			}
			var params []string
			if h.Type.Params != nil {
				for _, fd := range h.Type.Params.List {
					if _, variadic := fd.Type.(*ast.Ellipsis); variadic {
						return true
					}
					if len(fd.Names) == 0 {
						params = append(params, "_")
					}
					for _, id := range fd.Names {
						params = append(params, id.Name)
					}
				}
			}
			if len(params) != len(call.Args) {
				return true
			}
			inner := c18_declaredNames(h.Body)
			ren := map[string]string{}
			for i, a := range call.Args {
				id, ok := a.(*ast.Ident)
				if !ok || inner[id.Name] {
					return true
				}
				if params[i] == "_" || params[i] == id.Name {
					continue
				}
				if inner[params[i]] {
					return true // the parameter is shadowed somewhere inside h: leave it
				}
				ren[params[i]] = id.Name
			}
			// an argument that is also the name of ANOTHER parameter of h would be captured by the renaming
			for _, to := range ren {
				for _, p := range params {
					if p == to && ren[p] != "" && ren[p] != to {
						return true
					}
				}
			}
			c18_renameIdents(h.Body, ren)
			fl.Body = h.Body
			count[hid.Name] = 0
			changed = true
			return false
		})
	}
}

// C: `x := compose.New…Branch(…)` followed by the only statement that mentions x
func c18_inlineBranchLocals(f *ast.File) {
	ast.Inspect(f, func(n ast.Node) bool {
		fn, ok := n.(*ast.FuncDecl)
		if !ok || fn.Body == nil {
			return true
		}
		list := fn.Body.List
		for i := 0; i+1 < len(list); i++ {
			as, ok := list[i].(*ast.AssignStmt)
			if !ok || as.Tok != token.DEFINE || len(as.Lhs) != 1 || len(as.Rhs) != 1 {
				continue
			}
			x, ok := as.Lhs[0].(*ast.Ident)
			call, ok2 := as.Rhs[0].(*ast.CallExpr)
			if !ok || !ok2 {
				continue
			}
			fun := types.ExprString(call.Fun)
			if !strings.HasPrefix(fun, "compose.New") || !strings.HasSuffix(fun, "Branch") {
				continue
			}
			total, inNext := 0, 0
			c18_mentions(fn.Body, func(id *ast.Ident, _ bool) {
				if id.Name == x.Name {
					total++
				}
			})
			hasClosure := false
			ast.Inspect(list[i+1], func(m ast.Node) bool {
				if _, ok := m.(*ast.FuncLit); ok {
					hasClosure = true
				}
				return true
			})
			c18_mentions(list[i+1], func(id *ast.Ident, _ bool) {
				if id.Name == x.Name {
					inNext++
				}
			})
			if total != 2 || inNext != 1 || hasClosure { // its definition and one use
				continue
			}
			replaced := false
			ast.Inspect(list[i+1], func(m ast.Node) bool {
				c, ok := m.(*ast.CallExpr)
				if !ok {
					return true
				}
				for k, a := range c.Args {
					if c18_isIdent(a, x.Name) && !replaced {
						c.Args[k] = call
						replaced = true
					}
				}
				return true
			})
			if replaced {
				list = append(list[:i], list[i+1:]...)
				fn.Body.List = list
				i--
			}
		}
		return true
	})
}
