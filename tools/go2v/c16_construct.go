package main

// Extractor "c16construct" of property C16 -> coq/Gen/OptConstruct.v
//
//   constructors        every exported top-level function With… of package compose that returns an Option: which
//                       routing field of the Option it builds holds the function's (variadic) arguments — options,
//                       handler — as a table (name, (options := the arguments, handler := the arguments)). A field
//                       set to an empty slice (make(T, 0), nil, T{}) counts as not set (only len is ever looked at);
//                       paths must be empty; the other fields (maxRunSteps, checkPointID, stateModifier) carry no
//                       routing. "The arguments" = the variadic parameter itself, or a local slice built from it by the
//                       copy loop  o := make([]any, 0, len(p)); for i := range p { o = append(o, p[i]) }.
//   designateNode_paths Option.DesignateNode translated statement by statement (make of a slice of nil pointers,
//                       the indexed loop that fills it with NewNodePath(k), the call of DesignateNodeWithPath with it).
//
// Proofs/GenAgreeC16Ctor.v proves the table equal to Model/OptionsCtor.v constructors (each row one of the three shapes
// Model/Options.v build_one knows) and designateNode_paths key = Some (map (fun k => Some [k]) key): no nil pointer is
// left, no index is out of range, one path of length 1 per key, in order.

import (
	"fmt"
	"go/ast"
	"go/parser"
	"go/token"
	"path/filepath"
	"sort"
	"strings"
)

const c16CtorNeutral = "(* Gen/OptConstruct.v — translator tie UNAVAILABLE: tools/go2v (extractor \"c16construct\") did not recognise the\n" +
	"   shape of an Option constructor of package compose or of Option.DesignateNode; the model's own definitions are\n   re-exported. *)\n" +
	"From Eino Require Import Base.Util Model.Options Model.OptionsCtor.\n\nDefinition tie_available : bool := false.\n\n" +
	"Definition constructors : list (string * (bool * bool)) := Model.OptionsCtor.constructors.\n" +
	"Definition designateNode_paths (key : list key) : option (list (option path)) := Some (map (fun k => Some [k]) key).\n"

func init() {
	register("c16construct", c16ExtractConstruct)
	registerFallback("c16construct", "OptConstruct.v", c16CtorNeutral)
}

// is e an empty slice: make(T, 0[, c]) | nil | T{} with no elements
func c16CtorEmpty(e ast.Expr) bool {
	switch x := e.(type) {
	case *ast.Ident:
		return x.Name == "nil"
	case *ast.CompositeLit:
		_, isArr := x.Type.(*ast.ArrayType)
		return isArr && len(x.Elts) == 0
	case *ast.CallExpr:
		if c16Str(x.Fun) == "make" && len(x.Args) >= 2 {
			lit, ok := x.Args[1].(*ast.BasicLit)
			return ok && lit.Value == "0"
		}
	}
	return false
}

// c16CtorRow analyses a function whose result is an Option: (options := args, handler := args)
func c16CtorRow(fn *ast.FuncDecl, funcs map[string]*ast.FuncDecl, depth int) (bool, bool, error) {
	bad := func(format string, a ...any) (bool, bool, error) {
		return false, false, fmt.Errorf("%s: %s", fn.Name.Name, fmt.Sprintf(format, a...))
	}
	// the variadic parameter (if any)
	variadic := ""
	for _, fl := range fn.Type.Params.List {
		if _, ok := fl.Type.(*ast.Ellipsis); ok && len(fl.Names) == 1 {
			variadic = fl.Names[0].Name
		}
	}
	if fn.Body == nil || len(fn.Body.List) == 0 {
		return bad("no body")
	}
	args := map[string]bool{} // expressions that hold the arguments, in order
	if variadic != "" {
		args[variadic] = true
	}
	body := fn.Body.List
	// copy loops in front of the return
	for len(body) >= 3 {
		as, ok := body[0].(*ast.AssignStmt)
		if !ok || as.Tok != token.DEFINE || len(as.Lhs) != 1 || len(as.Rhs) != 1 {
			break
		}
		mk, ok := as.Rhs[0].(*ast.CallExpr)
		if !ok || c16Str(mk.Fun) != "make" || len(mk.Args) != 3 || c16Str(mk.Args[1]) != "0" {
			break
		}
		local := c16Str(as.Lhs[0])
		rg, ok := body[1].(*ast.RangeStmt)
		if !ok || len(rg.Body.List) != 1 || !args[c16Str(rg.X)] || c16Str(mk.Args[2]) != "len("+c16Str(rg.X)+")" {
			break
		}
		src := c16Str(rg.X)
		ap, ok := rg.Body.List[0].(*ast.AssignStmt)
		if !ok || ap.Tok != token.ASSIGN || len(ap.Lhs) != 1 || len(ap.Rhs) != 1 || c16Str(ap.Lhs[0]) != local {
			break
		}
		call, ok := ap.Rhs[0].(*ast.CallExpr)
		if !ok || c16Str(call.Fun) != "append" || len(call.Args) != 2 || call.Ellipsis.IsValid() || c16Str(call.Args[0]) != local {
			break
		}
		el := c16Str(call.Args[1])
		okEl := false
		if rg.Key != nil && c16Str(rg.Key) != "_" && rg.Value == nil && el == src+"["+c16Str(rg.Key)+"]" {
			okEl = true
		}
		if rg.Value != nil && c16Str(rg.Value) != "_" && el == c16Str(rg.Value) {
			okEl = true
		}
		if !okEl {
			break
		}
		args[local] = true
		body = body[2:]
	}
	if len(body) != 1 {
		return bad("body is not [copy loops;] return")
	}
	ret, ok := body[0].(*ast.ReturnStmt)
	if !ok || len(ret.Results) != 1 {
		return bad("body does not end in return <one value>")
	}
	switch e := ret.Results[0].(type) {
	case *ast.CallExpr:
		// return helper(p...)
		id, ok := e.Fun.(*ast.Ident)
		if !ok || len(e.Args) != 1 || !e.Ellipsis.IsValid() || !args[c16Str(e.Args[0])] || depth >= 3 {
			return bad("return %s", c16Str(e))
		}
		callee := funcs[id.Name]
		if callee == nil || len(callee.Type.Params.List) != 1 {
			return bad("helper %s not found", id.Name)
		}
		if _, ok := callee.Type.Params.List[0].Type.(*ast.Ellipsis); !ok {
			return bad("helper %s is not variadic", id.Name)
		}
		return c16CtorRow(callee, funcs, depth+1)
	case *ast.CompositeLit:
		if c16Str(e.Type) != "Option" {
			return bad("return of a %s literal", c16Str(e.Type))
		}
		o, h := false, false
		for _, el := range e.Elts {
			kv, ok := el.(*ast.KeyValueExpr)
			if !ok {
				return bad("Option literal without field names")
			}
			switch c16Str(kv.Key) {
			case "options", "handler":
				switch {
				case c16CtorEmpty(kv.Value):
				case args[c16Str(kv.Value)]:
					if c16Str(kv.Key) == "options" {
						o = true
					} else {
						h = true
					}
				default:
					return bad("field %s := %s", c16Str(kv.Key), c16Str(kv.Value))
				}
			case "paths":
				if !c16CtorEmpty(kv.Value) {
					return bad("field paths := %s", c16Str(kv.Value))
				}
			case "maxRunSteps", "checkPointID", "stateModifier":
			default:
				return bad("unknown field %s", c16Str(kv.Key))
			}
		}
		return o, h, nil
	}
	return bad("return %s", c16Str(ret.Results[0]))
}

func c16CtorDesignateNode(f *ast.File) (string, error) {
	fn := c16Method(f, "Option", "DesignateNode")
	if fn == nil || fn.Body == nil || len(fn.Recv.List[0].Names) != 1 {
		return "", fmt.Errorf("method Option.DesignateNode (value receiver) not found")
	}
	recv := fn.Recv.List[0].Names[0].Name
	ps := c16Params(fn)
	if len(ps) != 1 || !strings.HasSuffix(ps[0], " ...string") {
		return "", fmt.Errorf("DesignateNode: parameters (%s)", strings.Join(ps, ", "))
	}
	keys := strings.TrimSuffix(ps[0], " ...string")
	bad := func(s ast.Node, what string) (string, error) {
		return "", fmt.Errorf("DesignateNode: %s %s is outside the translated fragment", what, c16Str(s))
	}
	if len(fn.Body.List) != 3 {
		return "", fmt.Errorf("DesignateNode: %d statements", len(fn.Body.List))
	}
	// X := make([]*NodePath, len(keys))
	as, ok := fn.Body.List[0].(*ast.AssignStmt)
	if !ok || as.Tok != token.DEFINE || len(as.Lhs) != 1 || len(as.Rhs) != 1 {
		return "", fmt.Errorf("DesignateNode: first statement is not x := make(...)")
	}
	local := c16Str(as.Lhs[0])
	mk, ok := as.Rhs[0].(*ast.CallExpr)
	if !ok || c16Str(mk.Fun) != "make" || len(mk.Args) != 2 || c16Str(mk.Args[0]) != "[]*NodePath" {
		return bad(as.Rhs[0], "expression")
	}
	var n string
	switch c16Str(mk.Args[1]) {
	case "len(" + keys + ")":
		n = "(List.length key)"
	default:
		lit, ok := mk.Args[1].(*ast.BasicLit)
		if !ok || lit.Kind != token.INT {
			return bad(mk.Args[1], "length")
		}
		n = lit.Value
	}
	// for i, k := range keys { X[i] = NewNodePath(k) }
	rg, ok := fn.Body.List[1].(*ast.RangeStmt)
	if !ok || c16Str(rg.X) != keys || rg.Tok != token.DEFINE || len(rg.Body.List) != 1 {
		return "", fmt.Errorf("DesignateNode: second statement is not a loop over the keys with one statement")
	}
	iv, kv := "", ""
	if rg.Key != nil && c16Str(rg.Key) != "_" {
		iv = c16Str(rg.Key)
	}
	if rg.Value != nil && c16Str(rg.Value) != "_" {
		kv = c16Str(rg.Value)
	}
	st, ok := rg.Body.List[0].(*ast.AssignStmt)
	if !ok || st.Tok != token.ASSIGN || len(st.Lhs) != 1 || len(st.Rhs) != 1 {
		return bad(rg.Body.List[0], "statement")
	}
	ix, ok := st.Lhs[0].(*ast.IndexExpr)
	if !ok || c16Str(ix.X) != local {
		return bad(st.Lhs[0], "assignment target")
	}
	var idx string
	switch {
	case iv != "" && c16Str(ix.Index) == iv:
		idx = "i"
	default:
		lit, ok := ix.Index.(*ast.BasicLit)
		if !ok || lit.Kind != token.INT {
			return bad(ix.Index, "index")
		}
		idx = lit.Value
	}
	np, ok := st.Rhs[0].(*ast.CallExpr)
	if !ok || c16Str(np.Fun) != "NewNodePath" || np.Ellipsis.IsValid() {
		return bad(st.Rhs[0], "expression")
	}
	var els []string
	for _, a := range np.Args {
		switch s := c16Str(a); {
		case kv != "" && s == kv, iv != "" && s == keys+"["+iv+"]":
			els = append(els, "k")
		default:
			return bad(a, "path element")
		}
	}
	// return o.DesignateNodeWithPath(X...)
	ret, ok := fn.Body.List[2].(*ast.ReturnStmt)
	if !ok || len(ret.Results) != 1 {
		return "", fmt.Errorf("DesignateNode: third statement is not a return")
	}
	call, ok := ret.Results[0].(*ast.CallExpr)
	if !ok || c16Str(call.Fun) != recv+".DesignateNodeWithPath" || len(call.Args) != 1 || !call.Ellipsis.IsValid() || c16Str(call.Args[0]) != local {
		return bad(ret.Results[0], "result")
	}
	var b strings.Builder
	b.WriteString("(* func (o Option) DesignateNode(key ...string) Option: the pointers handed to o.DesignateNodeWithPath *)\n")
	b.WriteString("Definition designateNode_paths (key : list key) : option (list (option path)) :=\n")
	b.WriteString("  let " + "nKeys" + " := go_make_nil " + n + " in\n")
	b.WriteString("  match go_range_idx key 0 (fun i k nKeys => go_set " + idx + " (Some [" + strings.Join(els, "; ") + "]) nKeys) nKeys with\n")
	b.WriteString("  | None => None\n  | Some nKeys => Some nKeys\n  end.\n")
	return b.String(), nil
}

func c16ExtractConstruct(repo string) (string, string, error) {
	files, _ := filepath.Glob(filepath.Join(repo, "compose", "*.go"))
	sort.Strings(files)
	fset := token.NewFileSet()
	funcs := map[string]*ast.FuncDecl{}
	var callOpts *ast.File
	for _, p := range files {
		if strings.HasSuffix(p, "_test.go") {
			continue
		}
		f, err := parser.ParseFile(fset, p, nil, 0)
		if err != nil {
			return "", "", err
		}
		if filepath.Base(p) == "graph_call_options.go" {
			callOpts = f
		}
		for _, d := range f.Decls {
			if fn, ok := d.(*ast.FuncDecl); ok && fn.Recv == nil {
				funcs[fn.Name.Name] = fn
			}
		}
	}
	if callOpts == nil {
		return "", "", fmt.Errorf("compose/graph_call_options.go not found")
	}
	var names []string
	for n, fn := range funcs {
		if strings.HasPrefix(n, "With") && ast.IsExported(n) && fn.Type.Results != nil && len(fn.Type.Results.List) == 1 &&
			len(fn.Type.Results.List[0].Names) <= 1 && c16Str(fn.Type.Results.List[0].Type) == "Option" {
			names = append(names, n)
		}
	}
	sort.Strings(names)
	if len(names) == 0 {
		return "", "", fmt.Errorf("no Option constructor found")
	}
	var rows []string
	for _, n := range names {
		o, h, err := c16CtorRow(funcs[n], funcs, 0)
		if err != nil {
			return "", "", err
		}
		rows = append(rows, fmt.Sprintf("    (%s, (%v, %v))", c16CoqStr(n), o, h))
	}
	dn, err := c16CtorDesignateNode(callOpts)
	if err != nil {
		return "", "", err
	}
	var b strings.Builder
	b.WriteString("(* Gen/OptConstruct.v — GENERATED by tools/go2v (extractor \"c16construct\") from compose/*.go (every exported\n")
	b.WriteString("   function With… that returns an Option: which routing field holds its arguments) and compose/graph_call_options.go\n")
	b.WriteString("   (method Option.DesignateNode, statement by statement). Do not edit. *)\n")
	b.WriteString("From Eino Require Import Base.Util Model.Options Model.OptionsCtor.\n\nDefinition tie_available : bool := true.\n\n")
	b.WriteString("(* name, (options := the arguments in order, handler := the arguments in order); paths are empty *)\n")
	b.WriteString("Definition constructors : list (string * (bool * bool)) :=\n  [\n" + strings.Join(rows, ";\n") + " ].\n\n")
	b.WriteString(dn)
	return "OptConstruct.v", b.String(), nil
}
