package main

// Extractor "c09effects" (property C09): the WRITE EFFECTS of the run path of package compose on
// anything that outlives a run.
//
// Property C09 rests on one fact about the code that the Coq development takes as a hypothesis (H1 of
// runs_non_interfering_general; in the engine model it holds by construction): a run writes nothing that
// another run reads, except its own per-run objects.  This extractor re-reads, on every check, every
// function of package compose that is reachable (by name) from runner.run and reports, syntactically:
//
//   assign / incdec / delete / copy / send   a store through an expression whose ROOT is not a per-run or
//                                             local object: the receiver or a parameter of a type that is
//                                             not a per-run type (the compiled record: *runner, *chanCall,
//                                             *GraphBranch, handler managers …; the caller's option values),
//                                             a parameter of slice / map / pointer type (it may alias
//                                             them), a package-level variable, or a local bound to such
//   append                                    append(x, …) where x has such a root (it writes into spare
//                                             capacity of a backing array that outlives the run)
//   call:<name>                               a call of a function of another package that writes into what its first
//                                             argument refers to (sort.Strings, atomic.AddInt32 …) or of a method of a
//                                             type of another package that modifies its receiver (sync.Map.Store,
//                                             sync.Pool.Put, sync.Once.Do, bytes.Buffer.Write/Reset …) on such a root
//   pkgvar                                    any mention of a package-level variable (pools, caches,
//                                             registries) other than an error value made by errors.New /
//                                             fmt.Errorf (sentinels: compared, never written)
//   alloc                                     for initTaskManager / initChannelManager: where every field of
//                                             the returned manager comes from (fresh / record (shared
//                                             read-only) / param / pkg), or where the manager itself comes
//                                             from when it is not a composite literal
//
// Calls of functions and methods of the package are followed BY PROVENANCE (round 5), as if the callee's body
// stood at the call site: a store that a function makes into the container of one of its own parameters (a
// slot of the slice / map, the variable behind the pointer, its backing array) is a store of the CALLER into
// whatever it hands over in that position — nothing when that is an object the caller allocated itself or a
// per-run object, an effect of the caller (rendered with the argument's origin) when it refers to shared data,
// a store through the caller's own parameter (summarised in turn) when it is one; the first result of a
// function that returns (part of) a parameter's object, of its receiver or of a package-level variable refers
// to what the caller handed over / to the caller's receiver expression.  So a loop body or an if arm that is
// extracted into a private helper (or inlined again) leaves the table unchanged.  Functions whose callers are
// not all known (entry points, exported functions, functions and methods used as values) and stores THROUGH
// an element of a parameter (the container's maker does not own what it holds) are reported at the function
// itself, by the parameter's type, as before.  The summaries are computed to a fixed point.
//
// Round 6 (refactorings C16-3, C18-2, C18-3 of refac/, on which the round-5 table broke): (1) m[k] = append(m[k], v)
// through a parameter m — the slice in a slot of the parameter's container grows where it stands — is decided at
// the call sites like a store into the slot (a helper that fills the caller's map of lists = the inlined loop
// body); (2) a NAMED function that takes a context and that a function off the run path hands over as a value
// (compose.TransformableLambda(directReturn)) is a run-time closure written at top level: it is analysed like a
// function of the run path, its locals are those of one invocation, and so are the variables its own closures
// capture; (3) xs[i].f = e for a local xs := make([]T, n) of a per-run type T is the link T.f <- e that the literal
// xs[i] = T{f: e} always was, and a link field name does not apply to a local literal of a type that is known
// not to be per-run (ret := &toolsTuple{…}; ret.meta); (4) pkgVar = e and pkgVar++ written as a bare identifier
// are stores into a package-level variable (until round 6 only a READ of the variable was a mention).
//
// Roots are followed through local bindings (x := r.f[k]; for _, v := range r.l; y := x.g) and rendered
// with local names replaced by what they were bound to (index expressions as []), so that renaming a
// local or reordering independent statements does not change the table.  Per-run types (their receivers,
// parameters and what hangs off them are NOT reported): taskManager, task, channelManager, channel,
// dagChannel, pregelChannel, checkpoint.  Not followed: the verif hooks.  (Until round 4 the methods of
// checkPointer were a boundary; the checkpoint STORE is the caller's, shared by design and keyed by the
// checkpoint id — it is reached through an interface, which is not followed anyway — but the checkPointer
// itself is part of the compiled record: a per-run setting stored in it is a store into shared data.)
//
// No type checker, no aliasing through function values or interfaces, no calls across packages: the analysis
// is part of the trusted base.  It cannot prove the hypothesis; it turns an edit that ADDS a store to
// shared data, an append onto a shared slice, a pool, a lazily filled cache or a package-level variable
// on the run path into a broken proof obligation (Proofs/GenAgreeC09.v) even when no generated case
// reaches the edit.
//
// Output: coq/Gen/C09Effects.v over the vocabulary of Model/IsolationEffects.v.

import (
	"fmt"
	"go/ast"
	"go/parser"
	"go/token"
	"go/types"
	"os"
	"path/filepath"
	"sort"
	"strings"
)

func init() {
	register("c09effects", c09ExtractEffects)
	registerFallback("c09effects", "C09Effects.v", "(* Gen/C09Effects.v — translator tie UNAVAILABLE: tools/go2v (extractor \"c09effects\") did not recognise the\n"+
		"   shape of the run path of package compose (runner.run / initTaskManager / initChannelManager); the\n   model's own tables are re-exported. *)\n"+
		"From Eino Require Import Base.Util Model.IsolationEffects.\n\n"+
		"Definition tie_available : bool := false.\n"+
		"Definition run_path_effects_named : list (string * effect) := map (fun e => (\"\"%string, e)) expected_effects.\n"+
		"Definition run_path_effects : list effect := expected_effects.\n"+
		"Definition task_manager_alloc : list (string * eclass) := expected_task_manager_alloc.\n"+
		"Definition channel_manager_alloc : list (string * eclass) := expected_channel_manager_alloc.\n")
}

func c09Str(s string) string { return `"` + strings.ReplaceAll(s, `"`, `""`) + `"%string` }

type c09Class int

const (
	c09Local c09Class = iota
	c09Run
	c09Param
	c09Captured
	c09Shared
	c09Global
)

func (c c09Class) coq() string {
	return [...]string{"CLocal", "CRun", "CParam", "CCaptured", "CRecord", "CPkg"}[c]
}

var c09PerRunTypes = map[string]bool{"taskManager": true, "task": true, "channelManager": true, "channel": true,
	"dagChannel": true, "pregelChannel": true, "checkpoint": true, "toolCallTask": true}

var c09BoundaryTypes = map[string]bool{}

var c09Builtin = map[string]bool{"string": true, "bool": true, "int": true, "int8": true, "int16": true, "int32": true, "int64": true,
	"uint": true, "uint8": true, "uint16": true, "uint32": true, "uint64": true, "uintptr": true, "byte": true, "rune": true,
	"float32": true, "float64": true, "any": true, "error": true, "struct{}": true}

// functions of other packages that write into what their first argument refers to, and methods of types of
// other packages (sync.Map, sync.Pool, sync.Once, bytes.Buffer, strings.Builder, atomic values, container/list …)
// that modify their receiver: a call of one of them on shared data is a store although no assignment is written
var c09MutatingFuncs = map[string]bool{"sort.Strings": true, "sort.Ints": true, "sort.Float64s": true, "sort.Slice": true,
	"sort.SliceStable": true, "sort.Sort": true, "sort.Stable": true, "slices.Sort": true, "slices.SortFunc": true,
	"slices.SortStableFunc": true, "slices.Reverse": true, "rand.Shuffle": true,
	"atomic.StoreInt32": true, "atomic.StoreInt64": true, "atomic.StoreUint32": true, "atomic.StoreUint64": true, "atomic.StorePointer": true,
	"atomic.AddInt32": true, "atomic.AddInt64": true, "atomic.AddUint32": true, "atomic.AddUint64": true,
	"atomic.SwapInt32": true, "atomic.SwapInt64": true, "atomic.CompareAndSwapInt32": true, "atomic.CompareAndSwapInt64": true,
	"atomic.CompareAndSwapPointer": true, "atomic.SwapPointer": true}

var c09MutatingMethods = map[string]bool{"Store": true, "LoadOrStore": true, "LoadAndDelete": true, "Delete": true, "Swap": true,
	"CompareAndSwap": true, "CompareAndDelete": true, "Add": true, "Put": true, "Do": true, "Reset": true, "Write": true,
	"WriteString": true, "WriteByte": true, "WriteRune": true, "ReadFrom": true, "Grow": true, "Truncate": true,
	"PushBack": true, "PushFront": true, "Remove": true, "InsertBefore": true, "InsertAfter": true, "MoveToFront": true,
	"MoveToBack": true, "Init": true, "Clear": true}

type c09Var struct {
	class  c09Class
	origin string
	typ    string            // base type name when syntactically known
	lit    *ast.CompositeLit // the literal a local was bound to
	capt   bool              // a variable of the enclosing constructor, captured by the closure under analysis
	elem   string            // element type name of a local slice made by make([]T, …) / []T{…}, when syntactically known
}

type c09Func struct {
	decl *ast.FuncDecl
	recv string // receiver base type, "" for functions
}

func (f *c09Func) name() string {
	if f.recv != "" {
		return f.recv + "." + f.decl.Name.Name
	}
	return f.decl.Name.Name
}

type c09Effect struct{ fn, kind, class, path string }

// The table that is compared carries, instead of the function's name, the SCOPE of the effect: the package and
// whether the code is a run-time closure of a constructor.  Renaming a private function, or moving a statement
// from one function to another, leaves it unchanged; the names are listed beside it for the reader (and for the
// error message of a broken agreement).
func (e c09Effect) scope() string {
	pkg, fn := "compose", e.fn
	if i := strings.Index(fn, ":"); i >= 0 {
		pkg, fn = fn[:i], fn[i+1:]
	}
	if strings.HasSuffix(fn, "$closure") {
		return pkg + "$closure"
	}
	return pkg
}

type c09Pkg struct {
	prefix      string                // "" for compose, "react:" / "host:" …
	perRun      map[string]bool       // per-run types of the package
	boundary    map[string]bool       // types whose methods are not followed
	funcs       map[string]*c09Func   // functions by name
	methods     map[string]*c09Func   // "T.m"
	byName      map[string][]*c09Func // methods by method name
	pkgVars     map[string]bool
	sentinels   map[string]bool // package-level error values (errors.New / fmt.Errorf)
	imports     map[string]bool
	effects     map[c09Effect]bool
	analysed    map[string]bool
	notRunTime  map[string]int             // closures not followed (no context parameter), per host function
	paramWrites map[string][]c09ParamWrite // per function: the stores it makes through its own parameters (summary, resolved at the call sites)
	returns     map[string][]c09Return     // per function: what its first result may refer to (a parameter's object, the receiver's, a package-level variable's)
	rootFuncs   map[string]bool            // functions whose callers are not all known: entry points, exported functions, functions used as values
	linkFields  map[string]bool            // fields of per-run types that some literal fills with a reference into shared data (task.call …)
	work        []*c09Func
	changed     bool // a summary grew during this pass: analyse again
}

// base type name of a type expression and whether it is a reference shape (pointer, slice, map, chan, ellipsis)
func c09TypeBase(e ast.Expr) (base string, ref bool) {
	switch t := e.(type) {
	case *ast.StarExpr:
		b, _ := c09TypeBase(t.X)
		return b, true
	case *ast.ArrayType:
		b, _ := c09TypeBase(t.Elt)
		return b, true
	case *ast.Ellipsis:
		b, _ := c09TypeBase(t.Elt)
		return b, true
	case *ast.MapType:
		b, _ := c09TypeBase(t.Value)
		return b, true
	case *ast.ChanType:
		b, _ := c09TypeBase(t.Value)
		return b, true
	case *ast.Ident:
		return t.Name, false
	case *ast.SelectorExpr:
		return types.ExprString(t), false
	case *ast.IndexExpr: // generic instantiation
		return c09TypeBase(t.X)
	case *ast.FuncType:
		return "func", false
	case *ast.InterfaceType:
		return "any", false
	case *ast.StructType:
		return "struct{}", false
	}
	return types.ExprString(e), false
}

func (p *c09Pkg) paramClass(typ ast.Expr) (c09Class, string) {
	base, ref := c09TypeBase(typ)
	switch {
	case p.perRun[base]:
		return c09Run, base
	case base == "func":
		return c09Local, base
	case c09Builtin[base] || strings.Contains(base, "."):
		if ref {
			return c09Param, base
		}
		return c09Local, base
	}
	return c09Shared, base
}

func c09Load(repo, rel, prefix string, perRun, boundary map[string]bool) (*c09Pkg, error) {
	dir := filepath.Join(repo, rel)
	ents, err := os.ReadDir(dir)
	if err != nil {
		return nil, err
	}
	p := &c09Pkg{prefix: prefix, perRun: perRun, boundary: boundary, funcs: map[string]*c09Func{}, methods: map[string]*c09Func{}, byName: map[string][]*c09Func{},
		pkgVars: map[string]bool{}, sentinels: map[string]bool{}, imports: map[string]bool{}, effects: map[c09Effect]bool{}, analysed: map[string]bool{}, notRunTime: map[string]int{}, linkFields: map[string]bool{}, paramWrites: map[string][]c09ParamWrite{}, rootFuncs: map[string]bool{}, returns: map[string][]c09Return{}}
	fset := token.NewFileSet()
	for _, e := range ents {
		n := e.Name()
		if e.IsDir() || !strings.HasSuffix(n, ".go") || strings.HasSuffix(n, "_test.go") || strings.HasPrefix(n, "verif_") {
			continue
		}
		f, err := parser.ParseFile(fset, filepath.Join(dir, n), nil, 0)
		if err != nil {
			return nil, err
		}
		for _, im := range f.Imports {
			name := ""
			if im.Name != nil {
				name = im.Name.Name
			} else {
				s := strings.Trim(im.Path.Value, `"`)
				name = s[strings.LastIndex(s, "/")+1:]
			}
			p.imports[name] = true
		}
		for _, d := range f.Decls {
			switch x := d.(type) {
			case *ast.GenDecl:
				if x.Tok != token.VAR {
					continue
				}
				for _, sp := range x.Specs {
					vs := sp.(*ast.ValueSpec)
					for i, nm := range vs.Names {
						if nm.Name != "_" {
							p.pkgVars[nm.Name] = true
							// an error value made by errors.New / fmt.Errorf: compared with errors.Is, never written
							// (a store through it would still be reported, as a store into a package-level variable)
							if i < len(vs.Values) {
								if call, ok := vs.Values[i].(*ast.CallExpr); ok {
									switch types.ExprString(call.Fun) {
									case "errors.New", "fmt.Errorf":
										p.sentinels[nm.Name] = true
									}
								}
							}
						}
					}
				}
			case *ast.FuncDecl:
				if x.Body == nil {
					continue
				}
				fn := &c09Func{decl: x}
				if x.Recv != nil && len(x.Recv.List) == 1 {
					fn.recv, _ = c09TypeBase(x.Recv.List[0].Type)
					p.methods[fn.recv+"."+x.Name.Name] = fn
					p.byName[x.Name.Name] = append(p.byName[x.Name.Name], fn)
				} else {
					p.funcs[x.Name.Name] = fn
				}
			}
		}
	}
	return p, nil
}

func (p *c09Pkg) enqueue(f *c09Func) {
	if f == nil || p.analysed[f.name()] || p.boundary[f.recv] || strings.HasPrefix(f.decl.Name.Name, "verif") {
		return
	}
	p.analysed[f.name()] = true
	p.work = append(p.work, f)
}

type c09Scope struct {
	p      *c09Pkg
	fn     *c09Func
	env    map[string]*c09Var
	suffix string
	lits   int    // nesting depth of function literals at the point under analysis
	pshape []bool // per parameter of fn (flattened): is its type a container (slice, map, variadic, pointer to slice / map)?
}

// A store that a function makes THROUGH ONE OF ITS OWN PARAMETERS (param #idx, then suffix) writes an
// object of the caller: what it is is decided at the call sites, by the provenance of the argument, as if
// the function's body stood there (an extracted helper = the inlined code).
type c09ParamWrite struct {
	idx    int
	kind   string
	class  c09Class // class by the parameter's type (c09Param: builtin / foreign element type; c09Shared: a type of the package)
	suffix string
	pre    string // kind "link": the field that is made to refer to (part of) the parameter's object, "T.f <- "
}

// splits "param#3([]string)[].x" into (3, "param([]string)", "[].x"); idx < 0 when the path is not rooted at a parameter
func c09ParamRoot(path string) (idx int, root, suffix string) {
	if !strings.HasPrefix(path, "param#") {
		return -1, "", ""
	}
	rest := path[len("param#"):]
	open := strings.Index(rest, "(")
	if open <= 0 {
		return -1, "", ""
	}
	n := 0
	for _, ch := range rest[:open] {
		if ch < '0' || ch > '9' {
			return -1, "", ""
		}
		n = n*10 + int(ch-'0')
	}
	depth := 0
	for i := open; i < len(rest); i++ {
		switch rest[i] {
		case '(':
			depth++
		case ')':
			depth--
			if depth == 0 {
				return n, "param" + rest[open:i+1], rest[i+1:]
			}
		}
	}
	return -1, "", ""
}

// the parameter indices are internal: "param#3(T)" is rendered "param(T)"
func c09Render(path string) string {
	var b strings.Builder
	for {
		i := strings.Index(path, "param#")
		if i < 0 {
			b.WriteString(path)
			return b.String()
		}
		b.WriteString(path[:i+len("param")])
		path = path[i+len("param#"):]
		j := 0
		for j < len(path) && path[j] >= '0' && path[j] <= '9' {
			j++
		}
		path = path[j:]
	}
}

func c09IsStoreKind(kind string) bool { return kind != "link" && kind != "pkgvar" && kind != "alloc" }

// does a store of this kind, this far below the parameter, write the parameter's own container (a slot of the
// slice / map, the slice behind the pointer, its backing array) rather than something reached through an element?
func c09ContainerLevel(kind, suffix string) bool {
	sfx := strings.ReplaceAll(suffix, "[:]", "")
	switch kind {
	case "assign", "incdec", "delete":
		return sfx == "" || sfx == "[]"
	case "append":
		// m[k] = append(m[k], v): the slice in a slot of the parameter's container grows where it stands — as for
		// the slot itself, whose memory that is is decided by who made the container (a helper that fills the
		// caller's map of lists = the inlined loop body, round 6)
		return sfx == "" || sfx == "[]"
	case "copy", "send":
		return sfx == ""
	}
	if strings.HasPrefix(kind, "call:") {
		return sfx == ""
	}
	return false
}

func (s *c09Scope) effect(kind string, class c09Class, path string) {
	if kind == "link" && s.suffix == "" {
		// a per-run object made to refer to what a parameter refers to: to what the caller hands over
		if i := strings.Index(path, " <- "); i >= 0 {
			if idx, _, suffix := c09ParamRoot(path[i+4:]); idx >= 0 && idx < len(s.pshape) {
				s.p.addParamWrite(s.fn.name(), c09ParamWrite{idx, kind, class, suffix, path[:i+4]})
				if !s.p.rootFuncs[s.fn.name()] {
					return
				}
			}
		}
	}
	if c09IsStoreKind(kind) && s.suffix == "" {
		if idx, _, suffix := c09ParamRoot(path); idx >= 0 && idx < len(s.pshape) {
			// provenance decides for a store into the parameter's OWN container (a slot of the slice / map, the
			// variable behind the pointer, the backing array): that is memory of whoever made the container.  A
			// store THROUGH an element is not decided by where the container comes from (a slice the caller
			// made may hold values that outlive the run): it stays what the parameter's type says, reported here.
			if c09ContainerLevel(kind, suffix) && (class == c09Param || (class == c09Shared && s.pshape[idx])) {
				s.p.addParamWrite(s.fn.name(), c09ParamWrite{idx, kind, class, suffix, ""})
				if !s.p.rootFuncs[s.fn.name()] {
					return // reported where the written object comes from (sharedArgs)
				}
			}
		}
	}
	s.p.effects[c09Effect{s.p.prefix + s.fn.name() + s.suffix, kind, class.coq(), c09Render(path)}] = true
}

func (p *c09Pkg) addParamWrite(fn string, w c09ParamWrite) {
	for _, o := range p.paramWrites[fn] {
		if o == w {
			return
		}
	}
	p.paramWrites[fn] = append(p.paramWrites[fn], w)
	p.changed = true
}

func (p *c09Pkg) markRoot(fn string) {
	if !p.rootFuncs[fn] {
		p.rootFuncs[fn] = true
		p.changed = true
	}
}

func c09Join(a, b c09Class) c09Class {
	if a > b {
		return a
	}
	return b
}

// class and rendered origin of an expression
func (s *c09Scope) classOf(e ast.Expr) (c09Class, string) {
	switch x := e.(type) {
	case nil:
		return c09Local, ""
	case *ast.Ident:
		if v, ok := s.env[x.Name]; ok {
			return v.class, v.origin
		}
		if s.p.pkgVars[x.Name] {
			if !s.p.sentinels[x.Name] {
				s.effect("pkgvar", c09Global, x.Name)
			}
			return c09Global, "pkg." + x.Name
		}
		if fn := s.p.funcs[x.Name]; fn != nil { // a function used as a value runs sooner or later, called by we do not know whom
			s.p.enqueue(fn)
			s.p.markRoot(fn.name())
		}
		return c09Local, x.Name
	case *ast.ParenExpr:
		return s.classOf(x.X)
	case *ast.SelectorExpr:
		if id, ok := x.X.(*ast.Ident); ok {
			if _, isVar := s.env[id.Name]; !isVar && !s.p.pkgVars[id.Name] && s.p.imports[id.Name] {
				return c09Local, id.Name + "." + x.Sel.Name
			}
		}
		c, o := s.classOf(x.X)
		for _, m := range s.p.byName[x.Sel.Name] { // a method value (tn.Invoke handed to a lambda constructor) runs later
			s.p.enqueue(m)
			s.p.markRoot(m.name())
		}
		if c <= c09Run && s.p.linkFields[x.Sel.Name] {
			// a per-run object's reference into the compiled record (by field name: the object may be a call's result) —
			// unless the object is a local whose type is syntactically known NOT to be a per-run type (ret := &toolsTuple{…};
			// ret.meta is not toolCallTask.meta, round 6)
			known := false
			if id, ok := x.X.(*ast.Ident); ok {
				if v := s.env[id.Name]; v != nil && v.typ != "" && v.lit != nil && !s.p.perRun[v.typ] {
					known = true
				}
			}
			if !known {
				c = c09Shared
			}
		}
		return c, o + "." + x.Sel.Name
	case *ast.IndexExpr:
		s.classOf(x.Index)
		c, o := s.classOf(x.X)
		return c, o + "[]"
	case *ast.SliceExpr:
		c, o := s.classOf(x.X)
		for _, i := range []ast.Expr{x.Low, x.High, x.Max} {
			if i != nil {
				s.classOf(i)
			}
		}
		return c, o + "[:]"
	case *ast.StarExpr:
		return s.classOf(x.X)
	case *ast.TypeAssertExpr:
		return s.classOf(x.X)
	case *ast.UnaryExpr:
		return s.classOf(x.X)
	case *ast.BinaryExpr:
		s.classOf(x.X)
		s.classOf(x.Y)
		return c09Local, ""
	case *ast.KeyValueExpr:
		return s.classOf(x.Value)
	case *ast.CompositeLit:
		base, _ := c09TypeBase(x.Type)
		for _, el := range x.Elts {
			c, o := s.classOf(el)
			// a per-run object one of whose fields refers to data that outlives the run: read-only by
			// intention (task.call, channelManager.successors …); whatever is reached through it is shared
			if kv, ok := el.(*ast.KeyValueExpr); ok && x.Type != nil && s.p.perRun[base] && c >= c09Captured {
				f := types.ExprString(kv.Key)
				s.p.linkFields[f] = true
				s.effect("link", c, base+"."+f+" <- "+o)
			}
		}
		return c09Local, "literal"
	case *ast.FuncLit:
		s.funcLit(x)
		return c09Local, "func"
	case *ast.BasicLit:
		return c09Local, ""
	case *ast.CallExpr:
		return s.call(x)
	}
	return c09Local, ""
}

func (s *c09Scope) call(x *ast.CallExpr) (c09Class, string) {
	argClasses := func() {
		for _, a := range x.Args {
			s.classOf(a)
		}
	}
	switch f := x.Fun.(type) {
	case *ast.Ident:
		if _, shadow := s.env[f.Name]; !shadow {
			switch f.Name {
			case "append":
				if len(x.Args) == 0 {
					return c09Local, ""
				}
				c, o := s.classOf(x.Args[0])
				for _, a := range x.Args[1:] {
					s.classOf(a)
				}
				if c >= c09Param {
					s.effect("append", c, o)
				}
				return c, o
			case "copy":
				if len(x.Args) == 2 {
					c, o := s.classOf(x.Args[0])
					s.classOf(x.Args[1])
					if c >= c09Param {
						s.effect("copy", c, o)
					}
				}
				return c09Local, ""
			case "delete":
				if len(x.Args) == 2 {
					c, o := s.classOf(x.Args[0])
					s.classOf(x.Args[1])
					if c >= c09Param {
						s.effect("delete", c, o)
					}
				}
				return c09Local, ""
			case "make", "new", "len", "cap", "panic", "recover", "print", "println", "min", "max", "close", "clear":
				argClasses()
				return c09Local, f.Name + "()"
			}
			if fn := s.p.funcs[f.Name]; fn != nil {
				s.p.enqueue(fn)
				s.sharedArgs(fn, x)
				if c, o, ok := s.resultOf(fn, x, c09Local, ""); ok {
					return c, o
				}
				return c09Local, f.Name + "()"
			}
		}
		// a call of a local function value, or a conversion
		argClasses()
		if v, ok := s.env[f.Name]; ok {
			return c09Local, v.origin + "()"
		}
		if len(x.Args) == 1 { // conversion T(x): same object
			return s.classOf(x.Args[0])
		}
		return c09Local, f.Name + "()"
	case *ast.SelectorExpr:
		argClasses()
		// package function?
		if id, ok := f.X.(*ast.Ident); ok {
			if _, isVar := s.env[id.Name]; !isVar && !s.p.pkgVars[id.Name] && s.p.imports[id.Name] {
				if name := id.Name + "." + f.Sel.Name; c09MutatingFuncs[name] && len(x.Args) > 0 {
					if c, o := s.classOf(x.Args[0]); c >= c09Param {
						s.effect("call:"+name, c, o)
					}
				}
				return c09Local, id.Name + "." + f.Sel.Name + "()"
			}
		}
		c, o := s.classOf(f.X)
		if f.Sel.Name == "Value" && len(x.Args) == 1 && strings.HasPrefix(c09Render(o), "param(context.Context)") {
			// what a context carries is shared by everybody who is handed that context
			return c09Captured, "ctx.Value()"
		}
		// resolve the callee by the receiver's type when it is known, else by name
		typ := ""
		if id, ok := f.X.(*ast.Ident); ok {
			if v, ok := s.env[id.Name]; ok {
				typ = v.typ
			}
		}
		rc, ro, rok := c09Local, "", false
		result := func(m *c09Func) {
			if c1, o1, ok := s.resultOf(m, x, c, o); ok && (!rok || c1 > rc) {
				rc, ro, rok = c1, o1, true
			}
		}
		if m := s.p.methods[typ+"."+f.Sel.Name]; typ != "" && m != nil {
			s.p.enqueue(m)
			s.sharedArgs(m, x)
			result(m)
		} else {
			for _, m := range s.p.byName[f.Sel.Name] {
				s.p.enqueue(m)
				s.sharedArgs(m, x)
				result(m)
			}
			if len(s.p.byName[f.Sel.Name]) == 0 && c >= c09Param && c09MutatingMethods[f.Sel.Name] {
				s.effect("call:"+f.Sel.Name, c, o) // a method of a type of another package that modifies its receiver
			}
		}
		if c == c09Global {
			return c09Global, o + "." + f.Sel.Name + "()"
		}
		if rok {
			return rc, ro
		}
		return c09Local, o + "." + f.Sel.Name + "()"
	case *ast.FuncLit:
		argClasses()
		s.funcLit(f)
		return c09Local, "func()"
	case *ast.IndexExpr: // generic function instantiation f[T](…)
		argClasses()
		if id, ok := f.X.(*ast.Ident); ok {
			if fn := s.p.funcs[id.Name]; fn != nil {
				s.p.enqueue(fn)
			}
			return c09Local, id.Name + "()"
		}
	case *ast.ArrayType, *ast.MapType, *ast.StarExpr, *ast.InterfaceType, *ast.ParenExpr: // conversions
		if len(x.Args) == 1 {
			return s.classOf(x.Args[0])
		}
	}
	argClasses()
	return c09Local, ""
}

// a call of a function of the package that stores through its parameters: every such store is a store of the
// CALLER into whatever it hands over in that position — nothing when that is an object the caller (or the run)
// allocated itself, an effect of the caller (rendered as if the callee's body stood here) when it refers to
// shared data, and a store through the caller's own parameter (summarised in turn) when it is one
func (s *c09Scope) sharedArgs(callee *c09Func, x *ast.CallExpr) {
	nparams, variadic := 0, false
	if callee.decl.Type.Params != nil {
		for _, fl := range callee.decl.Type.Params.List {
			n := len(fl.Names)
			if n == 0 {
				n = 1
			}
			nparams += n
			_, variadic = fl.Type.(*ast.Ellipsis)
		}
	}
	writes := s.p.paramWrites[callee.name()]
	for i, a := range x.Args {
		c, o := s.classOf(a)
		slot, spread := i, true
		if variadic && i >= nparams-1 {
			slot, spread = nparams-1, x.Ellipsis.IsValid()
		}
		if c < c09Param {
			continue
		}
		for _, w := range writes {
			if w.idx != slot {
				continue
			}
			suffix := w.suffix
			if !spread { // one element of the variadic parameter
				suffix = strings.TrimPrefix(suffix, "[]")
			}
			s.effect(w.kind, c, w.pre+o+suffix)
		}
	}
}

// What the first result of a function of the package may refer to: the object behind one of its parameters
// (then: whatever the caller handed over there), something reached from its receiver (then: from the caller's
// receiver expression), a package-level variable, a context value.  A result that is none of these is fresh.
type c09Return struct {
	class  c09Class
	origin string // "param#i(T)…", the path below the receiver when recv is set, or an origin as it stands
	recv   bool
}

func (p *c09Pkg) addReturn(fn string, r c09Return) {
	for _, o := range p.returns[fn] {
		if o == r {
			return
		}
	}
	p.returns[fn] = append(p.returns[fn], r)
	p.changed = true
}

func (s *c09Scope) noteReturn(e ast.Expr) {
	c, o := s.classOf(e)
	if s.lits > 0 || s.suffix != "" || c < c09Param {
		return
	}
	if s.fn.recv != "" && (o == s.fn.recv || strings.HasPrefix(o, s.fn.recv+".") || strings.HasPrefix(o, s.fn.recv+"[")) {
		if c > c09Run { // by the receiver's type or through a link field
			s.p.addReturn(s.fn.name(), c09Return{c, o[len(s.fn.recv):], true})
		}
		return
	}
	s.p.addReturn(s.fn.name(), c09Return{c, o, false})
}

func (s *c09Scope) resultOf(callee *c09Func, x *ast.CallExpr, recvClass c09Class, recvOrigin string) (c09Class, string, bool) {
	best, bo, found := c09Local, "", false
	take := func(c c09Class, o string) {
		if c >= c09Param && (!found || c > best) {
			best, bo, found = c, o, true
		}
	}
	for _, r := range s.p.returns[callee.name()] {
		switch idx, _, suffix := c09ParamRoot(r.origin); {
		case r.recv:
			take(c09Join(recvClass, r.class), recvOrigin+r.origin)
		case idx >= 0:
			if idx < len(x.Args) {
				c, o := s.classOf(x.Args[idx])
				if r.class > c09Param { // shared by what it is (the type, a link field on the way), whoever made the argument
					c = c09Join(c, r.class)
				}
				take(c, o+suffix)
			}
		default:
			take(r.class, r.origin)
		}
	}
	return best, bo, found
}

func (s *c09Scope) bind(name string, c c09Class, origin string, rhs ast.Expr, define bool) {
	if name == "_" {
		return
	}
	if _, local := s.env[name]; !local && !define && s.p.pkgVars[name] {
		// pkgVar = e: a store into a package-level variable written as a bare identifier (round 6: a pure write
		// mentions the variable nowhere else)
		if !s.p.sentinels[name] {
			s.effect("pkgvar", c09Global, name)
		}
		s.effect("assign", c09Global, "pkg."+name)
		return
	}
	v := &c09Var{class: c, origin: origin}
	switch r := rhs.(type) {
	case *ast.CompositeLit:
		v.lit = r
		v.typ, _ = c09TypeBase(r.Type)
	case *ast.UnaryExpr:
		if cl, ok := r.X.(*ast.CompositeLit); ok && r.Op == token.AND {
			v.lit = cl
			v.typ, _ = c09TypeBase(cl.Type)
		}
	case *ast.CallExpr:
		if id, ok := r.Fun.(*ast.Ident); ok && id.Name == "make" && len(r.Args) > 0 {
			if at, ok := r.Args[0].(*ast.ArrayType); ok && at.Len == nil {
				v.elem, _ = c09TypeBase(at.Elt)
			}
		}
	}
	if cl, ok := rhs.(*ast.CompositeLit); ok {
		if at, ok := cl.Type.(*ast.ArrayType); ok && at.Len == nil {
			v.elem, _ = c09TypeBase(at.Elt)
		}
	}
	if old, ok := s.env[name]; ok && !define {
		if v.elem == "" {
			v.elem = old.elem
		}
		if old.capt {
			s.effect("assign", c09Captured, old.origin)
			v.capt = true
		}
		v.class = c09Join(old.class, c)
		if v.class == old.class && old.class > c {
			v.origin = old.origin
		}
		if v.typ == "" {
			v.typ = old.typ
		}
		if v.lit == nil {
			v.lit = old.lit
		}
	}
	s.env[name] = v
}

func (s *c09Scope) store(kind string, lhs ast.Expr) {
	for {
		if p, ok := lhs.(*ast.ParenExpr); ok {
			lhs = p.X
			continue
		}
		break
	}
	switch l := lhs.(type) {
	case *ast.Ident:
		return
	case *ast.SelectorExpr:
		// the slot written is a field of the object l.X: a per-run object's link field may be SET
		c, o := s.classOf(l.X)
		if c >= c09Param {
			s.effect(kind, c, o+"."+l.Sel.Name)
		}
		return
	}
	c, o := s.classOf(lhs)
	if c >= c09Param {
		s.effect(kind, c, o)
	}
}

// x.f = e where x is a per-run (or local) object and e refers to shared data: a new link
func (s *c09Scope) linkStore(lhs ast.Expr, c c09Class, o string) {
	sel, ok := lhs.(*ast.SelectorExpr)
	if !ok || c < c09Param {
		return // (a parameter of slice / map / pointer type counts: the caller's input adopted by a per-run object)
	}
	xc, _ := s.classOf(sel.X)
	if xc > c09Run {
		return
	}
	typ := "?"
	if id, ok := sel.X.(*ast.Ident); ok {
		if v := s.env[id.Name]; v != nil && v.typ != "" {
			typ = v.typ
		}
	}
	// xs[i].f = e, xs a local slice of per-run objects (xs := make([]T, n)): the same link as xs[i] = T{f: e} (round 6)
	if ix, ok := sel.X.(*ast.IndexExpr); ok {
		if id, ok := ix.X.(*ast.Ident); ok {
			if v := s.env[id.Name]; v != nil && v.elem != "" && c >= c09Captured { // as for a field of a literal (classOf)
				typ = v.elem
			}
		}
	}
	if !s.p.perRun[typ] {
		return
	}
	s.p.linkFields[sel.Sel.Name] = true
	s.effect("link", c, typ+"."+sel.Sel.Name+" <- "+o)
}

func (s *c09Scope) funcLit(f *ast.FuncLit) {
	saved := map[string]*c09Var{}
	for k, v := range s.env {
		saved[k] = v
	}
	if f.Type.Params != nil {
		for _, fl := range f.Type.Params.List {
			c, t := s.p.paramClass(fl.Type)
			for _, n := range fl.Names {
				s.env[n.Name] = &c09Var{class: c, origin: "param(" + strings.ReplaceAll(types.ExprString(fl.Type), " ", "") + ")", typ: t}
			}
		}
	}
	if f.Type.Results != nil {
		for _, fl := range f.Type.Results.List {
			for _, n := range fl.Names {
				s.env[n.Name] = &c09Var{class: c09Local, origin: "result"}
			}
		}
	}
	s.lits++
	s.block(f.Body)
	s.lits--
	s.env = saved
}

func (s *c09Scope) block(b *ast.BlockStmt) {
	if b == nil {
		return
	}
	for _, st := range b.List {
		s.stmt(st)
	}
}

func (s *c09Scope) stmt(st ast.Stmt) {
	switch x := st.(type) {
	case nil:
	case *ast.BlockStmt:
		s.block(x)
	case *ast.ExprStmt:
		s.classOf(x.X)
	case *ast.AssignStmt:
		define := x.Tok == token.DEFINE
		if len(x.Lhs) == len(x.Rhs) {
			for i, l := range x.Lhs {
				c, o := s.classOf(x.Rhs[i])
				if id, ok := l.(*ast.Ident); ok {
					s.bind(id.Name, c, o, x.Rhs[i], define)
				} else {
					s.store("assign", l)
					s.linkStore(l, c, o)
				}
			}
		} else if len(x.Rhs) == 1 {
			c, o := s.classOf(x.Rhs[0])
			for i, l := range x.Lhs {
				if id, ok := l.(*ast.Ident); ok {
					if i == 0 {
						s.bind(id.Name, c, o, x.Rhs[0], define)
					} else {
						s.bind(id.Name, c09Local, "", nil, define)
					}
				} else {
					s.store("assign", l)
				}
			}
		}
	case *ast.IncDecStmt:
		if id, ok := x.X.(*ast.Ident); ok {
			if v := s.env[id.Name]; v != nil && v.capt {
				s.effect("incdec", c09Captured, v.origin)
			} else if v == nil && s.p.pkgVars[id.Name] {
				s.effect("pkgvar", c09Global, id.Name)
				s.effect("incdec", c09Global, "pkg."+id.Name)
			}
		}
		s.store("incdec", x.X)
	case *ast.SendStmt:
		s.classOf(x.Value)
		c, o := s.classOf(x.Chan)
		if c >= c09Param {
			s.effect("send", c, o)
		}
	case *ast.DeclStmt:
		if gd, ok := x.Decl.(*ast.GenDecl); ok && gd.Tok == token.VAR {
			for _, sp := range gd.Specs {
				vs := sp.(*ast.ValueSpec)
				for i, n := range vs.Names {
					c, o := c09Local, ""
					var rhs ast.Expr
					if i < len(vs.Values) {
						rhs = vs.Values[i]
						c, o = s.classOf(rhs)
					}
					s.bind(n.Name, c, o, rhs, true)
					if vs.Type != nil && s.env[n.Name] != nil && s.env[n.Name].typ == "" {
						s.env[n.Name].typ, _ = c09TypeBase(vs.Type)
					}
				}
			}
		}
	case *ast.IfStmt:
		s.stmt(x.Init)
		s.classOf(x.Cond)
		s.block(x.Body)
		s.stmt(x.Else)
	case *ast.ForStmt:
		s.stmt(x.Init)
		if x.Cond != nil {
			s.classOf(x.Cond)
		}
		s.block(x.Body)
		s.stmt(x.Post)
		s.block(x.Body) // second pass: bindings made late in the body reach its beginning
	case *ast.RangeStmt:
		c, o := s.classOf(x.X)
		define := x.Tok == token.DEFINE
		if id, ok := x.Key.(*ast.Ident); ok {
			s.bind(id.Name, c09Local, "", nil, define)
		} else if x.Key != nil {
			s.store("assign", x.Key)
		}
		if id, ok := x.Value.(*ast.Ident); ok {
			s.bind(id.Name, c, o+"[]", nil, define)
		} else if x.Value != nil {
			s.store("assign", x.Value)
		}
		s.block(x.Body)
		s.block(x.Body)
	case *ast.SwitchStmt:
		s.stmt(x.Init)
		if x.Tag != nil {
			s.classOf(x.Tag)
		}
		s.block(x.Body)
	case *ast.TypeSwitchStmt:
		s.stmt(x.Init)
		s.stmt(x.Assign)
		s.block(x.Body)
	case *ast.CaseClause:
		for _, e := range x.List {
			s.classOf(e)
		}
		for _, b := range x.Body {
			s.stmt(b)
		}
	case *ast.SelectStmt:
		s.block(x.Body)
	case *ast.CommClause:
		s.stmt(x.Comm)
		for _, b := range x.Body {
			s.stmt(b)
		}
	case *ast.ReturnStmt:
		for i, r := range x.Results {
			if i == 0 {
				s.noteReturn(r)
			} else {
				s.classOf(r)
			}
		}
		if len(x.Results) == 0 && s.lits == 0 && s.suffix == "" && s.fn.decl.Type.Results != nil && len(s.fn.decl.Type.Results.List) > 0 {
			if ns := s.fn.decl.Type.Results.List[0].Names; len(ns) > 0 {
				s.noteReturn(ns[0]) // a bare return of named results
			}
		}
	case *ast.GoStmt:
		s.classOf(x.Call)
	case *ast.DeferStmt:
		s.classOf(x.Call)
	case *ast.LabeledStmt:
		s.stmt(x.Stmt)
	}
}

func (p *c09Pkg) analyse(f *c09Func) *c09Scope {
	s := &c09Scope{p: p, fn: f, env: map[string]*c09Var{}}
	if ast.IsExported(f.decl.Name.Name) {
		p.markRoot(f.name()) // callable from other packages
	}
	if f.decl.Recv != nil {
		for _, fl := range f.decl.Recv.List {
			c, t := s.p.paramClass(fl.Type)
			for _, n := range fl.Names {
				s.env[n.Name] = &c09Var{class: c, origin: t, typ: t}
			}
		}
	}
	if f.decl.Type.Params != nil {
		for _, fl := range f.decl.Type.Params.List {
			c, t := s.p.paramClass(fl.Type)
			names := fl.Names
			if len(names) == 0 {
				names = []*ast.Ident{{Name: "_"}}
			}
			for _, n := range names {
				if n.Name != "_" {
					s.env[n.Name] = &c09Var{class: c, origin: fmt.Sprintf("param#%d(%s)", len(s.pshape), strings.ReplaceAll(types.ExprString(fl.Type), " ", "")), typ: t}
				}
				s.pshape = append(s.pshape, c09IsContainer(fl.Type))
			}
		}
	}
	if f.decl.Type.Results != nil {
		for _, fl := range f.decl.Type.Results.List {
			for _, n := range fl.Names {
				s.env[n.Name] = &c09Var{class: c09Local, origin: "result"}
			}
		}
	}
	s.block(f.decl.Body)
	return s
}

// slice, map, variadic, or a pointer to a slice / map: a parameter whose own slots a callee can write
func c09IsContainer(t ast.Expr) bool {
	switch x := t.(type) {
	case *ast.ArrayType:
		return x.Len == nil
	case *ast.MapType, *ast.Ellipsis:
		return true
	case *ast.StarExpr:
		switch y := x.X.(type) {
		case *ast.ArrayType:
			return y.Len == nil
		case *ast.MapType:
			return true
		}
	case *ast.ParenExpr:
		return c09IsContainer(x.X)
	}
	return false
}

// a closure that runs on behalf of a run is handed the run's context (node functions, state handlers,
// branch conditions, converters of the compiled runnable, callbacks); closures without one — functional
// option setters, deferred builder steps — run while building or while preparing a call on objects of that call
func c09TakesContext(f *ast.FuncLit) bool {
	if f.Type.Params == nil || len(f.Type.Params.List) == 0 {
		return false
	}
	return strings.ReplaceAll(types.ExprString(f.Type.Params.List[0].Type), " ", "") == "context.Context"
}

// analyseClosures: f is not on the run path (a constructor, a builder method, Compile …); the function
// literals it creates run later, possibly once per run and concurrently, and every variable of f they
// mention — receiver, parameters, named results, locals — is shared by all those executions.
func (p *c09Pkg) analyseClosures(f *c09Func) {
	type decl struct {
		class  c09Class
		origin string
		typ    string
	}
	declared := map[string]decl{}
	fields := func(fl *ast.FieldList, what string) {
		if fl == nil {
			return
		}
		for _, x := range fl.List {
			c, t := p.paramClass(x.Type)
			if c < c09Captured {
				c = c09Captured
			}
			for _, n := range x.Names {
				declared[n.Name] = decl{c, "captured(" + what + " " + n.Name + ")", t}
			}
		}
	}
	fields(f.decl.Recv, "receiver")
	fields(f.decl.Type.Params, "parameter")
	fields(f.decl.Type.Results, "result")
	var lits, skipped []*ast.FuncLit
	local := func(e ast.Expr) {
		if id, ok := e.(*ast.Ident); ok && id.Name != "_" {
			if _, ok := declared[id.Name]; !ok {
				declared[id.Name] = decl{c09Captured, "captured(local " + id.Name + ")", ""}
			}
		}
	}
	ast.Inspect(f.decl.Body, func(n ast.Node) bool {
		switch x := n.(type) {
		case *ast.FuncLit:
			if c09TakesContext(x) {
				lits = append(lits, x)
				return false
			}
			skipped = append(skipped, x)
			return true // a closure run while building: its own closures may still be run-time ones
		case *ast.AssignStmt:
			if x.Tok == token.DEFINE {
				for _, l := range x.Lhs {
					local(l)
				}
			}
		case *ast.ValueSpec:
			for _, nm := range x.Names {
				local(nm)
			}
		case *ast.RangeStmt:
			if x.Tok == token.DEFINE {
				local(x.Key)
				if x.Value != nil {
					local(x.Value)
				}
			}
		}
		return true
	})
	if len(skipped) > 0 {
		p.notRunTime[f.name()] += len(skipped)
	}
	if len(lits) == 0 {
		return
	}
	host := &c09Func{decl: f.decl, recv: f.recv}
	s := &c09Scope{p: p, fn: host, env: map[string]*c09Var{}, suffix: "$closure"}
	for _, l := range lits {
		s.env = map[string]*c09Var{}
		for n, d := range declared {
			s.env[n] = &c09Var{class: d.class, origin: d.origin, typ: d.typ, capt: true}
		}
		s.funcLit(l)
	}
}

func c09DeclTakesContext(d *ast.FuncDecl) bool {
	if d.Type.Params == nil || len(d.Type.Params.List) == 0 {
		return false
	}
	return strings.ReplaceAll(types.ExprString(d.Type.Params.List[0].Type), " ", "") == "context.Context"
}

// runTimeValues: the functions of the package that take a context and that f mentions as VALUES
// (not in call position) are run-time functions (see run1)
func (p *c09Pkg) runTimeValues(f *c09Func) {
	if f.decl.Body == nil {
		return
	}
	called := map[ast.Expr]bool{}
	shadow := map[string]bool{}
	note := func(fl *ast.FieldList) {
		if fl == nil {
			return
		}
		for _, x := range fl.List {
			for _, n := range x.Names {
				shadow[n.Name] = true
			}
		}
	}
	note(f.decl.Recv)
	note(f.decl.Type.Params)
	note(f.decl.Type.Results)
	ast.Inspect(f.decl.Body, func(n ast.Node) bool {
		switch x := n.(type) {
		case *ast.AssignStmt:
			if x.Tok == token.DEFINE {
				for _, l := range x.Lhs {
					if id, ok := l.(*ast.Ident); ok {
						shadow[id.Name] = true
					}
				}
			}
		case *ast.ValueSpec:
			for _, nm := range x.Names {
				shadow[nm.Name] = true
			}
		case *ast.FuncLit:
			note(x.Type.Params)
		}
		return true
	})
	ast.Inspect(f.decl.Body, func(n ast.Node) bool {
		switch x := n.(type) {
		case *ast.CallExpr:
			called[x.Fun] = true
			switch g := x.Fun.(type) { // f[T](…)
			case *ast.IndexExpr:
				called[g.X] = true
			case *ast.IndexListExpr:
				called[g.X] = true
			case *ast.ParenExpr:
				called[g.X] = true
			}
		case *ast.KeyValueExpr:
			if _, isField := x.Key.(*ast.Ident); isField {
				called[x.Key] = true // a field name in a composite literal is no mention of a function
			}
		case *ast.Ident:
			if called[x] || shadow[x.Name] {
				return true
			}
			// (an exported function stays what it was: a constructor such as NewAgent is not turned into a run-time
			// function — its closures into closures over per-invocation locals — by being mentioned as a value)
			if fn := p.funcs[x.Name]; fn != nil && fn != f && c09DeclTakesContext(fn.decl) && !ast.IsExported(x.Name) {
				p.enqueue(fn)
				p.markRoot(fn.name())
			}
		case *ast.SelectorExpr:
			called[x.Sel] = true // a field or method name, not a function of the package (method values: not followed here)
		}
		return true
	})
}

// the one analysed (run-path) function or method whose first result is a *T
func (p *c09Pkg) returning(typ string) *c09Func {
	var found []*c09Func
	each := func(f *c09Func) {
		if !p.analysed[f.name()] || f.decl.Type.Results == nil || len(f.decl.Type.Results.List) == 0 {
			return
		}
		if st, ok := f.decl.Type.Results.List[0].Type.(*ast.StarExpr); ok {
			if id, ok := st.X.(*ast.Ident); ok && id.Name == typ {
				found = append(found, f)
			}
		}
	}
	for _, f := range p.funcs {
		each(f)
	}
	for _, f := range p.methods {
		each(f)
	}
	if len(found) != 1 {
		return nil
	}
	return found[0]
}

// where the manager returned by fn comes from, field by field
func (p *c09Pkg) allocOf(f *c09Func) ([][2]string, error) {
	if f == nil {
		return nil, fmt.Errorf("function not found")
	}
	saved := p.effects
	p.effects = map[c09Effect]bool{}
	s := p.analyse(f)
	p.effects = saved
	var ret ast.Expr
	ast.Inspect(f.decl.Body, func(n ast.Node) bool {
		if _, ok := n.(*ast.FuncLit); ok {
			return false
		}
		if r, ok := n.(*ast.ReturnStmt); ok && len(r.Results) > 0 {
			if id, ok := r.Results[0].(*ast.Ident); !ok || id.Name != "nil" {
				ret = r.Results[0]
			}
		}
		return true
	})
	if ret == nil {
		return nil, fmt.Errorf("%s: no return value", f.name())
	}
	var lit *ast.CompositeLit
	switch r := ret.(type) {
	case *ast.UnaryExpr:
		lit, _ = r.X.(*ast.CompositeLit)
	case *ast.CompositeLit:
		lit = r
	case *ast.Ident:
		if v := s.env[r.Name]; v != nil {
			lit = v.lit
		}
	}
	if lit == nil {
		c, o := s.classOf(ret)
		return [][2]string{{"<the manager itself: " + c09Render(o) + ">", c.coq()}}, nil
	}
	var out [][2]string
	for _, el := range lit.Elts {
		kv, ok := el.(*ast.KeyValueExpr)
		if !ok {
			return nil, fmt.Errorf("%s: positional composite literal", f.name())
		}
		c, _ := s.classOf(kv.Value)
		out = append(out, [2]string{types.ExprString(kv.Key), c.coq()})
	}
	sort.Slice(out, func(i, j int) bool { return out[i][0] < out[j][0] })
	return out, nil
}

// run analyses one package: the functions reachable from the given roots as run-path code, then the
// closures of every other function
func (p *c09Pkg) run(roots []string) error {
	// The tables that one function's analysis needs of another's only grow (which fields of per-run types
	// refer to shared data; which parameters a function stores through; whose callers are unknown): analyse
	// until they are stable, the effects are those of the last pass.
	for _, r := range roots {
		p.markRoot(r)
	}
	for pass := 0; ; pass++ {
		links := len(p.linkFields)
		p.changed = false
		p.effects, p.analysed, p.notRunTime = map[c09Effect]bool{}, map[string]bool{}, map[string]int{}
		if err := p.run1(roots); err != nil {
			return err
		}
		if pass > 0 && !p.changed && len(p.linkFields) == links {
			return nil
		}
		if pass > 20 {
			return fmt.Errorf("%sthe summaries do not stabilise", p.prefix)
		}
	}
}

func (p *c09Pkg) run1(roots []string) error {
	for _, r := range roots {
		f := p.methods[r]
		if f == nil {
			f = p.funcs[r]
		}
		if f == nil {
			return fmt.Errorf("%s%s not found", p.prefix, r)
		}
		p.enqueue(f)
	}
	drain := func() {
		for len(p.work) > 0 {
			f := p.work[0]
			p.work = p.work[1:]
			p.analyse(f)
		}
	}
	drain()
	var rest []*c09Func
	for _, f := range p.funcs {
		rest = append(rest, f)
	}
	for _, f := range p.methods {
		rest = append(rest, f)
	}
	sort.Slice(rest, func(i, j int) bool { return rest[i].name() < rest[j].name() })
	// A NAMED function that takes a context and is handed over as a value by a function that is not on the
	// run path (compose.TransformableLambda(directReturn), NewStreamGraphBranch(toolsPostBranchCondition, …)) is
	// what a run-time closure is when it is written at top level: it runs per call, its locals are those of one
	// invocation, and so are the variables its own closures capture.  It is analysed like a function of the run
	// path (callers unknown), with everything it calls — not as a constructor whose closures share its variables
	// (round 6: closures of a constructor extracted into top-level functions).
	for pass := 0; pass < 8; pass++ {
		n := len(p.analysed)
		for _, f := range rest {
			if !p.analysed[f.name()] && !strings.HasPrefix(f.decl.Name.Name, "verif") {
				p.runTimeValues(f)
			}
		}
		drain()
		if len(p.analysed) == n {
			break
		}
	}
	for _, f := range rest {
		if !p.analysed[f.name()] && !strings.HasPrefix(f.decl.Name.Name, "verif") {
			p.analyseClosures(f)
			drain()
		}
	}
	return nil
}

func c09ExtractEffects(repo string) (string, string, error) {
	p, err := c09Load(repo, "compose", "", c09PerRunTypes, c09BoundaryTypes)
	if err != nil {
		return "", "", err
	}
	if err := p.run([]string{"runner.run", "runner.invoke", "runner.transform"}); err != nil {
		return "", "", err
	}
	// the constructors of the two per-run managers, whatever they are called: the analysed functions that return one
	tm, err := p.allocOf(p.returning("taskManager"))
	if err != nil {
		return "", "", fmt.Errorf("constructor of the task manager: %v", err)
	}
	cm, err := p.allocOf(p.returning("channelManager"))
	if err != nil {
		return "", "", fmt.Errorf("constructor of the channel manager: %v", err)
	}
	// the bundled agents: built once, closures run per call (flow/agent/react, flow/agent/multiagent/host)
	react, err := c09Load(repo, "flow/agent/react", "react:", map[string]bool{"state": true}, nil)
	if err != nil {
		return "", "", err
	}
	if err := react.run([]string{"Agent.Generate", "Agent.Stream"}); err != nil {
		return "", "", err
	}
	host, err := c09Load(repo, "flow/agent/multiagent/host", "host:", map[string]bool{"state": true}, nil)
	if err != nil {
		return "", "", err
	}
	if err := host.run([]string{"MultiAgent.Generate", "MultiAgent.Stream"}); err != nil {
		return "", "", err
	}
	// … and the option helpers both call per run (flow/agent)
	agent, err := c09Load(repo, "flow/agent", "agent:", map[string]bool{}, nil)
	if err != nil {
		return "", "", err
	}
	if err := agent.run([]string{"GetComposeOptions", "GetImplSpecificOptions"}); err != nil {
		return "", "", err
	}
	// … and the callback manager carried in the context (internal/callbacks)
	cbs, err := c09Load(repo, "internal/callbacks", "callbacks:", map[string]bool{"manager": true}, nil)
	if err != nil {
		return "", "", err
	}
	if err := cbs.run([]string{"InitCallbacks", "ReuseHandlers", "AppendHandlers", "On"}); err != nil {
		return "", "", err
	}
	for _, q := range []*c09Pkg{react, host, agent, cbs} {
		for e := range q.effects {
			p.effects[e] = true
		}
		for n := range q.analysed {
			p.analysed[q.prefix+n] = true
		}
	}
	// a mention of a package-level variable and a link are not stores: one row per scope however many functions
	// have it (the functions are listed in the name column)
	var effs []c09Effect
	merged := map[c09Effect][]string{}
	for e := range p.effects {
		if c09IsStoreKind(e.kind) {
			effs = append(effs, e)
			continue
		}
		k := c09Effect{e.scope(), e.kind, e.class, e.path}
		merged[k] = append(merged[k], e.fn)
	}
	for k, fns := range merged {
		sort.Strings(fns)
		pre := ""
		if !strings.HasSuffix(k.fn, "$closure") && k.fn != "compose" {
			pre = k.fn + ":" // scope() reads the package off the first name
			for i := range fns {
				fns[i] = strings.TrimPrefix(fns[i], pre)
			}
		}
		effs = append(effs, c09Effect{pre + strings.Join(fns, ", "), k.kind, k.class, k.path})
	}
	sort.Slice(effs, func(i, j int) bool {
		a, b := effs[i], effs[j]
		if a.scope() != b.scope() {
			return a.scope() < b.scope()
		}
		if a.kind != b.kind {
			return a.kind < b.kind
		}
		if a.path != b.path {
			return a.path < b.path
		}
		if a.class != b.class {
			return a.class < b.class
		}
		return a.fn < b.fn
	})
	var fns []string
	for n := range p.analysed {
		fns = append(fns, n)
	}
	sort.Strings(fns)

	var b strings.Builder
	b.WriteString("(* Gen/C09Effects.v — GENERATED by tools/go2v (extractor \"c09effects\") from package compose: the stores,\n")
	b.WriteString("   appends and package-level variables of every function reachable from runner.run whose target is not a\n")
	b.WriteString("   per-run or local object, and where the per-run managers come from. Do not edit.\n")
	b.WriteString("   Functions analysed (" + fmt.Sprint(len(fns)) + "): " + strings.Join(fns, ", ") + " *)\n")
	b.WriteString("From Eino Require Import Base.Util Model.IsolationEffects.\n\n")
	b.WriteString("Definition tie_available : bool := true.\n\n")
	b.WriteString("(* (function in which the effect was found, the effect: scope, kind, class of the root, path) *)\n")
	b.WriteString("Definition run_path_effects_named : list (string * effect) := [\n")
	for i, e := range effs {
		sep := ";"
		if i == len(effs)-1 {
			sep = ""
		}
		fmt.Fprintf(&b, "  (%s, Eff %s %s %s %s)%s\n", c09Str(e.fn), c09Str(e.scope()), c09Str(e.kind), e.class, c09Str(e.path), sep)
	}
	b.WriteString("].\n\n")
	b.WriteString("Definition run_path_effects : list effect := map snd run_path_effects_named.\n\n")
	tab := func(name string, rows [][2]string) {
		b.WriteString("Definition " + name + " : list (string * eclass) := [\n")
		for i, r := range rows {
			sep := ";"
			if i == len(rows)-1 {
				sep = ""
			}
			fmt.Fprintf(&b, "  (%s, %s)%s\n", c09Str(r[0]), r[1], sep)
		}
		b.WriteString("].\n\n")
	}
	tab("task_manager_alloc", tm)
	tab("channel_manager_alloc", cm)
	return "C09Effects.v", b.String(), nil
}
