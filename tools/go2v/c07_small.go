package main

// Two small extractors of property C07.
//
//   c07_asserttype -> Gen/AssertTypeCode.v   compose/utils.go, func assertType[T], translated statement by
//                     statement: `t, ok := v.(T)` is the model's plain Go assertion [go_assert], conditions are
//                     built with && || ! from ok, v == nil and generic.TypeOf[T]().Kind() == reflect.K, every
//                     return yields the asserted value and a condition.
//   c07_helper     -> Gen/HelperTable.v      compose/generic_helper.go: the composite literals of
//                     newGenericHelper[I, O] (which type parameter every field is instantiated at) and of
//                     forPredecessorPassthrough / forSuccessorPassthrough (which field of the receiver every
//                     field of the derived helper is copied from), as tables.

import (
	"fmt"
	"go/ast"
	"go/token"
	"go/types"
	"sort"
	"strings"
)

func init() {
	register("c07_asserttype", c07ExtractAssertType)
	registerFallback("c07_asserttype", "AssertTypeCode.v", c07Unavailable("AssertTypeCode.v", "c07_asserttype", "compose/utils.go (assertType)")+c07RefAssertType)
	register("c07_helper", c07ExtractHelper)
	registerFallback("c07_helper", "HelperTable.v", c07Unavailable("HelperTable.v", "c07_helper", "compose/generic_helper.go (newGenericHelper, for*Passthrough)")+c07RefHelper)
}

// ---------------------------------------------------------------------------------------------- assertType

type c07AssertTr struct {
	v, tparam, val, ok string
}

func (t *c07AssertTr) cond(e ast.Expr) (string, error) {
	switch x := e.(type) {
	case *ast.ParenExpr:
		return t.cond(x.X)
	case *ast.Ident:
		switch x.Name {
		case "true", "false":
			return x.Name, nil
		case t.ok:
			return "ok", nil
		}
	case *ast.UnaryExpr:
		if x.Op == token.NOT {
			s, err := t.cond(x.X)
			return "(negb " + s + ")", err
		}
	case *ast.BinaryExpr:
		switch x.Op {
		case token.LAND, token.LOR:
			l, err := t.cond(x.X)
			if err != nil {
				return "", err
			}
			r, err := t.cond(x.Y)
			if err != nil {
				return "", err
			}
			op := "&&"
			if x.Op == token.LOR {
				op = "||"
			}
			return "(" + l + " " + op + " " + r + ")", nil
		case token.EQL, token.NEQ:
			wrap := func(s string) string {
				if x.Op == token.NEQ {
					return "(negb " + s + ")"
				}
				return s
			}
			if (c07sq(x.X) == t.v && c07IsNil(x.Y)) || (c07sq(x.Y) == t.v && c07IsNil(x.X)) {
				return wrap("(dyn_is_nil v)"), nil
			}
			kind := "generic.TypeOf[" + t.tparam + "]().Kind()"
			if c07sq(x.X) == kind {
				if k, ok := c07ReflectKind(x.Y); ok {
					return wrap("(rt_kind_is " + c07CoqStr(k) + " (Some T))"), nil
				}
			}
			if c07sq(x.Y) == kind {
				if k, ok := c07ReflectKind(x.X); ok {
					return wrap("(rt_kind_is " + c07CoqStr(k) + " (Some T))"), nil
				}
			}
		}
	}
	return "", fmt.Errorf("assertType: condition %s is outside the translated fragment", types.ExprString(e))
}

func (t *c07AssertTr) stmts(l []ast.Stmt, ind string) (string, error) {
	if len(l) == 0 {
		return "", fmt.Errorf("assertType: control reaches the end without a return")
	}
	switch x := l[0].(type) {
	case *ast.ReturnStmt:
		if len(x.Results) != 2 || c07sq(x.Results[0]) != t.val {
			return "", fmt.Errorf("assertType: return %s", c07Squash(c07ExprList(x.Results)))
		}
		return t.cond(x.Results[1])
	case *ast.IfStmt:
		if x.Init != nil {
			return "", fmt.Errorf("assertType: if with an init statement")
		}
		c, err := t.cond(x.Cond)
		if err != nil {
			return "", err
		}
		th, err := t.stmts(append(append([]ast.Stmt{}, x.Body.List...), l[1:]...), ind+"  ")
		if err != nil {
			return "", err
		}
		var el string
		switch e := x.Else.(type) {
		case nil:
			el, err = t.stmts(l[1:], ind+"  ")
		case *ast.BlockStmt:
			el, err = t.stmts(append(append([]ast.Stmt{}, e.List...), l[1:]...), ind+"  ")
		case *ast.IfStmt:
			el, err = t.stmts(append([]ast.Stmt{e}, l[1:]...), ind+"  ")
		}
		if err != nil {
			return "", err
		}
		return "if " + c + " then\n" + ind + "  " + th + "\n" + ind + "else\n" + ind + "  " + el, nil
	}
	return "", fmt.Errorf("assertType: statement outside the translated fragment (only if / return)")
}

func c07ExtractAssertType(repo string) (string, string, error) {
	fset := token.NewFileSet()
	f, err := c07ParseGo(fset, repo, "compose", "utils.go")
	if err != nil {
		return "", "", err
	}
	fn := c07TopFunc(f, "assertType")
	if fn == nil || fn.Body == nil {
		return "", "", fmt.Errorf("func assertType not found")
	}
	if fn.Type.TypeParams == nil || len(fn.Type.TypeParams.List) != 1 || len(fn.Type.TypeParams.List[0].Names) != 1 {
		return "", "", fmt.Errorf("assertType: type parameters")
	}
	t := &c07AssertTr{tparam: fn.Type.TypeParams.List[0].Names[0].Name}
	if len(fn.Type.Params.List) != 1 || len(fn.Type.Params.List[0].Names) != 1 || c07sq(fn.Type.Params.List[0].Type) != "any" {
		return "", "", fmt.Errorf("assertType: parameters")
	}
	t.v = fn.Type.Params.List[0].Names[0].Name
	if fn.Type.Results == nil || len(fn.Type.Results.List) != 2 || c07sq(fn.Type.Results.List[0].Type) != t.tparam || c07sq(fn.Type.Results.List[1].Type) != "bool" {
		return "", "", fmt.Errorf("assertType: results")
	}
	l := fn.Body.List
	if len(l) < 2 {
		return "", "", fmt.Errorf("assertType: body too short")
	}
	// t, ok := v.(T)
	as, ok := l[0].(*ast.AssignStmt)
	if !ok || as.Tok != token.DEFINE || len(as.Lhs) != 2 || len(as.Rhs) != 1 {
		return "", "", fmt.Errorf("assertType: first statement is not `t, ok := v.(T)`")
	}
	ta, ok := as.Rhs[0].(*ast.TypeAssertExpr)
	if !ok || c07sq(ta.X) != t.v || ta.Type == nil || c07sq(ta.Type) != t.tparam {
		return "", "", fmt.Errorf("assertType: first statement is not `t, ok := v.(T)`")
	}
	t.val, t.ok = c07sq(as.Lhs[0]), c07sq(as.Lhs[1])
	if t.val == "_" || t.ok == "_" {
		return "", "", fmt.Errorf("assertType: blank result of the assertion")
	}
	body, err := t.stmts(l[1:], "  ")
	if err != nil {
		return "", "", err
	}
	var b strings.Builder
	b.WriteString(c07Header("AssertTypeCode.v", "c07_asserttype", "compose/utils.go (func assertType)"))
	b.WriteString(c07Imports + "\nDefinition tie_available : bool := true.\n\n")
	b.WriteString("Definition assert_type (u : univ) (v : dyn) (T : ty) : bool :=\n  let ok := go_assert u v T in\n  " + body + ".\n")
	return "AssertTypeCode.v", b.String(), nil
}

// ---------------------------------------------------------------------------------------------- genericHelper tables

// the single composite literal &genericHelper{…} a function returns
func c07HelperLiteral(fn *ast.FuncDecl) (*ast.CompositeLit, error) {
	if fn == nil || fn.Body == nil || len(fn.Body.List) != 1 {
		return nil, fmt.Errorf("body is not a single return")
	}
	ret, ok := fn.Body.List[0].(*ast.ReturnStmt)
	if !ok || len(ret.Results) != 1 {
		return nil, fmt.Errorf("body is not a single return")
	}
	un, ok := ret.Results[0].(*ast.UnaryExpr)
	if !ok || un.Op != token.AND {
		return nil, fmt.Errorf("does not return &genericHelper{…}")
	}
	cl, ok := un.X.(*ast.CompositeLit)
	if !ok || c07sq(cl.Type) != "genericHelper" {
		return nil, fmt.Errorf("does not return &genericHelper{…}")
	}
	return cl, nil
}

func c07PairList(ps [][2]string) string {
	var s []string
	for _, p := range ps {
		s = append(s, "("+c07CoqStr(p[0])+", "+c07CoqStr(p[1])+")")
	}
	return "[" + strings.Join(s, ";\n   ") + "]"
}

func c07ExtractHelper(repo string) (string, string, error) {
	fset := token.NewFileSet()
	f, err := c07ParseGo(fset, repo, "compose", "generic_helper.go")
	if err != nil {
		return "", "", err
	}
	fields, err := c07StructFieldNames(f, "genericHelper")
	if err != nil {
		return "", "", err
	}
	// newGenericHelper[I, O]
	nf := c07TopFunc(f, "newGenericHelper")
	if nf == nil || nf.Type.TypeParams == nil {
		return "", "", fmt.Errorf("func newGenericHelper not found")
	}
	var tps []string
	for _, fl := range nf.Type.TypeParams.List {
		for _, n := range fl.Names {
			tps = append(tps, n.Name)
		}
	}
	if strings.Join(tps, ",") != "I,O" {
		return "", "", fmt.Errorf("newGenericHelper: type parameters [%s]", strings.Join(tps, ","))
	}
	cl, err := c07HelperLiteral(nf)
	if err != nil {
		return "", "", fmt.Errorf("newGenericHelper: %v", err)
	}
	var newT [][2]string
	for _, el := range cl.Elts {
		kv, ok := el.(*ast.KeyValueExpr)
		if !ok {
			return "", "", fmt.Errorf("newGenericHelper: positional field")
		}
		used := map[string]bool{}
		ast.Inspect(kv.Value, func(n ast.Node) bool {
			switch ix := n.(type) {
			case *ast.IndexExpr:
				used[c07sq(ix.Index)] = true
			case *ast.IndexListExpr:
				for _, a := range ix.Indices {
					used[c07sq(a)] = true
				}
			}
			return true
		})
		var us []string
		for k := range used {
			us = append(us, k)
		}
		sort.Strings(us)
		newT = append(newT, [2]string{c07sq(kv.Key), strings.Join(us, ",")})
	}
	derived := func(name string) ([][2]string, error) {
		fn := c07MethodOf(f, "genericHelper", name)
		if fn == nil || len(fn.Recv.List[0].Names) != 1 {
			return nil, fmt.Errorf("method (*genericHelper).%s not found", name)
		}
		recv := fn.Recv.List[0].Names[0].Name
		cl, err := c07HelperLiteral(fn)
		if err != nil {
			return nil, fmt.Errorf("%s: %v", name, err)
		}
		var tb [][2]string
		for _, el := range cl.Elts {
			kv, ok := el.(*ast.KeyValueExpr)
			if !ok {
				return nil, fmt.Errorf("%s: positional field", name)
			}
			sel, ok := kv.Value.(*ast.SelectorExpr)
			if !ok || c07sq(sel.X) != recv {
				return nil, fmt.Errorf("%s: field %s is not copied from the receiver", name, c07sq(kv.Key))
			}
			tb = append(tb, [2]string{c07sq(kv.Key), sel.Sel.Name})
		}
		return tb, nil
	}
	pred, err := derived("forPredecessorPassthrough")
	if err != nil {
		return "", "", err
	}
	succ, err := derived("forSuccessorPassthrough")
	if err != nil {
		return "", "", err
	}
	// forMapInput / forMapOutput: a field is copied from the receiver or instantiated anew at one type
	keyed := func(name string) ([][2]string, error) {
		fn := c07MethodOf(f, "genericHelper", name)
		if fn == nil || len(fn.Recv.List[0].Names) != 1 {
			return nil, fmt.Errorf("method (*genericHelper).%s not found", name)
		}
		recv := fn.Recv.List[0].Names[0].Name
		cl, err := c07HelperLiteral(fn)
		if err != nil {
			return nil, fmt.Errorf("%s: %v", name, err)
		}
		var tb [][2]string
		for _, el := range cl.Elts {
			kv, ok := el.(*ast.KeyValueExpr)
			if !ok {
				return nil, fmt.Errorf("%s: positional field", name)
			}
			if sel, ok := kv.Value.(*ast.SelectorExpr); ok && c07sq(sel.X) == recv {
				tb = append(tb, [2]string{c07sq(kv.Key), "copy:" + sel.Sel.Name})
				continue
			}
			used := map[string]bool{}
			ast.Inspect(kv.Value, func(n ast.Node) bool {
				if ix, ok := n.(*ast.IndexExpr); ok {
					used[c07sq(ix.Index)] = true
				}
				return true
			})
			var us []string
			for k := range used {
				us = append(us, k)
			}
			sort.Strings(us)
			if len(us) == 0 {
				return nil, fmt.Errorf("%s: field %s is neither copied nor instantiated", name, c07sq(kv.Key))
			}
			tb = append(tb, [2]string{c07sq(kv.Key), "new:" + strings.Join(us, ",")})
		}
		return tb, nil
	}
	mapIn, err := keyed("forMapInput")
	if err != nil {
		return "", "", err
	}
	mapOut, err := keyed("forMapOutput")
	if err != nil {
		return "", "", err
	}
	var fs []string
	for _, x := range fields {
		fs = append(fs, c07CoqStr(x))
	}
	var b strings.Builder
	b.WriteString(c07Header("HelperTable.v", "c07_helper", "compose/generic_helper.go (type genericHelper, newGenericHelper,\n   forPredecessorPassthrough, forSuccessorPassthrough, forMapInput, forMapOutput)"))
	b.WriteString("From Eino Require Import Base.Util.\n\nDefinition tie_available : bool := true.\n\n")
	b.WriteString("Definition helper_fields : list string :=\n  [" + strings.Join(fs, ";\n   ") + "].\n\n")
	b.WriteString("Definition new_helper_table : list (string * string) :=\n  " + c07PairList(newT) + ".\n\n")
	b.WriteString("Definition pred_table : list (string * string) :=\n  " + c07PairList(pred) + ".\n\n")
	b.WriteString("Definition succ_table : list (string * string) :=\n  " + c07PairList(succ) + ".\n\n")
	b.WriteString("Definition map_input_table : list (string * string) :=\n  " + c07PairList(mapIn) + ".\n\n")
	b.WriteString("Definition map_output_table : list (string * string) :=\n  " + c07PairList(mapOut) + ".\n")
	return "HelperTable.v", b.String(), nil
}

// the field names of a struct type, in declaration order
func c07StructFieldNames(f *ast.File, name string) ([]string, error) {
	for _, d := range f.Decls {
		gd, ok := d.(*ast.GenDecl)
		if !ok || gd.Tok != token.TYPE {
			continue
		}
		for _, sp := range gd.Specs {
			ts := sp.(*ast.TypeSpec)
			if ts.Name.Name != name {
				continue
			}
			st, ok := ts.Type.(*ast.StructType)
			if !ok {
				return nil, fmt.Errorf("type %s is not a struct", name)
			}
			var out []string
			for _, fl := range st.Fields.List {
				if len(fl.Names) == 0 {
					return nil, fmt.Errorf("type %s has an embedded field", name)
				}
				for _, n := range fl.Names {
					out = append(out, n.Name)
				}
			}
			return out, nil
		}
	}
	return nil, fmt.Errorf("type %s not found", name)
}
