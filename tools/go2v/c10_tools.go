package main

// go2v extractor "c10_tools" (property C10): the per-tool-call callback glue of compose/tool_node.go,
// re-read with go/ast on every run and written as Gallina tables (coq/Gen/CallbacksToolCalls.v);
// Proofs/GenAgreeCallbacksTools.v proves them equal to what the model's [call_ops] says a tool call does:
//
//   runToolCallTaskByInvoke / runToolCallTaskByStream:
//       ctx = callbacks.ReuseHandlers(ctx, &callbacks.RunInfo{Name: task.name, Type: task.meta.componentImplType,
//                                                             Component: task.meta.component})
//       ctx = f(ctx, …)                      any number of context wrappers that are not callback functions
//       task.<out>, task.err = task.r.Invoke|Stream(ctx, task.arg, opts...)
//     -> (the function that derives the context, the fields of the run info sorted by name, the method of the
//         tool's runnable packer that is called, what it is called on)
//   every call of newRunnablePacker in tool_node.go: (enclosing function, its enableCallback argument), and the
//     isComponentCallbackEnabled field of an executorMeta literal in the same function (newUnknownToolTask)
//   parallelRunToolCall: every call of run( … ) is made on the context the function was given and on one element
//     of tasks (no context of one tool call reaches another)
//   (*ToolsNode).Invoke / Stream: the entry function and the context handed to parallelRunToolCall
//
// Anything else: "source shape not recognised" (tie unavailable, the reference tables are written, no alarm).

import (
	"fmt"
	"go/ast"
	"go/token"
	"sort"
	"strings"
)

const c10RefToolCalls = `From Coq Require Import List String.
Import ListNotations.
Local Open Scope string_scope.

(* compose/tool_node.go: entry function -> (context derived by, run info fields, runnable method, called on) *)
Definition tool_call_entries : list (string * (string * list (string * string) * string * string)) :=
  [("runToolCallTaskByInvoke"%string, ("callbacks.ReuseHandlers"%string, [("Component"%string, "task.meta.component"%string); ("Name"%string, "task.name"%string); ("Type"%string, "task.meta.componentImplType"%string)], "Invoke"%string, "task.r(ctx,task.arg,opts...)"%string));
   ("runToolCallTaskByStream"%string, ("callbacks.ReuseHandlers"%string, [("Component"%string, "task.meta.component"%string); ("Name"%string, "task.name"%string); ("Type"%string, "task.meta.componentImplType"%string)], "Stream"%string, "task.r(ctx,task.arg,opts...)"%string))].

(* compose/tool_node.go: every newRunnablePacker call: (enclosing function, enableCallback argument, the
   isComponentCallbackEnabled field of the executorMeta literal of that function, "" if there is none) *)
Definition tool_packers : list (string * string * string) :=
  [("convTools"%string, "!meta.isComponentCallbackEnabled"%string, ""%string);
   ("newUnknownToolTask"%string, "true"%string, "false"%string)].

(* compose/tool_node.go parallelRunToolCall: the (context, task) arguments of every call of run *)
Definition tool_run_calls : list (string * string) :=
  [("ctx"%string, "&tasks[0]"%string); ("ctx_"%string, "t"%string); ("ctx"%string, "&tasks[0]"%string)].
(* the goroutine's parameters (ctx_, t) are bound to *)
Definition tool_go_args : list string := ["ctx"%string; "&tasks[i]"%string; "opts..."%string].

(* methods Invoke / Stream of ToolsNode: (context, entry function) handed to parallelRunToolCall *)
Definition tool_node_modes : list (string * (string * string)) :=
  [("Invoke"%string, ("ctx"%string, "runToolCallTaskByInvoke"%string)); ("Stream"%string, ("ctx"%string, "runToolCallTaskByStream"%string))].
`

func init() {
	register("c10_tools", extractC10Tools)
	registerFallback("c10_tools", "CallbacksToolCalls.v",
		"(* Gen/CallbacksToolCalls.v — translator tie UNAVAILABLE: tools/go2v (extractor \"c10_tools\") did not recognise the shape of\n"+
			"   the tool-call glue of compose/tool_node.go; what follows are the reference tables of the unchanged source, so that\n"+
			"   Proofs/GenAgreeCallbacksTools.v keeps compiling. *)\n"+
			"Definition tools_tie_available : bool := false.\n"+c10RefToolCalls)
}

// ctx = f(ctx, …): returns f and the remaining arguments
func c10CtxAssign(s ast.Stmt) (fun string, args []ast.Expr, ok bool) {
	as, isAs := s.(*ast.AssignStmt)
	if !isAs || as.Tok != token.ASSIGN || len(as.Lhs) != 1 || len(as.Rhs) != 1 || c10ExprStr(as.Lhs[0]) != "ctx" {
		return "", nil, false
	}
	c, isCall := as.Rhs[0].(*ast.CallExpr)
	if !isCall || len(c.Args) < 1 || c10ExprStr(c.Args[0]) != "ctx" {
		return "", nil, false
	}
	return c10ExprStr(c.Fun), c.Args[1:], true
}

func c10ToolEntry(fn *ast.FuncDecl) (string, error) {
	name := fn.Name.Name
	if ps := c10Params(fn.Type); len(ps) != 3 || ps[0] != "ctx" || ps[1] != "task" {
		return "", fmt.Errorf("%s: parameters %v", name, ps)
	}
	l := fn.Body.List
	if len(l) < 2 {
		return "", fmt.Errorf("%s: too short", name)
	}
	derive, args, ok := c10CtxAssign(l[0])
	if !ok || len(args) != 1 {
		return "", fmt.Errorf("%s: the first statement is not ctx = f(ctx, run info)", name)
	}
	ue, ok := args[0].(*ast.UnaryExpr)
	if !ok || ue.Op != token.AND {
		return "", fmt.Errorf("%s: the run info is not a &RunInfo{…} literal", name)
	}
	cl, ok := ue.X.(*ast.CompositeLit)
	if !ok || c10ExprStr(cl.Type) != "callbacks.RunInfo" {
		return "", fmt.Errorf("%s: the run info is not a &callbacks.RunInfo{…} literal", name)
	}
	var fields []string
	for _, el := range cl.Elts {
		kv, ok := el.(*ast.KeyValueExpr)
		if !ok {
			return "", fmt.Errorf("%s: positional run info literal", name)
		}
		fields = append(fields, fmt.Sprintf("(%s, %s)", c10CoqStr(c10ExprStr(kv.Key)), c10CoqStr(c10ExprStr(kv.Value))))
	}
	sort.Strings(fields)
	// context wrappers that are no callback functions
	for _, s := range l[1 : len(l)-1] {
		f, _, ok := c10CtxAssign(s)
		if !ok || strings.HasPrefix(f, "callbacks.") || strings.HasPrefix(f, "icb.") {
			return "", fmt.Errorf("%s: statement %q between the run info and the call of the tool", name, c10StmtStr(s))
		}
	}
	as, ok := l[len(l)-1].(*ast.AssignStmt)
	if !ok || as.Tok != token.ASSIGN || len(as.Lhs) != 2 || len(as.Rhs) != 1 || c10ExprStr(as.Lhs[1]) != "task.err" ||
		!strings.HasPrefix(c10ExprStr(as.Lhs[0]), "task.") {
		return "", fmt.Errorf("%s: the last statement is not task.<out>, task.err = …", name)
	}
	c, ok := as.Rhs[0].(*ast.CallExpr)
	if !ok {
		return "", fmt.Errorf("%s: the last statement does not call the tool", name)
	}
	sel, ok := c.Fun.(*ast.SelectorExpr)
	if !ok {
		return "", fmt.Errorf("%s: the last statement does not call a method", name)
	}
	var as2 []string
	for _, a := range c.Args {
		as2 = append(as2, c10ExprStr(a))
	}
	on := c10ExprStr(sel.X) + "(" + strings.Join(as2, ",")
	if c.Ellipsis != token.NoPos {
		on += "..."
	}
	on += ")"
	return fmt.Sprintf("(%s, (%s, [%s], %s, %s))", c10CoqStr(name), c10CoqStr(derive), strings.Join(fields, "; "),
		c10CoqStr(sel.Sel.Name), c10CoqStr(on)), nil
}

func extractC10Tools(repo string) (string, string, error) {
	fset := token.NewFileSet()
	f, err := c10ParseGo(fset, repo, "compose", "tool_node.go")
	if err != nil {
		return "", "", err
	}
	var b strings.Builder
	b.WriteString("(* Gen/CallbacksToolCalls.v — GENERATED by tools/go2v (extractor \"c10_tools\") from compose/tool_node.go. Do not edit. *)\n")
	b.WriteString("Definition tools_tie_available : bool := true.\n")
	b.WriteString("From Coq Require Import List String.\nImport ListNotations.\nLocal Open Scope string_scope.\n\n")

	// 1. the two entry functions of a tool call
	var rows []string
	for _, name := range []string{"runToolCallTaskByInvoke", "runToolCallTaskByStream"} {
		fn := c10FindFunc(f, name, "")
		if fn == nil || fn.Body == nil {
			return "", "", fmt.Errorf("func %s not found", name)
		}
		r, err := c10ToolEntry(fn)
		if err != nil {
			return "", "", err
		}
		rows = append(rows, r)
	}
	fmt.Fprintf(&b, "(* compose/tool_node.go: entry function -> (context derived by, run info fields, runnable method, called on) *)\nDefinition tool_call_entries : list (string * (string * list (string * string) * string * string)) :=\n  [%s].\n\n", strings.Join(rows, ";\n   "))

	// 2. every newRunnablePacker call of the file
	rows = nil
	for _, d := range f.Decls {
		fn, ok := d.(*ast.FuncDecl)
		if !ok || fn.Body == nil {
			continue
		}
		var packers []string
		enabled := ""
		nMeta := 0
		bad := ""
		ast.Inspect(fn.Body, func(n ast.Node) bool {
			switch x := n.(type) {
			case *ast.CallExpr:
				if c10BareName(x.Fun) == "newRunnablePacker" {
					if len(x.Args) != 5 {
						bad = "newRunnablePacker is not called with five arguments"
						return false
					}
					packers = append(packers, c10ExprStr(x.Args[4]))
				}
			case *ast.CompositeLit:
				if x.Type != nil && c10ExprStr(x.Type) == "executorMeta" {
					nMeta++
					for _, el := range x.Elts {
						if kv, ok := el.(*ast.KeyValueExpr); ok && c10ExprStr(kv.Key) == "isComponentCallbackEnabled" {
							enabled = c10ExprStr(kv.Value)
						}
					}
				}
			}
			return true
		})
		if bad != "" {
			return "", "", fmt.Errorf("%s: %s", fn.Name.Name, bad)
		}
		if len(packers) > 0 && nMeta > 1 {
			return "", "", fmt.Errorf("%s: several executorMeta literals beside newRunnablePacker", fn.Name.Name)
		}
		for _, p := range packers {
			rows = append(rows, fmt.Sprintf("(%s, %s, %s)", c10CoqStr(fn.Name.Name), c10CoqStr(p), c10CoqStr(enabled)))
		}
	}
	if len(rows) == 0 {
		return "", "", fmt.Errorf("no call of newRunnablePacker in compose/tool_node.go")
	}
	fmt.Fprintf(&b, "(* compose/tool_node.go: every newRunnablePacker call: (enclosing function, enableCallback argument, the\n   isComponentCallbackEnabled field of the executorMeta literal of that function, \"\" if there is none) *)\nDefinition tool_packers : list (string * string * string) :=\n  [%s].\n\n", strings.Join(rows, ";\n   "))

	// 3. parallelRunToolCall: what every call of run is made on
	prt := c10FindFunc(f, "parallelRunToolCall", "")
	if prt == nil || prt.Body == nil {
		return "", "", fmt.Errorf("func parallelRunToolCall not found")
	}
	if ps := c10Params(prt.Type); len(ps) != 4 || ps[0] != "ctx" || ps[1] != "run" || ps[2] != "tasks" {
		return "", "", fmt.Errorf("parallelRunToolCall: parameters %v", ps)
	}
	rows = nil
	var goArgs []string
	nGo := 0
	bad := ""
	ast.Inspect(prt.Body, func(n ast.Node) bool {
		switch x := n.(type) {
		case *ast.AssignStmt:
			for _, lh := range x.Lhs {
				if s := c10ExprStr(lh); s == "ctx" || s == "ctx_" {
					bad = "the context is assigned to"
				}
			}
		case *ast.GoStmt:
			nGo++
			fl, ok := x.Call.Fun.(*ast.FuncLit)
			if !ok {
				bad = "go statement without a function literal"
				return false
			}
			if ps := c10Params(fl.Type); len(ps) != 3 || ps[0] != "ctx_" || ps[1] != "t" {
				bad = fmt.Sprintf("goroutine parameters %v", ps)
				return false
			}
			for _, a := range x.Call.Args {
				goArgs = append(goArgs, c10ExprStr(a))
			}
			if x.Call.Ellipsis != token.NoPos && len(goArgs) > 0 {
				goArgs[len(goArgs)-1] += "..."
			}
		case *ast.CallExpr:
			if id, ok := x.Fun.(*ast.Ident); ok && id.Name == "run" {
				if len(x.Args) < 2 {
					bad = "run called with fewer than two arguments"
					return false
				}
				rows = append(rows, fmt.Sprintf("(%s, %s)", c10CoqStr(c10ExprStr(x.Args[0])), c10CoqStr(c10ExprStr(x.Args[1]))))
			}
		}
		return true
	})
	if bad != "" {
		return "", "", fmt.Errorf("parallelRunToolCall: %s", bad)
	}
	if nGo != 1 {
		return "", "", fmt.Errorf("parallelRunToolCall: %d go statements", nGo)
	}
	fmt.Fprintf(&b, "(* compose/tool_node.go parallelRunToolCall: the (context, task) arguments of every call of run *)\nDefinition tool_run_calls : list (string * string) :=\n  [%s].\n", strings.Join(rows, "; "))
	fmt.Fprintf(&b, "(* the goroutine's parameters (ctx_, t) are bound to *)\nDefinition tool_go_args : list string := %s.\n", c10StrList(goArgs))

	// 4. which entry function ToolsNode.Invoke / Stream hand to parallelRunToolCall, and on which context
	rows = nil
	for _, name := range []string{"Invoke", "Stream"} {
		var fn *ast.FuncDecl
		for _, d := range f.Decls {
			if x, ok := d.(*ast.FuncDecl); ok && x.Name.Name == name && x.Recv != nil && len(x.Recv.List) == 1 &&
				c10ExprStr(x.Recv.List[0].Type) == "*ToolsNode" {
				fn = x
			}
		}
		if fn == nil || fn.Body == nil {
			return "", "", fmt.Errorf("method (*ToolsNode).%s not found", name)
		}
		var calls []*ast.CallExpr
		ctxAssigned := false
		ast.Inspect(fn.Body, func(n ast.Node) bool {
			switch x := n.(type) {
			case *ast.CallExpr:
				if c10BareName(x.Fun) == "parallelRunToolCall" {
					calls = append(calls, x)
				}
			case *ast.AssignStmt:
				for _, lh := range x.Lhs {
					if c10ExprStr(lh) == "ctx" {
						ctxAssigned = true
					}
				}
			}
			return true
		})
		if len(calls) != 1 || len(calls[0].Args) < 3 || ctxAssigned {
			return "", "", fmt.Errorf("(*ToolsNode).%s: not exactly one parallelRunToolCall on the method's own context", name)
		}
		rows = append(rows, fmt.Sprintf("(%s, (%s, %s))", c10CoqStr(name), c10CoqStr(c10ExprStr(calls[0].Args[0])), c10CoqStr(c10ExprStr(calls[0].Args[1]))))
	}
	fmt.Fprintf(&b, "(* methods Invoke / Stream of ToolsNode: (context, entry function) handed to parallelRunToolCall *)\nDefinition tool_node_modes : list (string * (string * string)) :=\n  [%s].\n", strings.Join(rows, "; "))
	return "CallbacksToolCalls.v", b.String(), nil
}
