package main

// Extractor "tmcode" (property C03): the sequential text of the methods of taskManager in
// compose/graph_manager.go — executor, submit, wait, waitOne, waitAll, updateChan — rendered as programs over the
// abstract actions of Model/TaskMgrCode.v (lock / push / top-up / receive / count / pre- and post-handler / start
// of a task / return, the verif hook's trace points included, tests abstracted to the handful the models know,
// the two arithmetic conditions — submit's "run one task synchronously" and waitOne's "nothing outstanding" —
// translated as Gallina boolean functions, updateChan's select loop as a four-attribute record).
// Proofs/GenAgreeC03.v proves each of them equal to what the hand-off LTS and the composed system assume.
//
// Local names, the receiver's name, seeded yields (verifYield) and declarations without effect are not looked at.
// A statement the translator has no action for makes the shape "not recognised" (neutral file, tie unavailable);
// an `if` it cannot classify but whose arms it can render is rendered with the test COther (recognised, different).
// Output: coq/Gen/TaskMgrCode.v.

import (
	"fmt"
	"go/ast"
	"go/parser"
	"go/token"
	"go/types"
	"path/filepath"
	"sort"
	"strconv"
	"strings"
)

const c03TmNeutral = "(* Gen/TaskMgrCode.v — translator tie UNAVAILABLE: tools/go2v (extractor \"tmcode\") did not recognise the shape of\n" +
	"   a method of taskManager in compose/graph_manager.go; the programs the models assume are re-exported. *)\n" +
	"From Eino Require Import Base.Util Model.TaskMgr Model.TaskMgrCode.\n\n" +
	"Definition code_executor : list act := model_executor.\n" +
	"Definition code_submit : list act := model_submit.\n" +
	"Definition code_sync_cond (num len : nat) (needAll : bool) : bool := model_sync_cond num len needAll.\n" +
	"Definition code_wait : list act := model_wait.\n" +
	"Definition code_waitOne : list act := model_waitOne.\n" +
	"Definition code_waitone_empty (num : nat) : bool := model_waitone_empty num.\n" +
	"Definition code_waitAll : list act := model_waitAll.\n" +
	"Definition code_updateChan : updshape := model_updateChan.\n" +
	"Definition code_tm_init : tminit := model_tm_init.\n"

func init() {
	register("tmcode", c03ExtractTm)
	registerFallback("tmcode", "TaskMgrCode.v", c03TmNeutral)
}

type c03Tr struct {
	fail     error     // a test over the known atoms that is none of the known tests: the shape is not recognised
	file     *ast.File // for helper methods called once: inlined
	depth    int
	recv     string          // receiver name
	recovers map[string]bool // locals bound from recover()
	syncs    map[string]bool // locals assigned tasks[0]
	oks      map[string]bool // locals bound as the second result of waitOne
	tasksVar string          // submit's parameter
	syncCond string          // Gallina text of submit's condition
	numCond  string          // Gallina text of waitOne's condition over num
}

func c03Method(f *ast.File, recvType, name string) *ast.FuncDecl {
	for _, d := range f.Decls {
		fn, ok := d.(*ast.FuncDecl)
		if !ok || fn.Recv == nil || fn.Name.Name != name || len(fn.Recv.List) != 1 || fn.Body == nil {
			continue
		}
		t := fn.Recv.List[0].Type
		if st, ok := t.(*ast.StarExpr); ok {
			t = st.X
		}
		if id, ok := t.(*ast.Ident); ok && id.Name == recvType {
			return fn
		}
	}
	return nil
}

func c03RecvName(fn *ast.FuncDecl) string {
	if len(fn.Recv.List[0].Names) == 1 {
		return fn.Recv.List[0].Names[0].Name
	}
	return "_"
}

func c03Str(e ast.Expr) string { return types.ExprString(e) }

func c03Unparen(e ast.Expr) ast.Expr {
	for {
		p, ok := e.(*ast.ParenExpr)
		if !ok {
			return e
		}
		e = p.X
	}
}

// calls  recv.a.b(...)  -> "a.b"; other calls -> full text of the callee
func (tr *c03Tr) callee(c *ast.CallExpr) string {
	s := c03Str(c.Fun)
	if strings.HasPrefix(s, tr.recv+".") {
		return "@" + s[len(tr.recv)+1:]
	}
	return s
}

func c03ContainsCall(n ast.Node, name string) bool {
	found := false
	ast.Inspect(n, func(x ast.Node) bool {
		if c, ok := x.(*ast.CallExpr); ok {
			if id, ok := c.Fun.(*ast.Ident); ok && id.Name == name {
				found = true
			}
		}
		return !found
	})
	return found
}

var c03Kinds = map[string]string{
	"spawn": "KSpawn", "sync": "KSync", "syncret": "KSyncRet", "await": "KAwait", "empty": "KEmpty",
	"lockE": "KLockE", "push": "KPush", "send": "KSend", "full": "KFull", "unlockE": "KUnlockE",
	"recv": "KRecv", "lockC": "KLockC", "unlockC": "KUnlockC",
}

func c03List(xs []string) string { return "[" + strings.Join(xs, "; ") + "]" }

// arithmetic / boolean condition over t.num, len(tasks), t.needAll -> Gallina (nil error = translated)
func (tr *c03Tr) arith(e ast.Expr, used map[string]bool) (string, string, error) { // (text, type "nat"|"bool")
	e = c03Unparen(e)
	switch x := e.(type) {
	case *ast.BasicLit:
		if x.Kind == token.INT {
			if _, err := strconv.ParseUint(x.Value, 10, 32); err == nil {
				return x.Value, "nat", nil
			}
		}
	case *ast.Ident:
		if x.Name == "true" || x.Name == "false" {
			return x.Name, "bool", nil
		}
	case *ast.SelectorExpr:
		switch c03Str(x) {
		case tr.recv + ".num":
			used["num"] = true
			return "num", "nat", nil
		case tr.recv + ".needAll":
			used["needAll"] = true
			return "needAll", "bool", nil
		}
	case *ast.CallExpr:
		if id, ok := x.Fun.(*ast.Ident); ok && id.Name == "len" && len(x.Args) == 1 && tr.tasksVar != "" && c03Str(x.Args[0]) == tr.tasksVar {
			used["len"] = true
			return "len", "nat", nil
		}
	case *ast.UnaryExpr:
		if x.Op == token.NOT {
			a, ta, err := tr.arith(x.X, used)
			if err == nil && ta == "bool" {
				return "(negb " + a + ")", "bool", nil
			}
		}
	case *ast.BinaryExpr:
		a, ta, err1 := tr.arith(x.X, used)
		b, tb, err2 := tr.arith(x.Y, used)
		if err1 != nil || err2 != nil {
			break
		}
		switch x.Op {
		case token.LAND, token.LOR:
			if ta == "bool" && tb == "bool" {
				op := " && "
				if x.Op == token.LOR {
					op = " || "
				}
				return "(" + a + op + b + ")", "bool", nil
			}
		case token.EQL, token.NEQ, token.LSS, token.GTR, token.LEQ, token.GEQ:
			if ta == "bool" && tb == "bool" && x.Op == token.EQL {
				return "(Bool.eqb " + a + " " + b + ")", "bool", nil
			}
			if ta == "bool" && tb == "bool" && x.Op == token.NEQ {
				return "(negb (Bool.eqb " + a + " " + b + "))", "bool", nil
			}
			if ta == "nat" && tb == "nat" {
				switch x.Op {
				case token.EQL:
					return "(Nat.eqb " + a + " " + b + ")", "bool", nil
				case token.NEQ:
					return "(negb (Nat.eqb " + a + " " + b + "))", "bool", nil
				case token.LSS:
					return "(Nat.ltb " + a + " " + b + ")", "bool", nil
				case token.GTR:
					return "(Nat.ltb " + b + " " + a + ")", "bool", nil
				case token.LEQ:
					return "(Nat.leb " + a + " " + b + ")", "bool", nil
				case token.GEQ:
					return "(Nat.leb " + b + " " + a + ")", "bool", nil
				}
			}
		}
	}
	return "", "", fmt.Errorf("not an arithmetic condition: %s", c03Str(e))
}

func c03IsNil(e ast.Expr) bool {
	id, ok := c03Unparen(e).(*ast.Ident)
	return ok && id.Name == "nil"
}

// X != nil  -> X
func c03NotNil(e ast.Expr) (ast.Expr, bool) {
	b, ok := c03Unparen(e).(*ast.BinaryExpr)
	if !ok || b.Op != token.NEQ {
		return nil, false
	}
	if c03IsNil(b.Y) {
		return c03Unparen(b.X), true
	}
	if c03IsNil(b.X) {
		return c03Unparen(b.Y), true
	}
	return nil, false
}

// value of an arithmetic / boolean condition over num, len(tasks), needAll in an environment (ok = evaluated)
func (tr *c03Tr) eval(e ast.Expr, env map[string]int) (int, bool) {
	e = c03Unparen(e)
	b2i := func(b bool) int {
		if b {
			return 1
		}
		return 0
	}
	switch x := e.(type) {
	case *ast.BasicLit:
		if n, err := strconv.Atoi(x.Value); err == nil {
			return n, true
		}
	case *ast.Ident:
		if x.Name == "true" {
			return 1, true
		}
		if x.Name == "false" {
			return 0, true
		}
	case *ast.SelectorExpr:
		switch c03Str(x) {
		case tr.recv + ".num":
			return env["num"], true
		case tr.recv + ".needAll":
			return env["needAll"], true
		}
	case *ast.CallExpr:
		if id, ok := x.Fun.(*ast.Ident); ok && id.Name == "len" {
			return env["len"], true
		}
	case *ast.UnaryExpr:
		if v, ok := tr.eval(x.X, env); ok && x.Op == token.NOT {
			return 1 - v, true
		}
	case *ast.BinaryExpr:
		l, ok1 := tr.eval(x.X, env)
		r, ok2 := tr.eval(x.Y, env)
		if ok1 && ok2 {
			switch x.Op {
			case token.LAND:
				return b2i(l != 0 && r != 0), true
			case token.LOR:
				return b2i(l != 0 || r != 0), true
			case token.EQL:
				return b2i(l == r), true
			case token.NEQ:
				return b2i(l != r), true
			case token.LSS:
				return b2i(l < r), true
			case token.GTR:
				return b2i(l > r), true
			case token.LEQ:
				return b2i(l <= r), true
			case token.GEQ:
				return b2i(l >= r), true
			}
		}
	}
	return 0, false
}

// a boolean formula over opaque atoms: role -> truth value; roles: pre (X.preProcessor != nil), skip
// (X.skipPreHandler), err, post, rec (the recovered value != nil), sync (the synchronous task != nil),
// ok (the second result of waitOne); anything else: not a formula
func (tr *c03Tr) formula(e ast.Expr, roles map[string]bool) (func(map[string]bool) bool, bool) {
	e = c03Unparen(e)
	atom := func(role string) (func(map[string]bool) bool, bool) {
		roles[role] = true
		return func(v map[string]bool) bool { return v[role] }, true
	}
	isTrue := func(x ast.Expr) (bool, bool) {
		if id, ok := c03Unparen(x).(*ast.Ident); ok && (id.Name == "true" || id.Name == "false") {
			return id.Name == "true", true
		}
		return false, false
	}
	switch x := e.(type) {
	case *ast.UnaryExpr:
		if x.Op == token.NOT {
			if f, ok := tr.formula(x.X, roles); ok {
				return func(v map[string]bool) bool { return !f(v) }, true
			}
		}
		return nil, false
	case *ast.BinaryExpr:
		switch x.Op {
		case token.LAND, token.LOR:
			f, ok1 := tr.formula(x.X, roles)
			g, ok2 := tr.formula(x.Y, roles)
			if !ok1 || !ok2 {
				return nil, false
			}
			if x.Op == token.LAND {
				return func(v map[string]bool) bool { return f(v) && g(v) }, true
			}
			return func(v map[string]bool) bool { return f(v) || g(v) }, true
		case token.EQL, token.NEQ:
			// X == nil / X != nil ; B == true / B != false ...
			var other ast.Expr
			switch {
			case c03IsNil(x.Y):
				other = x.X
			case c03IsNil(x.X):
				other = x.Y
			}
			if other != nil {
				s := c03Str(c03Unparen(other))
				role := ""
				switch {
				case s == "err" || strings.HasSuffix(s, ".err"):
					role = "err"
				case strings.HasSuffix(s, ".preProcessor"):
					role = "pre"
				case strings.HasSuffix(s, ".postProcessor"):
					role = "post"
				case tr.recovers[s]:
					role = "rec"
				case tr.syncs[s]:
					role = "sync"
				default:
					return nil, false
				}
				f, _ := atom(role) // true = not nil
				if x.Op == token.EQL {
					return func(v map[string]bool) bool { return !f(v) }, true
				}
				return f, true
			}
			for _, pr := range [][2]ast.Expr{{x.X, x.Y}, {x.Y, x.X}} {
				if lit, ok := isTrue(pr[1]); ok {
					f, ok := tr.formula(pr[0], roles)
					if !ok {
						return nil, false
					}
					if lit == (x.Op == token.EQL) {
						return f, true
					}
					return func(v map[string]bool) bool { return !f(v) }, true
				}
			}
		}
		return nil, false
	case *ast.Ident:
		if tr.oks[x.Name] {
			return atom("ok")
		}
	case *ast.SelectorExpr:
		if strings.HasSuffix(c03Str(x), ".skipPreHandler") {
			return atom("skip")
		}
	}
	return nil, false
}

// the class of a test and whether the source has its negation (the caller then swaps the arms)
func (tr *c03Tr) cond(e ast.Expr) (string, bool) {
	e = c03Unparen(e)
	// conditions over num / len(tasks) / needAll: by their values
	used := map[string]bool{}
	if txt, ty, err := tr.arith(e, used); err == nil && ty == "bool" {
		at := func(num, ln, na int) bool {
			v, _ := tr.eval(e, map[string]int{"num": num, "len": ln, "needAll": na})
			return v != 0
		}
		switch {
		case used["len"] && !used["num"] && !used["needAll"]:
			switch {
			case at(0, 0, 0) && !at(0, 1, 0) && !at(0, 2, 0) && !at(0, 3, 0):
				return "CNoTasks", false
			case !at(0, 0, 0) && at(0, 1, 0) && at(0, 2, 0) && at(0, 3, 0):
				return "CNoTasks", true
			}
			return "COther", false
		case used["needAll"] && !used["num"] && !used["len"]:
			switch {
			case at(0, 0, 1) && !at(0, 0, 0):
				return "CNeedAll", false
			case !at(0, 0, 1) && at(0, 0, 0):
				return "CNeedAll", true
			}
			return "COther", false
		case used["num"] && !used["len"] && !used["needAll"]:
			if tr.numCond != "" {
				return "COther", false
			}
			if at(0, 0, 0) {
				tr.numCond = txt
				return "CNumTest", false
			}
			tr.numCond = "(negb " + txt + ")" // `if t.num > 0 { .. } else { return none }`
			return "CNumTest", true
		default:
			if tr.syncCond == "" {
				tr.syncCond = txt
				return "CSyncCond", false
			}
			return "COther", false
		}
	}
	roles := map[string]bool{}
	f, ok := tr.formula(e, roles)
	if !ok {
		return "COther", false
	}
	var names []string
	for r := range roles {
		names = append(names, r)
	}
	sort.Strings(names)
	// truth table against the known tests
	type known struct {
		class string
		roles string
		spec  func(map[string]bool) bool
	}
	for _, k := range []known{
		{"CErrSet", "err", func(v map[string]bool) bool { return v["err"] }},
		{"CHasPost", "post", func(v map[string]bool) bool { return v["post"] }},
		{"CPanicked", "rec", func(v map[string]bool) bool { return v["rec"] }},
		{"CSyncSet", "sync", func(v map[string]bool) bool { return v["sync"] }},
		{"CNotSuccess", "ok", func(v map[string]bool) bool { return !v["ok"] }},
		{"CHasPre", "pre,skip", func(v map[string]bool) bool { return v["pre"] && !v["skip"] }},
	} {
		if strings.Join(names, ",") != k.roles {
			continue
		}
		same, opposite := true, true
		for m := 0; m < 1<<len(names); m++ {
			v := map[string]bool{}
			for i, n := range names {
				v[n] = m>>i&1 == 1
			}
			if f(v) != k.spec(v) {
				same = false
			} else {
				opposite = false
			}
		}
		if same {
			return k.class, false
		}
		if opposite {
			return k.class, true
		}
	}
	// a test made of the known atoms only that is none of the known tests (two tests folded into one, a conjunct
	// dropped): not rendered - the tie is unavailable rather than broken
	if tr.fail == nil {
		tr.fail = fmt.Errorf("a test over known atoms that is none of the known tests: %s", c03Str(e))
	}
	return "COther", false
}

func (tr *c03Tr) ret(r *ast.ReturnStmt) string {
	var out []string
	for _, e := range r.Results {
		e = c03Unparen(e)
		switch x := e.(type) {
		case *ast.Ident:
			switch x.Name {
			case "nil":
				out = append(out, "RNil")
				continue
			case "true":
				out = append(out, "RTrue")
				continue
			case "false":
				out = append(out, "RFalse")
				continue
			}
		case *ast.CompositeLit:
			if len(x.Elts) == 0 {
				out = append(out, "REmpty")
				continue
			}
		case *ast.CallExpr:
			if tr.callee(x) == "@waitAll" {
				out = append(out, "RCallWaitAll")
				continue
			}
		}
		out = append(out, "RVal")
	}
	return "ARet " + c03List(out)
}

// an action: a leaf (rendered text) or a structured one (AIf c a b / AEach a / ALoop a / ADefer a)
type c03A struct {
	s    string
	c    string
	a, b []c03A
}

func c03Leaves(ss ...string) []c03A {
	out := make([]c03A, len(ss))
	for i, x := range ss {
		out[i] = c03A{s: x}
	}
	return out
}

func (x c03A) structured() bool {
	return x.s == "AIf" || x.s == "AEach" || x.s == "ALoop" || x.s == "ADefer"
}

func c03Render(l []c03A) string {
	xs := make([]string, len(l))
	for i, x := range l {
		switch x.s {
		case "AIf":
			xs[i] = "AIf " + x.c + " " + c03Render(x.a) + " " + c03Render(x.b)
		case "AEach", "ALoop", "ADefer":
			xs[i] = x.s + " " + c03Render(x.a)
		default:
			xs[i] = x.s
		}
	}
	return c03List(xs)
}

// does an action whose text starts with prefix occur anywhere in l
func c03Has(l []c03A, prefix string) bool {
	for _, x := range l {
		if !x.structured() && strings.HasPrefix(x.s, prefix) {
			return true
		}
		if c03Has(x.a, prefix) || c03Has(x.b, prefix) {
			return true
		}
	}
	return false
}

func c03IsLeaf(l []c03A, s string) bool { return len(l) == 1 && !l[0].structured() && l[0].s == s }

func c03EndsWithRet(l []c03A) bool {
	return len(l) > 0 && !l[len(l)-1].structured() && strings.HasPrefix(l[len(l)-1].s, "ARet")
}

// rewrites of a statement sequence that do not change its meaning:
//
//	if c { ..; return r } else { B }; R      ->  if c { ..; return r }; B; R
//	for { ..; if c { break }; .. }; return r ->  for { ..; if c { return r }; .. }     (breaks at the top level of the body)
func c03NormSeq(l []c03A) []c03A {
	var out []c03A
	for _, x := range l {
		if x.s == "AIf" && c03EndsWithRet(x.a) && len(x.b) > 0 {
			out = append(out, c03A{s: "AIf", c: x.c, a: x.a})
			out = append(out, x.b...)
			continue
		}
		out = append(out, x)
	}
	for i := 0; i+1 < len(out); i++ {
		if out[i].s == "ALoop" && !out[i+1].structured() && strings.HasPrefix(out[i+1].s, "ARet") && i+2 == len(out) {
			body, changed := make([]c03A, len(out[i].a)), false
			for k, y := range out[i].a {
				body[k] = y
				if y.s == "AIf" && c03IsLeaf(y.a, "ABreak") && len(y.b) == 0 {
					body[k] = c03A{s: "AIf", c: y.c, a: []c03A{out[i+1]}}
					changed = true
				}
			}
			if changed && !c03Has(body, "ABreak") {
				return append(append([]c03A{}, out[:i]...), c03A{s: "ALoop", a: body})
			}
		}
	}
	return out
}

// in a loop body:  if c { } else { continue }; R   ->  if c { R }       (from `if !c { continue }; R`)
func c03NormLoop(l []c03A) []c03A {
	for i, x := range l {
		if x.s == "AIf" && len(x.a) == 0 && c03IsLeaf(x.b, "ACont") {
			rest := c03NormLoop(append([]c03A{}, l[i+1:]...))
			return append(append([]c03A{}, l[:i]...), c03A{s: "AIf", c: x.c, a: rest})
		}
	}
	return l
}

// one statement -> zero or more actions
func (tr *c03Tr) stmt(s ast.Stmt) ([]c03A, error) {
	bad := func() ([]c03A, error) {
		return nil, fmt.Errorf("no action for the statement %q", c03NodeText(s))
	}
	switch x := s.(type) {
	case *ast.EmptyStmt:
		return nil, nil
	case *ast.DeclStmt:
		// var x T  (no initialiser)
		if gd, ok := x.Decl.(*ast.GenDecl); ok && gd.Tok == token.VAR {
			for _, sp := range gd.Specs {
				if vs, ok := sp.(*ast.ValueSpec); !ok || len(vs.Values) != 0 {
					return bad()
				}
			}
			return nil, nil
		}
		return bad()
	case *ast.ExprStmt:
		c, ok := x.X.(*ast.CallExpr)
		if !ok {
			return bad()
		}
		switch tr.callee(c) {
		case "verifYield":
			return nil, nil
		case "verifTrace":
			if len(c.Args) == 3 {
				if bl, ok := c.Args[1].(*ast.BasicLit); ok && bl.Kind == token.STRING {
					k, _ := strconv.Unquote(bl.Value)
					if g, ok := c03Kinds[k]; ok {
						return c03Leaves("ATrace " + g), nil
					}
				}
			}
			return bad()
		case "@mu.Lock":
			return c03Leaves("ALock"), nil
		case "@mu.Unlock":
			return c03Leaves("AUnlock"), nil
		case "@l.PushBack":
			return c03Leaves("APush"), nil
		case "@l.PushFront":
			return c03Leaves("APushFront"), nil
		case "@updateChan":
			return c03Leaves("ATopUp"), nil
		case "@executor":
			return c03Leaves("AExec"), nil
		}
		if a, ok := tr.inline(c); ok {
			return a, nil
		}
		return bad()
	case *ast.GoStmt:
		if tr.callee(x.Call) == "@executor" {
			return c03Leaves("AGo"), nil
		}
		return bad()
	case *ast.IncDecStmt:
		if c03Str(x.X) == tr.recv+".num" {
			if x.Tok == token.DEC {
				return c03Leaves("ADec"), nil
			}
			return c03Leaves("AInc"), nil
		}
		return bad()
	case *ast.ReturnStmt:
		return c03Leaves(tr.ret(x)), nil
	case *ast.BranchStmt:
		if x.Label == nil && x.Tok == token.CONTINUE {
			return c03Leaves("ACont"), nil
		}
		if x.Label == nil && x.Tok == token.BREAK {
			return c03Leaves("ABreak"), nil
		}
		return bad()
	case *ast.DeferStmt:
		lit, ok := x.Call.Fun.(*ast.FuncLit)
		if !ok {
			// defer t.mu.Unlock() / defer t.helper(..)
			b, err := tr.stmt(&ast.ExprStmt{X: x.Call})
			if err != nil {
				return nil, err
			}
			return []c03A{{s: "ADefer", a: b}}, nil
		}
		if len(x.Call.Args) != 0 {
			return bad()
		}
		b, err := tr.block(lit.Body.List)
		if err != nil {
			return nil, err
		}
		return []c03A{{s: "ADefer", a: b}}, nil
	case *ast.AssignStmt:
		return tr.assign(x, s)
	case *ast.IfStmt:
		var out []c03A
		if x.Init != nil {
			a, err := tr.stmt(x.Init)
			if err != nil {
				return nil, err
			}
			out = append(out, a...)
		}
		c, neg := tr.cond(x.Cond)
		th, err := tr.block(x.Body.List)
		if err != nil {
			return nil, err
		}
		var el []c03A
		switch e := x.Else.(type) {
		case nil:
		case *ast.BlockStmt:
			if el, err = tr.block(e.List); err != nil {
				return nil, err
			}
		case *ast.IfStmt:
			if el, err = tr.stmt(e); err != nil {
				return nil, err
			}
		default:
			return bad()
		}
		if neg {
			th, el = el, th // `if !c { A } else { B }` is `if c { B } else { A }`
		}
		return append(out, c03A{s: "AIf", c: c, a: th, b: el}), nil
	case *ast.SwitchStmt:
		// a switch without tag: an if / else-if chain (no break / fallthrough inside)
		if x.Init != nil || x.Tag != nil {
			return bad()
		}
		var clauses []*ast.CaseClause
		var def *ast.CaseClause
		for _, cs := range x.Body.List {
			cc := cs.(*ast.CaseClause)
			if cc.List == nil {
				def = cc
			} else if len(cc.List) == 1 && def == nil {
				clauses = append(clauses, cc)
			} else {
				return bad() // several expressions in a case, or a case after default
			}
		}
		var chain []c03A
		if def != nil {
			b, err := tr.block(def.Body)
			if err != nil {
				return nil, err
			}
			chain = b
		}
		conds := make([]string, len(clauses))
		negs := make([]bool, len(clauses))
		bodies := make([][]c03A, len(clauses))
		for i, cc := range clauses {
			conds[i], negs[i] = tr.cond(cc.List[0])
			b, err := tr.block(cc.Body)
			if err != nil {
				return nil, err
			}
			if c03Has(b, "ABreak") || c03Has(b, "AFallthrough") {
				return bad()
			}
			bodies[i] = b
		}
		for i := len(clauses) - 1; i >= 0; i-- {
			th, el := bodies[i], chain
			if negs[i] {
				th, el = el, th
			}
			chain = []c03A{{s: "AIf", c: conds[i], a: th, b: el}}
		}
		return chain, nil
	case *ast.RangeStmt:
		if tr.tasksVar == "" || c03Str(x.X) != tr.tasksVar {
			return bad()
		}
		b, err := tr.block(x.Body.List)
		if err != nil {
			return nil, err
		}
		return []c03A{{s: "AEach", a: c03NormLoop(b)}}, nil
	case *ast.ForStmt:
		if x.Init != nil || x.Cond != nil || x.Post != nil {
			return bad()
		}
		b, err := tr.block(x.Body.List)
		if err != nil {
			return nil, err
		}
		return []c03A{{s: "ALoop", a: c03NormLoop(b)}}, nil
	case *ast.BlockStmt:
		return tr.block(x.List)
	}
	return bad()
}

// a private helper method of taskManager called as a statement: its body in place of the call (a helper that
// returns a value or returns early is not inlined)
func (tr *c03Tr) inline(c *ast.CallExpr) ([]c03A, bool) {
	name := tr.callee(c)
	if !strings.HasPrefix(name, "@") || strings.Contains(name[1:], ".") || tr.file == nil || tr.depth >= 3 {
		return nil, false
	}
	switch name[1:] {
	case "executor", "submit", "wait", "waitOne", "waitAll", "updateChan":
		return nil, false
	}
	fn := c03Method(tr.file, "taskManager", name[1:])
	if fn == nil || fn.Type.Results != nil && len(fn.Type.Results.List) > 0 {
		return nil, false
	}
	sub := &c03Tr{file: tr.file, depth: tr.depth + 1, recv: c03RecvName(fn), recovers: tr.recovers, syncs: tr.syncs, oks: tr.oks}
	acts, err := sub.block(fn.Body.List)
	if err != nil {
		if sub.fail != nil && tr.fail == nil {
			tr.fail = sub.fail
		}
		return nil, false
	}
	if c03Has(acts, "ARet") {
		return nil, false
	}
	return acts, true
}

func c03NodeText(s ast.Stmt) string {
	switch x := s.(type) {
	case *ast.ExprStmt:
		return c03Str(x.X)
	case *ast.AssignStmt:
		var l, r []string
		for _, e := range x.Lhs {
			l = append(l, c03Str(e))
		}
		for _, e := range x.Rhs {
			r = append(r, c03Str(e))
		}
		return strings.Join(l, ", ") + " " + x.Tok.String() + " " + strings.Join(r, ", ")
	case *ast.GoStmt:
		return "go " + c03Str(x.Call)
	}
	return fmt.Sprintf("%T", s)
}

func (tr *c03Tr) assign(x *ast.AssignStmt, s ast.Stmt) ([]c03A, error) {
	bad := func() ([]c03A, error) {
		return nil, fmt.Errorf("no action for the statement %q", c03NodeText(s))
	}
	if len(x.Rhs) != 1 {
		return bad()
	}
	rhs := c03Unparen(x.Rhs[0])
	lhs0 := c03Str(x.Lhs[0])
	// t.num += 1 / t.num -= 1
	if len(x.Lhs) == 1 && lhs0 == tr.recv+".num" && c03Str(rhs) == "1" {
		switch x.Tok {
		case token.ADD_ASSIGN:
			return c03Leaves("AInc"), nil
		case token.SUB_ASSIGN:
			return c03Leaves("ADec"), nil
		}
		return bad()
	}
	if x.Tok != token.ASSIGN && x.Tok != token.DEFINE {
		return bad()
	}
	// x := <-t.done
	if u, ok := rhs.(*ast.UnaryExpr); ok && u.Op == token.ARROW {
		if c03Str(c03Unparen(u.X)) == tr.recv+".done" && len(x.Lhs) == 1 {
			return c03Leaves("ARecv"), nil
		}
		return bad()
	}
	// v := recover() / safe.PanicValue(recover(), flag)
	if c03ContainsCall(rhs, "recover") {
		if len(x.Lhs) == 1 && x.Tok == token.DEFINE {
			tr.recovers[lhs0] = true
			return c03Leaves("ARecover"), nil
		}
		return bad()
	}
	// flag := false / flag = true
	if id, ok := rhs.(*ast.Ident); ok && (id.Name == "true" || id.Name == "false") && len(x.Lhs) == 1 {
		if _, ok := x.Lhs[0].(*ast.Ident); ok {
			return c03Leaves("AFlag " + id.Name), nil
		}
		return bad()
	}
	if c, ok := rhs.(*ast.CallExpr); ok {
		switch tr.callee(c) {
		case "@runWrapper":
			if len(c.Args) < 3 {
				return bad()
			}
			switch a := c03Str(c.Args[1]); {
			case strings.HasSuffix(a, ".preProcessor"):
				return c03Leaves("APre"), nil
			case strings.HasSuffix(a, ".postProcessor"):
				return c03Leaves("APost"), nil
			case strings.HasSuffix(a, ".action"):
				return c03Leaves("ABody"), nil
			}
			return bad()
		case "@waitOne":
			if len(x.Lhs) == 2 && x.Tok == token.DEFINE {
				tr.oks[c03Str(x.Lhs[1])] = true
				return c03Leaves("ACallWaitOne"), nil
			}
			return bad()
		case "initNodeCallbacks":
			return nil, nil // callbacks of the node: not this property
		case "make":
			if x.Tok == token.DEFINE {
				return nil, nil // a fresh slice
			}
			return bad()
		case "append":
			if len(x.Lhs) == 1 && len(c.Args) == 2 && c03Str(c.Args[0]) == lhs0 && c.Ellipsis == token.NoPos {
				return c03Leaves("AAppend"), nil
			}
			return bad()
		}
	}
	if len(x.Lhs) != 1 {
		return bad()
	}
	// sync = tasks[0] ; tasks = tasks[1:]
	if ix, ok := rhs.(*ast.IndexExpr); ok && tr.tasksVar != "" && c03Str(ix.X) == tr.tasksVar && c03Str(ix.Index) == "0" {
		tr.syncs[lhs0] = true
		return c03Leaves("APickSync"), nil
	}
	if sl, ok := rhs.(*ast.SliceExpr); ok && tr.tasksVar != "" && c03Str(sl.X) == tr.tasksVar && lhs0 == tr.tasksVar &&
		sl.Low != nil && c03Str(sl.Low) == "1" && sl.High == nil && !sl.Slice3 {
		return c03Leaves("ARest"), nil
	}
	// task.err = .. / task.output = .. / task.input = ..
	switch {
	case strings.HasSuffix(lhs0, ".err"):
		return c03Leaves("ASetErr"), nil
	case strings.HasSuffix(lhs0, ".output"):
		return c03Leaves("ASetOutput"), nil
	case strings.HasSuffix(lhs0, ".input"):
		return c03Leaves("ASetInput"), nil
	}
	return bad()
}

func (tr *c03Tr) block(l []ast.Stmt) ([]c03A, error) {
	out := []c03A{}
	for _, s := range l {
		a, err := tr.stmt(s)
		if err != nil {
			return nil, err
		}
		if tr.fail != nil {
			return nil, tr.fail
		}
		out = append(out, a...)
	}
	return c03NormSeq(out), nil
}

// updateChan:  for t.l.Len() > 0 { select { case t.done <- t.l.Front().Value.(*task): ..; t.l.Remove(t.l.Front()) ; default: ..; return } }
func c03UpdateChan(fn *ast.FuncDecl) (string, error) {
	recv := c03RecvName(fn)
	var body []ast.Stmt
	for _, s := range fn.Body.List {
		if e, ok := s.(*ast.ExprStmt); ok {
			if c, ok := e.X.(*ast.CallExpr); ok && (c03Str(c.Fun) == "verifYield" || c03Str(c.Fun) == "verifTrace") {
				continue
			}
		}
		body = append(body, s)
	}
	if len(body) != 1 {
		return "", fmt.Errorf("updateChan: expected one loop")
	}
	loop, ok := body[0].(*ast.ForStmt)
	if !ok || loop.Init != nil || loop.Post != nil || loop.Cond == nil {
		return "", fmt.Errorf("updateChan: expected `for <list not empty> { .. }`")
	}
	switch strings.ReplaceAll(c03Str(c03Unparen(loop.Cond)), " ", "") {
	case recv + ".l.Len()>0", recv + ".l.Len()!=0", "0<" + recv + ".l.Len()", recv + ".l.Len()>=1":
	default:
		return "", fmt.Errorf("updateChan: loop condition %s", c03Str(loop.Cond))
	}
	// locals bound before the select:  e := t.l.Front() ;  v := e.Value.(*task)  /  v := t.l.Front().Value.(*task)
	elemAlias, valAlias := map[string]string{}, map[string]string{}
	endOf := func(e ast.Expr) (string, bool) {
		e = c03Unparen(e)
		if id, ok := e.(*ast.Ident); ok {
			q, ok := elemAlias[id.Name]
			return q, ok
		}
		switch strings.ReplaceAll(c03Str(e), " ", "") {
		case recv + ".l.Front()":
			return "QFront", true
		case recv + ".l.Back()":
			return "QBack", true
		}
		return "", false
	}
	valOf := func(e ast.Expr) (string, bool) {
		e = c03Unparen(e)
		if id, ok := e.(*ast.Ident); ok {
			q, ok := valAlias[id.Name]
			return q, ok
		}
		if ta, ok := e.(*ast.TypeAssertExpr); ok {
			e = c03Unparen(ta.X)
		}
		se, ok := e.(*ast.SelectorExpr)
		if !ok || se.Sel.Name != "Value" {
			return "", false
		}
		return endOf(se.X)
	}
	stmts := loop.Body.List
	for len(stmts) > 1 {
		as, ok := stmts[0].(*ast.AssignStmt)
		if !ok || as.Tok != token.DEFINE || len(as.Lhs) != 1 || len(as.Rhs) != 1 {
			break
		}
		id, ok := as.Lhs[0].(*ast.Ident)
		if !ok {
			break
		}
		if q, ok := endOf(as.Rhs[0]); ok {
			elemAlias[id.Name] = q
		} else if q, ok := valOf(as.Rhs[0]); ok {
			valAlias[id.Name] = q
		} else {
			break
		}
		stmts = stmts[1:]
	}
	if len(stmts) != 1 {
		return "", fmt.Errorf("updateChan: the loop body is not one select")
	}
	sel, ok := stmts[0].(*ast.SelectStmt)
	if !ok || len(sel.Body.List) != 2 {
		return "", fmt.Errorf("updateChan: the loop body is not a select with two cases")
	}
	sent, removed, traceFirst, defReturns := "", "", "false", ""
	for _, cc := range sel.Body.List {
		c := cc.(*ast.CommClause)
		if c.Comm == nil {
			// default
			var rest []ast.Stmt
			for _, s := range c.Body {
				if e, ok := s.(*ast.ExprStmt); ok {
					if k, ok := e.X.(*ast.CallExpr); ok && (c03Str(k.Fun) == "verifYield" || c03Str(k.Fun) == "verifTrace") {
						continue
					}
				}
				rest = append(rest, s)
			}
			switch {
			case len(rest) == 1:
				if r, ok := rest[0].(*ast.ReturnStmt); ok && len(r.Results) == 0 {
					defReturns = "true"
				} else if b, ok := rest[0].(*ast.BranchStmt); ok && b.Tok == token.BREAK && b.Label == nil {
					// break leaves the select only: the loop tries again
					defReturns = "false"
				} else if ok && b.Tok == token.CONTINUE {
					defReturns = "false"
				}
			case len(rest) == 0:
				defReturns = "false"
			}
			if defReturns == "" {
				return "", fmt.Errorf("updateChan: default case not recognised")
			}
			continue
		}
		snd, ok := c.Comm.(*ast.SendStmt)
		if !ok || c03Str(snd.Chan) != recv+".done" {
			return "", fmt.Errorf("updateChan: the case is not a send on %s.done", recv)
		}
		if sent, ok = valOf(snd.Value); !ok {
			return "", fmt.Errorf("updateChan: sent value %s", c03Str(snd.Value))
		}
		seenRemove := false
		for _, s := range c.Body {
			e, ok := s.(*ast.ExprStmt)
			if !ok {
				return "", fmt.Errorf("updateChan: statement in the send case")
			}
			k, ok := e.X.(*ast.CallExpr)
			if !ok {
				return "", fmt.Errorf("updateChan: statement in the send case")
			}
			switch c03Str(k.Fun) {
			case "verifYield":
			case "verifTrace":
				if !seenRemove {
					traceFirst = "true"
				}
			case recv + ".l.Remove":
				if seenRemove || len(k.Args) != 1 {
					return "", fmt.Errorf("updateChan: two removals")
				}
				if removed, ok = endOf(k.Args[0]); !ok {
					return "", fmt.Errorf("updateChan: removed element %s", c03Str(k.Args[0]))
				}
				seenRemove = true
			default:
				return "", fmt.Errorf("updateChan: statement %s in the send case", c03Str(k))
			}
		}
		if !seenRemove {
			return "", fmt.Errorf("updateChan: nothing is removed after the send")
		}
	}
	if sent == "" || defReturns == "" {
		return "", fmt.Errorf("updateChan: a case is missing")
	}
	return "mkUpd " + sent + " " + removed + " " + traceFirst + " " + defReturns, nil
}

// initTaskManager (graph_run.go):  return &taskManager{ .. needAll: !r.eager, .. l: list.New(), done: make(chan *task, 1) }
func c03TmInit(repo string, fset *token.FileSet) (string, error) {
	f, err := parser.ParseFile(fset, filepath.Join(repo, "compose", "graph_run.go"), nil, 0)
	if err != nil {
		return "", err
	}
	fn := c03Method(f, "runner", "initTaskManager")
	if fn == nil {
		return "", fmt.Errorf("(*runner).initTaskManager not found")
	}
	recv := c03RecvName(fn)
	var lit *ast.CompositeLit
	ast.Inspect(fn.Body, func(n ast.Node) bool {
		if cl, ok := n.(*ast.CompositeLit); ok && lit == nil {
			if id, ok := cl.Type.(*ast.Ident); ok && id.Name == "taskManager" {
				lit = cl
			}
		}
		return lit == nil
	})
	if lit == nil {
		return "", fmt.Errorf("initTaskManager: no taskManager literal")
	}
	needAll, capN, list := "", "", false
	for _, el := range lit.Elts {
		kv, ok := el.(*ast.KeyValueExpr)
		if !ok {
			return "", fmt.Errorf("initTaskManager: positional literal")
		}
		v := c03Unparen(kv.Value)
		switch c03Str(kv.Key) {
		case "needAll":
			switch strings.ReplaceAll(c03Str(v), " ", "") {
			case "!" + recv + ".eager", recv + ".eager==false", "false==" + recv + ".eager":
				needAll = "true"
			case recv + ".eager":
				needAll = "false"
			default:
				return "", fmt.Errorf("initTaskManager: needAll: %s", c03Str(v))
			}
		case "done":
			c, ok := v.(*ast.CallExpr)
			if !ok || c03Str(c.Fun) != "make" || len(c.Args) < 1 || len(c.Args) > 2 {
				return "", fmt.Errorf("initTaskManager: done: %s", c03Str(v))
			}
			if _, ok := c.Args[0].(*ast.ChanType); !ok {
				return "", fmt.Errorf("initTaskManager: done: %s", c03Str(v))
			}
			capN = "0"
			if len(c.Args) == 2 {
				bl, ok := c.Args[1].(*ast.BasicLit)
				if !ok || bl.Kind != token.INT {
					return "", fmt.Errorf("initTaskManager: capacity of done: %s", c03Str(c.Args[1]))
				}
				if _, err := strconv.ParseUint(bl.Value, 10, 16); err != nil {
					return "", fmt.Errorf("initTaskManager: capacity of done: %s", bl.Value)
				}
				capN = bl.Value
			}
		case "l":
			list = c03Str(v) == "list.New()"
		}
	}
	if needAll == "" || capN == "" || !list {
		return "", fmt.Errorf("initTaskManager: needAll / done / l not all found")
	}
	eagerWf, err := c03EagerRule(repo, fset)
	if err != nil {
		return "", err
	}
	return "mkTmInit " + needAll + " " + capN + " " + eagerWf, nil
}

// (*graph).compile (graph.go): which graphs run eagerly -
//
//	eager := false; if isWorkflow(g.cmp) { eager = true }      (or  eager := isWorkflow(g.cmp))
//	... &runner{ .. eager: eager, .. }
//
// "true" = exactly the Workflows; any other assignment to the variable = "false" (recognised, different)
func c03EagerRule(repo string, fset *token.FileSet) (string, error) {
	f, err := parser.ParseFile(fset, filepath.Join(repo, "compose", "graph.go"), nil, 0)
	if err != nil {
		return "", err
	}
	fn := c03Method(f, "graph", "compile")
	if fn == nil {
		return "", fmt.Errorf("(*graph).compile not found")
	}
	recv := c03RecvName(fn)
	isWf := func(e ast.Expr) bool {
		return strings.ReplaceAll(c03Str(c03Unparen(e)), " ", "") == "isWorkflow("+recv+".cmp)"
	}
	// the variable handed to the runner
	v := ""
	ast.Inspect(fn.Body, func(n ast.Node) bool {
		if cl, ok := n.(*ast.CompositeLit); ok {
			if id, ok := cl.Type.(*ast.Ident); ok && id.Name == "runner" {
				for _, el := range cl.Elts {
					if kv, ok := el.(*ast.KeyValueExpr); ok && c03Str(kv.Key) == "eager" {
						if id, ok := c03Unparen(kv.Value).(*ast.Ident); ok {
							v = id.Name
						} else if isWf(kv.Value) {
							v = "@wf"
						} else {
							v = "@other"
						}
					}
				}
			}
		}
		return true
	})
	switch v {
	case "":
		return "", fmt.Errorf("compile: the runner literal has no eager field")
	case "@wf":
		return "true", nil
	case "@other":
		return "false", nil
	}
	// every assignment to v in the body of compile, in order (top level and inside ifs)
	type asg struct {
		val   string // "false" | "true" | "wf" | "other"
		guard string // "" (unconditional) | "wf" | "other"
	}
	var asgs []asg
	var walk func(l []ast.Stmt, guard string)
	classify := func(e ast.Expr) string {
		e = c03Unparen(e)
		if id, ok := e.(*ast.Ident); ok && (id.Name == "true" || id.Name == "false") {
			return id.Name
		}
		if isWf(e) {
			return "wf"
		}
		return "other"
	}
	walk = func(l []ast.Stmt, guard string) {
		for _, s := range l {
			switch x := s.(type) {
			case *ast.AssignStmt:
				for i, lh := range x.Lhs {
					if id, ok := lh.(*ast.Ident); ok && id.Name == v {
						val := "other"
						if len(x.Rhs) == len(x.Lhs) {
							val = classify(x.Rhs[i])
						}
						asgs = append(asgs, asg{val, guard})
					}
				}
			case *ast.DeclStmt:
				if gd, ok := x.Decl.(*ast.GenDecl); ok {
					for _, sp := range gd.Specs {
						if vs, ok := sp.(*ast.ValueSpec); ok {
							for i, nm := range vs.Names {
								if nm.Name == v {
									val := "false" // zero value
									if i < len(vs.Values) {
										val = classify(vs.Values[i])
									}
									asgs = append(asgs, asg{val, guard})
								}
							}
						}
					}
				}
			case *ast.IfStmt:
				g := "other"
				if guard == "" && x.Init == nil && isWf(x.Cond) {
					g = "wf"
				}
				walk(x.Body.List, g)
				switch e := x.Else.(type) {
				case *ast.BlockStmt:
					walk(e.List, "other")
				case *ast.IfStmt:
					walk([]ast.Stmt{e}, "other")
				}
			case *ast.BlockStmt:
				walk(x.List, guard)
			case *ast.ForStmt:
				walk(x.Body.List, "other")
			case *ast.RangeStmt:
				walk(x.Body.List, "other")
			case *ast.SwitchStmt:
				for _, cc := range x.Body.List {
					walk(cc.(*ast.CaseClause).Body, "other")
				}
			}
		}
	}
	walk(fn.Body.List, "")
	switch {
	case len(asgs) == 1 && asgs[0] == asg{"wf", ""}:
		return "true", nil
	case len(asgs) == 2 && asgs[0] == asg{"false", ""} && asgs[1] == asg{"true", "wf"}:
		return "true", nil
	case len(asgs) == 0:
		return "", fmt.Errorf("compile: %s is never assigned", v)
	}
	return "false", nil
}

func c03ExtractTm(repo string) (string, string, error) {
	fset := token.NewFileSet()
	f, err := parser.ParseFile(fset, filepath.Join(repo, "compose", "graph_manager.go"), nil, 0)
	if err != nil {
		return "", "", err
	}
	var b strings.Builder
	b.WriteString("(* Gen/TaskMgrCode.v — GENERATED by tools/go2v (extractor \"tmcode\") from compose/graph_manager.go\n")
	b.WriteString("   (taskManager: executor, submit, wait, waitOne, waitAll, updateChan). Do not edit. *)\n")
	b.WriteString("From Eino Require Import Base.Util Model.TaskMgr Model.TaskMgrCode.\n\n")
	emit := func(name string) (*c03Tr, error) {
		fn := c03Method(f, "taskManager", name)
		if fn == nil {
			return nil, fmt.Errorf("(*taskManager).%s not found", name)
		}
		tr := &c03Tr{file: f, recv: c03RecvName(fn), recovers: map[string]bool{}, syncs: map[string]bool{}, oks: map[string]bool{}}
		if name == "submit" {
			if fn.Type.Params == nil || len(fn.Type.Params.List) != 1 || len(fn.Type.Params.List[0].Names) != 1 {
				return nil, fmt.Errorf("submit: parameters")
			}
			tr.tasksVar = fn.Type.Params.List[0].Names[0].Name
		}
		acts, err := tr.block(fn.Body.List)
		if err != nil {
			return nil, fmt.Errorf("%s: %v", name, err)
		}
		b.WriteString("Definition code_" + name + " : list act :=\n  " + c03Render(acts) + ".\n")
		return tr, nil
	}
	if _, err := emit("executor"); err != nil {
		return "", "", err
	}
	tr, err := emit("submit")
	if err != nil {
		return "", "", err
	}
	if tr.syncCond == "" {
		return "", "", fmt.Errorf("submit: no condition over num / len(tasks) / needAll found")
	}
	b.WriteString("Definition code_sync_cond (num len : nat) (needAll : bool) : bool :=\n  " + tr.syncCond + ".\n")
	if _, err := emit("wait"); err != nil {
		return "", "", err
	}
	tr, err = emit("waitOne")
	if err != nil {
		return "", "", err
	}
	if tr.numCond == "" {
		return "", "", fmt.Errorf("waitOne: no test of num found")
	}
	b.WriteString("Definition code_waitone_empty (num : nat) : bool :=\n  " + tr.numCond + ".\n")
	if _, err := emit("waitAll"); err != nil {
		return "", "", err
	}
	fn := c03Method(f, "taskManager", "updateChan")
	if fn == nil {
		return "", "", fmt.Errorf("(*taskManager).updateChan not found")
	}
	u, err := c03UpdateChan(fn)
	if err != nil {
		return "", "", err
	}
	b.WriteString("Definition code_updateChan : updshape := " + u + ".\n")
	ti, err := c03TmInit(repo, fset)
	if err != nil {
		return "", "", err
	}
	b.WriteString("Definition code_tm_init : tminit := " + ti + ".\n")
	return "TaskMgrCode.v", b.String(), nil
}
