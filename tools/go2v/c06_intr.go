package main

// Extractors "intrhit", "intrresolve", "intrloop" (property C06): the interrupt code of
// compose/graph_run.go, translated statement by statement into Gallina over the vocabulary of
// Model/IntrGenLib.v.
//
//   getHitKey                              -> Gen/IntrHit.v      get_hit_key
//   (*runner).resolveInterruptCompletedTasks -> Gen/IntrResolve.v  resolve_interrupt_completed_tasks
//   (*taskManager).wait                    -> Gen/IntrLoop.v     tm_wait
//   (*runner).run: the body of `for step := 0; ; step++` from tm.wait() on        loop_body
//                  the block `if !initialized` from r.calculateNextTasks(START) on  init_body
//
// Two small compilers share the expression / condition translation:
//
//  * loop functions (getHitKey, resolveInterruptCompletedTasks): a body made of `var x T`, `x = e`,
//    `*p = e`, `m[k] = v`, `if c {…} [else …]`, `if v := f(e); v != nil {…}`, `for _, v := range l {…}`,
//    `for i := 0; i < len(l); i++ {…}` (l[i] only read), `continue`, `break`, `return`. A loop becomes
//    [for_range body l state] where the state is the tuple of the variables assigned in the body and the
//    body ends in CNext / CBreak / CRet; pointer and map parameters that are assigned are the results of
//    the function beside its error.
//  * the run loop: straight-line code in continuation style. Every Go variable is a Gallina variable
//    of the same name (re-bound on assignment); the channel manager `cm` and the task manager `tm` are
//    variables too, re-bound by the calls that change them (calculateNextTasks; wait, waitAll). A call
//    followed by `if err != nil { return nil, … }` is one unit. `return` ends the pass with GReturn,
//    falling off the end of the body (or `continue`) with GContinue.  Arguments are matched to the
//    callee's parameters BY NAME (the signature is read from the source), so a call that hands over
//    another variable, or the lists in another order, is translated as such.
//
// A statement or expression outside the fragment is "not recognised" (tie unavailable, neutral file); a
// predicate on a task's error that the vocabulary does not know is kept as an application of the
// parameter [unk], which no agreement proof can get rid of.

import (
	"fmt"
	"go/ast"
	"go/parser"
	"go/token"
	"go/types"
	"path/filepath"
	"strconv"
	"strings"
)

// helpers (copies under this file's prefix: tools/go2v is one package shared by every property)
func c06ParseGo(fset *token.FileSet, repo string, rel ...string) (*ast.File, error) {
	return parser.ParseFile(fset, filepath.Join(append([]string{repo}, rel...)...), nil, 0)
}

func c06TopFunc(f *ast.File, name string) *ast.FuncDecl {
	for _, d := range f.Decls {
		if fn, ok := d.(*ast.FuncDecl); ok && fn.Recv == nil && fn.Name.Name == name {
			return fn
		}
	}
	return nil
}

func c06MethodOf(f *ast.File, recvType, name string) *ast.FuncDecl {
	for _, d := range f.Decls {
		fn, ok := d.(*ast.FuncDecl)
		if !ok || fn.Recv == nil || fn.Name.Name != name || len(fn.Recv.List) != 1 || len(fn.Recv.List[0].Names) != 1 {
			continue
		}
		if st, ok := fn.Recv.List[0].Type.(*ast.StarExpr); ok {
			if id, ok := st.X.(*ast.Ident); ok && id.Name == recvType {
				return fn
			}
		}
	}
	return nil
}

func c06Squash(s string) string { return strings.Join(strings.Fields(s), "") }

func c06CoqStr(s string) string { return `"` + strings.ReplaceAll(s, `"`, `""`) + `"%string` }

// canonical form of negated tests in compiler 1 (switched on together with the agreement proofs that expect it)
var c06SwapNegated = true

func c06Unparen(e ast.Expr) ast.Expr {
	for {
		p, ok := e.(*ast.ParenExpr)
		if !ok {
			return e
		}
		e = p.X
	}
}

// "(negb X)" with X balanced -> X
func c06StripNegb(c string) (string, bool) {
	if !strings.HasPrefix(c, "(negb ") || !strings.HasSuffix(c, ")") {
		return "", false
	}
	inner := c[len("(negb ") : len(c)-1]
	depth := 0
	for _, ch := range inner {
		switch ch {
		case '(':
			depth++
		case ')':
			depth--
			if depth < 0 {
				return "", false
			}
		}
	}
	if depth != 0 {
		return "", false
	}
	return inner, true
}

func c06IsNil(e ast.Expr) bool {
	id, ok := e.(*ast.Ident)
	return ok && id.Name == "nil"
}

const c06Hdr = "From Coq Require Import String.\nFrom Eino Require Import Base.Util Model.RunLoop Model.IntrGenLib.\n"

func init() {
	register("intrhit", c06ExtractHit)
	registerFallback("intrhit", "IntrHit.v", "(* Gen/IntrHit.v — translator tie UNAVAILABLE: tools/go2v (extractor \"intrhit\") did not recognise the shape of\n"+
		"   compose/graph_run.go:getHitKey; the model's own function is re-exported. *)\n"+c06Hdr+"Open Scope N_scope.\n\n"+
		"Definition get_hit_key {X : Type} (tasks : list (N * X)) (keys : list N) : list N := hits keys tasks.\n")
	register("intrresolve", c06ExtractResolve)
	registerFallback("intrresolve", "IntrResolve.v", "(* Gen/IntrResolve.v — translator tie UNAVAILABLE: tools/go2v (extractor \"intrresolve\") did not recognise the\n"+
		"   shape of compose/graph_run.go:resolveInterruptCompletedTasks; the model's own classification is re-exported. *)\n"+c06Hdr+"Open Scope N_scope.\n\n"+
		"Definition resolve_interrupt_completed_tasks {V SCP SINFO : Type}\n"+
		"    (unk : string -> option (@texec V SCP SINFO) -> bool) (r_interruptAfterNodes : list N)\n"+
		"    (subGraphInterrupts : list (N * (SCP * SINFO))) (interruptRerunNodes : list N) (interruptAfterNodes : list N)\n"+
		"    (completedTasks : list (N * @texec V SCP SINFO))\n"+
		"  : res unit * (list (N * (SCP * SINFO)) * list N * list N) :=\n"+
		"  resolve_model r_interruptAfterNodes subGraphInterrupts interruptRerunNodes interruptAfterNodes completedTasks.\n")
	register("intrcfg", c06ExtractCfg)
	registerFallback("intrcfg", "IntrCfg.v", "(* Gen/IntrCfg.v — translator tie UNAVAILABLE: tools/go2v (extractor \"intrcfg\") did not recognise the shape of\n"+
		"   compose/interrupt.go (WithInterruptBeforeNodes, WithInterruptAfterNodes) / compose/graph.go (graph.compile); the\n"+
		"   model's reading (the lists reach the runner as given) is re-exported. *)\n"+c06Hdr+"Open Scope N_scope.\n\n"+
		"Definition with_interrupt_before_nodes (unk : string -> list N -> list N) (nodes : list N) (o : copts) : copts := set_opt_before nodes o.\n"+
		"Definition with_interrupt_after_nodes (unk : string -> list N -> list N) (nodes : list N) (o : copts) : copts := set_opt_after nodes o.\n"+
		"Definition runner_interrupt_before_nodes (unk : string -> list N -> list N) (opt : copts) : list N := opt_before opt.\n"+
		"Definition runner_interrupt_after_nodes (unk : string -> list N -> list N) (opt : copts) : list N := opt_after opt.\n")
	register("intrhandle", c06ExtractHandle)
	registerFallback("intrhandle", "IntrHandle.v", "(* Gen/IntrHandle.v — translator tie UNAVAILABLE: tools/go2v (extractor \"intrhandle\") did not recognise the shape of\n"+
		"   handleInterrupt / handleInterruptWithSubGraphAndRerunNodes (compose/graph_run.go) or of the records checkpoint /\n"+
		"   InterruptInfo; the model's own constructions are re-exported. *)\n"+c06Hdr+"Open Scope N_scope.\n\n"+
		"Definition tie_available : bool := false.\n\n"+
		"Definition handle_interrupt {V CS GS SCP SINFO : Type} (r_runCtx_non_nil : bool) (ctx_state : option GS) (gs_nil : GS)\n"+
		"    (interruptBeforeNodes interruptAfterNodes : list N) (nextTasks : list (N * V)) (channels : CS)\n"+
		"    (isStream isSubGraph checkPointID_non_nil : bool) : hexit V CS GS SCP SINFO :=\n"+
		"  exit_of isSubGraph checkPointID_non_nil\n"+
		"    (plain_interrupt channels (state_view r_runCtx_non_nil ctx_state gs_nil) nextTasks interruptBeforeNodes interruptAfterNodes).\n\n"+
		"Definition handle_interrupt_with_sub_graph_and_rerun_nodes {V CS GS SCP SINFO : Type} (zero : V) (fold : CS -> list (N * V) -> res CS)\n"+
		"    (r_runCtx_non_nil : bool) (ctx_state : option GS) (gs_nil : GS)\n"+
		"    (interruptRerunNodes : list N) (subGraphInterrupts : list (N * (SCP * SINFO))) (interruptAfterNodes : list N)\n"+
		"    (completeTasks : list (N * @texec V SCP SINFO)) (interruptBeforeNodes : list N) (pendingTasks : list (N * V))\n"+
		"    (checkPointID_non_nil isSubGraph : bool) (cm : CS) (isStream : bool) : hexit V CS GS SCP SINFO :=\n"+
		"  exit_of isSubGraph checkPointID_non_nil\n"+
		"    (handle_sub_rerun zero fold cm (state_view r_runCtx_non_nil ctx_state gs_nil) interruptRerunNodes subGraphInterrupts\n"+
		"       interruptAfterNodes completeTasks interruptBeforeNodes pendingTasks).\n")
	register("intrerr", c06ExtractErr)
	registerFallback("intrerr", "IntrErr.v", "(* Gen/IntrErr.v — translator tie UNAVAILABLE: tools/go2v (extractor \"intrerr\") did not recognise the shape of\n"+
		"   compose/interrupt.go (ExtractInterruptInfo, isSubGraphInterrupt); the model's own functions are re-exported. *)\n"+c06Hdr+"Open Scope N_scope.\n\n"+
		"Definition extract_interrupt_info {INFO CP : Type} (err : option (gerr INFO CP)) : option INFO * bool :=\n"+
		"  match errors_as_interruptError err with Some i => (Some i, true) | None => (None, false) end.\n"+
		"Definition is_sub_graph_interrupt_err {INFO CP : Type} (err : option (gerr INFO CP)) : option (INFO * CP) :=\n"+
		"  errors_as_subGraphInterruptError err.\n")
	register("intrloop", c06ExtractLoop)
	registerFallback("intrloop", "IntrLoop.v", "(* Gen/IntrLoop.v — translator tie UNAVAILABLE: tools/go2v (extractor \"intrloop\") did not recognise the shape of\n"+
		"   compose/graph_run.go:runner.run / graph_manager.go:taskManager.wait; the model's own loop is re-exported. *)\n"+c06Hdr+"Open Scope N_scope.\n\n"+
		"Definition tie_available : bool := false.\n\n"+
		"Definition tm_wait {V SCP SINFO : Type} (t_needAll : bool) (tm : @tmstate V SCP SINFO)\n"+
		"  : list (N * @texec V SCP SINFO) * @tmstate V SCP SINFO :=\n"+
		"  if t_needAll then tm_wait_all tm\n"+
		"  else match tm_wait_one tm with (None, tm') => ([], tm') | (Some ta, tm') => ([ta], tm') end.\n\n"+
		"Definition of_sres {V CS GS SCP SINFO : Type} (r : @sres V CS GS SCP SINFO) (running : list (N * @texec V SCP SINFO)) (sched : list N)\n"+
		"  : @gres V CS GS SCP SINFO :=\n"+
		"  match r with\n  | Continue s => GContinue (ls_cs s) (map (fun t => (t_key t, t_in t)) (ls_next s)) running sched\n  | r => GReturn r\n  end.\n\n"+
		"Definition loop_body {V CS GS SCP SINFO : Type} (unk : string -> option (@texec V SCP SINFO) -> bool) (zero : V)\n"+
		"    (fold : CS -> list (N * V) -> res CS) (getr : CS -> res (CS * list (N * V)))\n"+
		"    (r_interruptBeforeNodes r_interruptAfterNodes : list N)\n"+
		"    (t_needAll : bool) (cm : CS) (gs : GS) (nextTasks : list (N * V)) (tm : @tmstate V SCP SINFO)\n"+
		"  : @gres V CS GS SCP SINFO :=\n"+
		"  if t_needAll then of_sres (decide zero fold getr r_interruptBeforeNodes r_interruptAfterNodes cm gs (fst tm)) [] (snd tm)\n"+
		"  else match pick (fst tm) (snd tm) with\n"+
		"       | None => GReturn (Failed eNoTasks)\n"+
		"       | Some (c, rest, sched') =>\n"+
		"         match edecide zero fold getr r_interruptBeforeNodes r_interruptAfterNodes false cm gs c rest sched' with\n"+
		"         | EContinue s sc => GContinue (es_cs s) (map (fun t => (t_key t, t_in t)) (es_next s)) (es_running s) sc\n"+
		"         | EStop r => GReturn r\n         end\n       end.\n\n"+
		"Definition init_body {V CS GS SCP SINFO : Type} (fold : CS -> list (N * V) -> res CS) (getr : CS -> res (CS * list (N * V)))\n"+
		"    (r_interruptBeforeNodes : list N) (cm : CS) (gs : GS) (input : V) (tm : @tmstate V SCP SINFO) : @gres V CS GS SCP SINFO :=\n"+
		"  of_sres (@init V CS GS SCP SINFO fold getr r_interruptBeforeNodes cm gs input) (fst tm) (snd tm).\n")
}

// ------------------------------------------------------------------------------------------------
// shared: names, expressions, conditions

var c06Reserved = map[string]bool{"in": true, "at": true, "as": true, "end": true, "fun": true, "let": true, "match": true,
	"return": true, "then": true, "else": true, "if": true, "using": true, "with": true, "where": true, "fix": true,
	"for": true, "forall": true, "exists": true, "Type": true, "Set": true, "Prop": true, "mod": true}

func c06Name(s string) string {
	if c06Reserved[s] {
		return s + "_"
	}
	return s
}

func c06Err(where, format string, a ...any) error {
	return fmt.Errorf("%s: %s", where, fmt.Sprintf(format, a...))
}

type c06Tr struct {
	where    string            // for messages
	recv     string            // receiver name ("r"), "" for a plain function
	idxLoops map[string]string // index variable -> list it walks (for l[i])
	hitFn    string            // how getHitKey is called ("" = not available in this function)
	usesUnk  bool
	proc     *c06ProcCfg // non-nil: the vocabulary of handleInterrupt / handleInterruptWithSubGraphAndRerunNodes
}

func (t *c06Tr) src(e ast.Expr) string { return c06Squash(types.ExprString(e)) }

// expressions of list / key / error type
func (t *c06Tr) expr(e ast.Expr) (string, error) {
	if t.proc != nil {
		if s, ok, err := t.procExpr(e); ok {
			return s, err
		}
	}
	switch x := e.(type) {
	case *ast.ParenExpr:
		return t.expr(x.X)
	case *ast.Ident:
		if x.Name == "nil" {
			return "[]", nil // a nil slice
		}
		if x.Name == "START" {
			return "kStart", nil
		}
		return c06Name(x.Name), nil
	case *ast.StarExpr:
		return t.expr(x.X)
	case *ast.UnaryExpr:
		if x.Op == token.AND {
			return t.expr(x.X)
		}
	case *ast.SelectorExpr:
		if id, ok := x.X.(*ast.Ident); ok && t.recv != "" && id.Name == t.recv {
			return t.recv + "_" + x.Sel.Name, nil
		}
		inner, err := t.expr(x.X)
		if err != nil {
			return "", err
		}
		switch x.Sel.Name {
		case "nodeKey":
			return "(fst " + inner + ")", nil
		case "err":
			return "(task_err " + inner + ")", nil
		}
	case *ast.IndexExpr:
		if l, ok := x.X.(*ast.Ident); ok {
			if i, ok := x.Index.(*ast.Ident); ok && t.idxLoops[i.Name] == l.Name {
				return c06Name(l.Name) + "_" + i.Name, nil
			}
		}
	case *ast.CallExpr:
		fn := t.src(x.Fun)
		switch {
		case fn == "append" && len(x.Args) == 2:
			a, err := t.expr(x.Args[0])
			if err != nil {
				return "", err
			}
			b, err := t.expr(x.Args[1])
			if err != nil {
				return "", err
			}
			if x.Ellipsis != token.NoPos {
				return "(" + a + " ++ " + b + ")", nil
			}
			return "(" + a + " ++ [" + b + "])", nil
		case fn == "getHitKey" && len(x.Args) == 2 && t.hitFn != "":
			a, err := t.expr(x.Args[0])
			if err != nil {
				return "", err
			}
			b, err := t.expr(x.Args[1])
			if err != nil {
				return "", err
			}
			return "(" + t.hitFn + " " + a + " " + b + ")", nil
		case fn == "isSubGraphInterrupt" && len(x.Args) == 1:
			a, err := t.expr(x.Args[0])
			return "(is_sub_graph_interrupt " + a + ")", err
		case fn == "wrapGraphNodeError" && len(x.Args) == 2:
			a, err := t.expr(x.Args[0])
			if err != nil {
				return "", err
			}
			b, err := t.expr(x.Args[1])
			return "(wrap_graph_node_error " + a + " " + b + ")", err
		}
	}
	return "", c06Err(t.where, "expression %s is outside the translated fragment", types.ExprString(e))
}

// arithmetic over len(..) and integer literals (nat)
func (t *c06Tr) natExpr(e ast.Expr) (string, bool) {
	switch x := e.(type) {
	case *ast.ParenExpr:
		return t.natExpr(x.X)
	case *ast.BasicLit:
		if x.Kind == token.INT {
			return x.Value, true
		}
	case *ast.CallExpr:
		if t.src(x.Fun) == "len" && len(x.Args) == 1 {
			a, err := t.expr(x.Args[0])
			if err == nil {
				return "List.length " + a, true
			}
		}
	case *ast.SelectorExpr:
		if t.src(x) == "tm.num" { // the number of tasks the task manager is running
			return "List.length (fst tm)", true
		}
	case *ast.BinaryExpr:
		if x.Op == token.ADD {
			a, ok1 := t.natExpr(x.X)
			b, ok2 := t.natExpr(x.Y)
			if ok1 && ok2 {
				return "(" + a + " + " + b + ")", true
			}
		}
	}
	return "", false
}

func (t *c06Tr) isErrExpr(e ast.Expr) bool {
	sel, ok := e.(*ast.SelectorExpr)
	return ok && sel.Sel.Name == "err"
}

func (t *c06Tr) cond(e ast.Expr) (string, error) {
	if t.proc != nil {
		if s, ok := t.procCond(e); ok {
			return s, nil
		}
	}
	switch x := e.(type) {
	case *ast.ParenExpr:
		return t.cond(x.X)
	case *ast.UnaryExpr:
		if x.Op == token.NOT {
			s, err := t.cond(x.X)
			return "(negb " + s + ")", err
		}
	case *ast.Ident:
		return c06Name(x.Name), nil // a boolean variable
	case *ast.SelectorExpr:
		if id, ok := x.X.(*ast.Ident); ok && t.recv != "" && id.Name == t.recv {
			return t.recv + "_" + x.Sel.Name, nil // a boolean field of the receiver
		}
		if t.src(x) == "tm.needAll" { // the mode of the task manager
			return "t_needAll", nil
		}
	case *ast.BinaryExpr:
		switch x.Op {
		case token.LAND, token.LOR:
			l, err := t.cond(x.X)
			if err != nil {
				return "", err
			}
			r, err := t.cond(x.Y)
			if err != nil {
				return "", err
			}
			op := " && "
			if x.Op == token.LOR {
				op = " || "
			}
			return "(" + l + op + r + ")", nil
		case token.EQL, token.NEQ, token.GTR, token.LSS, token.GEQ, token.LEQ:
			neg := func(s string) string {
				if x.Op == token.NEQ {
					return "(negb " + s + ")"
				}
				return s
			}
			// numbers
			if a, ok := t.natExpr(x.X); ok {
				if b, ok := t.natExpr(x.Y); ok {
					switch x.Op {
					case token.EQL, token.NEQ:
						return neg("(" + a + " =? " + b + ")%nat"), nil
					case token.GTR:
						return "(" + b + " <? " + a + ")%nat", nil
					case token.LSS:
						return "(" + a + " <? " + b + ")%nat", nil
					case token.GEQ:
						return "(" + b + " <=? " + a + ")%nat", nil
					case token.LEQ:
						return "(" + a + " <=? " + b + ")%nat", nil
					}
				}
			}
			if x.Op != token.EQL && x.Op != token.NEQ {
				break
			}
			// x.err == nil / != nil
			if t.isErrExpr(x.X) && c06IsNil(x.Y) {
				a, err := t.expr(x.X)
				if x.Op == token.NEQ {
					return "(err_non_nil " + a + ")", err
				}
				return "(negb (err_non_nil " + a + "))", err
			}
			// identity of an error with something else: not in the vocabulary
			if t.isErrExpr(x.X) || t.isErrExpr(x.Y) {
				errSide, other := x.X, x.Y
				if !t.isErrExpr(errSide) {
					errSide, other = x.Y, x.X
				}
				a, err := t.expr(errSide)
				t.usesUnk = true
				return neg("(unk " + c06CoqStr("== "+t.src(other)) + " " + a + ")"), err
			}
			// node keys; equality is symmetric: the canonical order puts a plain variable before a projection
			// (`t.nodeKey == key` is translated like `key == t.nodeKey`)
			kx, ky := x.X, x.Y
			if _, ok := c06Unparen(kx).(*ast.Ident); !ok {
				if _, ok := c06Unparen(ky).(*ast.Ident); ok {
					kx, ky = ky, kx
				}
			}
			a, err := t.expr(kx)
			if err != nil {
				return "", err
			}
			b, err := t.expr(ky)
			if err != nil {
				return "", err
			}
			return neg("(N.eqb " + a + " " + b + ")"), nil
		}
	case *ast.CallExpr:
		fn := t.src(x.Fun)
		if fn == "errors.Is" && len(x.Args) == 2 && t.isErrExpr(x.Args[0]) && t.src(x.Args[1]) == "InterruptAndRerun" {
			a, err := t.expr(x.Args[0])
			return "(errors_is_rerun " + a + ")", err
		}
		// another predicate on a task's error
		for _, arg := range x.Args {
			if t.isErrExpr(arg) {
				a, err := t.expr(arg)
				t.usesUnk = true
				return "(unk " + c06CoqStr(t.src(e)) + " " + a + ")", err
			}
		}
	}
	return "", c06Err(t.where, "condition %s is outside the translated fragment", types.ExprString(e))
}

func c06Tuple(vs []string) string {
	if len(vs) == 1 {
		return vs[0]
	}
	return "(" + strings.Join(vs, ", ") + ")"
}

func c06Pat(vs []string) string {
	if len(vs) == 1 {
		return vs[0]
	}
	return "'(" + strings.Join(vs, ", ") + ")"
}

// the variable a statement assigns (x = …, *x = …, x[k] = …), "" if none
func c06Assigned(e ast.Expr) string {
	switch x := e.(type) {
	case *ast.Ident:
		return x.Name
	case *ast.StarExpr:
		return c06Assigned(x.X)
	case *ast.IndexExpr:
		return c06Assigned(x.X)
	case *ast.ParenExpr:
		return c06Assigned(x.X)
	case *ast.SelectorExpr: // a field of a local record: its own variable
		if id, ok := x.X.(*ast.Ident); ok {
			return id.Name + "_" + x.Sel.Name
		}
	}
	return ""
}

// variables assigned (not declared) anywhere in the statements, in the order [order] lists them
func c06AssignedIn(l []ast.Stmt, order []string) []string {
	set := map[string]bool{}
	declared := map[string]bool{}
	for _, s := range l {
		ast.Inspect(s, func(n ast.Node) bool {
			switch x := n.(type) {
			case *ast.AssignStmt:
				for _, lhs := range x.Lhs {
					if v := c06Assigned(lhs); v != "" && v != "_" {
						if x.Tok == token.DEFINE {
							declared[v] = true
						} else if !declared[v] {
							set[v] = true
						}
					}
				}
			case *ast.IncDecStmt:
				if v := c06Assigned(x.X); v != "" && !declared[v] { // i++ of an index loop inside l: i is local to l
					set[v] = true
				}
			case *ast.RangeStmt:
				if x.Tok == token.DEFINE {
					for _, kv := range []ast.Expr{x.Key, x.Value} {
						if id, ok := kv.(*ast.Ident); ok {
							declared[id.Name] = true
						}
					}
				}
			}
			return true
		})
	}
	var out []string
	for _, v := range order {
		if set[v] {
			out = append(out, c06Name(v))
			delete(set, v)
		}
	}
	for v := range set { // a variable the function does not know: caught by the caller
		out = append(out, "?"+v)
	}
	return out
}

// ------------------------------------------------------------------------------------------------
// compiler 1: loop functions

type c06Fn struct {
	*c06Tr
	vars   []string                                          // every variable of the function, in order of appearance
	retTop func(t *c06Tr, r *ast.ReturnStmt) (string, error) // a return statement -> the function's Gallina result
	inLoop bool
	state  []string // state tuple of the enclosing loop
}

func c06Always(l []ast.Stmt) bool { // the list never falls through
	if len(l) == 0 {
		return false
	}
	switch x := l[len(l)-1].(type) {
	case *ast.ReturnStmt, *ast.BranchStmt:
		return true
	case *ast.IfStmt:
		if x.Else == nil {
			return false
		}
		if !c06Always(x.Body.List) {
			return false
		}
		switch e := x.Else.(type) {
		case *ast.BlockStmt:
			return c06Always(e.List)
		case *ast.IfStmt:
			return c06Always([]ast.Stmt{e})
		}
	}
	return false
}

// [l] followed by the continuation k (what comes after the enclosing statement)
func (f *c06Fn) stmts(l []ast.Stmt, ind string, k func(ind string) (string, error)) (string, error) {
	if len(l) == 0 {
		return k(ind)
	}
	rest := func(ind string) (string, error) { return f.stmts(l[1:], ind, k) }
	if f.proc != nil {
		if s, ok, err := f.procStmt(l, ind, k); ok {
			return s, err
		}
	}
	switch x := l[0].(type) {
	case *ast.DeclStmt:
		gd, ok := x.Decl.(*ast.GenDecl)
		if !ok || gd.Tok != token.VAR || len(gd.Specs) != 1 {
			break
		}
		vs := gd.Specs[0].(*ast.ValueSpec)
		if len(vs.Names) != 1 || len(vs.Values) != 0 {
			break
		}
		ty, ok := c06NilOf(types.ExprString(vs.Type), "")
		if !ok {
			return "", c06Err(f.where, "declaration of type %s", types.ExprString(vs.Type))
		}
		r, err := rest(ind)
		return "let " + c06Name(vs.Names[0].Name) + " := " + ty + " in\n" + ind + r, err
	case *ast.AssignStmt:
		if len(x.Lhs) != 1 || len(x.Rhs) != 1 || (x.Tok != token.ASSIGN && x.Tok != token.DEFINE) {
			break
		}
		v := c06Assigned(x.Lhs[0])
		if v == "" {
			break
		}
		var rhs string
		var err error
		if ix, ok := x.Lhs[0].(*ast.IndexExpr); ok { // m[k] = v
			var key, val string
			if key, err = f.expr(ix.Index); err != nil {
				return "", err
			}
			if val, err = f.expr(x.Rhs[0]); err != nil {
				return "", err
			}
			rhs = "map_put " + key + " " + val + " " + c06Name(v)
		} else if rhs, err = f.expr(x.Rhs[0]); err != nil {
			return "", err
		}
		r, err := rest(ind)
		return "let " + c06Name(v) + " := " + rhs + " in\n" + ind + r, err
	case *ast.BranchStmt:
		if !f.inLoop || x.Label != nil {
			break
		}
		switch x.Tok {
		case token.CONTINUE:
			return "CNext " + c06Tuple(f.state), nil
		case token.BREAK:
			return "CBreak " + c06Tuple(f.state), nil
		}
	case *ast.ReturnStmt:
		r, err := f.retTop(f.c06Tr, x)
		if err != nil {
			return "", err
		}
		if f.inLoop {
			return "CRet (" + r + ")", nil
		}
		return r, nil
	case *ast.IfStmt:
		// the code after the if is reached from every branch that falls through
		after := rest
		branch := func(b []ast.Stmt, ind string) (string, error) {
			if c06Always(b) {
				return f.stmts(b, ind, func(string) (string, error) {
					return "", c06Err(f.where, "internal: unreachable continuation reached")
				})
			}
			return f.stmts(b, ind, after)
		}
		elseCode := func(ind string) (string, error) {
			switch e := x.Else.(type) {
			case nil:
				return after(ind)
			case *ast.BlockStmt:
				return branch(e.List, ind)
			case *ast.IfStmt:
				return branch([]ast.Stmt{e}, ind)
			}
			return "", c06Err(f.where, "else branch")
		}
		if x.Init != nil {
			// if v := f(e); v != nil { … }  — an optional value
			as, ok := x.Init.(*ast.AssignStmt)
			if !ok || as.Tok != token.DEFINE || len(as.Lhs) != 1 || len(as.Rhs) != 1 {
				break
			}
			v, ok := as.Lhs[0].(*ast.Ident)
			be, ok2 := x.Cond.(*ast.BinaryExpr)
			if !ok || !ok2 || be.Op != token.NEQ || !c06IsNil(be.Y) || f.src(be.X) != v.Name {
				break
			}
			call, err := f.expr(as.Rhs[0])
			if err != nil {
				return "", err
			}
			th, err := branch(x.Body.List, ind+"    ")
			if err != nil {
				return "", err
			}
			el, err := elseCode(ind + "    ")
			if err != nil {
				return "", err
			}
			return "match " + call + " with\n" + ind + "| Some " + c06Name(v.Name) + " =>\n" + ind + "    " + th + "\n" + ind + "| None =>\n" + ind + "    " + el + "\n" + ind + "end", nil
		}
		c, err := f.cond(x.Cond)
		if err != nil {
			return "", err
		}
		th, err := branch(x.Body.List, ind+"  ")
		if err != nil {
			return "", err
		}
		el, err := elseCode(ind + "  ")
		if err != nil {
			return "", err
		}
		// `if !c { A } else { B }` is `if c { B } else { A }` (also `if a != b { continue }` before the rest of a loop body)
		if inner, ok := c06StripNegb(c); ok && c06SwapNegated {
			c, th, el = inner, el, th
		}
		return "if " + c + " then\n" + ind + "  " + th + "\n" + ind + "else\n" + ind + "  " + el, nil
	case *ast.RangeStmt:
		if x.Tok != token.DEFINE || x.Value == nil || f.src(x.Key) != "_" {
			break
		}
		elem, ok := x.Value.(*ast.Ident)
		if !ok {
			break
		}
		lst, err := f.expr(x.X)
		if err != nil {
			return "", err
		}
		return f.loop(c06Name(elem.Name), lst, x.Body.List, nil, ind, rest)
	case *ast.ForStmt:
		// for i := 0; i < len(l); i++ { … l[i] … }
		ini, ok1 := x.Init.(*ast.AssignStmt)
		cnd, ok2 := x.Cond.(*ast.BinaryExpr)
		inc, ok3 := x.Post.(*ast.IncDecStmt)
		if !ok1 || !ok2 || !ok3 || ini.Tok != token.DEFINE || len(ini.Lhs) != 1 || f.src(ini.Rhs[0]) != "0" ||
			cnd.Op != token.LSS || inc.Tok != token.INC {
			break
		}
		i := f.src(ini.Lhs[0])
		if f.src(cnd.X) != i || f.src(inc.X) != i {
			break
		}
		ln, ok := cnd.Y.(*ast.CallExpr)
		if !ok || f.src(ln.Fun) != "len" || len(ln.Args) != 1 {
			break
		}
		lid, ok := ln.Args[0].(*ast.Ident)
		if !ok {
			break
		}
		return f.loop(c06Name(lid.Name)+"_"+i, c06Name(lid.Name), x.Body.List, map[string]string{i: lid.Name}, ind, rest)
	}
	return "", c06Err(f.where, "statement at %s is outside the translated fragment", f.srcStmt(l[0]))
}

func (f *c06Fn) srcStmt(s ast.Stmt) string {
	switch x := s.(type) {
	case *ast.AssignStmt:
		return f.src(x.Lhs[0]) + " " + x.Tok.String() + " …"
	case *ast.IfStmt:
		return "if " + f.src(x.Cond)
	case *ast.ExprStmt:
		return f.src(x.X)
	}
	return fmt.Sprintf("%T", s)
}

func (f *c06Fn) loop(elem, lst string, body []ast.Stmt, idx map[string]string, ind string, rest func(string) (string, error)) (string, error) {
	st := c06AssignedIn(body, f.vars)
	for i, v := range idx { // the index variable and the list it walks are only read
		for _, a := range st {
			if a == c06Name(i) || a == c06Name(v) {
				return "", c06Err(f.where, "the loop assigns %s", a)
			}
		}
	}
	for _, a := range st {
		if strings.HasPrefix(a, "?") {
			return "", c06Err(f.where, "the loop assigns %s, which is not a variable of the function", a[1:])
		}
	}
	if len(st) == 0 {
		return "", c06Err(f.where, "a loop that assigns nothing")
	}
	inner := *f
	innerTr := *f.c06Tr
	inner.c06Tr = &innerTr
	inner.inLoop = true
	inner.state = st
	if idx != nil {
		inner.idxLoops = map[string]string{}
		for k, v := range f.idxLoops {
			inner.idxLoops[k] = v
		}
		for k, v := range idx {
			inner.idxLoops[k] = v
		}
	}
	bodyCode, err := inner.stmts(body, ind+"    ", func(string) (string, error) { return "CNext " + c06Tuple(st), nil })
	if innerTr.usesUnk {
		f.usesUnk = true
	}
	if err != nil {
		return "", err
	}
	r, err := rest(ind + "    ")
	if err != nil {
		return "", err
	}
	retArm := "r"
	if f.inLoop {
		retArm = "CRet r"
	}
	return "match for_range (fun " + elem + " " + c06Pat(st) + " =>\n" + ind + "    " + bodyCode + ") " + lst + " " + c06Tuple(st) + " with\n" +
		ind + "| inr r => " + retArm + "\n" + ind + "| inl " + c06Tuple(st) + " =>\n" + ind + "    " + r + "\n" + ind + "end", nil
}

// the empty value of a Go type; [kind] = what a []*task holds ("tex" = collected, "V" = created, "" unknown)
func c06NilOf(goType, kind string) (string, bool) {
	switch c06Squash(goType) {
	case "[]string":
		return "(@nil N)", true
	case "any", "interface{}":
		return "(@None V)", true
	case "bool":
		return "false", true
	case "map[string]*subGraphInterruptError":
		return "(@nil (N * (SCP * SINFO)))", true
	case "[]*task":
		switch kind {
		case "tex":
			return "(@nil (N * tex))", true
		case "V":
			return "(@nil (N * V))", true
		}
		return "[]", true // what it holds is decided by its uses
	}
	return "", false
}

func c06ParamNames(fn *ast.FuncDecl) (names, tys []string) {
	for _, fl := range fn.Type.Params.List {
		for _, n := range fl.Names {
			names = append(names, n.Name)
			tys = append(tys, c06Squash(types.ExprString(fl.Type)))
		}
	}
	return
}

func c06Vars(fn *ast.FuncDecl) []string {
	names, _ := c06ParamNames(fn)
	seen := map[string]bool{}
	for _, n := range names {
		seen[n] = true
	}
	ast.Inspect(fn.Body, func(n ast.Node) bool {
		add := func(id *ast.Ident) {
			if id != nil && id.Name != "_" && !seen[id.Name] {
				seen[id.Name] = true
				names = append(names, id.Name)
			}
		}
		switch x := n.(type) {
		case *ast.ValueSpec:
			for _, id := range x.Names {
				add(id)
			}
		case *ast.AssignStmt:
			if x.Tok == token.DEFINE {
				for _, l := range x.Lhs {
					if id, ok := l.(*ast.Ident); ok {
						add(id)
					}
				}
			}
		}
		return true
	})
	return names
}

// ---- getHitKey ----
func c06ExtractHit(repo string) (string, string, error) {
	fset := token.NewFileSet()
	f, err := c06ParseGo(fset, repo, "compose", "graph_run.go")
	if err != nil {
		return "", "", err
	}
	fn := c06TopFunc(f, "getHitKey")
	if fn == nil || fn.Body == nil {
		return "", "", fmt.Errorf("func getHitKey not found")
	}
	c06NormalizeFunc(f, fn)
	names, tys := c06ParamNames(fn)
	if len(names) != 2 || tys[0] != "[]*task" || tys[1] != "[]string" {
		return "", "", fmt.Errorf("getHitKey: parameters (%s) of types (%s)", strings.Join(names, ", "), strings.Join(tys, ", "))
	}
	if fn.Type.Results == nil || len(fn.Type.Results.List) != 1 || c06Squash(types.ExprString(fn.Type.Results.List[0].Type)) != "[]string" {
		return "", "", fmt.Errorf("getHitKey: result type")
	}
	tr := &c06Tr{where: "getHitKey"}
	c := &c06Fn{c06Tr: tr, vars: c06Vars(fn)}
	c.retTop = func(tr *c06Tr, r *ast.ReturnStmt) (string, error) {
		if len(r.Results) != 1 {
			return "", c06Err("getHitKey", "return with %d results", len(r.Results))
		}
		return tr.expr(r.Results[0])
	}
	body, err := c.stmts(fn.Body.List, "  ", func(string) (string, error) {
		return "", c06Err("getHitKey", "control reaches the end of the function")
	})
	if err != nil {
		return "", "", err
	}
	if tr.usesUnk {
		return "", "", fmt.Errorf("getHitKey: a predicate on errors")
	}
	var b strings.Builder
	b.WriteString("(* Gen/IntrHit.v — GENERATED by tools/go2v (extractor \"intrhit\") from compose/graph_run.go\n" +
		"   (func getHitKey, translated statement by statement). Do not edit. *)\n" + c06Hdr + "Open Scope N_scope.\n\n")
	fmt.Fprintf(&b, "Definition get_hit_key {X : Type} (%s : list (N * X)) (%s : list N) : list N :=\n  %s.\n", c06Name(names[0]), c06Name(names[1]), body)
	return "IntrHit.v", b.String(), nil
}

// ---- resolveInterruptCompletedTasks ----
// the role a parameter of resolveInterruptCompletedTasks plays, by its type
var c06ResolveRoles = []struct{ ty, coq string }{
	{"map[string]*subGraphInterruptError", "list (N * (SCP * SINFO))"},
	{"*[]string", "list N"},
	{"*[]string", "list N"},
	{"[]*task", "list (N * @texec V SCP SINFO)"},
}

func c06ExtractResolve(repo string) (string, string, error) {
	fset := token.NewFileSet()
	f, err := c06ParseGo(fset, repo, "compose", "graph_run.go")
	if err != nil {
		return "", "", err
	}
	fn := c06MethodOf(f, "runner", "resolveInterruptCompletedTasks")
	if fn == nil || fn.Body == nil {
		return "", "", fmt.Errorf("method (*runner).resolveInterruptCompletedTasks not found")
	}
	c06NormalizeFunc(f, fn)
	const w = "resolveInterruptCompletedTasks"
	names, tys := c06ParamNames(fn)
	want := []string{"subGraphInterrupts", "interruptRerunNodes", "interruptAfterNodes", "completedTasks"}
	if strings.Join(names, ",") != strings.Join(want, ",") {
		return "", "", c06Err(w, "parameters (%s), expected (%s)", strings.Join(names, ", "), strings.Join(want, ", "))
	}
	for i, r := range c06ResolveRoles {
		if tys[i] != r.ty {
			return "", "", c06Err(w, "parameter %s has type %s", names[i], tys[i])
		}
	}
	if fn.Type.Results == nil || len(fn.Type.Results.List) != 1 || c06Squash(types.ExprString(fn.Type.Results.List[0].Type)) != "error" {
		return "", "", c06Err(w, "result type")
	}
	recv := fn.Recv.List[0].Names[0].Name
	tr := &c06Tr{where: w, recv: recv}
	c := &c06Fn{c06Tr: tr, vars: c06Vars(fn)}
	outs := []string{names[0], names[1], names[2]}
	c.retTop = func(tr *c06Tr, r *ast.ReturnStmt) (string, error) {
		if len(r.Results) != 1 {
			return "", c06Err(w, "return with %d results", len(r.Results))
		}
		// the error, and the accumulators as they are at that moment (the caller may ignore the error)
		if c06IsNil(r.Results[0]) {
			return "(Ok tt, " + c06Tuple(outs) + ")", nil
		}
		e, err := tr.expr(r.Results[0])
		return "(Err " + e + ", " + c06Tuple(outs) + ")", err
	}
	body, err := c.stmts(fn.Body.List, "  ", func(string) (string, error) {
		return "", c06Err(w, "control reaches the end of the function")
	})
	if err != nil {
		return "", "", err
	}
	// the receiver's fields the function reads: only the interrupt-after list
	for _, fld := range c06RecvFields(fn, recv) {
		if fld != "interruptAfterNodes" {
			return "", "", c06Err(w, "reads %s.%s", recv, fld)
		}
	}
	var b strings.Builder
	b.WriteString("(* Gen/IntrResolve.v — GENERATED by tools/go2v (extractor \"intrresolve\") from compose/graph_run.go\n" +
		"   (method resolveInterruptCompletedTasks of runner, translated statement by statement). Do not edit. *)\n" + c06Hdr + "Open Scope N_scope.\n\n")
	b.WriteString("Definition resolve_interrupt_completed_tasks {V SCP SINFO : Type}\n" +
		"    (unk : string -> option (@texec V SCP SINFO) -> bool) (" + recv + "_interruptAfterNodes : list N)\n")
	for i, r := range c06ResolveRoles {
		fmt.Fprintf(&b, "    (%s : %s)\n", c06Name(names[i]), r.coq)
	}
	b.WriteString("  : res unit * (list (N * (SCP * SINFO)) * list N * list N) :=\n  " + body + ".\n")
	return "IntrResolve.v", b.String(), nil
}

func c06RecvFields(n ast.Node, recv string) []string {
	seen := map[string]bool{}
	var out []string
	ast.Inspect(n, func(n ast.Node) bool {
		if sel, ok := n.(*ast.SelectorExpr); ok {
			if id, ok := sel.X.(*ast.Ident); ok && id.Name == recv && !seen[sel.Sel.Name] {
				seen[sel.Sel.Name] = true
				out = append(out, sel.Sel.Name)
			}
		}
		return true
	})
	return out
}

// ------------------------------------------------------------------------------------------------
// compiler 2: the run loop

type c06Run struct {
	*c06Tr
	file     *ast.File
	taskKind map[string]string // []*task variable -> "tex" (collected) | "V" (created)
	fallOff  string            // what falling off the end of the translated block means
	optRes   map[string]bool   // variables holding the result of calculateNextTasks that is reported beside isEnd
}

// callee parameters the translation does not hand on: they must be passed as the variable of that name
var c06Plumbing = map[string]bool{"ctx": true, "isStream": true, "isSubGraph": true, "checkPointID": true, "optMap": true}

// r.<method>(args) -> the arguments by parameter name
func (c *c06Run) callArgs(call *ast.CallExpr, method string) (map[string]ast.Expr, error) {
	fn := c06MethodOf(c.file, "runner", method)
	if fn == nil {
		return nil, c06Err(c.where, "method (*runner).%s not found", method)
	}
	names, _ := c06ParamNames(fn)
	if len(names) != len(call.Args) {
		return nil, c06Err(c.where, "call of %s with %d arguments for %d parameters", method, len(call.Args), len(names))
	}
	m := map[string]ast.Expr{}
	for i, n := range names {
		if c06Plumbing[n] {
			if c.src(call.Args[i]) != n {
				return nil, c06Err(c.where, "call of %s: parameter %s is given %s", method, n, c.src(call.Args[i]))
			}
			continue
		}
		m[n] = call.Args[i]
	}
	return m, nil
}

func (c *c06Run) take(m map[string]ast.Expr, method string, want ...string) ([]string, error) {
	var out []string
	for _, w := range want {
		e, ok := m[w]
		if !ok {
			return nil, c06Err(c.where, "%s has no parameter %s", method, w)
		}
		s, err := c.expr(e)
		if err != nil {
			return nil, err
		}
		out = append(out, s)
		delete(m, w)
	}
	return out, nil
}

// r.method(...) ?
func (c *c06Run) recvCall(e ast.Expr) (*ast.CallExpr, string) {
	call, ok := e.(*ast.CallExpr)
	if !ok {
		return nil, ""
	}
	sel, ok := call.Fun.(*ast.SelectorExpr)
	if !ok {
		return nil, ""
	}
	if id, ok := sel.X.(*ast.Ident); ok && id.Name == c.recv {
		return call, sel.Sel.Name
	}
	return nil, ""
}

// `if err != nil { return nil, … }`
func (c *c06Run) isErrGuard(s ast.Stmt) bool {
	is, ok := s.(*ast.IfStmt)
	if !ok || is.Init != nil || is.Else != nil || c.src(is.Cond) != "err!=nil" || len(is.Body.List) != 1 {
		return false
	}
	r, ok := is.Body.List[0].(*ast.ReturnStmt)
	return ok && len(r.Results) == 2 && c06IsNil(r.Results[0])
}

const c06FailArm = "| r => GReturn (Failed (chan_err r))"

// handleInterrupt / handleInterruptWithSubGraphAndRerunNodes -> sres
func (c *c06Run) handleCall(e ast.Expr) (string, error) {
	call, method := c.recvCall(e)
	if call == nil {
		return "", c06Err(c.where, "return of %s", c.src(e))
	}
	m, err := c.callArgs(call, method)
	if err != nil {
		return "", err
	}
	switch method {
	case "handleInterrupt":
		if ch, ok := m["channels"]; !ok || c.src(ch) != "cm.channels" {
			return "", c06Err(c.where, "handleInterrupt is not given cm.channels")
		}
		delete(m, "channels")
		a, err := c.take(m, method, "interruptBeforeNodes", "interruptAfterNodes", "nextTasks")
		if err != nil {
			return "", err
		}
		if len(m) != 0 {
			return "", c06Err(c.where, "handleInterrupt has parameters the translation does not know")
		}
		return "handle_interrupt cm gs " + strings.Join(a, " "), nil
	case "handleInterruptWithSubGraphAndRerunNodes":
		if cm, ok := m["cm"]; !ok || c.src(cm) != "cm" {
			return "", c06Err(c.where, "%s is not given cm", method)
		}
		delete(m, "cm")
		a, err := c.take(m, method, "interruptRerunNodes", "subGraphInterrupts", "interruptAfterNodes", "completeTasks", "interruptBeforeNodes", "pendingTasks")
		if err != nil {
			return "", err
		}
		if len(m) != 0 {
			return "", c06Err(c.where, "%s has parameters the translation does not know", method)
		}
		return "handle_sub_rerun zero fold cm gs " + strings.Join(a, " "), nil
	}
	return "", c06Err(c.where, "return of a call of %s", method)
}

func (c *c06Run) ret(r *ast.ReturnStmt) (string, error) {
	if len(r.Results) != 2 {
		return "", c06Err(c.where, "return with %d results", len(r.Results))
	}
	if c06IsNil(r.Results[1]) { // return result, nil
		v, err := c.expr(r.Results[0])
		if id, ok := r.Results[0].(*ast.Ident); ok && c.optRes[id.Name] {
			// the value calculateNextTasks reports beside isEnd (nil when END has not been reached)
			return "GReturn (done_of " + v + ")", err
		}
		return "GReturn (Done " + v + ")", err
	}
	if !c06IsNil(r.Results[0]) {
		return "", c06Err(c.where, "return of a value and an error")
	}
	// return nil, newGraphRunError(fmt.Errorf("message…", …))
	if call, ok := r.Results[1].(*ast.CallExpr); ok && c.src(call.Fun) == "newGraphRunError" && len(call.Args) == 1 {
		if inner, ok := call.Args[0].(*ast.CallExpr); ok && (c.src(inner.Fun) == "fmt.Errorf" || c.src(inner.Fun) == "errors.New") && len(inner.Args) >= 1 {
			if lit, ok := inner.Args[0].(*ast.BasicLit); ok && lit.Kind == token.STRING {
				msg, _ := strconv.Unquote(lit.Value)
				if i := strings.IndexAny(msg, ",:%"); i >= 0 {
					msg = msg[:i]
				}
				return "GReturn (Failed (graph_run_error " + c06CoqStr(strings.TrimSpace(msg)) + "))", nil
			}
		}
	}
	h, err := c.handleCall(r.Results[1])
	if err != nil {
		return "", err
	}
	return "GReturn (" + h + ")", nil
}

func (c *c06Run) always(l []ast.Stmt) bool {
	if len(l) == 0 {
		return false
	}
	switch x := l[len(l)-1].(type) {
	case *ast.ReturnStmt:
		return true
	case *ast.BranchStmt:
		return x.Tok == token.CONTINUE && x.Label == nil
	}
	return false
}

func (c *c06Run) stmts(l []ast.Stmt, ind string, k func(string) (string, error)) (string, error) {
	if len(l) == 0 {
		return k(ind)
	}
	rest := func(ind string) (string, error) { return c.stmts(l[1:], ind, k) }
	rest2 := func(ind string) (string, error) { return c.stmts(l[2:], ind, k) }
	guarded := len(l) >= 2 && c.isErrGuard(l[1])
	bad := func() (string, error) {
		return "", c06Err(c.where, "statement `%s` is outside the translated fragment", (&c06Fn{c06Tr: c.c06Tr}).srcStmt(l[0]))
	}
	switch x := l[0].(type) {
	case *ast.DeclStmt:
		gd, ok := x.Decl.(*ast.GenDecl)
		if !ok || gd.Tok != token.VAR || len(gd.Specs) != 1 {
			return bad()
		}
		vs := gd.Specs[0].(*ast.ValueSpec)
		if len(vs.Names) != 1 || len(vs.Values) != 0 {
			return bad()
		}
		ty, ok := c06NilOf(types.ExprString(vs.Type), c.taskKind[vs.Names[0].Name])
		if !ok {
			return "", c06Err(c.where, "declaration of %s of type %s", vs.Names[0].Name, types.ExprString(vs.Type))
		}
		r, err := rest(ind)
		return "let " + c06Name(vs.Names[0].Name) + " := " + ty + " in\n" + ind + r, err
	case *ast.BranchStmt:
		if x.Tok == token.CONTINUE && x.Label == nil {
			return c.fallOff, nil
		}
	case *ast.ReturnStmt:
		return c.ret(x)
	case *ast.AssignStmt:
		if x.Tok != token.ASSIGN && x.Tok != token.DEFINE || len(x.Rhs) != 1 {
			return bad()
		}
		var lhs []string
		for _, e := range x.Lhs {
			id, ok := e.(*ast.Ident)
			if !ok {
				return bad()
			}
			lhs = append(lhs, id.Name)
		}
		rhsSrc := c.src(x.Rhs[0])
		// the task manager
		if (rhsSrc == "tm.wait()" || rhsSrc == "tm.waitAll()") && len(lhs) == 2 && lhs[1] == "err" {
			if !guarded {
				return "", c06Err(c.where, "%s without its error test", rhsSrc)
			}
			fn := "tm_wait t_needAll tm"
			if rhsSrc == "tm.waitAll()" {
				fn = "tm_wait_all tm"
			}
			r, err := rest2(ind)
			return "let '(" + c06Name(lhs[0]) + ", tm) := " + fn + " in\n" + ind + r, err
		}
		if call, method := c.recvCall(x.Rhs[0]); call != nil {
			switch method {
			case "resolveInterruptCompletedTasks":
				if len(lhs) != 1 || (lhs[0] != "err" && lhs[0] != "_") {
					return bad()
				}
				checked := guarded && lhs[0] == "err"
				m, err := c.callArgs(call, method)
				if err != nil {
					return "", err
				}
				// the three accumulators must be variables (handed over as such or by address): they are re-bound
				var outs []string
				for _, p := range []string{"subGraphInterrupts", "interruptRerunNodes", "interruptAfterNodes"} {
					e, ok := m[p]
					if !ok {
						return "", c06Err(c.where, "%s has no parameter %s", method, p)
					}
					if u, ok := e.(*ast.UnaryExpr); ok && u.Op == token.AND {
						e = u.X
					}
					id, ok := e.(*ast.Ident)
					if !ok {
						return "", c06Err(c.where, "%s: parameter %s is given %s", method, p, c.src(m[p]))
					}
					outs = append(outs, c06Name(id.Name))
				}
				a, err := c.take(m, method, "subGraphInterrupts", "interruptRerunNodes", "interruptAfterNodes", "completedTasks")
				if err != nil {
					return "", err
				}
				callCode := "Gen.IntrResolve.resolve_interrupt_completed_tasks unk r_interruptAfterNodes " + strings.Join(a, " ")
				if !checked {
					// the error is not looked at: the run goes on with the accumulators as the failing call left them
					r, err := rest(ind)
					return "let '(_, " + c06Tuple(outs) + ") := " + callCode + " in\n" + ind + r, err
				}
				r, err := rest2(ind)
				return "match " + callCode + " with\n" +
					ind + "| (Ok _, " + c06Tuple(outs) + ") =>\n" + ind + r + "\n" + ind + "| (r, _) => GReturn (Failed (chan_err r))\n" + ind + "end", err
			case "calculateNextTasks":
				if (len(lhs) != 3 && len(lhs) != 4) || lhs[len(lhs)-1] != "err" || !guarded {
					return bad()
				}
				// (nextTasks, result, err): a nil result means "END not reached";
				// (nextTasks, result, isEnd, err): reaching END is reported separately from the value
				if fn := c06MethodOf(c.file, "runner", method); fn == nil || fn.Type.Results == nil || fn.Type.Results.NumFields() != len(lhs) {
					return "", c06Err(c.where, "calculateNextTasks does not return %d values", len(lhs))
				}
				m, err := c.callArgs(call, method)
				if err != nil {
					return "", err
				}
				if cm, ok := m["cm"]; !ok || c.src(cm) != "cm" {
					return "", c06Err(c.where, "calculateNextTasks is not given cm")
				}
				var arg string
				if cl, ok := m["completedTasks"].(*ast.CompositeLit); ok {
					if arg, err = c.startTask(cl); err != nil {
						return "", err
					}
				} else if arg, err = c.expr(m["completedTasks"]); err != nil {
					return "", err
				}
				if len(lhs) == 4 {
					if c.optRes == nil {
						c.optRes = map[string]bool{}
					}
					c.optRes[lhs[1]] = true
					r, err := rest2(ind)
					return "match calculate_next_tasks_end fold getr cm " + arg + " with\n" +
						ind + "| Ok (cm, " + c06Name(lhs[0]) + ", " + c06Name(lhs[1]) + ", " + c06Name(lhs[2]) + ") =>\n" + ind + r + "\n" + ind + c06FailArm + "\n" + ind + "end", err
				}
				r, err := rest2(ind)
				return "match calculate_next_tasks fold getr cm " + arg + " with\n" +
					ind + "| Ok (cm, " + c06Name(lhs[0]) + ", " + c06Name(lhs[1]) + ") =>\n" + ind + r + "\n" + ind + c06FailArm + "\n" + ind + "end", err
			}
			return bad()
		}
		if len(lhs) != 1 {
			return bad()
		}
		// x := map[…]…{} / make(…)
		if cl, ok := x.Rhs[0].(*ast.CompositeLit); ok && len(cl.Elts) == 0 {
			if ty, ok := c06NilOf(types.ExprString(cl.Type), c.taskKind[lhs[0]]); ok {
				r, err := rest(ind)
				return "let " + c06Name(lhs[0]) + " := " + ty + " in\n" + ind + r, err
			}
		}
		if mk, ok := x.Rhs[0].(*ast.CallExpr); ok && c.src(mk.Fun) == "make" && len(mk.Args) >= 1 {
			if ty, ok := c06NilOf(types.ExprString(mk.Args[0]), c.taskKind[lhs[0]]); ok {
				r, err := rest(ind)
				return "let " + c06Name(lhs[0]) + " := " + ty + " in\n" + ind + r, err
			}
		}
		e, err := c.expr(x.Rhs[0])
		if err != nil {
			return "", err
		}
		r, err := rest(ind)
		return "let " + c06Name(lhs[0]) + " := " + e + " in\n" + ind + r, err
	case *ast.IfStmt:
		if x.Else != nil {
			return bad()
		}
		branch := func(ind string) (string, error) {
			if c.always(x.Body.List) {
				return c.stmts(x.Body.List, ind, func(string) (string, error) {
					return "", c06Err(c.where, "internal: unreachable continuation reached")
				})
			}
			// a block that falls through must not declare anything the code after it could see
			for _, s := range x.Body.List {
				if as, ok := s.(*ast.AssignStmt); ok && as.Tok == token.DEFINE {
					return "", c06Err(c.where, "a block that falls through declares variables")
				}
				if _, ok := s.(*ast.DeclStmt); ok {
					return "", c06Err(c.where, "a block that falls through declares variables")
				}
			}
			return c.stmts(x.Body.List, ind, rest)
		}
		pre := ""
		if x.Init != nil { // if v := e; cond { … }
			as, ok := x.Init.(*ast.AssignStmt)
			if !ok || as.Tok != token.DEFINE || len(as.Lhs) != 1 || len(as.Rhs) != 1 {
				return bad()
			}
			e, err := c.expr(as.Rhs[0])
			if err != nil {
				return "", err
			}
			pre = "let " + c06Name(c.src(as.Lhs[0])) + " := " + e + " in\n" + ind
		}
		// if result != nil { return result, nil }
		if be, ok := x.Cond.(*ast.BinaryExpr); ok && be.Op == token.NEQ && c06IsNil(be.Y) {
			if id, ok := be.X.(*ast.Ident); ok && x.Init == nil {
				th, err := branch(ind + "    ")
				if err != nil {
					return "", err
				}
				el, err := rest(ind)
				return "match " + c06Name(id.Name) + " with\n" + ind + "| Some " + c06Name(id.Name) + " =>\n" + ind + "    " + th + "\n" +
					ind + "| None =>\n" + ind + el + "\n" + ind + "end", err
			}
		}
		cnd, err := c.cond(x.Cond)
		if err != nil {
			return "", err
		}
		th, err := branch(ind + "  ")
		if err != nil {
			return "", err
		}
		el, err := rest(ind)
		return pre + "if " + cnd + " then\n" + ind + "  " + th + "\n" + ind + "else\n" + ind + el, err
	}
	return bad()
}

// []*task{{nodeKey: START, call: r.inputChannels, output: input}}: START completed with the run's input
func (c *c06Run) startTask(cl *ast.CompositeLit) (string, error) {
	if c06Squash(types.ExprString(cl.Type)) != "[]*task" || len(cl.Elts) != 1 {
		return "", c06Err(c.where, "the initial task list")
	}
	el, ok := cl.Elts[0].(*ast.CompositeLit)
	if !ok {
		return "", c06Err(c.where, "the initial task list")
	}
	var key, out string
	for _, e := range el.Elts {
		kv, ok := e.(*ast.KeyValueExpr)
		if !ok {
			return "", c06Err(c.where, "the initial task")
		}
		switch c.src(kv.Key) {
		case "nodeKey":
			key = c.src(kv.Value)
		case "output":
			out = c.src(kv.Value)
		case "call":
			if c.src(kv.Value) != c.recv+".inputChannels" {
				return "", c06Err(c.where, "the initial task calls %s", c.src(kv.Value))
			}
		default:
			return "", c06Err(c.where, "the initial task sets %s", c.src(kv.Key))
		}
	}
	if key != "START" || out != "input" {
		return "", c06Err(c.where, "the initial task is %s with output %s", key, out)
	}
	return "[(kStart, (TDone input : tex))]", nil
}

// does the node mention one of the names?
func c06Mentions(n ast.Node, names ...string) bool {
	found := false
	ast.Inspect(n, func(n ast.Node) bool {
		if id, ok := n.(*ast.Ident); ok {
			for _, w := range names {
				if id.Name == w {
					found = true
				}
			}
		}
		return !found
	})
	return found
}

// (*taskManager).wait
func c06TmWait(f *ast.File) (string, error) {
	const w = "(*taskManager).wait"
	fn := c06MethodOf(f, "taskManager", "wait")
	if fn == nil || fn.Body == nil || len(fn.Type.Params.List) != 0 {
		return "", c06Err(w, "not found")
	}
	recv := fn.Recv.List[0].Names[0].Name
	l := fn.Body.List
	src := func(e ast.Expr) string { return c06Squash(types.ExprString(e)) }
	if len(l) != 4 {
		return "", c06Err(w, "%d statements", len(l))
	}
	// if t.needAll { return t.waitAll() }
	is, ok := l[0].(*ast.IfStmt)
	if !ok || is.Init != nil || is.Else != nil || src(is.Cond) != recv+".needAll" || len(is.Body.List) != 1 {
		return "", c06Err(w, "first statement")
	}
	if r, ok := is.Body.List[0].(*ast.ReturnStmt); !ok || len(r.Results) != 1 || src(r.Results[0]) != recv+".waitAll()" {
		return "", c06Err(w, "first statement")
	}
	// ta, success := t.waitOne()
	as, ok := l[1].(*ast.AssignStmt)
	if !ok || as.Tok != token.DEFINE || len(as.Lhs) != 2 || len(as.Rhs) != 1 || src(as.Rhs[0]) != recv+".waitOne()" {
		return "", c06Err(w, "second statement")
	}
	ta, success := c06Name(src(as.Lhs[0])), src(as.Lhs[1])
	lst := func(e ast.Expr) (string, bool) {
		cl, ok := e.(*ast.CompositeLit)
		if !ok || src(cl.Type) != "[]*task" {
			return "", false
		}
		var el []string
		for _, x := range cl.Elts {
			id, ok := x.(*ast.Ident)
			if !ok {
				return "", false
			}
			el = append(el, c06Name(id.Name))
		}
		return "[" + strings.Join(el, "; ") + "]", true
	}
	// if !success { return []*task{}, nil }
	is2, ok := l[2].(*ast.IfStmt)
	if !ok || is2.Init != nil || is2.Else != nil || src(is2.Cond) != "!"+success || len(is2.Body.List) != 1 {
		return "", c06Err(w, "third statement")
	}
	r2, ok := is2.Body.List[0].(*ast.ReturnStmt)
	if !ok || len(r2.Results) != 2 || !c06IsNil(r2.Results[1]) {
		return "", c06Err(w, "third statement")
	}
	none, ok := lst(r2.Results[0])
	if !ok {
		return "", c06Err(w, "third statement")
	}
	// return []*task{ta}, nil
	r3, ok := l[3].(*ast.ReturnStmt)
	if !ok || len(r3.Results) != 2 || !c06IsNil(r3.Results[1]) {
		return "", c06Err(w, "fourth statement")
	}
	some, ok := lst(r3.Results[0])
	if !ok {
		return "", c06Err(w, "fourth statement")
	}
	return "  Definition tm_wait (" + recv + "_needAll : bool) (tm : @tmstate V SCP SINFO) : list (N * tex) * @tmstate V SCP SINFO :=\n" +
		"    if " + recv + "_needAll then tm_wait_all tm\n    else\n" +
		"      let '(" + ta + ", tm) := tm_wait_one tm in\n" +
		"      match " + ta + " with\n      | None => (" + none + ", tm)\n      | Some " + ta + " => (" + some + ", tm)\n      end.\n", nil
}

func c06ExtractLoop(repo string) (string, string, error) {
	fset := token.NewFileSet()
	f, err := c06ParseGo(fset, repo, "compose", "graph_run.go")
	if err != nil {
		return "", "", err
	}
	fm, err := c06ParseGo(fset, repo, "compose", "graph_manager.go")
	if err != nil {
		return "", "", err
	}
	tmWait, err := c06TmWait(fm)
	if err != nil {
		return "", "", err
	}
	fn := c06MethodOf(f, "runner", "run")
	if fn == nil || fn.Body == nil {
		return "", "", fmt.Errorf("method (*runner).run not found")
	}
	c06NormalizeFunc(f, fn)
	recv := fn.Recv.List[0].Names[0].Name
	if recv != "r" {
		return "", "", fmt.Errorf("(*runner).run: receiver %s", recv)
	}
	// which []*task variables hold collected tasks, which created ones
	kind := map[string]string{}
	ast.Inspect(fn.Body, func(n ast.Node) bool {
		as, ok := n.(*ast.AssignStmt)
		if !ok || len(as.Rhs) != 1 || len(as.Lhs) < 2 {
			return true
		}
		id, ok := as.Lhs[0].(*ast.Ident)
		if !ok {
			return true
		}
		switch s := c06Squash(types.ExprString(as.Rhs[0])); {
		case s == "tm.wait()" || s == "tm.waitAll()":
			kind[id.Name] = "tex"
		case strings.HasPrefix(s, "r.calculateNextTasks("):
			kind[id.Name] = "V"
		}
		return true
	})
	var loop *ast.ForStmt
	var initBlk *ast.IfStmt
	for _, s := range fn.Body.List {
		switch x := s.(type) {
		case *ast.ForStmt:
			if x.Cond == nil && x.Init != nil && loop == nil {
				loop = x
			}
		case *ast.IfStmt:
			if c06Squash(types.ExprString(x.Cond)) == "!initialized" {
				initBlk = x
			}
		}
	}
	if loop == nil {
		return "", "", fmt.Errorf("(*runner).run: the loop `for step := 0; ; step++` not found")
	}
	if initBlk == nil {
		return "", "", fmt.Errorf("(*runner).run: the block `if !initialized` not found")
	}

	// ---- the loop body: everything before tm.submit is the cancellation test and the step limit ----
	body := loop.Body.List
	start := -1
	for i, s := range body {
		if as, ok := s.(*ast.AssignStmt); ok && len(as.Rhs) == 1 && c06Squash(types.ExprString(as.Rhs[0])) == "tm.submit(nextTasks)" {
			start = i
			break
		}
	}
	mk := func(where, fall string) *c06Run {
		return &c06Run{c06Tr: &c06Tr{where: where, recv: recv, hitFn: "Gen.IntrHit.get_hit_key"}, file: f, taskKind: kind, fallOff: fall}
	}
	const fall = "GContinue cm nextTasks (fst tm) (snd tm)"
	lc := mk("(*runner).run, loop", fall)
	if start < 0 || start+1 >= len(body) || !lc.isErrGuard(body[start+1]) {
		return "", "", fmt.Errorf("(*runner).run: `err = tm.submit(nextTasks)` and its error test not found in the loop")
	}
	for _, s := range body[:start] {
		switch x := s.(type) {
		case *ast.SelectStmt: // context cancellation
		case *ast.IfStmt: // the step limit
			if !c06Mentions(x.Cond, "maxSteps") || c06Mentions(x, "cm", "tm", "nextTasks") {
				return "", "", fmt.Errorf("(*runner).run: unexpected test before tm.submit")
			}
		default:
			return "", "", fmt.Errorf("(*runner).run: unexpected statement before tm.submit")
		}
	}
	loopCode, err := lc.stmts(body[start+2:], "    ", func(string) (string, error) { return fall, nil })
	if err != nil {
		return "", "", err
	}

	// ---- the initial task set ----
	ib := initBlk.Body.List
	istart := -1
	for i, s := range ib {
		if as, ok := s.(*ast.AssignStmt); ok && len(as.Rhs) == 1 && strings.HasPrefix(c06Squash(types.ExprString(as.Rhs[0])), "r.calculateNextTasks(") {
			istart = i
			break
		}
	}
	if istart < 0 {
		return "", "", fmt.Errorf("(*runner).run: r.calculateNextTasks not found in `if !initialized`")
	}
	for _, s := range ib[:istart] {
		if c06Mentions(s, "cm", "tm", "nextTasks") {
			return "", "", fmt.Errorf("(*runner).run: a statement before the initial calculateNextTasks touches cm / tm / nextTasks")
		}
	}
	ic := mk("(*runner).run, initial task set", fall)
	initCode, err := ic.stmts(ib[istart:], "    ", func(string) (string, error) { return fall, nil })
	if err != nil {
		return "", "", err
	}
	// between the block and the loop nothing may touch the loop's variables
	seenInit := false
	for _, s := range fn.Body.List {
		if s == ast.Stmt(initBlk) {
			seenInit = true
			continue
		}
		if s == ast.Stmt(loop) {
			break
		}
		if seenInit && c06Mentions(s, "cm", "tm", "nextTasks") {
			return "", "", fmt.Errorf("(*runner).run: a statement between `if !initialized` and the loop touches cm / tm / nextTasks")
		}
	}
	if else_, ok := initBlk.Else.(*ast.BlockStmt); ok && c06Mentions(else_, "cm", "tm", "nextTasks") {
		return "", "", fmt.Errorf("(*runner).run: the else branch of `if !initialized` touches cm / tm / nextTasks")
	}

	var b strings.Builder
	b.WriteString("(* Gen/IntrLoop.v — GENERATED by tools/go2v (extractor \"intrloop\") from compose/graph_run.go (runner.run: the\n" +
		"   body of the loop after tm.submit, and the initial task set) and compose/graph_manager.go (taskManager.wait),\n" +
		"   translated statement by statement. Do not edit. *)\n" + c06Hdr + "From Eino Require Gen.IntrHit Gen.IntrResolve.\nOpen Scope N_scope.\n\n")
	b.WriteString("Section Code.\n  Context {V CS GS SCP SINFO : Type}.\n  Notation tex := (@texec V SCP SINFO).\n" +
		"  Variable unk : string -> option tex -> bool.\n  Variable zero : V.\n  Variable fold : CS -> list (N * V) -> res CS.\n" +
		"  Variable getr : CS -> res (CS * list (N * V)).\n  Variable r_interruptBeforeNodes r_interruptAfterNodes : list N.\n\n" +
		"  Definition tie_available : bool := true.\n\n")
	b.WriteString(tmWait + "\n")
	b.WriteString("  Definition loop_body (t_needAll : bool) (cm : CS) (gs : GS) (nextTasks : list (N * V)) (tm : @tmstate V SCP SINFO)\n" +
		"    : @gres V CS GS SCP SINFO :=\n    " + loopCode + ".\n\n")
	b.WriteString("  Definition init_body (cm : CS) (gs : GS) (input : V) (tm : @tmstate V SCP SINFO) : @gres V CS GS SCP SINFO :=\n    " + initCode + ".\n")
	b.WriteString("End Code.\n")
	return "IntrLoop.v", b.String(), nil
}

// ------------------------------------------------------------------------------------------------
// compose/interrupt.go: ExtractInterruptInfo, isSubGraphInterrupt — decision functions over an error chain
//
//   if err == nil { return … }                         -> if go_err_nil err then … else …
//   var x *T                                           -> (the target of a later errors.As)
//   if errors.As(err, &x) { … }                        -> match errors_as_T err with Some x => … | None => … end
//   if x, ok := err.(*T); ok { … }                     -> match type_assert_T err with Some x => … | None => … end
//   return x.F / x / nil [, true / false]              -> Some (T_F x) / Some x / None [, true / false]

type c06ErrFn struct {
	where   string
	param   string            // the error parameter
	targets map[string]string // variable -> type name (var x *T)
	nres    int
}

func (c *c06ErrFn) value(e ast.Expr) (string, error) {
	switch x := e.(type) {
	case *ast.Ident:
		switch x.Name {
		case "nil":
			return "None", nil
		case "true", "false":
			return x.Name, nil
		}
		if _, ok := c.targets[x.Name]; ok {
			return "(Some " + c06Name(x.Name) + ")", nil
		}
	case *ast.SelectorExpr:
		if id, ok := x.X.(*ast.Ident); ok {
			if ty, ok := c.targets[id.Name]; ok {
				return "(Some (" + ty + "_" + x.Sel.Name + " " + c06Name(id.Name) + "))", nil
			}
		}
	}
	return "", c06Err(c.where, "returned value %s", types.ExprString(e))
}

func (c *c06ErrFn) stmts(l []ast.Stmt, ind string) (string, error) {
	if len(l) == 0 {
		return "", c06Err(c.where, "control reaches the end of the function")
	}
	src := func(e ast.Expr) string { return c06Squash(types.ExprString(e)) }
	switch x := l[0].(type) {
	case *ast.DeclStmt: // var x *T
		gd, ok := x.Decl.(*ast.GenDecl)
		if ok && gd.Tok == token.VAR && len(gd.Specs) == 1 {
			vs := gd.Specs[0].(*ast.ValueSpec)
			if st, ok := vs.Type.(*ast.StarExpr); ok && len(vs.Names) == 1 && len(vs.Values) == 0 {
				if id, ok := st.X.(*ast.Ident); ok {
					c.targets[vs.Names[0].Name] = id.Name
					return c.stmts(l[1:], ind)
				}
			}
		}
	case *ast.ReturnStmt:
		if len(x.Results) != c.nres {
			return "", c06Err(c.where, "return with %d results", len(x.Results))
		}
		var vs []string
		for _, r := range x.Results {
			v, err := c.value(r)
			if err != nil {
				return "", err
			}
			vs = append(vs, v)
		}
		if len(vs) == 1 {
			// a function returning the pointer itself: Some x / None are already options
			return strings.TrimSuffix(strings.TrimPrefix(vs[0], "("), ")"), nil
		}
		return "(" + strings.Join(vs, ", ") + ")", nil
	case *ast.IfStmt:
		// `if c { A } else { B }; rest` is `if c { A; rest } else { B; rest }` (a branch that returns never reaches rest);
		// `if !c { A }; rest` is `if c { rest } else { A }` with the same reading
		thenL := append(append([]ast.Stmt{}, x.Body.List...), l[1:]...)
		elseL := l[1:]
		switch e := x.Else.(type) {
		case nil:
		case *ast.BlockStmt:
			elseL = append(append([]ast.Stmt{}, e.List...), l[1:]...)
		case *ast.IfStmt:
			elseL = append([]ast.Stmt{e}, l[1:]...)
		default:
			return "", c06Err(c.where, "else branch")
		}
		cond := c06Unparen(x.Cond)
		if x.Init == nil {
			if u, ok := cond.(*ast.UnaryExpr); ok && u.Op == token.NOT {
				cond, thenL, elseL = c06Unparen(u.X), elseL, thenL
			} else if src(cond) == c.param+"!=nil" {
				cond, thenL, elseL = &ast.BinaryExpr{X: ast.NewIdent(c.param), Op: token.EQL, Y: ast.NewIdent("nil")}, elseL, thenL
			}
		}
		// if err == nil { … }
		if x.Init == nil && src(cond) == c.param+"==nil" {
			th, err := c.stmts(thenL, ind+"    ")
			if err != nil {
				return "", err
			}
			el, err := c.stmts(elseL, ind)
			return "if go_err_nil " + c.param + " then " + th + "\n" + ind + "else " + el, err
		}
		// if errors.As(err, &x) { … }
		if call, ok := cond.(*ast.CallExpr); ok && x.Init == nil && src(call.Fun) == "errors.As" && len(call.Args) == 2 && src(call.Args[0]) == c.param {
			if u, ok := call.Args[1].(*ast.UnaryExpr); ok && u.Op == token.AND {
				if id, ok := u.X.(*ast.Ident); ok {
					if ty, ok := c.targets[id.Name]; ok {
						th, err := c.stmts(thenL, ind+"    ")
						if err != nil {
							return "", err
						}
						el, err := c.stmts(elseL, ind+"    ")
						return "match errors_as_" + ty + " " + c.param + " with\n" + ind + "| Some " + c06Name(id.Name) + " => " + th + "\n" +
							ind + "| None => " + el + "\n" + ind + "end", err
					}
				}
			}
		}
		// if x, ok := err.(*T); ok { … }
		if as, ok := x.Init.(*ast.AssignStmt); ok && as.Tok == token.DEFINE && len(as.Lhs) == 2 && len(as.Rhs) == 1 && src(x.Cond) == src(as.Lhs[1]) {
			if ta, ok := as.Rhs[0].(*ast.TypeAssertExpr); ok && src(ta.X) == c.param {
				if st, ok := ta.Type.(*ast.StarExpr); ok {
					if ty, ok := st.X.(*ast.Ident); ok {
						v := src(as.Lhs[0])
						saved := c.targets[v]
						c.targets[v] = ty.Name
						th, err := c.stmts(thenL, ind+"    ")
						if saved == "" {
							delete(c.targets, v)
						} else {
							c.targets[v] = saved
						}
						if err != nil {
							return "", err
						}
						el, err := c.stmts(elseL, ind+"    ")
						return "match type_assert_" + ty.Name + " " + c.param + " with\n" + ind + "| Some " + c06Name(v) + " => " + th + "\n" +
							ind + "| None => " + el + "\n" + ind + "end", err
					}
				}
			}
		}
	}
	return "", c06Err(c.where, "statement outside the translated fragment")
}

func c06ErrFunc(f *ast.File, name string, nres int) (string, string, error) {
	fn := c06TopFunc(f, name)
	if fn == nil || fn.Body == nil {
		return "", "", fmt.Errorf("func %s not found", name)
	}
	names, tys := c06ParamNames(fn)
	if len(names) != 1 || tys[0] != "error" {
		return "", "", c06Err(name, "parameters")
	}
	if fn.Type.Results == nil || fn.Type.Results.NumFields() != nres {
		return "", "", c06Err(name, "results")
	}
	c := &c06ErrFn{where: name, param: c06Name(names[0]), targets: map[string]string{}, nres: nres}
	body, err := c.stmts(fn.Body.List, "  ")
	return c.param, body, err
}

func c06ExtractErr(repo string) (string, string, error) {
	fset := token.NewFileSet()
	f, err := c06ParseGo(fset, repo, "compose", "interrupt.go")
	if err != nil {
		return "", "", err
	}
	p1, b1, err := c06ErrFunc(f, "ExtractInterruptInfo", 2)
	if err != nil {
		return "", "", err
	}
	p2, b2, err := c06ErrFunc(f, "isSubGraphInterrupt", 1)
	if err != nil {
		return "", "", err
	}
	var b strings.Builder
	b.WriteString("(* Gen/IntrErr.v — GENERATED by tools/go2v (extractor \"intrerr\") from compose/interrupt.go\n" +
		"   (ExtractInterruptInfo, isSubGraphInterrupt, translated statement by statement). Do not edit. *)\n" + c06Hdr + "Open Scope N_scope.\n\n")
	fmt.Fprintf(&b, "Definition extract_interrupt_info {INFO CP : Type} (%s : option (gerr INFO CP)) : option INFO * bool :=\n  %s.\n\n", p1, b1)
	fmt.Fprintf(&b, "Definition is_sub_graph_interrupt_err {INFO CP : Type} (%s : option (gerr INFO CP)) : option (INFO * CP) :=\n  %s.\n", p2, b2)
	return "IntrErr.v", b.String(), nil
}

// ------------------------------------------------------------------------------------------------
// how the interrupt lists travel from the application to the runner:
//   compose/interrupt.go  WithInterruptBeforeNodes / WithInterruptAfterNodes:  options.<field> = <expr over nodes>
//   compose/graph.go      (*graph).compile:  r.interruptBeforeNodes = <expr over opt>, r.interruptAfterNodes = <expr over opt>
// An expression is a parameter, a field of the options, or a call f(e, …) of something else (kept as
// [unk "f" e]: recognised but different).

func c06CfgExpr(e ast.Expr, param, optVar string) (string, error) {
	switch x := e.(type) {
	case *ast.Ident:
		if x.Name == param && param != "" {
			return c06Name(param), nil
		}
	case *ast.SelectorExpr:
		if id, ok := x.X.(*ast.Ident); ok && id.Name == optVar {
			switch x.Sel.Name {
			case "interruptBeforeNodes":
				return "(opt_before " + c06Name(optVar) + ")", nil
			case "interruptAfterNodes":
				return "(opt_after " + c06Name(optVar) + ")", nil
			}
		}
	case *ast.CallExpr:
		if len(x.Args) >= 1 {
			a, err := c06CfgExpr(x.Args[0], param, optVar)
			if err != nil {
				return "", err
			}
			return "(unk " + c06CoqStr(c06Squash(types.ExprString(x.Fun))) + " " + a + ")", nil
		}
	case *ast.SliceExpr:
		// l[a:b:c] is the same list of values
		if x.Low == nil || c06Squash(types.ExprString(x.Low)) == "0" {
			inner, err := c06CfgExpr(x.X, param, optVar)
			if err != nil {
				return "", err
			}
			if x.High == nil || c06Squash(types.ExprString(x.High)) == "len("+c06Squash(types.ExprString(x.X))+")" {
				return inner, nil
			}
		}
	}
	return "", fmt.Errorf("expression %s", types.ExprString(e))
}

// func WithX(nodes []string) GraphCompileOption { return func(options *graphCompileOptions) { options.F = e } }
func c06WithOption(f *ast.File, name, field string) (string, error) {
	fn := c06TopFunc(f, name)
	if fn == nil || fn.Body == nil || len(fn.Body.List) != 1 {
		return "", fmt.Errorf("func %s", name)
	}
	names, tys := c06ParamNames(fn)
	if len(names) != 1 || tys[0] != "[]string" {
		return "", c06Err(name, "parameters")
	}
	ret, ok := fn.Body.List[0].(*ast.ReturnStmt)
	if !ok || len(ret.Results) != 1 {
		return "", c06Err(name, "body")
	}
	lit, ok := ret.Results[0].(*ast.FuncLit)
	if !ok || len(lit.Type.Params.List) != 1 || len(lit.Type.Params.List[0].Names) != 1 || len(lit.Body.List) != 1 {
		return "", c06Err(name, "returned function")
	}
	ov := lit.Type.Params.List[0].Names[0].Name
	as, ok := lit.Body.List[0].(*ast.AssignStmt)
	if !ok || as.Tok != token.ASSIGN || len(as.Lhs) != 1 || len(as.Rhs) != 1 {
		return "", c06Err(name, "returned function body")
	}
	lhs := c06Squash(types.ExprString(as.Lhs[0]))
	var setter string
	switch lhs {
	case ov + ".interruptBeforeNodes":
		setter = "set_opt_before"
	case ov + ".interruptAfterNodes":
		setter = "set_opt_after"
	default:
		return "", c06Err(name, "assigns %s", lhs)
	}
	e, err := c06CfgExpr(as.Rhs[0], names[0], ov)
	if err != nil {
		return "", c06Err(name, "%v", err)
	}
	_ = field
	return fmt.Sprintf("(unk : string -> list N -> list N) (%s : list N) (%s : copts) : copts := %s %s %s", c06Name(names[0]), c06Name(ov), setter, e, c06Name(ov)), nil
}

func c06ExtractCfg(repo string) (string, string, error) {
	fset := token.NewFileSet()
	fi, err := c06ParseGo(fset, repo, "compose", "interrupt.go")
	if err != nil {
		return "", "", err
	}
	fg, err := c06ParseGo(fset, repo, "compose", "graph.go")
	if err != nil {
		return "", "", err
	}
	wb, err := c06WithOption(fi, "WithInterruptBeforeNodes", "interruptBeforeNodes")
	if err != nil {
		return "", "", err
	}
	wa, err := c06WithOption(fi, "WithInterruptAfterNodes", "interruptAfterNodes")
	if err != nil {
		return "", "", err
	}
	comp := c06MethodOf(fg, "graph", "compile")
	if comp == nil || comp.Body == nil {
		return "", "", fmt.Errorf("method (*graph).compile not found")
	}
	names, _ := c06ParamNames(comp)
	if len(names) != 2 {
		return "", "", fmt.Errorf("(*graph).compile: parameters")
	}
	optVar := names[1]
	got := map[string]string{}
	var cfgErr error
	ast.Inspect(comp.Body, func(n ast.Node) bool {
		as, ok := n.(*ast.AssignStmt)
		if !ok || len(as.Lhs) != 1 || len(as.Rhs) != 1 {
			return true
		}
		lhs := c06Squash(types.ExprString(as.Lhs[0]))
		if lhs != "r.interruptBeforeNodes" && lhs != "r.interruptAfterNodes" {
			return true
		}
		if _, dup := got[lhs]; dup || as.Tok != token.ASSIGN {
			cfgErr = fmt.Errorf("(*graph).compile: %s is assigned more than once", lhs)
			return false
		}
		e, err := c06CfgExpr(as.Rhs[0], "", optVar)
		if err != nil {
			cfgErr = fmt.Errorf("(*graph).compile: %s = %v", lhs, err)
			return false
		}
		got[lhs] = e
		return true
	})
	if cfgErr != nil {
		return "", "", cfgErr
	}
	if got["r.interruptBeforeNodes"] == "" || got["r.interruptAfterNodes"] == "" {
		return "", "", fmt.Errorf("(*graph).compile: the assignments of r.interruptBeforeNodes / r.interruptAfterNodes not found")
	}
	// nothing else in the package writes the runner's lists
	var b strings.Builder
	b.WriteString("(* Gen/IntrCfg.v — GENERATED by tools/go2v (extractor \"intrcfg\") from compose/interrupt.go (WithInterruptBeforeNodes,\n" +
		"   WithInterruptAfterNodes) and compose/graph.go (graph.compile: what the runner's lists are set to). Do not edit. *)\n" + c06Hdr + "Open Scope N_scope.\n\n")
	b.WriteString("Definition with_interrupt_before_nodes " + wb + ".\n")
	b.WriteString("Definition with_interrupt_after_nodes " + wa + ".\n")
	fmt.Fprintf(&b, "Definition runner_interrupt_before_nodes (unk : string -> list N -> list N) (%s : copts) : list N := %s.\n", c06Name(optVar), got["r.interruptBeforeNodes"])
	fmt.Fprintf(&b, "Definition runner_interrupt_after_nodes (unk : string -> list N -> list N) (%s : copts) : list N := %s.\n", c06Name(optVar), got["r.interruptAfterNodes"])
	return "IntrCfg.v", b.String(), nil
}

// ------------------------------------------------------------------------------------------------
// handleInterrupt / handleInterruptWithSubGraphAndRerunNodes: compiler 1 with the vocabulary of records.
//
//   x := &T{F: e, …}            one Gallina variable x_F per field of T (unnamed fields: the zero value)
//   x.F, x.F = e, x.F[k] = e    the variable x_F
//   var a, b, c T               three variables
//   if _, ok := m[k]; ok {…}    match map_get k m with Some _ => … | None => … end
//   m[k] = m2[k].F              map_put_opt k (option_map T_F (map_get k m2)) m   (a missing key panics in Go)
//   if r.runCtx != nil { if state, ok := ctx.Value(stateKey{}).(*internalState); ok { … state.state … } }
//                               if r_runCtx_non_nil then match ctx_state with Some state => … | None => … end
//   toValue, controls, err := r.resolveCompletedTasks(ctx, X, isStream, cm) ; cm.updateValues(ctx, toValue) ;
//   cm.updateDependencies(ctx, controls), each with its error test:  match fold cm (outs X) with Ok cm => … end
//   r.checkPointer.convertCheckPoint(cp, isStream)      nothing (values and streams are one in the model)
//   r.checkPointer.set(ctx, *checkPointID, cp)          store_written := true
//   return &subGraphInterruptError{Info: i, CheckPoint: c}   HToParent i c
//   return &interruptError{Info: i}                          HInterrupt i cp store_written

type c06ProcCfg struct {
	structs   map[string][]string // struct type -> fields
	locals    map[string]string   // local record variable -> struct type
	stateVar  string              // the variable bound by the ctx-state pattern
	taskKind  map[string]string   // []*task parameter / variable -> "tex" | "V"
	ptrParams map[string]bool     // pointer parameters tested against nil
}

// the zero value of a field of checkpoint / InterruptInfo
var c06FieldZero = map[string]string{
	"checkpoint.Inputs": "(@nil (N * V))", "checkpoint.State": "gs_nil", "checkpoint.SkipPreHandler": "(@nil (N * bool))",
	"checkpoint.SubGraphs": "(@nil (N * SCP))",
	"InterruptInfo.State":  "gs_nil", "InterruptInfo.BeforeNodes": "(@nil N)", "InterruptInfo.AfterNodes": "(@nil N)",
	"InterruptInfo.RerunNodes": "(@nil N)", "InterruptInfo.SubGraphs": "(@nil (N * SINFO))",
}

func c06EmptyOf(goType string) (string, bool) {
	switch c06Squash(goType) {
	case "map[string]bool":
		return "(@nil (N * bool))", true
	case "map[string]any":
		return "(@nil (N * V))", true
	case "map[string]*checkpoint":
		return "(@nil (N * SCP))", true
	case "map[string]*InterruptInfo":
		return "(@nil (N * SINFO))", true
	case "[]*task":
		return "(@nil (N * tex))", true
	}
	return c06NilOf(goType, "tex")
}

func (t *c06Tr) procExpr(e ast.Expr) (string, bool, error) {
	p := t.proc
	switch x := e.(type) {
	case *ast.Ident:
		if x.Name == "true" || x.Name == "false" {
			return x.Name, true, nil
		}
	case *ast.SelectorExpr:
		if id, ok := x.X.(*ast.Ident); ok {
			if _, ok := p.locals[id.Name]; ok {
				return id.Name + "_" + x.Sel.Name, true, nil
			}
			if id.Name == "cm" && x.Sel.Name == "channels" {
				return "cm", true, nil
			}
			if id.Name == p.stateVar && p.stateVar != "" && x.Sel.Name == "state" {
				return c06Name(id.Name), true, nil
			}
			if x.Sel.Name == "input" {
				return "(snd " + c06Name(id.Name) + ")", true, nil
			}
		}
	case *ast.CallExpr:
		s := t.src(x)
		if strings.HasSuffix(s, ".call.action.inputZeroValue()") || strings.HasSuffix(s, ".call.action.inputEmptyStream()") {
			return "zero", true, nil
		}
	}
	return "", false, nil
}

func (t *c06Tr) procCond(e ast.Expr) (string, bool) {
	be, ok := e.(*ast.BinaryExpr)
	if !ok || (be.Op != token.NEQ && be.Op != token.EQL) || !c06IsNil(be.Y) {
		return "", false
	}
	var v string
	switch t.src(be.X) {
	case t.recv + ".runCtx":
		v = t.recv + "_runCtx_non_nil"
	default:
		id, ok := be.X.(*ast.Ident)
		if !ok || !t.proc.ptrParams[id.Name] {
			return "", false
		}
		v = c06Name(id.Name) + "_non_nil"
	}
	if be.Op == token.EQL {
		return "(negb " + v + ")", true
	}
	return v, true
}

// `err (:)= CALL` followed by `if err != nil { return … }`
func (f *c06Fn) procUnit(l []ast.Stmt) (call *ast.CallExpr, lhs []string, ok bool) {
	if len(l) < 2 {
		return nil, nil, false
	}
	as, ok1 := l[0].(*ast.AssignStmt)
	if !ok1 || len(as.Rhs) != 1 || (as.Tok != token.ASSIGN && as.Tok != token.DEFINE) {
		return nil, nil, false
	}
	c, ok2 := as.Rhs[0].(*ast.CallExpr)
	if !ok2 {
		return nil, nil, false
	}
	for _, e := range as.Lhs {
		id, ok := e.(*ast.Ident)
		if !ok {
			return nil, nil, false
		}
		lhs = append(lhs, id.Name)
	}
	if len(lhs) == 0 || lhs[len(lhs)-1] != "err" {
		return nil, nil, false
	}
	is, ok3 := l[1].(*ast.IfStmt)
	if !ok3 || is.Init != nil || is.Else != nil || f.src(is.Cond) != "err!=nil" || len(is.Body.List) != 1 {
		return nil, nil, false
	}
	if r, ok := is.Body.List[0].(*ast.ReturnStmt); !ok || len(r.Results) != 1 {
		return nil, nil, false
	}
	return c, lhs, true
}

func (f *c06Fn) procStmt(l []ast.Stmt, ind string, k func(string) (string, error)) (string, bool, error) {
	p := f.proc
	rest := func(ind string) (string, error) { return f.stmts(l[1:], ind, k) }
	fail := func(format string, a ...any) (string, bool, error) { return "", true, c06Err(f.where, format, a...) }
	// ---- call units
	if call, lhs, ok := f.procUnit(l); ok {
		after := func(n int) func(string) (string, error) {
			return func(ind string) (string, error) { return f.stmts(l[n:], ind, k) }
		}
		fn := f.src(call.Fun)
		switch {
		case fn == f.recv+".resolveCompletedTasks" && len(lhs) == 3:
			// the three steps that fold completed tasks into the channels
			if len(call.Args) != 4 || f.src(call.Args[3]) != "cm" {
				return fail("resolveCompletedTasks is not given cm")
			}
			c2, l2, ok2 := f.procUnit(l[2:])
			if !ok2 || len(l) < 6 {
				return fail("resolveCompletedTasks is not followed by updateValues")
			}
			c3, l3, ok3 := f.procUnit(l[4:])
			if !ok3 {
				return fail("updateValues is not followed by updateDependencies")
			}
			if f.src(c2.Fun) != "cm.updateValues" || len(c2.Args) != 2 || f.src(c2.Args[1]) != lhs[0] || len(l2) != 1 ||
				f.src(c3.Fun) != "cm.updateDependencies" || len(c3.Args) != 2 || f.src(c3.Args[1]) != lhs[1] || len(l3) != 1 {
				return fail("the values / dependencies resolved are not the ones written to the channels")
			}
			x, err := f.expr(call.Args[1])
			if err != nil {
				return "", true, err
			}
			r, err := after(6)(ind)
			return "match fold cm (outs " + x + ") with\n" + ind + "| Ok cm =>\n" + ind + r + "\n" + ind + "| r => HFail (chan_err r)\n" + ind + "end", true, err
		case fn == f.recv+".checkPointer.convertCheckPoint" && len(lhs) == 1:
			if len(call.Args) != 2 || p.locals[f.src(call.Args[0])] != "checkpoint" {
				return fail("convertCheckPoint")
			}
			r, err := after(2)(ind)
			return r, true, err
		case fn == f.recv+".checkPointer.set" && len(lhs) == 1:
			if len(call.Args) != 3 || f.src(call.Args[1]) != "*checkPointID" || p.locals[f.src(call.Args[2])] != "checkpoint" {
				return fail("checkPointer.set is not given *checkPointID and the checkpoint")
			}
			r, err := after(2)(ind)
			return "let store_written := true in\n" + ind + r, true, err
		}
		return fail("call of %s", fn)
	}
	switch x := l[0].(type) {
	case *ast.DeclStmt: // var a, b, c T
		gd, ok := x.Decl.(*ast.GenDecl)
		if !ok || gd.Tok != token.VAR || len(gd.Specs) != 1 {
			break
		}
		vs := gd.Specs[0].(*ast.ValueSpec)
		if len(vs.Values) != 0 {
			break
		}
		ty, ok := c06EmptyOf(types.ExprString(vs.Type))
		if !ok {
			return fail("declaration of type %s", types.ExprString(vs.Type))
		}
		r, err := rest(ind)
		out := ""
		for _, n := range vs.Names {
			out += "let " + c06Name(n.Name) + " := " + ty + " in\n" + ind
		}
		return out + r, true, err
	case *ast.AssignStmt:
		if len(x.Lhs) != 1 || len(x.Rhs) != 1 {
			break
		}
		// x := &T{…}
		if u, ok := x.Rhs[0].(*ast.UnaryExpr); ok && u.Op == token.AND && x.Tok == token.DEFINE {
			cl, ok := u.X.(*ast.CompositeLit)
			id, ok2 := x.Lhs[0].(*ast.Ident)
			if !ok || !ok2 {
				break
			}
			ty := f.src(cl.Type)
			fields, ok := p.structs[ty]
			if !ok {
				return fail("a literal of type %s", ty)
			}
			given := map[string]string{}
			for _, el := range cl.Elts {
				kv, ok := el.(*ast.KeyValueExpr)
				if !ok {
					return fail("a positional field in a literal of %s", ty)
				}
				var v string
				var err error
				switch val := kv.Value.(type) {
				case *ast.CompositeLit:
					if len(val.Elts) != 0 {
						return fail("a non-empty literal in a field of %s", ty)
					}
					e, ok := c06EmptyOf(types.ExprString(val.Type))
					if !ok {
						return fail("field %s of %s", f.src(kv.Key), ty)
					}
					v = e
				case *ast.CallExpr:
					if f.src(val.Fun) == "make" && len(val.Args) >= 1 {
						e, ok := c06EmptyOf(types.ExprString(val.Args[0]))
						if !ok {
							return fail("field %s of %s", f.src(kv.Key), ty)
						}
						v = e
						break
					}
					v, err = f.expr(kv.Value)
				default:
					v, err = f.expr(kv.Value)
				}
				if err != nil {
					return "", true, err
				}
				given[f.src(kv.Key)] = v
			}
			p.locals[id.Name] = ty
			out := ""
			for _, fld := range fields {
				v, ok := given[fld]
				if !ok {
					if v, ok = c06FieldZero[ty+"."+fld]; !ok {
						return fail("field %s of %s is not set", fld, ty)
					}
				}
				delete(given, fld)
				out += "let " + id.Name + "_" + fld + " := " + v + " in\n" + ind
			}
			if len(given) != 0 {
				return fail("a literal of %s sets a field the translation does not know", ty)
			}
			r, err := rest(ind)
			return out + r, true, err
		}
		// x := false / map[…]…{} / make(…)
		if id, ok := x.Lhs[0].(*ast.Ident); ok && x.Tok == token.DEFINE {
			switch v := x.Rhs[0].(type) {
			case *ast.CompositeLit:
				if len(v.Elts) == 0 {
					if e, ok := c06EmptyOf(types.ExprString(v.Type)); ok {
						r, err := rest(ind)
						return "let " + c06Name(id.Name) + " := " + e + " in\n" + ind + r, true, err
					}
				}
			case *ast.CallExpr:
				if f.src(v.Fun) == "make" && len(v.Args) >= 1 {
					if e, ok := c06EmptyOf(types.ExprString(v.Args[0])); ok {
						r, err := rest(ind)
						return "let " + c06Name(id.Name) + " := " + e + " in\n" + ind + r, true, err
					}
				}
			}
		}
		// m[k] = m2[k2].F
		if ix, ok := x.Lhs[0].(*ast.IndexExpr); ok && x.Tok == token.ASSIGN {
			if sel, ok := x.Rhs[0].(*ast.SelectorExpr); ok {
				if ix2, ok := sel.X.(*ast.IndexExpr); ok {
					v := c06Assigned(x.Lhs[0])
					key, err := f.expr(ix.Index)
					if err != nil {
						return "", true, err
					}
					m2, err := f.expr(ix2.X)
					if err != nil {
						return "", true, err
					}
					key2, err := f.expr(ix2.Index)
					if err != nil {
						return "", true, err
					}
					r, err := rest(ind)
					return "let " + c06Name(v) + " := map_put_opt " + key + " (option_map sub_interrupt_" + sel.Sel.Name + " (map_get " + key2 + " " + m2 + ")) " + c06Name(v) + " in\n" + ind + r, true, err
				}
			}
		}
	case *ast.IfStmt:
		if x.Init == nil {
			break
		}
		as, ok := x.Init.(*ast.AssignStmt)
		if !ok || as.Tok != token.DEFINE || len(as.Lhs) != 2 || len(as.Rhs) != 1 || f.src(x.Cond) != f.src(as.Lhs[1]) || x.Else != nil {
			break
		}
		after := rest
		branch := func(ind string) (string, error) {
			if c06Always(x.Body.List) {
				return f.stmts(x.Body.List, ind, func(string) (string, error) { return "", c06Err(f.where, "internal: unreachable continuation") })
			}
			return f.stmts(x.Body.List, ind, after)
		}
		// if _, ok := m[k]; ok { … }
		if ix, ok := as.Rhs[0].(*ast.IndexExpr); ok && f.src(as.Lhs[0]) == "_" {
			m, err := f.expr(ix.X)
			if err != nil {
				return "", true, err
			}
			key, err := f.expr(ix.Index)
			if err != nil {
				return "", true, err
			}
			th, err := branch(ind + "    ")
			if err != nil {
				return "", true, err
			}
			el, err := after(ind + "    ")
			return "match map_get " + key + " " + m + " with\n" + ind + "| Some _ =>\n" + ind + "    " + th + "\n" + ind + "| None =>\n" + ind + "    " + el + "\n" + ind + "end", true, err
		}
		// if state, ok := ctx.Value(stateKey{}).(*internalState); ok { … }
		if ta, ok := as.Rhs[0].(*ast.TypeAssertExpr); ok && f.src(ta.X) == "ctx.Value(stateKey{})" && f.src(ta.Type) == "*internalState" {
			v := f.src(as.Lhs[0])
			saved := p.stateVar
			p.stateVar = v
			th, err := branch(ind + "    ")
			p.stateVar = saved
			if err != nil {
				return "", true, err
			}
			el, err := after(ind + "    ")
			return "match ctx_state with\n" + ind + "| Some " + c06Name(v) + " =>\n" + ind + "    " + th + "\n" + ind + "| None =>\n" + ind + "    " + el + "\n" + ind + "end", true, err
		}
	}
	return "", false, nil
}

func c06StructFields(f *ast.File, name string) []string {
	for _, d := range f.Decls {
		gd, ok := d.(*ast.GenDecl)
		if !ok || gd.Tok != token.TYPE {
			continue
		}
		for _, sp := range gd.Specs {
			ts := sp.(*ast.TypeSpec)
			st, ok := ts.Type.(*ast.StructType)
			if !ok || ts.Name.Name != name {
				continue
			}
			var out []string
			for _, fl := range st.Fields.List {
				for _, n := range fl.Names {
					out = append(out, n.Name)
				}
			}
			return out
		}
	}
	return nil
}

// the Gallina type of a parameter of the two handlers, by Go type and name
func c06HandlerParam(name, ty string) (string, bool) {
	switch ty {
	case "context.Context":
		return "", true // not a parameter of the translation
	case "[]string":
		return "(" + c06Name(name) + " : list N)", true
	case "map[string]*subGraphInterruptError":
		return "(" + c06Name(name) + " : list (N * (SCP * SINFO)))", true
	case "[]*task":
		if name == "completeTasks" {
			return "(" + name + " : list (N * tex))", true
		}
		return "(" + c06Name(name) + " : list (N * V))", true
	case "map[string]channel", "*channelManager":
		return "(" + c06Name(name) + " : CS)", true
	case "bool":
		return "(" + c06Name(name) + " : bool)", true
	case "*string":
		return "(" + c06Name(name) + "_non_nil : bool)", true
	}
	return "", false
}

func c06Handler(fr *ast.File, structs map[string][]string, method, gname string) (string, error) {
	fn := c06MethodOf(fr, "runner", method)
	if fn == nil || fn.Body == nil {
		return "", fmt.Errorf("method (*runner).%s not found", method)
	}
	c06NormalizeFunc(fr, fn)
	recv := fn.Recv.List[0].Names[0].Name
	names, tys := c06ParamNames(fn)
	if fn.Type.Results == nil || fn.Type.Results.NumFields() != 1 || c06Squash(types.ExprString(fn.Type.Results.List[0].Type)) != "error" {
		return "", c06Err(method, "result type")
	}
	cfg := &c06ProcCfg{structs: structs, locals: map[string]string{}, taskKind: map[string]string{}, ptrParams: map[string]bool{}}
	var params []string
	for i, n := range names {
		p, ok := c06HandlerParam(n, tys[i])
		if !ok {
			return "", c06Err(method, "parameter %s of type %s", n, tys[i])
		}
		if tys[i] == "*string" {
			cfg.ptrParams[n] = true
		}
		if tys[i] == "map[string]channel" && n != "channels" || tys[i] == "*channelManager" && n != "cm" {
			return "", c06Err(method, "the channels are handed over as %s", n)
		}
		if p != "" {
			params = append(params, p)
		}
	}
	tr := &c06Tr{where: method, recv: recv, proc: cfg}
	c := &c06Fn{c06Tr: tr, vars: c06Vars(fn)}
	// the flattened fields of the local records are variables too
	ast.Inspect(fn.Body, func(n ast.Node) bool {
		as, ok := n.(*ast.AssignStmt)
		if !ok || as.Tok != token.DEFINE || len(as.Lhs) != 1 || len(as.Rhs) != 1 {
			return true
		}
		if u, ok := as.Rhs[0].(*ast.UnaryExpr); ok && u.Op == token.AND {
			if cl, ok := u.X.(*ast.CompositeLit); ok {
				if id, ok := as.Lhs[0].(*ast.Ident); ok {
					for _, fld := range structs[c06Squash(types.ExprString(cl.Type))] {
						c.vars = append(c.vars, id.Name+"_"+fld)
					}
				}
			}
		}
		return true
	})
	c.vars = append(c.vars, "store_written")
	record := func(tr *c06Tr, v, ty string) (string, error) {
		if cfg.locals[v] != ty {
			return "", c06Err(method, "%s is not a %s", v, ty)
		}
		switch ty {
		case "InterruptInfo":
			return "{| ii_gs := " + v + "_State; ii_before := " + v + "_BeforeNodes; ii_after := " + v + "_AfterNodes; ii_rerun := " + v + "_RerunNodes; ii_subs := " + v + "_SubGraphs |}", nil
		case "checkpoint":
			return "{| cp_cs := " + v + "_Channels; cp_inputs := " + v + "_Inputs; cp_gs := " + v + "_State; cp_skip := skip_keys " + v + "_SkipPreHandler; cp_subs := " + v + "_SubGraphs |}", nil
		}
		return "", c06Err(method, "record type %s", ty)
	}
	theCp := func() string {
		for v, ty := range cfg.locals {
			if ty == "checkpoint" {
				return v
			}
		}
		return ""
	}
	c.retTop = func(tr *c06Tr, r *ast.ReturnStmt) (string, error) {
		if len(r.Results) != 1 {
			return "", c06Err(method, "return with %d results", len(r.Results))
		}
		u, ok := r.Results[0].(*ast.UnaryExpr)
		if !ok || u.Op != token.AND {
			return "", c06Err(method, "return of %s", tr.src(r.Results[0]))
		}
		cl, ok := u.X.(*ast.CompositeLit)
		if !ok {
			return "", c06Err(method, "return of %s", tr.src(r.Results[0]))
		}
		flds := map[string]string{}
		for _, el := range cl.Elts {
			kv, ok := el.(*ast.KeyValueExpr)
			if !ok {
				return "", c06Err(method, "positional field in the returned error")
			}
			flds[tr.src(kv.Key)] = tr.src(kv.Value)
		}
		switch tr.src(cl.Type) {
		case "subGraphInterruptError":
			if len(flds) != 2 {
				return "", c06Err(method, "subGraphInterruptError literal")
			}
			i, err := record(tr, flds["Info"], "InterruptInfo")
			if err != nil {
				return "", err
			}
			cp, err := record(tr, flds["CheckPoint"], "checkpoint")
			return "HToParent " + i + " " + cp, err
		case "interruptError":
			if len(flds) != 1 {
				return "", c06Err(method, "interruptError literal")
			}
			i, err := record(tr, flds["Info"], "InterruptInfo")
			if err != nil {
				return "", err
			}
			cp, err := record(tr, theCp(), "checkpoint")
			return "HInterrupt " + i + " " + cp + " store_written", err
		}
		return "", c06Err(method, "return of a %s", tr.src(cl.Type))
	}
	body, err := c.stmts(fn.Body.List, "    ", func(string) (string, error) {
		return "", c06Err(method, "control reaches the end of the function")
	})
	if err != nil {
		return "", err
	}
	for _, fld := range c06RecvFields(fn, recv) {
		switch fld {
		case "runCtx", "checkPointer", "resolveCompletedTasks":
		default:
			return "", c06Err(method, "reads %s.%s", recv, fld)
		}
	}
	return "  Definition " + gname + " " + strings.Join(params, " ") + "\n    : hexit V CS GS SCP SINFO :=\n    let store_written := false in\n    " + body + ".\n", nil
}

func c06ExtractHandle(repo string) (string, string, error) {
	fset := token.NewFileSet()
	fr, err := c06ParseGo(fset, repo, "compose", "graph_run.go")
	if err != nil {
		return "", "", err
	}
	fc, err := c06ParseGo(fset, repo, "compose", "checkpoint.go")
	if err != nil {
		return "", "", err
	}
	fi, err := c06ParseGo(fset, repo, "compose", "interrupt.go")
	if err != nil {
		return "", "", err
	}
	structs := map[string][]string{"checkpoint": c06StructFields(fc, "checkpoint"), "InterruptInfo": c06StructFields(fi, "InterruptInfo")}
	if strings.Join(structs["checkpoint"], ",") != "Channels,Inputs,State,SkipPreHandler,SubGraphs" {
		return "", "", fmt.Errorf("type checkpoint has the fields %v", structs["checkpoint"])
	}
	if strings.Join(structs["InterruptInfo"], ",") != "State,BeforeNodes,AfterNodes,RerunNodes,SubGraphs" {
		return "", "", fmt.Errorf("type InterruptInfo has the fields %v", structs["InterruptInfo"])
	}
	h1, err := c06Handler(fr, structs, "handleInterrupt", "handle_interrupt")
	if err != nil {
		return "", "", err
	}
	h2, err := c06Handler(fr, structs, "handleInterruptWithSubGraphAndRerunNodes", "handle_interrupt_with_sub_graph_and_rerun_nodes")
	if err != nil {
		return "", "", err
	}
	var b strings.Builder
	b.WriteString("(* Gen/IntrHandle.v — GENERATED by tools/go2v (extractor \"intrhandle\") from compose/graph_run.go (methods handleInterrupt and\n" +
		"   handleInterruptWithSubGraphAndRerunNodes of runner, translated statement by statement; the records checkpoint and\n" +
		"   InterruptInfo are read from compose/checkpoint.go and compose/interrupt.go). Do not edit. *)\n" + c06Hdr + "Open Scope N_scope.\n\n")
	b.WriteString("Section Code.\n  Context {V CS GS SCP SINFO : Type}.\n  Notation tex := (@texec V SCP SINFO).\n" +
		"  Variable zero : V.\n  Variable fold : CS -> list (N * V) -> res CS.\n" +
		"  Variable r_runCtx_non_nil : bool.\n  Variable ctx_state : option GS.\n  Variable gs_nil : GS.\n\n" +
		"  Definition tie_available : bool := true.\n\n")
	b.WriteString(h1 + "\n" + h2)
	b.WriteString("End Code.\n")
	return "IntrHandle.v", b.String(), nil
}
