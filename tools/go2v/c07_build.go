package main

// Extractors of property C07 for the builder code of compose/graph.go, translated statement by
// statement into Gallina over the vocabulary of Model/TypeBuilderGenLib.v:
//
//   c07_validate -> Gen/ValidateCode.v   getNodeInputType, getNodeOutputType, getNodeGenericHelper (whole bodies)
//                                        and the body of the entry loop of updateToValidateMap
//   c07_branch   -> Gen/BranchCode.v     addBranch: the typing of a passthrough start node, the check of the
//                                        condition's type, the converter appended to handlerPreBranch; the body
//                                        of the loop over branch.endNodes; newGraphBranch's helper
//   c07_addnode  -> Gen/AddNodeCode.v    addNode: the option / state-handler checks
//
// The translator (c07Tr) is a small compiler for the imperative fragment these pieces are written in.
// The builder state is threaded as the variable [xs] (every statement rebinds it), the loop flags
// of updateToValidateMap as [removed] / [changed], what addBranch appends to handlerPreBranch as
// [conv].  Control flow: `if c {A} else if d {B} else {C}; rest` becomes
// `if c then T(A; rest) else if d then T(B; rest) else T(C; rest)` (a block that ends in return /
// continue never reaches rest).  Recognised:
//   expressions of type reflect.Type   g.getNodeOutputType(k) g.getNodeInputType(k) g.nodes[k].cr.inputType
//                                      g.nodes[k].inputType() g.inputType() branch.inputType node.inputType()
//                                      options.processor.statePreHandler.outputType reflect.TypeOf((*any)(nil)).Elem() locals
//   helpers                            g.getNodeGenericHelper(k) g.genericHelper g.nodes[k].getGenericHelper()
//                                      branch.genericHelper  h.forSuccessorPassthrough() h.forPredecessorPassthrough()
//   converters                         h.inputConverter h.outputConverter branch.inputConverter
//   conditions                         && || ! ( )  t == nil  t == t'  k == k'  r == assignableTypeX
//                                      checkAssignable(a, b) == X  len(endNode.mappings) == 0 / > 0
//                                      g.nodes[k].executorMeta.component == ComponentOfPassthrough
//                                      `_, ok := g.nodes[k]; !ok`  options.needState  g.stateGenerator == nil ...
//   statements                         local := / = of a type or of checkAssignable(a, b); assignments to
//                                      g.nodes[k].cr.inputType / outputType / genericHelper; the removal of entry i
//                                      followed by i--; hasChanged = true; appends to handlerOnEdges[s][e],
//                                      handlerPreBranch[s], startNodes, endNodes; g.addToValidateMap(s, e, nil);
//                                      `e := g.updateToValidateMap(); if e != nil { return e }` (both spellings) as an
//                                      application of the parameter [upd]; the creation of an inner map; continue;
//                                      return nil / return <error>; the field-mapping block
//                                      `if len(endNode.mappings) > 0 { … }` as the constructor XMapped
// Anything else: "source shape not recognised" (tie unavailable, the reference translation of the unchanged
// source is written instead so that the agreement proofs keep compiling and no alarm is raised); a recognised
// but different source changes the generated definitions and Proofs/GenAgreeC07*.v stop compiling.

import (
	"fmt"
	"go/ast"
	"go/parser"
	"go/printer"
	"go/token"
	"go/types"
	"path/filepath"
	"strings"
)

func init() {
	register("c07_validate", c07ExtractValidate)
	registerFallback("c07_validate", "ValidateCode.v", c07Unavailable("ValidateCode.v", "c07_validate", "compose/graph.go (getNode*Type, getNodeGenericHelper, updateToValidateMap)")+c07RefValidate)
	register("c07_branch", c07ExtractBranch)
	registerFallback("c07_branch", "BranchCode.v", c07Unavailable("BranchCode.v", "c07_branch", "compose/graph.go (addBranch) / compose/branch.go (newGraphBranch)")+c07RefBranch)
	register("c07_addedge", c07ExtractAddEdge)
	registerFallback("c07_addedge", "AddEdgeCode.v", c07Unavailable("AddEdgeCode.v", "c07_addedge", "compose/graph.go (addEdgeWithMappings)")+c07RefAddEdge)
	register("c07_nodetype", c07ExtractNodeType)
	registerFallback("c07_nodetype", "NodeTypeCode.v", c07Unavailable("NodeTypeCode.v", "c07_nodetype", "compose/graph_node.go (inputType, outputType, getGenericHelper of graphNode)")+c07RefNodeType)
	register("c07_compile", c07ExtractCompile)
	registerFallback("c07_compile", "CompileCode.v", c07Unavailable("CompileCode.v", "c07_compile", "compose/graph.go (compile)")+c07RefCompile)
	register("c07_addnode", c07ExtractAddNode)
	registerFallback("c07_addnode", "AddNodeCode.v", c07Unavailable("AddNodeCode.v", "c07_addnode", "compose/graph.go (addNode)")+c07RefAddNode)
}

func c07Unavailable(file, name, what string) string {
	return "(* Gen/" + file + " — translator tie UNAVAILABLE: tools/go2v (extractor \"" + name + "\") did not recognise the shape of\n" +
		"   " + what + "; the reference translation of the unchanged source follows\n" +
		"   (proved equal to the model by Proofs/GenAgreeC07*.v), so nothing is compared with the current source. *)\n"
}

func c07Header(file, name, what string) string {
	return "(* Gen/" + file + " — GENERATED by tools/go2v (extractor \"" + name + "\") from " + what + ",\n" +
		"   translated statement by statement. Do not edit. *)\n"
}

const c07Imports = "From Eino Require Import Base.Util Model.Types Model.TypesGenLib Model.TypeBuilder Model.TypeBuilderGenLib.\n"

type c07Tr struct {
	fn        string            // for messages
	keys      map[string]string // squashed Go expression -> Gallina key term
	tyLocals  map[string]bool   // locals of type reflect.Type
	asLocals  map[string]bool   // locals holding a checkAssignable result
	tyNames   map[string]string // squashed Go expression -> Gallina term of type option ty (piece-specific)
	ghNames   map[string]string // squashed Go expression -> Gallina helper term
	cvNames   map[string]string // squashed Go expression -> Gallina converter term (option ty)
	bools     map[string]string // squashed Go condition -> Gallina bool term
	kind      string            // "xres" | "bres" | "ty" | "helper" | "check"
	errVars   map[string]bool   // identifiers known to hold a non-nil error here
	skipIf    map[string]bool   // squashed conditions of if statements outside the model (skipped whole)
	nodeAlias map[string]string // identifier bound to g.nodes[k] -> Gallina key term k
	ghLocals  map[string]bool   // locals holding a *genericHelper
	sticky    bool              // kind "ares": behind the `defer` that makes an error sticky
	updTerm   string            // how a call of g.updateToValidateMap() is rendered ("upd" by default)
	whole     string            // "branch" / "node": translating the whole addBranch / addNode
	headFirst ast.Stmt          // whole addBranch: the first of the three statements translated as branch_head
	loopStmt  *ast.RangeStmt    // whole addBranch: the loop whose body is translated as branch_end
}

func (t *c07Tr) errf(format string, a ...interface{}) error {
	return fmt.Errorf("%s: %s", t.fn, fmt.Sprintf(format, a...))
}

func c07sq(e ast.Expr) string { return c07Squash(types.ExprString(e)) }

func (t *c07Tr) key(e ast.Expr) (string, bool) {
	k, ok := t.keys[c07sq(e)]
	return k, ok
}

// g.nodes[k] -> k
func (t *c07Tr) nodeIndex(e ast.Expr) (string, bool) {
	if id, ok := e.(*ast.Ident); ok && t.nodeAlias[id.Name] != "" {
		return t.nodeAlias[id.Name], true // the value variable of `for k, node := range g.nodes`
	}
	ix, ok := e.(*ast.IndexExpr)
	if !ok || c07sq(ix.X) != "g.nodes" {
		return "", false
	}
	return t.key(ix.Index)
}

// method call x.M(args) -> x, M, args
func c07MethodCall(e ast.Expr) (ast.Expr, string, []ast.Expr, bool) {
	call, ok := e.(*ast.CallExpr)
	if !ok {
		return nil, "", nil, false
	}
	sel, ok := call.Fun.(*ast.SelectorExpr)
	if !ok {
		return nil, "", nil, false
	}
	return sel.X, sel.Sel.Name, call.Args, true
}

func (t *c07Tr) tyExpr(e ast.Expr) (string, bool) {
	if p, ok := e.(*ast.ParenExpr); ok {
		return t.tyExpr(p.X)
	}
	if id, ok := e.(*ast.Ident); ok && t.tyLocals[id.Name] {
		return id.Name, true
	}
	if s, ok := t.tyNames[c07sq(e)]; ok {
		return s, true
	}
	if x, m, args, ok := c07MethodCall(e); ok {
		if c07sq(x) == "g" && len(args) == 1 {
			if k, ok := t.key(args[0]); ok {
				switch m {
				case "getNodeOutputType":
					return "(get_node_output_type xs " + k + ")", true
				case "getNodeInputType":
					return "(get_node_input_type xs " + k + ")", true
				}
			}
		}
		if k, ok := t.nodeIndex(x); ok && len(args) == 0 {
			switch m {
			case "inputType":
				return "(x_node_in xs " + k + ")", true
			case "outputType":
				return "(x_node_out xs " + k + ")", true
			}
		}
	}
	// g.nodes[k].cr.inputType
	if sel, ok := e.(*ast.SelectorExpr); ok {
		if cr, ok := sel.X.(*ast.SelectorExpr); ok && cr.Sel.Name == "cr" {
			if k, ok := t.nodeIndex(cr.X); ok {
				switch sel.Sel.Name {
				case "inputType":
					return "(x_node_in xs " + k + ")", true
				case "outputType":
					return "(x_node_out xs " + k + ")", true
				}
			}
		}
	}
	return "", false
}

func (t *c07Tr) ghExpr(e ast.Expr) (string, bool) {
	if s, ok := t.ghNames[c07sq(e)]; ok {
		return s, true
	}
	if id, ok := e.(*ast.Ident); ok && t.ghLocals[id.Name] {
		return id.Name, true
	}
	if c07IsNil(e) && t.kind == "helper" {
		return "None", true
	}
	if x, m, args, ok := c07MethodCall(e); ok && len(args) == 0 && (m == "forMapInput" || m == "forMapOutput") {
		if h, ok := t.ghExpr(x); ok {
			f := "gh_for_map_in"
			if m == "forMapOutput" {
				f = "gh_for_map_out"
			}
			return "(" + f + " m " + h + ")", true
		}
	}
	if x, m, args, ok := c07MethodCall(e); ok {
		switch {
		case c07sq(x) == "g" && m == "getNodeGenericHelper" && len(args) == 1:
			if k, ok := t.key(args[0]); ok {
				return "(get_node_generic_helper xs " + k + ")", true
			}
		case m == "getGenericHelper" && len(args) == 0:
			if k, ok := t.nodeIndex(x); ok {
				return "(x_node_gh xs " + k + ")", true
			}
		case (m == "forSuccessorPassthrough" || m == "forPredecessorPassthrough") && len(args) == 0:
			if h, ok := t.ghExpr(x); ok {
				f := "gh_for_succ"
				if m == "forPredecessorPassthrough" {
					f = "gh_for_pred"
				}
				return "(" + f + " " + h + ")", true
			}
		}
	}
	return "", false
}

func (t *c07Tr) cvExpr(e ast.Expr) (string, bool) {
	if s, ok := t.cvNames[c07sq(e)]; ok {
		return s, true
	}
	if sel, ok := e.(*ast.SelectorExpr); ok {
		if h, ok := t.ghExpr(sel.X); ok {
			switch sel.Sel.Name {
			case "inputConverter":
				return "(gh_conv_in " + h + ")", true
			case "outputConverter":
				return "(gh_conv_out " + h + ")", true
			}
		}
	}
	return "", false
}

var c07AsConst = map[string]string{"assignableTypeMustNot": "MustNot", "assignableTypeMust": "Must", "assignableTypeMay": "May"}

// an expression holding a checkAssignable result
func (t *c07Tr) asExpr(e ast.Expr) (string, bool) {
	if id, ok := e.(*ast.Ident); ok && t.asLocals[id.Name] {
		return id.Name, true
	}
	if call, ok := e.(*ast.CallExpr); ok && c07sq(call.Fun) == "checkAssignable" && len(call.Args) == 2 {
		a, ok1 := t.tyExpr(call.Args[0])
		b, ok2 := t.tyExpr(call.Args[1])
		if ok1 && ok2 {
			return "(check_assignable u " + a + " " + b + ")", true
		}
	}
	return "", false
}

func (t *c07Tr) cond(e ast.Expr) (string, error) {
	if s, ok := t.bools[c07sq(e)]; ok {
		return s, nil
	}
	switch x := e.(type) {
	case *ast.ParenExpr:
		return t.cond(x.X)
	case *ast.UnaryExpr:
		if x.Op == token.NOT {
			s, err := t.cond(x.X)
			return "(negb " + s + ")", err
		}
	case *ast.BinaryExpr:
		switch x.Op {
		case token.LAND, token.LOR:
			l, err := t.cond(x.X)
			if err != nil {
				return "", err
			}
			r, err := t.cond(x.Y)
			if err != nil {
				return "", err
			}
			op := "&&"
			if x.Op == token.LOR {
				op = "||"
			}
			return "(" + l + " " + op + " " + r + ")", nil
		case token.EQL, token.NEQ:
			wrap := func(s string) string {
				if x.Op == token.NEQ {
					return "(negb " + s + ")"
				}
				return s
			}
			if t.kind == "helper" || t.kind == "check2" {
				// h == nil for a *genericHelper
				if h, ok := t.ghExpr(x.X); ok && c07IsNil(x.Y) && h != "None" {
					return wrap("(gh_is_nil " + h + ")"), nil
				}
				if h, ok := t.ghExpr(x.Y); ok && c07IsNil(x.X) && h != "None" {
					return wrap("(gh_is_nil " + h + ")"), nil
				}
			}
			if a, ok := t.tyExpr(x.X); ok {
				if c07IsNil(x.Y) {
					return wrap("(rt_is_nil " + a + ")"), nil
				}
				if b, ok := t.tyExpr(x.Y); ok {
					return wrap("(rt_eq " + a + " " + b + ")"), nil
				}
			}
			if b, ok := t.tyExpr(x.Y); ok && c07IsNil(x.X) {
				return wrap("(rt_is_nil " + b + ")"), nil
			}
			if a, ok := t.key(x.X); ok {
				if b, ok := t.key(x.Y); ok {
					return wrap("(N.eqb " + a + " " + b + ")"), nil
				}
			}
			if r, ok := t.asExpr(x.X); ok {
				if c, ok := c07AsConst[c07sq(x.Y)]; ok {
					return wrap("(assignable_eqb " + r + " " + c + ")"), nil
				}
			}
			if r, ok := t.asExpr(x.Y); ok {
				if c, ok := c07AsConst[c07sq(x.X)]; ok {
					return wrap("(assignable_eqb " + r + " " + c + ")"), nil
				}
			}
			// g.nodes[k].executorMeta.component == ComponentOfPassthrough
			if c07sq(x.Y) == "ComponentOfPassthrough" {
				if sel, ok := x.X.(*ast.SelectorExpr); ok && sel.Sel.Name == "component" {
					if em, ok := sel.X.(*ast.SelectorExpr); ok && em.Sel.Name == "executorMeta" {
						if k, ok := t.nodeIndex(em.X); ok {
							return wrap("(x_is_pass xs " + k + ")"), nil
						}
					}
				}
			}
		}
	}
	return "", t.errf("condition %s is outside the translated fragment", types.ExprString(e))
}

// the value of the piece when control reaches its end / a continue
func (t *c07Tr) endValue() (string, error) {
	switch t.kind {
	case "xres":
		return "XCont removed changed xs", nil
	case "bres":
		return "BOk xs conv", nil
	case "check", "check2":
		return "true", nil
	case "convs":
		return "(pre_conv, post_conv)", nil
	}
	if t.kind == "loop" {
		return "Some xs", nil
	}
	if t.kind == "ares" {
		return "", t.errf("control reaches the end of the function without a return")
	}
	return "", t.errf("control reaches the end of the function without a return")
}

func (t *c07Tr) upd() string {
	if t.updTerm != "" {
		return t.updTerm
	}
	return "upd"
}

func (t *c07Tr) failValue() string {
	if t.kind == "loop" {
		return "None"
	}
	if t.kind == "ares" {
		if t.sticky {
			return "AFailSticky"
		}
		return "AFailPlain"
	}
	switch t.kind {
	case "xres":
		return "XFail"
	case "bres":
		return "BFail"
	}
	return "false"
}

func (t *c07Tr) isErrorValue(e ast.Expr) bool {
	if s := c07sq(e); s == "g.buildError" || s == "ErrGraphCompiled" {
		return t.kind == "ares"
	}
	if id, ok := e.(*ast.Ident); ok {
		return t.errVars[id.Name]
	}
	if call, ok := e.(*ast.CallExpr); ok {
		f := c07sq(call.Fun)
		return f == "fmt.Errorf" || f == "errors.New"
	}
	return false
}

// `x := g.updateToValidateMap()` / `x = g.updateToValidateMap()` -> x
func c07UpdCall(s ast.Stmt) (string, bool) {
	as, ok := s.(*ast.AssignStmt)
	if !ok || len(as.Lhs) != 1 || len(as.Rhs) != 1 || c07sq(as.Rhs[0]) != "g.updateToValidateMap()" {
		return "", false
	}
	id, ok := as.Lhs[0].(*ast.Ident)
	if !ok {
		return "", false
	}
	return id.Name, true
}

// `if x != nil { return x }`
func c07IsReturnIfErr(s ast.Stmt, x string) bool {
	is, ok := s.(*ast.IfStmt)
	if !ok || is.Init != nil || is.Else != nil || c07sq(is.Cond) != x+"!=nil" || len(is.Body.List) != 1 {
		return false
	}
	r, ok := is.Body.List[0].(*ast.ReturnStmt)
	return ok && len(r.Results) == 1 && c07sq(r.Results[0]) == x
}

func (t *c07Tr) define(name string, set map[string]bool, depth int) error {
	if depth > 0 && (t.tyLocals[name] || t.asLocals[name]) {
		return t.errf("local %s is declared again in an inner block", name)
	}
	set[name] = true
	return nil
}

// a statement list -> Gallina expression of the result type of the piece
func (t *c07Tr) stmts(l []ast.Stmt, ind string, depth int) (string, error) {
	if len(l) == 0 {
		return t.endValue()
	}
	rest := func(n int) (string, error) { return t.stmts(l[n:], ind, depth) }
	if t.whole == "branch" && t.headFirst != nil && l[0] == t.headFirst && len(l) >= 3 {
		// the three statements translated on their own as branch_head
		r, err := rest(3)
		return "match branch_head u (upd 0%nat) xs startNode branch_inputType with\n" + ind + "| BFail => " + t.failValue() + "\n" + ind + "| BOk xs conv =>\n" + ind + r + "\n" + ind + "end", err
	}
	let := func(v, e string, n int) (string, error) {
		r, err := rest(n)
		return "let " + v + " := " + e + " in\n" + ind + r, err
	}
	switch x := l[0].(type) {
	case *ast.DeclStmt:
		gd, ok := x.Decl.(*ast.GenDecl)
		if ok && gd.Tok == token.VAR {
			for _, sp := range gd.Specs {
				vs := sp.(*ast.ValueSpec)
				if vs.Type != nil && c07sq(vs.Type) == "*genericHelper" && len(vs.Values) == 0 && t.kind == "helper" {
					for _, n := range vs.Names {
						t.ghLocals[n.Name] = true
					}
					// a nil pointer until assigned
					r, err := rest(1)
					var b strings.Builder
					for _, n := range vs.Names {
						b.WriteString("let " + n.Name + " := @None (ty * ty) in\n" + ind)
					}
					return b.String() + r, err
				}
				if vs.Type == nil || c07sq(vs.Type) != "reflect.Type" || len(vs.Values) != 0 {
					return "", t.errf("declaration %s", "var of another type")
				}
				for _, n := range vs.Names {
					t.tyLocals[n.Name] = true
				}
			}
			return rest(1)
		}
	case *ast.BranchStmt:
		if x.Tok == token.CONTINUE && t.kind == "xres" {
			return t.endValue()
		}
	case *ast.ReturnStmt:
		switch t.kind {
		case "ty":
			if len(x.Results) == 1 {
				if s, ok := t.tyExpr(x.Results[0]); ok {
					return s, nil
				}
				if c07IsNil(x.Results[0]) {
					return "None", nil
				}
			}
		case "helper":
			if len(x.Results) == 1 {
				if s, ok := t.ghExpr(x.Results[0]); ok {
					return s, nil
				}
			}
		default:
			if len(x.Results) == 1 && t.isErrorValue(x.Results[0]) {
				return t.failValue(), nil
			}
			if t.kind == "check2" && len(x.Results) == 2 && c07IsNil(x.Results[0]) && t.isErrorValue(x.Results[1]) {
				return t.failValue(), nil
			}
			if len(x.Results) == 1 && c07IsNil(x.Results[0]) && t.kind == "ares" {
				return "AOk xs", nil
			}
			if len(x.Results) == 1 && c07IsNil(x.Results[0]) && t.kind != "xres" {
				return t.endValue()
			}
		}
		return "", t.errf("return %s not recognised", c07Squash(c07ExprList(x.Results)))
	case *ast.ExprStmt:
		if call, ok := x.X.(*ast.CallExpr); ok && c07sq(call.Fun) == "g.addToValidateMap" && len(call.Args) == 3 && (c07IsNil(call.Args[2]) || (t.kind == "ares" && c07sq(call.Args[2]) == "mappings")) {
			s, ok1 := t.key(call.Args[0])
			e, ok2 := t.key(call.Args[1])
			if ok1 && ok2 {
				return let("xs", "x_add_tvm xs "+s+" "+e, 1)
			}
		}
	case *ast.DeferStmt:
		// defer func() { if err != nil { g.buildError = err } }()
		if t.kind == "ares" && depth == 0 && !t.sticky && c07Squash(c07NodeString(x.Call)) == "func(){iferr!=nil{g.buildError=err}}()" {
			t.sticky = true
			return rest(1)
		}
	case *ast.RangeStmt:
		// for endNode := range branch.endNodes { BODY }: a fold with early exit over the end nodes in the
		// order the map iteration delivers them ([ends_order]); the j-th iteration's updateToValidateMap is upd (S j)
		if t.whole == "branch" && c07sq(x.X) == "branch.endNodes" && x.Key != nil && c07sq(x.Key) == "endNode" && x.Value == nil && x == t.loopStmt {
			// the body is translated on its own as branch_end
			r, err := rest(1)
			return "match x_fold_ends (fun j xs endNode => bres_opt (branch_end (upd (S j)) xs startNode endNode)) 0 xs ends_order with\n" + ind + "| None => " + t.failValue() + "\n" + ind + "| Some xs =>\n" + ind + r + "\n" + ind + "end", err
		}
		// for i := range g.controlEdges[s] { if g.controlEdges[s][i] == e { return <error> } }
		if t.kind == "ares" && x.Key != nil && x.Value == nil && len(x.Body.List) == 1 {
			if ix, ok := x.X.(*ast.IndexExpr); ok && (c07sq(ix.X) == "g.controlEdges" || c07sq(ix.X) == "g.dataEdges") {
				if sk, ok := t.key(ix.Index); ok {
					if is, ok := x.Body.List[0].(*ast.IfStmt); ok && is.Init == nil && is.Else == nil && len(is.Body.List) == 1 {
						if r, ok := is.Body.List[0].(*ast.ReturnStmt); ok && len(r.Results) == 1 && t.isErrorValue(r.Results[0]) {
							if be, ok := is.Cond.(*ast.BinaryExpr); ok && be.Op == token.EQL && c07sq(be.X) == c07sq(x.X)+"["+c07sq(x.Key)+"]" {
								if ek, ok := t.key(be.Y); ok {
									f := "x_has_ctrl"
									if c07sq(ix.X) == "g.dataEdges" {
										f = "x_has_data"
									}
									r, err := rest(1)
									return "if (" + f + " xs " + sk + " " + ek + ") then " + t.failValue() + "\n" + ind + "else " + r, err
								}
							}
						}
					}
				}
			}
		}
		if t.kind == "check2" && len(x.Body.List) == 1 {
			is, ok := x.Body.List[0].(*ast.IfStmt)
			if ok && is.Init == nil && is.Else == nil && len(is.Body.List) == 1 {
				if r, ok := is.Body.List[0].(*ast.ReturnStmt); ok && len(r.Results) == 2 && c07IsNil(r.Results[0]) && t.isErrorValue(r.Results[1]) {
					// for _, v := range g.toValidateMap { if len(v) > 0 { return nil, <error> } }
					if c07sq(x.X) == "g.toValidateMap" && x.Value != nil && c07sq(is.Cond) == "len("+c07sq(x.Value)+")>0" {
						r, err := rest(1)
						return "if (x_any_pending xs) then false\n" + ind + "else " + r, err
					}
				}
			}
		}
		if t.kind == "check2" && c07sq(x.X) == "g.nodes" && x.Value != nil && len(x.Body.List) >= 1 {
			// for key, node := range g.nodes { if C1(key, node) { return nil, <error> }; if C2(key, node) { return nil, <error> } … }
			var conds []ast.Expr
			for _, bs := range x.Body.List {
				is, ok := bs.(*ast.IfStmt)
				if !ok || is.Init != nil || is.Else != nil || len(is.Body.List) != 1 {
					conds = nil
					break
				}
				r, ok := is.Body.List[0].(*ast.ReturnStmt)
				if !ok || len(r.Results) != 2 || !c07IsNil(r.Results[0]) || !t.isErrorValue(r.Results[1]) {
					conds = nil
					break
				}
				conds = append(conds, is.Cond)
			}
			if len(conds) > 0 {
				v := c07sq(x.Value)
				kv := ""
				if x.Key != nil && c07sq(x.Key) != "_" {
					kv = c07sq(x.Key)
				}
				savedTy, savedB, savedGh := map[string]string{}, map[string]string{}, map[string]string{}
				for _, m := range []string{"inputType", "outputType"} {
					k := v + "." + m + "()"
					savedTy[k] = t.tyNames[k]
					t.tyNames[k] = "(n_" + map[string]string{"inputType": "in", "outputType": "out"}[m] + " node)"
				}
				// a node of the model is a lambda (or sub graph, which keeps the lambda contract) or a passthrough
				// node; only the latter is read through node.cr here
				for k, val := range map[string]string{v + ".cr!=nil&&" + v + ".cr.isPassthrough": "(n_pass node)"} {
					savedB[k] = t.bools[k]
					t.bools[k] = val
				}
				usesKey := false
				if kv != "" {
					k := v + ".cr.genericHelper"
					savedGh[k] = t.ghNames[k]
					t.ghNames[k] = "(x_node_cr_gh xs key)"
				}
				var cs []string
				var cerr error
				for _, ce := range conds {
					c, err := t.cond(ce) // (a && b) && c: the pair a && b is looked up in the bools table as a whole
					if err != nil {
						cerr = err
						break
					}
					if strings.Contains(c, "x_node_cr_gh") {
						usesKey = true
					}
					cs = append(cs, c)
				}
				for k, o := range savedTy {
					if o == "" {
						delete(t.tyNames, k)
					} else {
						t.tyNames[k] = o
					}
				}
				for k, o := range savedB {
					if o == "" {
						delete(t.bools, k)
					} else {
						t.bools[k] = o
					}
				}
				for k, o := range savedGh {
					if o == "" {
						delete(t.ghNames, k)
					} else {
						t.ghNames[k] = o
					}
				}
				if cerr != nil {
					return "", cerr
				}
				r, err := rest(1)
				if len(cs) == 1 && !usesKey {
					return "if (x_any_node (fun node => " + cs[0] + ") xs) then false\n" + ind + "else " + r, err
				}
				return "if (x_any_node_k (fun key node => (" + strings.Join(cs, " || ") + ")) xs) then false\n" + ind + "else " + r, err
			}
		}
	case *ast.IncDecStmt:
		// i-- only directly behind the removal (handled there)
	case *ast.AssignStmt:
		if len(x.Lhs) == 1 && len(x.Rhs) == 1 {
			lhs, rhs := x.Lhs[0], x.Rhs[0]
			ls, rs := c07sq(lhs), c07sq(rhs)
			// the entry under inspection
			if x.Tok == token.DEFINE && ls == "endNode" && rs == "g.toValidateMap[startNode][i]" && t.kind == "xres" {
				return rest(1)
			}
			if t.whole == "branch" {
				// the graph's own copy of the branch value; its index among the branches of the start node
				if x.Tok == token.DEFINE && rs == "*branch" && len(l) >= 2 {
					if as2, ok := l[1].(*ast.AssignStmt); ok && as2.Tok == token.ASSIGN && c07ExprList(as2.Lhs) == "branch" && c07ExprList(as2.Rhs) == "&"+ls {
						return rest(2)
					}
				}
				if x.Tok == token.ASSIGN && ls == "branch.idx" && rs == "len(g.handlerPreBranch[startNode])" {
					return rest(1)
				}
				if x.Tok == token.ASSIGN && ls == "branch.noDataFlow" && rs == "true" {
					return "AOutside", nil // a branch without data flow (Workflow): outside the model
				}
				if x.Tok == token.ASSIGN && ls == "g.branches[startNode]" && rs == "append(g.branches[startNode],branch)" {
					return let("xs", "x_push_branch xs startNode branch_inputType ends choice (conv_tys conv)", 1)
				}
			}
			if t.whole == "node" && x.Tok == token.ASSIGN && ls == "g.nodes[key]" && rs == "node" {
				return let("xs", "x_push_node xs key isp node_in node_out pre post", 1)
			}
			// e := g.updateToValidateMap(); if e != nil { return e }
			if v, ok := c07UpdCall(x); ok && len(l) >= 2 && c07IsReturnIfErr(l[1], v) {
				r, err := rest(2)
				return "match " + t.upd() + " xs with\n" + ind + "| None => " + t.failValue() + "\n" + ind + "| Some xs =>\n" + ind + r + "\n" + ind + "end", err
			}
			// locals
			if id, ok := lhs.(*ast.Ident); ok && t.ghLocals[id.Name] && x.Tok == token.ASSIGN {
				if h, ok := t.ghExpr(rhs); ok {
					return let(id.Name, h, 1)
				}
			}
			if id, ok := lhs.(*ast.Ident); ok {
				if call, ok := rhs.(*ast.CallExpr); ok && c07sq(call.Fun) == "checkAssignable" {
					r, ok := t.asExpr(rhs)
					if !ok {
						return "", t.errf("arguments of %s", rs)
					}
					if x.Tok == token.DEFINE {
						if err := t.define(id.Name, t.asLocals, depth); err != nil {
							return "", err
						}
					} else if !t.asLocals[id.Name] {
						return "", t.errf("assignment to %s", id.Name)
					}
					return let(id.Name, strings.TrimSuffix(strings.TrimPrefix(r, "("), ")"), 1)
				}
				if ty, ok := t.tyExpr(rhs); ok {
					if x.Tok == token.DEFINE {
						if err := t.define(id.Name, t.tyLocals, depth); err != nil {
							return "", err
						}
					} else if !t.tyLocals[id.Name] {
						return "", t.errf("assignment to %s", id.Name)
					}
					return let(id.Name, ty, 1)
				}
				if id.Name == "hasChanged" && x.Tok == token.ASSIGN && rs == "true" && t.kind == "xres" {
					return let("changed", "true", 1)
				}
			}
			if x.Tok != token.ASSIGN {
				break
			}
			// the removal of entry i, followed by i--
			if ls == "g.toValidateMap[startNode]" && rs == "append(g.toValidateMap[startNode][:i],g.toValidateMap[startNode][i+1:]...)" && t.kind == "xres" && len(l) >= 2 {
				if d, ok := l[1].(*ast.IncDecStmt); ok && d.Tok == token.DEC && c07sq(d.X) == "i" {
					return let("removed", "true", 2)
				}
			}
			// g.nodes[k].cr.F = …
			if sel, ok := lhs.(*ast.SelectorExpr); ok {
				if cr, ok := sel.X.(*ast.SelectorExpr); ok && cr.Sel.Name == "cr" {
					if k, ok := t.nodeIndex(cr.X); ok {
						switch sel.Sel.Name {
						case "inputType", "outputType":
							if ty, ok := t.tyExpr(rhs); ok {
								f := "x_set_in"
								if sel.Sel.Name == "outputType" {
									f = "x_set_out"
								}
								return let("xs", f+" xs "+k+" "+ty, 1)
							}
						case "genericHelper":
							if h, ok := t.ghExpr(rhs); ok {
								return let("xs", "x_set_gh xs "+k+" "+h, 1)
							}
						}
					}
				}
			}
			// g.controlEdges[s] = append(g.controlEdges[s], e) / g.dataEdges[s] = append(g.dataEdges[s], e)
			if ix, ok := lhs.(*ast.IndexExpr); ok && (c07sq(ix.X) == "g.controlEdges" || c07sq(ix.X) == "g.dataEdges") {
				if sk, ok := t.key(ix.Index); ok {
					if call, ok := rhs.(*ast.CallExpr); ok && c07sq(call.Fun) == "append" && len(call.Args) == 2 && c07sq(call.Args[0]) == ls {
						if ek, ok := t.key(call.Args[1]); ok {
							f := "x_add_ctrl"
							if c07sq(ix.X) == "g.dataEdges" {
								f = "x_add_data"
							}
							return let("xs", f+" xs "+sk+" "+ek, 1)
						}
					}
				}
			}
			// g.handlerOnEdges[s][e] = append(g.handlerOnEdges[s][e], c)
			if ix, ok := lhs.(*ast.IndexExpr); ok {
				if ix2, ok := ix.X.(*ast.IndexExpr); ok && c07sq(ix2.X) == "g.handlerOnEdges" {
					s, ok1 := t.key(ix2.Index)
					e, ok2 := t.key(ix.Index)
					if call, ok := rhs.(*ast.CallExpr); ok && ok1 && ok2 && c07sq(call.Fun) == "append" && len(call.Args) == 2 && c07sq(call.Args[0]) == ls {
						if c, ok := t.cvExpr(call.Args[1]); ok {
							return let("xs", "x_add_hedge xs "+s+" "+e+" "+c, 1)
						}
					}
				}
				// g.handlerPreBranch[s] = append(g.handlerPreBranch[s], []handlerPair{c, …})
				if c07sq(ix.X) == "g.handlerPreBranch" && (t.kind == "bres" || t.whole == "branch") {
					if _, ok := t.key(ix.Index); ok {
						if call, ok := rhs.(*ast.CallExpr); ok && c07sq(call.Fun) == "append" && len(call.Args) == 2 && c07sq(call.Args[0]) == ls {
							if cl, ok := call.Args[1].(*ast.CompositeLit); ok && c07sq(cl.Type) == "[]handlerPair" {
								var cs []string
								for _, el := range cl.Elts {
									c, ok := t.cvExpr(el)
									if !ok {
										return "", t.errf("converter %s", types.ExprString(el))
									}
									cs = append(cs, c)
								}
								return let("conv", "["+strings.Join(cs, "; ")+"]", 1)
							}
						}
					}
				}
			}
			// chCall.preProcessor = withResultConverter(chCall.preProcessor, c)
			if t.kind == "convs" && (ls == "chCall.preProcessor" || ls == "chCall.postProcessor") {
				if call, ok := rhs.(*ast.CallExpr); ok && c07sq(call.Fun) == "withResultConverter" && len(call.Args) == 2 && c07sq(call.Args[0]) == ls {
					if c, ok := t.cvExpr(call.Args[1]); ok {
						v := "pre_conv"
						if ls == "chCall.postProcessor" {
							v = "post_conv"
						}
						return let(v, c, 1)
					}
				}
			}
			// g.startNodes = append(g.startNodes, …) / g.endNodes = append(g.endNodes, …)
			if (ls == "g.startNodes" || ls == "g.endNodes") && strings.HasPrefix(rs, "append("+ls+",") {
				if ls == "g.startNodes" {
					return let("xs", "x_mark_start xs", 1)
				}
				return let("xs", "x_mark_end xs", 1)
			}
		}
	case *ast.IfStmt:
		if x.Init != nil {
			// e := g.updateToValidateMap(); e != nil { return e }
			if v, ok := c07UpdCall(x.Init); ok {
				probe := &ast.IfStmt{Cond: x.Cond, Body: x.Body, Else: x.Else}
				if c07IsReturnIfErr(probe, v) {
					r, err := rest(1)
					return "match " + t.upd() + " xs with\n" + ind + "| None => " + t.failValue() + "\n" + ind + "| Some xs =>\n" + ind + r + "\n" + ind + "end", err
				}
			}
			// the creation of an inner map: if _, ok := g.M[k]; !ok { g.M[k] = make(…) }
			if as, ok := x.Init.(*ast.AssignStmt); ok && as.Tok == token.DEFINE && c07ExprList(as.Lhs) == "_,ok" && len(as.Rhs) == 1 && c07sq(x.Cond) == "!ok" && x.Else == nil && len(x.Body.List) == 1 {
				if in, ok := x.Body.List[0].(*ast.AssignStmt); ok && in.Tok == token.ASSIGN && len(in.Lhs) == 1 && c07sq(in.Lhs[0]) == c07sq(as.Rhs[0]) {
					m := c07sq(as.Rhs[0])
					if strings.HasPrefix(m, "g.handlerOnEdges[") || strings.HasPrefix(m, "g.handlerPreBranch[") {
						if c07IsEmptyMap(in.Rhs[0]) || strings.HasSuffix(c07sq(in.Rhs[0]), "{}") {
							return rest(1)
						}
					}
				}
			}
			// _, ok := g.nodes[k]; ok / !ok
			if as, ok := x.Init.(*ast.AssignStmt); ok && as.Tok == token.DEFINE && c07ExprList(as.Lhs) == "_,ok" && len(as.Rhs) == 1 {
				if k, ok := t.nodeIndex(as.Rhs[0]); ok {
					saved, had := t.bools["ok"]
					t.bools["ok"] = "(x_has_node xs " + k + ")"
					s, err := t.ifChain(&ast.IfStmt{Cond: x.Cond, Body: x.Body, Else: x.Else}, l[1:], ind, depth)
					if had {
						t.bools["ok"] = saved
					} else {
						delete(t.bools, "ok")
					}
					return s, err
				}
			}
			return "", t.errf("if with an init statement that is not recognised")
		}
		if t.skipIf[c07sq(x.Cond)] && x.Else == nil {
			return rest(1)
		}
		return t.ifChain(x, l[1:], ind, depth)
	}
	return "", t.errf("statement outside the translated fragment: %T %s", l[0], c07Squash(c07NodeString(l[0])))
}

func (t *c07Tr) ifChain(x *ast.IfStmt, after []ast.Stmt, ind string, depth int) (string, error) {
	// the field-mapping block of updateToValidateMap: outside the model
	if c := c07sq(x.Cond); c == "len(endNode.mappings)>0" && t.kind == "xres" && x.Else == nil {
		r, err := t.stmts(after, ind+"  ", depth)
		return "if (negb nomap) then XMapped\n" + ind + "else " + r, err
	}
	c, err := t.cond(x.Cond)
	if err != nil {
		return "", err
	}
	// inside `if e != nil` the variable e holds an error
	var marked string
	if b, ok := x.Cond.(*ast.BinaryExpr); ok && b.Op == token.NEQ && c07IsNil(b.Y) {
		if id, ok := b.X.(*ast.Ident); ok && !t.errVars[id.Name] {
			marked = id.Name
			t.errVars[marked] = true
		}
	}
	th, err := t.stmts(append(append([]ast.Stmt{}, x.Body.List...), after...), ind+"  ", depth+1)
	if marked != "" {
		delete(t.errVars, marked)
	}
	if err != nil {
		return "", err
	}
	var el string
	switch e := x.Else.(type) {
	case nil:
		el, err = t.stmts(after, ind+"  ", depth)
	case *ast.BlockStmt:
		el, err = t.stmts(append(append([]ast.Stmt{}, e.List...), after...), ind+"  ", depth+1)
	case *ast.IfStmt:
		el, err = t.stmts(append([]ast.Stmt{e}, after...), ind, depth)
		if err == nil {
			return "if " + c + " then\n" + ind + "  " + th + "\n" + ind + "else " + el, nil
		}
	}
	if err != nil {
		return "", err
	}
	return "if " + c + " then\n" + ind + "  " + th + "\n" + ind + "else\n" + ind + "  " + el, nil
}

func c07NewTr(fn, kind string) *c07Tr {
	return &c07Tr{fn: fn, kind: kind,
		keys:     map[string]string{"START": "kSTART", "END": "kEND"},
		tyLocals: map[string]bool{}, asLocals: map[string]bool{}, tyNames: map[string]string{}, ghNames: map[string]string{},
		cvNames: map[string]string{}, bools: map[string]string{}, errVars: map[string]bool{}, skipIf: map[string]bool{}, nodeAlias: map[string]string{}, ghLocals: map[string]bool{}}
}

func c07GraphMethod(f *ast.File, name string) (*ast.FuncDecl, error) {
	fn := c07MethodOf(f, "graph", name)
	if fn == nil || fn.Body == nil {
		return nil, fmt.Errorf("method (*graph).%s not found", name)
	}
	if len(fn.Recv.List[0].Names) != 1 || fn.Recv.List[0].Names[0].Name != "g" {
		return nil, fmt.Errorf("(*graph).%s: receiver is not named g", name)
	}
	return fn, nil
}

func c07ParamNames(fn *ast.FuncDecl) string {
	var pn []string
	for _, fl := range fn.Type.Params.List {
		for _, n := range fl.Names {
			pn = append(pn, n.Name+":"+c07sq(fl.Type))
		}
	}
	return strings.Join(pn, ",")
}

// ---------------------------------------------------------------------------------------------- c07_validate

func c07Accessor(f *ast.File, name, kind, def string) (string, error) {
	fn, err := c07GraphMethod(f, name)
	if err != nil {
		return "", err
	}
	if c07ParamNames(fn) != "name:string" {
		return "", fmt.Errorf("(*graph).%s: parameters (%s)", name, c07ParamNames(fn))
	}
	t := c07NewTr("graph."+name, kind)
	t.keys["name"] = "name"
	t.tyNames["g.inputType()"] = "(x_graph_in xs)"
	t.tyNames["g.outputType()"] = "(x_graph_out xs)"
	t.ghNames["g.genericHelper"] = "(x_graph_gh xs)"
	body, err := t.stmts(fn.Body.List, "  ", 0)
	if err != nil {
		return "", err
	}
	return def + " :=\n  " + body + ".\n\n", nil
}

// the body of the entry loop, after checking the loop skeleton around it
func c07ValidateBody(fn *ast.FuncDecl) ([]ast.Stmt, []ast.Stmt, error) {
	bad := func(what string) ([]ast.Stmt, []ast.Stmt, error) {
		return nil, nil, fmt.Errorf("graph.updateToValidateMap: loop skeleton: %s", what)
	}
	l := fn.Body.List
	var decls []ast.Stmt
	for len(l) > 0 {
		if d, ok := l[0].(*ast.DeclStmt); ok {
			decls = append(decls, d)
			l = l[1:]
			continue
		}
		break
	}
	if len(l) != 2 {
		return bad("expected `for { … }; return nil`")
	}
	outer, ok := l[0].(*ast.ForStmt)
	ret, ok2 := l[1].(*ast.ReturnStmt)
	if !ok || !ok2 || outer.Init != nil || outer.Cond != nil || outer.Post != nil || len(ret.Results) != 1 || !c07IsNil(ret.Results[0]) {
		return bad("expected `for { … }; return nil`")
	}
	ol := outer.Body.List
	if len(ol) != 3 {
		return bad("the outer loop does not have three statements")
	}
	if as, ok := ol[0].(*ast.AssignStmt); !ok || as.Tok != token.DEFINE || c07ExprList(as.Lhs) != "hasChanged" || c07ExprList(as.Rhs) != "false" {
		return bad("first statement is not hasChanged := false")
	}
	rng, ok := ol[1].(*ast.RangeStmt)
	if !ok || rng.Tok != token.DEFINE || rng.Key == nil || c07sq(rng.Key) != "startNode" || rng.Value != nil || c07sq(rng.X) != "g.toValidateMap" {
		return bad("second statement is not for startNode := range g.toValidateMap")
	}
	if brk, ok := ol[2].(*ast.IfStmt); !ok || brk.Init != nil || brk.Else != nil || c07sq(brk.Cond) != "!hasChanged" || len(brk.Body.List) != 1 {
		return bad("third statement is not if !hasChanged { break }")
	} else if b, ok := brk.Body.List[0].(*ast.BranchStmt); !ok || b.Tok != token.BREAK || b.Label != nil {
		return bad("third statement is not if !hasChanged { break }")
	}
	if len(rng.Body.List) != 1 {
		return bad("the range loop does not consist of the index loop alone")
	}
	idx, ok := rng.Body.List[0].(*ast.ForStmt)
	if !ok || idx.Init == nil || idx.Cond == nil || idx.Post == nil {
		return bad("no index loop")
	}
	if as, ok := idx.Init.(*ast.AssignStmt); !ok || as.Tok != token.DEFINE || c07ExprList(as.Lhs) != "i" || c07ExprList(as.Rhs) != "0" {
		return bad("index loop does not start with i := 0")
	}
	if c07sq(idx.Cond) != "i<len(g.toValidateMap[startNode])" {
		return bad("index loop condition")
	}
	if inc, ok := idx.Post.(*ast.IncDecStmt); !ok || inc.Tok != token.INC || c07sq(inc.X) != "i" {
		return bad("index loop does not step with i++")
	}
	return decls, idx.Body.List, nil
}

func c07ExtractValidate(repo string) (string, string, error) {
	fset := token.NewFileSet()
	f, err := c07ParseGo(fset, repo, "compose", "graph.go")
	if err != nil {
		return "", "", err
	}
	var b strings.Builder
	b.WriteString(c07Header("ValidateCode.v", "c07_validate", "compose/graph.go (getNodeInputType, getNodeOutputType,\n   getNodeGenericHelper, the body of the entry loop of updateToValidateMap)"))
	b.WriteString(c07Imports + "\nDefinition tie_available : bool := true.\n\n")
	for _, a := range [][3]string{
		{"getNodeInputType", "ty", "Definition get_node_input_type (xs : xstate) (name : key) : option ty"},
		{"getNodeOutputType", "ty", "Definition get_node_output_type (xs : xstate) (name : key) : option ty"},
		{"getNodeGenericHelper", "helper", "Definition get_node_generic_helper (xs : xstate) (name : key) : helper"},
	} {
		s, err := c07Accessor(f, a[0], a[1], a[2])
		if err != nil {
			return "", "", err
		}
		b.WriteString(s)
	}
	fn, err := c07GraphMethod(f, "updateToValidateMap")
	if err != nil {
		return "", "", err
	}
	decls, body, err := c07ValidateBody(fn)
	if err != nil {
		return "", "", err
	}
	t := c07NewTr("graph.updateToValidateMap", "xres")
	t.keys["startNode"] = "startNode"
	t.keys["endNode.endNode"] = "endNode_endNode"
	t.bools["len(endNode.mappings)==0"] = "nomap"
	code, err := t.stmts(append(append([]ast.Stmt{}, decls...), body...), "  ", 0)
	if err != nil {
		return "", "", err
	}
	b.WriteString("Definition validate_entry (u : univ) (xs : xstate) (startNode endNode_endNode : key) (nomap : bool) : xres :=\n" +
		"  let removed := false in\n  let changed := false in\n  " + code + ".\n")
	return "ValidateCode.v", b.String(), nil
}

// ---------------------------------------------------------------------------------------------- c07_branch

func c07ExtractBranch(repo string) (string, string, error) {
	fset := token.NewFileSet()
	f, err := c07ParseGo(fset, repo, "compose", "graph.go")
	if err != nil {
		return "", "", err
	}
	bf, err := c07ParseGo(fset, repo, "compose", "branch.go")
	if err != nil {
		return "", "", err
	}
	// newGraphBranch[T]: inputType: generic.TypeOf[T](), genericHelper: newGenericHelper[A, B]()
	nb := c07TopFunc(bf, "newGraphBranch")
	if nb == nil || nb.Body == nil {
		return "", "", fmt.Errorf("func newGraphBranch not found")
	}
	var ghArgs []string
	okType := false
	ast.Inspect(nb.Body, func(n ast.Node) bool {
		kv, ok := n.(*ast.KeyValueExpr)
		if !ok {
			return true
		}
		switch c07sq(kv.Key) {
		case "inputType":
			okType = c07sq(kv.Value) == "generic.TypeOf[T]()"
		case "genericHelper":
			if call, ok := kv.Value.(*ast.CallExpr); ok && len(call.Args) == 0 {
				if ix, ok := call.Fun.(*ast.IndexListExpr); ok && c07sq(ix.X) == "newGenericHelper" {
					for _, a := range ix.Indices {
						ghArgs = append(ghArgs, c07sq(a))
					}
				}
			}
		}
		return true
	})
	if !okType || len(ghArgs) != 2 {
		return "", "", fmt.Errorf("newGraphBranch: inputType / genericHelper of the branch not recognised")
	}
	for i, a := range ghArgs {
		if a != "T" {
			return "", "", fmt.Errorf("newGraphBranch: newGenericHelper[%s]", strings.Join(ghArgs, ","))
		}
		ghArgs[i] = "t"
	}
	fn, err := c07GraphMethod(f, "addBranch")
	if err != nil {
		return "", "", err
	}
	if pn := c07ParamNames(fn); pn != "startNode:string,branch:*GraphBranch,skipData:bool" {
		return "", "", fmt.Errorf("graph.addBranch: parameters (%s)", pn)
	}
	l := fn.Body.List
	// the head: from the statement that mentions ComponentOfPassthrough to the if chain on the check's result
	hs := -1
	for i, s := range l {
		if is, ok := s.(*ast.IfStmt); ok && strings.Contains(c07sq(is.Cond), "ComponentOfPassthrough") {
			hs = i
			break
		}
	}
	if hs < 0 || hs+2 >= len(l) {
		return "", "", fmt.Errorf("graph.addBranch: the typing of a passthrough start node was not found")
	}
	if as, ok := l[hs+1].(*ast.AssignStmt); !ok || len(as.Rhs) != 1 || !strings.HasPrefix(c07sq(as.Rhs[0]), "checkAssignable(") {
		return "", "", fmt.Errorf("graph.addBranch: no checkAssignable behind the typing of the start node")
	}
	if _, ok := l[hs+2].(*ast.IfStmt); !ok {
		return "", "", fmt.Errorf("graph.addBranch: no decision on the result of checkAssignable")
	}
	// the loop over branch.endNodes
	var loop *ast.RangeStmt
	for _, s := range l[hs+3:] {
		ast.Inspect(s, func(n ast.Node) bool {
			if r, ok := n.(*ast.RangeStmt); ok && c07sq(r.X) == "branch.endNodes" && loop == nil {
				loop = r
			}
			return loop == nil
		})
	}
	if loop == nil || loop.Key == nil || c07sq(loop.Key) != "endNode" || loop.Value != nil {
		return "", "", fmt.Errorf("graph.addBranch: loop `for endNode := range branch.endNodes` not found")
	}
	mk := func(kind string) *c07Tr {
		t := c07NewTr("graph.addBranch", kind)
		t.keys["startNode"] = "startNode"
		t.tyNames["branch.inputType"] = "(Some branch_inputType)"
		t.ghNames["branch.genericHelper"] = "(branch_gh branch_inputType)"
		t.cvNames["branch.inputConverter"] = "(gh_conv_in (branch_gh branch_inputType))"
		return t
	}
	t := mk("bres")
	head, err := t.stmts(l[hs:hs+3], "  ", 0)
	if err != nil {
		return "", "", err
	}
	t = mk("bres")
	t.keys["endNode"] = "endNode"
	end, err := t.stmts(loop.Body.List, "  ", 0)
	if err != nil {
		return "", "", err
	}
	var b strings.Builder
	b.WriteString(c07Header("BranchCode.v", "c07_branch", "compose/graph.go (addBranch: typing of a passthrough start node,\n   check of the condition's type, the body of the loop over branch.endNodes) and compose/branch.go (newGraphBranch)"))
	b.WriteString(c07Imports + "From Eino Require Import Gen.ValidateCode.\n\nDefinition tie_available : bool := true.\n\n")
	b.WriteString("Definition branch_gh (t : ty) : helper := gh_new " + strings.Join(ghArgs, " ") + ".\n\n")
	b.WriteString("Definition branch_head (u : univ) (upd : xstate -> option xstate) (xs : xstate) (startNode : key) (branch_inputType : ty) : bres :=\n" +
		"  let conv := @nil (option ty) in\n  " + head + ".\n\n")
	b.WriteString("Definition branch_end (upd : xstate -> option xstate) (xs : xstate) (startNode endNode : key) : bres :=\n" +
		"  let conv := @nil (option ty) in\n  " + end + ".\n\n")
	// the whole function
	t = mk("ares")
	t.whole = "branch"
	t.headFirst = l[hs]
	t.loopStmt = loop
	t.updTerm = "(upd 0%nat)"
	t.bools["g.buildError!=nil"] = "(g_err (x_st xs))"
	t.bools["g.compiled"] = "(g_compiled (x_st xs))"
	t.bools["skipData"] = "skipData"
	t.bools["len(branch.endNodes)==1"] = "(Nat.eqb (List.length ends) 1)"
	whole, err := t.stmts(l, "  ", 0)
	if err != nil {
		return "", "", err
	}
	b.WriteString("Definition add_branch (u : univ) (upd : nat -> xstate -> option xstate) (xs : xstate) (startNode : key) (branch_inputType : ty) (ends ends_order choice : list key) (skipData : bool) : ares :=\n" +
		"  let conv := @nil (option ty) in\n  " + whole + ".\n")
	return "BranchCode.v", b.String(), nil
}

// ---------------------------------------------------------------------------------------------- c07_addedge

func c07NodeString(n ast.Node) string {
	var b strings.Builder
	if err := printer.Fprint(&b, token.NewFileSet(), n); err != nil {
		return ""
	}
	return b.String()
}

func c07ExtractAddEdge(repo string) (string, string, error) {
	fset := token.NewFileSet()
	f, err := c07ParseGo(fset, repo, "compose", "graph.go")
	if err != nil {
		return "", "", err
	}
	fn, err := c07GraphMethod(f, "addEdgeWithMappings")
	if err != nil {
		return "", "", err
	}
	if pn := c07ParamNames(fn); pn != "startNode:string,endNode:string,noControl:bool,noData:bool,mappings:...*FieldMapping" {
		return "", "", fmt.Errorf("graph.addEdgeWithMappings: parameters (%s)", pn)
	}
	c07InlineMembership(f, fn.Body)
	t := c07NewTr("graph.addEdgeWithMappings", "ares")
	t.keys["startNode"] = "startNode"
	t.keys["endNode"] = "endNode"
	t.bools["g.buildError!=nil"] = "(g_err (x_st xs))"
	t.bools["g.compiled"] = "(g_compiled (x_st xs))"
	t.bools["noControl"] = "noControl"
	t.bools["noData"] = "noData"
	code, err := t.stmts(fn.Body.List, "  ", 0)
	if err != nil {
		return "", "", err
	}
	var b strings.Builder
	b.WriteString(c07Header("AddEdgeCode.v", "c07_addedge", "compose/graph.go (addEdgeWithMappings, whole body)"))
	b.WriteString(c07Imports + "\nDefinition tie_available : bool := true.\n\n")
	b.WriteString("Definition add_edge (upd : xstate -> option xstate) (xs : xstate) (startNode endNode : key) (noControl noData : bool) : ares :=\n  " + code + ".\n")
	return "AddEdgeCode.v", b.String(), nil
}

// c07InlineMembership: a private function of the file of the shape
//
//	func f(keys []string, key string) bool { for _, k := range keys { if k == key { return true } }; return false }
//
// called as the whole condition of an if statement without init / else, `if f(A, B) { S }`, is written back as the loop
// `for i := range A { if A[i] == B { S } }` it stands for (round 6: a duplicate scan extracted into a helper), provided S
// ends in a return (so that the loop form, which would run S once per match, and the call form agree)
func c07InlineMembership(f *ast.File, body *ast.BlockStmt) {
	member := map[string]bool{}
	for _, d := range f.Decls {
		fd, ok := d.(*ast.FuncDecl)
		if !ok || fd.Recv != nil || fd.Body == nil || len(fd.Body.List) != 2 || fd.Type.Results == nil || len(fd.Type.Results.List) != 1 || c07sq(fd.Type.Results.List[0].Type) != "bool" {
			continue
		}
		var ps []string
		for _, p := range fd.Type.Params.List {
			for _, n := range p.Names {
				ps = append(ps, n.Name+":"+c07sq(p.Type))
			}
		}
		if len(ps) != 2 || !strings.HasSuffix(ps[0], ":[]string") || !strings.HasSuffix(ps[1], ":string") {
			continue
		}
		keys, key := strings.TrimSuffix(ps[0], ":[]string"), strings.TrimSuffix(ps[1], ":string")
		rs, ok1 := fd.Body.List[0].(*ast.RangeStmt)
		ret, ok2 := fd.Body.List[1].(*ast.ReturnStmt)
		if !ok1 || !ok2 || len(ret.Results) != 1 || c07sq(ret.Results[0]) != "false" {
			continue
		}
		if c07sq(rs.X) != keys || rs.Key == nil || c07sq(rs.Key) != "_" || rs.Value == nil || len(rs.Body.List) != 1 {
			continue
		}
		is, ok := rs.Body.List[0].(*ast.IfStmt)
		if !ok || is.Init != nil || is.Else != nil || len(is.Body.List) != 1 {
			continue
		}
		v := c07sq(rs.Value)
		if c := c07sq(is.Cond); c != v+"=="+key && c != key+"=="+v {
			continue
		}
		if r, ok := is.Body.List[0].(*ast.ReturnStmt); !ok || len(r.Results) != 1 || c07sq(r.Results[0]) != "true" {
			continue
		}
		member[fd.Name.Name] = true
	}
	if len(member) == 0 {
		return
	}
	ast.Inspect(body, func(n ast.Node) bool {
		blk, ok := n.(*ast.BlockStmt)
		if !ok {
			return true
		}
		for i, st := range blk.List {
			is, ok := st.(*ast.IfStmt)
			if !ok || is.Init != nil || is.Else != nil || len(is.Body.List) == 0 {
				continue
			}
			call, ok := is.Cond.(*ast.CallExpr)
			if !ok || len(call.Args) != 2 {
				continue
			}
			id, ok := call.Fun.(*ast.Ident)
			if !ok || !member[id.Name] {
				continue
			}
			if _, ok := is.Body.List[len(is.Body.List)-1].(*ast.ReturnStmt); !ok {
				continue
			}
			iv := ast.NewIdent("i")
			blk.List[i] = &ast.RangeStmt{Key: iv, Tok: token.DEFINE, X: call.Args[0], Body: &ast.BlockStmt{List: []ast.Stmt{
				&ast.IfStmt{Cond: &ast.BinaryExpr{X: &ast.IndexExpr{X: call.Args[0], Index: iv}, Op: token.EQL, Y: call.Args[1]}, Body: is.Body},
			}}}
		}
		return true
	})
}

// ---------------------------------------------------------------------------------------------- c07_nodetype

func c07ExtractNodeType(repo string) (string, string, error) {
	fset := token.NewFileSet()
	f, err := c07ParseGo(fset, repo, "compose", "graph_node.go")
	if err != nil {
		return "", "", err
	}
	var b strings.Builder
	b.WriteString(c07Header("NodeTypeCode.v", "c07_nodetype", "compose/graph_node.go (methods inputType, outputType, getGenericHelper of graphNode)"))
	b.WriteString(c07Imports + "From Eino Require Import Model.TypeBuilderGenLib2.\n\nDefinition tie_available : bool := true.\n\n")
	for _, x := range []struct{ name, kind, def string }{
		{"inputType", "ty", "Definition node_input_type (m : ty) (has_info in_key out_key is_graph has_cr : bool) (g_in g_out cr_in cr_out : option ty) (g_gh cr_gh : helper) : option ty"},
		{"outputType", "ty", "Definition node_output_type (m : ty) (has_info in_key out_key is_graph has_cr : bool) (g_in g_out cr_in cr_out : option ty) (g_gh cr_gh : helper) : option ty"},
		{"getGenericHelper", "helper", "Definition node_generic_helper (m : ty) (has_info in_key out_key is_graph has_cr : bool) (g_in g_out cr_in cr_out : option ty) (g_gh cr_gh gh_empty : helper) : helper"},
	} {
		fn := c07MethodOf(f, "graphNode", x.name)
		if fn == nil || fn.Body == nil || len(fn.Recv.List[0].Names) != 1 || fn.Recv.List[0].Names[0].Name != "gn" || len(fn.Type.Params.List) != 0 {
			return "", "", fmt.Errorf("method (gn *graphNode).%s() not found", x.name)
		}
		t := c07NewTr("graphNode."+x.name, x.kind)
		t.bools["gn.nodeInfo!=nil"] = "has_info"
		for _, c := range []string{"!=0", ">0"} {
			t.bools["len(gn.nodeInfo.inputKey)"+c] = "in_key"
			t.bools["len(gn.nodeInfo.outputKey)"+c] = "out_key"
		}
		t.bools["gn.g!=nil"] = "is_graph"
		t.bools["gn.cr!=nil"] = "has_cr"
		t.tyNames["generic.TypeOf[map[string]any]()"] = "(Some m)"
		t.tyNames["gn.g.inputType()"] = "g_in"
		t.tyNames["gn.g.outputType()"] = "g_out"
		t.tyNames["gn.cr.inputType"] = "cr_in"
		t.tyNames["gn.cr.outputType"] = "cr_out"
		t.ghNames["gn.g.getGenericHelper()"] = "g_gh"
		t.ghNames["gn.cr.genericHelper"] = "cr_gh"
		t.ghNames["&genericHelper{}"] = "gh_empty" // the helper without any instantiated field: a parameter (nothing is assumed of it)
		for _, c := range []string{"==0"} {
			t.bools["len(gn.nodeInfo.inputKey)"+c] = "(negb in_key)"
			t.bools["len(gn.nodeInfo.outputKey)"+c] = "(negb out_key)"
		}
		t.bools["gn.nodeInfo==nil"] = "(negb has_info)"
		body, err := t.stmts(fn.Body.List, "  ", 0)
		if err != nil {
			return "", "", err
		}
		b.WriteString(x.def + " :=\n  " + body + ".\n\n")
	}
	return "NodeTypeCode.v", strings.TrimSuffix(b.String(), "\n"), nil
}

// ---------------------------------------------------------------------------------------------- c07_compile

func c07ExtractCompile(repo string) (string, string, error) {
	fset := token.NewFileSet()
	f, err := c07ParseGo(fset, repo, "compose", "graph.go")
	if err != nil {
		return "", "", err
	}
	fn, err := c07GraphMethod(f, "compile")
	if err != nil {
		return "", "", err
	}
	l := fn.Body.List
	// (1) the checks from `if len(g.startNodes) == 0` to the loop over g.nodes that looks for an untyped node
	from, to := -1, -1
	for i, s := range l {
		if is, ok := s.(*ast.IfStmt); ok && is.Init == nil && c07sq(is.Cond) == "len(g.startNodes)==0" && from < 0 {
			from = i
		}
		if rs, ok := s.(*ast.RangeStmt); ok && from >= 0 && to < 0 && c07sq(rs.X) == "g.nodes" && len(rs.Body.List) >= 1 {
			if is, ok := rs.Body.List[0].(*ast.IfStmt); ok && strings.Contains(c07sq(is.Cond), "Type()==nil") {
				to = i
			}
		}
	}
	if from < 0 || to < from {
		return "", "", fmt.Errorf("graph.compile: the start / end / pending / untyped-node checks were not found")
	}
	t := c07NewTr("graph.compile", "check2")
	t.bools["len(g.startNodes)==0"] = "(negb (g_has_start (x_st xs)))"
	t.bools["len(g.endNodes)==0"] = "(negb (g_has_end (x_st xs)))"
	checks, err := t.stmts(l[from:to+1], "  ", 0)
	if err != nil {
		return "", "", err
	}
	// (2) the converters put behind the state handlers of a passthrough node
	var loop *ast.RangeStmt
	var pass *ast.IfStmt
	// the loop over the nodes: for name, node := range g.nodes { … }, or (since the repair F-C20g: children are
	// compiled in the order of their keys) names collected by for name := range g.nodes { names = append(names, name) },
	// sorted, then for _, name := range names { node := g.nodes[name]; … }
	keyVar, nodeVar := "", ""
	collected := map[string]bool{} // slices that hold exactly the keys of g.nodes
	for _, s := range l[to+1:] {
		rs, ok := s.(*ast.RangeStmt)
		if !ok {
			continue
		}
		kv, nv := "", ""
		body := rs.Body.List
		switch {
		case c07sq(rs.X) == "g.nodes" && rs.Key != nil && rs.Value == nil && len(body) == 1:
			// names = append(names, name)
			if as, ok := body[0].(*ast.AssignStmt); ok && as.Tok == token.ASSIGN && len(as.Lhs) == 1 && len(as.Rhs) == 1 {
				if id, ok := as.Lhs[0].(*ast.Ident); ok && c07sq(as.Rhs[0]) == "append("+id.Name+","+c07sq(rs.Key)+")" {
					collected[id.Name] = true
				}
			}
			continue
		case c07sq(rs.X) == "g.nodes" && rs.Key != nil && rs.Value != nil:
			kv, nv = c07sq(rs.Key), c07sq(rs.Value)
		case collected[c07sq(rs.X)] && rs.Key != nil && c07sq(rs.Key) == "_" && rs.Value != nil && len(body) > 0:
			// node := g.nodes[name]
			as, ok := body[0].(*ast.AssignStmt)
			if !ok || as.Tok != token.DEFINE || len(as.Lhs) != 1 || len(as.Rhs) != 1 || c07sq(as.Rhs[0]) != "g.nodes["+c07sq(rs.Value)+"]" {
				continue
			}
			kv, nv = c07sq(rs.Value), c07sq(as.Lhs[0])
			body = body[1:]
		default:
			continue
		}
		for _, b := range body {
			if is, ok := b.(*ast.IfStmt); ok && strings.Contains(c07sq(is.Cond), "ComponentOfPassthrough") {
				loop, pass, keyVar, nodeVar = rs, is, kv, nv
			}
		}
	}
	if loop == nil {
		return "", "", fmt.Errorf("graph.compile: the handling of passthrough nodes' state handlers was not found")
	}
	t = c07NewTr("graph.compile", "convs")
	t.keys[keyVar] = "name"
	t.nodeAlias[nodeVar] = "name"
	convs, err := t.stmts([]ast.Stmt{pass}, "  ", 0)
	if err != nil {
		return "", "", err
	}
	var b strings.Builder
	b.WriteString(c07Header("CompileCode.v", "c07_compile", "compose/graph.go (compile: the start / end node, pending-entry and untyped-node checks;\n   the converters put behind the state handlers of a passthrough node)"))
	b.WriteString(c07Imports + "From Eino Require Import Model.TypeBuilderGenLib2 Gen.ValidateCode.\n\nDefinition tie_available : bool := true.\n\n")
	b.WriteString("Definition compile_checks (xs : xstate) : bool :=\n  " + checks + ".\n\n")
	b.WriteString("Definition handler_convs (xs : xstate) (name : key) : option ty * option ty :=\n  let pre_conv := @None ty in\n  let post_conv := @None ty in\n  " + convs + ".\n")
	return "CompileCode.v", b.String(), nil
}

// ---------------------------------------------------------------------------------------------- c07_addnode

func c07ExtractAddNode(repo string) (string, string, error) {
	fset := token.NewFileSet()
	f, err := c07ParseGo(fset, repo, "compose", "graph.go")
	if err != nil {
		return "", "", err
	}
	fn, err := c07GraphMethod(f, "addNode")
	if err != nil {
		return "", "", err
	}
	if pn := c07ParamNames(fn); pn != "key:string,node:*graphNode,options:*graphAddNodeOpts" {
		return "", "", fmt.Errorf("graph.addNode: parameters (%s)", pn)
	}
	l := fn.Body.List
	from, to := -1, -1
	for i, s := range l {
		if is, ok := s.(*ast.IfStmt); ok && is.Init == nil {
			switch c07sq(is.Cond) {
			case "options.needState", "options.needState&&g.stateGenerator==nil":
				// the option check, nested (if needState { if no generator … }) or as one condition
				if from < 0 {
					from = i
				}
			case "options.processor!=nil":
				to = i
			}
		}
	}
	if from < 0 || to < from {
		return "", "", fmt.Errorf("graph.addNode: the option / state handler checks were not found")
	}
	t := c07NewTr("graph.addNode", "check")
	t.bools["options.needState"] = "(opt_some pre || opt_some post)"
	t.bools["options.processor!=nil"] = "(opt_some pre || opt_some post)"
	t.bools["g.stateGenerator==nil"] = "(negb (opt_some gst))"
	t.bools["options.processor.statePreHandler!=nil"] = "(opt_some pre)"
	t.bools["options.processor.statePostHandler!=nil"] = "(opt_some post)"
	t.bools["g.stateType!=options.processor.preStateType"] = "(negb (st_eq gst (h_state_of pre)))"
	t.bools["g.stateType!=options.processor.postStateType"] = "(negb (st_eq gst (h_state_of post)))"
	t.tyNames["node.inputType()"] = "node_in"
	t.tyNames["node.outputType()"] = "node_out"
	t.tyNames["options.processor.statePreHandler.outputType"] = "(h_ty_of pre)"
	t.tyNames["options.processor.statePostHandler.inputType"] = "(h_ty_of post)"
	t.tyNames["reflect.TypeOf((*any)(nil)).Elem()"] = "(Some TAny)"
	t.skipIf[`options.nodeOptions.nodeKey!=""`] = true // chains only
	t.skipIf[`options.nodeOptions.nodeKey!=""&&!isChain(g.cmp)`] = true
	code, err := t.stmts(l[from:to+1], "  ", 0)
	if err != nil {
		return "", "", err
	}
	var b strings.Builder
	b.WriteString(c07Header("AddNodeCode.v", "c07_addnode", "compose/graph.go (addNode: the option and state-handler checks)"))
	b.WriteString(c07Imports + "\nDefinition tie_available : bool := true.\n\n")
	b.WriteString("Definition add_node_checks (u : univ) (gst : option N) (node_in node_out : option ty) (pre post : option hspec) : bool :=\n  " + code + ".\n\n")
	// the whole function
	w := c07NewTr("graph.addNode", "ares")
	w.whole = "node"
	w.keys["key"] = "key"
	w.bools, w.tyNames, w.skipIf = t.bools, t.tyNames, t.skipIf
	w.bools["g.buildError!=nil"] = "(g_err (x_st xs))"
	w.bools["g.compiled"] = "(g_compiled (x_st xs))"
	w.bools["g.stateGenerator==nil"] = "(negb (opt_some (g_st (x_st xs))))"
	w.bools["g.stateType!=options.processor.preStateType"] = "(negb (st_eq (g_st (x_st xs)) (h_state_of pre)))"
	w.bools["g.stateType!=options.processor.postStateType"] = "(negb (st_eq (g_st (x_st xs)) (h_state_of post)))"
	whole, err := w.stmts(l, "  ", 0)
	if err != nil {
		return "", "", err
	}
	b.WriteString("Definition add_node (u : univ) (xs : xstate) (key : key) (isp : bool) (node_in node_out : option ty) (pre post : option hspec) : ares :=\n  " + whole + ".\n")
	return "AddNodeCode.v", b.String(), nil
}

// ---------------------------------------------------------------------------------------------- own copies of small helpers
// (tools/go2v is one shared package: nothing here depends on another extractor's file)

func c07ParseGo(fset *token.FileSet, repo string, rel ...string) (*ast.File, error) {
	f, err := parser.ParseFile(fset, filepath.Join(append([]string{repo}, rel...)...), nil, 0)
	if err == nil {
		c07Normalize(f)
	}
	return f, err
}

// c07Normalize rewrites, before any translator looks at the file, two spellings that mean the same in Go
// (round 5: behaviour-preserving refactorings should leave the translation unchanged):
//   - a switch without init statement, without tag or with a plain variable as its tag, whose clauses contain no
//     break / fallthrough / goto / label becomes the chain if c1 || c1' { … } else if c2 { … } else { default }
//     (default last wherever it is written; with a tag x, case a is x == a);
//   - b == true, b != false become b;  b == false, b != true become !b  (true / false literally).
func c07Normalize(f *ast.File) {
	ast.Inspect(f, func(n ast.Node) bool {
		var list []ast.Stmt
		switch x := n.(type) {
		case *ast.BlockStmt:
			list = x.List
		case *ast.CaseClause:
			list = x.Body
			for i := range x.List {
				x.List[i] = c07NormExpr(x.List[i])
			}
		case *ast.CommClause:
			list = x.Body
		case *ast.IfStmt:
			x.Cond = c07NormExpr(x.Cond)
		case *ast.ForStmt:
			if x.Cond != nil {
				x.Cond = c07NormExpr(x.Cond)
			}
		case *ast.AssignStmt:
			for i := range x.Rhs {
				x.Rhs[i] = c07NormExpr(x.Rhs[i])
			}
		case *ast.ReturnStmt:
			for i := range x.Results {
				x.Results[i] = c07NormExpr(x.Results[i])
			}
		}
		for i, s := range list {
			if sw, ok := s.(*ast.SwitchStmt); ok {
				if r := c07SwitchToIf(sw); r != nil {
					list[i] = r
				}
			}
		}
		return true
	})
}

func c07BoolLit(e ast.Expr) (bool, bool) {
	if id, ok := e.(*ast.Ident); ok && (id.Name == "true" || id.Name == "false") {
		return id.Name == "true", true
	}
	return false, false
}

func c07NormExpr(e ast.Expr) ast.Expr {
	switch x := e.(type) {
	case *ast.ParenExpr:
		x.X = c07NormExpr(x.X)
	case *ast.UnaryExpr:
		x.X = c07NormExpr(x.X)
	case *ast.BinaryExpr:
		x.X, x.Y = c07NormExpr(x.X), c07NormExpr(x.Y)
		if x.Op == token.EQL || x.Op == token.NEQ {
			other, lit, isLit := x.X, false, false
			if b, ok := c07BoolLit(x.Y); ok {
				lit, isLit = b, true
			} else if b, ok := c07BoolLit(x.X); ok {
				other, lit, isLit = x.Y, b, true
			}
			if isLit {
				if _, both := c07BoolLit(other); both {
					return e
				}
				if lit == (x.Op == token.EQL) {
					return other
				}
				switch other.(type) {
				case *ast.Ident, *ast.CallExpr, *ast.SelectorExpr, *ast.ParenExpr, *ast.IndexExpr:
				default:
					other = &ast.ParenExpr{X: other}
				}
				return &ast.UnaryExpr{Op: token.NOT, X: other, OpPos: x.Pos()}
			}
		}
	}
	return e
}

// nil: the switch is left as it is
func c07SwitchToIf(sw *ast.SwitchStmt) ast.Stmt {
	if sw.Init != nil || len(sw.Body.List) == 0 {
		return nil
	}
	// a tag that is a plain variable: case a, b becomes tag == a || tag == b
	var tag *ast.Ident
	if sw.Tag != nil {
		id, ok := sw.Tag.(*ast.Ident)
		if !ok {
			return nil
		}
		tag = id
	}
	bad := false
	ast.Inspect(sw.Body, func(n ast.Node) bool {
		switch n.(type) {
		case *ast.BranchStmt, *ast.LabeledStmt:
			bad = true
		}
		return !bad
	})
	if bad {
		return nil
	}
	var deflt *ast.CaseClause
	var clauses []*ast.CaseClause
	for _, s := range sw.Body.List {
		cc := s.(*ast.CaseClause)
		if cc.List == nil {
			deflt = cc
		} else {
			clauses = append(clauses, cc)
		}
	}
	if len(clauses) == 0 {
		return nil
	}
	var tail ast.Stmt
	if deflt != nil {
		tail = &ast.BlockStmt{List: deflt.Body, Lbrace: deflt.Pos(), Rbrace: deflt.End()}
	}
	for i := len(clauses) - 1; i >= 0; i-- {
		cc := clauses[i]
		var cond ast.Expr
		for _, e := range cc.List {
			e = c07NormExpr(e)
			if tag != nil {
				e = &ast.BinaryExpr{X: &ast.Ident{Name: tag.Name, NamePos: e.Pos()}, Op: token.EQL, Y: e, OpPos: e.Pos()}
			}
			if cond == nil {
				cond = e
			} else {
				cond = &ast.BinaryExpr{X: cond, Op: token.LOR, Y: e}
			}
		}
		ifs := &ast.IfStmt{If: cc.Pos(), Cond: cond, Body: &ast.BlockStmt{List: cc.Body, Lbrace: cc.Pos(), Rbrace: cc.End()}}
		if tail != nil {
			ifs.Else = tail
		}
		tail = ifs
	}
	return tail
}

func c07TopFunc(f *ast.File, name string) *ast.FuncDecl {
	for _, d := range f.Decls {
		if fn, ok := d.(*ast.FuncDecl); ok && fn.Recv == nil && fn.Name.Name == name {
			return fn
		}
	}
	return nil
}

func c07MethodOf(f *ast.File, recvType, name string) *ast.FuncDecl {
	for _, d := range f.Decls {
		fn, ok := d.(*ast.FuncDecl)
		if !ok || fn.Recv == nil || fn.Name.Name != name || len(fn.Recv.List) != 1 {
			continue
		}
		if st, ok := fn.Recv.List[0].Type.(*ast.StarExpr); ok {
			if id, ok := st.X.(*ast.Ident); ok && id.Name == recvType {
				return fn
			}
		}
	}
	return nil
}

func c07Squash(s string) string { return strings.Join(strings.Fields(s), "") }

func c07CoqStr(s string) string { return `"` + strings.ReplaceAll(s, `"`, `""`) + `"%string` }

func c07ExprList(l []ast.Expr) string {
	var s []string
	for _, e := range l {
		s = append(s, types.ExprString(e))
	}
	return strings.Join(s, ",")
}

func c07IsNil(e ast.Expr) bool {
	id, ok := e.(*ast.Ident)
	return ok && id.Name == "nil"
}

func c07IsEmptyMap(e ast.Expr) bool {
	switch x := e.(type) {
	case *ast.CompositeLit:
		_, ok := x.Type.(*ast.MapType)
		return ok && len(x.Elts) == 0
	case *ast.CallExpr:
		if id, ok := x.Fun.(*ast.Ident); ok && id.Name == "make" && len(x.Args) >= 1 {
			_, ok := x.Args[0].(*ast.MapType)
			return ok
		}
	}
	return false
}

// reflect.K -> K
func c07ReflectKind(e ast.Expr) (string, bool) {
	sel, ok := e.(*ast.SelectorExpr)
	if !ok {
		return "", false
	}
	if id, ok := sel.X.(*ast.Ident); !ok || id.Name != "reflect" {
		return "", false
	}
	return sel.Sel.Name, true
}
