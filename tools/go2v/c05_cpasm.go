package main

// Extractor "cpasm" (property C05): how a checkpoint is ASSEMBLED at an interrupt.
//
//   compose/graph_run.go   (*runner).handleInterrupt                              -> plain_assembly
//                          (*runner).handleInterruptWithSubGraphAndRerunNodes     -> rerun_assembly
//                          the tail of both (conversion, where the checkpoint goes) -> interrupt_dest, assembly_tail
//                          (*runner).resolveInterruptCompletedTasks, one task       -> resolve_task
//                          (*runner).run: every call of the two handlers, arguments by origin -> call_sites
//
// The handlers are executed symbolically, statement by statement (go/ast, no type checker): a []*task variable is a
// Gallina list expression, a loop over a task list whose body only appends the loop variable to lists / puts its key
// into maps under conditions on the task becomes `filter` / `map` / `flat_map` over that list (path conditions; a
// search loop `for _, k := range keys { if k == t.nodeKey { ...; break } }` is a membership test), the composite
// literals &checkpoint{...} / &InterruptInfo{...} and the later assignments into their map fields become the fields of
// the generated records.  Shapes outside this fragment are "not recognised" (tie unavailable); a recognised function
// that means something else makes Proofs/GenAgreeC05Asm.v fail.
//
// Output: coq/Gen/CheckpointAssembly.v over the vocabulary of Model/CheckpointAsmLib.v.

import (
	"bytes"
	"fmt"
	"go/ast"
	"go/printer"
	"go/token"
	"sort"
	"strings"
)

// c05aSrc: the source text of an expression (types.ExprString abbreviates composite literals)
func c05aSrc(e ast.Expr) string {
	if e == nil {
		return "<nil>"
	}
	var b bytes.Buffer
	if err := printer.Fprint(&b, token.NewFileSet(), e); err != nil {
		return "<?>"
	}
	return b.String()
}

func init() {
	register("cpasm", c05ExtractCpAsm)
	registerFallback("cpasm", "CheckpointAssembly.v", "(* Gen/CheckpointAssembly.v — translator tie UNAVAILABLE: tools/go2v (extractor \"cpasm\") did not recognise the\n"+
		"   shape of handleInterrupt / handleInterruptWithSubGraphAndRerunNodes / run of compose/graph_run.go; the model's own\n"+
		"   definitions are re-exported. *)\n"+
		"From Eino Require Import Base.Util Model.RunLoop Model.CheckpointAsmLib.\n\n"+
		"Definition tie_available : bool := false.\n\n"+
		"Definition plain_assembly (V CS GS SCP SINFO : Type) (val_is_nil : V -> bool) (own_state : option GS) (hb ha : list N) (next : list (atask V)) (cs : CS)\n"+
		"    : ares V CS GS SCP SINFO := model_plain own_state hb ha next cs.\n"+
		"Definition rerun_assembly (V CS GS SCP SINFO : Type) (val_is_nil : V -> bool) (fold : CS -> list (N * V) -> res CS) (ph : bool -> V) (isStream : bool)\n"+
		"    (own_state : option GS) (rr : list N) (subs : list (N * (SCP * SINFO))) (ha : list N) (completed : list (atask V))\n"+
		"    (hb : list N) (pending : list (atask V)) (cs : CS) : ares V CS GS SCP SINFO :=\n"+
		"  model_rerun fold ph isStream own_state rr subs ha completed hb pending cs.\n"+
		"Definition resolve_task (V SCP SINFO : Type) (after_cfg : list N) (t : N * @texec V SCP SINFO) : rstep SCP SINFO := model_resolve_task after_cfg t.\n"+
		"Definition interrupt_dest (isSubGraph hasID : bool) : adest := model_dest isSubGraph hasID.\n"+
		"Definition assembly_tail : list string := model_tail.\n"+
		"Definition call_sites : list (string * list string) := model_call_sites.\n")
}

// ---------------------------------------------------------------- symbolic values

type c05aVal struct {
	kind   string            // tasks | keys | keyset | submap | chans | cm | rec | bool | ctx | strptr | recv
	expr   string            // Gallina expression (tasks, keys, keyset, submap: the binder name)
	fields map[string]string // rec: field -> Gallina expression ("@chans" = the channel table when the handler ends)
	typ    string            // rec: checkpoint | InterruptInfo
}

type c05aHandler struct {
	where    string
	vars     map[string]*c05aVal
	lets     []string // let lines emitted so far (before / after the fold)
	foldAt   int      // number of let lines before the fold (-1: no fold)
	foldArg  string
	chans    string // binder of the channel table
	paradigm string // Go name of the bool handed to convertCheckPoint
	binders  []string
	cpVar    string
	infoVar  string
	tail     []string
	dest     string
	recvName string
	// resolveCompletedTasks / updateValues / updateDependencies
	rcValues, rcControls string
	foldStage            int
}

var c05aReserved = map[string]bool{"fold": true, "ph": true, "val_is_nil": true, "isStream": true, "own_state": true, "t": true, "r": true,
	"map": true, "filter": true, "flat_map": true, "puts": true, "set_puts": true, "fst": true, "snd": true, "V": true,
	"CS": true, "GS": true, "SCP": true, "SINFO": true, "N": true, "list": true, "option": true, "res": true, "Some": true,
	"None": true, "Ok": true, "match": true, "with": true, "end": true, "let": true, "in": true, "fun": true, "if": true,
	"then": true, "else": true, "true": true, "false": true, "negb": true}

func (h *c05aHandler) err(format string, a ...any) error { return c05Err(h.where, format, a...) }

// c05aIsMapMake: make(map[K]T) / map[K]T{}
func c05aIsMapMake(e ast.Expr) bool {
	switch x := e.(type) {
	case *ast.CallExpr:
		if c05Ident(x.Fun) == "make" && len(x.Args) >= 1 {
			_, ok := x.Args[0].(*ast.MapType)
			return ok
		}
	case *ast.CompositeLit:
		_, ok := x.Type.(*ast.MapType)
		return ok && len(x.Elts) == 0
	}
	return false
}

// c05aMapValueType: the value type T of make(map[K]T) / map[K]T{} ("" if e is not such an expression)
func c05aMapValueType(e ast.Expr) string {
	var mt *ast.MapType
	switch x := e.(type) {
	case *ast.CallExpr:
		if c05Ident(x.Fun) == "make" && len(x.Args) >= 1 {
			mt, _ = x.Args[0].(*ast.MapType)
		}
	case *ast.CompositeLit:
		if len(x.Elts) == 0 {
			mt, _ = x.Type.(*ast.MapType)
		}
	}
	if mt == nil {
		return ""
	}
	return c05aSrc(mt.Value)
}

func c05aAnd(a, b string) string {
	if a == "" {
		return b
	}
	if b == "" {
		return a
	}
	return a + " && " + b
}

func c05aNot(a string) string {
	if strings.HasPrefix(a, "negb (") && strings.HasSuffix(a, ")") && strings.Count(a, "(") == strings.Count(a, ")") && !strings.Contains(a, "&&") {
		return a
	}
	return "negb (" + a + ")"
}

// ---------------------------------------------------------------- loops over task lists

type c05aEffect struct {
	kind   string // list | set | put | sel
	target string // variable name, or rec.Field
	cond   string
	value  string // put: value expression; sel: projection (sub_cp / sub_info) and the map: "M|proj"
}

type c05aLoop struct {
	h       *c05aHandler
	tv      string // loop variable
	bools   map[string]string
	boolPc  map[string]string // path condition under which the local was declared
	effects []c05aEffect
}

// taskKey: e is tv.nodeKey
func (l *c05aLoop) isKey(e ast.Expr) bool {
	x, f, ok := c05Sel(e)
	return ok && x == l.tv && f == "nodeKey"
}

func (l *c05aLoop) cond(e ast.Expr) (string, error) {
	switch x := e.(type) {
	case *ast.Ident:
		if b, ok := l.bools[x.Name]; ok {
			return b, nil
		}
		if x.Name == l.h.paradigm {
			return "isStream", nil
		}
	case *ast.ParenExpr:
		return l.cond(x.X)
	case *ast.UnaryExpr:
		if x.Op == token.NOT {
			s, err := l.cond(x.X)
			if err != nil {
				return "", err
			}
			return c05aNotB(s), nil
		}
	case *ast.BinaryExpr:
		// t.input != nil / t.output == nil
		if (x.Op == token.EQL || x.Op == token.NEQ) && c05IsNil(x.Y) {
			if tv, f, ok := c05Sel(x.X); ok && tv == l.tv && (f == "input" || f == "output") {
				s := "val_is_nil (tk_in t)"
				if f == "output" {
					s = "val_is_nil (tk_out t)"
				}
				if x.Op == token.NEQ {
					s = "negb (" + s + ")"
				}
				return s, nil
			}
		}
		if x.Op == token.LAND || x.Op == token.LOR {
			a, err := l.cond(x.X)
			if err != nil {
				return "", err
			}
			b, err := l.cond(x.Y)
			if err != nil {
				return "", err
			}
			if x.Op == token.LAND {
				return "(" + a + ") && (" + b + ")", nil
			}
			return "(" + a + ") || (" + b + ")", nil
		}
		if x.Op == token.EQL {
			if id, ok := x.Y.(*ast.Ident); ok && id.Name == "false" {
				s, err := l.cond(x.X)
				if err != nil {
					return "", err
				}
				return c05aNotB(s), nil
			}
			if id, ok := x.Y.(*ast.Ident); ok && id.Name == "true" {
				return l.cond(x.X)
			}
		}
	}
	return "", l.h.err("loop condition %s", c05aSrc(e))
}

func c05aNotB(s string) string {
	if s == "true" {
		return "false"
	}
	if s == "false" {
		return "true"
	}
	return "negb (" + s + ")"
}

// value stored into a map under the task's key
func (l *c05aLoop) value(e ast.Expr) (kind, v string, err error) {
	if x, f, ok := c05Sel(e); ok && x == l.tv {
		switch f {
		case "input":
			return "put", "tk_in t", nil
		case "output":
			return "put", "tk_out t", nil
		}
	}
	s := c05Squash(c05aSrc(e))
	switch s {
	case l.tv + ".call.action.inputEmptyStream()":
		return "put", "ph true", nil
	case l.tv + ".call.action.inputZeroValue()":
		return "put", "ph false", nil
	}
	// M[t.nodeKey].CheckPoint / .Info
	if se, ok := e.(*ast.SelectorExpr); ok {
		if ix, ok := se.X.(*ast.IndexExpr); ok && l.isKey(ix.Index) {
			if m := l.h.vars[c05Ident(ix.X)]; m != nil && m.kind == "submap" {
				switch se.Sel.Name {
				case "CheckPoint":
					return "sel", m.expr + "|sub_cp", nil
				case "Info":
					return "sel", m.expr + "|sub_info", nil
				}
			}
		}
	}
	return "", "", l.h.err("stored value %s", c05aSrc(e))
}

// assignment inside the loop; returns the effect (nil for local bookkeeping)
func (l *c05aLoop) assign(a *ast.AssignStmt, pc string) error {
	if len(a.Lhs) != 1 || len(a.Rhs) != 1 {
		return l.h.err("loop assignment %s", c05aSrc(a.Lhs[0]))
	}
	lhs, rhs := a.Lhs[0], a.Rhs[0]
	// b := false / b = true
	if id, ok := lhs.(*ast.Ident); ok {
		if v, ok := rhs.(*ast.Ident); ok && (v.Name == "true" || v.Name == "false") {
			if a.Tok == token.DEFINE {
				l.bools[id.Name] = v.Name
				l.boolPc[id.Name] = pc
				return nil
			}
			if old, ok := l.bools[id.Name]; ok && v.Name == "true" {
				// the local lives under the path condition of its declaration: its value is relative to it
				c := pc
				if d := l.boolPc[id.Name]; d != "" {
					if !strings.HasPrefix(pc, d+" && ") && pc != d {
						return l.h.err("local %s assigned outside the path of its declaration", id.Name)
					}
					c = strings.TrimPrefix(strings.TrimPrefix(pc, d), " && ")
				}
				if c == "" {
					c = "true"
				}
				if old == "false" {
					l.bools[id.Name] = c
				} else {
					l.bools[id.Name] = "(" + old + ") || (" + c + ")"
				}
				return nil
			}
			return l.h.err("loop assignment to %s", id.Name)
		}
		// L = append(L, t)
		if c, ok := rhs.(*ast.CallExpr); ok && c05Ident(c.Fun) == "append" && len(c.Args) == 2 && c05Ident(c.Args[0]) == id.Name &&
			c05Ident(c.Args[1]) == l.tv && a.Tok == token.ASSIGN {
			if v := l.h.vars[id.Name]; v != nil && v.kind == "tasks" {
				l.effects = append(l.effects, c05aEffect{kind: "list", target: id.Name, cond: pc})
				return nil
			}
		}
		return l.h.err("loop assignment to %s", id.Name)
	}
	ix, ok := lhs.(*ast.IndexExpr)
	if !ok || !l.isKey(ix.Index) || a.Tok != token.ASSIGN {
		return l.h.err("loop assignment %s", c05aSrc(lhs))
	}
	// S[t.nodeKey] = true
	if id, ok := ix.X.(*ast.Ident); ok {
		if v := l.h.vars[id.Name]; v != nil && v.kind == "keyset" && c05Ident(rhs) == "true" {
			l.effects = append(l.effects, c05aEffect{kind: "set", target: id.Name, cond: pc})
			return nil
		}
		if v := l.h.vars[id.Name]; v != nil && v.kind == "valmap" {
			k, val, err := l.value(rhs)
			if err != nil {
				return err
			}
			l.effects = append(l.effects, c05aEffect{kind: k, target: "@var." + id.Name, cond: pc, value: val})
			return nil
		}
		return l.h.err("loop assignment %s", c05aSrc(lhs))
	}
	// rec.F[t.nodeKey] = value
	rx, rf, ok := c05Sel(ix.X)
	if !ok || l.h.vars[rx] == nil || l.h.vars[rx].kind != "rec" {
		return l.h.err("loop assignment %s", c05aSrc(lhs))
	}
	if _, ok := l.h.vars[rx].fields[rf]; !ok {
		return l.h.err("assignment into %s.%s, which is not a map of the literal", rx, rf)
	}
	k, v, err := l.value(rhs)
	if err != nil {
		return err
	}
	l.effects = append(l.effects, c05aEffect{kind: k, target: rx + "." + rf, cond: pc, value: v})
	return nil
}

// singlePut: the block is one assignment rec.F[t.nodeKey] = e
func (l *c05aLoop) singlePut(b *ast.BlockStmt) (target, v string, ok bool) {
	if b == nil || len(b.List) != 1 {
		return "", "", false
	}
	a, isA := b.List[0].(*ast.AssignStmt)
	if !isA || len(a.Lhs) != 1 || len(a.Rhs) != 1 || a.Tok != token.ASSIGN {
		return "", "", false
	}
	ix, isIx := a.Lhs[0].(*ast.IndexExpr)
	if !isIx || !l.isKey(ix.Index) {
		return "", "", false
	}
	rx, rf, isSel := c05Sel(ix.X)
	if !isSel || l.h.vars[rx] == nil || l.h.vars[rx].kind != "rec" {
		return "", "", false
	}
	k, val, err := l.value(a.Rhs[0])
	if err != nil || k != "put" {
		return "", "", false
	}
	return rx + "." + rf, val, true
}

// exec runs the statements under the path condition pc; done = the path ended (continue)
func (l *c05aLoop) exec(stmts []ast.Stmt, pc string) (done bool, err error) {
	for i, s := range stmts {
		switch x := s.(type) {
		case *ast.AssignStmt:
			if err := l.assign(x, pc); err != nil {
				return false, err
			}
		case *ast.BranchStmt:
			if x.Tok == token.CONTINUE && x.Label == nil {
				return true, nil
			}
			return false, l.h.err("%s in a loop over tasks", x.Tok)
		case *ast.RangeStmt:
			// search loop: for _, key := range KEYS { if key == t.nodeKey { ...; break } }
			keys := l.h.vars[c05Ident(x.X)]
			kv := c05Ident(x.Value)
			if keys == nil || keys.kind != "keys" || kv == "" || (x.Key != nil && c05Ident(x.Key) != "_") || len(x.Body.List) != 1 {
				return false, l.h.err("inner loop over %s", c05aSrc(x.X))
			}
			is, ok := x.Body.List[0].(*ast.IfStmt)
			if !ok || is.Init != nil || is.Else != nil || len(is.Body.List) == 0 {
				return false, l.h.err("inner loop over %s is not a search", c05aSrc(x.X))
			}
			be, ok := is.Cond.(*ast.BinaryExpr)
			if !ok || be.Op != token.EQL || !(c05Ident(be.X) == kv && l.isKey(be.Y) || c05Ident(be.Y) == kv && l.isKey(be.X)) {
				return false, l.h.err("inner loop over %s is not a search for the task's key", c05aSrc(x.X))
			}
			last, ok := is.Body.List[len(is.Body.List)-1].(*ast.BranchStmt)
			if !ok || last.Tok != token.BREAK {
				return false, l.h.err("inner loop over %s does not break at the first hit", c05aSrc(x.X))
			}
			d, err := l.exec(is.Body.List[:len(is.Body.List)-1], c05aAnd(pc, "asm_mem (tk_key t) "+keys.expr))
			if err != nil {
				return false, err
			}
			if d {
				return false, l.h.err("continue inside a search loop")
			}
		case *ast.IfStmt:
			var c string
			if x.Init != nil {
				// _, ok := M[t.nodeKey]; ok
				as, ok := x.Init.(*ast.AssignStmt)
				if !ok || as.Tok != token.DEFINE || len(as.Lhs) != 2 || len(as.Rhs) != 1 || c05Ident(as.Lhs[0]) != "_" ||
					c05Ident(x.Cond) != c05Ident(as.Lhs[1]) {
					return false, l.h.err("if with an initialiser that is not `_, ok := m[t.nodeKey]; ok`")
				}
				ix, ok := as.Rhs[0].(*ast.IndexExpr)
				if !ok || !l.isKey(ix.Index) || l.h.vars[c05Ident(ix.X)] == nil || l.h.vars[c05Ident(ix.X)].kind != "submap" {
					return false, l.h.err("if with an initialiser that is not `_, ok := m[t.nodeKey]; ok`")
				}
				c = "m_has (tk_key t) " + l.h.vars[c05Ident(ix.X)].expr
			} else {
				var err error
				if c, err = l.cond(x.Cond); err != nil {
					return false, err
				}
			}
			var eb *ast.BlockStmt
			if x.Else != nil {
				b, ok := x.Else.(*ast.BlockStmt)
				if !ok {
					return false, l.h.err("else-if in a loop over tasks")
				}
				eb = b
			}
			// if c { m[k] = e1 } else { m[k] = e2 }
			if t1, v1, ok1 := l.singlePut(x.Body); ok1 && eb != nil {
				if t2, v2, ok2 := l.singlePut(eb); ok2 && t1 == t2 {
					v := "if " + c + " then " + v1 + " else " + v2
					if v1 == v2 {
						v = v1
					}
					l.effects = append(l.effects, c05aEffect{kind: "put", target: t1, cond: pc, value: v})
					continue
				}
			}
			d1, err := l.exec(x.Body.List, c05aAnd(pc, c))
			if err != nil {
				return false, err
			}
			d2 := false
			if eb != nil {
				if d2, err = l.exec(eb.List, c05aAnd(pc, c05aNotB(c))); err != nil {
					return false, err
				}
			}
			switch {
			case d1 && d2:
				return true, nil
			case d1:
				return l.exec(stmts[i+1:], c05aAnd(pc, c05aNotB(c)))
			case d2:
				return l.exec(stmts[i+1:], c05aAnd(pc, c))
			}
		default:
			return false, l.h.err("statement in a loop over tasks not recognised")
		}
	}
	return false, nil
}

func c05aFilter(cond, src string) string {
	if cond == "" {
		return src
	}
	return "filter (fun t => " + cond + ") " + src
}

// rangeTasks: for _, t := range X { ... }
func (h *c05aHandler) rangeTasks(rs *ast.RangeStmt) error {
	src := h.vars[c05Ident(rs.X)]
	if src == nil || src.kind != "tasks" || (rs.Key != nil && c05Ident(rs.Key) != "_") || c05Ident(rs.Value) == "" || rs.Tok != token.DEFINE {
		return h.err("loop over %s", c05aSrc(rs.X))
	}
	l := &c05aLoop{h: h, tv: c05Ident(rs.Value), bools: map[string]string{}, boolPc: map[string]string{}}
	if _, err := l.exec(rs.Body.List, ""); err != nil {
		return err
	}
	seen := map[string]bool{}
	for _, e := range l.effects {
		if seen[e.target] {
			return h.err("the loop over %s changes %s at two places", c05aSrc(rs.X), e.target)
		}
		seen[e.target] = true
		sel := c05aFilter(e.cond, src.expr)
		switch e.kind {
		case "list":
			v := h.vars[e.target]
			if v.expr != "[]" {
				sel = v.expr + " ++ " + sel
			}
			h.lets = append(h.lets, fmt.Sprintf("let %s := %s in", e.target, sel))
			v.expr = e.target
		case "set":
			v := h.vars[e.target]
			h.lets = append(h.lets, fmt.Sprintf("let %s := set_puts %s (map tk_key (%s)) in", e.target, v.expr, sel))
			v.expr = e.target
		case "put", "sel":
			p := strings.SplitN(e.target, ".", 2)
			var rec *c05aVal
			if p[0] == "@var" {
				// a local map: keep its contents in a one-field record
				lv := h.vars[p[1]]
				rec = &c05aVal{kind: "rec", fields: map[string]string{p[1]: lv.expr}}
				defer func(lv *c05aVal, rec *c05aVal, name string) { lv.expr = rec.fields[name] }(lv, rec, p[1])
			} else {
				rec = h.vars[p[0]]
				if a := rec.fields[p[1]]; strings.HasPrefix(a, "@map:") {
					// the field aliases a local map
					lv := h.vars[a[5:]]
					name := a[5:]
					rec = &c05aVal{kind: "rec", fields: map[string]string{name: lv.expr}}
					p = []string{"@var", name}
					defer func(lv *c05aVal, rec *c05aVal, name string) { lv.expr = rec.fields[name] }(lv, rec, name)
				}
			}
			old := rec.fields[p[1]]
			if e.kind == "put" {
				rec.fields[p[1]] = fmt.Sprintf("puts (%s) (map (fun t => (tk_key t, %s)) (%s))", old, e.value, sel)
			} else {
				mp := strings.SplitN(e.value, "|", 2)
				rec.fields[p[1]] = fmt.Sprintf("puts (%s) (flat_map (fun t => m_sel (tk_key t) %s %s) (%s))", old, mp[0], mp[1], sel)
			}
		}
	}
	return nil
}

// ---------------------------------------------------------------- the statements of a handler

func (h *c05aHandler) literal(e ast.Expr) (*c05aVal, error) {
	u, ok := e.(*ast.UnaryExpr)
	if !ok || u.Op != token.AND {
		return nil, nil
	}
	cl, ok := u.X.(*ast.CompositeLit)
	if !ok {
		return nil, nil
	}
	typ := c05Ident(cl.Type)
	var names []string
	switch typ {
	case "checkpoint":
		names = []string{"Channels", "Inputs", "State", "SkipPreHandler", "SubGraphs"}
	case "InterruptInfo":
		names = []string{"State", "BeforeNodes", "AfterNodes", "RerunNodes", "SubGraphs"}
	default:
		return nil, nil
	}
	v := &c05aVal{kind: "rec", typ: typ, fields: map[string]string{}}
	for _, el := range cl.Elts {
		kv, ok := el.(*ast.KeyValueExpr)
		if !ok {
			return nil, h.err("positional %s literal", typ)
		}
		f := c05Ident(kv.Key)
		found := false
		for _, n := range names {
			found = found || n == f
		}
		if !found {
			return nil, h.err("%s literal: field %s", typ, f)
		}
		val, err := h.fieldValue(typ, f, kv.Value)
		if err != nil {
			return nil, err
		}
		v.fields[f] = val
	}
	return v, nil
}

func (h *c05aHandler) fieldValue(typ, f string, e ast.Expr) (string, error) {
	if c05IsNil(e) {
		if f == "State" {
			return "None", nil
		}
		return "", h.err("%s.%s: nil", typ, f)
	}
	if c05aIsMapMake(e) {
		if f == "State" || f == "Channels" {
			return "", h.err("%s.%s: a new map", typ, f)
		}
		return "[]", nil
	}
	if id := c05Ident(e); id != "" {
		v := h.vars[id]
		if v == nil {
			return "", h.err("%s.%s: %s", typ, f, id)
		}
		switch {
		case f == "Channels" && v.kind == "chans":
			return "@chans", nil
		case (f == "BeforeNodes" || f == "AfterNodes" || f == "RerunNodes") && v.kind == "keys":
			return v.expr, nil
		case f == "SkipPreHandler" && v.kind == "keyset":
			return "@set:" + id, nil
		case (f == "Inputs" || f == "SubGraphs") && v.kind == "valmap":
			return "@map:" + id, nil
		}
		return "", h.err("%s.%s: %s", typ, f, id)
	}
	if x, fl, ok := c05Sel(e); ok {
		v := h.vars[x]
		switch {
		case v != nil && v.kind == "cm" && fl == "channels" && f == "Channels":
			return "@chans", nil
		case v != nil && v.kind == "rec" && v.typ == "checkpoint" && fl == "State" && f == "State":
			s, ok := v.fields["State"]
			if !ok {
				s = "None"
			}
			return s, nil
		}
	}
	return "", h.err("%s.%s: %s", typ, f, c05aSrc(e))
}

// stateGuard: if r.runCtx != nil { if state, ok := ctx.Value(stateKey{}).(*internalState); ok { cp.State = state.state } }
func (h *c05aHandler) stateGuard(is *ast.IfStmt) bool {
	if is.Init != nil || is.Else != nil || c05Squash(c05aSrc(is.Cond)) != h.recvName+".runCtx!=nil" || len(is.Body.List) != 1 {
		return false
	}
	in, ok := is.Body.List[0].(*ast.IfStmt)
	if !ok || in.Init == nil || in.Else != nil || len(in.Body.List) != 1 {
		return false
	}
	as, ok := in.Init.(*ast.AssignStmt)
	if !ok || as.Tok != token.DEFINE || len(as.Lhs) != 2 || len(as.Rhs) != 1 || c05Ident(in.Cond) != c05Ident(as.Lhs[1]) {
		return false
	}
	ctxName := ""
	for n, v := range h.vars {
		if v.kind == "ctx" {
			ctxName = n
		}
	}
	if c05Squash(c05aSrc(as.Rhs[0])) != ctxName+".Value(stateKey{}).(*internalState)" {
		return false
	}
	st := c05Ident(as.Lhs[0])
	a, ok := in.Body.List[0].(*ast.AssignStmt)
	if !ok || a.Tok != token.ASSIGN || len(a.Lhs) != 1 || len(a.Rhs) != 1 {
		return false
	}
	lx, lf, ok1 := c05Sel(a.Lhs[0])
	rx, rf, ok2 := c05Sel(a.Rhs[0])
	if !ok1 || !ok2 || lx != h.cpVar || lf != "State" || rx != st || rf != "state" {
		return false
	}
	h.vars[h.cpVar].fields["State"] = "own_state"
	return true
}

func c05aIsErrCheck(s ast.Stmt) bool {
	is, ok := s.(*ast.IfStmt)
	return ok && is.Init == nil && is.Else == nil && c05Squash(c05aSrc(is.Cond)) == "err!=nil" && c05AlwaysReturns(is.Body.List)
}

// call of a method: recv.path.name(args)
func c05aCall(e ast.Expr) (path string, args []ast.Expr, ok bool) {
	c, ok := e.(*ast.CallExpr)
	if !ok {
		return "", nil, false
	}
	return c05Squash(c05aSrc(c.Fun)), c.Args, true
}

func (h *c05aHandler) cmName() string {
	for n, v := range h.vars {
		if v.kind == "cm" {
			return n
		}
	}
	return ""
}

func (h *c05aHandler) stmt(s ast.Stmt, rest []ast.Stmt) (consumedAll bool, err error) {
	switch x := s.(type) {
	case *ast.DeclStmt:
		gd, ok := x.Decl.(*ast.GenDecl)
		if !ok || gd.Tok != token.VAR {
			return false, h.err("declaration")
		}
		for _, sp := range gd.Specs {
			vs := sp.(*ast.ValueSpec)
			if len(vs.Values) != 0 || vs.Type == nil || c05aSrc(vs.Type) != "[]*task" {
				return false, h.err("var declaration of type %s", c05aSrc(vs.Type))
			}
			for _, n := range vs.Names {
				if h.vars[n.Name] != nil || c05aReserved[n.Name] {
					return false, h.err("variable %s", n.Name)
				}
				h.vars[n.Name] = &c05aVal{kind: "tasks", expr: "[]"}
			}
		}
		return false, nil
	case *ast.RangeStmt:
		return false, h.rangeTasks(x)
	case *ast.IfStmt:
		if c05aIsErrCheck(x) {
			return false, nil
		}
		if h.cpVar != "" && h.stateGuard(x) {
			return false, nil
		}
		// the tail
		if h.cpVar != "" && h.infoVar != "" {
			return true, h.tailFrom(append([]ast.Stmt{s}, rest...))
		}
		return false, h.err("if statement %s", c05aSrc(x.Cond))
	case *ast.ReturnStmt:
		if h.cpVar != "" && h.infoVar != "" {
			return true, h.tailFrom(append([]ast.Stmt{s}, rest...))
		}
		return false, h.err("return before the checkpoint is assembled")
	case *ast.AssignStmt:
		if len(x.Rhs) != 1 {
			return false, h.err("assignment")
		}
		// x := map[string]bool{}
		if x.Tok == token.DEFINE && len(x.Lhs) == 1 && c05aIsMapMake(x.Rhs[0]) {
			n := c05Ident(x.Lhs[0])
			if n == "" || h.vars[n] != nil || c05aReserved[n] {
				return false, h.err("variable %s", n)
			}
			if c05aMapValueType(x.Rhs[0]) == "bool" {
				h.vars[n] = &c05aVal{kind: "keyset", expr: "[]"}
			} else {
				// a map built in a local and handed to a literal later (a Go map is a reference: the literal sees later puts)
				h.vars[n] = &c05aVal{kind: "valmap", expr: "[]"}
			}
			return false, nil
		}
		// cp := &checkpoint{...} / intInfo := &InterruptInfo{...}
		if x.Tok == token.DEFINE && len(x.Lhs) == 1 {
			v, err := h.literal(x.Rhs[0])
			if err != nil {
				return false, err
			}
			if v != nil {
				n := c05Ident(x.Lhs[0])
				if n == "" || h.vars[n] != nil {
					return false, h.err("variable %s", n)
				}
				if v.typ == "checkpoint" {
					if h.cpVar != "" {
						return false, h.err("two checkpoint literals")
					}
					h.cpVar = n
				} else {
					if h.infoVar != "" {
						return false, h.err("two InterruptInfo literals")
					}
					h.infoVar = n
				}
				h.vars[n] = v
				return false, nil
			}
		}
		path, args, ok := c05aCall(x.Rhs[0])
		if !ok {
			return false, h.err("assignment %s", c05aSrc(x.Rhs[0]))
		}
		cm := h.cmName()
		switch {
		case path == h.recvName+".resolveCompletedTasks" && len(x.Lhs) == 3 && len(args) == 4 && h.foldStage == 0 && cm != "" && c05Ident(args[3]) == cm:
			l := h.vars[c05Ident(args[1])]
			if l == nil || l.kind != "tasks" || c05Ident(args[2]) != h.paradigm && h.paradigm != "" {
				return false, h.err("resolveCompletedTasks(%s)", c05aSrc(args[1]))
			}
			h.foldArg = "outs_of (" + l.expr + ")"
			h.rcValues, h.rcControls = c05Ident(x.Lhs[0]), c05Ident(x.Lhs[1])
			h.foldStage = 1
			return false, nil
		case path == cm+".updateValues" && cm != "" && h.foldStage == 1 && len(args) == 2 && c05Ident(args[1]) == h.rcValues:
			h.foldStage = 2
			return false, nil
		case path == cm+".updateDependencies" && cm != "" && h.foldStage == 2 && len(args) == 2 && c05Ident(args[1]) == h.rcControls:
			h.foldStage = 3
			h.foldAt = len(h.lets)
			return false, nil
		case path == h.recvName+".checkPointer.convertCheckPoint" && len(args) == 2 && c05Ident(args[0]) == h.cpVar && h.cpVar != "" &&
			c05Ident(args[1]) == h.paradigm:
			h.tail = append(h.tail, "convertCheckPoint(cp,isStream)")
			return false, nil
		}
		return false, h.err("call %s", path)
	}
	return false, h.err("statement not recognised")
}

// tailFrom: [if isSubGraph { return &subGraphInterruptError{Info: i, CheckPoint: cp} } else if id != nil { set(ctx, *id, cp) ... }]
//           return &interruptError{Info: i}
func (h *c05aHandler) tailFrom(l []ast.Stmt) error {
	if len(h.tail) != 1 {
		return h.err("the checkpoint is not converted before it is handed on")
	}
	if h.foldStage != 0 && h.foldStage != 3 {
		return h.err("resolveCompletedTasks / updateValues / updateDependencies incomplete")
	}
	// `if a { return x }; if b { ... }; return y` is `if a { return x } else if b { ... }; return y`
	var flatElse ast.Stmt
	if len(l) == 3 {
		if f, ok := l[0].(*ast.IfStmt); ok && f.Else == nil && c05AlwaysReturns(f.Body.List) {
			if _, ok := l[1].(*ast.IfStmt); ok {
				flatElse = l[1]
				l = []ast.Stmt{l[0], l[2]}
			}
		}
	}
	if len(l) != 2 {
		return h.err("tail of %d statements", len(l))
	}
	ret, ok := l[1].(*ast.ReturnStmt)
	if !ok || len(ret.Results) != 1 || c05Squash(c05aSrc(ret.Results[0])) != "&interruptError{Info:"+h.infoVar+"}" {
		return h.err("last statement is not `return &interruptError{Info: %s}`", h.infoVar)
	}
	is, ok := l[0].(*ast.IfStmt)
	if !ok || is.Init != nil || (is.Else == nil) == (flatElse == nil) {
		return h.err("tail is not if / else if")
	}
	elseStmt := is.Else
	if flatElse != nil {
		elseStmt = flatElse
	}
	sub := h.vars[c05Ident(is.Cond)]
	if sub == nil || sub.kind != "bool" || c05Ident(is.Cond) == h.paradigm || len(is.Body.List) != 1 {
		return h.err("tail: first condition %s", c05aSrc(is.Cond))
	}
	r1, ok := is.Body.List[0].(*ast.ReturnStmt)
	want1 := "&subGraphInterruptError{Info:" + h.infoVar + ",CheckPoint:" + h.cpVar + ",}"
	want2 := "&subGraphInterruptError{Info:" + h.infoVar + ",CheckPoint:" + h.cpVar + "}"
	want3 := "&subGraphInterruptError{CheckPoint:" + h.cpVar + ",Info:" + h.infoVar + "}"
	if !ok || len(r1.Results) != 1 {
		return h.err("tail: nested branch")
	}
	if g := c05Squash(c05aSrc(r1.Results[0])); g != want1 && g != want2 && g != want3 {
		return h.err("tail: nested branch returns %s", g)
	}
	ei, ok := elseStmt.(*ast.IfStmt)
	if !ok || ei.Init != nil || ei.Else != nil {
		return h.err("tail: else branch")
	}
	be, ok := ei.Cond.(*ast.BinaryExpr)
	if !ok || be.Op != token.NEQ || !c05IsNil(be.Y) || h.vars[c05Ident(be.X)] == nil || h.vars[c05Ident(be.X)].kind != "strptr" {
		return h.err("tail: second condition %s", c05aSrc(ei.Cond))
	}
	idv := c05Ident(be.X)
	if len(ei.Body.List) != 2 || !c05aIsErrCheck(ei.Body.List[1]) {
		return h.err("tail: store branch")
	}
	as, ok := ei.Body.List[0].(*ast.AssignStmt)
	if !ok || len(as.Rhs) != 1 {
		return h.err("tail: store branch")
	}
	path, args, ok := c05aCall(as.Rhs[0])
	if !ok || path != h.recvName+".checkPointer.set" || len(args) != 3 || c05Squash(c05aSrc(args[1])) != "*"+idv || c05Ident(args[2]) != h.cpVar {
		return h.err("tail: store branch does not call checkPointer.set(ctx, *%s, %s)", idv, h.cpVar)
	}
	h.tail = append(h.tail, "isSubGraph=>subGraphInterruptError{Info,CheckPoint}", "checkPointID!=nil=>set(*checkPointID,cp)", "interruptError{Info}")
	h.dest = "if isSubGraph then DParent else if hasID then DStore else DNowhere"
	return nil
}

func c05aHandlerOf(fn *ast.FuncDecl, where string) (*c05aHandler, error) {
	h := &c05aHandler{where: where, vars: map[string]*c05aVal{}, foldAt: -1, recvName: c05Recv(fn)}
	if fn.Body == nil || h.recvName == "" {
		return nil, h.err("no body / receiver")
	}
	h.vars[h.recvName] = &c05aVal{kind: "recv"}
	var bools []string
	for _, fl := range fn.Type.Params.List {
		ts := c05aSrc(fl.Type)
		for _, n := range fl.Names {
			if c05aReserved[n.Name] && ts != "bool" && ts != "context.Context" && ts != "*string" {
				return nil, h.err("parameter name %s", n.Name)
			}
			switch ts {
			case "context.Context":
				h.vars[n.Name] = &c05aVal{kind: "ctx"}
			case "[]string":
				h.vars[n.Name] = &c05aVal{kind: "keys", expr: n.Name}
				h.binders = append(h.binders, "("+n.Name+" : list N)")
			case "[]*task":
				h.vars[n.Name] = &c05aVal{kind: "tasks", expr: n.Name}
				h.binders = append(h.binders, "("+n.Name+" : list (atask V))")
			case "map[string]channel":
				h.vars[n.Name] = &c05aVal{kind: "chans", expr: n.Name}
				h.binders = append(h.binders, "("+n.Name+" : CS)")
				h.chans = n.Name
			case "*channelManager":
				h.vars[n.Name] = &c05aVal{kind: "cm", expr: n.Name}
				h.binders = append(h.binders, "("+n.Name+"_channels : CS)")
				h.chans = n.Name + "_channels"
			case "map[string]*subGraphInterruptError":
				h.vars[n.Name] = &c05aVal{kind: "submap", expr: n.Name}
				h.binders = append(h.binders, "("+n.Name+" : list (N * (SCP * SINFO)))")
			case "bool":
				h.vars[n.Name] = &c05aVal{kind: "bool"}
				bools = append(bools, n.Name)
			case "*string":
				h.vars[n.Name] = &c05aVal{kind: "strptr"}
			default:
				return nil, h.err("parameter %s of type %s", n.Name, ts)
			}
		}
	}
	if h.chans == "" {
		return nil, h.err("no channel table among the parameters")
	}
	// the paradigm flag: second argument of convertCheckPoint
	ast.Inspect(fn.Body, func(n ast.Node) bool {
		if c, ok := n.(*ast.CallExpr); ok && strings.HasSuffix(c05Squash(c05aSrc(c.Fun)), ".convertCheckPoint") && len(c.Args) == 2 {
			h.paradigm = c05Ident(c.Args[1])
		}
		return true
	})
	if v := h.vars[h.paradigm]; v == nil || v.kind != "bool" {
		return nil, h.err("convertCheckPoint(cp, <bool parameter>) not found")
	}
	_ = bools
	for i, s := range fn.Body.List {
		all, err := h.stmt(s, fn.Body.List[i+1:])
		if err != nil {
			return nil, err
		}
		if all {
			break
		}
	}
	if h.dest == "" {
		return nil, h.err("no tail")
	}
	return h, nil
}

func (h *c05aHandler) field(rec, f, dflt string) string {
	v, ok := h.vars[rec].fields[f]
	if !ok {
		return dflt
	}
	if v == "@chans" {
		return h.chans
	}
	if strings.HasPrefix(v, "@set:") || strings.HasPrefix(v, "@map:") {
		return h.vars[v[5:]].expr
	}
	return v
}

// emit the Gallina definition
func (h *c05aHandler) emit(name string, withFold bool) (string, error) {
	if withFold != (h.foldStage == 3) {
		return "", h.err("fold of the other completed tasks: expected %v", withFold)
	}
	var b strings.Builder
	head := "Definition " + name + " (V CS GS SCP SINFO : Type) (val_is_nil : V -> bool) "
	if withFold {
		head += "(fold : CS -> list (N * V) -> res CS) (ph : bool -> V) (isStream : bool)\n    "
	}
	head += "(own_state : option GS) " + strings.Join(h.binders, " ") + "\n    : ares V CS GS SCP SINFO :=\n"
	b.WriteString(head)
	n := len(h.lets)
	if withFold {
		n = h.foldAt
	}
	for _, l := range h.lets[:n] {
		b.WriteString("  " + l + "\n")
	}
	ind := "  "
	if withFold {
		fmt.Fprintf(&b, "  match fold %s (%s) with\n  | Ok %s =>\n", h.chans, h.foldArg, h.chans)
		ind = "    "
		for _, l := range h.lets[n:] {
			b.WriteString(ind + l + "\n")
		}
	}
	cp, ii := h.cpVar, h.infoVar
	fmt.Fprintf(&b, "%sAInterrupted\n%s  (mk_ainfo (%s) (%s) (%s) (%s) (%s))\n", ind, ind,
		h.field(ii, "State", "None"), h.field(ii, "BeforeNodes", "[]"), h.field(ii, "AfterNodes", "[]"), h.field(ii, "RerunNodes", "[]"),
		h.field(ii, "SubGraphs", "[]"))
	fmt.Fprintf(&b, "%s  (mk_acp (%s)\n%s     (%s)\n%s     (%s) (%s)\n%s     (%s))", ind, h.field(cp, "Channels", "@none"), ind,
		h.field(cp, "Inputs", "[]"), ind, h.field(cp, "State", "None"), h.field(cp, "SkipPreHandler", "[]"), ind, h.field(cp, "SubGraphs", "[]"))
	if strings.Contains(b.String(), "@none") {
		return "", h.err("the checkpoint literal has no Channels")
	}
	if withFold {
		b.WriteString("\n  | r => AFailed (chan_err r)\n  end")
	}
	b.WriteString(".\n")
	return b.String(), nil
}

// ---------------------------------------------------------------- the call sites in runner.run

type c05aSites struct {
	plain, rerun string // method names
	recv         string
	tm, cm       string
	out          []string
	err          error
}

func c05aCopyEnv(e map[string]string) map[string]string {
	n := make(map[string]string, len(e))
	for k, v := range e {
		n[k] = v
	}
	return n
}

func (c *c05aSites) origin(e ast.Expr, env map[string]string) string {
	if c05IsNil(e) {
		return "nil"
	}
	if id := c05Ident(e); id != "" {
		if o, ok := env[id]; ok {
			return o
		}
		return "?"
	}
	if x, f, ok := c05Sel(e); ok && x == c.cm && f == "channels" {
		return "chans"
	}
	if u, ok := e.(*ast.UnaryExpr); ok && u.Op == token.AND {
		return c.origin(u.X, env)
	}
	if call, ok := e.(*ast.CallExpr); ok {
		switch c05Squash(c05aSrc(call.Fun)) {
		case "append":
			if len(call.Args) == 2 && call.Ellipsis != token.NoPos {
				a, b := c.origin(call.Args[0], env), c.origin(call.Args[1], env)
				if a == "nil" {
					return b
				}
				return a + "++" + b
			}
		case "getHitKey":
			if len(call.Args) == 2 && c05Squash(c05aSrc(call.Args[1])) == c.recv+".interruptBeforeNodes" {
				return "hits(" + c.origin(call.Args[0], env) + ")"
			}
		case c.tm + ".wait":
			return "wait"
		case c.tm + ".waitAll":
			return "waitAll"
		case c.recv + ".calculateNextTasks":
			if len(call.Args) >= 2 {
				if cl, ok := call.Args[1].(*ast.CompositeLit); ok && strings.Contains(c05Squash(c05aSrc(cl)), "nodeKey:START") {
					return "start"
				}
				return "next(" + c.origin(call.Args[1], env) + ")"
			}
		}
	}
	return "?"
}

func (c *c05aSites) call(call *ast.CallExpr, env map[string]string) {
	fn := c05Squash(c05aSrc(call.Fun))
	switch fn {
	case c.recv + "." + c.plain:
		if len(call.Args) != 8 {
			c.err = fmt.Errorf("run: %s called with %d arguments", c.plain, len(call.Args))
			return
		}
		names := []string{"before", "after", "next", "channels"}
		var row []string
		for i, n := range names {
			row = append(row, n+"="+c.origin(call.Args[i+1], env))
		}
		c.out = append(c.out, "(\""+c.plain+"\", "+c05StrList(row)+")")
	case c.recv + "." + c.rerun:
		if len(call.Args) != 11 {
			c.err = fmt.Errorf("run: %s called with %d arguments", c.rerun, len(call.Args))
			return
		}
		names := []string{"rerun", "subs", "after", "completed", "before", "pending"}
		var row []string
		for i, n := range names {
			row = append(row, n+"="+c.origin(call.Args[i+1], env))
		}
		c.out = append(c.out, "(\""+c.rerun+"\", "+c05StrList(row)+")")
	case c.recv + ".resolveInterruptCompletedTasks":
		if len(call.Args) != 4 {
			c.err = fmt.Errorf("run: resolveInterruptCompletedTasks called with %d arguments", len(call.Args))
			return
		}
		src := c.origin(call.Args[3], env)
		for i, role := range []string{"subs", "rerun", "after"} {
			a := call.Args[i]
			if u, ok := a.(*ast.UnaryExpr); ok && u.Op == token.AND {
				a = u.X
			}
			id := c05Ident(a)
			if id == "" {
				c.err = fmt.Errorf("run: resolveInterruptCompletedTasks argument %d", i)
				return
			}
			old := env[id]
			pre := role + "["
			switch {
			case old == "" || old == "nil":
				env[id] = pre + src + "]"
			case strings.HasPrefix(old, pre) && strings.HasSuffix(old, "]"):
				env[id] = old[:len(old)-1] + "," + src + "]"
			default:
				env[id] = "?"
			}
		}
	}
}

// walk the statements in source order; env: local -> origin
func (c *c05aSites) walk(l []ast.Stmt, env map[string]string) {
	for _, s := range l {
		if c.err != nil {
			return
		}
		switch x := s.(type) {
		case *ast.DeclStmt:
			if gd, ok := x.Decl.(*ast.GenDecl); ok && gd.Tok == token.VAR {
				for _, sp := range gd.Specs {
					vs := sp.(*ast.ValueSpec)
					for i, n := range vs.Names {
						if i < len(vs.Values) {
							c.exprCalls(vs.Values[i], env)
							env[n.Name] = c.origin(vs.Values[i], env)
						} else {
							env[n.Name] = "nil"
						}
					}
				}
			}
		case *ast.AssignStmt:
			for _, r := range x.Rhs {
				c.exprCalls(r, env)
			}
			if len(x.Rhs) == 1 && len(x.Lhs) >= 1 {
				if id := c05Ident(x.Lhs[0]); id != "" && id != "_" {
					o := c.origin(x.Rhs[0], env)
					if c05aIsMapMake(x.Rhs[0]) {
						o = "nil"
					}
					if o != "?" || env[id] != "" {
						env[id] = o
					}
				}
				for _, lh := range x.Lhs[1:] {
					if id := c05Ident(lh); id != "" && env[id] != "" {
						env[id] = "?"
					}
				}
			} else {
				for _, lh := range x.Lhs {
					if id := c05Ident(lh); id != "" && env[id] != "" {
						env[id] = "?"
					}
				}
			}
		case *ast.ExprStmt:
			c.exprCalls(x.X, env)
		case *ast.ReturnStmt:
			for _, r := range x.Results {
				c.exprCalls(r, env)
			}
		case *ast.IfStmt:
			inner := c05aCopyEnv(env)
			if x.Init != nil {
				c.walk([]ast.Stmt{x.Init}, inner)
			}
			c.exprCalls(x.Cond, inner)
			thenEnv := c05aCopyEnv(inner)
			c.walk(x.Body.List, thenEnv)
			var branches []map[string]string
			if !c05AlwaysReturns(x.Body.List) {
				branches = append(branches, thenEnv)
			}
			if x.Else != nil {
				elseEnv := c05aCopyEnv(inner)
				var el []ast.Stmt
				switch e := x.Else.(type) {
				case *ast.BlockStmt:
					el = e.List
				default:
					el = []ast.Stmt{e}
				}
				c.walk(el, elseEnv)
				if !c05AlwaysReturns(el) {
					branches = append(branches, elseEnv)
				}
			} else {
				branches = append(branches, inner)
			}
			// merge: a local known before the statement keeps its origin only if every surviving branch agrees
			for k := range env {
				v, first := "", true
				for _, b := range branches {
					if first {
						v, first = b[k], false
					} else if b[k] != v {
						v = "?"
					}
				}
				if !first {
					env[k] = v
				}
			}
		case *ast.ForStmt:
			inner := c05aCopyEnv(env)
			for k := range inner {
				inner[k] = "?"
			}
			c.walk(x.Body.List, inner)
		case *ast.RangeStmt:
			inner := c05aCopyEnv(env)
			c.walk(x.Body.List, inner)
		case *ast.BlockStmt:
			c.walk(x.List, env)
		case *ast.SelectStmt, *ast.DeferStmt:
			// cancellation test / callbacks: no handler call inside
		}
	}
}

// exprCalls: handler calls and resolveInterruptCompletedTasks calls inside an expression
func (c *c05aSites) exprCalls(e ast.Expr, env map[string]string) {
	ast.Inspect(e, func(n ast.Node) bool {
		if _, ok := n.(*ast.FuncLit); ok {
			return false
		}
		if call, ok := n.(*ast.CallExpr); ok {
			c.call(call, env)
		}
		return true
	})
}

func c05aCallSites(f *ast.File) (string, error) {
	fn := c05MethodOf(f, "runner", "run")
	if fn == nil || fn.Body == nil {
		return "", c05Err("(*runner).run", "not found")
	}
	c := &c05aSites{plain: "handleInterrupt", rerun: "handleInterruptWithSubGraphAndRerunNodes", recv: c05Recv(fn)}
	// tm := r.initTaskManager(...), cm, err := r.initChannelManager(...)
	ast.Inspect(fn.Body, func(n ast.Node) bool {
		if as, ok := n.(*ast.AssignStmt); ok && len(as.Rhs) == 1 && len(as.Lhs) >= 1 {
			if call, ok := as.Rhs[0].(*ast.CallExpr); ok {
				switch c05Squash(c05aSrc(call.Fun)) {
				case c.recv + ".initTaskManager":
					c.tm = c05Ident(as.Lhs[0])
				case c.recv + ".initChannelManager":
					c.cm = c05Ident(as.Lhs[0])
				}
			}
		}
		return true
	})
	if c.recv == "" || c.tm == "" || c.cm == "" {
		return "", c05Err("(*runner).run", "receiver / task manager / channel manager")
	}
	c.walk(fn.Body.List, map[string]string{})
	if c.err != nil {
		return "", c.err
	}
	if len(c.out) == 0 {
		return "", c05Err("(*runner).run", "no call of the interrupt handlers")
	}
	for _, r := range c.out {
		if strings.Contains(r, "?") {
			return "", c05Err("(*runner).run", "origin of an argument not recognised: %s", r)
		}
	}
	return "[" + strings.Join(c.out, ";\n   ") + "]", nil
}


// ---------------------------------------------------------------- resolveInterruptCompletedTasks

type c05aResolve struct {
	where   string
	recv    string
	tasks   string            // the []*task parameter
	idx     string            // index variable of `for i := 0; i < len(tasks); i++` / `for i := range tasks`
	tv      string            // value variable of `for _, t := range tasks`
	effOf   map[string]string // parameter -> effect constructor (by position)
	submap  string
	bound   map[string]string // Go local -> Gallina name (info)
	search  string            // loop variable of the search loop in scope
	subVars map[string]bool   // locals holding isSubGraphInterrupt(t.err)
	file    *ast.File
}

// c05aMemberHelper: the private method `name` of runner is `func (r *runner) name(k string) bool` searching r.<field> for k
// (for _, x := range r.field { if x == k { return true } } return false — also with an index loop)
func c05aMemberHelper(f *ast.File, name, field string) bool {
	fn := c05MethodOf(f, "runner", name)
	if fn == nil || fn.Body == nil || len(fn.Body.List) != 2 {
		return false
	}
	recv := c05Recv(fn)
	pn := c05ParamNames(fn)
	if recv == "" || len(pn) != 1 {
		return false
	}
	if ret, ok := fn.Body.List[1].(*ast.ReturnStmt); !ok || len(ret.Results) != 1 || c05Ident(ret.Results[0]) != "false" {
		return false
	}
	rs, ok := fn.Body.List[0].(*ast.RangeStmt)
	if !ok || c05Squash(c05aSrc(rs.X)) != recv+"."+field || len(rs.Body.List) != 1 {
		return false
	}
	elem := ""
	if rs.Value != nil {
		elem = c05Ident(rs.Value)
	} else if rs.Key != nil {
		elem = recv + "." + field + "[" + c05Ident(rs.Key) + "]"
	}
	is, ok := rs.Body.List[0].(*ast.IfStmt)
	if !ok || is.Init != nil || is.Else != nil || len(is.Body.List) != 1 || elem == "" {
		return false
	}
	if ret, ok := is.Body.List[0].(*ast.ReturnStmt); !ok || len(ret.Results) != 1 || c05Ident(ret.Results[0]) != "true" {
		return false
	}
	be, ok := is.Cond.(*ast.BinaryExpr)
	if !ok || be.Op != token.EQL {
		return false
	}
	a, b := c05Squash(c05aSrc(be.X)), c05Squash(c05aSrc(be.Y))
	return a == elem && b == pn[0] || b == elem && a == pn[0]
}

// c05aSwitchToIf: a tagless switch without fallthrough is an if / else-if chain
func c05aSwitchToIf(sw *ast.SwitchStmt) (ast.Stmt, bool) {
	if sw.Tag != nil || sw.Init != nil {
		return nil, false
	}
	var dflt []ast.Stmt
	hasDflt := false
	var clauses []*ast.CaseClause
	for _, s := range sw.Body.List {
		cc, ok := s.(*ast.CaseClause)
		if !ok {
			return nil, false
		}
		bad := false
		for _, b := range cc.Body {
			ast.Inspect(b, func(n ast.Node) bool {
				switch x := n.(type) {
				case *ast.BranchStmt:
					if x.Tok == token.FALLTHROUGH || x.Tok == token.BREAK {
						bad = true
					}
				case *ast.ForStmt, *ast.RangeStmt, *ast.SwitchStmt, *ast.SelectStmt:
					return false
				}
				return true
			})
		}
		if bad {
			return nil, false
		}
		if cc.List == nil {
			if hasDflt {
				return nil, false
			}
			hasDflt, dflt = true, cc.Body
			continue
		}
		if len(cc.List) != 1 {
			return nil, false
		}
		clauses = append(clauses, cc)
	}
	if len(clauses) == 0 {
		return nil, false
	}
	var tail ast.Stmt
	if hasDflt {
		tail = &ast.BlockStmt{List: dflt}
	}
	for i := len(clauses) - 1; i >= 0; i-- {
		tail = &ast.IfStmt{Cond: clauses[i].List[0], Body: &ast.BlockStmt{List: clauses[i].Body}, Else: tail}
	}
	return tail, true
}

func (c *c05aResolve) err(format string, a ...any) error { return c05Err(c.where, format, a...) }

// isTask: e denotes the current task
func (c *c05aResolve) isTask(e ast.Expr) bool {
	if id := c05Ident(e); id != "" {
		return id == c.tv && c.tv != ""
	}
	ix, ok := e.(*ast.IndexExpr)
	return ok && c.idx != "" && c05Ident(ix.X) == c.tasks && c05Ident(ix.Index) == c.idx
}

func (c *c05aResolve) taskField(e ast.Expr, f string) bool {
	se, ok := e.(*ast.SelectorExpr)
	return ok && se.Sel.Name == f && c.isTask(se.X)
}

// keyExpr: the task's node key, or the search variable (equal to it where it is in scope)
func (c *c05aResolve) isKeyExpr(e ast.Expr) bool {
	return c.taskField(e, "nodeKey") || (c.search != "" && c05Ident(e) == c.search)
}

func (c *c05aResolve) cond(e ast.Expr) (string, error) {
	switch x := e.(type) {
	case *ast.ParenExpr:
		return c.cond(x.X)
	case *ast.UnaryExpr:
		if x.Op == token.NOT {
			s, err := c.cond(x.X)
			return "negb (" + s + ")", err
		}
	case *ast.BinaryExpr:
		if (x.Op == token.NEQ || x.Op == token.EQL) && c05IsNil(x.Y) && c.taskField(x.X, "err") {
			if x.Op == token.NEQ {
				return "t_has_err x", nil
			}
			return "negb (t_has_err x)", nil
		}
	case *ast.CallExpr:
		if c05Squash(c05aSrc(x.Fun)) == "errors.Is" && len(x.Args) == 2 && c.taskField(x.Args[0], "err") && c05Ident(x.Args[1]) == "InterruptAndRerun" {
			return "t_is_rerun x", nil
		}
		// r.isInterruptAfterNode(t.nodeKey): a private membership test over r.interruptAfterNodes
		if rx, m, ok := c05Sel(x.Fun); ok && rx == c.recv && len(x.Args) == 1 && c.isKeyExpr(x.Args[0]) && c.file != nil &&
			c05aMemberHelper(c.file, m, "interruptAfterNodes") {
			return "asm_mem k after_cfg", nil
		}
	}
	return "", c.err("condition %s", c05aSrc(e))
}

func c05aEffList(effs []string) string { return "[" + strings.Join(effs, "; ") + "]" }

// exec: the statements of one iteration, as a decision tree over the task's result
func (c *c05aResolve) exec(stmts []ast.Stmt, effs []string, ind string) (string, error) {
	if len(stmts) == 0 {
		return "RStep " + c05aEffList(effs), nil
	}
	rest := stmts[1:]
	switch x := stmts[0].(type) {
	case *ast.EmptyStmt:
		old := c.search
		c.search = ""
		r, err := c.exec(rest, effs, ind)
		c.search = old
		return r, err
	case *ast.BranchStmt:
		if x.Tok == token.CONTINUE && x.Label == nil {
			return "RStep " + c05aEffList(effs), nil
		}
		return "", c.err("%s", x.Tok)
	case *ast.ReturnStmt:
		// return wrapGraphNodeError(t.nodeKey, t.err)
		if len(x.Results) == 1 {
			if call, ok := x.Results[0].(*ast.CallExpr); ok {
				for _, a := range call.Args {
					if c.taskField(a, "err") {
						return "RStop (t_err_code x)", nil
					}
				}
			}
			if c.taskField(x.Results[0], "err") {
				return "RStop (t_err_code x)", nil
			}
		}
		return "", c.err("return %s inside the loop", c05aSrc(x.Results[0]))
	case *ast.SwitchStmt:
		is, ok := c05aSwitchToIf(x)
		if !ok {
			return "", c.err("switch statement")
		}
		return c.exec(append([]ast.Stmt{is}, rest...), effs, ind)
	case *ast.BlockStmt:
		return c.exec(append(append([]ast.Stmt{}, x.List...), rest...), effs, ind)
	case *ast.AssignStmt:
		// sub := isSubGraphInterrupt(t.err)
		if x.Tok == token.DEFINE && len(x.Lhs) == 1 && len(x.Rhs) == 1 {
			if call, ok := x.Rhs[0].(*ast.CallExpr); ok && c05Ident(call.Fun) == "isSubGraphInterrupt" && len(call.Args) == 1 &&
				c.taskField(call.Args[0], "err") && c05Ident(x.Lhs[0]) != "" {
				c.subVars[c05Ident(x.Lhs[0])] = true
				return c.exec(rest, effs, ind)
			}
		}
		if len(x.Lhs) != 1 || len(x.Rhs) != 1 || x.Tok != token.ASSIGN {
			return "", c.err("assignment %s", c05aSrc(x.Lhs[0]))
		}
		// m[t.nodeKey] = info
		if ix, ok := x.Lhs[0].(*ast.IndexExpr); ok && c05Ident(ix.X) == c.submap && c.isKeyExpr(ix.Index) {
			g, ok := c.bound[c05Ident(x.Rhs[0])]
			if !ok {
				return "", c.err("value stored under the task's key: %s", c05aSrc(x.Rhs[0]))
			}
			return c.exec(rest, append(append([]string{}, effs...), c.effOf[c.submap]+" k "+g), ind)
		}
		// *p = append(*p, t.nodeKey)
		if st, ok := x.Lhs[0].(*ast.StarExpr); ok {
			p := c05Ident(st.X)
			call, ok := x.Rhs[0].(*ast.CallExpr)
			if ok && c.effOf[p] != "" && p != c.submap && c05Ident(call.Fun) == "append" && len(call.Args) == 2 && c05Squash(c05aSrc(call.Args[0])) == "*"+p &&
				c.isKeyExpr(call.Args[1]) {
				return c.exec(rest, append(append([]string{}, effs...), c.effOf[p]+" k"), ind)
			}
		}
		return "", c.err("assignment %s", c05aSrc(x.Lhs[0]))
	case *ast.RangeStmt:
		// for _, key := range r.interruptAfterNodes { if key == t.nodeKey { ...; break } }
		if c05Squash(c05aSrc(x.X)) != c.recv+".interruptAfterNodes" || c05Ident(x.Value) == "" || (x.Key != nil && c05Ident(x.Key) != "_") || len(x.Body.List) != 1 || c.search != "" {
			return "", c.err("inner loop over %s", c05aSrc(x.X))
		}
		is, ok := x.Body.List[0].(*ast.IfStmt)
		if !ok || is.Init != nil || is.Else != nil || len(is.Body.List) == 0 {
			return "", c.err("inner loop is not a search")
		}
		kv := c05Ident(x.Value)
		be, ok := is.Cond.(*ast.BinaryExpr)
		if !ok || be.Op != token.EQL || !(c05Ident(be.X) == kv && c.taskField(be.Y, "nodeKey") || c05Ident(be.Y) == kv && c.taskField(be.X, "nodeKey")) {
			return "", c.err("inner loop is not a search for the task's key")
		}
		last, ok := is.Body.List[len(is.Body.List)-1].(*ast.BranchStmt)
		if !ok || last.Tok != token.BREAK {
			return "", c.err("inner loop does not break at the first hit")
		}
		c.search = kv
		// the empty statement marks the end of the scope of the search variable
		th, err := c.exec(append(append(append([]ast.Stmt{}, is.Body.List[:len(is.Body.List)-1]...), &ast.EmptyStmt{}), rest...), effs, ind+"  ")
		c.search = ""
		if err != nil {
			return "", err
		}
		el, err := c.exec(rest, effs, ind+"  ")
		if err != nil {
			return "", err
		}
		return fmt.Sprintf("if asm_mem k after_cfg then %s\n%selse %s", th, ind, el), nil
	case *ast.IfStmt:
		var eb []ast.Stmt
		hasElse := x.Else != nil
		if hasElse {
			switch e := x.Else.(type) {
			case *ast.BlockStmt:
				eb = e.List
			default:
				eb = []ast.Stmt{e}
			}
		}
		if x.Init != nil {
			// info := isSubGraphInterrupt(t.err); info != nil
			as, ok := x.Init.(*ast.AssignStmt)
			if !ok || as.Tok != token.DEFINE || len(as.Lhs) != 1 || len(as.Rhs) != 1 {
				return "", c.err("if with initialiser")
			}
			call, ok := as.Rhs[0].(*ast.CallExpr)
			v := c05Ident(as.Lhs[0])
			be, ok2 := x.Cond.(*ast.BinaryExpr)
			if !ok || !ok2 || c05Ident(call.Fun) != "isSubGraphInterrupt" || len(call.Args) != 1 || !c.taskField(call.Args[0], "err") || v == "" ||
				be.Op != token.NEQ || c05Ident(be.X) != v || !c05IsNil(be.Y) {
				return "", c.err("if with an initialiser that is not `info := isSubGraphInterrupt(t.err); info != nil`")
			}
			c.bound[v] = "info"
			th, err := c.exec(append(append([]ast.Stmt{}, x.Body.List...), rest...), effs, ind+"  ")
			delete(c.bound, v)
			if err != nil {
				return "", err
			}
			el, err := c.exec(append(append([]ast.Stmt{}, eb...), rest...), effs, ind+"  ")
			if err != nil {
				return "", err
			}
			return fmt.Sprintf("match t_sub x with\n%s| Some info => %s\n%s| None => %s\n%send", ind, th, ind, el, ind), nil
		}
		// sub != nil / sub == nil, sub holding isSubGraphInterrupt(t.err)
		if be, ok := x.Cond.(*ast.BinaryExpr); ok && (be.Op == token.NEQ || be.Op == token.EQL) && c05IsNil(be.Y) && c.subVars[c05Ident(be.X)] {
			v := c05Ident(be.X)
			some, none := x.Body.List, eb
			if be.Op == token.EQL {
				some, none = eb, x.Body.List
			}
			c.bound[v] = "info"
			th, err := c.exec(append(append([]ast.Stmt{}, some...), rest...), effs, ind+"  ")
			delete(c.bound, v)
			if err != nil {
				return "", err
			}
			el, err := c.exec(append(append([]ast.Stmt{}, none...), rest...), effs, ind+"  ")
			if err != nil {
				return "", err
			}
			return fmt.Sprintf("match t_sub x with\n%s| Some info => %s\n%s| None => %s\n%send", ind, th, ind, el, ind), nil
		}
		cnd, err := c.cond(x.Cond)
		if err != nil {
			return "", err
		}
		th, err := c.exec(append(append([]ast.Stmt{}, x.Body.List...), rest...), effs, ind+"  ")
		if err != nil {
			return "", err
		}
		el, err := c.exec(append(append([]ast.Stmt{}, eb...), rest...), effs, ind+"  ")
		if err != nil {
			return "", err
		}
		return fmt.Sprintf("if %s then %s\n%selse %s", cnd, th, ind, el), nil
	}
	return "", c.err("statement not recognised")
}

func c05aResolveTasks(f *ast.File) (string, error) {
	where := "(*runner).resolveInterruptCompletedTasks"
	fn := c05MethodOf(f, "runner", "resolveInterruptCompletedTasks")
	if fn == nil || fn.Body == nil {
		return "", c05Err(where, "not found")
	}
	c := &c05aResolve{where: where, recv: c05Recv(fn), effOf: map[string]string{}, bound: map[string]string{}, subVars: map[string]bool{}, file: f}
	var names, typs []string
	for _, fl := range fn.Type.Params.List {
		for _, n := range fl.Names {
			names = append(names, n.Name)
			typs = append(typs, c05aSrc(fl.Type))
		}
	}
	if len(names) != 4 || typs[0] != "map[string]*subGraphInterruptError" || typs[1] != "*[]string" || typs[2] != "*[]string" || typs[3] != "[]*task" || c.recv == "" {
		return "", c.err("parameters %v", typs)
	}
	c.submap, c.tasks = names[0], names[3]
	c.effOf[names[0]], c.effOf[names[1]], c.effOf[names[2]] = "ESub", "ERerun", "EAfter"
	l := fn.Body.List
	if len(l) != 2 {
		return "", c.err("body of %d statements", len(l))
	}
	if ret, ok := l[1].(*ast.ReturnStmt); !ok || len(ret.Results) > 1 || (len(ret.Results) == 1 && !c05IsNil(ret.Results[0])) {
		return "", c.err("last statement is not `return nil`")
	}
	var body []ast.Stmt
	switch x := l[0].(type) {
	case *ast.ForStmt:
		// for i := 0; i < len(tasks); i++
		as, ok := x.Init.(*ast.AssignStmt)
		if !ok || as.Tok != token.DEFINE || len(as.Lhs) != 1 || c05aSrc(as.Rhs[0]) != "0" {
			return "", c.err("loop header")
		}
		c.idx = c05Ident(as.Lhs[0])
		if c05Squash(c05aSrc(x.Cond)) != c.idx+"<len("+c.tasks+")" {
			return "", c.err("loop condition %s", c05aSrc(x.Cond))
		}
		if inc, ok := x.Post.(*ast.IncDecStmt); !ok || inc.Tok != token.INC || c05Ident(inc.X) != c.idx {
			return "", c.err("loop increment")
		}
		body = x.Body.List
	case *ast.RangeStmt:
		if c05Ident(x.X) != c.tasks || x.Tok != token.DEFINE {
			return "", c.err("loop over %s", c05aSrc(x.X))
		}
		if x.Value != nil {
			c.tv = c05Ident(x.Value)
			if x.Key != nil && c05Ident(x.Key) != "_" {
				return "", c.err("loop variables")
			}
		} else {
			c.idx = c05Ident(x.Key)
		}
		body = x.Body.List
	default:
		return "", c.err("first statement is not the loop over the tasks")
	}
	tree, err := c.exec(body, nil, "  ")
	if err != nil {
		return "", err
	}
	return "Definition resolve_task (V SCP SINFO : Type) (after_cfg : list N) (t : N * @texec V SCP SINFO) : rstep SCP SINFO :=\n" +
		"  let k := fst t in let x := snd t in\n  " + tree + ".\n", nil
}

// ---------------------------------------------------------------- the extractor

func c05ExtractCpAsm(repo string) (string, string, error) {
	fset := token.NewFileSet()
	f, err := c05ParseGo(fset, repo, "compose", "graph_run.go")
	if err != nil {
		return "", "", err
	}
	pfn := c05MethodOf(f, "runner", "handleInterrupt")
	rfn := c05MethodOf(f, "runner", "handleInterruptWithSubGraphAndRerunNodes")
	if pfn == nil || rfn == nil {
		return "", "", fmt.Errorf("handleInterrupt / handleInterruptWithSubGraphAndRerunNodes not found")
	}
	ph, err := c05aHandlerOf(pfn, "(*runner).handleInterrupt")
	if err != nil {
		return "", "", err
	}
	rh, err := c05aHandlerOf(rfn, "(*runner).handleInterruptWithSubGraphAndRerunNodes")
	if err != nil {
		return "", "", err
	}
	pdef, err := ph.emit("plain_assembly", false)
	if err != nil {
		return "", "", err
	}
	rdef, err := rh.emit("rerun_assembly", true)
	if err != nil {
		return "", "", err
	}
	if ph.dest != rh.dest || strings.Join(ph.tail, "|") != strings.Join(rh.tail, "|") {
		return "", "", fmt.Errorf("the two handlers end differently")
	}
	sites, err := c05aCallSites(f)
	if err != nil {
		return "", "", err
	}
	rdefTask, err := c05aResolveTasks(f)
	if err != nil {
		return "", "", err
	}
	// deterministic: nothing here depends on map iteration order (vars are looked up, never ranged for output)
	_ = sort.Strings
	var b strings.Builder
	b.WriteString("(* Gen/CheckpointAssembly.v — GENERATED by tools/go2v (extractor \"cpasm\") from compose/graph_run.go\n" +
		"   (handleInterrupt, handleInterruptWithSubGraphAndRerunNodes, the calls of the two in run). Do not edit. *)\n" +
		"From Eino Require Import Base.Util Model.RunLoop Model.CheckpointAsmLib.\n" +
		"Local Open Scope N_scope.\n\n" +
		"Definition tie_available : bool := true.\n\n")
	b.WriteString(pdef + "\n" + rdef + "\n" + rdefTask + "\n")
	b.WriteString("Definition interrupt_dest (isSubGraph hasID : bool) : adest :=\n  " + ph.dest + ".\n\n")
	b.WriteString("Local Open Scope string_scope.\n")
	b.WriteString("Definition assembly_tail : list string := " + c05StrList(ph.tail) + ".\n\n")
	b.WriteString("Definition call_sites : list (string * list string) :=\n  " + sites + ".\n")
	return "CheckpointAssembly.v", b.String(), nil
}
