package main

// Extractor "c15_fieldmap" (property C15): compose/field_mapping.go, func fieldMap — the edge handler that takes the
// mapped values out of a predecessor's output (Invoke: every source path must resolve; Stream: a missing map key
// skips the mapping) — translated statement by statement. takeOne is used through its own translation
// (Gen/C15TakeOne.v).
//
// Fragment: `return func(input any) (result map[string]any, err error) { … }` whose body is
//     result = make(map[string]any, …)            var inputValue reflect.Value
//     loop: for _, mapping := range mappings { … }      (state: inputValue, result)
//     return result, nil
// with, inside the loop,
//     if C { … }                       C from  len(mapping.from) == 0   X.IsValid()   i < len(fromPath)-1   allowMapKeyNotFound
//                                              errors.As(err, &v) with `var v *errT` declared before   && || !
//     result[mapping.to] = X           X: input, taken
//     fromPath := splitFieldPath(mapping.from)
//     X = reflect.ValueOf(Y)           X = Y.Type()  (partial)
//     var ( a = b; t reflect.Type; c = d )
//     for i, path := range fromPath { … }          (state: pathInputValue, pathInputType, taken; leaves by return / continue loop)
//     taken, pathInputType, err = takeOne(pathInputValue, pathInputType, path) ; if err != nil { … every path leaves … }
//     return nil, err                  continue           continue loop
// Output: coq/Gen/C15FieldMap.v with
//   field_map (env : senv) (mappings : list mapping) (allowMapKeyNotFound : bool) (input : val) : option (gres fmap)
// Proofs/GenAgreeC15.v proves it equal to Model/FieldMap.v's field_map (started with the empty map).

import (
	"fmt"
	"go/ast"
	"go/token"
	"go/types"
	"strings"
)

func init() {
	register("c15_fieldmap", c15ExtractFieldMap)
	registerFallback("c15_fieldmap", "C15FieldMap.v", c15RefFieldMap)
}

type c15fmTr struct {
	input      string // the closure's parameter
	label      string // label of the outer loop
	elem       string // outer loop variable
	inInner    bool
	innerIdx   string
	innerEl    string
	innerOver  string
	rvVars     map[string]bool // reflect.Value variables
	otyVars    map[string]bool // reflect.Type variables (may be nil)
	valVars    map[string]bool // values (any)
	pathVars   map[string]bool
	errTypes   map[string]string // `var v *errT` -> errT
	innerTxt   string
	innerState []string
}

func (t *c15fmTr) valExpr(e ast.Expr) (string, bool) {
	if id, ok := e.(*ast.Ident); ok && t.valVars[id.Name] {
		return c15vn(id.Name), true
	}
	return "", false
}

func (t *c15fmTr) cond(e ast.Expr) (string, error) {
	s := c15sq(e)
	if t.elem != "" && s == "len("+t.elem+".from)==0" {
		return "(list_is_empty (fst " + c15vn(t.elem) + "))", nil
	}
	// (i is the index of the range loop over that slice: i != len-1 says the same as i < len-1, i >= len-1 as i == len-1)
	if t.inInner && (s == t.innerIdx+"<len("+t.innerOver+")-1" || s == t.innerIdx+"!=len("+t.innerOver+")-1") {
		return "(rt_more rest)", nil
	}
	if t.inInner && (s == t.innerIdx+"==len("+t.innerOver+")-1" || s == t.innerIdx+">=len("+t.innerOver+")-1") {
		return "(negb (rt_more rest))", nil
	}
	switch x := e.(type) {
	case *ast.ParenExpr:
		return t.cond(x.X)
	case *ast.Ident:
		if x.Name == "allowMapKeyNotFound" {
			return "allowMapKeyNotFound", nil
		}
	case *ast.UnaryExpr:
		if x.Op == token.NOT {
			c, err := t.cond(x.X)
			return "(negb " + c + ")", err
		}
	case *ast.BinaryExpr:
		if x.Op == token.LAND || x.Op == token.LOR {
			l, err := t.cond(x.X)
			if err != nil {
				return "", err
			}
			r, err := t.cond(x.Y)
			if err != nil {
				return "", err
			}
			op := "&&"
			if x.Op == token.LOR {
				op = "||"
			}
			return "(" + l + " " + op + " " + r + ")", nil
		}
	case *ast.CallExpr:
		if recv, m, ok := c15method0(x); ok && m == "IsValid" {
			if id, ok := recv.(*ast.Ident); ok && t.rvVars[id.Name] {
				return "(rv_is_valid " + c15vn(id.Name) + ")", nil
			}
		}
		// errors.As(err, &v)
		if c15sq(x.Fun) == "errors.As" && len(x.Args) == 2 && c15sq(x.Args[0]) == "err" {
			if ue, ok := x.Args[1].(*ast.UnaryExpr); ok && ue.Op == token.AND {
				if et, ok := t.errTypes[c15sq(ue.X)]; ok {
					return "(gerr_is " + c15coqStr(et) + " err)", nil
				}
			}
		}
	}
	return "", fmt.Errorf("condition %s is outside the translated fragment", types.ExprString(e))
}

func c15allLeave(l []ast.Stmt) bool {
	if len(l) == 0 {
		return false
	}
	switch x := l[len(l)-1].(type) {
	case *ast.ReturnStmt:
		return true
	case *ast.BranchStmt:
		return x.Tok == token.CONTINUE
	case *ast.IfStmt:
		if eb, ok := x.Else.(*ast.BlockStmt); ok {
			return c15allLeave(x.Body.List) && c15allLeave(eb.List)
		}
	}
	return false
}

func (t *c15fmTr) nextOuter() string {
	return "(mappings_loop env allowMapKeyNotFound " + c15vn(t.input) + " inputValue result rest_m)"
}

func (t *c15fmTr) nextInner() string {
	return "(from_path_loop env allowMapKeyNotFound " + strings.Join(t.innerState, " ") + " rest)"
}

func (t *c15fmTr) stmts(l []ast.Stmt, k func() string, ind string) (string, error) {
	if len(l) == 0 {
		return k(), nil
	}
	rest := func() (string, error) { return t.stmts(l[1:], k, ind) }
	switch x := l[0].(type) {
	case *ast.ReturnStmt:
		if len(x.Results) == 2 && c15isNil(x.Results[0]) && c15sq(x.Results[1]) == "err" {
			if t.inInner {
				return "Some (PReturn err)", nil
			}
			return "Some (GErr err)", nil
		}
		if len(x.Results) == 2 && c15sq(x.Results[0]) == "result" && c15isNil(x.Results[1]) && !t.inInner {
			return "Some (GOk result)", nil
		}
	case *ast.BranchStmt:
		if x.Tok == token.CONTINUE {
			switch {
			case x.Label == nil && t.inInner:
				return t.nextInner(), nil
			case x.Label == nil && t.elem != "":
				return t.nextOuter(), nil
			case x.Label != nil && x.Label.Name == t.label && t.inInner:
				return "Some PContinueOuter", nil
			case x.Label != nil && x.Label.Name == t.label && t.elem != "":
				return t.nextOuter(), nil
			}
		}
	case *ast.DeclStmt:
		gd, ok := x.Decl.(*ast.GenDecl)
		if !ok || gd.Tok != token.VAR {
			break
		}
		pre := ""
		for _, sp := range gd.Specs {
			vs := sp.(*ast.ValueSpec)
			if len(vs.Names) != 1 {
				return "", fmt.Errorf("var declaration of several names")
			}
			name := vs.Names[0].Name
			switch {
			case len(vs.Values) == 0 && vs.Type != nil && c15sq(vs.Type) == "reflect.Value":
				t.rvVars[name] = true
				pre += "let " + c15vn(name) + " : rv := None in\n" + ind
			case len(vs.Values) == 0 && vs.Type != nil && c15sq(vs.Type) == "reflect.Type":
				t.otyVars[name] = true
				pre += "let " + c15vn(name) + " : option ty := None in\n" + ind
			case len(vs.Values) == 0 && vs.Type != nil && strings.HasPrefix(c15sq(vs.Type), "*err"):
				t.errTypes[name] = strings.TrimPrefix(c15sq(vs.Type), "*")
			case len(vs.Values) == 1:
				src := c15sq(vs.Values[0])
				switch {
				case t.rvVars[src]:
					t.rvVars[name] = true
				case t.valVars[src]:
					t.valVars[name] = true
				default:
					return "", fmt.Errorf("var %s = %s", name, src)
				}
				pre += "let " + c15vn(name) + " := " + c15vn(src) + " in\n" + ind
			default:
				return "", fmt.Errorf("var declaration of %s", name)
			}
		}
		r, err := rest()
		return pre + r, err
	case *ast.AssignStmt:
		if len(x.Lhs) == 1 && len(x.Rhs) == 1 {
			lhs, rhs := c15sq(x.Lhs[0]), c15sq(x.Rhs[0])
			switch {
			case x.Tok == token.ASSIGN && lhs == "result" && strings.HasPrefix(rhs, "make(map[string]any"):
				r, err := rest()
				return "let result : fmap := [] in\n" + ind + r, err
			case x.Tok == token.ASSIGN && t.elem != "" && lhs == "result["+t.elem+".to]":
				if v, ok := t.valExpr(x.Rhs[0]); ok {
					r, err := rest()
					return "let result := fm_set (snd " + c15vn(t.elem) + ") " + v + " result in\n" + ind + r, err
				}
			case x.Tok == token.DEFINE && t.elem != "" && rhs == "splitFieldPath("+t.elem+".from)":
				t.pathVars[lhs] = true
				r, err := rest()
				return "let " + c15vn(lhs) + " := fst " + c15vn(t.elem) + " in\n" + ind + r, err
			case x.Tok == token.ASSIGN && t.rvVars[lhs]:
				if call, ok := x.Rhs[0].(*ast.CallExpr); ok && c15sq(call.Fun) == "reflect.ValueOf" && len(call.Args) == 1 {
					if v, ok := t.valExpr(call.Args[0]); ok {
						r, err := rest()
						return "let " + c15vn(lhs) + " := rv_of " + v + " in\n" + ind + r, err
					}
				}
			case x.Tok == token.ASSIGN && t.otyVars[lhs]:
				if recv, m, ok := c15method0(x.Rhs[0]); ok && m == "Type" {
					if id, ok := recv.(*ast.Ident); ok && t.rvVars[id.Name] {
						r, err := rest()
						return "match rv_type " + c15vn(id.Name) + " with\n" + ind + "| None => None\n" + ind + "| Some " + c15vn(lhs) + " =>\n" + ind + "    " + r + "\n" + ind + "end", err
					}
				}
			}
		}
		// taken, pathInputType, err = takeOne(pathInputValue, pathInputType, path) ; if err != nil { … }
		if x.Tok == token.ASSIGN && len(x.Lhs) == 3 && len(x.Rhs) == 1 && t.inInner && len(l) >= 2 {
			a, b, c := c15sq(x.Lhs[0]), c15sq(x.Lhs[1]), c15sq(x.Lhs[2])
			call, ok := x.Rhs[0].(*ast.CallExpr)
			is, ok2 := l[1].(*ast.IfStmt)
			if ok && ok2 && c == "err" && t.valVars[a] && t.otyVars[b] && c15sq(call.Fun) == "takeOne" && len(call.Args) == 3 &&
				t.rvVars[c15sq(call.Args[0])] && t.otyVars[c15sq(call.Args[1])] && c15sq(call.Args[2]) == t.innerEl &&
				is.Init == nil && is.Else == nil && c15sq(is.Cond) == "err!=nil" && c15allLeave(is.Body.List) {
				eb, err := t.stmts(is.Body.List, func() string { return "None" }, ind+"    ")
				if err != nil {
					return "", err
				}
				okb, err := t.stmts(l[2:], k, ind+"    ")
				if err != nil {
					return "", err
				}
				return "match C15TakeOne.take_one env " + c15vn(c15sq(call.Args[0])) + " " + c15vn(c15sq(call.Args[1])) + " " + c15vn(t.innerEl) + " with\n" + ind +
					"| None => None\n" + ind + "| Some (GErr err) =>\n" + ind + "    " + eb + "\n" + ind +
					"| Some (GOk (" + c15vn(a) + ", " + c15vn(b) + ")) =>\n" + ind + "    " + okb + "\n" + ind + "end", nil
			}
		}
	case *ast.RangeStmt:
		// the loop over the source path
		if t.elem != "" && !t.inInner && x.Tok == token.DEFINE && x.Key != nil && x.Value != nil && t.pathVars[c15sq(x.X)] {
			t.inInner, t.innerIdx, t.innerEl, t.innerOver = true, c15sq(x.Key), c15sq(x.Value), c15sq(x.X)
			// the state of the loop: the Value, the type and the value that the call of takeOne in its body reads and assigns
			t.innerState = nil
			var stV, stT, stX string
			ast.Inspect(x.Body, func(n ast.Node) bool {
				if as, ok := n.(*ast.AssignStmt); ok && len(as.Lhs) == 3 && len(as.Rhs) == 1 {
					if call, ok := as.Rhs[0].(*ast.CallExpr); ok && c15sq(call.Fun) == "takeOne" && len(call.Args) == 3 {
						stX, stT, stV = c15sq(as.Lhs[0]), c15sq(as.Lhs[1]), c15sq(call.Args[0])
					}
				}
				return true
			})
			if !t.rvVars[stV] || !t.otyVars[stT] || !t.valVars[stX] || c15reserved(stV) || c15reserved(stT) || c15reserved(stX) {
				return "", fmt.Errorf("the loop over the source path: state variables")
			}
			t.innerState = []string{c15vn(stV), c15vn(stT), c15vn(stX)}
			body, err := t.stmts(x.Body.List, t.nextInner, "      ")
			if err != nil {
				return "", err
			}
			t.inInner = false
			txt := "Fixpoint from_path_loop (env : senv) (allowMapKeyNotFound : bool) (" + t.innerState[0] + " : rv) (" + t.innerState[1] + " : option ty) (" + t.innerState[2] + " : val) (" +
				c15vn(t.innerOver) + " : path) {struct " + c15vn(t.innerOver) + "} : option path_outcome :=\n  match " + c15vn(t.innerOver) +
				" with\n  | [] => Some (PDone " + t.innerState[2] + ")\n  | " + c15vn(t.innerEl) + " :: rest =>\n      " + body + "\n  end.\n\n"
			if t.innerTxt != "" && t.innerTxt != txt {
				return "", fmt.Errorf("the inner loop is reached in two different scopes")
			}
			t.innerTxt = txt
			r, err := rest()
			if err != nil {
				return "", err
			}
			return "match from_path_loop env allowMapKeyNotFound " + strings.Join(t.innerState, " ") + " " + c15vn(t.innerOver) + " with\n" + ind +
				"| None => None\n" + ind + "| Some (PReturn err) => Some (GErr err)\n" + ind + "| Some PContinueOuter => " + t.nextOuter() + "\n" + ind +
				"| Some (PDone " + t.innerState[2] + ") =>\n" + ind + "    " + r + "\n" + ind + "end", nil
		}
	case *ast.IfStmt:
		if x.Init != nil {
			break
		}
		c, err := t.cond(x.Cond)
		if err != nil {
			return "", err
		}
		var aerr error
		after := func() string {
			s, e := t.stmts(l[1:], k, ind)
			if e != nil {
				aerr = e
			}
			return s
		}
		th, err := t.stmts(x.Body.List, after, ind+"    ")
		if err != nil {
			return "", err
		}
		el := ""
		switch e := x.Else.(type) {
		case nil:
			el = after()
		case *ast.BlockStmt:
			el, err = t.stmts(e.List, after, ind+"    ")
			if err != nil {
				return "", err
			}
		default:
			return "", fmt.Errorf("else if")
		}
		if aerr != nil {
			return "", aerr
		}
		return "if " + c + " then\n" + ind + "    " + th + "\n" + ind + "else\n" + ind + "    " + el, nil
	}
	return "", fmt.Errorf("statement outside the translated fragment: %s", c15stmtString(l[0]))
}

func c15ExtractFieldMap(repo string) (string, string, error) {
	fset := token.NewFileSet()
	f, err := c15parseGo(fset, repo, "compose", "field_mapping.go")
	if err != nil {
		return "", "", err
	}
	fn := c15topFunc(f, "fieldMap")
	if fn == nil || fn.Body == nil {
		return "", "", fmt.Errorf("func fieldMap not found")
	}
	var ps []string
	for _, fl := range fn.Type.Params.List {
		for _, n := range fl.Names {
			ps = append(ps, n.Name+" "+types.ExprString(fl.Type))
		}
	}
	if strings.Join(ps, ",") != "mappings []*FieldMapping,allowMapKeyNotFound bool" {
		return "", "", fmt.Errorf("fieldMap: parameters (%s)", strings.Join(ps, ", "))
	}
	if len(fn.Body.List) != 1 {
		return "", "", fmt.Errorf("fieldMap: the body is not a single return of the handler")
	}
	r, ok := fn.Body.List[0].(*ast.ReturnStmt)
	if !ok || len(r.Results) != 1 {
		return "", "", fmt.Errorf("fieldMap: the body is not a single return of the handler")
	}
	fl, ok := r.Results[0].(*ast.FuncLit)
	if !ok || fl.Type.Params == nil || len(fl.Type.Params.List) != 1 || len(fl.Type.Params.List[0].Names) != 1 {
		return "", "", fmt.Errorf("fieldMap: the handler is not a function literal of one parameter")
	}
	t := &c15fmTr{input: fl.Type.Params.List[0].Names[0].Name, rvVars: map[string]bool{}, otyVars: map[string]bool{}, valVars: map[string]bool{},
		pathVars: map[string]bool{}, errTypes: map[string]string{}}
	t.valVars[t.input] = true
	body := fl.Body.List
	li := -1
	for i, s := range body {
		if ls, ok := s.(*ast.LabeledStmt); ok {
			if _, ok := ls.Stmt.(*ast.RangeStmt); ok {
				if li >= 0 {
					return "", "", fmt.Errorf("fieldMap: more than one labelled loop")
				}
				li = i
			}
		} else if _, ok := s.(*ast.RangeStmt); ok {
			return "", "", fmt.Errorf("fieldMap: the loop over the mappings carries no label")
		}
	}
	if li < 0 {
		return "", "", fmt.Errorf("fieldMap: no labelled loop over the mappings")
	}
	ls := body[li].(*ast.LabeledStmt)
	rg := ls.Stmt.(*ast.RangeStmt)
	if c15sq(rg.X) != "mappings" || rg.Tok != token.DEFINE || rg.Value == nil || (rg.Key != nil && c15sq(rg.Key) != "_") {
		return "", "", fmt.Errorf("fieldMap: the loop is not `for _, mapping := range mappings`")
	}
	t.label = ls.Label.Name
	// before the loop (declares inputValue, result)
	pre, err := t.stmts(body[:li], func() string {
		return "mappings_loop env allowMapKeyNotFound " + c15vn(t.input) + " inputValue result mappings"
	}, "  ")
	if err != nil {
		return "", "", fmt.Errorf("fieldMap (before the loop): %v", err)
	}
	if !t.rvVars["inputValue"] {
		return "", "", fmt.Errorf("fieldMap: inputValue is not declared before the loop")
	}
	after, err := t.stmts(body[li+1:], func() string { return "None" }, "      ")
	if err != nil {
		return "", "", fmt.Errorf("fieldMap (after the loop): %v", err)
	}
	t.elem = c15sq(rg.Value)
	if c15reserved(t.elem) {
		return "", "", fmt.Errorf("fieldMap: loop variable %s", t.elem)
	}
	lbody, err := t.stmts(rg.Body.List, t.nextOuter, "      ")
	if err != nil {
		return "", "", fmt.Errorf("fieldMap (loop body): %v", err)
	}
	// streamFieldMap uses fieldMap(mappings, true)
	sfm := c15topFunc(f, "streamFieldMap")
	usesIt := false
	if sfm != nil && sfm.Body != nil {
		ast.Inspect(sfm.Body, func(n ast.Node) bool {
			if call, ok := n.(*ast.CallExpr); ok && c15sq(call.Fun) == "fieldMap" && len(call.Args) == 2 && c15sq(call.Args[0]) == "mappings" && c15sq(call.Args[1]) == "true" {
				usesIt = true
			}
			return true
		})
	}
	if !usesIt {
		return "", "", fmt.Errorf("streamFieldMap does not convert the chunks with fieldMap(mappings, true)")
	}
	var b strings.Builder
	b.WriteString("(* Gen/C15FieldMap.v — GENERATED by tools/go2v (extractor \"c15_fieldmap\") from compose/field_mapping.go\n")
	b.WriteString("   (func fieldMap, translated statement by statement; streamFieldMap = fieldMap(mappings, true) per chunk). Do not edit. *)\n")
	b.WriteString("From Eino Require Import Base.Util Base.FMUniverse Model.FieldMap Model.FieldMapGenLib.\nFrom Eino Require Gen.C15TakeOne.\n\n")
	b.WriteString("Definition tie_available : bool := true.\n\n")
	b.WriteString(t.innerTxt)
	b.WriteString("Fixpoint mappings_loop (env : senv) (allowMapKeyNotFound : bool) (" + c15vn(t.input) + " : val) (inputValue : rv) (result : fmap) (mappings : list mapping) {struct mappings} : option (gres fmap) :=\n")
	b.WriteString("  match mappings with\n  | [] =>\n      " + after + "\n  | " + c15vn(t.elem) + " :: rest_m =>\n      " + lbody + "\n  end.\n\n")
	b.WriteString("Definition field_map (env : senv) (mappings : list mapping) (allowMapKeyNotFound : bool) (" + c15vn(t.input) + " : val) : option (gres fmap) :=\n  " + pre + ".\n\n")
	b.WriteString("Definition stream_field_map_chunk (env : senv) (mappings : list mapping) (chunk : val) : option (gres fmap) :=\n  field_map env mappings true chunk.\n")
	return "C15FieldMap.v", b.String(), nil
}
