package main

// Extractor "looperrs" (property C13): the head of the main loop of (*runner).run in
// compose/graph_run.go — the guards that end the run with an error before the tasks of the step are
// submitted:
//
//	for step := 0; ; step++ {
//	    select { case <-ctx.Done(): return nil, <E1>; default: }     (or: if ctx.Err() != nil { return nil, <E1> })
//	    if !r.dag && step >= maxSteps { return nil, <E2> }
//	    ... tm.submit(nextTasks)
//
// Read in source order and rendered as a list of Model/ErrorsLoopLib.v guards: the cancellation guard with
// the error it builds as a function of ctx.Err() and context.Cause(ctx), the step-limit guard with its
// condition (trigger mode, loop counter, limit) and its error.  Error expressions are translated constructor
// by constructor (newGraphRunError, fmt.Errorf with one %w / without %w, errors.New, ErrExceedMaxSteps,
// context.Canceled, ctx.Err(), context.Cause(ctx)).  Any other statement in front of tm.submit, any other
// shape of a guard or of an error expression: not recognised (neutral file, tie unavailable).
// Output: coq/Gen/C13LoopErrors.v; agreement with the model: coq/Proofs/GenAgreeC13Loop.v.

import (
	"fmt"
	"go/ast"
	"go/parser"
	"go/token"
	"go/types"
	"path/filepath"
	"strconv"
	"strings"
)

const c13LoopNeutral = "(* Gen/C13LoopErrors.v — translator tie UNAVAILABLE: tools/go2v (extractor \"looperrs\") did not recognise the shape\n" +
	"   of the head of runner.run's main loop; the guards the model assumes are re-exported. *)\n" +
	"From Eino Require Import Base.Util Model.Errors Model.ErrorsLoopLib.\n\n" +
	"Definition loop_guards : list lguard := model_loop_guards.\n"

func init() {
	register("looperrs", c13ExtractLoop)
	registerFallback("looperrs", "C13LoopErrors.v", c13LoopNeutral)
}

type c13Loop struct {
	step   string // the loop counter
	ctx    string // the context variable (taken from the cancellation guard / the receiver's parameter list)
	limits map[string]bool
}

func c13lContainsSubmit(n ast.Node) bool {
	found := false
	ast.Inspect(n, func(x ast.Node) bool {
		if c, ok := x.(*ast.CallExpr); ok {
			if sel, ok := c.Fun.(*ast.SelectorExpr); ok && sel.Sel.Name == "submit" {
				found = true
			}
		}
		return !found
	})
	return found
}

// the single statement `return nil, E` of a guard's body
func c13lReturn(body []ast.Stmt, where string) (ast.Expr, error) {
	if len(body) != 1 {
		return nil, fmt.Errorf("%s: the body is not a single return", where)
	}
	r, ok := body[0].(*ast.ReturnStmt)
	if !ok || len(r.Results) != 2 {
		return nil, fmt.Errorf("%s: the body is not `return nil, <error>`", where)
	}
	if id, ok := r.Results[0].(*ast.Ident); !ok || id.Name != "nil" {
		return nil, fmt.Errorf("%s: the first result is not nil", where)
	}
	return r.Results[1], nil
}

// verbs of a format string, in order (%% skipped)
func c13lVerbs(format string) []byte {
	var vs []byte
	for i := 0; i < len(format); i++ {
		if format[i] != '%' {
			continue
		}
		i++
		for i < len(format) && strings.IndexByte("+-# 0123456789.[]*", format[i]) >= 0 {
			i++
		}
		if i < len(format) && format[i] != '%' {
			vs = append(vs, format[i])
		}
	}
	return vs
}

// an error-valued expression as a Gallina term over ctx_err / ctx_cause
func (l *c13Loop) errExpr(e ast.Expr) (string, error) {
	switch x := e.(type) {
	case *ast.ParenExpr:
		return l.errExpr(x.X)
	case *ast.Ident:
		if x.Name == "ErrExceedMaxSteps" {
			return "(Leaf id_exceed)", nil
		}
	case *ast.SelectorExpr:
		if types.ExprString(x) == "context.Canceled" {
			return "(Leaf id_canceled)", nil
		}
	case *ast.CallExpr:
		fun := types.ExprString(x.Fun)
		switch {
		case fun == "newGraphRunError" && len(x.Args) == 1:
			a, err := l.errExpr(x.Args[0])
			if err != nil {
				return "", err
			}
			return "(new_graph_run_error " + a + ")", nil
		case fun == "errors.New" && len(x.Args) == 1:
			return "(Leaf id_misc)", nil
		case fun == "fmt.Errorf" && len(x.Args) >= 1:
			lit, ok := x.Args[0].(*ast.BasicLit)
			if !ok || lit.Kind != token.STRING {
				return "", fmt.Errorf("fmt.Errorf with a format that is not a literal")
			}
			format, err := strconv.Unquote(lit.Value)
			if err != nil {
				return "", err
			}
			verbs := c13lVerbs(format)
			if len(verbs) != len(x.Args)-1 {
				return "", fmt.Errorf("fmt.Errorf: %d verbs for %d operands", len(verbs), len(x.Args)-1)
			}
			wrapped := ""
			for i, v := range verbs {
				if v != 'w' {
					continue
				}
				if wrapped != "" {
					return "", fmt.Errorf("fmt.Errorf with more than one %%w")
				}
				a, err := l.errExpr(x.Args[i+1])
				if err != nil {
					return "", err
				}
				wrapped = a
			}
			if wrapped == "" {
				return "(Leaf id_misc)", nil // the message only: nothing on the chain
			}
			return "(Wrapf " + wrapped + ")", nil
		case fun == l.ctx+".Err" && len(x.Args) == 0 && l.ctx != "":
			return "ctx_err", nil
		case fun == "context.Cause" && len(x.Args) == 1 && types.ExprString(x.Args[0]) == l.ctx && l.ctx != "":
			return "ctx_cause", nil
		}
	}
	return "", fmt.Errorf("error expression not recognised: %s", types.ExprString(e))
}

// a numeric operand of the limit test
func (l *c13Loop) numExpr(e ast.Expr) (string, error) {
	switch x := e.(type) {
	case *ast.ParenExpr:
		return l.numExpr(x.X)
	case *ast.BasicLit:
		if x.Kind == token.INT {
			if n, err := strconv.ParseUint(x.Value, 0, 32); err == nil {
				return fmt.Sprintf("%d%%nat", n), nil
			}
		}
	case *ast.Ident:
		if x.Name == l.step {
			return "step", nil
		}
		if l.limits[x.Name] {
			return "maxSteps", nil
		}
	case *ast.SelectorExpr:
		if x.Sel.Name == "maxRunSteps" {
			return "maxSteps", nil
		}
	case *ast.BinaryExpr:
		if x.Op == token.ADD {
			a, err := l.numExpr(x.X)
			if err != nil {
				return "", err
			}
			b, err := l.numExpr(x.Y)
			if err != nil {
				return "", err
			}
			return "(Nat.add " + a + " " + b + ")", nil
		}
	}
	return "", fmt.Errorf("operand of the limit test not recognised: %s", types.ExprString(e))
}

func c13lIsBoolLit(e ast.Expr, name string) bool {
	id, ok := e.(*ast.Ident)
	return ok && id.Name == name
}

// the condition of the limit guard as a Gallina bool over dag / step / maxSteps
func (l *c13Loop) condExpr(e ast.Expr) (string, error) {
	switch x := e.(type) {
	case *ast.ParenExpr:
		return l.condExpr(x.X)
	case *ast.UnaryExpr:
		if x.Op == token.NOT {
			a, err := l.condExpr(x.X)
			if err != nil {
				return "", err
			}
			return "(negb " + a + ")", nil
		}
	case *ast.SelectorExpr:
		if x.Sel.Name == "dag" {
			return "dag", nil
		}
	case *ast.BinaryExpr:
		switch x.Op {
		case token.LAND, token.LOR:
			a, err := l.condExpr(x.X)
			if err != nil {
				return "", err
			}
			b, err := l.condExpr(x.Y)
			if err != nil {
				return "", err
			}
			if x.Op == token.LAND {
				return "(" + a + " && " + b + ")", nil
			}
			return "(" + a + " || " + b + ")", nil
		case token.EQL, token.NEQ:
			// b == false / b == true / b != true / b != false
			for _, p := range [][2]ast.Expr{{x.X, x.Y}, {x.Y, x.X}} {
				if c13lIsBoolLit(p[1], "true") || c13lIsBoolLit(p[1], "false") {
					a, err := l.condExpr(p[0])
					if err != nil {
						return "", err
					}
					if c13lIsBoolLit(p[1], "true") == (x.Op == token.EQL) {
						return a, nil
					}
					return "(negb " + a + ")", nil
				}
			}
			fallthrough
		case token.GEQ, token.GTR, token.LEQ, token.LSS:
			a, err := l.numExpr(x.X)
			if err != nil {
				return "", err
			}
			b, err := l.numExpr(x.Y)
			if err != nil {
				return "", err
			}
			switch x.Op {
			case token.GEQ:
				return "(Nat.leb " + b + " " + a + ")", nil
			case token.GTR:
				return "(Nat.ltb " + b + " " + a + ")", nil
			case token.LEQ:
				return "(Nat.leb " + a + " " + b + ")", nil
			case token.LSS:
				return "(Nat.ltb " + a + " " + b + ")", nil
			case token.EQL:
				return "(Nat.eqb " + a + " " + b + ")", nil
			default:
				return "(negb (Nat.eqb " + a + " " + b + "))", nil
			}
		}
	}
	return "", fmt.Errorf("condition of the limit test not recognised: %s", types.ExprString(e))
}

// `case <-X.Done():`  — the name X
func c13lDoneRecv(s ast.Stmt) (string, bool) {
	es, ok := s.(*ast.ExprStmt)
	if !ok {
		return "", false
	}
	u, ok := es.X.(*ast.UnaryExpr)
	if !ok || u.Op != token.ARROW {
		return "", false
	}
	c, ok := u.X.(*ast.CallExpr)
	if !ok || len(c.Args) != 0 {
		return "", false
	}
	sel, ok := c.Fun.(*ast.SelectorExpr)
	if !ok || sel.Sel.Name != "Done" {
		return "", false
	}
	id, ok := sel.X.(*ast.Ident)
	if !ok {
		return "", false
	}
	return id.Name, true
}

// `X.Err() != nil`  — the name X
func c13lErrNotNil(e ast.Expr) (string, bool) {
	if p, ok := e.(*ast.ParenExpr); ok {
		return c13lErrNotNil(p.X)
	}
	b, ok := e.(*ast.BinaryExpr)
	if !ok || b.Op != token.NEQ {
		return "", false
	}
	for _, p := range [][2]ast.Expr{{b.X, b.Y}, {b.Y, b.X}} {
		if !c13lIsBoolLit(p[1], "nil") {
			continue
		}
		c, ok := p[0].(*ast.CallExpr)
		if !ok || len(c.Args) != 0 {
			continue
		}
		sel, ok := c.Fun.(*ast.SelectorExpr)
		if !ok || sel.Sel.Name != "Err" {
			continue
		}
		if id, ok := sel.X.(*ast.Ident); ok {
			return id.Name, true
		}
	}
	return "", false
}

func (l *c13Loop) cancelGuard(ctxName string, body []ast.Stmt) (string, error) {
	l.ctx = ctxName
	e, err := c13lReturn(body, "the cancellation guard")
	if err != nil {
		return "", err
	}
	t, err := l.errExpr(e)
	if err != nil {
		return "", err
	}
	return "LCancel (fun ctx_err ctx_cause => " + t + ")", nil
}

func c13ExtractLoop(repo string) (string, string, error) {
	fset := token.NewFileSet()
	f, err := parser.ParseFile(fset, filepath.Join(repo, "compose", "graph_run.go"), nil, 0)
	if err != nil {
		return "", "", err
	}
	var run *ast.FuncDecl
	for _, d := range f.Decls {
		fn, ok := d.(*ast.FuncDecl)
		if !ok || fn.Recv == nil || fn.Name.Name != "run" || fn.Body == nil || len(fn.Recv.List) != 1 {
			continue
		}
		t := fn.Recv.List[0].Type
		if st, ok := t.(*ast.StarExpr); ok {
			t = st.X
		}
		if id, ok := t.(*ast.Ident); ok && id.Name == "runner" {
			run = fn
		}
	}
	if run == nil {
		return "", "", fmt.Errorf("(*runner).run not found")
	}
	l := &c13Loop{limits: map[string]bool{}}
	// the variables that hold the step limit: defined from an expression that mentions maxRunSteps
	ast.Inspect(run.Body, func(n ast.Node) bool {
		as, ok := n.(*ast.AssignStmt)
		if !ok || len(as.Lhs) != 1 || len(as.Rhs) != 1 {
			return true
		}
		if id, ok := as.Lhs[0].(*ast.Ident); ok && strings.Contains(types.ExprString(as.Rhs[0]), "maxRunSteps") {
			l.limits[id.Name] = true
		}
		return true
	})
	// the main loop: `for X := 0; ; X++` whose body submits tasks
	var loop *ast.ForStmt
	for _, s := range run.Body.List {
		fs, ok := s.(*ast.ForStmt)
		if !ok || !c13lContainsSubmit(fs.Body) {
			continue
		}
		if loop != nil {
			return "", "", fmt.Errorf("two loops submit tasks")
		}
		loop = fs
	}
	if loop == nil {
		return "", "", fmt.Errorf("the main loop of runner.run was not found")
	}
	init, ok := loop.Init.(*ast.AssignStmt)
	if !ok || init.Tok != token.DEFINE || len(init.Lhs) != 1 || len(init.Rhs) != 1 || types.ExprString(init.Rhs[0]) != "0" || loop.Cond != nil {
		return "", "", fmt.Errorf("the main loop is not `for step := 0; ; step++`")
	}
	l.step = types.ExprString(init.Lhs[0])
	if post, ok := loop.Post.(*ast.IncDecStmt); !ok || post.Tok != token.INC || types.ExprString(post.X) != l.step {
		return "", "", fmt.Errorf("the main loop is not `for step := 0; ; step++`")
	}
	var guards []string
	seenSubmit := false
	for _, s := range loop.Body.List {
		if c13lContainsSubmit(s) {
			seenSubmit = true
			break
		}
		switch x := s.(type) {
		case *ast.SelectStmt:
			// select { case <-ctx.Done(): return nil, E; default: }
			if len(x.Body.List) != 2 {
				return "", "", fmt.Errorf("a select with %d clauses in the head of the loop", len(x.Body.List))
			}
			var g string
			haveDefault := false
			for _, cl := range x.Body.List {
				cc := cl.(*ast.CommClause)
				if cc.Comm == nil {
					if len(cc.Body) != 0 {
						return "", "", fmt.Errorf("the default clause of the cancellation test is not empty")
					}
					haveDefault = true
					continue
				}
				name, ok := c13lDoneRecv(cc.Comm)
				if !ok {
					return "", "", fmt.Errorf("a select clause that is not `case <-ctx.Done()`")
				}
				var err error
				if g, err = l.cancelGuard(name, cc.Body); err != nil {
					return "", "", err
				}
			}
			if !haveDefault || g == "" {
				return "", "", fmt.Errorf("the cancellation test is not `select { case <-ctx.Done(): ...; default: }`")
			}
			guards = append(guards, g)
		case *ast.IfStmt:
			if x.Init != nil || x.Else != nil {
				return "", "", fmt.Errorf("a guard with an init statement or an else branch")
			}
			if name, ok := c13lErrNotNil(x.Cond); ok {
				g, err := l.cancelGuard(name, x.Body.List)
				if err != nil {
					return "", "", err
				}
				guards = append(guards, g)
				continue
			}
			cond, err := l.condExpr(x.Cond)
			if err != nil {
				return "", "", err
			}
			e, err := c13lReturn(x.Body.List, "the step-limit guard")
			if err != nil {
				return "", "", err
			}
			saved := l.ctx
			l.ctx = "" // the error of the limit guard is a constant: no ctx.Err() / context.Cause there
			t, err := l.errExpr(e)
			l.ctx = saved
			if err != nil {
				return "", "", err
			}
			guards = append(guards, "LLimit (fun dag step maxSteps => "+cond+") "+t)
		default:
			return "", "", fmt.Errorf("a statement in the head of the loop that is not a guard: %T", s)
		}
	}
	if !seenSubmit {
		return "", "", fmt.Errorf("tm.submit is not a statement of the loop body")
	}
	var b strings.Builder
	b.WriteString("(* Gen/C13LoopErrors.v — GENERATED by tools/go2v (extractor \"looperrs\") from compose/graph_run.go\n")
	b.WriteString("   (runner.run: the guards at the head of the main loop, in source order, with the errors they build). Do not edit. *)\n")
	b.WriteString("From Eino Require Import Base.Util Model.Errors Model.ErrorsLoopLib.\n\n")
	b.WriteString("Definition loop_guards : list lguard :=\n  [ " + strings.Join(guards, ";\n    ") + " ].\n")
	return "C13LoopErrors.v", b.String(), nil
}
