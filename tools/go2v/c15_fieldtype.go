package main

// Extractor "c15_fieldtype" (property C15): compose/field_mapping.go, func extractFieldType (and its wrapper
// checkAndExtractFieldType), translated statement by statement into a Gallina function over the type universe
// of Base/FMUniverse.v and the reflect vocabulary of Model/FieldMapGenLib.v.
//
// The translator is a small compiler for the fragment the function is written in: one loop
// `for i, field := range paths` over the path, whose body tests and updates ONE type-valued variable and leaves
// by `return`, `continue` or by falling off its end. Recognised statements:
//     if C { … } [else { … }]        C built with && || ! ( ) from
//           X.Kind() == reflect.K   X.Kind() != reflect.K            (X a type expression)
//           X.Key() != strType      X.Key() == strType               (partial: X must be a map type)
//           X.Elem().Kind() == reflect.K                              (partial)
//           ok  !ok  target  f.IsExported()                           (bool variables / parameters, struct fields)
//           i < len(paths)-1        i == len(paths)-1
//           len(paths) == 1 && len(paths[0]) == 0                     (the Go spelling of "the whole value")
//     X = T                            T: a type variable, T.Elem() (partial), f.Type
//     f, ok := X.FieldByName(field)    (partial: X must be a struct type)
//     for j := 1; j < len(f.Index); j++ { if ef := X.FieldByIndex(f.Index[:j]); C(ef) { return … } }
//                                      = "some embedded field on the way to a promoted field satisfies C"
//     return T, b, nil                 = SOk T b         return nil, b, fmt.Errorf(…) = SErr
//     continue
// A partial operation becomes a match on an option; the generated function has type `option sres`
// (None = the Go code would panic), and Proofs/GenAgreeC15.v proves it equal to `Some (extract_ty …)`.
// Any other statement or expression: "source shape not recognised" (translator tie unavailable).
//
// Output: coq/Gen/C15FieldType.v with
//   extract_field_type (env : senv) (paths : path) (typ : ty) (target : bool) : option sres
//   check_and_extract_field_type (env : senv) (paths : path) (typ : ty) : option sres

import (
	"fmt"
	"go/ast"
	"go/parser"
	"go/token"
	"go/types"
	"path/filepath"
	"strings"
)

func init() {
	register("c15_fieldtype", c15ExtractFieldType)
	registerFallback("c15_fieldtype", "C15FieldType.v", c15RefFieldType)
}

type c15ftTr struct {
	paths   string          // the path parameter
	idx     string          // loop index variable
	field   string          // loop element variable
	tyVars  map[string]bool // type-valued variables in scope
	boolVar map[string]bool
	sfVars  map[string]bool // reflect.StructField variables
	efVars  map[string]bool // embedded-field variables (inside the chain loop)
	inLoop  bool
}

// names the generated code binds itself
func c15reserved(s string) bool {
	switch s {
	case "env", "pe", "rest", "rest_paths", "root", "canon", "field", "found__", "sf__", "pf__", "typ", "extracted", "target", "paths", "canonical":
		return true
	}
	return false
}

func c15squash(s string) string { return strings.Join(strings.Fields(s), "") }

func c15sq(e ast.Expr) string { return c15squash(types.ExprString(e)) }

func c15coqStr(s string) string { return `"` + strings.ReplaceAll(s, `"`, `""`) + `"%string` }

func c15isNil(e ast.Expr) bool {
	id, ok := e.(*ast.Ident)
	return ok && id.Name == "nil"
}

// reflect.K -> K
func c15reflectKind(e ast.Expr) (string, bool) {
	sel, ok := e.(*ast.SelectorExpr)
	if !ok {
		return "", false
	}
	if id, ok := sel.X.(*ast.Ident); !ok || id.Name != "reflect" {
		return "", false
	}
	return sel.Sel.Name, true
}

func c15parseGo(fset *token.FileSet, repo string, rel ...string) (*ast.File, error) {
	f, err := parser.ParseFile(fset, filepath.Join(append([]string{repo}, rel...)...), nil, 0)
	if err != nil {
		return nil, err
	}
	// behaviour-preserving rewrites are undone before the translation (c15_normalize.go); should the normaliser
	// fail on a shape it does not expect, the file is taken as it is
	if !c15TryNormalize(f) {
		return parser.ParseFile(fset, filepath.Join(append([]string{repo}, rel...)...), nil, 0)
	}
	return f, nil
}

func c15TryNormalize(f *ast.File) (ok bool) {
	defer func() {
		if recover() != nil {
			ok = false
		}
	}()
	c15Normalize(f)
	return true
}

func c15topFunc(f *ast.File, name string) *ast.FuncDecl {
	for _, d := range f.Decls {
		if fn, ok := d.(*ast.FuncDecl); ok && fn.Recv == nil && fn.Name.Name == name {
			return fn
		}
	}
	return nil
}

// method of a named receiver type (value or pointer receiver)
func c15method(f *ast.File, recvType, name string) *ast.FuncDecl {
	for _, d := range f.Decls {
		fn, ok := d.(*ast.FuncDecl)
		if !ok || fn.Recv == nil || fn.Name.Name != name || len(fn.Recv.List) != 1 {
			continue
		}
		if strings.TrimPrefix(types.ExprString(fn.Recv.List[0].Type), "*") == recvType {
			return fn
		}
	}
	return nil
}

// a type-valued expression without partial operations
func (t *c15ftTr) tyExpr(e ast.Expr) (string, bool) {
	switch x := e.(type) {
	case *ast.Ident:
		if t.tyVars[x.Name] {
			return x.Name, true
		}
	case *ast.SelectorExpr:
		if id, ok := x.X.(*ast.Ident); ok && x.Sel.Name == "Type" {
			if t.sfVars[id.Name] {
				return "(sf_type " + id.Name + ")", true
			}
			if t.efVars[id.Name] {
				return "(ef_type " + id.Name + ")", true
			}
		}
	}
	return "", false
}

// X.M() with no arguments -> X, M
func c15method0(e ast.Expr) (ast.Expr, string, bool) {
	call, ok := e.(*ast.CallExpr)
	if !ok || len(call.Args) != 0 {
		return nil, "", false
	}
	sel, ok := call.Fun.(*ast.SelectorExpr)
	if !ok {
		return nil, "", false
	}
	return sel.X, sel.Sel.Name, true
}

// condition -> (Gallina bool expression, "" ) or (Gallina option bool expression, "partial")
func (t *c15ftTr) cond(e ast.Expr) (string, bool, error) {
	if c15sq(e) == "len("+t.paths+")==1&&len("+t.paths+"[0])==0" {
		return "(rt_single_empty_name " + t.paths + ")", false, nil
	}
	switch x := e.(type) {
	case *ast.ParenExpr:
		return t.cond(x.X)
	case *ast.Ident:
		if t.boolVar[x.Name] {
			return x.Name, false, nil
		}
	case *ast.UnaryExpr:
		if x.Op == token.NOT {
			s, partial, err := t.cond(x.X)
			if err != nil {
				return "", false, err
			}
			if partial {
				return "(option_map negb " + s + ")", true, nil
			}
			return "(negb " + s + ")", false, nil
		}
	case *ast.CallExpr:
		if recv, m, ok := c15method0(x); ok && m == "IsExported" {
			if id, ok := recv.(*ast.Ident); ok {
				if t.sfVars[id.Name] {
					return "(sf_exported " + id.Name + ")", false, nil
				}
				if t.efVars[id.Name] {
					return "(ef_exported " + id.Name + ")", false, nil
				}
			}
		}
	case *ast.BinaryExpr:
		switch x.Op {
		case token.LAND, token.LOR:
			l, lp, err := t.cond(x.X)
			if err != nil {
				return "", false, err
			}
			r, rp, err := t.cond(x.Y)
			if err != nil {
				return "", false, err
			}
			if lp || rp {
				return "", false, fmt.Errorf("a partial reflect operation inside && / ||: %s", types.ExprString(e))
			}
			op := "&&"
			if x.Op == token.LOR {
				op = "||"
			}
			return "(" + l + " " + op + " " + r + ")", false, nil
		case token.LSS, token.EQL, token.NEQ, token.GEQ:
			// i < len(paths)-1 , i == len(paths)-1 (i is the index of the range loop over paths: != says the same as <,
			// >= the same as ==)
			if t.inLoop && c15sq(x.X) == t.idx && c15sq(x.Y) == "len("+t.paths+")-1" {
				switch x.Op {
				case token.LSS, token.NEQ:
					return "(rt_more rest)", false, nil
				case token.EQL, token.GEQ:
					return "(negb (rt_more rest))", false, nil
				}
			}
			if x.Op == token.LSS || x.Op == token.GEQ {
				break
			}
			wrap := func(s string, partial bool) string {
				if x.Op == token.NEQ {
					if partial {
						return "(option_map negb " + s + ")"
					}
					return "(negb " + s + ")"
				}
				return s
			}
			// X.Kind() == reflect.K ; X.Elem().Kind() == reflect.K
			for _, pr := range [][2]ast.Expr{{x.X, x.Y}, {x.Y, x.X}} {
				k, ok := c15reflectKind(pr[1])
				if !ok {
					continue
				}
				recv, m, ok := c15method0(pr[0])
				if !ok || m != "Kind" {
					continue
				}
				if ty, ok := t.tyExpr(recv); ok {
					return wrap("(rt_kind_is "+c15coqStr(k)+" "+ty+")", false), false, nil
				}
				if r2, m2, ok := c15method0(recv); ok && m2 == "Elem" {
					if ty, ok := t.tyExpr(r2); ok {
						return wrap("(rt_elem_kind_is "+c15coqStr(k)+" "+ty+")", true), true, nil
					}
				}
			}
			// X.Key() == strType
			for _, pr := range [][2]ast.Expr{{x.X, x.Y}, {x.Y, x.X}} {
				if id, ok := pr[1].(*ast.Ident); !ok || id.Name != "strType" {
					continue
				}
				if recv, m, ok := c15method0(pr[0]); ok && m == "Key" {
					if ty, ok := t.tyExpr(recv); ok {
						return wrap("(rt_key_is_string "+ty+")", true), true, nil
					}
				}
			}
		}
	}
	return "", false, fmt.Errorf("condition %s is outside the translated fragment", types.ExprString(e))
}

// does every path through the statement list end in return / continue
func c15terminates(l []ast.Stmt) bool {
	if len(l) == 0 {
		return false
	}
	switch x := l[len(l)-1].(type) {
	case *ast.ReturnStmt:
		return true
	case *ast.BranchStmt:
		return x.Tok == token.CONTINUE
	case *ast.IfStmt:
		if x.Else == nil {
			return false
		}
		eb, ok := x.Else.(*ast.BlockStmt)
		return ok && c15terminates(x.Body.List) && c15terminates(eb.List)
	}
	return false
}

func (t *c15ftTr) ret(r *ast.ReturnStmt) (string, error) {
	if len(r.Results) != 3 {
		return "", fmt.Errorf("return with %d results", len(r.Results))
	}
	if c15isNil(r.Results[2]) {
		ty, ok := t.tyExpr(r.Results[0])
		if !ok {
			return "", fmt.Errorf("returned type %s is outside the translated fragment", types.ExprString(r.Results[0]))
		}
		b, ok := r.Results[1].(*ast.Ident)
		if !ok || (b.Name != "true" && b.Name != "false") {
			return "", fmt.Errorf("returned flag %s is not a constant", types.ExprString(r.Results[1]))
		}
		return "Some (SOk " + ty + " " + b.Name + ")", nil
	}
	if call, ok := r.Results[2].(*ast.CallExpr); ok && c15sq(call.Fun) == "fmt.Errorf" && c15isNil(r.Results[0]) {
		return "Some SErr", nil
	}
	return "", fmt.Errorf("return %s is outside the translated fragment", types.ExprString(r.Results[2]))
}

// the chain loop: for j := 1; j < len(f.Index); j++ { if ef := X.FieldByIndex(f.Index[:j]); C { return … } }
// -> (sfVar, efVar, cond, return)
func (t *c15ftTr) chainLoop(fs *ast.ForStmt) (string, string, error) {
	bad := fmt.Errorf("for loop is not the walk over the embedded fields of a promoted field")
	init, ok := fs.Init.(*ast.AssignStmt)
	if !ok || init.Tok != token.DEFINE || len(init.Lhs) != 1 || c15sq(init.Rhs[0]) != "1" {
		return "", "", bad
	}
	j := c15sq(init.Lhs[0])
	if post, ok := fs.Post.(*ast.IncDecStmt); !ok || post.Tok != token.INC || c15sq(post.X) != j {
		return "", "", bad
	}
	var sf string
	for v := range t.sfVars {
		if c15sq(fs.Cond) == j+"<len("+v+".Index)" {
			sf = v
		}
	}
	if sf == "" || len(fs.Body.List) != 1 {
		return "", "", bad
	}
	is, ok := fs.Body.List[0].(*ast.IfStmt)
	if !ok || is.Else != nil || is.Init == nil {
		return "", "", bad
	}
	as, ok := is.Init.(*ast.AssignStmt)
	if !ok || as.Tok != token.DEFINE || len(as.Lhs) != 1 || len(as.Rhs) != 1 {
		return "", "", bad
	}
	ef := c15sq(as.Lhs[0])
	call, ok := as.Rhs[0].(*ast.CallExpr)
	if !ok || len(call.Args) != 1 || c15sq(call.Args[0]) != sf+".Index[:"+j+"]" {
		return "", "", bad
	}
	sel, ok := call.Fun.(*ast.SelectorExpr)
	if !ok || sel.Sel.Name != "FieldByIndex" {
		return "", "", bad
	}
	if _, ok := t.tyExpr(sel.X); !ok {
		return "", "", bad
	}
	t.efVars[ef] = true
	c, partial, err := t.cond(is.Cond)
	delete(t.efVars, ef)
	if err != nil {
		return "", "", err
	}
	if partial {
		return "", "", fmt.Errorf("a partial reflect operation in the chain loop")
	}
	if len(is.Body.List) != 1 {
		return "", "", bad
	}
	r, ok := is.Body.List[0].(*ast.ReturnStmt)
	if !ok {
		return "", "", bad
	}
	rs, err := t.ret(r)
	if err != nil {
		return "", "", err
	}
	return "(existsb (fun " + ef + " => " + c + ") (sf_chain " + sf + "))", rs, nil
}

// statements -> Gallina expression of type option sres. k: what control does when it falls off the end
func (t *c15ftTr) stmts(l []ast.Stmt, k string, ind string) (string, error) {
	if len(l) == 0 {
		return k, nil
	}
	rest := func() (string, error) { return t.stmts(l[1:], k, ind) }
	switch x := l[0].(type) {
	case *ast.ReturnStmt:
		return t.ret(x)
	case *ast.BranchStmt:
		if x.Tok == token.CONTINUE && t.inLoop && x.Label == nil {
			return t.next(), nil
		}
	case *ast.AssignStmt:
		// f, ok := X.FieldByName(field)
		if x.Tok == token.DEFINE && len(x.Lhs) == 2 && len(x.Rhs) == 1 {
			if call, ok := x.Rhs[0].(*ast.CallExpr); ok && len(call.Args) == 1 && c15sq(call.Args[0]) == t.field {
				if sel, ok := call.Fun.(*ast.SelectorExpr); ok && sel.Sel.Name == "FieldByName" {
					if ty, ok := t.tyExpr(sel.X); ok {
						f, okv := c15sq(x.Lhs[0]), c15sq(x.Lhs[1])
						if c15reserved(f) || c15reserved(okv) {
							return "", fmt.Errorf("variable name %s / %s is used by the translation", f, okv)
						}
						t.sfVars[f], t.boolVar[okv] = true, true
						r, err := rest()
						if err != nil {
							return "", err
						}
						// a field that was not found is the zero StructField: not exported, no type; the code may
						// only look at it behind the ok test (the zero value is made visible here)
						return "match rt_field_by_name env " + ty + " " + t.field + " with\n" + ind +
							"| None => None\n" + ind +
							"| Some found__ =>\n" + ind + "  let " + okv + " := match found__ with Some _ => true | None => false end in\n" + ind +
							"  let " + f + " := match found__ with Some sf__ => sf__ | None => {| sf_exported := false; sf_type := " + ty + "; sf_chain := [] |} end in\n" + ind +
							"  " + r + "\n" + ind + "end", nil
					}
				}
			}
		}
		// X = T | X = T.Elem()
		if x.Tok == token.ASSIGN && len(x.Lhs) == 1 && len(x.Rhs) == 1 {
			if id, ok := x.Lhs[0].(*ast.Ident); ok && t.tyVars[id.Name] {
				if ty, ok := t.tyExpr(x.Rhs[0]); ok {
					r, err := rest()
					if err != nil {
						return "", err
					}
					return "let " + id.Name + " := " + ty + " in\n" + ind + r, nil
				}
				if recv, m, ok := c15method0(x.Rhs[0]); ok && m == "Elem" {
					if ty, ok := t.tyExpr(recv); ok {
						r, err := rest()
						if err != nil {
							return "", err
						}
						return "match rt_elem " + ty + " with\n" + ind + "| None => None\n" + ind + "| Some " + id.Name + " =>\n" + ind + "  " + r + "\n" + ind + "end", nil
					}
				}
			}
		}
	case *ast.ForStmt:
		c, r, err := t.chainLoop(x)
		if err != nil {
			return "", err
		}
		rs, err := rest()
		if err != nil {
			return "", err
		}
		return "if " + c + " then " + r + "\n" + ind + "else " + rs, nil
	case *ast.IfStmt:
		if x.Init != nil {
			return "", fmt.Errorf("if with an init statement")
		}
		c, partial, err := t.cond(x.Cond)
		if err != nil {
			return "", err
		}
		// what follows the if statement: the else-less case and every branch that does not leave
		after, err := rest()
		if err != nil {
			return "", err
		}
		th, err := t.stmts(x.Body.List, after, ind+"    ")
		if err != nil {
			return "", err
		}
		el := after
		switch e := x.Else.(type) {
		case nil:
		case *ast.BlockStmt:
			el, err = t.stmts(e.List, after, ind+"    ")
			if err != nil {
				return "", err
			}
		default:
			return "", fmt.Errorf("else if")
		}
		if partial {
			return "match " + c + " with\n" + ind + "| None => None\n" + ind + "| Some true =>\n" + ind + "    " + th + "\n" + ind + "| Some false =>\n" + ind + "    " + el + "\n" + ind + "end", nil
		}
		return "if " + c + " then\n" + ind + "    " + th + "\n" + ind + "else\n" + ind + "    " + el, nil
	}
	return "", fmt.Errorf("statement outside the translated fragment: %s", c15stmtString(l[0]))
}

func c15stmtString(s ast.Stmt) string {
	switch x := s.(type) {
	case *ast.AssignStmt:
		var l, r []string
		for _, e := range x.Lhs {
			l = append(l, types.ExprString(e))
		}
		for _, e := range x.Rhs {
			r = append(r, types.ExprString(e))
		}
		return strings.Join(l, ", ") + " " + x.Tok.String() + " " + strings.Join(r, ", ")
	case *ast.ExprStmt:
		return types.ExprString(x.X)
	}
	return fmt.Sprintf("%T", s)
}

// the next iteration of the loop, with the current bindings
func (t *c15ftTr) next() string {
	return "(extract_field_type_loop env target extracted rest)"
}

func c15ExtractFieldType(repo string) (string, string, error) {
	fset := token.NewFileSet()
	f, err := c15parseGo(fset, repo, "compose", "field_mapping.go")
	if err != nil {
		return "", "", err
	}
	fn := c15topFunc(f, "extractFieldType")
	if fn == nil || fn.Body == nil {
		return "", "", fmt.Errorf("func extractFieldType not found")
	}
	var ps []string
	for _, fl := range fn.Type.Params.List {
		for _, n := range fl.Names {
			ps = append(ps, n.Name+" "+types.ExprString(fl.Type))
		}
	}
	if strings.Join(ps, ",") != "paths []string,typ reflect.Type,target bool" {
		return "", "", fmt.Errorf("extractFieldType: parameters (%s)", strings.Join(ps, ", "))
	}
	var rs []string
	if fn.Type.Results != nil {
		for _, fl := range fn.Type.Results.List {
			for _, n := range fl.Names {
				rs = append(rs, n.Name+" "+types.ExprString(fl.Type))
			}
		}
	}
	if len(rs) != 3 || rs[0] != "extracted reflect.Type" || !strings.HasSuffix(rs[1], " bool") || !strings.HasSuffix(rs[2], " error") {
		return "", "", fmt.Errorf("extractFieldType: results (%s)", strings.Join(rs, ", "))
	}
	t := &c15ftTr{paths: "paths", tyVars: map[string]bool{"typ": true}, boolVar: map[string]bool{"target": true},
		sfVars: map[string]bool{}, efVars: map[string]bool{}}
	// the body: statements before the loop, the loop, statements after the loop
	body := fn.Body.List
	li := -1
	for i, s := range body {
		if _, ok := s.(*ast.RangeStmt); ok {
			if li >= 0 {
				return "", "", fmt.Errorf("extractFieldType: more than one range loop")
			}
			li = i
		}
	}
	if li < 0 {
		return "", "", fmt.Errorf("extractFieldType: no range loop over the path")
	}
	rg := body[li].(*ast.RangeStmt)
	if c15sq(rg.X) != "paths" || rg.Tok != token.DEFINE || rg.Key == nil || rg.Value == nil {
		return "", "", fmt.Errorf("extractFieldType: the loop is not `for i, field := range paths`")
	}
	t.idx, t.field = c15sq(rg.Key), c15sq(rg.Value)
	if t.field != "field" {
		return "", "", fmt.Errorf("extractFieldType: loop variable %s", t.field)
	}
	// after the loop (the named result `extracted` is a type variable from its first assignment on)
	t.tyVars["extracted"] = true
	after, err := t.stmts(body[li+1:], "None", "      ")
	if err != nil {
		return "", "", fmt.Errorf("extractFieldType (after the loop): %v", err)
	}
	t.inLoop = true
	lbody, err := t.stmts(rg.Body.List, t.next(), "      ")
	if err != nil {
		return "", "", fmt.Errorf("extractFieldType (loop body): %v", err)
	}
	t.inLoop = false
	// before the loop: extracted must be assigned before it is used — the translation starts with it unbound
	delete(t.tyVars, "extracted")
	pre, err := t.preLoop(body[:li])
	if err != nil {
		return "", "", fmt.Errorf("extractFieldType (before the loop): %v", err)
	}
	// the wrapper
	w := c15topFunc(f, "checkAndExtractFieldType")
	if w == nil || w.Body == nil || len(w.Body.List) != 1 {
		return "", "", fmt.Errorf("func checkAndExtractFieldType not found / not a single return")
	}
	wr, ok := w.Body.List[0].(*ast.ReturnStmt)
	if !ok || len(wr.Results) != 1 || c15sq(wr.Results[0]) != "extractFieldType(paths,typ,false)" {
		return "", "", fmt.Errorf("checkAndExtractFieldType is not `return extractFieldType(paths, typ, false)`")
	}

	var b strings.Builder
	b.WriteString("(* Gen/C15FieldType.v — GENERATED by tools/go2v (extractor \"c15_fieldtype\") from compose/field_mapping.go\n")
	b.WriteString("   (func extractFieldType, translated statement by statement; checkAndExtractFieldType). Do not edit. *)\n")
	b.WriteString("From Eino Require Import Base.Util Base.FMUniverse Model.FieldMap Model.FieldMapGenLib.\n\n")
	b.WriteString("Definition tie_available : bool := true.\n\n")
	b.WriteString("Fixpoint extract_field_type_loop (env : senv) (target : bool) (extracted : ty) (paths : path) {struct paths} : option sres :=\n")
	b.WriteString("  match paths with\n  | [] =>\n      " + after + "\n  | field :: rest =>\n      " + lbody + "\n  end.\n\n")
	b.WriteString("Definition extract_field_type (env : senv) (paths : path) (typ : ty) (target : bool) : option sres :=\n  " + pre + ".\n\n")
	b.WriteString("Definition check_and_extract_field_type (env : senv) (paths : path) (typ : ty) : option sres :=\n  extract_field_type env paths typ false.\n")
	return "C15FieldType.v", b.String(), nil
}

// statements before the loop; control falling off their end enters the loop
func (t *c15ftTr) preLoop(l []ast.Stmt) (string, error) {
	if len(l) == 0 {
		if !t.tyVars["extracted"] {
			return "", fmt.Errorf("the loop starts with `extracted` unassigned")
		}
		return "extract_field_type_loop env target extracted paths", nil
	}
	switch x := l[0].(type) {
	case *ast.AssignStmt:
		if x.Tok == token.ASSIGN && len(x.Lhs) == 1 && len(x.Rhs) == 1 && c15sq(x.Lhs[0]) == "extracted" {
			if ty, ok := t.tyExpr(x.Rhs[0]); ok {
				t.tyVars["extracted"] = true
				r, err := t.preLoop(l[1:])
				if err != nil {
					return "", err
				}
				return "let extracted := " + ty + " in\n  " + r, nil
			}
		}
	case *ast.IfStmt:
		if x.Init == nil && x.Else == nil && c15terminates(x.Body.List) {
			c, partial, err := t.cond(x.Cond)
			if err != nil {
				return "", err
			}
			if partial {
				return "", fmt.Errorf("partial condition before the loop")
			}
			th, err := t.stmts(x.Body.List, "None", "    ")
			if err != nil {
				return "", err
			}
			r, err := t.preLoop(l[1:])
			if err != nil {
				return "", err
			}
			return "if " + c + " then " + th + "\n  else\n  " + r, nil
		}
	}
	return "", fmt.Errorf("statement outside the translated fragment: %s", c15stmtString(l[0]))
}
