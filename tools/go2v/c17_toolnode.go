package main

// Extractor "toolnode" (property C17): compose/tool_node.go, translated statement by statement
// into Gallina over the vocabulary of Model/ToolsGenLib.v:
//
//	convTools, NewToolNode                                 the tool list -> indexes / packers, the first tool that
//	                                                       cannot be taken is the error
//	getToolsNodeOptions, WithToolOption, WithToolList      the fold of the call's option list
//	(*ToolsNode).genToolCallTasks, newUnknownToolTask      call -> task table, order, unknown names
//	runToolCallTaskByInvoke / runToolCallTaskByStream      what a task's execution is handed
//	(*ToolsNode).Invoke / (*ToolsNode).Stream              options, tool set in force, tasks, the
//	                                                       parallel run, the result assembly loops
//	parallelRunToolCall                                    NOT translated as code (goroutines): its
//	                                                       shape is read out as constants (which
//	                                                       tasks get a goroutine, which runs inline,
//	                                                       the order spawn / inline / wait, what a
//	                                                       goroutine executes in which order, whether
//	                                                       every run is handed the tool options; a
//	                                                       top-level helper the goroutine hands the
//	                                                       runner and the task to is read as a frame
//	                                                       of its own: its body, then its deferred
//	                                                       calls, in the place of the call)
//	schema.ToolMessage (schema/message.go)                 which argument becomes content / call id
//
// The translator is a small compiler for the fragment these functions are written in:
//
//	x := e    x = e    x.f = e    xs[i] = e    xs[i].f = e          lets / record and slice updates
//	x.f[k] = e  (f a map / a slice)    var ( a T; b U )             map_set / sl_set on the field; typed zero values
//	a.f, b.g = x.r.M(args)                                          a call with two results into two fields
//	v, err := f(args); if err != nil { return nil, err | wrap }     monadic bind (res); also v, err := tool.Info(ctx)
//	v, ok := m[k]; if !ok { A } else { B }                          match on the map lookup
//	if v, ok = x.(tool.I); ok { ... }                               the tool seen through that interface, or nil
//	if c { ... } [else { ... }]                                     with the outer variables assigned inside as state
//	for i := a; i < b; i++ { ... }   (and i >= b; i--)   continue    for_up / for_down over the assigned outer variables
//	for i, v := range xs { ... }  (in a function with an error)     for_up 0 (len xs) with v := xs[i]
//	for _, x := range xs { x(o) }                                   fold_left
//	f(args) as a statement, f mutating a slice / pointer argument   rebinding of that argument
//	return v, nil    return nil, errors.New/fmt.Errorf(...)         Ok v / Err (e_at fn k) — k = ordinal of the error
//	return nil, fmt.Errorf("...%w...", e)                           return in source order; %w: the wrapped error's class
//	func literals (closures, not over a loop variable), composite literals, method values of a tool, len, make,
//	append, nil tests, integer comparisons
//
// Slices are lists, reads and writes out of range are Panic (sl_get / sl_set / sl_upd), ints are Z,
// pointer-typed struct fields and slice elements are options (nil = None), a slice the code tests against
// nil is an option (slice_of where a plain slice is expected), a map is the list of its assignments (latest
// first), pointers to the structs of this file held in locals / parameters are the struct itself.
// context.Context is kept as a value (Model/ToolsGenLib.v: the tool call id it carries).  Left out on
// purpose (outside C17): the second argument of callbacks.ReuseHandlers, the contents of an executorMeta.
// Anything else: "source shape not recognised" (translator tie unavailable, neutral Gen file =
// c17_toolnode_ref.go, the reference translation).
//
// Output: coq/Gen/ToolNode.v.  Proofs/GenAgreeC17.v proves: generated NewToolNode followed by the generated
// Invoke / Stream = call_invoke / call_stream_open of Model/ToolsOpts.v (what the correspondence evaluates
// and the C17 theorems are about), generated convTools = conv_tools, genToolCallTasks = gen_tasks, the
// option fold = get_node_opts, the goroutine program = prog_ok, and that the protocol of Model/ToolsPar.v
// run on the generated task functions yields the semantics parallelRunToolCall is given in those proofs.

import (
	"fmt"
	"go/ast"
	"go/parser"
	"go/token"
	"go/types"
	"path/filepath"
	"sort"
	"strconv"
	"strings"
)

func c17ParseGo(fset *token.FileSet, repo string, rel ...string) (*ast.File, error) {
	return parser.ParseFile(fset, filepath.Join(append([]string{repo}, rel...)...), nil, 0)
}

func c17TopFunc(f *ast.File, name string) *ast.FuncDecl {
	for _, d := range f.Decls {
		if fn, ok := d.(*ast.FuncDecl); ok && fn.Recv == nil && fn.Name.Name == name {
			return fn
		}
	}
	return nil
}

func c17CoqStr(s string) string { return `"` + strings.ReplaceAll(s, `"`, `""`) + `"%string` }

func init() {
	register("toolnode", c17ExtractToolNode)
	registerFallback("toolnode", "ToolNode.v", c17NeutralToolNode)
}

type c17Field struct{ name, typ string }

type c17Scope map[string]string

type c17T struct {
	structs  map[string][]c17Field
	funcs    map[string]*ast.FuncDecl // by name (methods too)
	fn       string                   // function being translated (for e_at)
	errK     *int
	tmpK     *int
	env      []c17Scope
	mode     string   // "res" | "pure"
	loopFall []string // per enclosing loop: the term of "go on with the next iteration" (the state so far)
	loopVars []string // variables of the enclosing counted loops (one variable per loop in this language version: a closure must not capture it)
}

func (t *c17T) errf(n ast.Node, f string, a ...any) error {
	what := ""
	if n != nil {
		if e, ok := n.(ast.Expr); ok {
			what = " [" + types.ExprString(e) + "]"
		}
	}
	return fmt.Errorf("%s: %s%s", t.fn, fmt.Sprintf(f, a...), what)
}

func (t *c17T) push()                { t.env = append(t.env, c17Scope{}) }
func (t *c17T) pop()                 { t.env = t.env[:len(t.env)-1] }
func (t *c17T) declare(n, ty string) { t.env[len(t.env)-1][n] = ty }
func (t *c17T) lookup(n string) (string, bool) {
	for i := len(t.env) - 1; i >= 0; i-- {
		if ty, ok := t.env[i][n]; ok {
			return ty, true
		}
	}
	return "", false
}
func (t *c17T) fresh() string { *t.tmpK++; return fmt.Sprintf("x%d", *t.tmpK) }

// ---- types (by name only; no type checker)

func c17Type(e ast.Expr) string {
	switch x := e.(type) {
	case nil:
		return ""
	case *ast.Ident:
		return x.Name
	case *ast.StarExpr:
		return "*" + c17Type(x.X)
	case *ast.SelectorExpr:
		return c17Type(x.X) + "." + x.Sel.Name
	case *ast.ArrayType:
		return "[]" + c17Type(x.Elt)
	case *ast.Ellipsis:
		return "[]" + c17Type(x.Elt)
	case *ast.MapType:
		return "map[" + c17Type(x.Key) + "]" + c17Type(x.Value)
	case *ast.FuncType:
		return "func"
	case *ast.IndexExpr:
		return c17Type(x.X) + "[" + c17Type(x.Index) + "]"
	case *ast.IndexListExpr:
		return c17Type(x.X) + "[...]"
	case *ast.InterfaceType:
		return "interface"
	}
	return "?"
}

// the struct a value of this type is (pointers to structs are transparent)
func c17StructOf(ty string) string {
	ty = strings.TrimPrefix(ty, "*")
	ty = strings.TrimPrefix(ty, "schema.")
	return ty
}

func (t *c17T) fieldType(st, f string) (string, bool) {
	for _, fl := range t.structs[st] {
		if fl.name == f {
			return fl.typ, true
		}
	}
	return "", false
}

func (t *c17T) typeOf(e ast.Expr) string {
	switch x := e.(type) {
	case *ast.ParenExpr:
		return t.typeOf(x.X)
	case *ast.Ident:
		ty, _ := t.lookup(x.Name)
		return ty
	case *ast.SelectorExpr:
		if ty, ok := t.fieldType(c17StructOf(t.typeOf(x.X)), x.Sel.Name); ok {
			return ty
		}
	case *ast.IndexExpr:
		ty := t.typeOf(x.X)
		if strings.HasPrefix(ty, "[]") {
			return ty[2:]
		}
		if strings.HasPrefix(ty, "map[") {
			if i := strings.Index(ty, "]"); i > 0 {
				return ty[i+1:]
			}
		}
	case *ast.UnaryExpr:
		if x.Op == token.AND {
			return "*" + t.typeOf(x.X)
		}
	case *ast.StarExpr:
		return strings.TrimPrefix(t.typeOf(x.X), "*")
	case *ast.CompositeLit:
		return c17Type(x.Type)
	case *ast.CallExpr:
		if id, ok := x.Fun.(*ast.Ident); ok {
			switch id.Name {
			case "len":
				return "int"
			case "make":
				if len(x.Args) > 0 {
					return c17Type(x.Args[0])
				}
			case "append":
				if len(x.Args) > 0 {
					return t.typeOf(x.Args[0])
				}
			}
			if fd, ok := t.funcs[id.Name]; ok && fd.Type.Results != nil && len(fd.Type.Results.List) > 0 {
				return c17Type(fd.Type.Results.List[0].Type)
			}
		}
	case *ast.BasicLit:
		if x.Kind == token.INT {
			return "int"
		}
		if x.Kind == token.STRING {
			return "string"
		}
	}
	return ""
}

// zero value of a slice element / field type
func (t *c17T) zeroOf(ty string) (string, error) {
	switch {
	case ty == "string":
		return `""%string`, nil
	case ty == "int":
		return "0%Z", nil
	case strings.HasPrefix(ty, "*"), ty == "error", ty == "func", c17IsToolIface(ty):
		return "None", nil
	case strings.HasPrefix(ty, "map["):
		return "map_empty", nil
	case ty == "bool":
		return "false", nil
	case strings.HasPrefix(ty, "[]"):
		return "[]", nil
	}
	if _, ok := t.structs[ty]; ok {
		return "zero_" + ty, nil
	}
	return "", fmt.Errorf("%s: no zero value for type %s", t.fn, ty)
}

// the interfaces a tool.BaseTool value may also implement: such a value is the tool itself, or nil
func c17IsToolIface(ty string) bool {
	return ty == "tool.StreamableTool" || ty == "tool.InvokableTool"
}

// the Gallina type of a declared local (the zero value alone does not determine it)
func c17GallinaType(e ast.Expr) (string, bool) {
	ty := c17Type(e)
	switch {
	case c17IsToolIface(ty):
		return "option BT", true
	case ty == "*executorMeta":
		return "option META", true
	case ty == "bool":
		return "bool", true
	case ty == "string":
		return "string", true
	case ty == "int":
		return "Z", true
	}
	if ft, ok := e.(*ast.FuncType); ok { // the two run functions of a tool
		ps, rs := c17Params(ft.Params), c17Params(ft.Results)
		if len(ps) == 3 && ps[0].typ == "context.Context" && ps[1].typ == "string" && ps[2].typ == "[]tool.Option" && len(rs) == 2 && rs[1].typ == "error" {
			switch rs[0].typ {
			case "string":
				return "option (CTX -> string -> list TOPT -> tres)", true
			case "*schema.StreamReader[string]":
				return "option (CTX -> string -> list TOPT -> sres)", true
			}
		}
	}
	return "", false
}

// a slice the code tests against nil is an option in Gallina
func (t *c17T) isOptSlice(e ast.Expr) bool {
	switch x := e.(type) {
	case *ast.ParenExpr:
		return t.isOptSlice(x.X)
	case *ast.SelectorExpr:
		return c17StructOf(t.typeOf(x.X)) == "toolsNodeOptions" && x.Sel.Name == "ToolList"
	case *ast.Ident:
		return t.fn == "WithToolList" && x.Name == "tool"
	}
	return false
}

// ---- expressions

func c17IsIdent(e ast.Expr, name string) bool {
	id, ok := e.(*ast.Ident)
	return ok && id.Name == name
}

// the package-level constants Model/ToolsGenLib.v defines
var c17KnownConsts = map[string]bool{"schema_Assistant": true, "components_ComponentOfTool": true}

var c17Packages = map[string]bool{"schema": true, "tool": true, "components": true, "callbacks": true, "fmt": true, "errors": true, "context": true, "safe": true, "debug": true, "sync": true}

func c17Binds(pre []string, body string) string { return strings.Join(pre, "") + body }

func (t *c17T) exprs(es []ast.Expr) ([]string, []string, error) {
	var pre, out []string
	for _, e := range es {
		p, s, err := t.expr(e)
		if err != nil {
			return nil, nil, err
		}
		pre = append(pre, p...)
		out = append(out, s)
	}
	return pre, out, nil
}

func (t *c17T) expr(e ast.Expr) ([]string, string, error) {
	switch x := e.(type) {
	case *ast.ParenExpr:
		return t.expr(x.X)
	case *ast.Ident:
		switch x.Name {
		case "nil":
			return nil, "None", nil
		case "true", "false":
			return nil, x.Name, nil
		}
		if _, ok := t.lookup(x.Name); ok {
			return nil, x.Name, nil
		}
		if _, ok := t.funcs[x.Name]; ok { // a function value: one of the translated functions
			if _, translated := c17Sigs[x.Name]; translated {
				return nil, x.Name, nil
			}
			return nil, "", t.errf(x, "a function of the file that is not translated, used as a value")
		}
		return nil, "", t.errf(x, "unknown identifier")
	case *ast.BasicLit:
		switch x.Kind {
		case token.INT:
			return nil, x.Value + "%Z", nil
		case token.STRING:
			s, err := strconv.Unquote(x.Value)
			if err != nil {
				return nil, "", t.errf(x, "string literal")
			}
			return nil, c17CoqStr(s), nil
		}
	case *ast.SelectorExpr:
		if id, ok := x.X.(*ast.Ident); ok && c17Packages[id.Name] {
			if _, local := t.lookup(id.Name); !local {
				if !c17KnownConsts[id.Name+"_"+x.Sel.Name] {
					return nil, "", t.errf(x, "a package-level name the vocabulary does not define")
				}
				return nil, id.Name + "_" + x.Sel.Name, nil // a package-level constant
			}
		}
		if c17IsToolIface(t.typeOf(x.X)) { // a method value of a tool seen through one of its interfaces (nil for a nil value)
			p, s, err := t.expr(x.X)
			return p, "(BT_" + x.Sel.Name + " " + s + ")", err
		}
		st := c17StructOf(t.typeOf(x.X))
		if _, ok := t.fieldType(st, x.Sel.Name); !ok {
			return nil, "", t.errf(x, "field %s of %q not known", x.Sel.Name, st)
		}
		p, s, err := t.expr(x.X)
		if err != nil {
			return nil, "", err
		}
		return p, "(" + st + "_" + x.Sel.Name + " " + s + ")", nil
	case *ast.IndexExpr:
		ty := t.typeOf(x.X)
		if !strings.HasPrefix(ty, "[]") {
			return nil, "", t.errf(x, "index into a value of type %q", ty)
		}
		if t.mode != "res" {
			return nil, "", t.errf(x, "slice read in a function without an error result")
		}
		p1, s1, err := t.expr(x.X)
		if err != nil {
			return nil, "", err
		}
		p2, s2, err := t.expr(x.Index)
		if err != nil {
			return nil, "", err
		}
		v := t.fresh()
		pre := append(append(p1, p2...), "do "+v+" <- sl_get "+s1+" "+s2+";\n")
		return pre, v, nil
	case *ast.UnaryExpr:
		switch x.Op {
		case token.NOT:
			p, s, err := t.expr(x.X)
			return p, "(negb " + s + ")", err
		case token.AND:
			if cl, ok := x.X.(*ast.CompositeLit); ok {
				p, s, err := t.expr(cl)
				if err != nil {
					return nil, "", err
				}
				if c17StructOf(c17Type(cl.Type)) == "executorMeta" { // a pointer-typed field's value
					return p, "(Some " + s + ")", nil
				}
				return p, s, nil
			}
			return t.expr(x.X) // pointers to this file's structs are transparent
		}
	case *ast.BinaryExpr:
		return t.binary(x)
	case *ast.CompositeLit:
		st := c17StructOf(c17Type(x.Type))
		if st == "executorMeta" || st == "callbacks.RunInfo" {
			return nil, c17St2id(st) + "_opaque", nil
		}
		if _, ok := t.structs[st]; !ok {
			return nil, "", t.errf(x, "composite literal of type %q", st)
		}
		acc := "zero_" + st
		var pre []string
		for _, el := range x.Elts {
			kv, ok := el.(*ast.KeyValueExpr)
			if !ok {
				return nil, "", t.errf(x, "composite literal without field names")
			}
			k, ok := kv.Key.(*ast.Ident)
			if !ok {
				return nil, "", t.errf(x, "composite literal key")
			}
			if _, ok := t.fieldType(st, k.Name); !ok {
				return nil, "", t.errf(x, "field %s of %q not known", k.Name, st)
			}
			p, s, err := t.expr(kv.Value)
			if err != nil {
				return nil, "", err
			}
			pre = append(pre, p...)
			acc = "(set_" + st + "_" + k.Name + " " + acc + " " + s + ")"
		}
		return pre, acc, nil
	case *ast.FuncLit:
		return t.funcLit(x)
	case *ast.CallExpr:
		return t.call(x)
	}
	return nil, "", t.errf(e, "expression not recognised")
}

func c17St2id(s string) string { return strings.ReplaceAll(s, ".", "_") }

func (t *c17T) binary(x *ast.BinaryExpr) ([]string, string, error) {
	if x.Op == token.LAND || x.Op == token.LOR {
		p1, a, err := t.expr(x.X)
		if err != nil {
			return nil, "", err
		}
		p2, b, err := t.expr(x.Y)
		if err != nil {
			return nil, "", err
		}
		if len(p2) > 0 {
			return nil, "", t.errf(x, "effectful right operand of a short-circuit operator")
		}
		op := "&&"
		if x.Op == token.LOR {
			op = "||"
		}
		return p1, "(" + a + " " + op + " " + b + ")", nil
	}
	neg := func(s string) string {
		if x.Op == token.NEQ {
			return "(negb " + s + ")"
		}
		return s
	}
	if x.Op == token.EQL || x.Op == token.NEQ {
		if c17IsIdent(x.Y, "nil") {
			p, s, err := t.expr(x.X)
			return p, neg("(is_nil " + s + ")"), err
		}
		if c17IsIdent(x.X, "nil") {
			p, s, err := t.expr(x.Y)
			return p, neg("(is_nil " + s + ")"), err
		}
	}
	p1, a, err := t.expr(x.X)
	if err != nil {
		return nil, "", err
	}
	p2, b, err := t.expr(x.Y)
	if err != nil {
		return nil, "", err
	}
	pre := append(p1, p2...)
	ty := t.typeOf(x.X)
	if ty == "" {
		ty = t.typeOf(x.Y)
	}
	isInt := ty == "int"
	isStr := ty == "string" || ty == "RoleType" || ty == "schema.RoleType"
	switch x.Op {
	case token.EQL, token.NEQ:
		if isInt {
			return pre, neg("(Z.eqb " + a + " " + b + ")"), nil
		}
		if isStr {
			return pre, neg("(String.eqb " + a + " " + b + ")"), nil
		}
	case token.LSS:
		if isInt {
			return pre, "(Z.ltb " + a + " " + b + ")", nil
		}
	case token.LEQ:
		if isInt {
			return pre, "(Z.leb " + a + " " + b + ")", nil
		}
	case token.GTR:
		if isInt {
			return pre, "(Z.ltb " + b + " " + a + ")", nil
		}
	case token.GEQ:
		if isInt {
			return pre, "(Z.leb " + b + " " + a + ")", nil
		}
	case token.ADD:
		if isInt {
			return pre, "(" + a + " + " + b + ")%Z", nil
		}
		if isStr {
			return pre, "(" + a + " ++ " + b + ")%string", nil
		}
	case token.SUB:
		if isInt {
			return pre, "(" + a + " - " + b + ")%Z", nil
		}
	case token.MUL:
		if isInt {
			return pre, "(" + a + " * " + b + ")%Z", nil
		}
	}
	return nil, "", t.errf(x, "operator %s on operands of type %q", x.Op, ty)
}

// arguments of a call: a spread argument xs... is the slice itself
func (t *c17T) args(x *ast.CallExpr) ([]string, []string, error) {
	return t.exprs(x.Args)
}

func (t *c17T) call(x *ast.CallExpr) ([]string, string, error) {
	app := func(f string, pre []string, as []string) ([]string, string, error) {
		if len(as) == 0 {
			return pre, f, nil
		}
		return pre, "(" + f + " " + strings.Join(as, " ") + ")", nil
	}
	switch f := x.Fun.(type) {
	case *ast.Ident:
		switch f.Name {
		case "len":
			if len(x.Args) != 1 || !strings.HasPrefix(t.typeOf(x.Args[0]), "[]") {
				return nil, "", t.errf(x, "len of something that is no slice")
			}
			p, s, err := t.expr(x.Args[0])
			return p, "(sl_len " + s + ")", err
		case "make":
			if len(x.Args) == 1 && strings.HasPrefix(c17Type(x.Args[0]), "map[") {
				return nil, "map_empty", nil
			}
			if len(x.Args) < 2 {
				return nil, "", t.errf(x, "make without a length")
			}
			ty := c17Type(x.Args[0])
			if !strings.HasPrefix(ty, "[]") {
				return nil, "", t.errf(x, "make of something that is no slice")
			}
			if lit, ok := x.Args[1].(*ast.BasicLit); ok && lit.Value == "0" {
				return nil, "[]", nil
			}
			if t.mode != "res" {
				return nil, "", t.errf(x, "make with a computed length in a function without an error result")
			}
			z, err := t.zeroOf(ty[2:])
			if err != nil {
				return nil, "", err
			}
			p, n, err := t.expr(x.Args[1])
			if err != nil {
				return nil, "", err
			}
			v := t.fresh()
			return append(p, "do "+v+" <- sl_make "+z+" "+n+";\n"), v, nil
		case "append":
			if len(x.Args) != 2 {
				return nil, "", t.errf(x, "append with %d arguments", len(x.Args))
			}
			pre, as, err := t.args(x)
			if err != nil {
				return nil, "", err
			}
			if x.Ellipsis.IsValid() {
				return pre, "(" + as[0] + " ++ " + as[1] + ")%list", nil
			}
			return pre, "(" + as[0] + " ++ [" + as[1] + "])%list", nil
		}
		if ty, ok := t.lookup(f.Name); ok && ty == "func" { // a function value held in a variable: may be nil
			pre, as, err := t.args(x)
			if err != nil {
				return nil, "", err
			}
			return app(fmt.Sprintf("call_func%d %s", len(as), f.Name), pre, as)
		}
		// (only the functions of the file that the generated file defines - the translated ones - and the ones it takes
		// as parameters: a call of any other function of the file, e.g. a helper extracted from a translated function,
		// is a shape this translator does not know)
		_, declared := t.funcs[f.Name]
		_, translated := c17Sigs[f.Name]
		if (declared && (translated || f.Name == "parallelRunToolCall")) || f.Name == "newRunnablePacker" || f.Name == "setToolCallInfo" || f.Name == "parseExecutorInfoFromComponent" {
			pre, as, err := t.args(x)
			if err != nil {
				return nil, "", err
			}
			for i, a := range x.Args {
				if _, isLit := a.(*ast.FuncLit); isLit && f.Name == "newRunnablePacker" {
					as[i] = "(Some " + as[i] + ")" // a function value that is not nil
				}
				if t.isOptSlice(a) { // handed to a parameter that is a plain slice
					as[i] = "(slice_of " + as[i] + ")"
				}
			}
			return app(f.Name, pre, as)
		}
	case *ast.SelectorExpr:
		if id, ok := f.X.(*ast.Ident); ok && c17Packages[id.Name] {
			name := id.Name + "." + f.Sel.Name
			switch name {
			case "schema.ToolMessage", "schema.StreamReaderWithConvert", "schema.MergeStreamReaders":
				pre, as, err := t.args(x)
				if err != nil {
					return nil, "", err
				}
				return app(f.Sel.Name, pre, as)
			case "callbacks.ReuseHandlers": // the RunInfo (second argument) is outside C17
				if len(x.Args) != 2 {
					return nil, "", t.errf(x, "callbacks.ReuseHandlers with %d arguments", len(x.Args))
				}
				p, s, err := t.expr(x.Args[0])
				return p, "(callbacks_ReuseHandlers " + s + ")", err
			}
		}
	}
	return nil, "", t.errf(x, "call not recognised")
}

// a method call on a field of an opaque type: x.r.Invoke(args) -> (RP_Invoke (S_r x) args)
func (t *c17T) opaqueMethod(x *ast.CallExpr) ([]string, string, bool, error) {
	sel, ok := x.Fun.(*ast.SelectorExpr)
	if !ok {
		return nil, "", false, nil
	}
	ty := strings.TrimPrefix(t.typeOf(sel.X), "*")
	if !strings.HasPrefix(ty, "runnablePacker") {
		return nil, "", false, nil
	}
	p, r, err := t.expr(sel.X)
	if err != nil {
		return nil, "", true, err
	}
	pre, as, err := t.args(x)
	if err != nil {
		return nil, "", true, err
	}
	return append(p, pre...), "(RP_" + sel.Sel.Name + " " + r + " " + strings.Join(as, " ") + ")", true, nil
}

// ---- function literals

func c17Params(fl *ast.FieldList) []c17Field {
	var out []c17Field
	if fl == nil {
		return out
	}
	for _, f := range fl.List {
		ty := c17Type(f.Type)
		if len(f.Names) == 0 {
			out = append(out, c17Field{"_", ty})
		}
		for _, n := range f.Names {
			out = append(out, c17Field{n.Name, ty})
		}
	}
	return out
}

func c17ResultKind(ft *ast.FuncType) string {
	rs := c17Params(ft.Results)
	switch {
	case len(rs) == 0:
		return "unit"
	case len(rs) == 1:
		return "pure"
	case len(rs) == 2 && rs[1].typ == "error":
		return "res"
	}
	return "?"
}

func (t *c17T) funcLit(x *ast.FuncLit) ([]string, string, error) {
	// the module's go directive is below 1.22: a loop variable is ONE variable for all iterations, so a
	// closure that mentions it sees its last value, which a Gallina closure would not model
	captured := ""
	ast.Inspect(x.Body, func(n ast.Node) bool {
		if id, ok := n.(*ast.Ident); ok {
			for _, lv := range t.loopVars {
				if id.Name == lv {
					captured = lv
				}
			}
		}
		return true
	})
	if captured != "" {
		return nil, "", t.errf(x, "a function literal captures the loop variable %s", captured)
	}
	ps := c17Params(x.Type.Params)
	kind := c17ResultKind(x.Type)
	sub := *t
	sub.loopFall = nil
	sub.env = append(append([]c17Scope{}, t.env...), c17Scope{})
	var names []string
	for _, p := range ps {
		sub.declare(p.name, p.typ)
		names = append(names, p.name)
	}
	var body string
	var err error
	switch kind {
	case "res":
		sub.mode = "res"
		body, err = sub.stmts(x.Body.List, "")
	case "unit": // mutates what its (single pointer) parameter points to: the new value is the result
		if len(ps) != 1 || !strings.HasPrefix(ps[0].typ, "*") {
			return nil, "", t.errf(x, "function literal without result and not of the shape func(p *T)")
		}
		sub.mode = "pure"
		body, err = sub.stmts(x.Body.List, ps[0].name)
	default:
		return nil, "", t.errf(x, "function literal with this result list")
	}
	if err != nil {
		return nil, "", err
	}
	return nil, "(fun " + strings.Join(names, " ") + " =>\n" + body + ")", nil
}

// ---- statements

func c17Terminates(l []ast.Stmt) bool {
	if len(l) == 0 {
		return false
	}
	switch s := l[len(l)-1].(type) {
	case *ast.ReturnStmt:
		return true
	case *ast.BranchStmt:
		return s.Tok == token.CONTINUE && s.Label == nil
	case *ast.IfStmt:
		if s.Else == nil {
			return false
		}
		eb, ok := s.Else.(*ast.BlockStmt)
		if !ok {
			return c17Terminates([]ast.Stmt{s.Else}) && c17Terminates(s.Body.List)
		}
		return c17Terminates(s.Body.List) && c17Terminates(eb.List)
	}
	return false
}

func c17RootIdent(e ast.Expr) string {
	for {
		switch x := e.(type) {
		case *ast.Ident:
			return x.Name
		case *ast.SelectorExpr:
			e = x.X
		case *ast.IndexExpr:
			e = x.X
		case *ast.ParenExpr:
			e = x.X
		case *ast.StarExpr:
			e = x.X
		default:
			return ""
		}
	}
}

// outer variables (declared before these statements) that the statements assign or mutate
func (t *c17T) assigned(l []ast.Stmt) []string {
	declared := map[string]bool{}
	set := map[string]bool{}
	mark := func(n string) {
		if n == "" || n == "_" || n == "err" || declared[n] {
			return
		}
		if _, ok := t.lookup(n); ok {
			set[n] = true
		}
	}
	var walk func(n ast.Node)
	walk = func(n ast.Node) {
		ast.Inspect(n, func(x ast.Node) bool {
			switch s := x.(type) {
			case *ast.FuncLit:
				return false
			case *ast.AssignStmt:
				for _, l := range s.Lhs {
					if s.Tok == token.DEFINE {
						if id, ok := l.(*ast.Ident); ok {
							declared[id.Name] = true
							continue
						}
					}
					mark(c17RootIdent(l))
				}
			case *ast.ExprStmt:
				if c, ok := s.X.(*ast.CallExpr); ok {
					for _, m := range t.mutatedArgs(c) {
						mark(m)
					}
				}
			case *ast.DeclStmt:
				if gd, ok := s.Decl.(*ast.GenDecl); ok {
					for _, sp := range gd.Specs {
						if vs, ok := sp.(*ast.ValueSpec); ok {
							for _, n := range vs.Names {
								declared[n.Name] = true
							}
						}
					}
				}
			case *ast.RangeStmt:
				if id, ok := s.Key.(*ast.Ident); ok {
					declared[id.Name] = true
				}
				if id, ok := s.Value.(*ast.Ident); ok {
					declared[id.Name] = true
				}
			}
			return true
		})
	}
	for _, s := range l {
		walk(s)
	}
	var out []string
	for n := range set {
		out = append(out, n)
	}
	sort.Strings(out)
	return out
}

// the arguments a call statement mutates: slices and pointers to structs handed to a function without results
func (t *c17T) mutatedArgs(c *ast.CallExpr) []string {
	var out []string
	for _, a := range c.Args {
		if u, ok := a.(*ast.UnaryExpr); ok && u.Op == token.AND {
			a = u.X
		}
		id, ok := a.(*ast.Ident)
		if !ok {
			continue
		}
		ty, ok := t.lookup(id.Name)
		if !ok {
			continue
		}
		if ty == "[]toolCallTask" || (strings.HasPrefix(ty, "*") && t.structs[c17StructOf(ty)] != nil) {
			out = append(out, id.Name)
		}
	}
	return out
}

func c17Pat(vs []string) string {
	switch len(vs) {
	case 0:
		return "_"
	case 1:
		return vs[0]
	}
	return "'(" + strings.Join(vs, ", ") + ")"
}

func c17Tup(vs []string) string {
	switch len(vs) {
	case 0:
		return "tt"
	case 1:
		return vs[0]
	}
	return "(" + strings.Join(vs, ", ") + ")"
}

func (t *c17T) wrapRet(v string) string {
	if t.mode == "res" {
		return "Ok " + v
	}
	return v
}

func (t *c17T) bind(pat, rhs string) string {
	if t.mode == "res" {
		return "do " + strings.TrimPrefix(pat, "'") + " <- " + rhs + ";\n" // the do notation takes a pattern as it is
	}
	return "let " + pat + " := " + rhs + " in\n"
}

func c17IsErrNil(e ast.Expr, neq bool) bool {
	b, ok := e.(*ast.BinaryExpr)
	if !ok {
		return false
	}
	if neq && b.Op != token.NEQ || !neq && b.Op != token.EQL {
		return false
	}
	return c17IsIdent(b.X, "err") && c17IsIdent(b.Y, "nil")
}

// if err != nil { return nil, err }   or   return nil, fmt.Errorf("... %w ...", ..., err)
func c17IsErrPropagation(s ast.Stmt) bool {
	is, ok := s.(*ast.IfStmt)
	if !ok || is.Init != nil || is.Else != nil || !c17IsErrNil(is.Cond, true) || len(is.Body.List) != 1 {
		return false
	}
	r, ok := is.Body.List[0].(*ast.ReturnStmt)
	if !ok || len(r.Results) != 2 || !c17IsIdent(r.Results[0], "nil") {
		return false
	}
	if c17IsIdent(r.Results[1], "err") {
		return true
	}
	if w, ok := c17Wrapped(r.Results[1]); ok && c17IsIdent(w, "err") {
		return true
	}
	return false
}

// fmt.Errorf(format, args...) with exactly one %w: the argument it wraps
func c17Wrapped(e ast.Expr) (ast.Expr, bool) {
	c, ok := e.(*ast.CallExpr)
	if !ok {
		return nil, false
	}
	sel, ok := c.Fun.(*ast.SelectorExpr)
	if !ok || !c17IsIdent(sel.X, "fmt") || sel.Sel.Name != "Errorf" || len(c.Args) < 1 {
		return nil, false
	}
	lit, ok := c.Args[0].(*ast.BasicLit)
	if !ok || lit.Kind != token.STRING {
		return nil, false
	}
	f, err := strconv.Unquote(lit.Value)
	if err != nil || strings.Count(f, "%w") != 1 {
		return nil, false
	}
	// position of %w among the verbs
	n := 0
	for i := 0; i+1 < len(f); i++ {
		if f[i] != '%' {
			continue
		}
		if f[i+1] == '%' {
			i++
			continue
		}
		j := i + 1
		for j < len(f) && strings.ContainsRune("+-# 0123456789.", rune(f[j])) {
			j++
		}
		if j < len(f) && f[j] == 'w' {
			if 1+n < len(c.Args) {
				return c.Args[1+n], true
			}
			return nil, false
		}
		n++
		i = j
	}
	return nil, false
}

// a fresh error made here: errors.New(...) or fmt.Errorf without %w
func c17IsNewError(e ast.Expr) bool {
	c, ok := e.(*ast.CallExpr)
	if !ok {
		return false
	}
	sel, ok := c.Fun.(*ast.SelectorExpr)
	if !ok {
		return false
	}
	if c17IsIdent(sel.X, "errors") && sel.Sel.Name == "New" {
		return true
	}
	if c17IsIdent(sel.X, "fmt") && sel.Sel.Name == "Errorf" {
		_, w := c17Wrapped(e)
		return !w
	}
	return false
}

func (t *c17T) ret(r *ast.ReturnStmt) (string, error) {
	switch t.mode {
	case "res":
		if len(r.Results) == 1 { // the two results of a call of a function value: its own result type
			if c, ok := r.Results[0].(*ast.CallExpr); ok {
				if id, ok := c.Fun.(*ast.Ident); ok {
					if ty, ok := t.lookup(id.Name); ok && ty == "func" {
						p, s, err := t.expr(c)
						return c17Binds(p, s), err
					}
				}
			}
			return "", t.errf(r, "return with one result in a function with an error result")
		}
		if len(r.Results) != 2 {
			return "", t.errf(r, "return with %d results", len(r.Results))
		}
		if c17IsIdent(r.Results[1], "nil") {
			p, s, err := t.expr(r.Results[0])
			return c17Binds(p, "Ok "+s), err
		}
		if !c17IsIdent(r.Results[0], "nil") {
			return "", t.errf(r, "return of a value beside an error")
		}
		if c17IsNewError(r.Results[1]) {
			k := *t.errK
			*t.errK++
			return fmt.Sprintf("Err (e_at %s %d%%nat)", c17CoqStr(t.fn), k), nil
		}
		if w, ok := c17Wrapped(r.Results[1]); ok {
			p, s, err := t.expr(w)
			return c17Binds(p, "ret_err "+s), err
		}
		return "", t.errf(r.Results[1], "error value of a return not recognised")
	case "pure":
		if len(r.Results) != 1 {
			return "", t.errf(r, "return with %d results", len(r.Results))
		}
		p, s, err := t.expr(r.Results[0])
		return c17Binds(p, s), err
	}
	return "", t.errf(r, "return")
}

func c17ElseList(is *ast.IfStmt) ([]ast.Stmt, bool) {
	switch e := is.Else.(type) {
	case nil:
		return nil, false
	case *ast.BlockStmt:
		return e.List, true
	default:
		return []ast.Stmt{e}, true
	}
}

// statements l, then (when control reaches their end) the term fall ("" = control must not get there)
func (t *c17T) stmts(l []ast.Stmt, fall string) (string, error) {
	if len(l) == 0 {
		if fall == "" {
			return "", fmt.Errorf("%s: control reaches the end of a block that must return", t.fn)
		}
		return fall, nil
	}
	s, rest := l[0], l[1:]
	switch x := s.(type) {
	case *ast.ReturnStmt:
		return t.ret(x)
	case *ast.DeclStmt: // var err error; var ( a T; b U ... ): zero values
		gd, ok := x.Decl.(*ast.GenDecl)
		if !ok || gd.Tok != token.VAR {
			return "", t.errf(nil, "declaration not recognised")
		}
		var lets string
		for _, sp := range gd.Specs {
			vs, ok := sp.(*ast.ValueSpec)
			if !ok || len(vs.Values) != 0 || vs.Type == nil {
				return "", t.errf(nil, "declaration not recognised")
			}
			for _, n := range vs.Names {
				if n.Name == "err" {
					continue
				}
				ty := c17Type(vs.Type)
				z, err := t.zeroOf(ty)
				if err != nil {
					return "", err
				}
				gty, ok := c17GallinaType(vs.Type)
				if !ok {
					return "", t.errf(vs.Type, "declaration of a variable of this type")
				}
				t.declare(n.Name, ty)
				lets += "let " + n.Name + " : " + gty + " := " + z + " in\n"
			}
		}
		k, err := t.stmts(rest, fall)
		return lets + k, err
	case *ast.AssignStmt:
		return t.assign(x, rest, fall)
	case *ast.IfStmt:
		return t.ifStmt(x, rest, fall)
	case *ast.ForStmt:
		return t.forStmt(x, rest, fall)
	case *ast.RangeStmt:
		return t.rangeStmt(x, rest, fall)
	case *ast.BranchStmt:
		if x.Tok == token.CONTINUE && x.Label == nil && len(t.loopFall) > 0 {
			return t.loopFall[len(t.loopFall)-1], nil
		}
		return "", t.errf(nil, "branch statement %s", x.Tok)
	case *ast.ExprStmt:
		c, ok := x.X.(*ast.CallExpr)
		if !ok {
			return "", t.errf(x.X, "expression statement")
		}
		// a function value applied to a pointer: opt(o)
		if id, ok := c.Fun.(*ast.Ident); ok {
			if ty, ok := t.lookup(id.Name); ok && (ty == "func" || ty == "ToolsNodeOption") && len(c.Args) == 1 {
				if a, ok := c.Args[0].(*ast.Ident); ok {
					if aty, ok := t.lookup(a.Name); ok && strings.HasPrefix(aty, "*") {
						k, err := t.stmts(rest, fall)
						return "let " + a.Name + " := (" + id.Name + " " + a.Name + ") in\n" + k, err
					}
				}
			}
		}
		mut := t.mutatedArgs(c)
		if len(mut) != 1 {
			return "", t.errf(c, "call statement that mutates %d of its arguments", len(mut))
		}
		if t.mode != "res" {
			return "", t.errf(c, "mutating call in a function without an error result")
		}
		id, ok := c.Fun.(*ast.Ident)
		if !ok {
			return "", t.errf(c, "call statement")
		}
		if _, ok := t.funcs[id.Name]; !ok {
			if ty, ok := t.lookup(id.Name); !ok || ty != "func" {
				return "", t.errf(c, "call statement of an unknown function")
			}
		}
		pre, as, err := t.args(c)
		if err != nil {
			return "", err
		}
		k, err := t.stmts(rest, fall)
		if err != nil {
			return "", err
		}
		return c17Binds(pre, "do "+mut[0]+" <- "+id.Name+" "+strings.Join(as, " ")+";\n"+k), nil
	}
	return "", t.errf(nil, "statement %T not recognised", s)
}

func (t *c17T) assign(x *ast.AssignStmt, rest []ast.Stmt, fall string) (string, error) {
	define := x.Tok == token.DEFINE
	if x.Tok != token.DEFINE && x.Tok != token.ASSIGN {
		return "", t.errf(nil, "assignment operator %s", x.Tok)
	}
	// v, err := f(args) followed by the propagation of err
	if len(x.Lhs) == 2 && len(x.Rhs) == 1 && c17IsIdent(x.Lhs[1], "err") {
		c, ok := x.Rhs[0].(*ast.CallExpr)
		v, ok2 := x.Lhs[0].(*ast.Ident)
		if !ok || !ok2 || len(rest) == 0 || !c17IsErrPropagation(rest[0]) || t.mode != "res" {
			return "", t.errf(x.Rhs[0], "a call with an error result that is not followed by `if err != nil { return nil, err }`")
		}
		var fname string
		var recv []string
		switch f := c.Fun.(type) {
		case *ast.Ident:
			fname = f.Name
		case *ast.SelectorExpr: // a method of this file on a receiver variable, or a method of a tool
			fname = f.Sel.Name
			p, s, err := t.expr(f.X)
			if err != nil || len(p) > 0 {
				return "", t.errf(c, "receiver of a method call")
			}
			recv = []string{s}
			if t.typeOf(f.X) == "tool.BaseTool" {
				if fname != "Info" {
					return "", t.errf(c, "method of a tool with an error result")
				}
				fname = "BT_Info"
			}
		}
		fd, ok := t.funcs[fname]
		if !ok && fname != "BT_Info" {
			return "", t.errf(c, "call of an unknown function with an error result")
		}
		pre, as, err := t.args(c)
		if err != nil {
			return "", err
		}
		for i, a := range c.Args {
			if t.isOptSlice(a) {
				as[i] = "(slice_of " + as[i] + ")"
			}
		}
		switch {
		case fname == "BT_Info":
			t.declare(v.Name, "*schema.ToolInfo")
		case fd.Type.Results != nil && len(fd.Type.Results.List) > 0:
			if _, known := t.lookup(v.Name); !known || define {
				t.declare(v.Name, c17Type(fd.Type.Results.List[0].Type))
			}
		}
		k, err := t.stmts(rest[1:], fall)
		if err != nil {
			return "", err
		}
		return c17Binds(pre, "do "+v.Name+" <- "+fname+" "+strings.Join(append(recv, as...), " ")+";\n"+k), nil
	}
	// v, ok := m[k] followed by if !ok / if ok
	if len(x.Lhs) == 2 && len(x.Rhs) == 1 && c17IsIdent(x.Lhs[1], "ok") && define {
		ix, ok := x.Rhs[0].(*ast.IndexExpr)
		v, ok2 := x.Lhs[0].(*ast.Ident)
		if !ok || !ok2 || !strings.HasPrefix(t.typeOf(ix.X), "map[") || len(rest) == 0 {
			return "", t.errf(x.Rhs[0], "two-valued assignment")
		}
		is, ok := rest[0].(*ast.IfStmt)
		if !ok || is.Init != nil {
			return "", t.errf(x.Rhs[0], "a map lookup with ok that is not followed by a test of ok")
		}
		var absent, present []ast.Stmt
		els, hasElse := c17ElseList(is)
		switch {
		case c17IsIdent(is.Cond, "ok"):
			present, absent = is.Body.List, els
		default:
			u, ok := is.Cond.(*ast.UnaryExpr)
			if !ok || u.Op != token.NOT || !c17IsIdent(u.X, "ok") {
				return "", t.errf(is.Cond, "test after a map lookup with ok")
			}
			absent, present = is.Body.List, els
		}
		after := rest[1:]
		if !hasElse { // if !ok { ...return } ; rest   /   if ok { ... } ; rest
			if c17IsIdent(is.Cond, "ok") {
				return "", t.errf(is.Cond, "`if ok` without else after a map lookup")
			}
			if !c17Terminates(absent) {
				return "", t.errf(is.Cond, "`if !ok` without else that does not return")
			}
			present, after = after, nil
		}
		pm, m, err := t.expr(ix.X)
		if err != nil {
			return "", err
		}
		pk, key, err := t.expr(ix.Index)
		if err != nil {
			return "", err
		}
		vs := t.assigned(append(append([]ast.Stmt{}, absent...), present...))
		inner := fall
		if len(after) > 0 {
			inner = t.wrapRet(c17Tup(vs))
		}
		t.push()
		a, err := t.stmts(absent, inner)
		t.pop()
		if err != nil {
			return "", err
		}
		t.push()
		t.declare(v.Name, strings.SplitN(t.typeOf(ix.X), "]", 2)[1])
		p, err := t.stmts(present, inner)
		t.pop()
		if err != nil {
			return "", err
		}
		m1 := "match map_get " + m + " " + key + " with\n| None =>\n" + a + "\n| Some " + v.Name + " =>\n" + p + "\nend"
		if len(after) == 0 {
			return c17Binds(append(pm, pk...), m1), nil
		}
		k, err := t.stmts(after, fall)
		if err != nil {
			return "", err
		}
		return c17Binds(append(pm, pk...), t.bind(c17Pat(vs), "("+m1+")")+k), nil
	}
	// a.f, b.g = x.r.M(args): the two results of a method of an opaque value, into two fields
	if len(x.Lhs) == 2 && len(x.Rhs) == 1 && !define {
		c, ok := x.Rhs[0].(*ast.CallExpr)
		if !ok {
			return "", t.errf(x.Rhs[0], "two-valued assignment")
		}
		pre, callS, isM, err := t.opaqueMethod(c)
		if err != nil {
			return "", err
		}
		if !isM || t.mode != "res" {
			return "", t.errf(c, "two-valued assignment from this call")
		}
		r1, r2 := t.fresh(), t.fresh()
		out := c17Binds(pre, "do ("+r1+", "+r2+") <- "+callS+";\n")
		for i, l := range x.Lhs {
			sel, ok := l.(*ast.SelectorExpr)
			base, ok2 := sel.X.(*ast.Ident)
			if !ok || !ok2 {
				return "", t.errf(l, "left-hand side of a two-valued assignment")
			}
			st := c17StructOf(t.typeOf(base))
			if _, ok := t.fieldType(st, sel.Sel.Name); !ok {
				return "", t.errf(l, "field not known")
			}
			out += "let " + base.Name + " := (set_" + st + "_" + sel.Sel.Name + " " + base.Name + " " + []string{r1, r2}[i] + ") in\n"
		}
		k, err := t.stmts(rest, fall)
		return out + k, err
	}
	if len(x.Lhs) != 1 || len(x.Rhs) != 1 {
		return "", t.errf(nil, "assignment with %d left-hand sides", len(x.Lhs))
	}
	pre, rhs, err := t.expr(x.Rhs[0])
	if err != nil {
		return "", err
	}
	var line string
	switch l := x.Lhs[0].(type) {
	case *ast.Ident:
		if define || func() bool { _, ok := t.lookup(l.Name); return !ok }() {
			ty := t.typeOf(x.Rhs[0])
			if _, isLit := x.Rhs[0].(*ast.FuncLit); isLit {
				ty = "func"
			}
			t.declare(l.Name, ty)
		}
		line = "let " + l.Name + " := " + rhs + " in\n"
	case *ast.SelectorExpr: // x.f = e
		base, ok := l.X.(*ast.Ident)
		if ok {
			st := c17StructOf(t.typeOf(base))
			if _, ok := t.fieldType(st, l.Sel.Name); !ok {
				return "", t.errf(l, "field %s of %q not known", l.Sel.Name, st)
			}
			line = "let " + base.Name + " := (set_" + st + "_" + l.Sel.Name + " " + base.Name + " " + rhs + ") in\n"
			break
		}
		// xs[i].f = e
		ix, ok := l.X.(*ast.IndexExpr)
		if !ok {
			return "", t.errf(l, "left-hand side")
		}
		arr, ok := ix.X.(*ast.Ident)
		if !ok || t.mode != "res" {
			return "", t.errf(l, "left-hand side")
		}
		st := c17StructOf(strings.TrimPrefix(t.typeOf(arr), "[]"))
		if _, ok := t.fieldType(st, l.Sel.Name); !ok {
			return "", t.errf(l, "field %s of %q not known", l.Sel.Name, st)
		}
		pi, idx, err := t.expr(ix.Index)
		if err != nil {
			return "", err
		}
		pre = append(pre, pi...)
		e := t.fresh()
		line = "do " + arr.Name + " <- sl_upd " + arr.Name + " " + idx + " (fun " + e + " => set_" + st + "_" + l.Sel.Name + " " + e + " " + rhs + ");\n"
	case *ast.IndexExpr: // xs[i] = e ; x.f[k] = e (a map or a slice held in a field of a local struct)
		if sel, ok := l.X.(*ast.SelectorExpr); ok {
			base, ok := sel.X.(*ast.Ident)
			if !ok {
				return "", t.errf(l, "left-hand side")
			}
			st := c17StructOf(t.typeOf(base))
			fty, ok := t.fieldType(st, sel.Sel.Name)
			if !ok {
				return "", t.errf(l, "field %s of %q not known", sel.Sel.Name, st)
			}
			pi, idx, err := t.expr(l.Index)
			if err != nil {
				return "", err
			}
			pre = append(pre, pi...)
			get := "(" + st + "_" + sel.Sel.Name + " " + base.Name + ")"
			set := "set_" + st + "_" + sel.Sel.Name + " " + base.Name
			switch {
			case strings.HasPrefix(fty, "map["):
				line = "let " + base.Name + " := (" + set + " (map_set " + get + " " + idx + " " + rhs + ")) in\n"
			case strings.HasPrefix(fty, "[]") && t.mode == "res":
				v := t.fresh()
				line = "do " + v + " <- sl_set " + get + " " + idx + " " + rhs + ";\nlet " + base.Name + " := (" + set + " " + v + ") in\n"
			default:
				return "", t.errf(l, "left-hand side")
			}
			break
		}
		arr, ok := l.X.(*ast.Ident)
		if !ok || !strings.HasPrefix(t.typeOf(arr), "[]") || t.mode != "res" {
			return "", t.errf(l, "left-hand side")
		}
		pi, idx, err := t.expr(l.Index)
		if err != nil {
			return "", err
		}
		pre = append(pre, pi...)
		line = "do " + arr.Name + " <- sl_set " + arr.Name + " " + idx + " " + rhs + ";\n"
	default:
		return "", t.errf(x.Lhs[0], "left-hand side")
	}
	k, err := t.stmts(rest, fall)
	if err != nil {
		return "", err
	}
	return c17Binds(pre, line+k), nil
}

func (t *c17T) ifStmt(x *ast.IfStmt, rest []ast.Stmt, fall string) (string, error) {
	initLets := ""
	if x.Init != nil { // if v, ok = x.(tool.I); ok { ... }
		as, ok := x.Init.(*ast.AssignStmt)
		if !ok || as.Tok != token.ASSIGN || len(as.Lhs) != 2 || len(as.Rhs) != 1 {
			return "", t.errf(x.Cond, "if with an init statement of this shape")
		}
		v, ok1 := as.Lhs[0].(*ast.Ident)
		okv, ok2 := as.Lhs[1].(*ast.Ident)
		ta, ok3 := as.Rhs[0].(*ast.TypeAssertExpr)
		if !ok1 || !ok2 || !ok3 || ta.Type == nil || !c17IsToolIface(c17Type(ta.Type)) || t.typeOf(ta.X) != "tool.BaseTool" {
			return "", t.errf(x.Cond, "if with an init statement of this shape")
		}
		if vt, _ := t.lookup(v.Name); vt != c17Type(ta.Type) {
			return "", t.errf(x.Cond, "type assertion into a variable of another type")
		}
		if bt, _ := t.lookup(okv.Name); bt != "bool" {
			return "", t.errf(x.Cond, "type assertion: ok variable")
		}
		p, s, err := t.expr(ta.X)
		if err != nil || len(p) > 0 {
			return "", t.errf(ta.X, "type assertion operand")
		}
		initLets = "let " + v.Name + " := (assert_" + strings.TrimPrefix(c17Type(ta.Type), "tool.") + " " + s + ") in\n" +
			"let " + okv.Name + " := (negb (is_nil " + v.Name + ")) in\n"
	}
	pre, c, err := t.expr(x.Cond)
	if err != nil {
		return "", err
	}
	if initLets != "" {
		pre = append([]string{initLets}, pre...)
	}
	els, hasElse := c17ElseList(x)
	bodyT := c17Terminates(x.Body.List)
	elseT := hasElse && c17Terminates(els)
	block := func(l []ast.Stmt, f string) (string, error) {
		t.push()
		defer t.pop()
		return t.stmts(l, f)
	}
	switch {
	case len(rest) == 0 || (bodyT && elseT):
		a, err := block(x.Body.List, fall)
		if err != nil {
			return "", err
		}
		b, err := block(els, fall)
		if err != nil {
			return "", err
		}
		return c17Binds(pre, "if "+c+" then\n"+a+"\nelse\n"+b), nil
	case bodyT: // if c { ... return }; [else]; rest
		a, err := block(x.Body.List, "")
		if err != nil {
			return "", err
		}
		b, err := t.stmts(append(append([]ast.Stmt{}, els...), rest...), fall)
		if err != nil {
			return "", err
		}
		return c17Binds(pre, "if "+c+" then\n"+a+"\nelse\n"+b), nil
	case elseT:
		b, err := block(els, "")
		if err != nil {
			return "", err
		}
		a, err := t.stmts(append(append([]ast.Stmt{}, x.Body.List...), rest...), fall)
		if err != nil {
			return "", err
		}
		return c17Binds(pre, "if "+c+" then\n"+a+"\nelse\n"+b), nil
	}
	// neither branch returns on every path: the outer variables they assign are the state
	vs := t.assigned(append(append([]ast.Stmt{}, x.Body.List...), els...))
	st := t.wrapRet(c17Tup(vs))
	a, err := block(x.Body.List, st)
	if err != nil {
		return "", err
	}
	b, err := block(els, st)
	if err != nil {
		return "", err
	}
	k, err := t.stmts(rest, fall)
	if err != nil {
		return "", err
	}
	return c17Binds(pre, t.bind(c17Pat(vs), "(if "+c+" then\n"+a+"\nelse\n"+b+")")+k), nil
}

func (t *c17T) forStmt(x *ast.ForStmt, rest []ast.Stmt, fall string) (string, error) {
	if t.mode != "res" {
		return "", t.errf(nil, "counted loop in a function without an error result")
	}
	init, ok := x.Init.(*ast.AssignStmt)
	if !ok || init.Tok != token.DEFINE || len(init.Lhs) != 1 || len(init.Rhs) != 1 {
		return "", t.errf(nil, "loop header (init)")
	}
	iv, ok := init.Lhs[0].(*ast.Ident)
	if !ok {
		return "", t.errf(nil, "loop header (init)")
	}
	cond, ok := x.Cond.(*ast.BinaryExpr)
	if !ok || !c17IsIdent(cond.X, iv.Name) {
		return "", t.errf(nil, "loop header (condition)")
	}
	post, ok := x.Post.(*ast.IncDecStmt)
	if !ok || !c17IsIdent(post.X, iv.Name) {
		return "", t.errf(nil, "loop header (post statement)")
	}
	pa, a, err := t.expr(init.Rhs[0])
	if err != nil {
		return "", err
	}
	pb, b, err := t.expr(cond.Y)
	if err != nil {
		return "", err
	}
	var comb string
	switch {
	case post.Tok == token.INC && cond.Op == token.LSS:
		comb = "for_up " + a + " " + b
	case post.Tok == token.INC && cond.Op == token.LEQ:
		comb = "for_up " + a + " (" + b + " + 1)%Z"
	case post.Tok == token.DEC && cond.Op == token.GEQ:
		comb = "for_down " + a + " " + b
	case post.Tok == token.DEC && cond.Op == token.GTR:
		comb = "for_down " + a + " (" + b + " + 1)%Z"
	default:
		return "", t.errf(nil, "loop header (direction)")
	}
	vs := t.assigned(x.Body.List)
	for _, v := range vs {
		if v == iv.Name {
			return "", t.errf(nil, "the loop variable is assigned in the body")
		}
	}
	t.push()
	t.declare(iv.Name, "int")
	t.loopVars = append(t.loopVars, iv.Name)
	t.loopFall = append(t.loopFall, "Ok "+c17Tup(vs))
	body, err := t.stmts(x.Body.List, "Ok "+c17Tup(vs))
	t.loopFall = t.loopFall[:len(t.loopFall)-1]
	t.loopVars = t.loopVars[:len(t.loopVars)-1]
	t.pop()
	if err != nil {
		return "", err
	}
	k, err := t.stmts(rest, fall)
	if err != nil {
		return "", err
	}
	pat := c17Pat(vs)
	return c17Binds(append(pa, pb...), "do "+strings.TrimPrefix(pat, "'")+" <- "+comb+" (fun "+iv.Name+" "+pat+" =>\n"+body+") "+c17Tup(vs)+";\n"+k), nil
}

func (t *c17T) rangeStmt(x *ast.RangeStmt, rest []ast.Stmt, fall string) (string, error) {
	if kv, ok := x.Key.(*ast.Ident); t.mode == "res" && ok && x.Value == nil && x.Tok == token.DEFINE && kv.Name != "_" &&
		strings.HasPrefix(t.typeOf(x.X), "[]") && !t.isOptSlice(x.X) {
		// for i := range xs { ... }  =  for i := 0; i < len(xs); i++ { ... }
		p, xs, err := t.expr(x.X)
		if err != nil || len(p) > 0 {
			return "", t.errf(x.X, "range over this expression")
		}
		vs := t.assigned(x.Body.List)
		for _, v := range vs {
			if v == kv.Name || v == xs {
				return "", t.errf(nil, "the range variable or the slice is assigned in the body")
			}
		}
		t.push()
		t.declare(kv.Name, "int")
		t.loopVars = append(t.loopVars, kv.Name)
		t.loopFall = append(t.loopFall, "Ok "+c17Tup(vs))
		body, err := t.stmts(x.Body.List, "Ok "+c17Tup(vs))
		t.loopFall = t.loopFall[:len(t.loopFall)-1]
		t.loopVars = t.loopVars[:len(t.loopVars)-1]
		t.pop()
		if err != nil {
			return "", err
		}
		k, err := t.stmts(rest, fall)
		if err != nil {
			return "", err
		}
		pat := c17Pat(vs)
		return "do " + strings.TrimPrefix(pat, "'") + " <- for_up 0%Z (sl_len " + xs + ") (fun " + kv.Name + " " + pat + " =>\n" + body + ") " + c17Tup(vs) + ";\n" + k, nil
	}
	if t.mode == "res" { // for i, v := range xs { ... }  =  for i := 0; i < len(xs); i++ { v := xs[i]; ... }
		kv, ok1 := x.Key.(*ast.Ident)
		vv, ok2 := x.Value.(*ast.Ident)
		if !ok1 || !ok2 || x.Tok != token.DEFINE || kv.Name == "_" || vv.Name == "_" || !strings.HasPrefix(t.typeOf(x.X), "[]") || t.isOptSlice(x.X) {
			return "", t.errf(nil, "range loop of this shape")
		}
		p, xs, err := t.expr(x.X)
		if err != nil || len(p) > 0 {
			return "", t.errf(x.X, "range over this expression")
		}
		vs := t.assigned(x.Body.List)
		for _, v := range vs {
			if v == kv.Name || v == vv.Name || v == xs {
				return "", t.errf(nil, "a range variable or the slice is assigned in the body")
			}
		}
		t.push()
		t.declare(kv.Name, "int")
		t.declare(vv.Name, strings.TrimPrefix(t.typeOf(x.X), "[]"))
		t.loopVars = append(t.loopVars, kv.Name, vv.Name)
		t.loopFall = append(t.loopFall, "Ok "+c17Tup(vs))
		body, err := t.stmts(x.Body.List, "Ok "+c17Tup(vs))
		t.loopFall = t.loopFall[:len(t.loopFall)-1]
		t.loopVars = t.loopVars[:len(t.loopVars)-2]
		t.pop()
		if err != nil {
			return "", err
		}
		k, err := t.stmts(rest, fall)
		if err != nil {
			return "", err
		}
		pat := c17Pat(vs)
		return "do " + strings.TrimPrefix(pat, "'") + " <- for_up 0%Z (sl_len " + xs + ") (fun " + kv.Name + " " + pat + " =>\ndo " + vv.Name + " <- sl_get " + xs + " " + kv.Name + ";\n" + body + ") " + c17Tup(vs) + ";\n" + k, nil
	}
	if t.mode != "pure" || !c17IsIdent(x.Key, "_") || x.Tok != token.DEFINE {
		return "", t.errf(nil, "range loop of this shape")
	}
	v, ok := x.Value.(*ast.Ident)
	if !ok {
		return "", t.errf(nil, "range loop of this shape")
	}
	p, xs, err := t.expr(x.X)
	if err != nil || len(p) > 0 {
		return "", t.errf(x.X, "range over this expression")
	}
	vs := t.assigned(x.Body.List)
	if len(vs) != 1 {
		return "", t.errf(nil, "range loop that assigns %d outer variables", len(vs))
	}
	t.push()
	t.declare(v.Name, strings.TrimPrefix(t.typeOf(x.X), "[]"))
	body, err := t.stmts(x.Body.List, vs[0])
	t.pop()
	if err != nil {
		return "", err
	}
	k, err := t.stmts(rest, fall)
	if err != nil {
		return "", err
	}
	return "let " + vs[0] + " := fold_left (fun " + vs[0] + " " + v.Name + " =>\n" + body + ") " + xs + " " + vs[0] + " in\n" + k, nil
}

// ---- whole functions

type c17Sig struct {
	recv   string // receiver type ("" none)
	goSig  string // expected Go signature (parameters and results by type)
	params string // Gallina binders
	result string // Gallina result type
	mode   string // res | pure | task (no result, mutates *toolCallTask, may panic: res of the task) | optfn (returns a closure)
}

var c17Sigs = map[string]c17Sig{
	"convTools":               {"", "(context.Context,[]tool.BaseTool)(*toolsTuple,error)", "(ctx : CTX) (tools : list BT)", "res (toolsTuple META RP)", "res"},
	"NewToolNode":             {"", "(context.Context,*ToolsNodeConfig)(*ToolsNode,error)", "(ctx : CTX) (conf : ToolsNodeConfig BT)", "res (ToolsNode META RP)", "res"},
	"getToolsNodeOptions":     {"", "([]ToolsNodeOption)*toolsNodeOptions", "(opts : list (toolsNodeOptions BT TOPT -> toolsNodeOptions BT TOPT))", "toolsNodeOptions BT TOPT", "pure"},
	"WithToolOption":          {"", "([]tool.Option)ToolsNodeOption", "(opts : list TOPT)", "toolsNodeOptions BT TOPT -> toolsNodeOptions BT TOPT", "pure"},
	"WithToolList":            {"", "([]tool.BaseTool)ToolsNodeOption", "(tool : option (list BT))", "toolsNodeOptions BT TOPT -> toolsNodeOptions BT TOPT", "pure"},
	"newUnknownToolTask":      {"", "(string,string,string,func)toolCallTask", "(name arg callID : string) (unknownToolHandler : option (CTX -> string -> string -> tres))", "toolCallTask META RP", "pure"},
	"genToolCallTasks":        {"*ToolsNode", "(*toolsTuple,*schema.Message)([]toolCallTask,error)", "(tn : ToolsNode META RP) (tuple : toolsTuple META RP) (input : Message)", "res (list (toolCallTask META RP))", "res"},
	"runToolCallTaskByInvoke": {"", "(context.Context,*toolCallTask,[]tool.Option)", "(ctx : CTX) (task : toolCallTask META RP) (opts : list TOPT)", "res (toolCallTask META RP)", "task"},
	"runToolCallTaskByStream": {"", "(context.Context,*toolCallTask,[]tool.Option)", "(ctx : CTX) (task : toolCallTask META RP) (opts : list TOPT)", "res (toolCallTask META RP)", "task"},
	"Invoke":                  {"*ToolsNode", "(context.Context,*schema.Message,[]ToolsNodeOption)([]*schema.Message,error)", "(tn : ToolsNode META RP) (ctx : CTX) (input : Message) (opts : list (toolsNodeOptions BT TOPT -> toolsNodeOptions BT TOPT))", "res (list (option tmsg))", "res"},
	"Stream":                  {"*ToolsNode", "(context.Context,*schema.Message,[]ToolsNodeOption)(*schema.StreamReader[[]*schema.Message],error)", "(tn : ToolsNode META RP) (ctx : CTX) (input : Message) (opts : list (toolsNodeOptions BT TOPT -> toolsNodeOptions BT TOPT))", "res (merged_stream (list (option tmsg)))", "res"},
}

var c17Order = []string{"convTools", "NewToolNode", "getToolsNodeOptions", "WithToolOption", "WithToolList", "newUnknownToolTask", "genToolCallTasks",
	"runToolCallTaskByInvoke", "runToolCallTaskByStream", "Invoke", "Stream"}

func c17GoSig(fd *ast.FuncDecl) string {
	var ps, rs []string
	for _, p := range c17Params(fd.Type.Params) {
		ps = append(ps, p.typ)
	}
	for _, r := range c17Params(fd.Type.Results) {
		rs = append(rs, r.typ)
	}
	out := "(" + strings.Join(ps, ",") + ")"
	switch len(rs) {
	case 0:
	case 1:
		out += rs[0]
	default:
		out += "(" + strings.Join(rs, ",") + ")"
	}
	return out
}

func c17Indent(s string, ind string) string {
	lines := strings.Split(s, "\n")
	depth := 0
	var b strings.Builder
	for _, ln := range lines {
		ln = strings.TrimSpace(ln)
		if ln == "" {
			continue
		}
		d := depth
		if strings.HasPrefix(ln, "end") || strings.HasPrefix(ln, "| ") || strings.HasPrefix(ln, "else") {
			d--
		}
		if d < 0 {
			d = 0
		}
		b.WriteString(ind + strings.Repeat("  ", d) + ln + "\n")
		depth += strings.Count(ln, "(") - strings.Count(ln, ")")
		if strings.HasPrefix(ln, "match ") {
			depth++
		}
		if strings.HasPrefix(ln, "end") {
			depth--
		}
		if depth < 0 {
			depth = 0
		}
	}
	return b.String()
}

func (t *c17T) function(name string) (string, error) {
	fd := t.funcs[name]
	sig, ok := c17Sigs[name]
	if fd == nil || !ok || fd.Body == nil {
		return "", fmt.Errorf("function %s not found", name)
	}
	recvTy := ""
	if fd.Recv != nil && len(fd.Recv.List) == 1 {
		recvTy = c17Type(fd.Recv.List[0].Type)
	}
	if recvTy != sig.recv || c17GoSig(fd) != sig.goSig {
		return "", fmt.Errorf("%s: signature %s %s, expected %s %s", name, recvTy, c17GoSig(fd), sig.recv, sig.goSig)
	}
	errK, tmpK := 0, 0
	t.fn, t.errK, t.tmpK = name, &errK, &tmpK
	t.env = []c17Scope{{}}
	if fd.Recv != nil {
		for _, p := range c17Params(fd.Recv) {
			t.declare(p.name, p.typ)
		}
	}
	for _, p := range c17Params(fd.Type.Params) {
		t.declare(p.name, p.typ)
	}
	var body string
	var err error
	switch sig.mode {
	case "res":
		t.mode = "res"
		body, err = t.stmts(fd.Body.List, "")
	case "pure":
		t.mode = "pure"
		body, err = t.stmts(fd.Body.List, "")
	case "task":
		t.mode = "res"
		body, err = t.stmts(fd.Body.List, "Ok task")
	}
	if err != nil {
		return "", err
	}
	return "  Definition " + name + " " + sig.params + " : " + sig.result + " :=\n" + c17Indent(body, "    ") + "  .\n\n", nil
}

// ---- parallelRunToolCall: shape constants

func c17IntLit(e ast.Expr) (string, bool) {
	l, ok := e.(*ast.BasicLit)
	if !ok || l.Kind != token.INT {
		return "", false
	}
	return l.Value, true
}

// whether a call of run hands the tool options on: run(_, _, opts...)
func c17PassesOpts(c *ast.CallExpr, opts string) bool {
	return len(c.Args) == 3 && c.Ellipsis.IsValid() && c17IsIdent(c.Args[2], opts)
}

var c17OptsDropped []string // the run calls of parallelRunToolCall that do not hand the tool options on

// run(ctx, &tasks[K], opts...) -> K
func c17RunCallIndex(s ast.Stmt, run, tasks string) (string, bool) {
	es, ok := s.(*ast.ExprStmt)
	if !ok {
		return "", false
	}
	c, ok := es.X.(*ast.CallExpr)
	if !ok || !c17IsIdent(c.Fun, run) || len(c.Args) < 2 || len(c.Args) > 3 {
		return "", false
	}
	if !c17PassesOpts(c, "opts") {
		c17OptsDropped = append(c17OptsDropped, "run(&"+tasks+"[...])")
	}
	u, ok := c.Args[1].(*ast.UnaryExpr)
	if !ok || u.Op != token.AND {
		return "", false
	}
	ix, ok := u.X.(*ast.IndexExpr)
	if !ok || !c17IsIdent(ix.X, tasks) {
		return "", false
	}
	return strings.Join(strings.Fields(types.ExprString(ix.Index)), ""), true
}

// the names the file gives to function types: type N func(...)
func c17FuncTypeNames(f *ast.File) map[string]bool {
	out := map[string]bool{}
	if f == nil {
		return out
	}
	for _, d := range f.Decls {
		gd, ok := d.(*ast.GenDecl)
		if !ok || gd.Tok != token.TYPE {
			continue
		}
		for _, sp := range gd.Specs {
			if ts, ok := sp.(*ast.TypeSpec); ok && ts.TypeParams == nil {
				if _, ok := ts.Type.(*ast.FuncType); ok {
					out[ts.Name.Name] = true
				}
			}
		}
	}
	return out
}

// the name of the variadic last parameter, "" if there is none
func c17VariadicParam(fl *ast.FieldList) string {
	if fl == nil || len(fl.List) == 0 {
		return ""
	}
	last := fl.List[len(fl.List)-1]
	if _, ok := last.Type.(*ast.Ellipsis); !ok || len(last.Names) != 1 {
		return ""
	}
	return last.Names[0].Name
}

func c17ParallelShape(fd *ast.FuncDecl, funcs map[string]*ast.FuncDecl, file *ast.File) (string, error) {
	bad := func(f string, a ...any) (string, error) {
		return "", fmt.Errorf("parallelRunToolCall: "+f, a...)
	}
	if fd == nil || fd.Body == nil {
		return bad("signature")
	}
	// (the runner may be given as a function type or under a name the file gives to a function type)
	if sig := c17GoSig(fd); sig != "(context.Context,func,[]toolCallTask,[]tool.Option)" {
		sps := c17Params(fd.Type.Params)
		if len(sps) != 4 || !c17FuncTypeNames(file)[sps[1].typ] ||
			strings.Replace(sig, ","+sps[1].typ+",", ",func,", 1) != "(context.Context,func,[]toolCallTask,[]tool.Option)" {
			return bad("signature")
		}
	}
	ps := c17Params(fd.Type.Params)
	run, tasks := ps[1].name, ps[2].name
	if ps[3].name != "opts" {
		return bad("name of the tool options parameter")
	}
	c17OptsDropped = nil
	l := fd.Body.List
	// (the goroutines are registered one by one, wg.Add(1) before each go statement, or all at once before the
	// spawn loop, wg.Add(len(tasks) - K) with K the index the loop starts from: either way the counter is never
	// below the number of spawned goroutines that have not called Done)
	addUpfront, addCall := "", ""
	if len(l) == 6 {
		if es, ok := l[2].(*ast.ExprStmt); ok {
			if c, ok := es.X.(*ast.CallExpr); ok && len(c.Args) == 1 && !c.Ellipsis.IsValid() {
				if b, ok := c.Args[0].(*ast.BinaryExpr); ok && b.Op == token.SUB {
					if k, ok := c17IntLit(b.Y); ok && strings.Join(strings.Fields(types.ExprString(b.X)), "") == "len("+tasks+")" {
						addUpfront, addCall = k, strings.Join(strings.Fields(types.ExprString(c.Fun)), "")
						l = append(append([]ast.Stmt{}, l[:2]...), l[3:]...)
					}
				}
			}
		}
	}
	if len(l) != 5 {
		return bad("%d statements, expected 5", len(fd.Body.List))
	}
	// if len(tasks) == K { run(ctx, &tasks[J], opts...); return }
	is, ok := l[0].(*ast.IfStmt)
	if !ok || is.Else != nil || is.Init != nil || len(is.Body.List) != 2 {
		return bad("single-task shortcut")
	}
	c, ok := is.Cond.(*ast.BinaryExpr)
	if !ok || c.Op != token.EQL || strings.Join(strings.Fields(types.ExprString(c.X)), "") != "len("+tasks+")" {
		return bad("single-task shortcut (condition)")
	}
	singleLen, ok := c17IntLit(c.Y)
	if !ok {
		return bad("single-task shortcut (condition)")
	}
	singleIdx, ok := c17RunCallIndex(is.Body.List[0], run, tasks)
	if !ok {
		return bad("single-task shortcut (call)")
	}
	if r, ok := is.Body.List[1].(*ast.ReturnStmt); !ok || len(r.Results) != 0 {
		return bad("single-task shortcut (return)")
	}
	// var wg sync.WaitGroup
	ds, ok := l[1].(*ast.DeclStmt)
	if !ok {
		return bad("WaitGroup declaration")
	}
	gd, ok := ds.Decl.(*ast.GenDecl)
	if !ok || len(gd.Specs) != 1 {
		return bad("WaitGroup declaration")
	}
	vsp, ok := gd.Specs[0].(*ast.ValueSpec)
	if !ok || len(vsp.Names) != 1 || c17Type(vsp.Type) != "sync.WaitGroup" {
		return bad("WaitGroup declaration")
	}
	wg := vsp.Names[0].Name
	// for i := A; i < len(tasks); i++ { wg.Add(1); go func(ctx_, t, opts...) {...}(ctx, &tasks[i], opts...) }
	fs, ok := l[2].(*ast.ForStmt)
	if !ok {
		return bad("spawn loop")
	}
	init, ok := fs.Init.(*ast.AssignStmt)
	if !ok || init.Tok != token.DEFINE || len(init.Lhs) != 1 {
		return bad("spawn loop (init)")
	}
	iv, ok := init.Lhs[0].(*ast.Ident)
	from, ok2 := c17IntLit(init.Rhs[0])
	if !ok || !ok2 {
		return bad("spawn loop (init)")
	}
	cond, ok := fs.Cond.(*ast.BinaryExpr)
	if !ok || !c17IsIdent(cond.X, iv.Name) || cond.Op != token.LSS || strings.Join(strings.Fields(types.ExprString(cond.Y)), "") != "len("+tasks+")" {
		return bad("spawn loop (condition)")
	}
	post, ok := fs.Post.(*ast.IncDecStmt)
	if !ok || post.Tok != token.INC || !c17IsIdent(post.X, iv.Name) {
		return bad("spawn loop (post)")
	}
	var gs *ast.GoStmt
	if addUpfront != "" {
		if addCall != wg+".Add" || addUpfront != from {
			return bad("wg.Add before the spawn loop does not register the goroutines the loop spawns")
		}
		if len(fs.Body.List) != 1 {
			return bad("spawn loop body")
		}
		gs, ok = fs.Body.List[0].(*ast.GoStmt)
	} else {
		if len(fs.Body.List) != 2 {
			return bad("spawn loop body")
		}
		add, ok := fs.Body.List[0].(*ast.ExprStmt)
		if !ok || strings.Join(strings.Fields(types.ExprString(add.X)), "") != wg+".Add(1)" {
			return bad("spawn loop: wg.Add(1) expected before the go statement")
		}
		gs, ok = fs.Body.List[1].(*ast.GoStmt)
	}
	if !ok {
		return bad("spawn loop: go statement")
	}
	lit, ok := gs.Call.Fun.(*ast.FuncLit)
	if !ok || len(gs.Call.Args) < 1 || len(gs.Call.Args) > 3 {
		return bad("go statement")
	}
	lps := c17Params(lit.Type.Params)
	if len(lps) != len(gs.Call.Args) {
		return bad("goroutine parameters")
	}
	// the task handed over: the argument &tasks[_] (the context and the tool options are parameters of the
	// goroutine's function, or captured by it: nothing in this function assigns them)
	tpos := -1
	var ix *ast.IndexExpr
	for j, a := range gs.Call.Args {
		if u, ok := a.(*ast.UnaryExpr); ok && u.Op == token.AND {
			if x, ok := u.X.(*ast.IndexExpr); ok && c17IsIdent(x.X, tasks) {
				if tpos >= 0 {
					return bad("go statement: the task handed over")
				}
				tpos, ix = j, x
			}
		}
	}
	if tpos < 0 {
		return bad("go statement: the task handed over")
	}
	optsInner := c17VariadicParam(lit.Type.Params)
	if optsInner != "" {
		last := gs.Call.Args[len(gs.Call.Args)-1]
		if !gs.Call.Ellipsis.IsValid() || !c17IsIdent(last, "opts") {
			c17OptsDropped = append(c17OptsDropped, "go statement")
		}
	} else {
		for _, lp := range lps {
			if lp.name == "opts" {
				return bad("goroutine parameters")
			}
		}
		optsInner = "opts" // captured
	}
	cell := strings.Join(strings.Fields(types.ExprString(ix.Index)), "")
	cellG := ""
	switch {
	case cell == iv.Name:
		cellG = "i"
	default:
		// i +/- k
		if b, ok := ix.Index.(*ast.BinaryExpr); ok && c17IsIdent(b.X, iv.Name) {
			if k, ok := c17IntLit(b.Y); ok && (b.Op == token.ADD || b.Op == token.SUB) {
				cellG = "(i " + b.Op.String() + " " + k + ")%Z"
			}
		}
		if k, ok := c17IntLit(ix.Index); ok {
			cellG = k + "%Z"
		}
	}
	if cellG == "" {
		return bad("go statement: index of the task handed over")
	}
	tparam := lps[tpos].name
	// One frame (the goroutine's function, or a helper it calls that runs the task): its statements in the order
	// they execute - the body, then the frame's deferred calls, last deferred first. A helper's steps take the
	// place of its call. A recover handler deferred in a frame contains the panics of that frame and of the frames
	// it calls, so the handler must be deferred in the frame that runs the tool or in its caller.
	var frame func(list []ast.Stmt, runN, tN, optsN string, top bool) ([]string, string)
	frame = func(list []ast.Stmt, runN, tN, optsN string, top bool) ([]string, string) {
		var defers, body []string
		flag := ""
		ranHere := false
		for _, st := range list {
			switch s := st.(type) {
			case *ast.DeferStmt:
				if len(body) > 0 {
					return nil, "a defer statement after the tool has been run"
				}
				if sel, ok := s.Call.Fun.(*ast.SelectorExpr); ok && top && c17IsIdent(sel.X, wg) && sel.Sel.Name == "Done" && len(s.Call.Args) == 0 {
					defers = append(defers, "GDone")
				} else if fl, ok := s.Call.Fun.(*ast.FuncLit); ok && c17RecoverStores(fl, tN) {
					defers = append(defers, "GRecover")
				} else {
					return nil, "a deferred call of another shape"
				}
			case *ast.ExprStmt:
				c, ok := s.X.(*ast.CallExpr)
				if !ok {
					return nil, "a statement of another shape in the goroutine"
				}
				if c17IsIdent(c.Fun, runN) {
					if len(c.Args) < 2 || len(c.Args) > 3 || !c17IsIdent(c.Args[1], tN) {
						return nil, "a statement of another shape in the goroutine"
					}
					if !c17PassesOpts(c, optsN) {
						c17OptsDropped = append(c17OptsDropped, "goroutine")
					}
					body = append(body, "GRun")
					ranHere = true
					continue
				}
				// a helper of this file that is handed the runner and the task
				hid, ok := c.Fun.(*ast.Ident)
				if !ok || !top || funcs[hid.Name] == nil {
					return nil, "a statement of another shape in the goroutine"
				}
				h := funcs[hid.Name]
				hps := c17Params(h.Type.Params)
				optsH := c17VariadicParam(h.Type.Params)
				if h.Recv != nil || h.Body == nil || h.Type.TypeParams != nil || len(c17Params(h.Type.Results)) != 0 ||
					(len(hps) != len(c.Args) && !(optsH != "" && len(hps) == len(c.Args)+1)) {
					return nil, "a helper of another shape in the goroutine"
				}
				runH, tH := "", ""
				for j, a := range c.Args {
					switch {
					case c17IsIdent(a, runN) && runH == "":
						runH = hps[j].name
					case c17IsIdent(a, tN) && tH == "":
						tH = hps[j].name
					}
				}
				if runH == "" || tH == "" || runH == "_" || tH == "_" {
					return nil, "a helper of another shape in the goroutine"
				}
				if optsH == "" || !c.Ellipsis.IsValid() || !c17IsIdent(c.Args[len(c.Args)-1], optsN) {
					c17OptsDropped = append(c17OptsDropped, "helper call in the goroutine")
				}
				hs, why := frame(h.Body.List, runH, tH, optsH, false)
				if why != "" {
					return nil, why
				}
				hasRun, hasRec := false, false
				for _, x := range hs {
					hasRun = hasRun || x == "GRun"
					hasRec = hasRec || x == "GRecover"
				}
				if !hasRun {
					return nil, "a helper that does not run the tool"
				}
				_ = hasRec
				body = append(body, hs...)
			case *ast.AssignStmt:
				// a completion flag for the recover handler (a panic whose value recover() reports as nil):
				// `flag := false` before the tool is run, `flag = true` after it; no effect on the order of the steps
				if len(s.Lhs) != 1 || len(s.Rhs) != 1 {
					return nil, "a statement of another shape in the goroutine"
				}
				id, ok := s.Lhs[0].(*ast.Ident)
				if !ok {
					return nil, "a statement of another shape in the goroutine"
				}
				switch {
				case s.Tok == token.DEFINE && len(body) == 0 && flag == "" && c17IsIdent(s.Rhs[0], "false"):
					flag = id.Name
				case s.Tok == token.ASSIGN && len(body) == 1 && ranHere && flag != "" && id.Name == flag && c17IsIdent(s.Rhs[0], "true"):
				default:
					return nil, "a statement of another shape in the goroutine"
				}
			default:
				return nil, "a statement of another shape in the goroutine"
			}
		}
		steps := append([]string{}, body...)
		for i := len(defers) - 1; i >= 0; i-- {
			steps = append(steps, defers[i])
		}
		return steps, ""
	}
	prog, why := frame(lit.Body.List, run, tparam, optsInner, true)
	if why != "" {
		return bad("%s", why)
	}
	cnt := map[string]int{}
	for _, x := range prog {
		cnt[x]++
	}
	if len(prog) != 3 || cnt["GRun"] != 1 || cnt["GRecover"] != 1 || cnt["GDone"] != 1 {
		return bad("expected one run call, one deferred wg.Done and one deferred recover handler")
	}
	// run(ctx, &tasks[J], opts...) ; wg.Wait()
	inline, ok := c17RunCallIndex(l[3], run, tasks)
	if !ok {
		return bad("inline task")
	}
	w, ok := l[4].(*ast.ExprStmt)
	if !ok || strings.Join(strings.Fields(types.ExprString(w.X)), "") != wg+".Wait()" {
		return bad("wg.Wait() expected last")
	}
	z := func(s string) string {
		if _, err := strconv.Atoi(s); err == nil {
			return s + "%Z"
		}
		return ""
	}
	if z(singleIdx) == "" || z(inline) == "" {
		return bad("index of the task run inline")
	}
	var b strings.Builder
	b.WriteString("(* parallelRunToolCall (goroutines: not translated as code; its shape) *)\n")
	fmt.Fprintf(&b, "Definition par_single_len : Z := %s%%Z.          (* if len(tasks) == _ { run(&tasks[_]); return } *)\n", singleLen)
	fmt.Fprintf(&b, "Definition par_single_index : Z := %s.\n", z(singleIdx))
	fmt.Fprintf(&b, "Definition par_spawn_from : Z := %s%%Z.          (* for i := _; i < len(tasks); i++ { wg.Add(1); go ...(&tasks[_]) } *)\n", from)
	fmt.Fprintf(&b, "Definition par_spawn_cell (i : Z) : Z := %s.\n", cellG)
	fmt.Fprintf(&b, "Definition par_inline_index : Z := %s.       (* then run(&tasks[_]) on the caller's goroutine, then wg.Wait() *)\n", z(inline))
	fmt.Fprintf(&b, "Definition par_goroutine_prog : list gact := [%s].   (* the body, then the deferred calls, last deferred first *)\n", strings.Join(prog, "; "))
	fmt.Fprintf(&b, "Definition par_options_handed_on : bool := %v.   (* every run of a task is handed the call's tool options%s *)\n\n", len(c17OptsDropped) == 0,
		map[bool]string{true: "", false: "; NOT: " + strings.Join(c17OptsDropped, ", ")}[len(c17OptsDropped) == 0])
	return b.String(), nil
}

// defer func() { p := recover(); if p != nil { t.err = ... } }()
func c17RecoverStores(fl *ast.FuncLit, tparam string) bool {
	rec, store := false, false
	ast.Inspect(fl.Body, func(x ast.Node) bool {
		switch s := x.(type) {
		case *ast.CallExpr:
			if c17IsIdent(s.Fun, "recover") {
				rec = true
			}
		case *ast.AssignStmt:
			for _, l := range s.Lhs {
				if sel, ok := l.(*ast.SelectorExpr); ok && c17IsIdent(sel.X, tparam) && sel.Sel.Name == "err" {
					store = true
				}
			}
		}
		return true
	})
	return rec && store
}

// ---- schema.ToolMessage

func c17ToolMessage(f *ast.File) (string, error) {
	fd := c17TopFunc(f, "ToolMessage")
	if fd == nil || fd.Body == nil || len(fd.Body.List) != 1 {
		return "", fmt.Errorf("schema.ToolMessage: shape")
	}
	ps := c17Params(fd.Type.Params)
	if len(ps) != 2 || ps[0].typ != "string" || ps[1].typ != "string" {
		return "", fmt.Errorf("schema.ToolMessage: parameters")
	}
	r, ok := fd.Body.List[0].(*ast.ReturnStmt)
	if !ok || len(r.Results) != 1 {
		return "", fmt.Errorf("schema.ToolMessage: shape")
	}
	u, ok := r.Results[0].(*ast.UnaryExpr)
	if !ok || u.Op != token.AND {
		return "", fmt.Errorf("schema.ToolMessage: shape")
	}
	cl, ok := u.X.(*ast.CompositeLit)
	if !ok || c17Type(cl.Type) != "Message" {
		return "", fmt.Errorf("schema.ToolMessage: shape")
	}
	got := map[string]string{}
	for _, el := range cl.Elts {
		kv, ok := el.(*ast.KeyValueExpr)
		if !ok {
			return "", fmt.Errorf("schema.ToolMessage: literal")
		}
		got[types.ExprString(kv.Key)] = types.ExprString(kv.Value)
	}
	if len(got) != 3 || got["Role"] != "Tool" {
		return "", fmt.Errorf("schema.ToolMessage: fields %v", got)
	}
	for _, k := range []string{"Content", "ToolCallID"} {
		if got[k] != ps[0].name && got[k] != ps[1].name {
			return "", fmt.Errorf("schema.ToolMessage: field %s = %s", k, got[k])
		}
	}
	return fmt.Sprintf("(* schema.ToolMessage: a non-nil message of role Tool *)\nDefinition ToolMessage (%s %s : string) : option tmsg := Some (mk_tool_message %s %s).\n\n",
		ps[0].name, ps[1].name, got["Content"], got["ToolCallID"]), nil
}

// ---- the extractor

var c17WantStructs = map[string]string{
	"toolsNodeOptions": "ToolOptions:[]tool.Option ToolList:[]tool.BaseTool",
	"ToolsNode":        "tuple:*toolsTuple unknownToolHandler:func",
	"toolsTuple":       "indexes:map[string]int meta:[]*executorMeta rps:[]*runnablePacker[...]",
	"toolCallTask":     "r:*runnablePacker[...] meta:*executorMeta name:string arg:string callID:string output:string sOutput:*schema.StreamReader[string] err:error",
	"toolCallInfo":     "toolCallID:string",
	"ToolsNodeConfig":  "Tools:[]tool.BaseTool UnknownToolsHandler:func",
}

func c17Structs(f *ast.File, into map[string][]c17Field) {
	for _, d := range f.Decls {
		gd, ok := d.(*ast.GenDecl)
		if !ok || gd.Tok != token.TYPE {
			continue
		}
		for _, sp := range gd.Specs {
			ts, ok := sp.(*ast.TypeSpec)
			if !ok {
				continue
			}
			st, ok := ts.Type.(*ast.StructType)
			if !ok {
				continue
			}
			into[ts.Name.Name] = c17Params(st.Fields)
		}
	}
}

func c17ExtractToolNode(repo string) (string, string, error) {
	fset := token.NewFileSet()
	f, err := c17ParseGo(fset, repo, "compose", "tool_node.go")
	if err != nil {
		return "", "", err
	}
	mf, err := c17ParseGo(fset, repo, "schema", "message.go")
	if err != nil {
		return "", "", err
	}
	t := &c17T{structs: map[string][]c17Field{}, funcs: map[string]*ast.FuncDecl{}}
	c17Structs(f, t.structs)
	for name, want := range c17WantStructs {
		var got []string
		for _, fl := range t.structs[name] {
			got = append(got, fl.name+":"+fl.typ)
		}
		if strings.Join(got, " ") != want {
			return "", "", fmt.Errorf("struct %s has fields {%s}, expected {%s}", name, strings.Join(got, " "), want)
		}
	}
	// the fields of the schema structs that the vocabulary knows
	schemaStructs := map[string][]c17Field{}
	c17Structs(mf, schemaStructs)
	tf, err := c17ParseGo(fset, repo, "schema", "tool.go")
	if err != nil {
		return "", "", err
	}
	c17Structs(tf, schemaStructs)
	gn, err := c17ParseGo(fset, repo, "compose", "graph_node.go")
	if err != nil {
		return "", "", err
	}
	c17Structs(gn, schemaStructs)
	for st, fields := range map[string][]string{"Message": {"Role", "ToolCalls"}, "ToolCall": {"ID", "Function"}, "FunctionCall": {"Name", "Arguments"},
		"ToolInfo": {"Name"}, "executorMeta": {"isComponentCallbackEnabled"}} {
		for _, fn := range fields {
			found := false
			for _, fl := range schemaStructs[st] {
				if fl.name == fn {
					t.structs[st] = append(t.structs[st], fl)
					found = true
				}
			}
			if !found {
				return "", "", fmt.Errorf("schema.%s has no field %s", st, fn)
			}
		}
	}
	for _, d := range f.Decls {
		if fd, ok := d.(*ast.FuncDecl); ok {
			t.funcs[fd.Name.Name] = fd
		}
	}
	var b strings.Builder
	b.WriteString("(* Gen/ToolNode.v — GENERATED by tools/go2v (extractor \"toolnode\") from compose/tool_node.go (translated\n" +
		"   statement by statement) and schema/message.go (ToolMessage).  Do not edit. *)\n" +
		"From Eino Require Import Base.Util Model.Tools Model.ToolsPar Model.ToolsGenLib.\n\n" +
		"Definition tie_available : bool := true.\n\n")
	tm, err := c17ToolMessage(mf)
	if err != nil {
		return "", "", err
	}
	b.WriteString(tm)
	par, err := c17ParallelShape(t.funcs["parallelRunToolCall"], t.funcs, f)
	if err != nil {
		return "", "", err
	}
	b.WriteString(par)
	b.WriteString("Section Gen.\n" +
		"  (* what is not translated: the tool values (their Info, which run interfaces they implement, their run methods), the\n" +
		"     tool options, executorMeta, the runnable packers and what running one means, and the semantics of\n" +
		"     parallelRunToolCall (Model/ToolsPar.v) *)\n" +
		"  Variables BT TOPT META RP : Type.\n" +
		"  Variable executorMeta_opaque : META.\n" +
		"  Variable newRunnablePacker : option (CTX -> string -> list TOPT -> tres) -> option (CTX -> string -> list TOPT -> sres) ->\n" +
		"                               option unit -> option unit -> bool -> option RP.\n" +
		"  Variable BT_Info : BT -> CTX -> res ToolInfo.\n" +
		"  Variables assert_StreamableTool assert_InvokableTool : BT -> option BT.\n" +
		"  Variable BT_StreamableRun : option BT -> option (CTX -> string -> list TOPT -> sres).\n" +
		"  Variable BT_InvokableRun : option BT -> option (CTX -> string -> list TOPT -> tres).\n" +
		"  Variable parseExecutorInfoFromComponent : unit -> option BT -> option META.\n" +
		"  Variable executorMeta_isComponentCallbackEnabled : option META -> bool.\n" +
		"  Variable RP_Invoke : option RP -> CTX -> string -> list TOPT -> res (string * option N).\n" +
		"  Variable RP_Stream : option RP -> CTX -> string -> list TOPT -> res (option SR * option N).\n" +
		"  Variable parallelRunToolCall : CTX -> (CTX -> toolCallTask META RP -> list TOPT -> res (toolCallTask META RP)) ->\n" +
		"                                 list (toolCallTask META RP) -> list TOPT -> res (list (toolCallTask META RP)).\n\n")
	for _, name := range c17Order {
		s, err := t.function(name)
		if err != nil {
			return "", "", err
		}
		b.WriteString(s)
	}
	b.WriteString("End Gen.\n")
	return "ToolNode.v", b.String(), nil
}
