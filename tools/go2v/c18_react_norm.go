package main

// Normalisation of flow/agent/react/react.go before the extractor "react" (c18_react.go) translates it:
// behaviour-preserving rewrite classes are undone on the syntax tree, so that they reach the
// translator in the shape the agreement proofs know (round 5):
//
//   * `switch { case c1: … case c2: … default: … }` and `switch x { case v: … }`  ->  if / else-if chains
//   * a small private helper of the file (straight-line statements, then one return; no closures, no loops)
//     is inlined at its call sites: parameters are replaced by the (simple) argument expressions, its
//     locals are renamed `<local>_<helper>`, its statements are placed before the calling statement and
//     the call is replaced by the returned expression
//
// Anything these passes do not understand is left as it is (the translator then decides whether it
// recognises the shape).  Only go/ast; every identifier carries the prefix of the property.

import (
	"go/ast"
	"go/token"
)

// ---- rebuilding expressions / statements ---------------------------------------------------------

// c18_mapExpr rebuilds e bottom-up; fn may replace a node (second result true = replaced, do not descend)
func c18_mapExpr(e ast.Expr, fn func(ast.Expr) (ast.Expr, bool)) ast.Expr {
	if e == nil {
		return nil
	}
	if r, ok := fn(e); ok {
		return r
	}
	switch x := e.(type) {
	case *ast.ParenExpr:
		return &ast.ParenExpr{Lparen: x.Lparen, X: c18_mapExpr(x.X, fn), Rparen: x.Rparen}
	case *ast.SelectorExpr:
		return &ast.SelectorExpr{X: c18_mapExpr(x.X, fn), Sel: x.Sel}
	case *ast.StarExpr:
		return &ast.StarExpr{Star: x.Star, X: c18_mapExpr(x.X, fn)}
	case *ast.UnaryExpr:
		return &ast.UnaryExpr{OpPos: x.OpPos, Op: x.Op, X: c18_mapExpr(x.X, fn)}
	case *ast.BinaryExpr:
		return &ast.BinaryExpr{X: c18_mapExpr(x.X, fn), OpPos: x.OpPos, Op: x.Op, Y: c18_mapExpr(x.Y, fn)}
	case *ast.IndexExpr:
		return &ast.IndexExpr{X: c18_mapExpr(x.X, fn), Lbrack: x.Lbrack, Index: c18_mapExpr(x.Index, fn), Rbrack: x.Rbrack}
	case *ast.SliceExpr:
		return &ast.SliceExpr{X: c18_mapExpr(x.X, fn), Lbrack: x.Lbrack, Low: c18_mapExpr(x.Low, fn), High: c18_mapExpr(x.High, fn),
			Max: c18_mapExpr(x.Max, fn), Slice3: x.Slice3, Rbrack: x.Rbrack}
	case *ast.CallExpr:
		args := make([]ast.Expr, len(x.Args))
		for i, a := range x.Args {
			args[i] = c18_mapExpr(a, fn)
		}
		fun := x.Fun
		switch x.Fun.(type) {
		case *ast.Ident, *ast.SelectorExpr, *ast.ParenExpr:
			fun = c18_mapExpr(x.Fun, fn)
		}
		return &ast.CallExpr{Fun: fun, Lparen: x.Lparen, Args: args, Ellipsis: x.Ellipsis, Rparen: x.Rparen}
	case *ast.KeyValueExpr:
		return &ast.KeyValueExpr{Key: x.Key, Colon: x.Colon, Value: c18_mapExpr(x.Value, fn)}
	case *ast.CompositeLit:
		elts := make([]ast.Expr, len(x.Elts))
		for i, a := range x.Elts {
			elts[i] = c18_mapExpr(a, fn)
		}
		return &ast.CompositeLit{Type: x.Type, Lbrace: x.Lbrace, Elts: elts, Rbrace: x.Rbrace, Incomplete: x.Incomplete}
	}
	// identifiers, literals, types, function literals: as they are
	return e
}

// the statements a helper body may consist of (besides its final return)
func c18_mapSimpleStmt(s ast.Stmt, fn func(ast.Expr) (ast.Expr, bool)) (ast.Stmt, bool) {
	switch x := s.(type) {
	case *ast.AssignStmt:
		lhs := make([]ast.Expr, len(x.Lhs))
		for i, a := range x.Lhs {
			lhs[i] = c18_mapExpr(a, fn)
		}
		rhs := make([]ast.Expr, len(x.Rhs))
		for i, a := range x.Rhs {
			rhs[i] = c18_mapExpr(a, fn)
		}
		return &ast.AssignStmt{Lhs: lhs, TokPos: x.TokPos, Tok: x.Tok, Rhs: rhs}, true
	case *ast.ExprStmt:
		return &ast.ExprStmt{X: c18_mapExpr(x.X, fn)}, true
	case *ast.ReturnStmt:
		rs := make([]ast.Expr, len(x.Results))
		for i, a := range x.Results {
			rs[i] = c18_mapExpr(a, fn)
		}
		return &ast.ReturnStmt{Return: x.Return, Results: rs}, true
	}
	return nil, false
}

func c18_containsFuncLitOrLoop(n ast.Node) bool {
	found := false
	ast.Inspect(n, func(m ast.Node) bool {
		switch m.(type) {
		case *ast.FuncLit, *ast.ForStmt, *ast.RangeStmt, *ast.GoStmt, *ast.DeferStmt, *ast.SelectStmt, *ast.SwitchStmt, *ast.TypeSwitchStmt, *ast.LabeledStmt:
			found = true
		}
		return !found
	})
	return found
}

// ---- switch -> if / else-if ------------------------------------------------------------------------

func c18_switchToIf(sw *ast.SwitchStmt) (ast.Stmt, bool) {
	if sw.Init != nil || sw.Body == nil {
		return nil, false
	}
	if sw.Tag != nil {
		if _, ok := sw.Tag.(*ast.Ident); !ok {
			return nil, false
		}
	}
	var clauses []*ast.CaseClause
	var deflt *ast.CaseClause
	for _, s := range sw.Body.List {
		cc, ok := s.(*ast.CaseClause)
		if !ok {
			return nil, false
		}
		// no break / fallthrough anywhere in the clause (a `continue` belongs to the loop around the switch)
		bad := false
		for _, b := range cc.Body {
			ast.Inspect(b, func(m ast.Node) bool {
				switch y := m.(type) {
				case *ast.BranchStmt:
					if y.Tok == token.BREAK || y.Tok == token.FALLTHROUGH || y.Tok == token.GOTO {
						bad = true
					}
				case *ast.FuncLit, *ast.ForStmt, *ast.RangeStmt, *ast.SwitchStmt, *ast.SelectStmt:
					return false
				}
				return true
			})
		}
		if bad {
			return nil, false
		}
		if cc.List == nil {
			if deflt != nil {
				return nil, false
			}
			deflt = cc
			continue
		}
		if deflt != nil {
			return nil, false // a default that is not the last clause: keep the source as it is
		}
		clauses = append(clauses, cc)
	}
	var tail ast.Stmt
	if deflt != nil {
		tail = &ast.BlockStmt{List: deflt.Body}
	}
	for i := len(clauses) - 1; i >= 0; i-- {
		cc := clauses[i]
		var cond ast.Expr
		for _, e := range cc.List {
			c := e
			if sw.Tag != nil {
				c = &ast.BinaryExpr{X: sw.Tag, Op: token.EQL, Y: e}
			}
			if cond == nil {
				cond = c
			} else {
				cond = &ast.BinaryExpr{X: cond, Op: token.LOR, Y: c}
			}
		}
		tail = &ast.IfStmt{If: cc.Case, Cond: cond, Body: &ast.BlockStmt{List: cc.Body}, Else: tail}
	}
	if tail == nil {
		return &ast.EmptyStmt{}, true
	}
	if b, ok := tail.(*ast.BlockStmt); ok { // only a default clause
		return b, true
	}
	return tail, true
}

func c18_desugarSwitches(f *ast.File) {
	ast.Inspect(f, func(n ast.Node) bool {
		var list *[]ast.Stmt
		switch x := n.(type) {
		case *ast.BlockStmt:
			list = &x.List
		case *ast.CaseClause:
			list = &x.Body
		}
		if list != nil {
			for i, s := range *list {
				if sw, ok := s.(*ast.SwitchStmt); ok {
					if r, ok := c18_switchToIf(sw); ok {
						(*list)[i] = r
					}
				}
			}
		}
		return true
	})
}

// ---- inlining of small private helpers ----------------------------------------------------------------

type c18_helper struct {
	name    string
	params  []string
	body    []ast.Stmt // without the final return
	results []ast.Expr
	locals  []string
}

func c18_simpleArg(e ast.Expr) bool {
	switch x := e.(type) {
	case *ast.Ident, *ast.BasicLit:
		return true
	case *ast.SelectorExpr:
		return c18_simpleArg(x.X)
	case *ast.IndexExpr:
		return c18_simpleArg(x.X) && c18_simpleArg(x.Index)
	case *ast.ParenExpr:
		return c18_simpleArg(x.X)
	}
	return false
}

// the helpers of the file that can be inlined; `keep` = functions translated as units of their own
func c18_collectHelpers(f *ast.File, keep map[string]bool) map[string]*c18_helper {
	out := map[string]*c18_helper{}
	for _, d := range f.Decls {
		fn, ok := d.(*ast.FuncDecl)
		if !ok || fn.Recv != nil || fn.Body == nil || keep[fn.Name.Name] || ast.IsExported(fn.Name.Name) || fn.Type.TypeParams != nil {
			continue
		}
		n := len(fn.Body.List)
		if n == 0 || n > 6 || c18_containsFuncLitOrLoop(fn.Body) {
			continue
		}
		ret, ok := fn.Body.List[n-1].(*ast.ReturnStmt)
		if !ok || len(ret.Results) == 0 {
			continue
		}
		if fn.Type.Results != nil {
			named := false
			for _, r := range fn.Type.Results.List {
				if len(r.Names) > 0 {
					named = true
				}
			}
			if named {
				continue
			}
		}
		h := &c18_helper{name: fn.Name.Name, results: ret.Results}
		okShape := true
		variadic := false
		for _, p := range fn.Type.Params.List {
			if _, isEll := p.Type.(*ast.Ellipsis); isEll {
				variadic = true
			}
			if len(p.Names) == 0 {
				h.params = append(h.params, "_")
			}
			for _, nm := range p.Names {
				h.params = append(h.params, nm.Name)
			}
		}
		if variadic {
			continue
		}
		isParam := map[string]bool{}
		for _, p := range h.params {
			isParam[p] = true
		}
		for _, s := range fn.Body.List[:n-1] {
			switch x := s.(type) {
			case *ast.AssignStmt:
				for _, l := range x.Lhs {
					id, isId := l.(*ast.Ident)
					if !isId {
						okShape = false // writes through a parameter (p.f = …, p[i] = …): not a pure helper
						break
					}
					if isParam[id.Name] {
						okShape = false
					}
					if x.Tok == token.DEFINE && id.Name != "_" {
						h.locals = append(h.locals, id.Name)
					}
				}
			case *ast.ExprStmt:
			default:
				okShape = false
			}
		}
		if !okShape {
			continue
		}
		h.body = fn.Body.List[:n-1]
		out[h.name] = h
	}
	return out
}

// the first call of a helper among the expressions a statement evaluates itself (not inside closures or nested blocks)
func c18_stmtExprs(s ast.Stmt) []ast.Expr {
	switch x := s.(type) {
	case *ast.AssignStmt:
		return x.Rhs
	case *ast.ExprStmt:
		return []ast.Expr{x.X}
	case *ast.ReturnStmt:
		return x.Results
	case *ast.IfStmt:
		var out []ast.Expr
		if x.Init != nil {
			out = append(out, c18_stmtExprs(x.Init)...)
		}
		return append(out, x.Cond)
	case *ast.RangeStmt:
		return []ast.Expr{x.X}
	}
	return nil
}

func c18_findHelperCall(es []ast.Expr, helpers map[string]*c18_helper) (*ast.CallExpr, bool) {
	var found *ast.CallExpr
	shortCircuit := false
	for _, e := range es {
		if e == nil || found != nil {
			continue
		}
		ast.Inspect(e, func(n ast.Node) bool {
			if found != nil {
				return false
			}
			switch x := n.(type) {
			case *ast.FuncLit:
				return false
			case *ast.CallExpr:
				if id, ok := x.Fun.(*ast.Ident); ok {
					if h, ok := helpers[id.Name]; ok && len(x.Args) == len(h.params) && x.Ellipsis == token.NoPos {
						simple := true
						for _, a := range x.Args {
							if !c18_simpleArg(a) {
								simple = false
							}
						}
						if simple {
							found = x
							return false
						}
					}
				}
			}
			return true
		})
		if found != nil {
			ast.Inspect(e, func(n ast.Node) bool {
				if b, ok := n.(*ast.BinaryExpr); ok && (b.Op == token.LAND || b.Op == token.LOR) {
					ast.Inspect(b.Y, func(m ast.Node) bool {
						if m == ast.Node(found) {
							shortCircuit = true
						}
						return !shortCircuit
					})
				}
				return true
			})
		}
	}
	return found, shortCircuit
}

func c18_replaceInStmt(s ast.Stmt, target *ast.CallExpr, with []ast.Expr) (ast.Stmt, bool) {
	fn := func(e ast.Expr) (ast.Expr, bool) {
		if e == ast.Expr(target) && len(with) == 1 {
			return with[0], true
		}
		return nil, false
	}
	whole := func(es []ast.Expr) bool { return len(es) == 1 && es[0] == ast.Expr(target) }
	switch x := s.(type) {
	case *ast.AssignStmt:
		if whole(x.Rhs) && len(with) > 1 {
			if len(x.Lhs) != len(with) {
				return nil, false
			}
			return &ast.AssignStmt{Lhs: x.Lhs, TokPos: x.TokPos, Tok: x.Tok, Rhs: with}, true
		}
	case *ast.ReturnStmt:
		if whole(x.Results) && len(with) > 1 {
			return &ast.ReturnStmt{Return: x.Return, Results: with}, true
		}
	}
	if len(with) != 1 {
		return nil, false
	}
	switch x := s.(type) {
	case *ast.AssignStmt, *ast.ExprStmt, *ast.ReturnStmt:
		return c18_mapSimpleStmt(x, fn)
	case *ast.IfStmt:
		var init ast.Stmt
		if x.Init != nil {
			var ok bool
			if init, ok = c18_mapSimpleStmt(x.Init, fn); !ok {
				return nil, false
			}
		}
		return &ast.IfStmt{If: x.If, Init: init, Cond: c18_mapExpr(x.Cond, fn), Body: x.Body, Else: x.Else}, true
	case *ast.RangeStmt:
		return &ast.RangeStmt{For: x.For, Key: x.Key, Value: x.Value, TokPos: x.TokPos, Tok: x.Tok, X: c18_mapExpr(x.X, fn), Body: x.Body}, true
	}
	return nil, false
}

// expands the first helper call of statement s; nil = nothing to expand (or not expandable here)
func c18_expandStmt(s ast.Stmt, helpers map[string]*c18_helper, inList bool) []ast.Stmt {
	call, shortCircuit := c18_findHelperCall(c18_stmtExprs(s), helpers)
	if call == nil {
		return nil
	}
	h := helpers[call.Fun.(*ast.Ident).Name]
	if len(h.body) > 0 {
		if !inList || shortCircuit {
			return nil
		}
		if ifs, ok := s.(*ast.IfStmt); ok && ifs.Init != nil {
			// the helper's statements would run before the init statement: only when the call is in the init
			inInit, _ := c18_findHelperCall(c18_stmtExprs(ifs.Init), helpers)
			if inInit != call {
				return nil
			}
		}
		if _, ok := s.(*ast.RangeStmt); ok {
			return nil
		}
	}
	sub := map[string]ast.Expr{}
	for i, p := range h.params {
		if p != "_" {
			sub[p] = call.Args[i]
		}
	}
	for _, l := range h.locals {
		sub[l] = &ast.Ident{Name: l + "_" + h.name}
	}
	fn := func(e ast.Expr) (ast.Expr, bool) {
		if id, ok := e.(*ast.Ident); ok {
			if r, ok := sub[id.Name]; ok {
				return r, true
			}
		}
		return nil, false
	}
	var out []ast.Stmt
	for _, b := range h.body {
		nb, ok := c18_mapSimpleStmt(b, fn)
		if !ok {
			return nil
		}
		out = append(out, nb)
	}
	results := make([]ast.Expr, len(h.results))
	for i, r := range h.results {
		results[i] = c18_mapExpr(r, fn)
	}
	ns, ok := c18_replaceInStmt(s, call, results)
	if !ok {
		return nil
	}
	return append(out, ns)
}

func c18_inlineHelpers(f *ast.File, keep map[string]bool) {
	helpers := c18_collectHelpers(f, keep)
	if len(helpers) == 0 {
		return
	}
	for _, d := range f.Decls {
		fd, ok := d.(*ast.FuncDecl)
		if !ok || fd.Body == nil {
			continue
		}
		if _, isHelper := helpers[fd.Name.Name]; isHelper {
			continue
		}
		ast.Inspect(fd.Body, func(n ast.Node) bool {
			switch x := n.(type) {
			case *ast.BlockStmt:
				for round := 0; round < 12; round++ {
					changed := false
					var nl []ast.Stmt
					for _, s := range x.List {
						if ex := c18_expandStmt(s, helpers, true); ex != nil {
							nl = append(nl, ex...)
							changed = true
						} else {
							nl = append(nl, s)
						}
					}
					x.List = nl
					if !changed {
						break
					}
				}
			case *ast.IfStmt:
				// `else if` statements are not elements of a statement list: helpers without statements only
				for el, ok := x.Else.(*ast.IfStmt); ok; el, ok = el.Else.(*ast.IfStmt) {
					for round := 0; round < 12; round++ {
						ex := c18_expandStmt(el, helpers, false)
						if len(ex) != 1 {
							break
						}
						ni := ex[0].(*ast.IfStmt)
						*el = *ni
					}
				}
			}
			return true
		})
	}
}

// the normalisation applied to react.go before translation
func c18_normaliseReact(f *ast.File) {
	keep := map[string]bool{
		"NewAgent": true, "buildReturnDirectly": true, "firstChunkStreamToolCallChecker": true,
		"getReturnDirectlyToolCallIndex": true, "genToolInfos": true,
	}
	// closures lifted out of the graph-building functions are put back (c18_react_unlift.go)
	c18_unliftValues(f, []string{"NewAgent", "buildReturnDirectly"}, keep)
	c18_inlineTailCalls(f, keep)
	c18_inlineBranchLocals(f)
	c18_desugarSwitches(f)
	c18_inlineHelpers(f, keep)
}
