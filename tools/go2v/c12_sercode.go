package main

// Extractor "sercode" (property C12): internal/serialization/serialization.go, the functions
// internalMarshal, definedContainerKey and GenericRegister, translated statement by statement into
// Gallina functions over the vocabulary of Model/SerGenLib.v (the Go record internalStruct as the
// record [gis], reflect.Value / reflect.Type as the model's [val] / [ty], three loop combinators).
//
// The translator is a small compiler for the imperative fragment these functions are written in.
// Every Go variable becomes a Gallina variable of the same name (an assignment rebinds it); every
// expression gets a sort (record, reflect.Value, reflect.Type, Kind, string, counter, bool, …) from
// the expression that defines it.  Recognised statements:
//   x := e    x = e    x.F = e    x.F++    x.MapValues[k] = e    x.SliceValues[i] = e
//   a, err := f(e) ; if err != nil { return nil, err | fmt.Errorf(…) }       bind on the callee's result
//   k, ok := M[e]  ; if !ok { return … }          if k, ok := M[e]; ok { return … }      map lookups
//   if c { … } [else { … }]      switch x { case reflect.K, …: … default: … }  (every case returns)
//   for t.Kind() == reflect.Ptr { …; t = t.Elem() }     (also with init / post)          loop_ptr
//   for i := 0; i < n; i++ { … }                                                           loop_range
//   it := rv.MapRange(); for it.Next() { … it.Key() … it.Value() … }                      loop_list
//   return …                     by result shape of the function
// A recursive call internalMarshal(e) is an application of the parameter [self] (open recursion:
// Proofs/GenAgreeSer.v proves that the model's encoder is the function the translated equation
// defines).  fmt.Errorf is an error class: the class of the wrapped error if there is one among the
// arguments, else a class chosen by the constant prefix of the format string (unknown prefix:
// E_OTHER, so that the generated function is "recognised but different").  Anything else: "source
// shape not recognised" (translator tie unavailable).
//
// The decoder internalUnmarshal: c12_deccode.go.  Output: coq/Gen/SerCode.v.

import (
	"fmt"
	"go/ast"
	"go/parser"
	"go/token"
	"go/types"
	"path/filepath"
	"strconv"
	"strings"
)

func init() {
	register("sercode", c12ExtractSerCode)
	registerFallback("sercode", "SerCode.v", "(* Gen/SerCode.v — translator tie UNAVAILABLE: tools/go2v (extractor \"sercode\") did not recognise the\n"+
		"   shape of internal/serialization/serialization.go; the reference translation (Model/SerCodeRef.v) is re-exported. *)\n"+
		"From Eino Require Import Base.Util Base.Universe Model.Ser Model.SerGenLib Model.SerCodeRef.\n\n"+
		"Definition tie_available : bool := false.\n"+
		"Definition internalMarshal := Model.SerCodeRef.internalMarshal.\n"+
		"Definition definedContainerKey := Model.SerCodeRef.definedContainerKey.\n"+
		"Definition GenericRegister := Model.SerCodeRef.GenericRegister.\n"+
		"Definition resolvePointerNum := Model.SerCodeRef.resolvePointerNum.\n"+
		"Definition containerType := Model.SerCodeRef.containerType.\n"+
		"Definition internalUnmarshal := Model.SerCodeRef.internalUnmarshal.\n"+
		"Definition init_serialization := Model.SerCodeRef.init_serialization.\n"+
		"Definition init_compose := Model.SerCodeRef.init_compose.\n"+
		"Definition compose_records := Model.SerCodeRef.compose_records.\n"+
		"Definition dependencyState_underlying := Model.SerCodeRef.dependencyState_underlying.\n")
}

type c12Sort int

const (
	c12SUnknown c12Sort = iota
	c12SGis             // *internalStruct
	c12SVal             // reflect.Value
	c12STy              // reflect.Type
	c12SKind            // reflect.Kind
	c12SStr             // string
	c12SNat             // int / uint32
	c12SBool            // bool
	c12SField           // reflect.StructField
	c12SIter            // *reflect.MapIter before Next (the entries still to come)
	c12SEntry           // the entry a MapIter stands on
	c12SOptGis          // result of internalMarshal: *internalStruct that may be nil
	c12SJSON            // []byte produced by json.Marshal
	c12SRaw             // json.RawMessage
	c12SKJson           // string produced by sonic.MarshalString
	c12SAny             // any
	c12SMV              // map[string]*internalStruct
	c12SSV              // []*internalStruct
	c12SRegM            // the registry map m (string -> reflect.Type)
	c12SRegRM           // the registry map rm (reflect.Type -> string)
)

var c12GisFields = map[string]struct {
	coq  string
	sort c12Sort
}{
	"PointerNum": {"PointerNum", c12SNat}, "NonNilPointerNum": {"NonNilPointerNum", c12SNat},
	"Type": {"Type_", c12SStr}, "JSONValue": {"JSONValue", c12SRaw}, "StructType": {"StructType", c12SStr},
	"MapKeyPointerNum": {"MapKeyPointerNum", c12SNat}, "MapKeyType": {"MapKeyType", c12SStr},
	"MapValuePointerNum": {"MapValuePointerNum", c12SNat}, "MapValueType": {"MapValueType", c12SStr},
	"MapValues": {"MapValues", c12SMV}, "SliceValuePointerNum": {"SliceValuePointerNum", c12SNat},
	"SliceValueType": {"SliceValueType", c12SStr}, "SliceValues": {"SliceValues", c12SSV},
	"IsArray": {"IsArray", c12SBool}, "ContainerType": {"ContainerType", c12SStr},
}

var c12Kinds = map[string]string{
	"Invalid": "KInvalid", "Ptr": "KPtr", "Pointer": "KPtr", "Struct": "KStruct", "Map": "KMap", "Slice": "KSlice",
	"Array": "KArray", "Interface": "KInterface", "Bool": "(KBasic BBool)", "Int": "(KBasic BInt)",
	"Int8": "(KBasic BInt8)", "Int16": "(KBasic BInt16)", "Int32": "(KBasic BInt32)", "Int64": "(KBasic BInt64)",
	"Uint": "(KBasic BUint)", "Uint8": "(KBasic BUint8)", "Uint16": "(KBasic BUint16)", "Uint32": "(KBasic BUint32)",
	"Uint64": "(KBasic BUint64)", "Uintptr": "(KBasic BUintptr)", "Float32": "(KBasic BFloat32)",
	"Float64": "(KBasic BFloat64)", "Complex64": "(KBasic BComplex64)", "Complex128": "(KBasic BComplex128)",
	"String": "(KBasic BString)",
}

// error class by constant prefix of a format string
var c12ErrPrefix = []struct{ prefix, code string }{
	{"unknown type", "E_UNKNOWN_TYPE"},
	{"key[%s] already registered", "E_DUP"},
	{"type[%s] already registered", "E_DUP"},
	{"type[%s] is %v, cannot hold", "E_FIELD"},
	{"unmarshal map fail, can not set field", "E_FIELD"},
	{"unmarshal map fail, cannot find field", "E_FIELD"},
}

// shape of the function being translated
type c12Fn struct {
	name    string
	retKind string // "gis_err" (*internalStruct, error) | "str" string | "reg_err" error + the two registry maps
}

type c12Tr struct {
	fn    c12Fn
	sorts map[string]c12Sort // variables in scope
	order []string           // declaration order
	// how a return of the function-level value v is written in the current context (loop bodies wrap it)
	wrap func(v string) string
	// local functions that are translated too (called by name)
	known map[string]bool
	// decoder idioms (c12_deccode.go): aliases of cursors, field references, createValueFromType pairs
	dec *c12Dec
}

func (t *c12Tr) fork() *c12Tr {
	n := &c12Tr{fn: t.fn, sorts: map[string]c12Sort{}, order: append([]string{}, t.order...), wrap: t.wrap, known: t.known, dec: t.dec}
	for k, v := range t.sorts {
		n.sorts[k] = v
	}
	return n
}

func (t *c12Tr) declare(name string, s c12Sort) {
	if _, ok := t.sorts[name]; !ok {
		t.order = append(t.order, name)
	}
	t.sorts[name] = s
}

func (t *c12Tr) errf(format string, a ...any) error {
	return fmt.Errorf("%s: %s", t.fn.name, fmt.Sprintf(format, a...))
}

func c12Ident(e ast.Expr) (string, bool) {
	id, ok := e.(*ast.Ident)
	if !ok {
		return "", false
	}
	return id.Name, true
}

// Gallina names must not clash with the vocabulary
func c12Var(n string) string {
	switch n {
	case "kind", "key", "val", "ty", "reg", "env", "self", "fst", "snd", "map", "length", "m", "rm", "t",
		// Gallina keywords
		"at", "as", "in", "end", "then", "else", "with", "fun", "let", "match", "return", "if", "for", "where", "using",
		"fix", "cofix", "forall", "exists", "Type", "Prop", "Set", "SProp":
		return n + "_"
	}
	return n
}

// ---------------------------------------------------------------------------- expressions

func (t *c12Tr) expr(e ast.Expr) (string, c12Sort, error) {
	if c, s, ok, err := t.decExpr(e); ok || err != nil {
		return c, s, err
	}
	switch x := e.(type) {
	case *ast.ParenExpr:
		return t.expr(x.X)
	case *ast.Ident:
		switch x.Name {
		case "true", "false":
			return x.Name, c12SBool, nil
		}
		if s, ok := t.sorts[x.Name]; ok {
			return c12Var(x.Name), s, nil
		}
		return "", 0, t.errf("identifier %s is not a known variable", x.Name)
	case *ast.BasicLit:
		switch x.Kind {
		case token.INT:
			return x.Value, c12SNat, nil
		case token.STRING:
			s, err := strconv.Unquote(x.Value)
			if err != nil {
				return "", 0, err
			}
			return c12CoqStr(s), c12SStr, nil
		}
	case *ast.UnaryExpr:
		if x.Op == token.NOT {
			c, s, err := t.expr(x.X)
			if err != nil {
				return "", 0, err
			}
			if s != c12SBool {
				return "", 0, t.errf("! applied to %s", types.ExprString(x.X))
			}
			return "(negb " + c + ")", c12SBool, nil
		}
	case *ast.SelectorExpr:
		// reflect.K
		if k, ok := c12ReflectKind(x); ok {
			if c, ok := c12Kinds[k]; ok {
				return c, c12SKind, nil
			}
			return "", 0, t.errf("reflect.%s is not a kind the vocabulary knows", k)
		}
		c, s, err := t.expr(x.X)
		if err != nil {
			return "", 0, err
		}
		switch s {
		case c12SGis:
			if f, ok := c12GisFields[x.Sel.Name]; ok {
				return "(" + f.coq + " " + c + ")", f.sort, nil
			}
			return "", 0, t.errf("internalStruct has no modelled field %s", x.Sel.Name)
		case c12SField:
			switch x.Sel.Name {
			case "Name":
				return "(sf_Name " + c + ")", c12SStr, nil
			case "PkgPath":
				return "(sf_PkgPath " + c + ")", c12SStr, nil
			case "Type":
				return "(sf_Type " + c + ")", c12STy, nil
			}
		}
		return "", 0, t.errf("selector %s not recognised", types.ExprString(e))
	case *ast.BinaryExpr:
		return t.binary(x)
	case *ast.CallExpr:
		return t.call(x)
	}
	return "", 0, t.errf("expression %s is outside the translated fragment", types.ExprString(e))
}

// t.Name() compared with ""
func (t *c12Tr) nameTest(x *ast.BinaryExpr) (string, bool) {
	isEmpty := func(e ast.Expr) bool {
		bl, ok := e.(*ast.BasicLit)
		return ok && bl.Kind == token.STRING && bl.Value == `""`
	}
	nameOf := func(e ast.Expr) (string, bool) {
		call, ok := e.(*ast.CallExpr)
		if !ok || len(call.Args) != 0 {
			return "", false
		}
		sel, ok := call.Fun.(*ast.SelectorExpr)
		if !ok || sel.Sel.Name != "Name" {
			return "", false
		}
		c, s, err := t.expr(sel.X)
		if err != nil || s != c12STy {
			return "", false
		}
		return c, true
	}
	var c string
	var ok bool
	if isEmpty(x.Y) {
		c, ok = nameOf(x.X)
	} else if isEmpty(x.X) {
		c, ok = nameOf(x.Y)
	}
	if !ok {
		return "", false
	}
	if x.Op == token.EQL {
		return "(negb (rt_named " + c + "))", true
	}
	if x.Op == token.NEQ {
		return "(rt_named " + c + ")", true
	}
	return "", false
}

// len(s) of a string compared with 0
func (t *c12Tr) lenTest(x *ast.BinaryExpr) (string, bool) {
	call, ok := x.X.(*ast.CallExpr)
	if !ok {
		return "", false
	}
	if id, ok := call.Fun.(*ast.Ident); !ok || id.Name != "len" || len(call.Args) != 1 {
		return "", false
	}
	bl, ok := x.Y.(*ast.BasicLit)
	if !ok || bl.Kind != token.INT || bl.Value != "0" {
		return "", false
	}
	c, s, err := t.expr(call.Args[0])
	if err != nil || s != c12SStr {
		return "", false
	}
	switch x.Op {
	case token.EQL:
		return "(String.eqb " + c + " \"\"%string)", true
	case token.NEQ, token.GTR:
		return "(negb (String.eqb " + c + " \"\"%string))", true
	}
	return "", false
}

func (t *c12Tr) binary(x *ast.BinaryExpr) (string, c12Sort, error) {
	// v == nil on an any
	if (x.Op == token.EQL || x.Op == token.NEQ) && (c12IsNil(x.Y) || c12IsNil(x.X)) {
		o := x.X
		if c12IsNil(x.X) {
			o = x.Y
		}
		c, s, err := t.expr(o)
		if err != nil {
			return "", 0, err
		}
		if s != c12SAny {
			return "", 0, t.errf("comparison of %s with nil", types.ExprString(o))
		}
		if x.Op == token.NEQ {
			return "(negb (any_is_nil " + c + "))", c12SBool, nil
		}
		return "(any_is_nil " + c + ")", c12SBool, nil
	}
	if c, ok := t.nameTest(x); ok {
		return c, c12SBool, nil
	}
	if c, ok := t.lenTest(x); ok {
		return c, c12SBool, nil
	}
	l, ls, err := t.expr(x.X)
	if err != nil {
		return "", 0, err
	}
	r, rs, err := t.expr(x.Y)
	if err != nil {
		return "", 0, err
	}
	switch x.Op {
	case token.LAND, token.LOR:
		if ls != c12SBool || rs != c12SBool {
			break
		}
		op := "&&"
		if x.Op == token.LOR {
			op = "||"
		}
		return "(" + l + " " + op + " " + r + ")", c12SBool, nil
	case token.EQL, token.NEQ:
		if ls != rs {
			break
		}
		var c string
		switch ls {
		case c12SKind:
			c = "(kind_eqb " + l + " " + r + ")"
		case c12SStr:
			c = "(String.eqb " + l + " " + r + ")"
		case c12SNat:
			c = "(Nat.eqb " + l + " " + r + ")"
		case c12SBool:
			c = "(Bool.eqb " + l + " " + r + ")"
		case c12STy:
			c = "(ty_eqb " + l + " " + r + ")"
		default:
			return "", 0, t.errf("comparison %s: sort not comparable", types.ExprString(x))
		}
		if x.Op == token.NEQ {
			c = "(negb " + c + ")"
		}
		return c, c12SBool, nil
	case token.LSS, token.GTR, token.LEQ, token.GEQ:
		if ls != c12SNat || rs != c12SNat {
			break
		}
		switch x.Op {
		case token.LSS:
			return "(Nat.ltb " + l + " " + r + ")", c12SBool, nil
		case token.GTR:
			return "(Nat.ltb " + r + " " + l + ")", c12SBool, nil
		case token.LEQ:
			return "(Nat.leb " + l + " " + r + ")", c12SBool, nil
		default:
			return "(Nat.leb " + r + " " + l + ")", c12SBool, nil
		}
	case token.ADD, token.SUB:
		if ls != c12SNat || rs != c12SNat {
			break
		}
		op := "+"
		if x.Op == token.SUB {
			op = "-"
		}
		return "(" + l + " " + op + " " + r + ")", c12SNat, nil
	}
	return "", 0, t.errf("operator in %s not recognised for these operands", types.ExprString(x))
}

func (t *c12Tr) call(x *ast.CallExpr) (string, c12Sort, error) {
	fun := c12Squash(types.ExprString(x.Fun))
	arg := func(i int, want c12Sort) (string, error) {
		c, s, err := t.expr(x.Args[i])
		if err != nil {
			return "", err
		}
		if s != want && !(want == c12SAny && s == c12SVal) {
			return "", t.errf("argument %s of %s has an unexpected sort", types.ExprString(x.Args[i]), fun)
		}
		return c, nil
	}
	// functions
	switch fun {
	case "reflect.PointerTo", "reflect.PtrTo":
		if len(x.Args) == 1 {
			c, err := arg(0, c12STy)
			return "(TPtr " + c + ")", c12STy, err
		}
	case "reflect.ValueOf":
		if len(x.Args) == 1 {
			c, err := arg(0, c12SAny)
			return "(reflect_ValueOf " + c + ")", c12SVal, err
		}
	case "reflect.TypeOf":
		// reflect.TypeOf((*T)(nil)) for a type parameter T: the pointer type to T
		if len(x.Args) == 1 {
			if tp, ok := c12TypeParamPtrNil(x.Args[0]); ok {
				if s, ok := t.sorts[tp]; ok && s == c12STy {
					return "(TPtr " + c12Var(tp) + ")", c12STy, nil
				}
			}
		}
	case "hasOwnJSON":
		if len(x.Args) == 1 {
			c, err := arg(0, c12STy)
			return "(rt_hasOwnJSON " + c + ")", c12SBool, err
		}
	case "definedContainerKey":
		if len(x.Args) == 1 && t.known["definedContainerKey"] {
			c, err := arg(0, c12STy)
			return "(definedContainerKey J JK jenc kenc reg env " + c + ")", c12SStr, err
		}
	case "len":
		if len(x.Args) == 1 {
			c, s, err := t.expr(x.Args[0])
			if err != nil {
				return "", 0, err
			}
			switch s {
			case c12SStr:
				return "(String.length " + c + ")", c12SNat, nil
			case c12SMV, c12SSV:
				return "(List.length " + c + ")", c12SNat, nil
			}
		}
	case "make":
		if len(x.Args) >= 1 {
			switch c12Squash(types.ExprString(x.Args[0])) {
			case "map[string]*internalStruct":
				return "[]", c12SMV, nil
			case "[]*internalStruct":
				if len(x.Args) == 2 {
					c, err := arg(1, c12SNat)
					return "(slice_make " + c + ")", c12SSV, err
				}
			}
		}
	case "json.RawMessage":
		if len(x.Args) == 1 {
			if bl, ok := x.Args[0].(*ast.BasicLit); ok && bl.Kind == token.STRING && bl.Value == `"null"` {
				return "(Some JNull)", c12SRaw, nil
			}
		}
	case "uint32", "int":
		if len(x.Args) == 1 {
			c, err := arg(0, c12SNat)
			return c, c12SNat, err
		}
	}
	// methods
	sel, ok := x.Fun.(*ast.SelectorExpr)
	if !ok {
		return "", 0, t.errf("call %s not recognised", types.ExprString(x))
	}
	recv, rs, err := t.expr(sel.X)
	if err != nil {
		return "", 0, err
	}
	m := sel.Sel.Name
	n := len(x.Args)
	switch rs {
	case c12SVal:
		switch {
		case m == "Type" && n == 0:
			return "(rv_Type " + recv + ")", c12STy, nil
		case m == "Kind" && n == 0:
			return "(rt_Kind (rv_Type " + recv + "))", c12SKind, nil
		case m == "IsNil" && n == 0:
			return "(rv_IsNil " + recv + ")", c12SBool, nil
		case m == "Elem" && n == 0:
			return "(rv_Elem " + recv + ")", c12SVal, nil
		case m == "Interface" && n == 0:
			return "(rv_Interface " + recv + ")", c12SAny, nil
		case m == "MapRange" && n == 0:
			return "(rv_MapRange " + recv + ")", c12SIter, nil
		case m == "Len" && n == 0:
			return "(rv_Len " + recv + ")", c12SNat, nil
		case m == "Field" && n == 1:
			c, err := arg(0, c12SNat)
			return "(rv_Field " + recv + " " + c + ")", c12SVal, err
		case m == "Index" && n == 1:
			c, err := arg(0, c12SNat)
			return "(rv_Index " + recv + " " + c + ")", c12SVal, err
		}
	case c12STy:
		switch {
		case m == "Kind" && n == 0:
			return "(rt_Kind " + recv + ")", c12SKind, nil
		case m == "Elem" && n == 0:
			return "(rt_Elem " + recv + ")", c12STy, nil
		case m == "Key" && n == 0:
			return "(rt_Key " + recv + ")", c12STy, nil
		case m == "AssignableTo" && n == 1:
			c, err := arg(0, c12STy)
			return "(rt_AssignableTo " + recv + " " + c + ")", c12SBool, err
		case m == "NumField" && n == 0:
			return "(rt_NumField env " + recv + ")", c12SNat, nil
		case m == "Field" && n == 1:
			c, err := arg(0, c12SNat)
			return "(rt_Field env " + recv + " " + c + ")", c12SField, err
		}
	case c12SEntry:
		switch {
		case m == "Key" && n == 0:
			return "(iter_Key " + recv + ")", c12SVal, nil
		case m == "Value" && n == 0:
			return "(iter_Value " + recv + ")", c12SVal, nil
		}
	}
	return "", 0, t.errf("call %s not recognised", types.ExprString(x))
}

// (*T)(nil) -> T
func c12TypeParamPtrNil(e ast.Expr) (string, bool) {
	call, ok := e.(*ast.CallExpr)
	if !ok || len(call.Args) != 1 || !c12IsNil(call.Args[0]) {
		return "", false
	}
	p, ok := call.Fun.(*ast.ParenExpr)
	if !ok {
		return "", false
	}
	st, ok := p.X.(*ast.StarExpr)
	if !ok {
		return "", false
	}
	return c12Ident(st.X)
}

// calls whose result is (value, error): Gallina term of type res _, sort of the value
func (t *c12Tr) resCall(e ast.Expr) (string, c12Sort, error) {
	x, ok := e.(*ast.CallExpr)
	if ok && t.fn.name == "internalUnmarshal" {
		switch c12Squash(types.ExprString(x.Fun)) {
		case "internalUnmarshal":
			if len(x.Args) == 1 {
				a, as, err := t.expr(x.Args[0])
				if err != nil {
					return "", 0, err
				}
				if as != c12SOptGis {
					return "", 0, t.errf("argument of the recursive call is not an element of the record")
				}
				return "self " + a, c12SOptVal, nil
			}
		case "containerType":
			if len(x.Args) == 2 && t.known["containerType"] {
				a, as, err := t.expr(x.Args[0])
				if err != nil {
					return "", 0, err
				}
				b, bs, err := t.expr(x.Args[1])
				if err != nil {
					return "", 0, err
				}
				if as != c12SGis || bs != c12STy {
					return "", 0, t.errf("arguments of containerType")
				}
				return "containerType J JK reg " + a + " " + b, c12STy, nil
			}
		}
	}
	if !ok || len(x.Args) != 1 {
		return "", 0, t.errf("%s is not a recognised call with an error result", types.ExprString(e))
	}
	a, as, err := t.expr(x.Args[0])
	if err != nil {
		return "", 0, err
	}
	if as != c12SAny && as != c12SVal {
		return "", 0, t.errf("argument of %s is not a value", types.ExprString(x.Fun))
	}
	switch c12Squash(types.ExprString(x.Fun)) {
	case "internalMarshal":
		if t.fn.name == "internalMarshal" {
			return "self " + a, c12SOptGis, nil
		}
	case "json.Marshal":
		return "json_Marshal jenc " + a, c12SJSON, nil
	case "sonic.MarshalString":
		return "sonic_MarshalString JK kenc " + a, c12SKJson, nil
	}
	return "", 0, t.errf("call %s with an error result is not recognised", types.ExprString(x.Fun))
}

// the error class an error expression stands for: `err` (the class bound to e) or fmt.Errorf
func (t *c12Tr) errClass(e ast.Expr, bound string) (string, error) {
	if id, ok := e.(*ast.Ident); ok && id.Name == "err" && bound != "" {
		return "Err " + bound, nil
	}
	call, ok := e.(*ast.CallExpr)
	if !ok || c12Squash(types.ExprString(call.Fun)) != "fmt.Errorf" || len(call.Args) == 0 {
		return "", t.errf("error value %s not recognised", types.ExprString(e))
	}
	for _, a := range call.Args[1:] {
		if id, ok := a.(*ast.Ident); ok && id.Name == "err" && bound != "" {
			return "Err " + bound, nil // a wrapped error keeps its class
		}
	}
	bl, ok := call.Args[0].(*ast.BasicLit)
	if !ok || bl.Kind != token.STRING {
		return "", t.errf("fmt.Errorf without a constant format")
	}
	f, _ := strconv.Unquote(bl.Value)
	for _, p := range c12ErrPrefix {
		if strings.HasPrefix(f, p.prefix) {
			return "Err " + p.code, nil
		}
	}
	return "Err E_OTHER", nil
}

// ---------------------------------------------------------------------------- statements

// the function-level value of a return statement (bound = the error class variable in scope, if any)
func (t *c12Tr) retValue(r *ast.ReturnStmt, bound string) (string, error) {
	switch t.fn.retKind {
	case "gis_err":
		if len(r.Results) != 2 {
			return "", t.errf("return with %d results", len(r.Results))
		}
		if c12IsNil(r.Results[1]) {
			if c12IsNil(r.Results[0]) {
				return "Ok None", nil
			}
			c, s, err := t.expr(r.Results[0])
			if err != nil {
				return "", err
			}
			if s != c12SGis {
				return "", t.errf("return value %s is not the record", types.ExprString(r.Results[0]))
			}
			return "Ok (Some " + c + ")", nil
		}
		if !c12IsNil(r.Results[0]) {
			return "", t.errf("return of a value together with an error")
		}
		return t.errClass(r.Results[1], bound)
	case "str":
		if len(r.Results) != 1 {
			return "", t.errf("return with %d results", len(r.Results))
		}
		c, s, err := t.expr(r.Results[0])
		if err != nil {
			// rm[rt] without ok
			if ix, ok := r.Results[0].(*ast.IndexExpr); ok {
				if id, ok := ix.X.(*ast.Ident); ok && id.Name == "rm" {
					k, ks, err2 := t.expr(ix.Index)
					if err2 == nil && ks == c12STy {
						return "rm_get reg " + k, nil
					}
				}
			}
			return "", err
		}
		if s != c12SStr {
			return "", t.errf("return value %s is not a string", types.ExprString(r.Results[0]))
		}
		return c, nil
	case "val_err":
		if len(r.Results) != 2 {
			return "", t.errf("return with %d results", len(r.Results))
		}
		if c12IsNil(r.Results[1]) {
			if c12IsNil(r.Results[0]) {
				return "Ok None", nil
			}
			c, ok, err := t.decRet(r.Results[0])
			if err != nil {
				return "", err
			}
			if !ok {
				return "", t.errf("returned value %s not recognised", types.ExprString(r.Results[0]))
			}
			return c, nil
		}
		if !c12IsNil(r.Results[0]) {
			return "", t.errf("return of a value together with an error")
		}
		return t.errClass(r.Results[1], bound)
	case "ty":
		if len(r.Results) != 1 {
			return "", t.errf("return with %d results", len(r.Results))
		}
		c, s, err := t.expr(r.Results[0])
		if err != nil {
			return "", err
		}
		if s != c12STy {
			return "", t.errf("return value %s is not a type", types.ExprString(r.Results[0]))
		}
		return c, nil
	case "ty_err":
		if len(r.Results) != 2 {
			return "", t.errf("return with %d results", len(r.Results))
		}
		if c12IsNil(r.Results[1]) {
			c, s, err := t.expr(r.Results[0])
			if err != nil {
				return "", err
			}
			if s != c12STy {
				return "", t.errf("return value %s is not a type", types.ExprString(r.Results[0]))
			}
			return "Ok " + c, nil
		}
		if !c12IsNil(r.Results[0]) {
			return "", t.errf("return of a value together with an error")
		}
		return t.errClass(r.Results[1], bound)
	case "reg_err":
		if len(r.Results) != 1 {
			return "", t.errf("return with %d results", len(r.Results))
		}
		if c12IsNil(r.Results[0]) {
			return "Ok (m_, rm_)", nil
		}
		return t.errClass(r.Results[0], bound)
	}
	return "", t.errf("result shape not recognised")
}

// names assigned in a block on a path that can leave it by falling through (plain assignment, field
// assignment, ++), excluding := declarations
func c12Assigned(l []ast.Stmt) map[string]bool {
	out := map[string]bool{}
	root := func(e ast.Expr) {
		for {
			switch x := e.(type) {
			case *ast.SelectorExpr:
				e = x.X
				continue
			case *ast.IndexExpr:
				e = x.X
				continue
			case *ast.Ident:
				out[x.Name] = true
			}
			return
		}
	}
	for _, s := range l {
		ast.Inspect(s, func(n ast.Node) bool {
			switch x := n.(type) {
			case *ast.FuncLit:
				return false
			case *ast.IfStmt:
				// what a block that always returns assigns does not reach the code after it
				if x.Else == nil && c12AlwaysReturns(x.Body.List) {
					if x.Init != nil {
						ast.Inspect(x.Init, func(ast.Node) bool { return true })
					}
					return false
				}
			case *ast.AssignStmt:
				if x.Tok != token.DEFINE {
					for _, lh := range x.Lhs {
						root(lh)
					}
				} else {
					// a := with a selector / index on the left cannot happen; plain idents are declarations
				}
			case *ast.IncDecStmt:
				root(x.X)
			}
			return true
		})
	}
	delete(out, "_")
	return out
}

// the state of a construct: assigned names that are declared outside it, in declaration order
func (t *c12Tr) stateOf(l []ast.Stmt, except ...string) []string {
	as := c12Assigned(l)
	for _, e := range except {
		delete(as, e)
	}
	var out []string
	for _, n := range t.order {
		if as[n] {
			if _, ok := t.sorts[n]; ok {
				out = append(out, n)
			}
		}
	}
	// globals of GenericRegister
	return out
}

func c12Tuple(names []string) string {
	if len(names) == 0 {
		return "tt"
	}
	if len(names) == 1 {
		return c12Var(names[0])
	}
	var vs []string
	for _, n := range names {
		vs = append(vs, c12Var(n))
	}
	return "(" + strings.Join(vs, ", ") + ")"
}

func c12Pat(names []string) string {
	if len(names) == 0 {
		return "_"
	}
	if len(names) == 1 {
		return c12Var(names[0])
	}
	return "'" + c12Tuple(names)
}

func c12MatchPat(names []string) string {
	if len(names) == 0 {
		return "_"
	}
	return c12Tuple(names)
}

// x.Kind() == reflect.Ptr for a type variable x
func (t *c12Tr) ptrLoopVar(c ast.Expr) (string, bool) {
	b, ok := c.(*ast.BinaryExpr)
	if !ok || b.Op != token.EQL {
		return "", false
	}
	if k, ok := c12ReflectKind(b.Y); !ok || (k != "Ptr" && k != "Pointer") {
		return "", false
	}
	call, ok := b.X.(*ast.CallExpr)
	if !ok || len(call.Args) != 0 {
		return "", false
	}
	sel, ok := call.Fun.(*ast.SelectorExpr)
	if !ok || sel.Sel.Name != "Kind" {
		return "", false
	}
	n, ok := c12Ident(sel.X)
	if !ok || t.sorts[n] != c12STy {
		return "", false
	}
	return n, true
}

// x = x.Elem()
func c12IsElemStep(s ast.Stmt, x string) bool {
	as, ok := s.(*ast.AssignStmt)
	if !ok || as.Tok != token.ASSIGN || len(as.Lhs) != 1 || len(as.Rhs) != 1 {
		return false
	}
	if n, ok := c12Ident(as.Lhs[0]); !ok || n != x {
		return false
	}
	return c12Squash(types.ExprString(as.Rhs[0])) == x+".Elem()"
}

func c12Mentions(n ast.Node, names map[string]bool) bool {
	found := false
	ast.Inspect(n, func(m ast.Node) bool {
		if id, ok := m.(*ast.Ident); ok && names[id.Name] {
			found = true
		}
		return !found
	})
	return found
}

func (t *c12Tr) stmts(l []ast.Stmt, fall func(*c12Tr) (string, error), ind string) (string, error) {
	if len(l) == 0 {
		return fall(t)
	}
	if code, ok, err := t.decStmt(l, fall, ind); ok || err != nil {
		return code, err
	}
	rest := func(z *c12Tr) (string, error) { return z.stmts(l[1:], fall, ind) }
	switch x := l[0].(type) {
	case *ast.ReturnStmt:
		v, err := t.retValue(x, "")
		if err != nil {
			return "", err
		}
		return t.wrap(v), nil

	case *ast.IncDecStmt:
		if x.Tok != token.INC {
			break
		}
		if sel, ok := x.X.(*ast.SelectorExpr); ok {
			if n, ok := c12Ident(sel.X); ok && t.sorts[n] == c12SGis {
				if f, ok := c12GisFields[sel.Sel.Name]; ok && f.sort == c12SNat {
					r, err := rest(t)
					return "let " + c12Var(n) + " := set_" + f.coq + " " + c12Var(n) + " (S (" + f.coq + " " + c12Var(n) + ")) in\n" + ind + r, err
				}
			}
		}
		return "", t.errf("increment of %s not recognised", types.ExprString(x.X))

	case *ast.AssignStmt:
		return t.assign(x, l, fall, ind)

	case *ast.IfStmt:
		return t.ifStmt(x, l, fall, ind)

	case *ast.SwitchStmt:
		if x.Init != nil || x.Tag == nil {
			break
		}
		if len(l) > 1 {
			return "", t.errf("statements after a switch")
		}
		tag, ts, err := t.expr(x.Tag)
		if err != nil {
			return "", err
		}
		if ts != c12SKind {
			return "", t.errf("switch on %s: not a kind", types.ExprString(x.Tag))
		}
		var dflt *ast.CaseClause
		var b strings.Builder
		for _, cs := range x.Body.List {
			cc := cs.(*ast.CaseClause)
			if cc.List == nil {
				dflt = cc
				continue
			}
			if !c12AlwaysReturns(cc.Body) {
				return "", t.errf("a switch case that does not end in a return")
			}
			var conds []string
			for _, ce := range cc.List {
				c, s, err := t.expr(ce)
				if err != nil {
					return "", err
				}
				if s != c12SKind {
					return "", t.errf("case %s: not a kind", types.ExprString(ce))
				}
				conds = append(conds, "kind_eqb "+tag+" "+c)
			}
			cond := conds[0]
			if len(conds) > 1 {
				cond = "(" + strings.Join(conds, ") || (") + ")"
			}
			body, err := t.fork().stmts(cc.Body, func(*c12Tr) (string, error) { return "", t.errf("control leaves a switch case") }, ind+"  ")
			if err != nil {
				return "", err
			}
			b.WriteString("if " + cond + " then\n" + ind + "  " + body + "\n" + ind + "else ")
		}
		if dflt == nil || !c12AlwaysReturns(dflt.Body) {
			return "", t.errf("switch without a returning default")
		}
		body, err := t.fork().stmts(dflt.Body, func(*c12Tr) (string, error) { return "", t.errf("control leaves the default case") }, ind+"  ")
		if err != nil {
			return "", err
		}
		b.WriteString("\n" + ind + "  " + body)
		return b.String(), nil

	case *ast.ForStmt:
		return t.forStmt(x, l, fall, ind)
	}
	return "", t.errf("statement %T outside the translated fragment", l[0])
}

func (t *c12Tr) assign(x *ast.AssignStmt, l []ast.Stmt, fall func(*c12Tr) (string, error), ind string) (string, error) {
	rest := func(z *c12Tr) (string, error) { return z.stmts(l[1:], fall, ind) }
	// a, err := f(e) ; if err != nil { return nil, E }
	if len(x.Lhs) == 2 && len(x.Rhs) == 1 {
		second, _ := c12Ident(x.Lhs[1])
		first, ok1 := c12Ident(x.Lhs[0])
		if !ok1 {
			return "", t.errf("assignment %s not recognised", types.ExprString(x.Lhs[0]))
		}
		if second == "err" {
			call, s, err := t.resCall(x.Rhs[0])
			if err != nil {
				return "", err
			}
			if len(l) < 2 {
				return "", t.errf("error result of %s is not tested", types.ExprString(x.Rhs[0]))
			}
			is, ok := l[1].(*ast.IfStmt)
			if !ok || is.Init != nil || is.Else != nil || c12Squash(types.ExprString(is.Cond)) != "err!=nil" || len(is.Body.List) != 1 {
				return "", t.errf("error result of %s is not followed by `if err != nil { return … }`", types.ExprString(x.Rhs[0]))
			}
			rs, ok := is.Body.List[0].(*ast.ReturnStmt)
			if !ok {
				return "", t.errf("error branch does not return")
			}
			ev, err := t.retValue(rs, "e_")
			if err != nil {
				return "", err
			}
			z := t.fork()
			z.declare(first, s)
			r, err := z.stmts(l[2:], fall, ind)
			if err != nil {
				return "", err
			}
			return "match " + call + " with\n" + ind + "| Err e_ => " + t.wrap(ev) + " | Panic => " + t.wrap("Panic") + "\n" + ind +
				"| Ok " + c12Var(first) + " =>\n" + ind + r + "\n" + ind + "end", nil
		}
		if second == "ok" {
			// k, ok := M[e] ; if !ok { return … }
			ix, ok := x.Rhs[0].(*ast.IndexExpr)
			if !ok {
				return "", t.errf("two-result assignment %s not recognised", types.ExprString(x.Rhs[0]))
			}
			look, vs, err := t.lookup(ix)
			if err != nil {
				return "", err
			}
			if len(l) < 2 {
				return "", t.errf("ok of a map lookup is not tested")
			}
			is, ok := l[1].(*ast.IfStmt)
			if !ok || is.Init != nil || is.Else != nil || c12Squash(types.ExprString(is.Cond)) != "!ok" || !c12AlwaysReturns(is.Body.List) {
				return "", t.errf("map lookup is not followed by `if !ok { return … }`")
			}
			none, err := t.fork().stmts(is.Body.List, func(*c12Tr) (string, error) { return "", t.errf("control leaves the !ok branch") }, ind+"  ")
			if err != nil {
				return "", err
			}
			z := t.fork()
			z.declare(first, vs)
			r, err := z.stmts(l[2:], fall, ind)
			if err != nil {
				return "", err
			}
			return "match " + look + " with\n" + ind + "| None => " + none + "\n" + ind + "| Some " + c12Var(first) + " =>\n" + ind + r + "\n" + ind + "end", nil
		}
		return "", t.errf("two-result assignment not recognised")
	}
	if len(x.Lhs) != 1 || len(x.Rhs) != 1 {
		return "", t.errf("assignment with %d targets", len(x.Lhs))
	}
	// x := &internalStruct{}
	if n, ok := c12Ident(x.Lhs[0]); ok {
		if c12Squash(types.ExprString(x.Rhs[0])) == "&internalStruct{}" {
			z := t.fork()
			z.declare(n, c12SGis)
			r, err := rest(z)
			return "let " + c12Var(n) + " := gis_empty J JK in\n" + ind + r, err
		}
		// t := reflect.TypeOf((*T)(nil)).Elem()
		c, s, err := t.expr(x.Rhs[0])
		if err != nil {
			return "", err
		}
		if x.Tok == token.ASSIGN {
			if old, ok := t.sorts[n]; !ok || old != s {
				return "", t.errf("assignment to %s changes its sort", n)
			}
		}
		z := t.fork()
		z.declare(n, s)
		r, err := rest(z)
		return "let " + c12Var(n) + " := " + c + " in\n" + ind + r, err
	}
	if x.Tok != token.ASSIGN {
		return "", t.errf("declaration of %s", types.ExprString(x.Lhs[0]))
	}
	// x.F = e
	if sel, ok := x.Lhs[0].(*ast.SelectorExpr); ok {
		n, ok := c12Ident(sel.X)
		f, okf := c12GisFields[sel.Sel.Name]
		if !ok || !okf || t.sorts[n] != c12SGis {
			return "", t.errf("assignment to %s not recognised", types.ExprString(x.Lhs[0]))
		}
		c, s, err := t.expr(x.Rhs[0])
		if err != nil {
			return "", err
		}
		switch {
		case s == f.sort:
		case f.sort == c12SRaw && s == c12SJSON:
			c = "(Some (JText " + c + "))"
		default:
			return "", t.errf("assignment to field %s: sort mismatch", sel.Sel.Name)
		}
		r, err := rest(t)
		return "let " + c12Var(n) + " := set_" + f.coq + " " + c12Var(n) + " " + c + " in\n" + ind + r, err
	}
	// x.MapValues[k] = e    x.SliceValues[i] = e    m[k] = e    rm[k] = e
	if ix, ok := x.Lhs[0].(*ast.IndexExpr); ok {
		k, ks, err := t.expr(ix.Index)
		if err != nil {
			return "", err
		}
		c, s, err := t.expr(x.Rhs[0])
		if err != nil {
			return "", err
		}
		if sel, ok := ix.X.(*ast.SelectorExpr); ok {
			n, ok := c12Ident(sel.X)
			if !ok || t.sorts[n] != c12SGis || s != c12SOptGis {
				return "", t.errf("indexed assignment %s not recognised", types.ExprString(x.Lhs[0]))
			}
			v := c12Var(n)
			r, err := rest(t)
			switch sel.Sel.Name {
			case "MapValues":
				var key string
				switch ks {
				case c12SStr:
					key = "(MKName " + k + ")"
				case c12SKJson:
					key = "(MKJson " + k + ")"
				default:
					return "", t.errf("key of MapValues is neither a field name nor a marshaled key")
				}
				return "let " + v + " := set_MapValues " + v + " (mv_put (MapValues " + v + ") " + key + " " + c + ") in\n" + ind + r, err
			case "SliceValues":
				if ks != c12SNat {
					return "", t.errf("index of SliceValues is not a counter")
				}
				return "let " + v + " := set_SliceValues " + v + " (slice_set (SliceValues " + v + ") " + k + " " + c + ") in\n" + ind + r, err
			}
		}
		if n, ok := c12Ident(ix.X); ok {
			switch {
			case t.sorts[n] == c12SRegM && ks == c12SStr && s == c12STy:
				r, err := rest(t)
				return "let m_ := gm_put m_ " + k + " " + c + " in\n" + ind + r, err
			case t.sorts[n] == c12SRegRM && ks == c12STy && s == c12SStr:
				r, err := rest(t)
				return "let rm_ := grm_put rm_ " + k + " " + c + " in\n" + ind + r, err
			}
		}
	}
	return "", t.errf("assignment to %s not recognised", types.ExprString(x.Lhs[0]))
}

// M[e] with the ok result: Gallina option term and the sort of the value
func (t *c12Tr) lookup(ix *ast.IndexExpr) (string, c12Sort, error) {
	n, ok := c12Ident(ix.X)
	if !ok {
		return "", 0, t.errf("lookup in %s", types.ExprString(ix.X))
	}
	k, ks, err := t.expr(ix.Index)
	if err != nil {
		return "", 0, err
	}
	switch {
	case n == "m" && t.sorts[n] == c12SUnknown && ks == c12SStr:
		return "m_lookup reg " + k, c12STy, nil // the package-level map read by the decoder
	case n == "rm" && t.sorts[n] == c12SUnknown && ks == c12STy:
		return "rm_lookup reg " + k, c12SStr, nil // the package-level map read by the encoder
	case t.sorts[n] == c12SRegRM && ks == c12STy:
		return "grm_lookup rm_ " + k, c12SStr, nil
	case t.sorts[n] == c12SRegM && ks == c12SStr:
		return "gm_lookup m_ " + k, c12STy, nil
	}
	return "", 0, t.errf("lookup %s not recognised", types.ExprString(ix))
}

func (t *c12Tr) ifStmt(x *ast.IfStmt, l []ast.Stmt, fall func(*c12Tr) (string, error), ind string) (string, error) {
	rest := func(z *c12Tr) (string, error) { return z.stmts(l[1:], fall, ind) }
	// if k, ok := M[e]; ok { return … }
	if x.Init != nil {
		as, ok := x.Init.(*ast.AssignStmt)
		if !ok || as.Tok != token.DEFINE || len(as.Lhs) != 2 || len(as.Rhs) != 1 || x.Else != nil {
			return "", t.errf("if with an init statement that is not a map lookup")
		}
		first, _ := c12Ident(as.Lhs[0])
		second, _ := c12Ident(as.Lhs[1])
		ix, isIx := as.Rhs[0].(*ast.IndexExpr)
		if second != "ok" || !isIx || first == "" {
			return "", t.errf("if with an init statement that is not a map lookup")
		}
		look, vs, err := t.lookup(ix)
		if err != nil {
			return "", err
		}
		cond := c12Squash(types.ExprString(x.Cond))
		if (cond != "ok" && cond != "!ok") || !c12AlwaysReturns(x.Body.List) {
			return "", t.errf("map lookup in an if: condition or body not recognised")
		}
		z := t.fork()
		if cond == "ok" && first != "_" {
			z.declare(first, vs)
		}
		body, err := z.stmts(x.Body.List, func(*c12Tr) (string, error) { return "", t.errf("control leaves a returning block") }, ind+"  ")
		if err != nil {
			return "", err
		}
		r, err := rest(t)
		if err != nil {
			return "", err
		}
		pat := "Some " + c12Var(first)
		if first == "_" || cond == "!ok" {
			pat = "Some _"
		}
		if cond == "ok" {
			return "match " + look + " with\n" + ind + "| " + pat + " => " + body + "\n" + ind + "| None =>\n" + ind + r + "\n" + ind + "end", nil
		}
		return "match " + look + " with\n" + ind + "| None => " + body + "\n" + ind + "| " + pat + " =>\n" + ind + r + "\n" + ind + "end", nil
	}
	c, cs, err := t.expr(x.Cond)
	if err != nil {
		return "", err
	}
	if cs != c12SBool {
		return "", t.errf("condition %s is not boolean", types.ExprString(x.Cond))
	}
	var elseList []ast.Stmt
	switch e := x.Else.(type) {
	case nil:
	case *ast.BlockStmt:
		elseList = e.List
	case *ast.IfStmt:
		elseList = []ast.Stmt{e}
	}
	thenRet := c12AlwaysReturns(x.Body.List)
	switch {
	case thenRet && x.Else == nil:
		body, err := t.fork().stmts(x.Body.List, func(*c12Tr) (string, error) { return "", t.errf("control leaves a returning block") }, ind+"  ")
		if err != nil {
			return "", err
		}
		r, err := rest(t)
		return "if " + c + " then\n" + ind + "  " + body + "\n" + ind + "else\n" + ind + r, err
	case !c12ContainsReturn(x.Body) && (x.Else == nil || !c12ContainsReturn(x.Else)):
		// a block that only assigns: join on the assigned variables
		state := t.stateOf(append(append([]ast.Stmt{}, x.Body.List...), elseList...))
		tup := func(*c12Tr) (string, error) { return c12Tuple(state), nil }
		th, err := t.fork().stmts(x.Body.List, tup, ind+"  ")
		if err != nil {
			return "", err
		}
		el, err := t.fork().stmts(elseList, tup, ind+"  ")
		if err != nil {
			return "", err
		}
		r, err := rest(t)
		return "let " + c12Pat(state) + " := (if " + c + " then " + th + " else " + el + ") in\n" + ind + r, err
	default:
		// a block that may return and may fall through: the continuation is written in both branches
		th, err := t.fork().stmts(x.Body.List, rest, ind+"  ")
		if err != nil {
			return "", err
		}
		el, err := t.fork().stmts(elseList, rest, ind+"  ")
		if err != nil {
			return "", err
		}
		return "if " + c + " then\n" + ind + "  " + th + "\n" + ind + "else\n" + ind + "  " + el, nil
	}
}

func (t *c12Tr) forStmt(x *ast.ForStmt, l []ast.Stmt, fall func(*c12Tr) (string, error), ind string) (string, error) {
	rest := func(z *c12Tr) (string, error) { return z.stmts(l[1:], fall, ind) }
	// pointer loop
	if pv, ok := t.ptrLoopVar(x.Cond); ok {
		body := x.Body.List
		pre := ""
		if x.Init != nil {
			if !c12IsElemStep(x.Init, pv) {
				return "", t.errf("init statement of a pointer loop is not %s = %s.Elem()", pv, pv)
			}
			pre = "let " + c12Var(pv) + " := rt_Elem " + c12Var(pv) + " in\n" + ind
		}
		if x.Post != nil {
			if !c12IsElemStep(x.Post, pv) {
				return "", t.errf("post statement of a pointer loop is not %s = %s.Elem()", pv, pv)
			}
		} else {
			if len(body) == 0 || !c12IsElemStep(body[len(body)-1], pv) {
				return "", t.errf("a pointer loop must end with %s = %s.Elem()", pv, pv)
			}
			body = body[:len(body)-1]
		}
		if c12Assigned(body)[pv] {
			return "", t.errf("pointer loop variable %s assigned inside the body", pv)
		}
		state := t.stateOf(body, pv)
		after := "(" + c12Var(pv) + ", " + c12MatchPat(state) + ")"
		code, err := t.loopGen("loop_ptr", c12Var(pv), "", 0, state, body, c12Var(pv), after, rest, ind)
		return pre + code, err
	}
	// for i := 0; i < n; i++
	if x.Init != nil && x.Post != nil && x.Cond != nil {
		as, ok := x.Init.(*ast.AssignStmt)
		inc, ok2 := x.Post.(*ast.IncDecStmt)
		cmp, ok3 := x.Cond.(*ast.BinaryExpr)
		if ok && ok2 && ok3 && as.Tok == token.DEFINE && len(as.Lhs) == 1 && len(as.Rhs) == 1 && inc.Tok == token.INC && cmp.Op == token.LSS {
			iv, okv := c12Ident(as.Lhs[0])
			zs := c12Squash(types.ExprString(as.Rhs[0]))
			okz := zs == "0" || zs == "uint32(0)" || zs == "int(0)"
			pi, okp := c12Ident(inc.X)
			ci, okc := c12Ident(cmp.X)
			if okv && okz && okp && okc && pi == iv && ci == iv {
				state := t.stateOf(x.Body.List, iv)
				if c12Assigned(x.Body.List)[iv] {
					return "", t.errf("loop counter %s assigned inside the body", iv)
				}
				bound, bs, err := t.expr(cmp.Y)
				if err != nil {
					return "", err
				}
				if bs != c12SNat {
					return "", t.errf("loop bound %s is not a counter", types.ExprString(cmp.Y))
				}
				names := map[string]bool{iv: true}
				for _, s := range state {
					names[s] = true
				}
				if c12Mentions(cmp.Y, names) {
					return "", t.errf("loop bound %s depends on what the loop assigns", types.ExprString(cmp.Y))
				}
				return t.loopGen("loop_range", c12Var(iv), iv, c12SNat, state, x.Body.List, bound, c12MatchPat(state), rest, ind)
			}
		}
	}
	// for it.Next()
	if x.Init == nil && x.Post == nil {
		if call, ok := x.Cond.(*ast.CallExpr); ok && len(call.Args) == 0 {
			if sel, ok := call.Fun.(*ast.SelectorExpr); ok && sel.Sel.Name == "Next" {
				if it, ok := c12Ident(sel.X); ok && t.sorts[it] == c12SIter {
					state := t.stateOf(x.Body.List, it)
					if c12Assigned(x.Body.List)[it] {
						return "", t.errf("iterator %s assigned inside the loop", it)
					}
					return t.loopGen("loop_list", c12Var(it), it, c12SEntry, state, x.Body.List, c12Var(it), c12MatchPat(state), rest, ind)
				}
			}
		}
	}
	return "", t.errf("for statement not recognised")
}

func (t *c12Tr) loopGen(comb, binder, bname string, bsort c12Sort, state []string, body []ast.Stmt, iterArg, afterPat string,
	rest func(*c12Tr) (string, error), ind string) (string, error) {
	bt := t.fork()
	if bname != "" {
		bt.declare(bname, bsort)
	}
	bt.wrap = func(v string) string { return "LRet (" + v + ")" }
	bodyCode, err := bt.stmts(body, func(*c12Tr) (string, error) { return "LCont " + c12Tuple(state), nil }, ind+"    ")
	if err != nil {
		return "", err
	}
	r, err := rest(t)
	if err != nil {
		return "", err
	}
	var b strings.Builder
	b.WriteString("match " + comb + " (fun " + binder + " " + c12Pat(state) + " =>\n" + ind + "    " + bodyCode + ") " + iterArg + " " + c12Tuple(state) + " with\n")
	b.WriteString(ind + "| LRet r_ => " + t.wrap("r_") + "\n")
	b.WriteString(ind + "| LCont " + afterPat + " =>\n" + ind + r + "\n" + ind + "end")
	return b.String(), nil
}

// ---------------------------------------------------------------------------- functions

// the parameters every translated function of the encoder takes: the JSON layer, the registry (the
// package-level map rm as the encoder reads it), the struct declarations (what reflect knows)
const c12Common = "(J JK : Type) (jenc : base -> lit -> res J) (kenc : base -> lit -> res JK) (reg : registry) (env : senv) "

func c12ParamSort(typ string) (c12Sort, bool) {
	switch typ {
	case "any", "interface{}":
		return c12SAny, true
	case "reflect.Type":
		return c12STy, true
	case "reflect.Value":
		return c12SVal, true
	case "string":
		return c12SStr, true
	case "uint32", "int":
		return c12SNat, true
	case "*internalStruct":
		return c12SGis, true
	}
	return 0, false
}

func c12CoqType(s c12Sort) string {
	switch s {
	case c12SAny, c12SVal:
		return "val"
	case c12STy:
		return "ty"
	case c12SNat:
		return "nat"
	case c12SGis:
		return "gis J JK"
	case c12SStr:
		return "string"
	}
	return "_"
}

func c12ExtractSerCode(repo string) (string, string, error) {
	fset := token.NewFileSet()
	f, err := c12ParseGo(fset, repo, "internal", "serialization", "serialization.go")
	if err != nil {
		return "", "", err
	}
	// private helpers that are pure code motion are put back where they are called (c12_inline.go)
	c12InlineHelpers(f, filepath.Join(repo, "internal", "serialization", "serialization.go"),
		"definedContainerKey", "internalMarshal", "GenericRegister", "resolvePointerNum", "containerType", "internalUnmarshal")
	// the record: every field of internalStruct must be one the vocabulary knows, and vice versa
	if err := c12CheckRecord(f); err != nil {
		return "", "", err
	}
	// the package-level maps
	if err := c12CheckGlobals(f); err != nil {
		return "", "", err
	}
	var b strings.Builder
	b.WriteString("(* Gen/SerCode.v — GENERATED by tools/go2v (extractor \"sercode\") from internal/serialization/serialization.go\n")
	b.WriteString("   (functions definedContainerKey, internalMarshal, GenericRegister, resolvePointerNum, containerType,\n   internalUnmarshal, translated statement by statement). Do not edit. *)\n")
	b.WriteString("From Eino Require Import Base.Util Base.Universe Model.Ser Model.SerGenLib.\n")
	b.WriteString("Import ListNotations.\nLocal Open Scope bool_scope.\n\n")
	b.WriteString("Definition tie_available : bool := true.\n\n")

	known := map[string]bool{}
	one := func(name, retKind, header string, extra func(*c12Tr)) error {
		fn := c12TopFunc(f, name)
		if fn == nil || fn.Body == nil {
			return fmt.Errorf("func %s not found", name)
		}
		t := &c12Tr{fn: c12Fn{name: name, retKind: retKind}, sorts: map[string]c12Sort{}, known: known}
		t.wrap = func(v string) string { return v }
		var params []string
		for _, fl := range fn.Type.Params.List {
			s, ok := c12ParamSort(c12Squash(types.ExprString(fl.Type)))
			if !ok {
				return fmt.Errorf("%s: parameter of type %s", name, types.ExprString(fl.Type))
			}
			for _, n := range fl.Names {
				t.declare(n.Name, s)
				params = append(params, "("+c12Var(n.Name)+" : "+c12CoqType(s)+")")
			}
		}
		if fn.Type.TypeParams != nil {
			for _, fl := range fn.Type.TypeParams.List {
				for _, n := range fl.Names {
					t.declare(n.Name, c12STy)
					params = append([]string{"(" + c12Var(n.Name) + " : ty)"}, params...)
				}
			}
		}
		if extra != nil {
			extra(t)
		}
		body, err := t.stmts(fn.Body.List, func(*c12Tr) (string, error) {
			return "", fmt.Errorf("%s: control reaches the end of the function", name)
		}, "    ")
		if err != nil {
			return err
		}
		b.WriteString("Definition " + name + " " + header + strings.Join(params, " ") + " :=\n    " + body + ".\n\n")
		known[name] = true
		return nil
	}
	if err := one("definedContainerKey", "str", c12Common, nil); err != nil {
		return "", "", err
	}
	if err := one("internalMarshal", "gis_err", c12Common+"(self : val -> res (option (gis J JK))) ", func(t *c12Tr) {
		// v == nil on the any parameter is written any_is_nil
	}); err != nil {
		return "", "", err
	}
	if err := one("GenericRegister", "reg_err", "(m_ : list (string * ty)) (rm_ : list (ty * string)) ", func(t *c12Tr) {
		t.declare("m", c12SRegM)
		t.declare("rm", c12SRegRM)
	}); err != nil {
		return "", "", err
	}
	if err := one("resolvePointerNum", "ty", "", nil); err != nil {
		return "", "", err
	}
	if err := one("containerType", "ty_err", "(J JK : Type) (reg : registry) ", nil); err != nil {
		return "", "", err
	}
	dcode, err := c12DecFunc(f, known)
	if err != nil {
		return "", "", err
	}
	b.WriteString(dcode)
	tables, err := c12Tables(fset, repo, f)
	if err != nil {
		return "", "", err
	}
	b.WriteString(tables)
	return "SerCode.v", b.String(), nil
}

// ---------------------------------------------------------------------------- tables: the registrations made
// by the init functions of internal/serialization and compose (key, Go type as written), and the
// declarations of the record types compose registers for checkpoints (exported fields: name, Go type
// as written; defined basic types: the underlying type)

func c12RegCalls(fn *ast.FuncDecl, qualified bool) ([][2]string, error) {
	var out [][2]string
	for _, st := range fn.Body.List {
		var e ast.Expr
		switch x := st.(type) {
		case *ast.AssignStmt:
			if len(x.Lhs) != 1 || len(x.Rhs) != 1 || c12Squash(types.ExprString(x.Lhs[0])) != "_" {
				return nil, fmt.Errorf("init: statement %s not recognised", types.ExprString(x.Rhs[0]))
			}
			e = x.Rhs[0]
		case *ast.ExprStmt:
			e = x.X
		default:
			return nil, fmt.Errorf("init: a statement that is not a registration")
		}
		call, ok := e.(*ast.CallExpr)
		if !ok || len(call.Args) != 1 {
			return nil, fmt.Errorf("init: %s is not a registration", types.ExprString(e))
		}
		ix, ok := call.Fun.(*ast.IndexExpr)
		if !ok {
			return nil, fmt.Errorf("init: %s is not a generic call", types.ExprString(call.Fun))
		}
		want := "GenericRegister"
		if qualified {
			want = "serialization.GenericRegister"
		}
		if c12Squash(types.ExprString(ix.X)) != want {
			return nil, fmt.Errorf("init: call of %s", types.ExprString(ix.X))
		}
		bl, ok := call.Args[0].(*ast.BasicLit)
		if !ok || bl.Kind != token.STRING {
			return nil, fmt.Errorf("init: registration key is not a string literal")
		}
		key, _ := strconv.Unquote(bl.Value)
		out = append(out, [2]string{key, c12Squash(types.ExprString(ix.Index))})
	}
	return out, nil
}

func c12PairList(l [][2]string) string {
	var items []string
	for _, e := range l {
		items = append(items, "("+c12CoqStr(e[0])+", "+c12CoqStr(e[1])+")")
	}
	return "[" + strings.Join(items, "; ") + "]"
}

func c12TypeDecl(f *ast.File, name string) ast.Expr {
	for _, d := range f.Decls {
		gd, ok := d.(*ast.GenDecl)
		if !ok || gd.Tok != token.TYPE {
			continue
		}
		for _, sp := range gd.Specs {
			if ts := sp.(*ast.TypeSpec); ts.Name.Name == name && ts.TypeParams == nil {
				return ts.Type
			}
		}
	}
	return nil
}

func c12Tables(fset *token.FileSet, repo string, ser *ast.File) (string, error) {
	var b strings.Builder
	in := c12TopFunc(ser, "init")
	if in == nil {
		return "", fmt.Errorf("serialization.go: func init not found")
	}
	regs, err := c12RegCalls(in, false)
	if err != nil {
		return "", err
	}
	b.WriteString("(* init() of internal/serialization/serialization.go: key, Go type *)\n")
	b.WriteString("Definition init_serialization : list (string * string) :=\n  " + c12PairList(regs) + ".\n\n")
	// compose: the init functions in file-name order (the order the Go toolchain runs them in)
	files := []string{"checkpoint.go", "dag.go"}
	parsed := map[string]*ast.File{}
	var cregs [][2]string
	for _, fn := range append(files, "pregel.go") {
		pf, err := c12ParseGo(fset, repo, "compose", fn)
		if err != nil {
			return "", err
		}
		parsed[fn] = pf
	}
	for _, fn := range files {
		cin := c12TopFunc(parsed[fn], "init")
		if cin == nil {
			return "", fmt.Errorf("compose/%s: func init not found", fn)
		}
		r, err := c12RegCalls(cin, true)
		if err != nil {
			return "", fmt.Errorf("compose/%s: %v", fn, err)
		}
		cregs = append(cregs, r...)
	}
	if c12TopFunc(parsed["pregel.go"], "init") != nil {
		return "", fmt.Errorf("compose/pregel.go has an init function the extractor does not read")
	}
	b.WriteString("(* init() of compose/checkpoint.go, compose/dag.go: key, Go type *)\n")
	b.WriteString("Definition init_compose : list (string * string) :=\n  " + c12PairList(cregs) + ".\n\n")
	// the record types
	recs := []struct{ file, name string }{{"checkpoint.go", "checkpoint"}, {"dag.go", "dagChannel"}, {"pregel.go", "pregelChannel"}, {"checkpoint.go", "nilChunk"}}
	var decls []string
	for _, r := range recs {
		te := c12TypeDecl(parsed[r.file], r.name)
		st, ok := te.(*ast.StructType)
		if !ok {
			return "", fmt.Errorf("compose/%s: type %s is not a struct type", r.file, r.name)
		}
		var fields [][2]string
		for _, fl := range st.Fields.List {
			if len(fl.Names) == 0 {
				return "", fmt.Errorf("type %s has an embedded field", r.name)
			}
			for _, n := range fl.Names {
				if !ast.IsExported(n.Name) {
					continue // skipped by the encoder
				}
				fields = append(fields, [2]string{n.Name, c12Squash(types.ExprString(fl.Type))})
			}
		}
		decls = append(decls, "("+c12CoqStr(r.name)+", "+c12PairList(fields)+")")
	}
	b.WriteString("(* the record types compose registers: exported fields in declaration order (name, Go type) *)\n")
	b.WriteString("Definition compose_records : list (string * list (string * string)) :=\n  [" + strings.Join(decls, ";\n   ") + "].\n\n")
	ds := c12TypeDecl(parsed["dag.go"], "dependencyState")
	if ds == nil {
		return "", fmt.Errorf("compose/dag.go: type dependencyState not found")
	}
	b.WriteString("Definition dependencyState_underlying : string := " + c12CoqStr(c12Squash(types.ExprString(ds))) + ".\n")
	return b.String(), nil
}

// type internalStruct struct { … }: field names and Go types against the vocabulary's record
func c12CheckRecord(f *ast.File) error {
	want := map[string]string{
		"PointerNum": "uint32", "NonNilPointerNum": "uint32", "Type": "string", "JSONValue": "json.RawMessage",
		"StructType": "string", "MapKeyPointerNum": "uint32", "MapKeyType": "string", "MapValuePointerNum": "uint32",
		"MapValueType": "string", "MapValues": "map[string]*internalStruct", "SliceValuePointerNum": "uint32",
		"SliceValueType": "string", "SliceValues": "[]*internalStruct", "IsArray": "bool", "ContainerType": "string",
	}
	for _, d := range f.Decls {
		gd, ok := d.(*ast.GenDecl)
		if !ok || gd.Tok != token.TYPE {
			continue
		}
		for _, sp := range gd.Specs {
			ts := sp.(*ast.TypeSpec)
			if ts.Name.Name != "internalStruct" {
				continue
			}
			st, ok := ts.Type.(*ast.StructType)
			if !ok {
				return fmt.Errorf("internalStruct is not a struct type")
			}
			seen := 0
			for _, fl := range st.Fields.List {
				for _, n := range fl.Names {
					typ := c12Squash(types.ExprString(fl.Type))
					if want[n.Name] != typ {
						return fmt.Errorf("internalStruct.%s of type %s: not a field the vocabulary (Model/SerGenLib.v, gis) knows", n.Name, typ)
					}
					seen++
				}
			}
			if seen != len(want) {
				return fmt.Errorf("internalStruct has %d fields, the vocabulary's record %d", seen, len(want))
			}
			return nil
		}
	}
	return fmt.Errorf("type internalStruct not found")
}

// var m = map[string]reflect.Type{} ; var rm = map[reflect.Type]string{}
func c12CheckGlobals(f *ast.File) error {
	want := map[string]string{"m": "map[string]reflect.Type{}", "rm": "map[reflect.Type]string{}"}
	seen := 0
	for _, d := range f.Decls {
		gd, ok := d.(*ast.GenDecl)
		if !ok || gd.Tok != token.VAR {
			continue
		}
		for _, sp := range gd.Specs {
			vs := sp.(*ast.ValueSpec)
			for i, n := range vs.Names {
				if w, ok := want[n.Name]; ok {
					if i >= len(vs.Values) || c12Squash(types.ExprString(vs.Values[i])) != w {
						return fmt.Errorf("package-level map %s is not declared as %s", n.Name, w)
					}
					seen++
				}
			}
		}
	}
	if seen != 2 {
		return fmt.Errorf("package-level maps m / rm not found")
	}
	return nil
}

// ---------------------------------------------------------------------------- helpers (own copies:
// tools/go2v is one package shared by every property's extractor)

func c12IsNil(e ast.Expr) bool {
	id, ok := e.(*ast.Ident)
	return ok && id.Name == "nil"
}

// reflect.K -> K
func c12ReflectKind(e ast.Expr) (string, bool) {
	sel, ok := e.(*ast.SelectorExpr)
	if !ok {
		return "", false
	}
	if id, ok := sel.X.(*ast.Ident); !ok || id.Name != "reflect" {
		return "", false
	}
	return sel.Sel.Name, true
}

// does every path through the statement list end in a return?
func c12AlwaysReturns(l []ast.Stmt) bool {
	if len(l) == 0 {
		return false
	}
	switch x := l[len(l)-1].(type) {
	case *ast.ReturnStmt:
		return true
	case *ast.IfStmt:
		if x.Else == nil {
			return false
		}
		eb, ok := x.Else.(*ast.BlockStmt)
		return ok && c12AlwaysReturns(x.Body.List) && c12AlwaysReturns(eb.List)
	}
	return false
}

func c12ContainsReturn(n ast.Node) bool {
	found := false
	ast.Inspect(n, func(m ast.Node) bool {
		if _, ok := m.(*ast.FuncLit); ok {
			return false
		}
		if _, ok := m.(*ast.ReturnStmt); ok {
			found = true
		}
		return !found
	})
	return found
}

func c12CoqStr(s string) string { return `"` + strings.ReplaceAll(s, `"`, `""`) + `"%string` }

func c12Squash(s string) string { return strings.Join(strings.Fields(s), "") }

func c12ParseGo(fset *token.FileSet, repo string, rel ...string) (*ast.File, error) {
	return parser.ParseFile(fset, filepath.Join(append([]string{repo}, rel...)...), nil, 0)
}

func c12TopFunc(f *ast.File, name string) *ast.FuncDecl {
	for _, d := range f.Decls {
		if fn, ok := d.(*ast.FuncDecl); ok && fn.Recv == nil && fn.Name.Name == name {
			return fn
		}
	}
	return nil
}
