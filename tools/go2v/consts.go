package main

// Extractors "streamsel" (property C08) and "steplimit" (property C01): constants and small
// tables that the models repeat.
//
//   schema/select.go   const maxSelectNum = N
//                      func receiveN: a slice literal of N+1 function literals; entry 0 is nil,
//                      entry k is one select statement with k receive cases, case j receiving
//                      from ss[chosenList[a]].items and returning chosenList[b]
//   schema/stream.go   the two decisions that compare a length with maxSelectNum: build the reflect
//                      cases or not, reflect.Select or receiveN (c08_streamsel.go; whichever function
//                      holds them, whichever way round they are written)
//   compose/graph.go   r.options.maxRunSteps = len(r.chanSubscribeTo) + K   (default step limit)
//
// Output: coq/Gen/StreamSelTable.v  (max_select_num, receive_table, builds_reflect_cases, recv_uses_reflect)
//         coq/Gen/StepLimit.v       (default_step_addend, default_step_base)
// Proofs/GenAgreeStream.v / Proofs/GenAgreeGraph.v prove them equal to what Model/Stream.v and
// Model/Graph.v say.

import (
	"fmt"
	"go/ast"
	"go/parser"
	"go/token"
	"go/types"
	"path/filepath"
	"strconv"
	"strings"
)

func init() {
	register("streamsel", extractStreamSel)
	registerFallback("streamsel", "StreamSelTable.v", "(* Gen/StreamSelTable.v — translator tie UNAVAILABLE: tools/go2v (extractor \"streamsel\") did not recognise the\n"+
		"   shape of schema/select.go / schema/stream.go; the model's own tables are re-exported. *)\n"+
		"From Eino Require Import Base.Util Model.StreamSelTable.\n\n"+
		"Definition max_select_num : nat := Model.StreamSelTable.max_select_num.\n"+
		"Definition receive_table : list (list (nat * nat)) := Model.StreamSelTable.receive_table.\n"+
		"Definition builds_reflect_cases (n k : nat) : bool := Model.StreamSelTable.builds_reflect_cases n k.\n"+
		"Definition recv_uses_reflect (n k : nat) : bool := Model.StreamSelTable.recv_uses_reflect n k.\n")
	register("steplimit", extractStepLimit)
	registerFallback("steplimit", "StepLimit.v", "(* Gen/StepLimit.v — translator tie UNAVAILABLE: tools/go2v (extractor \"steplimit\") did not recognise the\n"+
		"   shape of compose/graph.go; the model's own constants are re-exported. *)\n"+
		"From Eino Require Import Base.Util Model.StepLimitTable.\n\n"+
		"Definition default_step_addend : nat := Model.StepLimitTable.default_step_addend.\n"+
		"Definition default_step_base : string := Model.StepLimitTable.default_step_base.\n"+
		"Definition default_step_guard : string := Model.StepLimitTable.default_step_guard.\n")
}

func parseGo(fset *token.FileSet, repo string, rel ...string) (*ast.File, error) {
	return parser.ParseFile(fset, filepath.Join(append([]string{repo}, rel...)...), nil, 0)
}

func topFunc(f *ast.File, name string) *ast.FuncDecl {
	for _, d := range f.Decls {
		if fn, ok := d.(*ast.FuncDecl); ok && fn.Recv == nil && fn.Name.Name == name {
			return fn
		}
	}
	return nil
}

func intConst(f *ast.File, name string) (int, error) {
	for _, d := range f.Decls {
		gd, ok := d.(*ast.GenDecl)
		if !ok || gd.Tok != token.CONST {
			continue
		}
		for _, sp := range gd.Specs {
			vs := sp.(*ast.ValueSpec)
			for i, n := range vs.Names {
				if n.Name == name && i < len(vs.Values) {
					if bl, ok := vs.Values[i].(*ast.BasicLit); ok && bl.Kind == token.INT {
						return strconv.Atoi(bl.Value)
					}
					return 0, fmt.Errorf("const %s is not an integer literal", name)
				}
			}
		}
	}
	return 0, fmt.Errorf("const %s not found", name)
}

func squash(s string) string { return strings.Join(strings.Fields(s), "") }

// index k of `chosenList[k]`
func chosenIdx(e ast.Expr) (int, bool) {
	ix, ok := e.(*ast.IndexExpr)
	if !ok {
		return 0, false
	}
	if id, ok := ix.X.(*ast.Ident); !ok || id.Name != "chosenList" {
		return 0, false
	}
	bl, ok := ix.Index.(*ast.BasicLit)
	if !ok || bl.Kind != token.INT {
		return 0, false
	}
	n, err := strconv.Atoi(bl.Value)
	return n, err == nil
}

func extractStreamSel(repo string) (string, string, error) {
	fset := token.NewFileSet()
	f, err := parseGo(fset, repo, "schema", "select.go")
	if err != nil {
		return "", "", err
	}
	max, err := intConst(f, "maxSelectNum")
	if err != nil {
		return "", "", err
	}
	fn := topFunc(f, "receiveN")
	if fn == nil || fn.Body == nil || len(fn.Body.List) != 1 {
		return "", "", fmt.Errorf("receiveN: not a single return statement")
	}
	ret, ok := fn.Body.List[0].(*ast.ReturnStmt)
	if !ok || len(ret.Results) != 1 {
		return "", "", fmt.Errorf("receiveN: not `return table[len(chosenList)](chosenList, ss)`")
	}
	call, ok := ret.Results[0].(*ast.CallExpr)
	if !ok {
		return "", "", fmt.Errorf("receiveN: result is not a call")
	}
	ix, ok := call.Fun.(*ast.IndexExpr)
	if !ok || squash(types.ExprString(ix.Index)) != "len(chosenList)" {
		return "", "", fmt.Errorf("receiveN: the table is not indexed by len(chosenList)")
	}
	lit, ok := ix.X.(*ast.CompositeLit)
	if !ok {
		return "", "", fmt.Errorf("receiveN: the table is not a slice literal")
	}
	var table [][][2]int
	for k, el := range lit.Elts {
		if k == 0 {
			if id, ok := el.(*ast.Ident); !ok || id.Name != "nil" {
				return "", "", fmt.Errorf("receiveN: entry 0 is not nil")
			}
			continue
		}
		fl, ok := el.(*ast.FuncLit)
		if !ok || len(fl.Body.List) != 1 {
			return "", "", fmt.Errorf("receiveN: entry %d is not a function literal with one statement", k)
		}
		sel, ok := fl.Body.List[0].(*ast.SelectStmt)
		if !ok {
			return "", "", fmt.Errorf("receiveN: entry %d is not a select", k)
		}
		var row [][2]int
		for _, c := range sel.Body.List {
			cc := c.(*ast.CommClause)
			as, ok := cc.Comm.(*ast.AssignStmt)
			if !ok || len(as.Rhs) != 1 || len(cc.Body) != 1 {
				return "", "", fmt.Errorf("receiveN: entry %d has a default or a non-receive case", k)
			}
			un, ok := as.Rhs[0].(*ast.UnaryExpr)
			if !ok || un.Op != token.ARROW {
				return "", "", fmt.Errorf("receiveN: entry %d: case is not a receive", k)
			}
			// ss[chosenList[a]].items
			se, ok := un.X.(*ast.SelectorExpr)
			if !ok || se.Sel.Name != "items" {
				return "", "", fmt.Errorf("receiveN: entry %d: receive is not from .items", k)
			}
			six, ok := se.X.(*ast.IndexExpr)
			if !ok {
				return "", "", fmt.Errorf("receiveN: entry %d: receive is not from ss[...]", k)
			}
			if id, ok := six.X.(*ast.Ident); !ok || id.Name != "ss" {
				return "", "", fmt.Errorf("receiveN: entry %d: receive is not from ss[...]", k)
			}
			a, ok := chosenIdx(six.Index)
			if !ok {
				return "", "", fmt.Errorf("receiveN: entry %d: stream index is not chosenList[const]", k)
			}
			r, ok := cc.Body[0].(*ast.ReturnStmt)
			if !ok || len(r.Results) != 3 {
				return "", "", fmt.Errorf("receiveN: entry %d: case body is not a 3-value return", k)
			}
			b, ok := chosenIdx(r.Results[0])
			if !ok || squash(types.ExprString(r.Results[1])) != "&item" || squash(types.ExprString(r.Results[2])) != "ok" {
				return "", "", fmt.Errorf("receiveN: entry %d: case does not return (chosenList[const], &item, ok)", k)
			}
			row = append(row, [2]int{a, b})
		}
		table = append(table, row)
	}
	// the two decisions that depend on maxSelectNum, wherever package schema takes them (c08_streamsel.go)
	sites, err := c08selSites(repo)
	if err != nil {
		return "", "", err
	}
	var b strings.Builder
	b.WriteString("(* Gen/StreamSelTable.v — GENERATED by tools/go2v (extractor \"streamsel\") from schema/select.go\n")
	b.WriteString("   (maxSelectNum, receiveN) and schema/stream.go (comparisons with maxSelectNum). Do not edit. *)\n")
	b.WriteString("From Eino Require Import Base.Util.\n\n")
	fmt.Fprintf(&b, "Definition max_select_num : nat := %d.\n\n", max)
	b.WriteString("(* receiveN: for arity k = 1, 2, ...: the cases of the select, each (index into chosenList of the stream\n   received from, index into chosenList of the stream reported as chosen) *)\n")
	b.WriteString("Definition receive_table : list (list (nat * nat)) :=\n  [ ")
	for i, row := range table {
		if i > 0 {
			b.WriteString(";\n    ")
		}
		b.WriteString("[")
		for j, p := range row {
			if j > 0 {
				b.WriteString("; ")
			}
			fmt.Fprintf(&b, "(%d, %d)", p[0], p[1])
		}
		b.WriteString("]")
	}
	b.WriteString(" ].\n\n(* the two decisions of schema/stream.go that depend on maxSelectNum, as functions of n = len(sts) (all\n   sources of the merged reader) and k = len(chosenList) (the sources that have not ended);\n   true = the reflect way *)\n")
	for _, role := range []string{"build", "recv"} {
		for _, st := range sites {
			if st.role != role {
				continue
			}
			if role == "build" {
				fmt.Fprintf(&b, "(* %s: `%s` decides whether the []reflect.SelectCase are built *)\n", st.fn, st.src)
				fmt.Fprintf(&b, "Definition builds_reflect_cases (n k : nat) : bool := %s.\n", st.gallina)
			} else {
				fmt.Fprintf(&b, "(* %s: `%s` decides between reflect.Select (true) and receiveN (false) *)\n", st.fn, st.src)
				fmt.Fprintf(&b, "Definition recv_uses_reflect (n k : nat) : bool := %s.\n", st.gallina)
			}
		}
	}
	return "StreamSelTable.v", b.String(), nil
}

func extractStepLimit(repo string) (string, string, error) {
	fset := token.NewFileSet()
	f, err := parseGo(fset, repo, "compose", "graph.go")
	if err != nil {
		return "", "", err
	}
	type hit struct {
		base  string
		add   int
		guard string
	}
	var hits []hit
	var ierr error
	// the assignment and the condition of the if / else-if it sits in
	ast.Inspect(f, func(n ast.Node) bool {
		is, ok := n.(*ast.IfStmt)
		if !ok {
			return true
		}
		for _, st := range is.Body.List {
			as, ok := st.(*ast.AssignStmt)
			if !ok || len(as.Lhs) != 1 || len(as.Rhs) != 1 || as.Tok != token.ASSIGN {
				continue
			}
			if !strings.HasSuffix(squash(types.ExprString(as.Lhs[0])), ".maxRunSteps") {
				continue
			}
			be, ok := as.Rhs[0].(*ast.BinaryExpr)
			if !ok || be.Op != token.ADD {
				continue // a plain copy of the option, not the default
			}
			bl, ok := be.Y.(*ast.BasicLit)
			if !ok || bl.Kind != token.INT {
				ierr = fmt.Errorf("maxRunSteps default: right operand %s is not an integer literal", types.ExprString(be.Y))
				return false
			}
			k, _ := strconv.Atoi(bl.Value)
			hits = append(hits, hit{squash(types.ExprString(be.X)), k, squash(types.ExprString(is.Cond))})
		}
		return true
	})
	if ierr != nil {
		return "", "", ierr
	}
	if len(hits) != 1 {
		return "", "", fmt.Errorf("expected exactly one `….maxRunSteps = <expr> + <int>` inside an if, found %d", len(hits))
	}
	var b strings.Builder
	b.WriteString("(* Gen/StepLimit.v — GENERATED by tools/go2v (extractor \"steplimit\") from compose/graph.go\n")
	b.WriteString("   (graph.compile: the default of maxRunSteps). Do not edit. *)\n")
	b.WriteString("From Eino Require Import Base.Util.\n\n")
	fmt.Fprintf(&b, "Definition default_step_addend : nat := %d.\n", hits[0].add)
	fmt.Fprintf(&b, "Definition default_step_base : string := %s.\n", coqStr(hits[0].base))
	fmt.Fprintf(&b, "Definition default_step_guard : string := %s.\n", coqStr(hits[0].guard))
	return "StepLimit.v", b.String(), nil
}
