package main

const c15RefTakeOne = ""
const c15RefFieldMap = ""
