package main

// Extractor "streamcode" (property C08): small methods of schema/stream.go translated statement by
// statement into Gallina over the vocabulary of Model/StreamGenLib.v.
//
//	(*arrayReader).recv                  -> array_recv      (ar : arrd) : gopair * arrd
//	(*arrayReader).copy                  -> array_copy      (ar : arrd) (n : nat) : list arrd
//	(*parentStreamReader).close          -> parent_close    (p : parent) (idx : nat) (ev) : parent * list event
//	(*parentStreamReader).peek           -> parent_peek     (p : gparent) (idx : nat) (src : gopair) : gopair * gparent * bool
//	                                        (the linked list as a heap of elements, elem.once.Do as a test of the element's done flag,
//	                                         the result of p.sr.Recv() as the parameter src, `pulled` = it was called; panic branch dropped)
//	newMultiStreamReader                 -> msr_new         (sts : list nat) : msrd      (reflect cases dropped)
//	(*multiStreamReader).recv, the loop over msr.chosenList that retires a finished source
//	                                     -> msr_retire      (msr : msrd) (chosen : nat) : msrd
//	(*multiStreamReader).close           -> msr_close       (msr : msrd) (ev) : msrd * list event
//	(*streamReaderWithConvert).recv, one iteration of its loop
//	                                     -> conv_recv_iter  (convert : goconv) (src : gopair) : option gopair
//	(*streamReaderWithConvert).toStream, (*childStreamReader).toStream: capacity of the stream, one
//	iteration of the goroutine's loop, its deferred block (without the panic branch)
//	                                     -> conv_fwd_cap / conv_fwd_body / conv_fwd_deferred, child_fwd_…
//	MergeStreamReaders (skeleton recognised, the expressions in it translated)
//	                                     -> merge_readers   (srs : list rd) (acc : macc) : option rd * macc
//	(*stream).send: its select statements as data (send_selects); recv / closeSend / closeRecv: their statements
//	(*StreamReader).Recv / Close: the switch over sr.typ as a table; (*StreamReader).Copy: the test
//	under which the reader itself is returned
//	                                     -> recv_dispatch, close_dispatch, copy_self_cond
//
// The translated fragment: `x := e`, `x = e`, `r.f = e`, `r.f[i] = e`, `x[i] = e`, `r.f++`, `var t T`,
// `if [init;] c { … } [else { … }]` (the statements after it are translated on both paths), `return …`,
// `break`, `continue`, `for i := range X`, `for _, v := range X`, `for i := 0; i < n; i++` (one variable modified in the
// body: a fold, or range_brk if the body breaks), x := atomic.AddUint32(&r.f, c), the calls ret.send,
// ret.closeSend, s.closeRecv, Close/close of the reader's own source (logged as events), calls to verif*
// hooks (dropped); expressions: variables, receiver fields, len, int conversions, x[i], x[:i], x[i:],
// append(a, b...), make([]T, n), composite literals of arrayReader / multiStreamReader, + < > <= >= == !=
// && || !, nil, io.EOF, ErrNoValue, errors.Is.  Anything else is "not recognised" (tie unavailable); a
// recognised source with a different operator, operand, order or loop range yields a different term and
// Proofs/GenAgreeStreamCode.v fails.
//
// Output: coq/Gen/StreamCode.v.

import (
	"embed"
	"fmt"
	"go/ast"
	"go/parser"
	"go/printer"
	"go/token"
	"go/types"
	"path/filepath"
	"strings"
)

//go:embed c08_neutral/StreamCode.v
var c08NeutralFS embed.FS

func c08Neutral() string {
	b, err := c08NeutralFS.ReadFile("c08_neutral/StreamCode.v")
	if err != nil {
		return "(* c08_neutral/StreamCode.v missing *)\n"
	}
	return "(* Gen/StreamCode.v — translator tie UNAVAILABLE: tools/go2v (extractor \"streamcode\") did not recognise the shape of\n" +
		"   schema/stream.go; this is the reference translation the proofs were written against (tools/go2v/c08_neutral). *)\n" + string(b)
}

func init() {
	register("streamcode", c08ExtractStreamCode)
	registerFallback("streamcode", "StreamCode.v", c08Neutral())
}

// ---------------------------------------------------------------- kinds and fields

type c08Field struct {
	get, set, kind string
}

// receiver types the translator knows: Go field -> projection, setter, kind
var c08Records = map[string]map[string]c08Field{
	"arrd": {
		"arr":   {"ar_arr", "", "list:N"},
		"index": {"ar_index", "set_ar_index", "nat"},
	},
	"parent": {
		"subStreamList": {"p_cur", "set_p_cur", "list:opt"},
		"closedNum":     {"p_closed", "set_p_closed", "nat"},
	},
	"gparent": { // parentStreamReader with its linked list as a heap (peek)
		"subStreamList": {"gp_sub", "set_gp_sub", "list:opt"},
	},
	"msrd": {
		"sts":        {"msr_sts", "", "list:nat"},
		"chosenList": {"msr_chosenList", "set_msr_chosenList", "list:nat"},
	},
}

func c08Default(kind string) (string, error) {
	switch kind {
	case "N":
		return "0%N", nil
	case "nat":
		return "0", nil
	case "opt":
		return "None", nil
	case "arrd":
		return "(mkArrd [] 0)", nil
	case "rd":
		return "rd_nil", nil
	}
	return "", fmt.Errorf("no zero value for kind %s", kind)
}

type c08Ctx struct {
	loop     bool // the list is the body of a loop: falling off its end = next iteration
	onEnd    func() string
	onReturn func(vals []ast.Expr) (string, error)
	onBreak  func() (string, error)
}

type c08Tr struct {
	fn      string
	recv    string               // receiver identifier ("" = none)
	rkind   string               // its record kind
	vars    map[string]string    // variables in scope -> kind
	ignored map[string]bool      // identifiers whose statements are dropped
	srcCall string               // the call whose (chunk, err) result is the parameter src, e.g. "srw.sr.recvAny"
	heap    bool                 // peek: variables of kind opt are pointers to list elements; calling the source sets pulled
	alias   map[string][2]string // identifiers / selector chains that stand for a term of the vocabulary: text, kind
	ind     int
}

func (t *c08Tr) errf(format string, a ...any) error {
	return fmt.Errorf("%s: %s", t.fn, fmt.Sprintf(format, a...))
}

func (t *c08Tr) pad() string { return strings.Repeat("  ", t.ind) }

func (t *c08Tr) field(e ast.Expr) (c08Field, bool) {
	sel, ok := e.(*ast.SelectorExpr)
	if !ok || t.recv == "" {
		return c08Field{}, false
	}
	id, ok := sel.X.(*ast.Ident)
	if !ok || id.Name != t.recv {
		return c08Field{}, false
	}
	f, ok := c08Records[t.rkind][sel.Sel.Name]
	return f, ok
}

func c08Sel(e ast.Expr) string { return squash(types.ExprString(e)) }

// ---------------------------------------------------------------- expressions

// expr translates e; want is the kind expected by the context ("" = unknown; used for nil and literals)
func (t *c08Tr) expr(e ast.Expr, want string) (string, string, error) {
	switch x := e.(type) {
	case *ast.ParenExpr:
		return t.expr(x.X, want)
	case *ast.Ident:
		switch x.Name {
		case "true", "false":
			return x.Name, "bool", nil
		case "nil":
			switch want {
			case "err":
				return "ENil", "err", nil
			case "opt":
				return "None", "opt", nil
			}
			return "", "", t.errf("nil in a context of kind %q", want)
		case "ErrNoValue":
			return "(ENoValue false)", "err", nil
		case "ErrRecvAfterClosed":
			return "ERecvAfterClosed", "err", nil
		}
		if a, ok := t.alias[x.Name]; ok {
			return a[0], a[1], nil
		}
		if k, ok := t.vars[x.Name]; ok {
			return x.Name, k, nil
		}
		return "", "", t.errf("unknown identifier %s", x.Name)
	case *ast.BasicLit:
		if x.Kind != token.INT {
			return "", "", t.errf("literal %s", x.Value)
		}
		if want == "N" {
			return x.Value + "%N", "N", nil
		}
		return x.Value, "nat", nil
	case *ast.SelectorExpr:
		if a, ok := t.alias[c08Sel(x)]; ok {
			return a[0], a[1], nil
		}
		if f, ok := t.field(x); ok {
			return "(" + f.get + " " + t.recv + ")", f.kind, nil
		}
		if c08Sel(x) == "io.EOF" {
			return "EEOF", "err", nil
		}
		if t.heap { // elem.next, elem.item.chunk, elem.item.err
			if id, ok := x.X.(*ast.Ident); ok && t.vars[id.Name] == "opt" && x.Sel.Name == "next" {
				return "(ge_next (deref " + t.recv + " " + id.Name + "))", "opt", nil
			}
			if in, ok := x.X.(*ast.SelectorExpr); ok && in.Sel.Name == "item" {
				if id, ok := in.X.(*ast.Ident); ok && t.vars[id.Name] == "opt" {
					switch x.Sel.Name {
					case "chunk":
						return "(fst (ge_item (deref " + t.recv + " " + id.Name + ")))", "N", nil
					case "err":
						return "(snd (ge_item (deref " + t.recv + " " + id.Name + ")))", "err", nil
					}
				}
			}
		}
		return "", "", t.errf("selector %s", c08Sel(x))
	case *ast.UnaryExpr:
		if x.Op == token.NOT {
			s, k, err := t.expr(x.X, "bool")
			if err != nil {
				return "", "", err
			}
			if k != "bool" {
				return "", "", t.errf("! applied to kind %s", k)
			}
			return "(negb " + s + ")", "bool", nil
		}
		if x.Op == token.AND {
			if cl, ok := x.X.(*ast.CompositeLit); ok {
				return t.composite(cl)
			}
		}
		return "", "", t.errf("unary %s", x.Op)
	case *ast.CompositeLit:
		return t.composite(x)
	case *ast.IndexExpr:
		a, k, err := t.expr(x.X, "")
		if err != nil {
			return "", "", err
		}
		if !strings.HasPrefix(k, "list:") {
			return "", "", t.errf("index into kind %s", k)
		}
		ek := strings.TrimPrefix(k, "list:")
		d, err := c08Default(ek)
		if err != nil {
			return "", "", err
		}
		i, ik, err := t.expr(x.Index, "nat")
		if err != nil {
			return "", "", err
		}
		if ik != "nat" {
			return "", "", t.errf("index of kind %s", ik)
		}
		return "(go_index " + d + " " + a + " " + i + ")", ek, nil
	case *ast.SliceExpr:
		if x.Slice3 {
			return "", "", t.errf("3-index slice")
		}
		a, k, err := t.expr(x.X, "")
		if err != nil {
			return "", "", err
		}
		if !strings.HasPrefix(k, "list:") {
			return "", "", t.errf("slice of kind %s", k)
		}
		switch {
		case x.Low == nil && x.High != nil:
			j, _, err := t.expr(x.High, "nat")
			if err != nil {
				return "", "", err
			}
			return "(go_slice_to " + a + " " + j + ")", k, nil
		case x.Low != nil && x.High == nil:
			i, _, err := t.expr(x.Low, "nat")
			if err != nil {
				return "", "", err
			}
			return "(go_slice_from " + a + " " + i + ")", k, nil
		}
		return "", "", t.errf("slice expression %s", c08Sel(x))
	case *ast.CallExpr:
		return t.call(x, want)
	case *ast.BinaryExpr:
		return t.binary(x)
	}
	return "", "", t.errf("expression %s", c08Sel(e))
}

func (t *c08Tr) composite(cl *ast.CompositeLit) (string, string, error) {
	ty := c08Sel(cl.Type)
	fields := map[string]ast.Expr{}
	for _, el := range cl.Elts {
		kv, ok := el.(*ast.KeyValueExpr)
		if !ok {
			return "", "", t.errf("composite literal %s without keys", ty)
		}
		fields[c08Sel(kv.Key)] = kv.Value
	}
	need := func(names ...string) error {
		for _, n := range names {
			if fields[n] == nil {
				return t.errf("composite literal %s lacks field %s", ty, n)
			}
		}
		for n := range fields {
			ok := t.ignored[n]
			for _, m := range names {
				ok = ok || n == m
			}
			if !ok {
				return t.errf("composite literal %s has unknown field %s", ty, n)
			}
		}
		return nil
	}
	switch {
	case strings.HasPrefix(ty, "arrayReader["):
		if err := need("arr", "index"); err != nil {
			return "", "", err
		}
		a, ak, err := t.expr(fields["arr"], "list:N")
		if err != nil {
			return "", "", err
		}
		i, ik, err := t.expr(fields["index"], "nat")
		if err != nil {
			return "", "", err
		}
		if ak != "list:N" || ik != "nat" {
			return "", "", t.errf("arrayReader literal with kinds %s, %s", ak, ik)
		}
		return "(mkArrd " + a + " " + i + ")", "arrd", nil
	case strings.HasPrefix(ty, "multiStreamReader["):
		if err := need("sts", "chosenList"); err != nil {
			return "", "", err
		}
		a, ak, err := t.expr(fields["sts"], "list:nat")
		if err != nil {
			return "", "", err
		}
		c, ck, err := t.expr(fields["chosenList"], "list:nat")
		if err != nil {
			return "", "", err
		}
		if ak != "list:nat" || ck != "list:nat" {
			return "", "", t.errf("multiStreamReader literal with kinds %s, %s", ak, ck)
		}
		return "(mkMsrd " + a + " " + c + ")", "msrd", nil
	}
	return "", "", t.errf("composite literal of type %s", ty)
}

func (t *c08Tr) call(c *ast.CallExpr, want string) (string, string, error) {
	fn := c08Sel(c.Fun)
	switch {
	case fn == "len" && len(c.Args) == 1:
		a, k, err := t.expr(c.Args[0], "")
		if err != nil {
			return "", "", err
		}
		if !strings.HasPrefix(k, "list:") {
			return "", "", t.errf("len of kind %s", k)
		}
		return "(List.length " + a + ")", "nat", nil
	case (fn == "int" || fn == "uint32" || fn == "uint") && len(c.Args) == 1:
		a, k, err := t.expr(c.Args[0], "nat")
		if err != nil {
			return "", "", err
		}
		if k != "nat" {
			return "", "", t.errf("%s of kind %s", fn, k)
		}
		return a, "nat", nil
	case fn == "errors.Is" && len(c.Args) == 2:
		a, ak, err := t.expr(c.Args[0], "err")
		if err != nil {
			return "", "", err
		}
		b, bk, err := t.expr(c.Args[1], "err")
		if err != nil {
			return "", "", err
		}
		if ak != "err" || bk != "err" {
			return "", "", t.errf("errors.Is of kinds %s, %s", ak, bk)
		}
		return "(errors_is " + a + " " + b + ")", "bool", nil
	case fn == "append" && len(c.Args) == 2 && c.Ellipsis.IsValid():
		a, ak, err := t.expr(c.Args[0], "")
		if err != nil {
			return "", "", err
		}
		b, bk, err := t.expr(c.Args[1], ak)
		if err != nil {
			return "", "", err
		}
		if ak != bk || !strings.HasPrefix(ak, "list:") {
			return "", "", t.errf("append of kinds %s, %s", ak, bk)
		}
		return "(" + a + " ++ " + b + ")", ak, nil
	case fn == "make" && len(c.Args) == 2:
		ty := c08Sel(c.Args[0])
		ek := ""
		switch {
		case ty == "[]int":
			ek = "nat"
		case strings.HasPrefix(ty, "[]*arrayReader["):
			ek = "arrd"
		default:
			return "", "", t.errf("make of type %s", ty)
		}
		d, _ := c08Default(ek)
		n, nk, err := t.expr(c.Args[1], "nat")
		if err != nil {
			return "", "", err
		}
		if nk != "nat" {
			return "", "", t.errf("make with a length of kind %s", nk)
		}
		return "(repeat " + d + " " + n + ")", "list:" + ek, nil
	}
	return "", "", t.errf("call %s", c08Sel(c))
}

func (t *c08Tr) binary(x *ast.BinaryExpr) (string, string, error) {
	switch x.Op {
	case token.LAND, token.LOR:
		a, ak, err := t.expr(x.X, "bool")
		if err != nil {
			return "", "", err
		}
		b, bk, err := t.expr(x.Y, "bool")
		if err != nil {
			return "", "", err
		}
		if ak != "bool" || bk != "bool" {
			return "", "", t.errf("%s on kinds %s, %s", x.Op, ak, bk)
		}
		op := "andb"
		if x.Op == token.LOR {
			op = "orb"
		}
		return "(" + op + " " + a + " " + b + ")", "bool", nil
	case token.EQL, token.NEQ:
		// the side that is not nil fixes the kind
		l, r := x.X, x.Y
		if id, ok := l.(*ast.Ident); ok && id.Name == "nil" {
			l, r = r, l
		}
		a, ak, err := t.expr(l, "")
		if err != nil {
			return "", "", err
		}
		var s string
		if id, ok := r.(*ast.Ident); ok && id.Name == "nil" && ak == "opt" {
			s = "(go_isnil " + a + ")"
		} else {
			b, bk, err := t.expr(r, ak)
			if err != nil {
				return "", "", err
			}
			if ak != bk {
				return "", "", t.errf("== on kinds %s, %s", ak, bk)
			}
			switch ak {
			case "nat":
				s = "(Nat.eqb " + a + " " + b + ")"
			case "N":
				s = "(N.eqb " + a + " " + b + ")"
			case "err":
				s = "(goerr_eqb " + a + " " + b + ")"
			case "bool":
				s = "(Bool.eqb " + a + " " + b + ")"
			default:
				return "", "", t.errf("== on kind %s", ak)
			}
		}
		if x.Op == token.NEQ {
			s = "(negb " + s + ")"
		}
		return s, "bool", nil
	case token.LSS, token.GTR, token.LEQ, token.GEQ, token.ADD:
		a, ak, err := t.expr(x.X, "nat")
		if err != nil {
			return "", "", err
		}
		b, bk, err := t.expr(x.Y, "nat")
		if err != nil {
			return "", "", err
		}
		if ak != "nat" || bk != "nat" {
			return "", "", t.errf("%s on kinds %s, %s", x.Op, ak, bk)
		}
		switch x.Op {
		case token.LSS:
			return "(Nat.ltb " + a + " " + b + ")", "bool", nil
		case token.GTR:
			return "(Nat.ltb " + b + " " + a + ")", "bool", nil
		case token.LEQ:
			return "(Nat.leb " + a + " " + b + ")", "bool", nil
		case token.GEQ:
			return "(Nat.leb " + b + " " + a + ")", "bool", nil
		default:
			return "(" + a + " + " + b + ")", "nat", nil
		}
	}
	return "", "", t.errf("operator %s", x.Op)
}

// ---------------------------------------------------------------- statements

func (t *c08Tr) mentionsIgnored(n ast.Node) bool {
	found := false
	ast.Inspect(n, func(m ast.Node) bool {
		if id, ok := m.(*ast.Ident); ok && t.ignored[id.Name] {
			found = true
		}
		return !found
	})
	return found
}

func (t *c08Tr) baseIdent(e ast.Expr) string {
	for {
		switch x := e.(type) {
		case *ast.Ident:
			return x.Name
		case *ast.IndexExpr:
			e = x.X
		case *ast.SelectorExpr:
			e = x.X
		case *ast.ParenExpr:
			e = x.X
		default:
			return ""
		}
	}
}

// droppable: the statement only concerns ignored identifiers (the reflect.Select cases, the panic
// bookkeeping of the goroutines) or is a call to an accounting hook of the verification build
func (t *c08Tr) droppable(s ast.Stmt) bool {
	switch x := s.(type) {
	case *ast.AssignStmt:
		for _, l := range x.Lhs {
			if !t.ignored[t.baseIdent(l)] {
				return false
			}
		}
		return true
	case *ast.DeclStmt:
		gd, ok := x.Decl.(*ast.GenDecl)
		if !ok || gd.Tok != token.VAR {
			return false
		}
		for _, sp := range gd.Specs {
			for _, n := range sp.(*ast.ValueSpec).Names {
				if !t.ignored[n.Name] {
					return false
				}
			}
		}
		return true
	case *ast.ExprStmt:
		if c, ok := x.X.(*ast.CallExpr); ok {
			if id, ok := c.Fun.(*ast.Ident); ok && strings.HasPrefix(id.Name, "verif") {
				return true
			}
		}
		return false
	case *ast.DeferStmt:
		return t.mentionsIgnored(x)
	case *ast.IfStmt:
		if x.Init == nil && t.mentionsIgnored(x.Cond) {
			return true
		}
		if x.Else != nil || x.Init != nil {
			return false
		}
		for _, b := range x.Body.List {
			if !t.droppable(b) {
				return false
			}
		}
		return len(x.Body.List) > 0
	case *ast.RangeStmt:
		for _, b := range x.Body.List {
			if !t.droppable(b) {
				return false
			}
		}
		return len(x.Body.List) > 0
	}
	return false
}

func (t *c08Tr) let(name, val string) string {
	return t.pad() + "let " + name + " := " + val + " in\n"
}

func (t *c08Tr) event(ev string) string { return t.let("ev", "ev ++ ["+ev+"]") }

// effectCall: calls on other objects that are logged as events
func (t *c08Tr) effectCall(c *ast.CallExpr) (string, bool, error) {
	fn := c08Sel(c.Fun)
	sel, ok := c.Fun.(*ast.SelectorExpr)
	if !ok {
		return "", false, nil
	}
	switch {
	case fn == "ret.send" && len(c.Args) == 2:
		a, ak, err := t.expr(c.Args[0], "N")
		if err != nil {
			return "", true, err
		}
		b, bk, err := t.expr(c.Args[1], "err")
		if err != nil {
			return "", true, err
		}
		if ak != "N" || bk != "err" {
			return "", true, t.errf("ret.send of kinds %s, %s", ak, bk)
		}
		return "EvSend (" + a + ", " + b + ")", true, nil
	case fn == "ret.closeSend" && len(c.Args) == 0:
		return "EvCloseSend", true, nil
	case sel.Sel.Name == "closeRecv" && len(c.Args) == 0:
		a, k, err := t.expr(sel.X, "nat")
		if err != nil {
			return "", true, err
		}
		if k != "nat" {
			return "", true, t.errf("closeRecv on kind %s", k)
		}
		return "EvCloseRecv " + a, true, nil
	case (sel.Sel.Name == "Close" || sel.Sel.Name == "close") && len(c.Args) == 0 && t.recv != "" &&
		(c08Sel(sel.X) == t.recv || c08Sel(sel.X) == t.recv+".sr"):
		return "EvCloseSrc", true, nil
	}
	return "", false, nil
}

// stmts translates the list; what follows an if is translated on both of its paths
func (t *c08Tr) stmts(list []ast.Stmt, ctx c08Ctx) (string, error) {
	if len(list) == 0 {
		return t.pad() + ctx.onEnd() + "\n", nil
	}
	s, rest := list[0], list[1:]
	if t.droppable(s) {
		return t.stmts(rest, ctx)
	}
	then := func(prefix string) (string, error) {
		r, err := t.stmts(rest, ctx)
		return prefix + r, err
	}
	switch x := s.(type) {
	case *ast.ReturnStmt:
		r, err := ctx.onReturn(x.Results)
		if err != nil {
			return "", err
		}
		return t.pad() + r + "\n", nil
	case *ast.BranchStmt:
		if x.Tok == token.CONTINUE && x.Label == nil && ctx.loop {
			return t.pad() + ctx.onEnd() + "\n", nil // the rest of the iteration is skipped
		}
		if x.Tok != token.BREAK || x.Label != nil || ctx.onBreak == nil {
			return "", t.errf("branch statement %s", x.Tok)
		}
		r, err := ctx.onBreak()
		if err != nil {
			return "", err
		}
		return t.pad() + r + "\n", nil
	case *ast.DeclStmt:
		gd, ok := x.Decl.(*ast.GenDecl)
		if !ok || gd.Tok != token.VAR || len(gd.Specs) != 1 {
			return "", t.errf("declaration")
		}
		vs := gd.Specs[0].(*ast.ValueSpec)
		if len(vs.Names) != 1 || len(vs.Values) != 0 || c08Sel(vs.Type) != "T" {
			return "", t.errf("declaration of %s", vs.Names[0].Name)
		}
		t.vars[vs.Names[0].Name] = "N"
		return then(t.let(vs.Names[0].Name, "0%N"))
	case *ast.IncDecStmt:
		f, ok := t.field(x.X)
		if !ok || x.Tok != token.INC || f.kind != "nat" || f.set == "" {
			return "", t.errf("statement %s", c08Sel(x.X))
		}
		return then(t.let(t.recv, f.set+" "+t.recv+" (("+f.get+" "+t.recv+") + 1)"))
	case *ast.ExprStmt:
		c, ok := x.X.(*ast.CallExpr)
		if !ok {
			return "", t.errf("expression statement")
		}
		if fn := c08Sel(c.Fun); fn == "atomic.AddUint32" {
			pre, _, err := t.atomicAdd(c)
			if err != nil {
				return "", err
			}
			return then(pre)
		}
		if t.heap && c08Sel(c.Fun) == "c08MarkDone" && len(c.Args) == 1 { // (synthetic: the end of once.Do)
			return then(t.let(t.recv, "ge_mark_done "+t.recv+" "+c08Sel(c.Args[0])))
		}
		if sel, ok := c.Fun.(*ast.SelectorExpr); ok && t.heap && sel.Sel.Name == "Do" && len(c.Args) == 1 {
			// elem.once.Do(func() { … }): nothing if the element's Once has run, else the body, and then it has
			in, ok1 := sel.X.(*ast.SelectorExpr)
			fl, ok2 := c.Args[0].(*ast.FuncLit)
			if !ok1 || !ok2 || in.Sel.Name != "once" {
				return "", t.errf("call %s", c08Sel(c.Fun))
			}
			id, ok := in.X.(*ast.Ident)
			if !ok || t.vars[id.Name] != "opt" {
				return "", t.errf("once.Do on %s", c08Sel(in.X))
			}
			mark := &ast.ExprStmt{X: &ast.CallExpr{Fun: ast.NewIdent("c08MarkDone"), Args: []ast.Expr{ast.NewIdent(id.Name)}}}
			saved := t.copyVars()
			t.ind++
			a, err := t.stmts(rest, ctx)
			if err != nil {
				return "", err
			}
			t.vars = saved
			saved = t.copyVars()
			body := append(append(append([]ast.Stmt{}, fl.Body.List...), mark), rest...)
			b, err := t.stmts(body, ctx)
			if err != nil {
				return "", err
			}
			t.vars = saved
			t.ind--
			return t.pad() + "if (ge_done (deref " + t.recv + " " + id.Name + ")) then\n" + a + t.pad() + "else\n" + b, nil
		}
		ev, ok, err := t.effectCall(c)
		if err != nil {
			return "", err
		}
		if !ok {
			return "", t.errf("call %s", c08Sel(c))
		}
		return then(t.event(ev))
	case *ast.AssignStmt:
		pre, err := t.assign(x)
		if err != nil {
			return "", err
		}
		return then(pre)
	case *ast.IfStmt:
		pre := ""
		if x.Init != nil {
			as, ok := x.Init.(*ast.AssignStmt)
			if !ok {
				return "", t.errf("if with an init statement that is not an assignment")
			}
			p, err := t.assign(as)
			if err != nil {
				return "", err
			}
			pre = p
		}
		c, k, err := t.expr(x.Cond, "bool")
		if err != nil {
			return "", err
		}
		if k != "bool" {
			return "", t.errf("condition of kind %s", k)
		}
		saved := t.copyVars()
		t.ind++
		a, err := t.stmts(append(append([]ast.Stmt{}, x.Body.List...), rest...), ctx)
		if err != nil {
			return "", err
		}
		t.vars = saved
		saved = t.copyVars()
		var els []ast.Stmt
		switch e := x.Else.(type) {
		case nil:
		case *ast.BlockStmt:
			els = e.List
		case *ast.IfStmt:
			els = []ast.Stmt{e}
		}
		b, err := t.stmts(append(append([]ast.Stmt{}, els...), rest...), ctx)
		if err != nil {
			return "", err
		}
		t.vars = saved
		t.ind--
		return pre + t.pad() + "if " + c + " then\n" + a + t.pad() + "else\n" + b, nil
	case *ast.RangeStmt, *ast.ForStmt:
		pre, err := t.loop(s)
		if err != nil {
			return "", err
		}
		return then(pre)
	}
	return "", t.errf("statement %T", s)
}

func (t *c08Tr) copyVars() map[string]string {
	m := map[string]string{}
	for k, v := range t.vars {
		m[k] = v
	}
	return m
}

func (t *c08Tr) atomicAdd(c *ast.CallExpr) (string, string, error) {
	if len(c.Args) != 2 {
		return "", "", t.errf("atomic.AddUint32 arity")
	}
	u, ok := c.Args[0].(*ast.UnaryExpr)
	if !ok || u.Op != token.AND {
		return "", "", t.errf("atomic.AddUint32 on %s", c08Sel(c.Args[0]))
	}
	f, ok := t.field(u.X)
	if !ok || f.kind != "nat" || f.set == "" {
		return "", "", t.errf("atomic.AddUint32 on %s", c08Sel(u.X))
	}
	d, dk, err := t.expr(c.Args[1], "nat")
	if err != nil {
		return "", "", err
	}
	if dk != "nat" {
		return "", "", t.errf("atomic.AddUint32 by kind %s", dk)
	}
	get := "(" + f.get + " " + t.recv + ")"
	return t.let(t.recv, f.set+" "+t.recv+" ("+get+" + "+d+")"), get, nil
}

func (t *c08Tr) assign(x *ast.AssignStmt) (string, error) {
	define := x.Tok == token.DEFINE
	if x.Tok != token.DEFINE && x.Tok != token.ASSIGN {
		return "", t.errf("assignment operator %s", x.Tok)
	}
	// (chunk, err) := the source / the conversion function
	if len(x.Lhs) == 2 && len(x.Rhs) == 1 {
		c, ok := x.Rhs[0].(*ast.CallExpr)
		a, aok := x.Lhs[0].(*ast.Ident)
		b, bok := x.Lhs[1].(*ast.Ident)
		if !ok || !aok || !bok {
			return "", t.errf("assignment %s", c08Sel(x.Rhs[0]))
		}
		if !define && (t.vars[a.Name] != "N" || t.vars[b.Name] != "err") {
			return "", t.errf("assignment of a (chunk, err) pair to %s, %s", a.Name, b.Name)
		}
		fn := c08Sel(c.Fun)
		switch {
		case fn == t.srcCall && len(c.Args) == 0:
			t.vars[a.Name], t.vars[b.Name] = "N", "err"
			pre := t.pad() + "let '(" + a.Name + ", " + b.Name + ") := src in\n"
			if t.heap {
				pre += t.let("pulled", "true")
			}
			return pre, nil
		case t.recv != "" && fn == t.recv+".convert" && len(c.Args) == 1:
			arg, k, err := t.expr(c.Args[0], "N")
			if err != nil {
				return "", err
			}
			if k != "N" {
				return "", t.errf("convert applied to kind %s", k)
			}
			t.vars[a.Name], t.vars[b.Name] = "N", "err"
			return t.pad() + "let '(" + a.Name + ", " + b.Name + ") := convert " + arg + " in\n", nil
		}
		return "", t.errf("call %s", fn)
	}
	if len(x.Lhs) != 1 || len(x.Rhs) != 1 {
		return "", t.errf("assignment with %d targets", len(x.Lhs))
	}
	lhs, rhs := x.Lhs[0], x.Rhs[0]
	// calls with effects
	if c, ok := rhs.(*ast.CallExpr); ok {
		if c08Sel(c.Fun) == "atomic.AddUint32" {
			id, ok := lhs.(*ast.Ident)
			if !ok {
				return "", t.errf("result of atomic.AddUint32 assigned to %s", c08Sel(lhs))
			}
			pre, get, err := t.atomicAdd(c)
			if err != nil {
				return "", err
			}
			if id.Name == "_" {
				return pre, nil
			}
			t.vars[id.Name] = "nat"
			return pre + t.let(id.Name, get), nil
		}
		ev, ok, err := t.effectCall(c)
		if err != nil {
			return "", err
		}
		if ok {
			id, isId := lhs.(*ast.Ident)
			if !isId {
				return "", t.errf("result of %s assigned to %s", c08Sel(c.Fun), c08Sel(lhs))
			}
			if !strings.HasPrefix(ev, "EvSend") {
				return "", t.errf("%s has no result", c08Sel(c.Fun))
			}
			if id.Name == "_" {
				return t.event(ev), nil
			}
			t.vars[id.Name] = "bool"
			return t.event(ev) + t.let(id.Name, "cl"), nil
		}
	}
	if sel, ok := lhs.(*ast.SelectorExpr); ok && t.heap && !define {
		if id, ok := sel.X.(*ast.Ident); ok && t.vars[id.Name] == "opt" {
			switch sel.Sel.Name {
			case "item": // elem.item = streamItem[T]{chunk: a, err: b}
				cl, ok := rhs.(*ast.CompositeLit)
				if !ok || !strings.HasPrefix(c08Sel(cl.Type), "streamItem[") || len(cl.Elts) != 2 {
					return "", t.errf("value assigned to %s", c08Sel(lhs))
				}
				vals := map[string]ast.Expr{}
				for _, el := range cl.Elts {
					kv, ok := el.(*ast.KeyValueExpr)
					if !ok {
						return "", t.errf("streamItem literal without keys")
					}
					vals[c08Sel(kv.Key)] = kv.Value
				}
				if vals["chunk"] == nil || vals["err"] == nil {
					return "", t.errf("streamItem literal lacks chunk / err")
				}
				a, ak, err := t.expr(vals["chunk"], "N")
				if err != nil {
					return "", err
				}
				b, bk, err := t.expr(vals["err"], "err")
				if err != nil {
					return "", err
				}
				if ak != "N" || bk != "err" {
					return "", t.errf("streamItem literal of kinds %s, %s", ak, bk)
				}
				return t.let(t.recv, "ge_set_item "+t.recv+" "+id.Name+" ("+a+", "+b+")"), nil
			case "next": // elem.next = &cpStreamElement[T]{}
				u, ok := rhs.(*ast.UnaryExpr)
				if ok && u.Op == token.AND {
					if cl, ok := u.X.(*ast.CompositeLit); ok && strings.HasPrefix(c08Sel(cl.Type), "cpStreamElement[") && len(cl.Elts) == 0 {
						return t.let(t.recv, "ge_set_next_new "+t.recv+" "+id.Name), nil
					}
				}
				return "", t.errf("value assigned to %s", c08Sel(lhs))
			}
		}
	}
	switch l := lhs.(type) {
	case *ast.Ident:
		want := ""
		if !define {
			k, ok := t.vars[l.Name]
			if !ok {
				return "", t.errf("assignment to unknown variable %s", l.Name)
			}
			want = k
		}
		v, k, err := t.expr(rhs, want)
		if err != nil {
			return "", err
		}
		if want != "" && k != want {
			return "", t.errf("%s of kind %s assigned a value of kind %s", l.Name, want, k)
		}
		t.vars[l.Name] = k
		return t.let(l.Name, v), nil
	case *ast.SelectorExpr:
		f, ok := t.field(l)
		if !ok || f.set == "" {
			return "", t.errf("assignment to %s", c08Sel(l))
		}
		v, k, err := t.expr(rhs, f.kind)
		if err != nil {
			return "", err
		}
		if k != f.kind {
			return "", t.errf("%s of kind %s assigned a value of kind %s", c08Sel(l), f.kind, k)
		}
		return t.let(t.recv, f.set+" "+t.recv+" "+v), nil
	case *ast.IndexExpr:
		i, ik, err := t.expr(l.Index, "nat")
		if err != nil {
			return "", err
		}
		if ik != "nat" {
			return "", t.errf("index of kind %s", ik)
		}
		if f, ok := t.field(l.X); ok {
			if f.set == "" || !strings.HasPrefix(f.kind, "list:") {
				return "", t.errf("assignment to an element of %s", c08Sel(l.X))
			}
			ek := strings.TrimPrefix(f.kind, "list:")
			v, k, err := t.expr(rhs, ek)
			if err != nil {
				return "", err
			}
			if k != ek {
				return "", t.errf("element of kind %s assigned a value of kind %s", ek, k)
			}
			return t.let(t.recv, f.set+" "+t.recv+" (upd ("+f.get+" "+t.recv+") "+i+" "+v+")"), nil
		}
		if id, ok := l.X.(*ast.Ident); ok {
			lk, ok := t.vars[id.Name]
			if !ok || !strings.HasPrefix(lk, "list:") {
				return "", t.errf("assignment to an element of %s", id.Name)
			}
			ek := strings.TrimPrefix(lk, "list:")
			v, k, err := t.expr(rhs, ek)
			if err != nil {
				return "", err
			}
			if k != ek {
				return "", t.errf("element of kind %s assigned a value of kind %s", ek, k)
			}
			return t.let(id.Name, "upd "+id.Name+" "+i+" "+v), nil
		}
	}
	return "", t.errf("assignment to %s", c08Sel(lhs))
}

// modified: the variables a loop body assigns (receiver, locals of the enclosing scope, ev)
func (t *c08Tr) modified(body *ast.BlockStmt) []string {
	seen := map[string]bool{}
	var out []string
	add := func(n string) {
		if n != "" && n != "_" && !seen[n] {
			seen[n] = true
			out = append(out, n)
		}
	}
	ast.Inspect(body, func(n ast.Node) bool {
		switch x := n.(type) {
		case *ast.AssignStmt:
			for _, l := range x.Lhs {
				b := t.baseIdent(l)
				if x.Tok == token.DEFINE {
					if _, isId := l.(*ast.Ident); isId {
						continue
					}
				}
				if _, outer := t.vars[b]; outer || b == t.recv {
					add(b)
				}
			}
			for _, r := range x.Rhs {
				if c, ok := r.(*ast.CallExpr); ok {
					if _, ok, _ := t.effectCall(c); ok {
						add("ev")
					}
				}
			}
		case *ast.IncDecStmt:
			add(t.baseIdent(x.X))
		case *ast.ExprStmt:
			if c, ok := x.X.(*ast.CallExpr); ok {
				if _, ok, _ := t.effectCall(c); ok {
					add("ev")
				}
			}
		}
		return true
	})
	return out
}

func c08HasBreak(body *ast.BlockStmt) bool {
	found := false
	ast.Inspect(body, func(n ast.Node) bool {
		switch x := n.(type) {
		case *ast.BranchStmt:
			if x.Tok == token.BREAK {
				found = true
			}
		case *ast.RangeStmt, *ast.ForStmt, *ast.SwitchStmt, *ast.SelectStmt, *ast.FuncLit:
			if n != ast.Node(body) {
				return false
			}
		}
		return !found
	})
	return found
}

// loop: `for i := range X`, `for _, v := range X`, `for i := 0; i < n; i++` with one modified variable
func (t *c08Tr) loop(s ast.Stmt) (string, error) {
	var body *ast.BlockStmt
	var lv, over, lvKind string
	switch x := s.(type) {
	case *ast.RangeStmt:
		body = x.Body
		if x.Tok != token.DEFINE {
			return "", t.errf("range loop without :=")
		}
		xs, xk, err := t.expr(x.X, "")
		if err != nil {
			return "", err
		}
		if !strings.HasPrefix(xk, "list:") {
			return "", t.errf("range over kind %s", xk)
		}
		key, _ := x.Key.(*ast.Ident)
		if key == nil {
			return "", t.errf("range loop key")
		}
		if x.Value == nil {
			lv, lvKind, over = key.Name, "nat", "(seq 0 (List.length "+xs+"))"
		} else {
			val, _ := x.Value.(*ast.Ident)
			if val == nil || key.Name != "_" {
				return "", t.errf("range loop with key and value")
			}
			lv, lvKind, over = val.Name, strings.TrimPrefix(xk, "list:"), xs
		}
	case *ast.ForStmt:
		body = x.Body
		init, ok := x.Init.(*ast.AssignStmt)
		if !ok || init.Tok != token.DEFINE || len(init.Lhs) != 1 || c08Sel(init.Rhs[0]) != "0" {
			return "", t.errf("for loop init")
		}
		lv, lvKind = c08Sel(init.Lhs[0]), "nat"
		cond, ok := x.Cond.(*ast.BinaryExpr)
		if !ok || cond.Op != token.LSS || c08Sel(cond.X) != lv {
			return "", t.errf("for loop condition")
		}
		n, nk, err := t.expr(cond.Y, "nat")
		if err != nil {
			return "", err
		}
		post, ok := x.Post.(*ast.IncDecStmt)
		if !ok || post.Tok != token.INC || c08Sel(post.X) != lv || nk != "nat" {
			return "", t.errf("for loop post statement")
		}
		over = "(seq 0 " + n + ")"
	}
	mod := t.modified(body)
	if len(mod) != 1 {
		return "", t.errf("loop modifies %v (one variable expected)", mod)
	}
	m := mod[0]
	saved := t.copyVars()
	t.vars[lv] = lvKind
	t.ind += 2
	var res string
	var err error
	if c08HasBreak(body) {
		if lvKind != "nat" {
			return "", t.errf("loop with break over values")
		}
		inner, e := t.stmts(body.List, c08Ctx{
			loop:    true,
			onEnd:   func() string { return "(" + m + ", false)" },
			onBreak: func() (string, error) { return "(" + m + ", true)", nil },
			onReturn: func([]ast.Expr) (string, error) {
				return "", t.errf("return inside a loop")
			}})
		err = e
		t.ind -= 2
		res = t.pad() + "let " + m + " := range_brk " + over + " (fun " + m + " " + lv + " =>\n" + inner + t.pad() + "  ) " + m + " in\n"
	} else {
		inner, e := t.stmts(body.List, c08Ctx{
			loop:  true,
			onEnd: func() string { return m },
			onReturn: func([]ast.Expr) (string, error) {
				return "", t.errf("return inside a loop")
			}})
		err = e
		t.ind -= 2
		res = t.pad() + "let " + m + " := fold_left (fun " + m + " " + lv + " =>\n" + inner + t.pad() + "  ) " + over + " " + m + " in\n"
	}
	t.vars = saved
	return res, err
}

// ---------------------------------------------------------------- MergeStreamReaders

// c08Merge recognises the skeleton of MergeStreamReaders (two early returns, the loop over the arguments
// with its switch over sr.typ — one append per case —, the array-only result, the stream built from
// the array arguments, the merged result) and translates the expressions in it.
func c08Merge(f *ast.File) (string, error) {
	fn := topFunc(f, "MergeStreamReaders")
	if fn == nil || fn.Body == nil || strings.Join(c08Params(fn), ",") != "srs:[]*StreamReader[T]" {
		return "", fmt.Errorf("func MergeStreamReaders(srs []*StreamReader[T]) not found")
	}
	t := &c08Tr{fn: "MergeStreamReaders", vars: map[string]string{"srs": "list:rd"}, ignored: map[string]bool{},
		alias: map[string][2]string{"ss": {"(m_ss acc)", "list:nat"}, "arr": {"(m_arr acc)", "list:N"}}, ind: 1}
	var sts []ast.Stmt
	for _, st := range fn.Body.List {
		if !t.droppable(st) {
			sts = append(sts, st)
		}
	}
	if len(sts) != 7 {
		return "", t.errf("%d statements (7 expected)", len(sts))
	}
	earlyRet := func(st ast.Stmt) (cond string, ret ast.Expr, err error) {
		is, ok := st.(*ast.IfStmt)
		if !ok || is.Init != nil || is.Else != nil || len(is.Body.List) != 1 {
			return "", nil, t.errf("early return shape")
		}
		rs, ok := is.Body.List[0].(*ast.ReturnStmt)
		if !ok || len(rs.Results) != 1 {
			return "", nil, t.errf("early return shape")
		}
		c, k, err := t.expr(is.Cond, "bool")
		if err != nil || k != "bool" {
			return "", nil, t.errf("early return condition %s", c08Sel(is.Cond))
		}
		return c, rs.Results[0], nil
	}
	c1, r1, err := earlyRet(sts[0])
	if err != nil {
		return "", err
	}
	if c08Sel(r1) != "nil" {
		return "", t.errf("first early return is not nil")
	}
	c2, r2, err := earlyRet(sts[1])
	if err != nil {
		return "", err
	}
	e2, k2, err := t.expr(r2, "rd")
	if err != nil || k2 != "rd" {
		return "", t.errf("second early return %s", c08Sel(r2))
	}
	for i, want := range []string{"arr:[]T", "ss:[]*stream[T]"} {
		ds, ok := sts[2+i].(*ast.DeclStmt)
		if !ok {
			return "", t.errf("declaration of the slices")
		}
		vs := ds.Decl.(*ast.GenDecl).Specs[0].(*ast.ValueSpec)
		if len(vs.Names) != 1 || len(vs.Values) != 0 || vs.Names[0].Name+":"+c08Sel(vs.Type) != want {
			return "", t.errf("declaration %s", vs.Names[0].Name)
		}
	}
	// the loop
	loop, ok := sts[4].(*ast.RangeStmt)
	if !ok || c08Sel(loop.X) != "srs" || loop.Value == nil || c08Sel(loop.Key) != "_" || len(loop.Body.List) != 1 {
		return "", t.errf("loop over srs")
	}
	sr := c08Sel(loop.Value)
	sw, ok := loop.Body.List[0].(*ast.SwitchStmt)
	if !ok || sw.Init != nil || c08Sel(sw.Tag) != sr+".typ" {
		return "", t.errf("switch over %s.typ", sr)
	}
	t.vars[sr] = "rd"
	t.alias[sr+".st"] = [2]string{"(rd_st " + sr + ")", "nat"}
	t.alias[sr+".ar.arr"] = [2]string{"(rd_arr " + sr + ")", "list:N"}
	t.alias[sr+".ar.index"] = [2]string{"(rd_index " + sr + ")", "nat"}
	t.alias[sr+".msr.sts"] = [2]string{"(rd_sts " + sr + ")", "list:nat"}
	tags := map[string]string{"readerTypeStream": "TStream", "readerTypeArray": "TArray", "readerTypeMultiStream": "TMulti",
		"readerTypeWithConvert": "TConv", "readerTypeChild": "TChild"}
	var arms []string
	seen := map[string]bool{}
	appendTo := func(st ast.Stmt) (string, error) { // X = append(X, ARG[...])
		as, ok := st.(*ast.AssignStmt)
		if !ok || as.Tok != token.ASSIGN || len(as.Lhs) != 1 || len(as.Rhs) != 1 {
			return "", t.errf("statement in a case of the switch")
		}
		x := c08Sel(as.Lhs[0])
		call, ok := as.Rhs[0].(*ast.CallExpr)
		if !ok || c08Sel(call.Fun) != "append" || len(call.Args) != 2 || c08Sel(call.Args[0]) != x || (x != "ss" && x != "arr") {
			return "", t.errf("statement %s = %s", x, c08Sel(as.Rhs[0]))
		}
		set, get, ek := "set_m_ss", "(m_ss acc)", "nat"
		if x == "arr" {
			set, get, ek = "set_m_arr", "(m_arr acc)", "N"
		}
		arg := call.Args[1]
		pre := ""
		var a, k string
		if c, ok := arg.(*ast.CallExpr); ok && len(c.Args) == 0 && !call.Ellipsis.IsValid() {
			switch c08Sel(c.Fun) {
			case sr + ".srw.toStream":
				pre, a, k = "let '(acc, s) := to_stream conv_fwd_cap acc "+sr+" in ", "s", "nat"
			case sr + ".csr.toStream":
				pre, a, k = "let '(acc, s) := to_stream child_fwd_cap acc "+sr+" in ", "s", "nat"
			default:
				return "", t.errf("call %s", c08Sel(c.Fun))
			}
		} else {
			var err error
			a, k, err = t.expr(arg, "")
			if err != nil {
				return "", err
			}
		}
		if call.Ellipsis.IsValid() {
			if k != "list:"+ek {
				return "", t.errf("append of kind %s to %s", k, x)
			}
			return pre + set + " acc (" + get + " ++ " + a + ")", nil
		}
		if k != ek {
			return "", t.errf("append of kind %s to %s", k, x)
		}
		return pre + set + " acc (" + get + " ++ [" + a + "])", nil
	}
	for _, cc := range sw.Body.List {
		c := cc.(*ast.CaseClause)
		if c.List == nil {
			if len(c.Body) != 1 || !strings.HasPrefix(c08Sel(c.Body[0].(*ast.ExprStmt).X), "panic(") {
				return "", t.errf("default case")
			}
			continue
		}
		if len(c.List) != 1 || len(c.Body) != 1 {
			return "", t.errf("case shape")
		}
		tag, ok := tags[c08Sel(c.List[0])]
		if !ok || seen[tag] {
			return "", t.errf("case %s", c08Sel(c.List[0]))
		}
		seen[tag] = true
		body, err := appendTo(c.Body[0])
		if err != nil {
			return "", err
		}
		arms = append(arms, "          | "+tag+" => "+body)
	}
	if len(seen) != len(tags) {
		return "", t.errf("the switch has %d of the %d reader kinds", len(seen), len(tags))
	}
	delete(t.vars, sr)
	for k := range t.alias {
		if strings.HasPrefix(k, sr+".") {
			delete(t.alias, k)
		}
	}
	// the tail
	tail, ok := sts[5].(*ast.IfStmt)
	if !ok || tail.Init != nil || len(tail.Body.List) != 1 {
		return "", t.errf("the test for the array-only result")
	}
	c3, k3, err := t.expr(tail.Cond, "bool")
	if err != nil || k3 != "bool" {
		return "", t.errf("condition %s", c08Sel(tail.Cond))
	}
	readerLit := func(e ast.Expr, typ string) (map[string]ast.Expr, error) {
		u, ok := e.(*ast.UnaryExpr)
		if !ok || u.Op != token.AND {
			return nil, t.errf("result %s", c08Sel(e))
		}
		cl, ok := u.X.(*ast.CompositeLit)
		if !ok || !strings.HasPrefix(c08Sel(cl.Type), "StreamReader[") {
			return nil, t.errf("result %s", c08Sel(e))
		}
		m := map[string]ast.Expr{}
		for _, el := range cl.Elts {
			kv, ok := el.(*ast.KeyValueExpr)
			if !ok {
				return nil, t.errf("StreamReader literal without keys")
			}
			m[c08Sel(kv.Key)] = kv.Value
		}
		if len(m) != 2 || m["typ"] == nil || c08Sel(m["typ"]) != typ {
			return nil, t.errf("StreamReader literal is not of typ %s", typ)
		}
		return m, nil
	}
	rs, ok := tail.Body.List[0].(*ast.ReturnStmt)
	if !ok || len(rs.Results) != 1 {
		return "", t.errf("array-only result")
	}
	am, err := readerLit(rs.Results[0], "readerTypeArray")
	if err != nil {
		return "", err
	}
	if am["ar"] == nil {
		return "", t.errf("array-only result without ar")
	}
	ar, ark, err := t.expr(am["ar"], "arrd")
	if err != nil || ark != "arrd" || !strings.HasPrefix(ar, "(mkArrd ") {
		return "", t.errf("array-only result: %s", c08Sel(am["ar"]))
	}
	arrayRes := "(Some (mk_array_reader " + strings.TrimSuffix(strings.TrimPrefix(ar, "(mkArrd "), ")") + "), acc)"
	els, ok := tail.Else.(*ast.IfStmt)
	if !ok || els.Init != nil || els.Else != nil || len(els.Body.List) != 4 {
		return "", t.errf("the block that builds a stream from the array arguments")
	}
	c4, k4, err := t.expr(els.Cond, "bool")
	if err != nil || k4 != "bool" {
		return "", t.errf("condition %s", c08Sel(els.Cond))
	}
	ns, ok := els.Body.List[0].(*ast.AssignStmt)
	if !ok || ns.Tok != token.DEFINE || len(ns.Lhs) != 1 {
		return "", t.errf("newStream statement")
	}
	sv := c08Sel(ns.Lhs[0])
	nc, ok := ns.Rhs[0].(*ast.CallExpr)
	if !ok || c08Sel(nc.Fun) != "newStream[T]" || len(nc.Args) != 1 {
		return "", t.errf("newStream statement")
	}
	capE, capK, err := t.expr(nc.Args[0], "nat")
	if err != nil || capK != "nat" {
		return "", t.errf("capacity %s", c08Sel(nc.Args[0]))
	}
	fill, ok := els.Body.List[1].(*ast.RangeStmt)
	if !ok || fill.Value != nil || fill.Tok != token.DEFINE || len(fill.Body.List) != 1 {
		return "", t.errf("the loop that fills the stream")
	}
	over, overK, err := t.expr(fill.X, "")
	if err != nil || !strings.HasPrefix(overK, "list:") {
		return "", t.errf("the loop that fills the stream ranges over %s", c08Sel(fill.X))
	}
	iv := c08Sel(fill.Key)
	t.vars[iv] = "nat"
	t.vars[sv] = "nat"
	se, ok := fill.Body.List[0].(*ast.ExprStmt)
	if !ok {
		return "", t.errf("the loop that fills the stream")
	}
	sc, ok := se.X.(*ast.CallExpr)
	if !ok || c08Sel(sc.Fun) != sv+".send" || len(sc.Args) != 2 {
		return "", t.errf("the loop that fills the stream calls %s", c08Sel(se.X))
	}
	ch, chK, err := t.expr(sc.Args[0], "N")
	if err != nil || chK != "N" {
		return "", t.errf("chunk %s", c08Sel(sc.Args[0]))
	}
	er, erK, err := t.expr(sc.Args[1], "err")
	if err != nil || erK != "err" {
		return "", t.errf("error %s", c08Sel(sc.Args[1]))
	}
	delete(t.vars, iv)
	cs, ok := els.Body.List[2].(*ast.ExprStmt)
	if !ok || c08Sel(cs.X) != sv+".closeSend()" {
		return "", t.errf("closeSend statement")
	}
	srSaved := sr
	sr = "" // appendTo outside the loop: no reader variable, plain values only
	app, err := appendTo(els.Body.List[3])
	if err != nil {
		return "", err
	}
	fin, ok := sts[6].(*ast.ReturnStmt)
	if !ok || len(fin.Results) != 1 {
		return "", t.errf("final return")
	}
	mm, err := readerLit(fin.Results[0], "readerTypeMultiStream")
	if err != nil {
		return "", err
	}
	mc, ok := mm["msr"].(*ast.CallExpr)
	if !ok || c08Sel(mc.Fun) != "newMultiStreamReader" || len(mc.Args) != 1 {
		return "", t.errf("final return: %v", mm["msr"])
	}
	ma, mk, err := t.expr(mc.Args[0], "list:nat")
	if err != nil || mk != "list:nat" {
		return "", t.errf("final return: newMultiStreamReader(%s)", c08Sel(mc.Args[0]))
	}
	multiRes := "(Some (mk_multi_reader (msr_new " + ma + ")), acc)"
	var b strings.Builder
	b.WriteString("Definition merge_readers (srs : list rd) (acc : macc) : option rd * macc :=\n")
	b.WriteString("  if " + c1 + " then\n    (None, acc)\n  else\n")
	b.WriteString("    if " + c2 + " then\n      (Some " + e2 + ", acc)\n    else\n")
	b.WriteString("      let acc := fold_left (fun acc " + srSaved + " =>\n          match rd_typ " + srSaved + " with\n" + strings.Join(arms, "\n") + "\n          end) srs acc in\n")
	b.WriteString("      if " + c3 + " then\n        " + arrayRes + "\n      else\n")
	b.WriteString("        if " + c4 + " then\n")
	b.WriteString("          let '(acc, " + sv + ") := new_stream_in acc " + capE + " in\n")
	b.WriteString("          let acc := fold_left (fun acc " + iv + " => stream_send_in acc " + sv + " (" + ch + ", " + er + ")) (seq 0 (List.length " + over + ")) acc in\n")
	b.WriteString("          let acc := close_send_in acc " + sv + " in\n")
	b.WriteString("          let acc := " + app + " in\n")
	b.WriteString("          " + multiRes + "\n        else\n          " + multiRes + ".\n\n")
	return b.String(), nil
}

// ---------------------------------------------------------------- the functions

func c08Method(f *ast.File, recvType, name string) (*ast.FuncDecl, string) {
	for _, d := range f.Decls {
		fn, ok := d.(*ast.FuncDecl)
		if !ok || fn.Name.Name != name || fn.Recv == nil || len(fn.Recv.List) != 1 || fn.Body == nil {
			continue
		}
		ty := squash(types.ExprString(fn.Recv.List[0].Type))
		if ty == "*"+recvType+"[T]" && len(fn.Recv.List[0].Names) == 1 {
			return fn, fn.Recv.List[0].Names[0].Name
		}
	}
	return nil, ""
}

func c08Params(fn *ast.FuncDecl) []string {
	var out []string
	for _, p := range fn.Type.Params.List {
		for _, n := range p.Names {
			out = append(out, n.Name+":"+squash(types.ExprString(p.Type)))
		}
	}
	return out
}

func (t *c08Tr) pairReturn(suffix string) func([]ast.Expr) (string, error) {
	return func(vals []ast.Expr) (string, error) {
		if len(vals) != 2 {
			return "", t.errf("return with %d values", len(vals))
		}
		a, ak, err := t.expr(vals[0], "N")
		if err != nil {
			return "", err
		}
		b, bk, err := t.expr(vals[1], "err")
		if err != nil {
			return "", err
		}
		if ak != "N" || bk != "err" {
			return "", t.errf("return of kinds %s, %s", ak, bk)
		}
		return fmt.Sprintf(suffix, "("+a+", "+b+")"), nil
	}
}

// c08RetireLoop finds the loop of multiStreamReader.recv that removes the index of an ended source
// from chosenList, and the name of the variable that holds that index: the one range loop over
// <rv>.chosenList in recv (`var chosen int` declared there), or — helper extraction — the single
// statement of a private method `func (<rv> *multiStreamReader[T]) m(x int)` that recv calls exactly
// once, as a statement, with a variable as argument.  The loop is normalised (c08NormaliseRetire).
func c08RetireLoop(f *ast.File, fn *ast.FuncDecl, rv string, t *c08Tr) (*ast.RangeStmt, string, error) {
	loopsOf := func(body *ast.BlockStmt) []*ast.RangeStmt {
		var loops []*ast.RangeStmt
		ast.Inspect(body, func(n ast.Node) bool {
			if x, ok := n.(*ast.RangeStmt); ok && c08Sel(x.X) == rv+".chosenList" {
				loops = append(loops, x)
			}
			return true
		})
		return loops
	}
	loops := loopsOf(fn.Body)
	if len(loops) == 1 {
		declared := false
		ast.Inspect(fn.Body, func(n ast.Node) bool {
			if x, ok := n.(*ast.ValueSpec); ok && len(x.Names) == 1 && x.Names[0].Name == "chosen" && c08Sel(x.Type) == "int" {
				declared = true
			}
			return true
		})
		if !declared {
			return nil, "", t.errf("`var chosen int` not declared")
		}
		l, err := c08NormaliseRetire(loops[0], false, t)
		return l, "chosen", err
	}
	if len(loops) > 1 {
		return nil, "", t.errf("%d loops over %s.chosenList", len(loops), rv)
	}
	// no loop in recv: a helper method called once
	type cand struct {
		m    *ast.FuncDecl
		loop *ast.RangeStmt
	}
	var cands []cand
	calls := map[string]int{}
	ast.Inspect(fn.Body, func(n ast.Node) bool {
		c, ok := n.(*ast.CallExpr)
		if !ok {
			return true
		}
		if sel, ok := c.Fun.(*ast.SelectorExpr); ok && c08Sel(sel.X) == rv {
			calls[sel.Sel.Name]++
		}
		return true
	})
	for _, st := range c08AllStmts(fn.Body) {
		es, ok := st.(*ast.ExprStmt)
		if !ok {
			continue
		}
		c, ok := es.X.(*ast.CallExpr)
		if !ok || len(c.Args) != 1 {
			continue
		}
		sel, ok := c.Fun.(*ast.SelectorExpr)
		if !ok || c08Sel(sel.X) != rv {
			continue
		}
		if _, ok := c.Args[0].(*ast.Ident); !ok {
			continue
		}
		m, mrv := c08Method(f, "multiStreamReader", sel.Sel.Name)
		if m == nil || m.Body == nil || mrv != rv || ast.IsExported(m.Name.Name) || (m.Type.Results != nil && len(m.Type.Results.List) != 0) {
			continue
		}
		ps := c08Params(m)
		if len(ps) != 1 || !strings.HasSuffix(ps[0], ":int") {
			continue
		}
		ls := loopsOf(m.Body)
		if len(ls) != 1 {
			continue
		}
		if calls[sel.Sel.Name] != 1 {
			return nil, "", t.errf("helper %s is called %d times", sel.Sel.Name, calls[sel.Sel.Name])
		}
		// the loop is the whole body of the helper
		var rest []ast.Stmt
		for _, s := range m.Body.List {
			if !t.droppable(s) {
				rest = append(rest, s)
			}
		}
		if len(rest) != 1 || rest[0] != ast.Stmt(ls[0]) {
			return nil, "", t.errf("helper %s does more than the loop over %s.chosenList", sel.Sel.Name, rv)
		}
		cands = append(cands, cand{m, ls[0]})
	}
	if len(cands) != 1 {
		return nil, "", t.errf("0 loops over %s.chosenList in recv and %d helper methods holding one", rv, len(cands))
	}
	t.fn = "multiStreamReader." + cands[0].m.Name.Name + " (retire loop, called by recv)"
	l, err := c08NormaliseRetire(cands[0].loop, true, t)
	return l, strings.TrimSuffix(c08Params(cands[0].m)[0], ":int"), err
}

// every statement of a block, nested ones included (function literals excluded)
func c08AllStmts(b *ast.BlockStmt) []ast.Stmt {
	var out []ast.Stmt
	ast.Inspect(b, func(n ast.Node) bool {
		if _, ok := n.(*ast.FuncLit); ok {
			return false
		}
		if s, ok := n.(ast.Stmt); ok {
			out = append(out, s)
		}
		return true
	})
	return out
}

// c08NormaliseRetire rewrites two harmless variations of a range loop into the shape t.loop knows:
//   - `for i, v := range X { if <cond over v> ... }` with v used nowhere but in the condition of the
//     first statement (i.e. before X can have been assigned to): `for i := range X`, v replaced by X[i];
//   - when the loop is the last statement of a function without results (lastOfFunc): a bare `return`
//     in the loop body (not inside a nested loop / switch / select / function literal, where break
//     means something else) is `break`.
func c08NormaliseRetire(loop *ast.RangeStmt, lastOfFunc bool, t *c08Tr) (*ast.RangeStmt, error) {
	key, _ := loop.Key.(*ast.Ident)
	val, _ := loop.Value.(*ast.Ident)
	if key != nil && key.Name != "_" && val != nil && val.Name != "_" {
		if len(loop.Body.List) == 0 {
			return nil, t.errf("empty loop body")
		}
		first, ok := loop.Body.List[0].(*ast.IfStmt)
		if !ok || first.Init != nil {
			return nil, t.errf("range loop with key and value whose body does not start with an if")
		}
		count := func(n ast.Node) int {
			k := 0
			ast.Inspect(n, func(x ast.Node) bool {
				if id, ok := x.(*ast.Ident); ok && id.Name == val.Name {
					k++
				}
				return true
			})
			return k
		}
		if count(loop.Body) != count(first.Cond) {
			return nil, t.errf("range value %s is used after the first test", val.Name)
		}
		first.Cond = c08SubstIdent(first.Cond, val.Name, func() ast.Expr {
			return &ast.IndexExpr{X: loop.X, Index: ast.NewIdent(key.Name)}
		})
		loop.Value = nil
	}
	if lastOfFunc {
		var bad error
		var walk func(list []ast.Stmt)
		walk = func(list []ast.Stmt) {
			for i, s := range list {
				switch x := s.(type) {
				case *ast.ReturnStmt:
					if len(x.Results) != 0 {
						bad = t.errf("return with values inside the loop")
						return
					}
					list[i] = &ast.BranchStmt{TokPos: x.Pos(), Tok: token.BREAK}
				case *ast.IfStmt:
					walk(x.Body.List)
					switch e := x.Else.(type) {
					case *ast.BlockStmt:
						walk(e.List)
					case *ast.IfStmt:
						walk([]ast.Stmt{e})
					}
				case *ast.BlockStmt:
					walk(x.List)
				default:
					ast.Inspect(s, func(n ast.Node) bool {
						if _, ok := n.(*ast.ReturnStmt); ok {
							bad = t.errf("return nested in a %T inside the loop", s)
						}
						return true
					})
				}
			}
		}
		walk(loop.Body.List)
		if bad != nil {
			return nil, bad
		}
	}
	return loop, nil
}

// e with every identifier named name replaced by a fresh mk() (binary / unary / paren / call / index
// expressions are rebuilt in place)
func c08SubstIdent(e ast.Expr, name string, mk func() ast.Expr) ast.Expr {
	switch x := e.(type) {
	case *ast.Ident:
		if x.Name == name {
			return mk()
		}
	case *ast.ParenExpr:
		x.X = c08SubstIdent(x.X, name, mk)
	case *ast.UnaryExpr:
		x.X = c08SubstIdent(x.X, name, mk)
	case *ast.BinaryExpr:
		x.X = c08SubstIdent(x.X, name, mk)
		x.Y = c08SubstIdent(x.Y, name, mk)
	case *ast.IndexExpr:
		x.X = c08SubstIdent(x.X, name, mk)
		x.Index = c08SubstIdent(x.Index, name, mk)
	case *ast.CallExpr:
		for i := range x.Args {
			x.Args[i] = c08SubstIdent(x.Args[i], name, mk)
		}
	}
	return e
}

// c08InlineForwarder: if the body of fn (a method with receiver rv) is the single statement
// `return h(rv.m1, rv.m2, ...)` where h is a private top-level function of schema/stream.go whose
// parameters are all of function type, the result is the body of h in which every call of a parameter
// is the call of the method that was passed for it (from a fresh parse of the file: the body is
// rewritten in place, and h is shared by several callers).  (nil, "", nil) if fn has another shape.
// A parameter that is used otherwise than being called is not recognised.
func c08InlineForwarder(repo string, fn *ast.FuncDecl, rv string) (*ast.BlockStmt, string, error) {
	if fn.Body == nil || len(fn.Body.List) != 1 {
		return nil, "", nil
	}
	ret, ok := fn.Body.List[0].(*ast.ReturnStmt)
	if !ok || len(ret.Results) != 1 {
		return nil, "", nil
	}
	call, ok := ret.Results[0].(*ast.CallExpr)
	if !ok {
		return nil, "", nil
	}
	fun := call.Fun
	if ix, ok := fun.(*ast.IndexExpr); ok { // h[T](...)
		fun = ix.X
	}
	hid, ok := fun.(*ast.Ident)
	if !ok || ast.IsExported(hid.Name) {
		return nil, "", nil
	}
	var methods []string
	for _, a := range call.Args {
		sel, ok := a.(*ast.SelectorExpr)
		if !ok || c08Sel(sel.X) != rv {
			return nil, "", nil
		}
		methods = append(methods, sel.Sel.Name)
	}
	f2, err := parser.ParseFile(token.NewFileSet(), filepath.Join(repo, "schema", "stream.go"), nil, 0)
	if err != nil {
		return nil, "", err
	}
	h := topFunc(f2, hid.Name)
	if h == nil || h.Body == nil {
		return nil, "", nil
	}
	var params []string
	for _, fl := range h.Type.Params.List {
		if _, ok := fl.Type.(*ast.FuncType); !ok {
			return nil, "", fmt.Errorf("helper %s: parameter of a type that is not a function type", hid.Name)
		}
		for _, nm := range fl.Names {
			params = append(params, nm.Name)
		}
	}
	if len(params) != len(methods) || len(params) == 0 {
		return nil, "", fmt.Errorf("helper %s: %d parameters for %d arguments", hid.Name, len(params), len(methods))
	}
	to := map[string]string{}
	for i, p := range params {
		to[p] = methods[i]
	}
	called := map[*ast.Ident]bool{}
	ast.Inspect(h.Body, func(n ast.Node) bool {
		if c, ok := n.(*ast.CallExpr); ok {
			if id, ok := c.Fun.(*ast.Ident); ok && to[id.Name] != "" {
				x, m := ast.NewIdent(rv), ast.NewIdent(to[id.Name])
				called[id], called[x], called[m] = true, true, true // (the method may be named like the parameter)
				c.Fun = &ast.SelectorExpr{X: x, Sel: m}
			}
		}
		return true
	})
	var bad error
	ast.Inspect(h.Body, func(n ast.Node) bool {
		if id, ok := n.(*ast.Ident); ok && to[id.Name] != "" && !called[id] {
			bad = fmt.Errorf("helper %s: parameter %s is used otherwise than being called", hid.Name, id.Name)
		}
		return true
	})
	if bad != nil {
		return nil, "", bad
	}
	return h.Body, hid.Name, nil
}

func c08ExtractStreamCode(repo string) (string, string, error) {
	fset := token.NewFileSet()
	f, err := parser.ParseFile(fset, filepath.Join(repo, "schema", "stream.go"), nil, 0)
	if err != nil {
		return "", "", err
	}
	var b strings.Builder
	b.WriteString("(* Gen/StreamCode.v — GENERATED by tools/go2v (extractor \"streamcode\") from schema/stream.go. Do not edit. *)\n")
	b.WriteString("From Eino Require Import Base.Util Model.Stream Model.StreamGenLib.\n\n")

	// (*arrayReader).recv
	{
		fn, rv := c08Method(f, "arrayReader", "recv")
		if fn == nil || len(c08Params(fn)) != 0 {
			return "", "", fmt.Errorf("method (*arrayReader[T]).recv() not found")
		}
		t := &c08Tr{fn: "arrayReader.recv", recv: rv, rkind: "arrd", vars: map[string]string{}, ignored: map[string]bool{}, ind: 1}
		if rv != "ar" {
			return "", "", t.errf("receiver is named %s", rv)
		}
		body, err := t.stmts(fn.Body.List, c08Ctx{
			onEnd:    func() string { return "((0%N, ENil), ar) (* unreachable: a function with results ends in return *)" },
			onReturn: t.pairReturn("(%s, ar)")})
		if err != nil {
			return "", "", err
		}
		b.WriteString("Definition array_recv (ar : arrd) : gopair * arrd :=\n" + strings.TrimRight(body, "\n") + ".\n\n")
	}
	// (*arrayReader).copy
	{
		fn, rv := c08Method(f, "arrayReader", "copy")
		if fn == nil || strings.Join(c08Params(fn), ",") != "n:int" {
			return "", "", fmt.Errorf("method (*arrayReader[T]).copy(n int) not found")
		}
		t := &c08Tr{fn: "arrayReader.copy", recv: rv, rkind: "arrd", vars: map[string]string{"n": "nat"}, ignored: map[string]bool{}, ind: 1}
		if rv != "ar" {
			return "", "", t.errf("receiver is named %s", rv)
		}
		body, err := t.stmts(fn.Body.List, c08Ctx{
			onEnd: func() string { return "[]" },
			onReturn: func(vals []ast.Expr) (string, error) {
				if len(vals) != 1 {
					return "", t.errf("return with %d values", len(vals))
				}
				a, k, err := t.expr(vals[0], "list:arrd")
				if err != nil {
					return "", err
				}
				if k != "list:arrd" {
					return "", t.errf("return of kind %s", k)
				}
				return a, nil
			}})
		if err != nil {
			return "", "", err
		}
		b.WriteString("Definition array_copy (ar : arrd) (n : nat) : list arrd :=\n" + strings.TrimRight(body, "\n") + ".\n\n")
	}
	// (*parentStreamReader).close
	{
		fn, rv := c08Method(f, "parentStreamReader", "close")
		if fn == nil || strings.Join(c08Params(fn), ",") != "idx:int" {
			return "", "", fmt.Errorf("method (*parentStreamReader[T]).close(idx int) not found")
		}
		t := &c08Tr{fn: "parentStreamReader.close", recv: rv, rkind: "parent", vars: map[string]string{"idx": "nat"}, ignored: map[string]bool{}, ind: 1}
		if rv != "p" {
			return "", "", t.errf("receiver is named %s", rv)
		}
		end := func() string { return "(p, ev)" }
		body, err := t.stmts(fn.Body.List, c08Ctx{onEnd: end, onReturn: func(vals []ast.Expr) (string, error) {
			if len(vals) != 0 {
				return "", t.errf("return with values")
			}
			return end(), nil
		}})
		if err != nil {
			return "", "", err
		}
		b.WriteString("Definition parent_close (p : parent) (idx : nat) (ev : list event) : parent * list event :=\n" + strings.TrimRight(body, "\n") + ".\n\n")
	}
	// newMultiStreamReader
	{
		fn := topFunc(f, "newMultiStreamReader")
		if fn == nil || fn.Body == nil || strings.Join(c08Params(fn), ",") != "sts:[]*stream[T]" {
			return "", "", fmt.Errorf("func newMultiStreamReader(sts []*stream[T]) not found")
		}
		t := &c08Tr{fn: "newMultiStreamReader", vars: map[string]string{"sts": "list:nat"}, ignored: map[string]bool{"itemsCases": true}, ind: 1}
		body, err := t.stmts(fn.Body.List, c08Ctx{
			onEnd: func() string { return "(mkMsrd [] [])" },
			onReturn: func(vals []ast.Expr) (string, error) {
				if len(vals) != 1 {
					return "", t.errf("return with %d values", len(vals))
				}
				a, k, err := t.expr(vals[0], "msrd")
				if err != nil {
					return "", err
				}
				if k != "msrd" {
					return "", t.errf("return of kind %s", k)
				}
				return a, nil
			}})
		if err != nil {
			return "", "", err
		}
		b.WriteString("Definition msr_new (sts : list nat) : msrd :=\n" + strings.TrimRight(body, "\n") + ".\n\n")
	}
	// (*multiStreamReader).recv: the loop over msr.chosenList — in recv itself, or in a private method
	// of the reader that recv calls once with the index of the ended source (c08RetireLoop)
	{
		fn, rv := c08Method(f, "multiStreamReader", "recv")
		if fn == nil {
			return "", "", fmt.Errorf("method (*multiStreamReader[T]).recv not found")
		}
		t := &c08Tr{fn: "multiStreamReader.recv (retire loop)", recv: rv, rkind: "msrd", vars: map[string]string{}, ignored: map[string]bool{}, ind: 1}
		if rv != "msr" {
			return "", "", t.errf("receiver is named %s", rv)
		}
		loop, chosen, err := c08RetireLoop(f, fn, rv, t)
		if err != nil {
			return "", "", err
		}
		t.vars[chosen] = "nat"
		body, err := t.stmts([]ast.Stmt{loop}, c08Ctx{onEnd: func() string { return "msr" },
			onReturn: func([]ast.Expr) (string, error) { return "", t.errf("return inside the loop") }})
		if err != nil {
			return "", "", err
		}
		b.WriteString("Definition msr_retire (msr : msrd) (" + chosen + " : nat) : msrd :=\n" + strings.TrimRight(body, "\n") + ".\n\n")
	}
	// (*multiStreamReader).close
	{
		fn, rv := c08Method(f, "multiStreamReader", "close")
		if fn == nil || len(c08Params(fn)) != 0 {
			return "", "", fmt.Errorf("method (*multiStreamReader[T]).close() not found")
		}
		t := &c08Tr{fn: "multiStreamReader.close", recv: rv, rkind: "msrd", vars: map[string]string{}, ignored: map[string]bool{}, ind: 1}
		if rv != "msr" {
			return "", "", t.errf("receiver is named %s", rv)
		}
		end := func() string { return "(msr, ev)" }
		body, err := t.stmts(fn.Body.List, c08Ctx{onEnd: end, onReturn: func(vals []ast.Expr) (string, error) {
			if len(vals) != 0 {
				return "", t.errf("return with values")
			}
			return end(), nil
		}})
		if err != nil {
			return "", "", err
		}
		b.WriteString("Definition msr_close (msr : msrd) (ev : list event) : msrd * list event :=\n" + strings.TrimRight(body, "\n") + ".\n\n")
	}
	// (*streamReaderWithConvert).recv: one iteration of `for { … }`
	{
		fn, rv := c08Method(f, "streamReaderWithConvert", "recv")
		if fn == nil || len(c08Params(fn)) != 0 || len(fn.Body.List) != 1 {
			return "", "", fmt.Errorf("method (*streamReaderWithConvert[T]).recv() is not a single loop")
		}
		loop, ok := fn.Body.List[0].(*ast.ForStmt)
		if !ok || loop.Init != nil || loop.Cond != nil || loop.Post != nil {
			return "", "", fmt.Errorf("(*streamReaderWithConvert[T]).recv: not `for { … }`")
		}
		t := &c08Tr{fn: "streamReaderWithConvert.recv", recv: rv, rkind: "srw", vars: map[string]string{}, ignored: map[string]bool{}, srcCall: rv + ".sr.recvAny", ind: 1}
		body, err := t.stmts(loop.Body.List, c08Ctx{
			loop:     true,
			onEnd:    func() string { return "None" },
			onReturn: t.pairReturn("Some %s")})
		if err != nil {
			return "", "", err
		}
		b.WriteString("Definition conv_recv_iter (convert : goconv) (src : gopair) : option gopair :=\n" + strings.TrimRight(body, "\n") + ".\n\n")
	}
	// toStream of the converted reader and of the copy
	for _, ts := range [][2]string{{"streamReaderWithConvert", "conv"}, {"childStreamReader", "child"}} {
		fn, rv := c08Method(f, ts[0], "toStream")
		if fn == nil {
			return "", "", fmt.Errorf("method (*%s[T]).toStream not found", ts[0])
		}
		name := ts[0] + ".toStream"
		// helper extraction: `return h(rv.recv, rv.close)` with h a private function of the file that
		// takes the two methods as function values — its body with the methods put back (c08InlineForwarder)
		if body, hname, err := c08InlineForwarder(repo, fn, rv); err != nil {
			return "", "", fmt.Errorf("%s: %v", name, err)
		} else if body != nil {
			fn = &ast.FuncDecl{Name: fn.Name, Recv: fn.Recv, Type: fn.Type, Body: body}
			name += " (via " + hname + ")"
		}
		cp := -1
		var gofn *ast.FuncLit
		for _, s := range fn.Body.List {
			switch x := s.(type) {
			case *ast.AssignStmt:
				if len(x.Lhs) == 1 && c08Sel(x.Lhs[0]) == "ret" && x.Tok == token.DEFINE {
					if c, ok := x.Rhs[0].(*ast.CallExpr); ok && c08Sel(c.Fun) == "newStream[T]" && len(c.Args) == 1 {
						fmt.Sscanf(c08Sel(c.Args[0]), "%d", &cp)
					}
				}
			case *ast.GoStmt:
				if fl, ok := x.Call.Fun.(*ast.FuncLit); ok && gofn == nil {
					gofn = fl
				} else {
					return "", "", fmt.Errorf("%s: more than one goroutine", name)
				}
			case *ast.ReturnStmt:
				if len(x.Results) != 1 || c08Sel(x.Results[0]) != "ret" {
					return "", "", fmt.Errorf("%s: does not return ret", name)
				}
			default:
				return "", "", fmt.Errorf("%s: statement %T", name, s)
			}
		}
		if cp < 0 || gofn == nil {
			return "", "", fmt.Errorf("%s: `ret := newStream[T](k)` / `go func() { … }()` not found", name)
		}
		var loop *ast.ForStmt
		var deferred *ast.FuncLit
		for _, s := range gofn.Body.List {
			switch x := s.(type) {
			case *ast.ForStmt:
				if loop != nil || x.Init != nil || x.Cond != nil || x.Post != nil {
					return "", "", fmt.Errorf("%s: loop of the goroutine", name)
				}
				loop = x
			case *ast.DeferStmt:
				fl, ok := x.Call.Fun.(*ast.FuncLit)
				if !ok || deferred != nil || loop != nil {
					return "", "", fmt.Errorf("%s: deferred call", name)
				}
				deferred = fl
			case *ast.AssignStmt:
				if len(x.Lhs) != 1 || c08Sel(x.Lhs[0]) != "finished" {
					return "", "", fmt.Errorf("%s: statement %s in the goroutine", name, c08Sel(x.Lhs[0]))
				}
			default:
				return "", "", fmt.Errorf("%s: statement %T in the goroutine", name, s)
			}
		}
		if loop == nil || deferred == nil {
			return "", "", fmt.Errorf("%s: loop / deferred block not found", name)
		}
		t := &c08Tr{fn: name, recv: rv, rkind: "fwd", vars: map[string]string{"cl": "bool"}, ignored: map[string]bool{"panicErr": true, "finished": true}, srcCall: rv + ".recv", ind: 1}
		body, err := t.stmts(loop.Body.List, c08Ctx{
			loop:    true,
			onEnd:   func() string { return "(ev, false)" },
			onBreak: func() (string, error) { return "(ev, true)", nil },
			onReturn: func([]ast.Expr) (string, error) {
				return "", t.errf("return inside the loop")
			}})
		if err != nil {
			return "", "", err
		}
		t2 := &c08Tr{fn: name + " (deferred)", recv: rv, rkind: "fwd", vars: map[string]string{}, ignored: map[string]bool{"panicErr": true, "finished": true}, ind: 1}
		dbody, err := t2.stmts(deferred.Body.List, c08Ctx{
			onEnd: func() string { return "ev" },
			onReturn: func([]ast.Expr) (string, error) {
				return "", t2.errf("return inside the deferred block")
			}})
		if err != nil {
			return "", "", err
		}
		fmt.Fprintf(&b, "Definition %s_fwd_cap : nat := %d.\n", ts[1], cp)
		fmt.Fprintf(&b, "Definition %s_fwd_body (src : gopair) (cl : bool) (ev : list event) : list event * bool :=\n%s.\n", ts[1], strings.TrimRight(body, "\n"))
		fmt.Fprintf(&b, "Definition %s_fwd_deferred (ev : list event) : list event :=\n%s.\n\n", ts[1], strings.TrimRight(dbody, "\n"))
	}
	// (*parentStreamReader).peek on the heap picture of the linked list
	{
		fn, rv := c08Method(f, "parentStreamReader", "peek")
		if fn == nil || strings.Join(c08Params(fn), ",") != "idx:int" {
			return "", "", fmt.Errorf("method (*parentStreamReader[T]).peek(idx int) not found")
		}
		t := &c08Tr{fn: "parentStreamReader.peek", recv: rv, rkind: "gparent", heap: true, srcCall: rv + ".sr.Recv",
			vars: map[string]string{"idx": "nat", "pulled": "bool"}, ignored: map[string]bool{"received": true, "panicErr": true}, ind: 1}
		if rv != "p" {
			return "", "", t.errf("receiver is named %s", rv)
		}
		res := fn.Type.Results
		if res == nil || len(res.List) != 2 || len(res.List[0].Names) != 1 || len(res.List[1].Names) != 1 ||
			c08Sel(res.List[0].Type) != "T" || c08Sel(res.List[1].Type) != "error" {
			return "", "", t.errf("results are not (t T, err error)")
		}
		rt, re := res.List[0].Names[0].Name, res.List[1].Names[0].Name
		t.vars[rt], t.vars[re] = "N", "err"
		ret := func(vals []ast.Expr) (string, error) {
			if len(vals) == 0 {
				return "((" + rt + ", " + re + "), p, pulled)", nil
			}
			r, err := t.pairReturn("(%s, p, pulled)")(vals)
			return r, err
		}
		body, err := t.stmts(fn.Body.List, c08Ctx{onEnd: func() string { return "((" + rt + ", " + re + "), p, pulled)" }, onReturn: ret})
		if err != nil {
			return "", "", err
		}
		b.WriteString("Definition parent_peek (p : gparent) (idx : nat) (src : gopair) : gopair * gparent * bool :=\n" +
			"  let " + rt + " := 0%N in\n  let " + re + " := ENil in\n  let pulled := false in\n" + strings.TrimRight(body, "\n") + ".\n\n")
	}
	// MergeStreamReaders
	{
		txt, err := c08Merge(f)
		if err != nil {
			return "", "", err
		}
		b.WriteString(txt)
	}
	// (*stream).send: its select statements as data
	{
		fn, rv := c08Method(f, "stream", "send")
		if fn == nil || rv != "s" {
			return "", "", fmt.Errorf("method (*stream[T]).send not found")
		}
		if strings.Join(c08Params(fn), ",") != "chunk:T,err:error" {
			return "", "", fmt.Errorf("stream.send: parameters %v", c08Params(fn))
		}
		var sels []string
		itemOK := false
		for _, st := range fn.Body.List {
			switch x := st.(type) {
			case *ast.AssignStmt: // item := streamItem[T]{chunk, err}
				if len(x.Lhs) != 1 || c08Sel(x.Lhs[0]) != "item" {
					return "", "", fmt.Errorf("stream.send: statement %s", c08Sel(x.Lhs[0]))
				}
				cl, ok := x.Rhs[0].(*ast.CompositeLit)
				if !ok || len(cl.Elts) != 2 || c08Sel(cl.Elts[0]) != "chunk" || c08Sel(cl.Elts[1]) != "err" {
					return "", "", fmt.Errorf("stream.send: the item is not streamItem{chunk, err}")
				}
				itemOK = true
			case *ast.SelectStmt:
				var cases []string
				for _, cc := range x.Body.List {
					c := cc.(*ast.CommClause)
					retOf := func() (string, error) {
						if len(c.Body) != 1 {
							return "", fmt.Errorf("stream.send: a select case with %d statements", len(c.Body))
						}
						rs, ok := c.Body[0].(*ast.ReturnStmt)
						if !ok || len(rs.Results) != 1 || (c08Sel(rs.Results[0]) != "true" && c08Sel(rs.Results[0]) != "false") {
							return "", fmt.Errorf("stream.send: a select case does not return a constant")
						}
						return c08Sel(rs.Results[0]), nil
					}
					switch cm := c.Comm.(type) {
					case nil:
						if len(c.Body) != 0 {
							return "", "", fmt.Errorf("stream.send: default case with a body")
						}
						cases = append(cases, "SelDefault")
					case *ast.ExprStmt:
						if c08Sel(cm.X) != "<-s.closed" {
							return "", "", fmt.Errorf("stream.send: select case %s", c08Sel(cm.X))
						}
						r, err := retOf()
						if err != nil {
							return "", "", err
						}
						cases = append(cases, "SelRecvClosed "+r)
					case *ast.SendStmt:
						if c08Sel(cm.Chan) != "s.items" || c08Sel(cm.Value) != "item" || !itemOK {
							return "", "", fmt.Errorf("stream.send: select case %s <- %s", c08Sel(cm.Chan), c08Sel(cm.Value))
						}
						r, err := retOf()
						if err != nil {
							return "", "", err
						}
						cases = append(cases, "SelSendItem "+r)
					default:
						return "", "", fmt.Errorf("stream.send: select case %T", c.Comm)
					}
				}
				sels = append(sels, "["+strings.Join(cases, "; ")+"]")
			default:
				return "", "", fmt.Errorf("stream.send: statement %T", st)
			}
		}
		fmt.Fprintf(&b, "Definition send_selects : list (list selcase) :=\n  [ %s ].\n", strings.Join(sels, ";\n    "))
	}
	// (*stream).recv / closeSend / closeRecv: the channel operation they consist of (hooks dropped)
	for _, m := range [][2]string{{"recv", "recv_shape"}, {"closeSend", "close_send"}, {"closeRecv", "close_recv"}} {
		fn, rv := c08Method(f, "stream", m[0])
		if fn == nil || rv != "s" {
			return "", "", fmt.Errorf("method (*stream[T]).%s not found", m[0])
		}
		var sts []string
		for _, st := range fn.Body.List {
			if es, ok := st.(*ast.ExprStmt); ok {
				if c, ok := es.X.(*ast.CallExpr); ok {
					if id, ok := c.Fun.(*ast.Ident); ok && strings.HasPrefix(id.Name, "verif") {
						continue
					}
				}
			}
			var sb strings.Builder
			if err := printer.Fprint(&sb, fset, st); err != nil {
				return "", "", err
			}
			sts = append(sts, coqStr(squash(sb.String())))
		}
		if m[0] == "recv" {
			fmt.Fprintf(&b, "Definition %s : list string := [ %s ].\n", m[1], strings.Join(sts, "; "))
		} else {
			if len(sts) != 1 {
				return "", "", fmt.Errorf("stream.%s: %d statements", m[0], len(sts))
			}
			fmt.Fprintf(&b, "Definition %s : string := %s.\n", m[1], sts[0])
		}
	}
	b.WriteString("\n")
	// dispatch tables
	for _, m := range [][2]string{{"Recv", "recv_dispatch"}, {"Close", "close_dispatch"}} {
		fn, rv := c08Method(f, "StreamReader", m[0])
		if fn == nil || rv != "sr" {
			return "", "", fmt.Errorf("method (*StreamReader[T]).%s not found", m[0])
		}
		var sw *ast.SwitchStmt
		for _, s := range fn.Body.List {
			switch x := s.(type) {
			case *ast.SwitchStmt:
				if sw != nil {
					return "", "", fmt.Errorf("StreamReader.%s: two switches", m[0])
				}
				sw = x
			case *ast.ExprStmt:
				if c, ok := x.X.(*ast.CallExpr); !ok || !strings.HasPrefix(c08Sel(c.Fun), "verif") {
					return "", "", fmt.Errorf("StreamReader.%s: statement %s", m[0], c08Sel(x.X))
				}
			default:
				return "", "", fmt.Errorf("StreamReader.%s: statement %T", m[0], s)
			}
		}
		if sw == nil || sw.Init != nil || c08Sel(sw.Tag) != "sr.typ" {
			return "", "", fmt.Errorf("StreamReader.%s: no switch over sr.typ", m[0])
		}
		var rows []string
		for _, cc := range sw.Body.List {
			c := cc.(*ast.CaseClause)
			if c.List == nil { // default: panic("impossible")
				if len(c.Body) != 1 || !strings.HasPrefix(c08Sel(c.Body[0].(*ast.ExprStmt).X), "panic(") {
					return "", "", fmt.Errorf("StreamReader.%s: default case", m[0])
				}
				continue
			}
			if len(c.List) != 1 || len(c.Body) > 1 {
				return "", "", fmt.Errorf("StreamReader.%s: case shape", m[0])
			}
			act := ""
			if len(c.Body) == 1 {
				switch x := c.Body[0].(type) {
				case *ast.ReturnStmt:
					if len(x.Results) != 1 {
						return "", "", fmt.Errorf("StreamReader.%s: return", m[0])
					}
					act = c08Sel(x.Results[0])
				case *ast.ExprStmt:
					act = c08Sel(x.X)
				default:
					return "", "", fmt.Errorf("StreamReader.%s: case body", m[0])
				}
			}
			rows = append(rows, "("+coqStr(c08Sel(c.List[0]))+", "+coqStr(act)+")")
		}
		fmt.Fprintf(&b, "Definition %s : list (string * string) :=\n  [ %s ].\n", m[1], strings.Join(rows, ";\n    "))
	}
	{
		fn, _ := c08Method(f, "StreamReader", "Copy")
		if fn == nil || len(fn.Body.List) == 0 {
			return "", "", fmt.Errorf("method (*StreamReader[T]).Copy not found")
		}
		is, ok := fn.Body.List[0].(*ast.IfStmt)
		if !ok || is.Init != nil || len(is.Body.List) != 1 {
			return "", "", fmt.Errorf("StreamReader.Copy: first statement")
		}
		rs, ok := is.Body.List[0].(*ast.ReturnStmt)
		self := false
		if ok && len(rs.Results) == 1 {
			if cl, isCl := rs.Results[0].(*ast.CompositeLit); isCl && len(cl.Elts) == 1 && c08Sel(cl.Elts[0]) == "sr" {
				self = true
			}
		}
		if !self {
			return "", "", fmt.Errorf("StreamReader.Copy: first statement does not return the reader itself")
		}
		fmt.Fprintf(&b, "Definition copy_self_cond : string := %s.\n", coqStr(c08Sel(is.Cond)))
	}
	return "StreamCode.v", b.String(), nil
}
